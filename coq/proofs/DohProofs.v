From Coq Require Import List ZArith Bool Lia.
From Bfe Require Import lib.Val lib.ValProofs lib.Bytes model.Doh run.RunC56.
Import ListNotations.
Open Scope Z_scope.

Lemma bytes_eqb_refl a : bytes_eqb a a = true.
Proof. apply bytes_eqb_eq. reflexivity. Qed.

(* ---- client subnet ---- *)
Lemma client_subnet_matches cip e : client_subnet cip = Some e -> ecs_matches cip e = true.
Proof.
  unfold client_subnet, ecs_matches. destruct (to4 cip) as [a|] eqn:E.
  - intros H; injection H as <-. cbn. rewrite bytes_eqb_refl. reflexivity.
  - destruct (Nat.eqb (length cip) 16); [|discriminate]. intros H; injection H as <-. cbn.
    rewrite bytes_eqb_refl. reflexivity.
Qed.
Lemma client_subnet_valid cip : valid_ip cip = true -> client_subnet cip <> None.
Proof.
  unfold valid_ip, client_subnet, to4. destruct (Nat.eqb (length cip) 4); [discriminate|].
  cbn [orb]. intros ->. cbn [andb]. match goal with |- context [if ?c then _ else _] => destruct c end; discriminate.
Qed.
Lemma to4_length cip a : to4 cip = Some a -> length a = 4%nat.
Proof.
  unfold to4. destruct (Nat.eqb (length cip) 4) eqn:E4.
  - intros H; injection H as <-. apply Nat.eqb_eq. exact E4.
  - destruct (Nat.eqb (length cip) 16) eqn:E16; cbn [andb]; [|discriminate].
    match goal with |- (if ?c then _ else _) = _ -> _ => destruct c end; [|discriminate].
    intros H. assert (Ha : skipn 12 cip = a) by congruence. rewrite <- Ha.
    apply Nat.eqb_eq in E16. rewrite skipn_length, E16. reflexivity.
Qed.

Lemma forwarded_inv o q canon ne no udp ttl e :
  request_to_dns_msg o q = Forwarded canon ne no udp ttl e ->
  exists buf p cip, code_buffer q = Some buf /\ unpack o buf = Some p /\ canon = p_canon p
                /\ ne = p_nextra p + 1 /\ no = p_nopt p + 1
                /\ client_ip q = Some cip /\ client_subnet cip = Some e.
Proof.
  unfold request_to_dns_msg. destruct (code_buffer q) as [buf|]; [|discriminate].
  destruct (unpack o buf) as [p|] eqn:Ep; [|discriminate].
  destruct (client_ip q) as [cip|]; [|discriminate].
  destruct (client_subnet cip) as [e'|] eqn:Ee; [|discriminate].
  intros H; injection H as <- <- <- _ _ <-. exists buf, p, cip. repeat split; try reflexivity; assumption.
Qed.
(* nothing is appended without a remote address *)
Lemma plain_inv o q canon ne no :
  request_to_dns_msg o q = ForwardedPlain canon ne no ->
  d_remote q = None /\ exists buf p, code_buffer q = Some buf /\ unpack o buf = Some p /\ canon = p_canon p
                /\ ne = p_nextra p /\ no = p_nopt p.
Proof.
  unfold request_to_dns_msg. destruct (code_buffer q) as [buf|]; [|discriminate].
  destruct (unpack o buf) as [p|] eqn:Ep; [|discriminate].
  unfold client_ip. destruct (d_remote q) as [r|].
  - destruct (client_subnet _); discriminate.
  - intros H; injection H as <- <- <-. split; [reflexivity|]. exists buf, p. repeat split; try reflexivity; assumption.
Qed.

(* family / prefix length / address of the appended option *)
Lemma family_prefix o q canon ne no udp ttl e :
  request_to_dns_msg o q = Forwarded canon ne no udp ttl e ->
  exists cip, client_ip q = Some cip /\ e_scope e = 0 /\
  match to4 cip with
  | Some a => e_family e = 1 /\ e_mask e = 32 /\ e_addr e = a /\ length a = 4%nat
  | None => e_family e = 2 /\ e_mask e = 128 /\ e_addr e = cip /\ length cip = 16%nat
  end.
Proof.
  intros H. apply forwarded_inv in H. destruct H as [buf [p [cip [_ [_ [_ [_ [_ [Hc He]]]]]]]]].
  exists cip. split; [exact Hc|].
  unfold client_subnet in He. destruct (to4 cip) as [a|] eqn:E.
  - injection He as <-. cbn. repeat split. eapply to4_length. exact E.
  - destruct (Nat.eqb (length cip) 16) eqn:E16; [|discriminate]. injection He as <-. cbn.
    repeat split. apply Nat.eqb_eq. exact E16.
Qed.

Lemma malformed_rejected o q :
  (code_buffer q = None \/ exists buf, code_buffer q = Some buf /\ unpack o buf = None) ->
  request_to_dns_msg o q = Rejected.
Proof.
  unfold request_to_dns_msg. intros [-> | [buf [-> ->]]]; reflexivity.
Qed.
(* a body reader failure before the limit rejects the request *)
Lemma read_error_rejected o q k :
  d_method q = s_POST -> d_fail q = Some k -> k < d_limit q -> request_to_dns_msg o q = Rejected.
Proof.
  intros Hm Hf Hk. apply malformed_rejected. left. unfold code_buffer, post_buffer. rewrite Hm, Hf.
  change (bytes_eqb s_POST s_GET) with false. cbn iota. rewrite bytes_eqb_refl.
  assert (E : (k <? d_limit q) = true) by (apply Z.ltb_lt; exact Hk). rewrite E. reflexivity.
Qed.

Lemma firstn_all_Z (l : bytes) n : blen l <= n -> firstn (Z.to_nat n) l = l.
Proof. unfold blen. intros H. apply firstn_all2. lia. Qed.

(* POST bodies longer than the limit are rejected unless the truncated prefix parses (finding class 1) *)
Lemma oversize_rejected_partial o q :
  d_method q = s_POST -> d_limit q < blen (d_body q) -> kf_truncated o q = false ->
  request_to_dns_msg o q = Rejected.
Proof.
  intros Hm Hl Hk. unfold kf_truncated in Hk. rewrite Hm, bytes_eqb_refl in Hk.
  assert (Hlt : (d_limit q <? blen (d_body q)) = true) by (apply Z.ltb_lt; exact Hl).
  rewrite Hlt in Hk. cbn [andb orb] in Hk.
  unfold request_to_dns_msg, code_buffer, post_buffer. rewrite Hm.
  change (bytes_eqb s_POST s_GET) with false. cbn iota. rewrite bytes_eqb_refl.
  destruct (d_fail q) as [k|]; [destruct (k <? d_limit q); [reflexivity|]|];
    destruct (unpack o (firstn (Z.to_nat (d_limit q)) (d_body q))); try discriminate; reflexivity.
Qed.

(* the model meets the specification outside the two finding classes *)
Lemma model_meets_spec o q :
  match client_ip q with Some cip => valid_ip cip | None => true end = true ->
  kf_truncated o q = false -> kf_second_opt o q = false ->
  doh_spec o q (request_to_dns_msg o q) = true.
Proof.
  intros Hip Hk1 Hk2.
  assert (Hsub : match client_ip q with
                 | Some cip => exists e, client_subnet cip = Some e /\ ecs_matches cip e = true
                 | None => True end).
  { destruct (client_ip q) as [cip|]; [|exact I].
    destruct (client_subnet cip) as [e|] eqn:E; [exists e; split; [reflexivity|apply client_subnet_matches; exact E]|].
    exfalso. exact (client_subnet_valid _ Hip E). }
  (* common tail: same buffer on both sides *)
  assert (Tail : forall buf,
    (match client_ip q with Some _ => match unpack o buf with Some p => negb (p_nopt p =? 0) | None => false end | None => false end) = false ->
    match unpack o buf with
    | Some p =>
      match client_ip q,
            match unpack o buf with
            | Some p0 => match client_ip q with
                         | Some cip => match client_subnet cip with
                                       | Some e => Forwarded (p_canon p0) (p_nextra p0 + 1) (p_nopt p0 + 1) 4096
                                                     (if 15 <? p_rcode p0 then (p_rcode p0 / 16) mod 256 * 2 ^ 24 else 0) e
                                       | None => PackFails end
                         | None => ForwardedPlain (p_canon p0) (p_nextra p0) (p_nopt p0) end
            | None => Rejected end
      with
      | Some cip, Forwarded canon nextra nopt _ _ e =>
        bytes_eqb canon (p_canon p) && (nextra =? p_nextra p + 1) && (nopt =? 1) && ecs_matches cip e
      | None, ForwardedPlain canon nextra nopt => bytes_eqb canon (p_canon p) && (nextra =? p_nextra p) && (nopt =? p_nopt p)
      | _, _ => false
      end
    | None => match match unpack o buf with Some _ => PackFails | None => Rejected end with Rejected => true | _ => false end
    end = true).
  { intros buf Hopt. destruct (unpack o buf) as [p|]; [|reflexivity].
    destruct (client_ip q) as [cip|].
    - destruct Hsub as [e [He Hm]]. rewrite He. rewrite bytes_eqb_refl, Z.eqb_refl, Hm. cbn [andb]. rewrite andb_true_r.
      destruct (p_nopt p =? 0) eqn:E0; [|discriminate]. apply Z.eqb_eq in E0. rewrite E0. reflexivity.
    - rewrite bytes_eqb_refl, !Z.eqb_refl. reflexivity. }
  unfold doh_spec, request_to_dns_msg, kf_truncated, kf_second_opt, client_message, code_buffer, post_buffer in *.
  destruct (bytes_eqb (d_method q) s_GET).
  - destruct (match d_values q with [v] => b64url_decode v | _ => None end) as [buf|]; [|reflexivity].
    specialize (Tail buf). destruct (unpack o buf) as [p|]; [|reflexivity]. apply Tail. exact Hk2.
  - destruct (bytes_eqb (d_method q) s_POST); [|reflexivity]. cbn [andb] in Hk1.
    destruct (d_fail q) as [k|].
    + (* reader failure: the specification wants a rejection *)
      destruct (k <? d_limit q) eqn:Ek; [reflexivity|].
      apply Z.ltb_ge in Ek. apply Z.leb_le in Ek. rewrite Ek, orb_true_r in Hk1. cbn [andb] in Hk1.
      destruct (unpack o (firstn (Z.to_nat (d_limit q)) (d_body q))); [discriminate|reflexivity].
    + rewrite orb_false_r in Hk1.
      destruct (blen (d_body q) <=? d_limit q) eqn:El.
      * apply Z.leb_le in El. rewrite (firstn_all_Z _ _ El) in *.
        specialize (Tail (d_body q)). destruct (unpack o (d_body q)) as [p|]; [|reflexivity]. apply Tail. exact Hk2.
      * apply Z.leb_gt in El. apply Z.ltb_lt in El. rewrite El in Hk1. cbn [andb] in Hk1.
        destruct (unpack o (firstn (Z.to_nat (d_limit q)) (d_body q))); [discriminate|reflexivity].
Qed.

Lemma dec_enc_res r : dec_res (enc_res r) = Some r.
Proof. destruct r as [| |canon ne no|canon ne no udp ttl [f m s a]]; reflexivity. Qed.

Lemma fwd_entry_inv o q id e :
  fwd_entry o q = Some (id, e) ->
  exists cip buf, client_ip q = Some cip /\ code_buffer q = Some buf /\ msg_id buf = Some id /\ ecs_matches cip e = true.
Proof.
  unfold fwd_entry. destruct (request_to_dns_msg o q) as [| | |canon ne no udp ttl e0] eqn:E; try discriminate.
  apply forwarded_inv in E. destruct E as [buf [p [cip [Hb [_ [_ [_ [_ [Hc He]]]]]]]]]. rewrite Hb.
  destruct (msg_id buf) as [i|] eqn:Ei; [|discriminate]. intros H; injection H as <- <-.
  exists cip, buf. repeat split; try assumption. apply client_subnet_matches. exact He.
Qed.
Lemma log_has_enc cip id e rest1 rest2 :
  ecs_matches cip e = true -> log_has cip id (rest1 ++ enc_entry (id, e) :: rest2) = true.
Proof.
  intros H. unfold log_has. rewrite existsb_app. apply orb_true_iff. right. cbn [existsb enc_entry fst snd].
  rewrite Z.eqb_refl. destruct e as [f m sc a]. cbn [e_family e_mask e_scope e_addr]. rewrite H. reflexivity.
Qed.
Lemma prop_pair_model o1 q1 o2 q2 : pair_wf o1 q1 o2 q2 = true -> prop_pair q1 q2 (run_pair o1 q1 o2 q2) = true.
Proof.
  unfold pair_wf, run_pair, prop_pair.
  destruct (fwd_entry o1 q1) as [[i1 e1]|] eqn:E1; [|discriminate].
  destruct (fwd_entry o2 q2) as [[i2 e2]|] eqn:E2; [|discriminate]. intros _.
  destruct (fwd_entry_inv _ _ _ _ E1) as [c1 [b1 [Hc1 [Hb1 [Hi1 Hm1]]]]].
  destruct (fwd_entry_inv _ _ _ _ E2) as [c2 [b2 [Hc2 [Hb2 [Hi2 Hm2]]]]].
  rewrite Hc1, Hc2, Hb1, Hb2, Hi1, Hi2. cbn [fst]. rewrite !Z.eqb_refl. cbn [andb].
  pose proof (log_has_enc c1 i1 e1 [] [enc_entry (i2, e2)] Hm1) as A1.
  pose proof (log_has_enc c2 i2 e2 [enc_entry (i1, e1)] [] Hm2) as A2.
  pose proof (log_has_enc c1 i1 e1 [enc_entry (i2, e2)] [] Hm1) as B1.
  pose proof (log_has_enc c2 i2 e2 [] [enc_entry (i1, e1)] Hm2) as B2.
  cbn [app] in A1, A2, B1, B2.
  destruct (i1 <=? i2); cbn [length Z.of_nat]; cbn [Z.eqb Pos.eqb andb Pos.of_succ_nat Pos.succ];
    rewrite ?A1, ?A2, ?B1, ?B2; reflexivity.
Qed.
Lemma prop_C56_of_model i : wf_C56 i = true -> kf_C56 i = 0 -> prop_C56 i (run_C56 i) = true.
Proof.
  unfold wf_C56, kf_C56, prop_C56, run_C56. destruct (dec_any i) as [[o q|r t|o1 q1 o2 q2]|]; [| | |discriminate].
  - intros Hip Hk. rewrite dec_enc_res.
    destruct (kf_truncated o q) eqn:K1; [discriminate|]. destruct (kf_second_opt o q) eqn:K2; [discriminate|].
    apply model_meets_spec; assumption.
  - intros _ _. reflexivity.
  - intros Hw _. apply prop_pair_model. exact Hw.
Qed.
(* concurrent queries: each client's message reaches the upstream with that client's option *)
Lemma pair_each_forwarded o1 q1 o2 q2 :
  pair_wf o1 q1 o2 q2 = true ->
  exists i1 e1 i2 e2 c1 c2,
    fwd_entry o1 q1 = Some (i1, e1) /\ fwd_entry o2 q2 = Some (i2, e2) /\ i1 <> i2
    /\ client_ip q1 = Some c1 /\ client_ip q2 = Some c2 /\ ecs_matches c1 e1 = true /\ ecs_matches c2 e2 = true
    /\ run_pair o1 q1 o2 q2 =
       VL [VL [VZ 1; VZ i1]; VL [VZ 1; VZ i2];
           VL (if i1 <=? i2 then [enc_entry (i1, e1); enc_entry (i2, e2)] else [enc_entry (i2, e2); enc_entry (i1, e1)])].
Proof.
  unfold pair_wf, run_pair.
  destruct (fwd_entry o1 q1) as [[i1 e1]|] eqn:E1; [|discriminate].
  destruct (fwd_entry o2 q2) as [[i2 e2]|] eqn:E2; [|discriminate]. intros Hd.
  destruct (fwd_entry_inv _ _ _ _ E1) as [c1 [b1 [Hc1 [_ [_ Hm1]]]]].
  destruct (fwd_entry_inv _ _ _ _ E2) as [c2 [b2 [Hc2 [_ [_ Hm2]]]]].
  exists i1, e1, i2, e2, c1, c2. cbn [fst] in *. repeat split; try assumption; try reflexivity.
  apply negb_true_iff in Hd. apply Z.eqb_neq in Hd. exact Hd.
Qed.

(* ---- witnesses (real cases produced by the harness; the oracle rows are values of miekg/dns) ---- *)
Definition w_trunc : val := (VL [(VB [80;79;83;84]); (VL []); (VB [61;82;1;32;0;1;0;0;0;0;0;1;0;0;28;0;1;0;0;41;16;0;0;0;128;0;0;11;0;8;0;7;0;1;24;0;192;0;2]); (VZ 12); (VL [(VB [32;1;13;184;198;84;59;79;124;240;131;221;53;226;248;221])]); (VL []); (VL [(VL [(VB [61;82;1;32;0;1;0;0;0;0;0;1;0;0;28;0;1;0;0;41;16;0;0;0;128;0;0;11;0;8;0;7;0;1;24;0;192;0;2]); (VL [(VB [61;82;1;32;0;1;0;0;0;0;0;1;0;0;28;0;1;0;0;41;16;0;0;0;128;0;0;11;0;8;0;7;0;1;24;0;192;0;2]); (VZ 1); (VZ 1); (VZ 0)])]); (VL [(VB [61;82;1;32;0;1;0;0;0;0;0;1]); (VL [(VB [61;82;1;32;0;0;0;0;0;0;0;0]); (VZ 0); (VZ 0); (VZ 0)])])]); (VZ (-1))]).
Definition w_trunc_out : val := (VL [(VZ 1); (VZ 1); (VB [61;82;1;32;0;0;0;0;0;0;0;0]); (VL [(VB [46]); (VZ 41); (VZ 4096); (VZ 0); (VL [(VL [(VZ 8); (VZ 2); (VZ 128); (VZ 0); (VB [32;1;13;184;198;84;59;79;124;240;131;221;53;226;248;221])])])])]).
Definition w_opt : val := (VL [(VB [80;79;83;84]); (VL []); (VB [241;10;1;0;0;1;0;0;0;0;0;1;7;101;120;97;109;112;108;101;3;111;114;103;0;0;16;0;1;0;0;41;4;208;0;0;128;0;0;0]); (VZ 40); (VL [(VB [32;1;13;184;240;2;85;118;113;47;119;128;127;213;117;115])]); (VL []); (VL [(VL [(VB [241;10;1;0;0;1;0;0;0;0;0;1;7;101;120;97;109;112;108;101;3;111;114;103;0;0;16;0;1;0;0;41;4;208;0;0;128;0;0;0]); (VL [(VB [241;10;1;0;0;1;0;0;0;0;0;1;7;101;120;97;109;112;108;101;3;111;114;103;0;0;16;0;1;0;0;41;4;208;0;0;128;0;0;0]); (VZ 1); (VZ 1); (VZ 0)])])]); (VZ (-1))]).
Definition w_opt_out : val := (VL [(VZ 2); (VZ 2); (VB [241;10;1;0;0;1;0;0;0;0;0;1;7;101;120;97;109;112;108;101;3;111;114;103;0;0;16;0;1;0;0;41;4;208;0;0;128;0;0;0]); (VL [(VB [46]); (VZ 41); (VZ 4096); (VZ 0); (VL [(VL [(VZ 8); (VZ 2); (VZ 128); (VZ 0); (VB [32;1;13;184;240;2;85;118;113;47;119;128;127;213;117;115])])])])]).
Definition w_v4 : val := (VL [(VB [71;69;84]); (VL [(VB [97;100;52;66;69;65;65;66;65;65;65;65;65;65;65;65;65;65;65;99;65;65;69])]); (VB []); (VZ 0); (VL [(VB [104;248;76;239])]); (VL []); (VL [(VL [(VB [105;222;1;16;0;1;0;0;0;0;0;0;0;0;28;0;1]); (VL [(VB [105;222;1;16;0;1;0;0;0;0;0;0;0;0;28;0;1]); (VZ 0); (VZ 0); (VZ 0)])])]); (VZ (-1))]).
Definition w_v4_out : val := (VL [(VZ 1); (VZ 1); (VB [105;222;1;16;0;1;0;0;0;0;0;0;0;0;28;0;1]); (VL [(VB [46]); (VZ 41); (VZ 4096); (VZ 0); (VL [(VL [(VZ 8); (VZ 1); (VZ 32); (VZ 0); (VB [104;248;76;239])])])])]).

(* finding 1: a 39-byte POST body with limit 12 is cut to its 12-byte header, which parses, and is forwarded *)
Lemma trunc_refuted :
  wf_C56 w_trunc = true /\ run_C56 w_trunc = w_trunc_out /\ prop_C56 w_trunc (run_C56 w_trunc) = false
  /\ kf_C56 w_trunc = 1.
Proof. vm_compute. repeat split. Qed.
(* finding 2: the client message has an OPT RR; the result has two *)
Lemma second_opt_refuted :
  wf_C56 w_opt = true /\ run_C56 w_opt = w_opt_out /\ prop_C56 w_opt (run_C56 w_opt) = false /\ kf_C56 w_opt = 2.
Proof. vm_compute. repeat split. Qed.
(* an IPv4 client on GET: family 1, /32, 4 address bytes *)
Lemma v4_example :
  wf_C56 w_v4 = true /\ kf_C56 w_v4 = 0 /\ run_C56 w_v4 = w_v4_out /\ prop_C56 w_v4 w_v4_out = true.
Proof. vm_compute. repeat split. Qed.
Lemma to4_examples :
  to4 [192; 0; 2; 1] = Some [192; 0; 2; 1]
  /\ to4 [0;0;0;0;0;0;0;0;0;0;255;255;192;0;2;1] = Some [192; 0; 2; 1]
  /\ to4 [32;1;13;184;0;0;0;0;0;0;0;0;0;0;0;1] = None.
Proof. vm_compute. repeat split. Qed.
Lemma b64_example : b64url_decode [65; 81; 73; 68] = Some [1; 2; 3] /\ b64url_decode [65; 81; 10; 73] = Some [1; 2]
  /\ b64url_decode [65] = None /\ b64url_decode [65; 81; 61; 61] = None.
Proof. vm_compute. repeat split. Qed.
