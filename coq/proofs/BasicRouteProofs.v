(* Proofs about model/BasicRoute.v (C11): the two-level radix-tree lookup built by the loader refines the
   documented precedence computed on the rule list. *)
From Coq Require Import List ZArith Bool Lia Arith.
From Bfe Require Import lib.Val lib.ValProofs lib.Bytes model.BasicRoute.
Import ListNotations.
Open Scope Z_scope.

(* ================= A. finite maps ================= *)
Lemma beq_refl a : bytes_eqb a a = true.
Proof. apply bytes_eqb_eq. reflexivity. Qed.
Lemma beq_neq a b : a <> b -> bytes_eqb a b = false.
Proof. intro H. destruct (bytes_eqb a b) eqn:E; [apply bytes_eqb_eq in E; contradiction|reflexivity]. Qed.
Lemma beq_false a b : bytes_eqb a b = false -> a <> b.
Proof. intros H ->. rewrite beq_refl in H. discriminate. Qed.

Definition uniq {V} (m : rmap V) : Prop := NoDup (map fst m).

Lemma rget_in {V} k (m : rmap V) v : rget k m = Some v -> In (k, v) m.
Proof.
  induction m as [|[k' v'] m IH]; simpl; [discriminate|].
  destruct (bytes_eqb k k') eqn:E.
  - intros H. inversion H; subst. apply bytes_eqb_eq in E. subst. left. reflexivity.
  - intros H. right. apply IH. exact H.
Qed.
Lemma rget_none_notin {V} k (m : rmap V) : rget k m = None -> ~ In k (map fst m).
Proof.
  induction m as [|[k' v'] m IH]; simpl; [tauto|].
  destruct (bytes_eqb k k') eqn:E; [discriminate|]. intros H [Hk|Hin].
  - subst. rewrite beq_refl in E. discriminate.
  - apply (IH H Hin).
Qed.
Lemma in_rget {V} k (m : rmap V) v : uniq m -> In (k, v) m -> rget k m = Some v.
Proof.
  unfold uniq. induction m as [|[k' v'] m IH]; simpl; [tauto|]. intros Hu [Heq|Hin].
  - inversion Heq; subst. rewrite beq_refl. reflexivity.
  - inversion Hu as [|x l Hnin Hnd]; subst. destruct (bytes_eqb k k') eqn:E.
    + apply bytes_eqb_eq in E. subst k'. exfalso. apply Hnin. apply (in_map fst) in Hin. exact Hin.
    + apply IH; assumption.
Qed.
Lemma rset_fresh {V} k (v : V) m : rget k m = None -> rset k v m = m ++ [(k, v)].
Proof.
  induction m as [|[k' v'] m IH]; simpl; [reflexivity|].
  destruct (bytes_eqb k k'); [discriminate|]. intros H. rewrite (IH H). reflexivity.
Qed.
Lemma rget_rset_same {V} k (v : V) m : rget k (rset k v m) = Some v.
Proof.
  induction m as [|[k' v'] m IH]; simpl; [rewrite beq_refl; reflexivity|].
  destruct (bytes_eqb k k') eqn:E; simpl; [rewrite beq_refl; reflexivity|rewrite E; exact IH].
Qed.
Lemma rget_rset_other {V} k k' (v : V) m : k <> k' -> rget k' (rset k v m) = rget k' m.
Proof.
  intros Hne. induction m as [|[k2 v2] m IH]; simpl.
  - rewrite beq_neq by congruence. reflexivity.
  - destruct (bytes_eqb k k2) eqn:E; simpl.
    + apply bytes_eqb_eq in E. subst k2. rewrite (beq_neq k' k) by congruence. reflexivity.
    + destruct (bytes_eqb k' k2); [reflexivity|exact IH].
Qed.
Lemma keys_rset {V} k (v : V) m :
  map fst (rset k v m) = match rget k m with Some _ => map fst m | None => map fst m ++ [k] end.
Proof.
  induction m as [|[k' v'] m IH]; simpl; [reflexivity|].
  destruct (bytes_eqb k k') eqn:E; simpl.
  - apply bytes_eqb_eq in E. subst. reflexivity.
  - rewrite IH. destruct (rget k m); reflexivity.
Qed.
Lemma NoDup_app_snoc {A} (l : list A) x : NoDup l -> ~ In x l -> NoDup (l ++ [x]).
Proof.
  induction l as [|y l IH]; simpl; intros Hn Hx.
  - constructor; [tauto|constructor].
  - inversion Hn as [|z l' Hy Hl]; subst. constructor.
    + rewrite in_app_iff. simpl. intros [H|[H|[]]]; [tauto|]. apply Hx. left. symmetry. exact H.
    + apply IH; [exact Hl|]. intro H. apply Hx. right. exact H.
Qed.
Lemma uniq_rset {V} k (v : V) m : uniq m -> uniq (rset k v m).
Proof.
  unfold uniq. intros Hu. rewrite keys_rset. destruct (rget k m) eqn:E; [exact Hu|].
  apply rget_none_notin in E. apply NoDup_app_snoc; assumption.
Qed.

(* longest_prefix, declaratively *)
Definition lp_good {V} (k : bytes) (acc : option (bytes * V)) (seen : rmap V) : Prop :=
  match acc with
  | None => forall e, In e seen -> is_prefix (fst e) k = false
  | Some b => In b seen /\ is_prefix (fst b) k = true /\
              forall e, In e seen -> is_prefix (fst e) k = true -> (length (fst e) <= length (fst b))%nat
  end.
Lemma lp_fold {V} k (m : rmap V) : forall seen acc,
  lp_good k acc seen -> lp_good k (fold_left (better k) m acc) (seen ++ m).
Proof.
  induction m as [|e m IH]; intros seen acc Hg; simpl.
  - rewrite app_nil_r. exact Hg.
  - replace (seen ++ e :: m) with ((seen ++ [e]) ++ m) by (rewrite <- app_assoc; reflexivity).
    apply IH. unfold better. destruct (is_prefix (fst e) k) eqn:Ep.
    + destruct acc as [b|]; simpl in *.
      * destruct Hg as (Hin & Hp & Hmax). destruct (Nat.ltb (length (fst b)) (length (fst e))) eqn:El; simpl.
        -- apply Nat.ltb_lt in El. split; [apply in_app_iff; right; left; reflexivity|]. split; [exact Ep|].
           intros e' Hin' Hp'. apply in_app_iff in Hin'. destruct Hin' as [Hin'|[<-|[]]]; [|lia].
           specialize (Hmax e' Hin' Hp'). lia.
        -- apply Nat.ltb_ge in El. split; [apply in_app_iff; left; exact Hin|]. split; [exact Hp|].
           intros e' Hin' Hp'. apply in_app_iff in Hin'. destruct Hin' as [Hin'|[<-|[]]]; [|lia].
           apply (Hmax e' Hin' Hp').
      * split; [apply in_app_iff; right; left; reflexivity|]. split; [exact Ep|].
        intros e' Hin' Hp'. apply in_app_iff in Hin'. destruct Hin' as [Hin'|[<-|[]]]; [|lia].
        rewrite (Hg e' Hin') in Hp'. discriminate.
    + destruct acc as [b|]; simpl in *.
      * destruct Hg as (Hin & Hp & Hmax). split; [apply in_app_iff; left; exact Hin|]. split; [exact Hp|].
        intros e' Hin' Hp'. apply in_app_iff in Hin'. destruct Hin' as [Hin'|[<-|[]]]; [|congruence].
        apply (Hmax e' Hin' Hp').
      * intros e' Hin'. apply in_app_iff in Hin'. destruct Hin' as [Hin'|[<-|[]]]; [apply Hg; exact Hin'|exact Ep].
Qed.
Lemma lp_spec {V} k (m : rmap V) : lp_good k (longest_prefix k m) m.
Proof. unfold longest_prefix. apply (lp_fold k m [] None). intros e []. Qed.

(* ================= C. path level ================= *)
Definition ekey_exact (e : entry) : bytes * bytes := (e_path e, e_cluster e).
Definition ekey_wild (e : entry) : bytes * bytes := (pkey (e_path e), e_cluster e).
Definition wildp (e : entry) : bool := is_wild_path (e_path e).
(* a pathTrees value holds exactly the entries E of one host slot, in insertion order *)
Definition rep (pt : ptrees) (E : list entry) : Prop :=
  fst pt = map ekey_exact (filter (fun e => negb (wildp e)) E) /\
  snd pt = map ekey_wild (filter wildp E).

Lemma rep_empty : rep pt_empty [].
Proof. split; reflexivity. Qed.
Lemma path_insert_rep pt E h p c pt' :
  rep pt E -> path_insert p c pt = Some pt' -> rep pt' (E ++ [(h, p, c)]).
Proof.
  intros [H1 H2]. unfold path_insert. destruct (is_nil p); [discriminate|].
  unfold rep. rewrite !filter_app, !map_app. simpl. unfold wildp at 2 4. unfold e_path. simpl. unfold is_wild_path.
  destruct (last_is STAR p) eqn:El; simpl.
  - destruct (rget (pkey p) (snd pt)) eqn:Eg; [discriminate|]. intros H. inversion H; subst. simpl.
    rewrite (rset_fresh _ _ _ Eg). rewrite app_nil_r. split; [exact H1|]. rewrite H2. reflexivity.
  - destruct (rget p (fst pt)) eqn:Eg; [discriminate|]. intros H. inversion H; subst. simpl.
    rewrite (rset_fresh _ _ _ Eg). rewrite app_nil_r. split; [|exact H2]. rewrite H1. reflexivity.
Qed.
Lemma insert_paths_rep h c paths : forall pt E pt',
  rep pt E -> insert_paths paths c pt = Some pt' -> rep pt' (E ++ map (fun p => (h, p, c)) paths).
Proof.
  induction paths as [|p paths IH]; intros pt E pt' Hr; simpl.
  - intros H. inversion H; subst. rewrite app_nil_r. exact Hr.
  - destruct (path_insert p c pt) as [pt1|] eqn:E1; [|discriminate]. intros H.
    replace (E ++ (h, p, c) :: map (fun p0 => (h, p0, c)) paths)
      with ((E ++ [(h, p, c)]) ++ map (fun p0 => (h, p0, c)) paths) by (rewrite <- app_assoc; reflexivity).
    apply (IH pt1); [|exact H]. apply (path_insert_rep pt E h p c pt1 Hr E1).
Qed.

Lemma rget_map {A} (f : A -> bytes) (g : A -> bytes) k l :
  rget k (map (fun e => (f e, g e)) l) = option_map g (find (fun e => bytes_eqb k (f e)) l).
Proof. induction l as [|x l IH]; simpl; [reflexivity|]. destruct (bytes_eqb k (f x)); [reflexivity|exact IH]. Qed.
Lemma find_filter {A} (f g : A -> bool) l : find f (filter g l) = find (fun x => g x && f x) l.
Proof.
  induction l as [|x l IH]; simpl; [reflexivity|]. destruct (g x); simpl; [|exact IH].
  destruct (f x); [reflexivity|exact IH].
Qed.
Lemma filter_filter {A} (f g : A -> bool) l : filter f (filter g l) = filter (fun x => g x && f x) l.
Proof.
  induction l as [|x l IH]; simpl; [reflexivity|]. destruct (g x); simpl; [|exact IH].
  destruct (f x); [rewrite IH; reflexivity|exact IH].
Qed.
Lemma find_ext {A} (f g : A -> bool) l : (forall x, f x = g x) -> find f l = find g l.
Proof. intros H. induction l as [|x l IH]; simpl; [reflexivity|]. rewrite H, IH. reflexivity. Qed.
Lemma filter_head_find {A B} (f : A -> bool) (c : A -> B) (d : option B) l :
  match filter f l with e :: _ => Some (c e) | [] => d end = match find f l with Some e => Some (c e) | None => d end.
Proof. induction l as [|x l IH]; simpl; [reflexivity|]. destruct (f x); [reflexivity|exact IH]. Qed.
Lemma beq_sym a b : bytes_eqb a b = bytes_eqb b a.
Proof.
  destruct (bytes_eqb a b) eqn:E1, (bytes_eqb b a) eqn:E2; try reflexivity.
  - apply bytes_eqb_eq in E1. subst. rewrite beq_refl in E2. discriminate.
  - apply bytes_eqb_eq in E2. subst. rewrite beq_refl in E1. discriminate.
Qed.

Lemma lp_map_wild k l : forall acc,
  fold_left (better k) (map ekey_wild l) (option_map ekey_wild acc) =
  option_map ekey_wild (fold_left pick_longer (filter (fun e => is_prefix (pkey (e_path e)) k) l) acc).
Proof.
  induction l as [|e l IH]; intros acc; simpl; [reflexivity|].
  unfold better at 2. simpl. destruct (is_prefix (pkey (e_path e)) k) eqn:Ep; simpl.
  - rewrite <- IH. f_equal. destruct acc as [b|]; simpl; [|reflexivity].
    destruct (Nat.ltb (length (pkey (e_path b))) (length (pkey (e_path e)))); reflexivity.
  - apply IH.
Qed.

Theorem path_get_rep pt E path : rep pt E -> path_get pt path = path_select E path.
Proof.
  intros [H1 H2]. unfold path_get, path_select. rewrite H1, H2.
  rewrite (filter_head_find (path_exact path) e_cluster).
  unfold ekey_exact. rewrite (rget_map e_path e_cluster). rewrite find_filter.
  rewrite (find_ext (fun x => negb (wildp x) && bytes_eqb path (e_path x)) (path_exact path))
    by (intros x; unfold path_exact, wildp; rewrite beq_sym; reflexivity).
  destruct (find (path_exact path) E) as [e|]; simpl; [reflexivity|].
  unfold longest_prefix. pose proof (lp_map_wild (slash_end path) (filter wildp E) None) as Hl. simpl in Hl. rewrite Hl. clear Hl.
  rewrite filter_filter. unfold longest_entry.
  rewrite (filter_ext (fun x => wildp x && is_prefix (pkey (e_path x)) (slash_end path)) (path_prefix path))
    by (intros x; reflexivity).
  destruct (fold_left pick_longer (filter (path_prefix path) E) None) as [b|]; reflexivity.
Qed.

(* ================= D. host level: invariant of the loader ================= *)
Definition slot := (bool * bytes)%type.
Definition slot_eqb (a b : slot) : bool := Bool.eqb (fst a) (fst b) && bytes_eqb (snd a) (snd b).
Definition hslot (e : entry) : slot := host_slot (e_host e).
Definition in_slot (s : slot) (e : entry) : bool := slot_eqb s (hslot e).
Lemma slot_eqb_eq a b : slot_eqb a b = true <-> a = b.
Proof.
  destruct a as [a1 a2], b as [b1 b2]. unfold slot_eqb. simpl. rewrite andb_true_iff, eqb_true_iff, bytes_eqb_eq.
  split; [intros [-> ->]; reflexivity|intros H; inversion H; auto].
Qed.
Lemma slot_eqb_refl a : slot_eqb a a = true.
Proof. apply slot_eqb_eq. reflexivity. Qed.

Definition inv (ents : list entry) (ht : htrees) : Prop :=
  uniq (fst ht) /\ uniq (snd ht) /\
  forall s, match ht_lookup s ht with
            | Some pt => rep pt (filter (in_slot s) ents) /\ filter (in_slot s) ents <> []
            | None => filter (in_slot s) ents = []
            end.
Lemma inv_empty : inv [] ht_empty.
Proof. split; [constructor|]. split; [constructor|]. intros s. unfold ht_lookup, ht_empty. simpl. destruct (fst s); reflexivity. Qed.

Lemma lookup_store_same s pt ht : ht_lookup s (ht_store s pt ht) = Some pt.
Proof. unfold ht_lookup, ht_store. destruct (fst s); simpl; apply rget_rset_same. Qed.
Lemma lookup_store_other s s' pt ht : slot_eqb s s' = false -> ht_lookup s' (ht_store s pt ht) = ht_lookup s' ht.
Proof.
  destruct s as [b k], s' as [b' k']. unfold slot_eqb, ht_lookup, ht_store. simpl. intros H.
  destruct b, b'; simpl in *; try reflexivity; apply rget_rset_other; apply beq_false; exact H.
Qed.
Lemma filter_all {A} (f : A -> bool) l : (forall x, In x l -> f x = true) -> filter f l = l.
Proof.
  induction l as [|x l IH]; intros H; simpl; [reflexivity|]. rewrite (H x (or_introl eq_refl)).
  f_equal. apply IH. intros y Hy. apply H. right. exact Hy.
Qed.
Lemma filter_none {A} (f : A -> bool) l : (forall x, In x l -> f x = false) -> filter f l = [].
Proof.
  induction l as [|x l IH]; intros H; simpl; [reflexivity|]. rewrite (H x (or_introl eq_refl)).
  apply IH. intros y Hy. apply H. right. exact Hy.
Qed.
Lemma filter_nil_all {A} (f : A -> bool) l : filter f l = [] -> forall x, In x l -> f x = false.
Proof.
  induction l as [|x l IH]; simpl; [intros _ y []|]. destruct (f x) eqn:E; [discriminate|].
  intros H y [<-|Hy]; [exact E|apply IH; assumption].
Qed.

Definition host_ents (h c : bytes) (paths : list bytes) : list entry := map (fun p => (h, p, c)) paths.
Lemma insert_hosts_inv paths c : paths <> [] -> forall hosts ents ht ht',
  inv ents ht -> insert_hosts hosts paths c ht = Some ht' ->
  inv (ents ++ flat_map (fun h => host_ents h c paths) hosts) ht'.
Proof.
  intros Hne. induction hosts as [|h hosts IH]; intros ents ht ht' Hinv; simpl.
  - intros H. inversion H; subst. rewrite app_nil_r. exact Hinv.
  - destruct (is_nil h); [discriminate|].
    set (s := host_slot h).
    set (pt0 := match ht_lookup s ht with Some pt => pt | None => pt_empty end).
    destruct (insert_paths paths c pt0) as [pt'|] eqn:Ei; [|discriminate]. intros H.
    rewrite app_assoc. refine (IH _ _ _ _ H). clear IH H.
    destruct Hinv as (Hu1 & Hu2 & Hall).
    assert (Hnew : forall s' e, In e (host_ents h c paths) -> in_slot s' e = slot_eqb s' s).
    { intros s' e Hin. unfold host_ents in Hin. apply in_map_iff in Hin. destruct Hin as (p & <- & _). reflexivity. }
    split; [|split].
    + unfold ht_store. destruct (fst s); simpl; [exact Hu1|apply uniq_rset; exact Hu1].
    + unfold ht_store. destruct (fst s); simpl; [apply uniq_rset; exact Hu2|exact Hu2].
    + intros s'. rewrite filter_app. destruct (slot_eqb s s') eqn:Es.
      * apply slot_eqb_eq in Es. subst s'. rewrite lookup_store_same.
        rewrite (filter_all (in_slot s) (host_ents h c paths))
          by (intros e He; rewrite (Hnew s e He); apply slot_eqb_refl).
        split.
        -- apply (insert_paths_rep h c paths pt0); [|exact Ei].
           specialize (Hall s). subst pt0. destruct (ht_lookup s ht); [exact (proj1 Hall)|rewrite Hall; apply rep_empty].
        -- destruct paths; [congruence|]. intros Habs. apply app_eq_nil in Habs. destruct Habs as [_ Habs]. discriminate.
      * rewrite (lookup_store_other _ _ _ _ Es).
        rewrite (filter_none (in_slot s') (host_ents h c paths)).
        -- rewrite app_nil_r. apply Hall.
        -- intros e He. rewrite (Hnew s' e He).
           destruct (slot_eqb s' s) eqn:E2; [|reflexivity]. apply slot_eqb_eq in E2. subst. rewrite slot_eqb_refl in Es. discriminate.
Qed.

Lemma entries_of_cons r rest :
  entries_of (r :: rest) =
  flat_map (fun h => host_ents h (r_cluster r) (or_star (r_paths r))) (or_star (r_hosts r)) ++ entries_of rest.
Proof. reflexivity. Qed.
Lemma or_star_nonempty l : or_star l <> [].
Proof. destruct l; discriminate. Qed.
Lemma load_from_inv rules : forall ents ht ht',
  inv ents ht -> load_from rules ht = Some ht' -> inv (ents ++ entries_of rules) ht'.
Proof.
  induction rules as [|r rules IH]; intros ents ht ht' Hinv; simpl load_from.
  - intros H. inversion H; subst. simpl. rewrite app_nil_r. exact Hinv.
  - destruct (check_rule r); [|discriminate].
    destruct (tree_insert r ht) as [ht1|] eqn:Et; [|discriminate]. intros H.
    rewrite entries_of_cons, app_assoc. apply (IH _ ht1 _); [|exact H].
    apply (insert_hosts_inv _ _ (or_star_nonempty _) _ _ _ _ Hinv Et).
Qed.
Theorem load_inv rules t : load_rules rules = Some t -> inv (entries_of rules) t.
Proof. intros H. apply (load_from_inv rules [] ht_empty t inv_empty H). Qed.

(* every host pattern of an accepted rule set passes checkHostInBasicRule (or is the implicit "*") *)
Lemma load_from_checked rules : forall ht ht',
  load_from rules ht = Some ht' -> Forall (fun e => check_host (e_host e) = true) (entries_of rules).
Proof.
  induction rules as [|r rules IH]; intros ht ht'; simpl load_from; [constructor|].
  destruct (check_rule r) eqn:Ec; [|discriminate].
  destruct (tree_insert r ht) as [ht1|]; [|discriminate]. intros H.
  rewrite entries_of_cons. apply Forall_app. split; [|apply (IH ht1 ht' H)].
  apply Forall_forall. intros e Hin. apply in_flat_map in Hin. destruct Hin as (h & Hh & He).
  unfold host_ents in He. apply in_map_iff in He. destruct He as (p & <- & _). unfold e_host. simpl.
  unfold check_rule in Ec. apply andb_true_iff in Ec. destruct Ec as [Ec _]. apply andb_true_iff in Ec. destruct Ec as [_ Ec].
  destruct (r_hosts r) as [|h0 hs] eqn:Eh; simpl in Hh.
  - destruct Hh as [<-|[]]. reflexivity.
  - rewrite forallb_forall in Ec. apply Ec. exact Hh.
Qed.

(* ================= B. strings ================= *)
Lemma to_upper_rev l : to_upper (rev l) = rev (to_upper l).
Proof. unfold to_upper. apply map_rev. Qed.
Lemma reverse_fqdn_strip h : reverse_fqdn h = rev (strip_dot h).
Proof.
  unfold reverse_fqdn, strip_dot. destruct (rev h) as [|x r] eqn:E; [reflexivity|].
  destruct (x =? DOT); [rewrite rev_involutive; reflexivity|symmetry; exact E].
Qed.
Lemma hkey_rev h : hkey h = rev (nh h).
Proof. unfold hkey, nh. rewrite reverse_fqdn_strip. apply to_upper_rev. Qed.
Lemma rev_inj {A} (a b : list A) : rev a = rev b -> a = b.
Proof. intros H. rewrite <- (rev_involutive a), <- (rev_involutive b), H. reflexivity. Qed.
Lemma beq_rev a b : bytes_eqb (rev a) (rev b) = bytes_eqb a b.
Proof.
  destruct (bytes_eqb a b) eqn:E.
  - apply bytes_eqb_eq in E. subst. apply beq_refl.
  - apply beq_neq. intros H. apply rev_inj in H. subst. rewrite beq_refl in E. discriminate.
Qed.
Lemma has_dot_app a b : has_dot (a ++ b) = has_dot a || has_dot b.
Proof. apply existsb_app. Qed.
Lemma has_dot_rev a : has_dot (rev a) = has_dot a.
Proof.
  induction a as [|x a IH]; [reflexivity|]. simpl rev. rewrite has_dot_app, IH. simpl.
  rewrite orb_false_r. apply orb_comm.
Qed.
Lemma hslot_wild h : is_wild_host h = true -> host_slot h = (true, rev (wsuffix h)).
Proof.
  destruct h as [|x r]; simpl; [discriminate|]. intros ->. unfold wsuffix. simpl. rewrite hkey_rev. reflexivity.
Qed.
Lemma hslot_exact h : is_wild_host h = false -> host_slot h = (false, rev (nh h)).
Proof.
  destruct h as [|x r]; simpl; [reflexivity|]. intros ->. rewrite hkey_rev. reflexivity.
Qed.
Lemma firstn_app_exact {A} (L S : list A) : firstn (length (L ++ S) - length S) (L ++ S) = L.
Proof.
  rewrite app_length. replace (length L + length S - length S)%nat with (length L) by lia.
  rewrite firstn_app, Nat.sub_diag, firstn_all. simpl. apply app_nil_r.
Qed.
(* H = label ++ suffix with a dot-free label *)
Lemma one_label_iff S H : one_label_before S H = true <-> exists L, H = L ++ S /\ has_dot L = false.
Proof.
  unfold one_label_before, is_suffix. rewrite andb_true_iff, negb_true_iff, is_prefix_spec. split.
  - intros [(r & Hr) Hd]. assert (HH : H = rev r ++ S).
    { apply rev_inj. rewrite rev_app_distr, rev_involutive. exact Hr. }
    exists (rev r). split; [exact HH|]. rewrite HH in Hd. rewrite firstn_app_exact in Hd. exact Hd.
  - intros (L & -> & Hd). split.
    + exists (rev L). apply rev_app_distr.
    + rewrite firstn_app_exact. exact Hd.
Qed.
(* in key space (reversed strings): K = k ++ R with a dot-free remainder *)
Definition wmatch (K k : bytes) : Prop := exists R, K = k ++ R /\ has_dot R = false.
Lemma one_label_wmatch S H : one_label_before S H = true <-> wmatch (rev H) (rev S).
Proof.
  rewrite one_label_iff. unfold wmatch. split.
  - intros (L & -> & Hd). exists (rev L). split; [apply rev_app_distr|rewrite has_dot_rev; exact Hd].
  - intros (R & HR & Hd). exists (rev R). split; [|rewrite has_dot_rev; exact Hd].
    apply rev_inj. rewrite rev_app_distr, rev_involutive. exact HR.
Qed.
Lemma common_prefix {A} (k' : list A) : forall mp R rem,
  k' ++ R = mp ++ rem -> (length k' <= length mp)%nat -> exists X, mp = k' ++ X /\ R = X ++ rem.
Proof.
  induction k' as [|a k' IH]; intros mp R rem Heq Hlen; simpl in *.
  - exists mp. split; [reflexivity|exact Heq].
  - destruct mp as [|b mp]; simpl in *; [lia|]. inversion Heq as [[Hab Hrest]]. subst b.
    destruct (IH mp R rem Hrest ltac:(lia)) as (X & -> & ->). exists X. split; reflexivity.
Qed.
Lemma strip_dot_cons a l : strip_dot (a :: l) = [] \/ exists t, strip_dot (a :: l) = a :: t.
Proof.
  unfold strip_dot. destruct (rev (a :: l)) as [|x r] eqn:E.
  - left. reflexivity.
  - destruct (x =? DOT); [|right; exists l; reflexivity].
    assert (Hal : a :: l = rev r ++ [x]) by (apply rev_inj; rewrite rev_app_distr, rev_involutive; exact E).
    destruct (rev r) as [|y t]; [left; reflexivity|]. right. simpl in Hal. inversion Hal; subst. exists t. reflexivity.
Qed.
(* a checked wildcard host other than "*" / "*." has a suffix pattern starting with "." *)
Lemma checked_wild_suffix h :
  check_host h = true -> is_wild_host h = true -> wsuffix h <> [] -> exists t, wsuffix h = DOT :: t.
Proof.
  destruct h as [|x r]; [discriminate|]. simpl is_wild_host. intros Hc Hw Hne.
  apply Z.eqb_eq in Hw. subst x. unfold wsuffix, nh in *. simpl tl in *.
  unfold check_host in Hc. change (negb (is_nil (STAR :: r))) with true in Hc. rewrite andb_true_l in Hc.
  assert (Hcs : count_star (STAR :: r) = S (count_star r)) by reflexivity. rewrite Hcs in Hc.
  destruct (count_star r); [|discriminate].
  destruct r as [|d r']; [exfalso; apply Hne; reflexivity|].
  change (bytes_eqb (STAR :: d :: r') [STAR] || is_prefix [STAR; DOT] (STAR :: d :: r')) with ((DOT =? d) && true) in Hc.
  rewrite andb_true_r in Hc. apply Z.eqb_eq in Hc. subst d.
  destruct (strip_dot_cons DOT r') as [E|(t & E)]; rewrite E in *.
  - exfalso. apply Hne. reflexivity.
  - exists (to_upper t). reflexivity.
Qed.

(* ================= E. host class ================= *)
Lemma slot_exact_pred H e : in_slot (false, rev H) e = host_exact H e.
Proof.
  unfold in_slot, hslot, host_exact. destruct (is_wild_host (e_host e)) eqn:Ew.
  - rewrite (hslot_wild _ Ew). reflexivity.
  - rewrite (hslot_exact _ Ew). unfold slot_eqb. simpl. rewrite beq_rev. apply beq_sym.
Qed.
Lemma beq_nil_rev w : bytes_eqb [] (rev w) = is_nil w.
Proof. destruct w as [|x w]; [reflexivity|]. simpl. destruct (rev w); reflexivity. Qed.
Lemma slot_wild_pred k e :
  in_slot (true, k) e = is_wild_host (e_host e) && bytes_eqb k (rev (wsuffix (e_host e))).
Proof.
  unfold in_slot, hslot. destruct (is_wild_host (e_host e)) eqn:Ew.
  - rewrite (hslot_wild _ Ew). reflexivity.
  - rewrite (hslot_exact _ Ew). reflexivity.
Qed.
Lemma slot_any_pred e : in_slot (true, []) e = host_any e.
Proof. rewrite slot_wild_pred. unfold host_any. rewrite beq_nil_rev. reflexivity. Qed.

Section HostClass.
Variables (ents : list entry) (ht : htrees).
Hypothesis Hinv : inv ents ht.
Hypothesis Hchk : Forall (fun e => check_host (e_host e) = true) ents.

Lemma wild_present e : In e ents -> is_wild_host (e_host e) = true ->
  exists pt, In (rev (wsuffix (e_host e)), pt) (snd ht).
Proof.
  intros Hin Hw. destruct Hinv as (_ & _ & Hall). specialize (Hall (hslot e)).
  unfold hslot in Hall at 1. rewrite (hslot_wild _ Hw) in Hall. unfold ht_lookup in Hall. simpl in Hall.
  destruct (rget (rev (wsuffix (e_host e))) (snd ht)) as [pt|] eqn:Eg.
  - exists pt. apply rget_in. exact Eg.
  - exfalso. pose proof (filter_nil_all _ _ Hall e Hin) as Hf. unfold in_slot in Hf. rewrite slot_eqb_refl in Hf. discriminate.
Qed.
Lemma wild_key_entry k pt : In (k, pt) (snd ht) ->
  rep pt (filter (in_slot (true, k)) ents) /\
  exists e, In e ents /\ is_wild_host (e_host e) = true /\ rev (wsuffix (e_host e)) = k.
Proof.
  intros Hin. destruct Hinv as (_ & Hu & Hall). specialize (Hall (true, k)).
  unfold ht_lookup in Hall. simpl in Hall. rewrite (in_rget _ _ _ Hu Hin) in Hall. destruct Hall as [Hrep Hne].
  split; [exact Hrep|]. destruct (filter (in_slot (true, k)) ents) as [|e l] eqn:Ef; [congruence|].
  assert (He : In e (filter (in_slot (true, k)) ents)) by (rewrite Ef; left; reflexivity).
  apply filter_In in He. destruct He as [He1 He2]. rewrite slot_wild_pred in He2.
  apply andb_true_iff in He2. destruct He2 as [Hw Hk]. apply bytes_eqb_eq in Hk.
  exists e. split; [exact He1|]. split; [exact Hw|symmetry; exact Hk].
Qed.
Lemma key_ends_dot k pt : In (k, pt) (snd ht) -> k <> [] -> exists t, k = t ++ [DOT].
Proof.
  intros Hin Hne. destruct (wild_key_entry k pt Hin) as (_ & e & He & Hw & Hk).
  rewrite Forall_forall in Hchk. specialize (Hchk e He). simpl in Hchk.
  assert (Hws : wsuffix (e_host e) <> []) by (intros Habs; rewrite Habs in Hk; simpl in Hk; congruence).
  destruct (checked_wild_suffix _ Hchk Hw Hws) as (t & Ht). rewrite Ht in Hk. simpl in Hk.
  exists (rev t). symmetry. exact Hk.
Qed.
Lemma host_wild_iff H e : host_wild H e = true <->
  is_wild_host (e_host e) = true /\ wsuffix (e_host e) <> [] /\ wmatch (rev H) (rev (wsuffix (e_host e))).
Proof.
  unfold host_wild. rewrite !andb_true_iff, negb_true_iff, one_label_wmatch. split.
  - intros [[Hw Hn] Hm]. split; [exact Hw|]. split; [|exact Hm]. intros Habs. rewrite Habs in Hn. discriminate.
  - intros (Hw & Hn & Hm). split; [split; [exact Hw|]|exact Hm]. destruct (wsuffix (e_host e)); [congruence|reflexivity].
Qed.

(* the pathTrees returned by hostTrees.get hold exactly the documented host class *)
Theorem host_get_class host :
  match host_get ht host with
  | Some pt => rep pt (host_class ents host)
  | None => host_class ents host = []
  end.
Proof.
  unfold host_get, host_class. rewrite hkey_rev. set (H := nh host).
  pose proof Hinv as (Hu1 & Hu2 & Hall).
  (* exact slot *)
  pose proof (Hall (false, rev H)) as Hex. unfold ht_lookup in Hex. simpl in Hex.
  rewrite (filter_ext _ _ (slot_exact_pred H)) in Hex.
  destruct (rget (rev H) (fst ht)) as [pt|] eqn:Eg.
  { destruct Hex as [Hrep Hne]. destruct (filter (host_exact H) ents); [congruence|exact Hrep]. }
  rewrite Hex. clear Hex Eg.
  (* any slot *)
  pose proof (Hall (true, [])) as Hany. unfold ht_lookup in Hany. simpl in Hany.
  rewrite (filter_ext _ _ slot_any_pred) in Hany.
  pose proof (lp_spec (rev H) (snd ht)) as Hlp.
  destruct (longest_prefix (rev H) (snd ht)) as [[mp pt]|] eqn:El; simpl in Hlp.
  - destruct Hlp as (Hin & Hpre & Hmax). simpl in Hpre.
    apply is_prefix_spec in Hpre. destruct Hpre as (rem & Hrem).
    assert (Hskip : skipn (length mp) (rev H) = rem).
    { rewrite Hrem. rewrite skipn_app, Nat.sub_diag, skipn_all. reflexivity. }
    rewrite Hskip.
    (* every matching wildcard entry has a key that is a prefix of mp *)
    assert (Hshort : forall e, In e ents -> host_wild H e = true ->
              exists X, mp = rev (wsuffix (e_host e)) ++ X /\ has_dot (X ++ rem) = false /\ wsuffix (e_host e) <> []).
    { intros e He Hw. apply host_wild_iff in Hw. destruct Hw as (Hw & Hn & (R & HR & Hd)).
      destruct (wild_present e He Hw) as (pt' & Hin').
      assert (Hp' : is_prefix (rev (wsuffix (e_host e))) (rev H) = true) by (apply is_prefix_spec; exists R; exact HR).
      pose proof (Hmax _ Hin' Hp') as Hlen. simpl in Hlen.
      rewrite Hrem in HR. symmetry in HR. destruct (common_prefix _ _ _ _ HR Hlen) as (X & HX & HRX).
      exists X. split; [exact HX|]. split; [rewrite <- HRX; exact Hd|exact Hn]. }
    destruct (has_dot rem) eqn:Edot.
    + (* "*" matched several labels: fall back to the any-host key *)
      rewrite (filter_none (host_wild H) ents).
      * destruct (rget [] (snd ht)); [exact (proj1 Hany)|exact Hany].
      * intros e He. destruct (host_wild H e) eqn:Ew; [|reflexivity].
        destruct (Hshort e He Ew) as (X & _ & Hd & _). rewrite has_dot_app, Edot, orb_true_r in Hd. discriminate.
    + assert (Hmp : mp = [] \/ mp <> []) by (destruct mp; [left; reflexivity|right; discriminate]).
      destruct Hmp as [->|Hmpne].
      * (* only the any-host key matches *)
        rewrite (filter_none (host_wild H) ents).
        -- pose proof (in_rget _ _ _ Hu2 Hin) as Hg. rewrite Hg in Hany. exact (proj1 Hany).
        -- intros e He. destruct (host_wild H e) eqn:Ew; [|reflexivity].
           destruct (Hshort e He Ew) as (X & HX & _ & Hn). exfalso.
           destruct (rev (wsuffix (e_host e))) eqn:Er; [|discriminate].
           apply Hn. apply rev_inj. rewrite Er. reflexivity.
      * (* a single-label wildcard *)
        destruct (wild_key_entry mp pt Hin) as (Hrep & _).
        assert (Hsame : forall e, In e ents -> host_wild H e = in_slot (true, mp) e).
        { intros e He. rewrite slot_wild_pred. destruct (host_wild H e) eqn:Ew.
          - destruct (Hshort e He Ew) as (X & HX & Hd & Hn). apply host_wild_iff in Ew. destruct Ew as (Hw & _ & _).
            rewrite Hw. rewrite andb_true_l. symmetry. apply bytes_eqb_eq. destruct X as [|x0 X'].
            + rewrite app_nil_r in HX. exact HX.
            + exfalso. destruct (key_ends_dot mp pt Hin Hmpne) as (t & Ht).
              rewrite HX in Ht. rewrite has_dot_app in Hd. apply orb_false_iff in Hd. destruct Hd as [Hd _].
              assert (Hlast : exists X0, x0 :: X' = X0 ++ [DOT]).
              { destruct (exists_last (l := x0 :: X') ltac:(discriminate)) as (X0 & z & HXz).
                exists X0. rewrite HXz in Ht. rewrite app_assoc in Ht. apply app_inj_tail in Ht.
                destruct Ht as [_ ->]. exact HXz. }
              destruct Hlast as (X0 & HX0). rewrite HX0, has_dot_app in Hd. simpl in Hd.
              change (DOT =? DOT) with true in Hd. rewrite orb_true_r in Hd. discriminate.
          - symmetry. apply not_true_is_false. intros Habs. apply andb_true_iff in Habs. destruct Habs as [Hw Hk].
            apply bytes_eqb_eq in Hk.
            assert (Ht : host_wild H e = true).
            { apply host_wild_iff. split; [exact Hw|]. split.
              - intros Hn. rewrite Hn in Hk. simpl in Hk. congruence.
              - exists rem. split; [rewrite <- Hk; exact Hrem|exact Edot]. }
            congruence. }
        rewrite (filter_ext_in _ _ _ Hsame).
        destruct (wild_key_entry mp pt Hin) as (_ & e0 & He0 & Hw0 & Hk0).
        destruct (filter (in_slot (true, mp)) ents) as [|e1 l1] eqn:Ef; [|exact Hrep].
        exfalso. pose proof (filter_nil_all _ _ Ef e0 He0) as Hf. rewrite slot_wild_pred, Hw0, Hk0, beq_refl in Hf. discriminate.
  - (* no wildcard key is a prefix: not even the any-host key exists *)
    rewrite (filter_none (host_wild H) ents).
    + apply filter_none. intros e He. destruct (host_any e) eqn:Ea; [|reflexivity]. exfalso.
      unfold host_any in Ea. apply andb_true_iff in Ea. destruct Ea as [Hw Hn].
      destruct (wild_present e He Hw) as (pt' & Hin'). specialize (Hlp _ Hin'). simpl in Hlp.
      destruct (wsuffix (e_host e)); [|discriminate]. simpl in Hlp. discriminate.
    + intros e He. destruct (host_wild H e) eqn:Ew; [|reflexivity]. exfalso.
      apply host_wild_iff in Ew. destruct Ew as (Hw & _ & (R & HR & _)).
      destruct (wild_present e He Hw) as (pt' & Hin'). specialize (Hlp _ Hin'). simpl in Hlp.
      assert (Hp : is_prefix (rev (wsuffix (e_host e))) (rev H) = true) by (apply is_prefix_spec; exists R; exact HR).
      congruence.
Qed.
End HostClass.

(* ================= F. headline and readings ================= *)
Theorem get_refines_doc rules t host path :
  load_rules rules = Some t -> tree_get t host path = doc_route rules host path.
Proof.
  intros Hl. pose proof (load_inv _ _ Hl) as Hinv.
  pose proof (load_from_checked rules ht_empty t Hl) as Hchk.
  unfold tree_get, doc_route. pose proof (host_get_class _ _ Hinv Hchk host) as Hc.
  destruct (host_get t host) as [pt|].
  - apply path_get_rep. exact Hc.
  - rewrite Hc. reflexivity.
Qed.

(* no fallback to another host class: once a class is non-empty, the answer is decided inside it *)
Theorem no_cross_class_fallback rules t host path :
  load_rules rules = Some t ->
  let ents := entries_of rules in
  let H := nh host in
  (filter (host_exact H) ents <> [] ->
     tree_get t host path = path_select (filter (host_exact H) ents) path) /\
  (filter (host_exact H) ents = [] -> filter (host_wild H) ents <> [] ->
     tree_get t host path = path_select (filter (host_wild H) ents) path) /\
  (filter (host_exact H) ents = [] -> filter (host_wild H) ents = [] ->
     tree_get t host path = path_select (filter host_any ents) path).
Proof.
  intros Hl ents H. rewrite (get_refines_doc _ _ host path Hl). unfold doc_route, host_class.
  fold ents. fold H. repeat split.
  - intros Hne. destruct (filter (host_exact H) ents); [congruence|reflexivity].
  - intros -> Hne. destruct (filter (host_wild H) ents); [congruence|reflexivity].
  - intros -> ->. reflexivity.
Qed.

(* longest_entry, declaratively *)
Lemma pick_fold l : forall acc,
  match fold_left pick_longer l acc with
  | Some e => (In e l \/ acc = Some e) /\
              (forall e', In e' l \/ acc = Some e' -> (length (pkey (e_path e')) <= length (pkey (e_path e)))%nat)
  | None => l = [] /\ acc = None
  end.
Proof.
  induction l as [|x l IH]; intros acc; simpl.
  - destruct acc as [b|]; [|split; reflexivity]. split; [right; reflexivity|].
    intros e' [[]|He]. inversion He; subst. lia.
  - specialize (IH (pick_longer acc x)). destruct (fold_left pick_longer l (pick_longer acc x)) as [e|].
    + destruct IH as [Hin Hmax]. unfold pick_longer in *. destruct acc as [b|].
      * destruct (Nat.ltb (length (pkey (e_path b))) (length (pkey (e_path x)))) eqn:El.
        -- apply Nat.ltb_lt in El. split.
           ++ destruct Hin as [Hin|Hin]; [left; right; exact Hin|]. inversion Hin; subst. left. left. reflexivity.
           ++ intros e' [[<-|He']|He'].
              ** apply Hmax. right. reflexivity.
              ** apply Hmax. left. exact He'.
              ** inversion He'; subst. assert (Hx := Hmax x (or_intror eq_refl)). lia.
        -- apply Nat.ltb_ge in El. split.
           ++ destruct Hin as [Hin|Hin]; [left; right; exact Hin|right; exact Hin].
           ++ intros e' [[<-|He']|He'].
              ** assert (Hb := Hmax b (or_intror eq_refl)). lia.
              ** apply Hmax. left. exact He'.
              ** apply Hmax. right. exact He'.
      * split.
        -- destruct Hin as [Hin|Hin]; [left; right; exact Hin|]. inversion Hin; subst. left. left. reflexivity.
        -- intros e' [[<-|He']|He']; [apply Hmax; right; reflexivity|apply Hmax; left; exact He'|discriminate].
    + destruct IH as [_ Habs]. unfold pick_longer in Habs. destruct acc as [b|]; [|discriminate].
      destruct (Nat.ltb _ _); discriminate.
Qed.
Theorem longest_entry_spec l :
  match longest_entry l with
  | Some e => In e l /\ forall e', In e' l -> (length (pkey (e_path e')) <= length (pkey (e_path e)))%nat
  | None => l = []
  end.
Proof.
  unfold longest_entry. pose proof (pick_fold l None) as H. destruct (fold_left pick_longer l None) as [e|].
  - destruct H as [[Hin|Habs] Hmax]; [|discriminate]. split; [exact Hin|]. intros e' He'. apply Hmax. left. exact He'.
  - exact (proj1 H).
Qed.
(* a prefix rule matches on whole path elements: its key ends with "/" (or is empty = any path) and the
   request path, with "/" appended when missing, starts with it *)
Theorem path_prefix_elements path e :
  path_prefix path e = true ->
  (exists rest, slash_end path = pkey (e_path e) ++ rest) /\
  (pkey (e_path e) = [] \/ exists k0, pkey (e_path e) = k0 ++ [SLASH]).
Proof.
  unfold path_prefix. intros H. apply andb_true_iff in H. destruct H as [_ Hp]. apply is_prefix_spec in Hp.
  split; [exact Hp|]. unfold pkey. set (k := removelast (e_path e)).
  destruct (negb (is_nil k) && negb (last_is SLASH k)) eqn:E.
  - right. exists k. reflexivity.
  - destruct k as [|x k'] eqn:Ek; [left; reflexivity|]. right. simpl in E. apply negb_false_iff in E.
    unfold last_is in E. destruct (rev (x :: k')) as [|y r] eqn:Er; [discriminate|].
    apply Z.eqb_eq in E. subst y. exists (rev r). apply rev_inj. rewrite rev_app_distr, rev_involutive. exact Er.
Qed.

(* ================= G. the documentation's tables (tests by vm_compute) ================= *)
From Coq Require Import String Ascii.
Definition b (s : string) : bytes := map (fun c => Z.of_nat (nat_of_ascii c)) (list_ascii_of_string s).
Definition via_tree (rules : list rule) (host path : string) : option (option bytes) :=
  option_map (fun t => tree_get t (b host) (b path)) (load_rules rules).
Definition one (host path : string) : list rule :=
  [mkRule (match host with EmptyString => [] | _ => [b host] end)
          (match path with EmptyString => [] | _ => [b path] end) (b "C")].
Definition hit := Some (Some (b "C")).
Definition miss : option (option bytes) := Some None.
(* route.md, host table *)
Lemma doc_host_table :
  via_tree (one "*" "/") "www.test1.com" "/" = hit /\
  via_tree (one "" "/") "www.test1.com" "/" = hit /\
  via_tree (one "*.test1.com" "") "host.test1.com" "/x" = hit /\
  via_tree (one "*.test1.com" "") "vip.host.test1.com" "/x" = miss /\
  via_tree (one "*.test1.com" "") "example.com" "/x" = miss /\
  via_tree (one "*.test1.com" "") "test1.com" "/x" = miss.
Proof. vm_compute. repeat split; reflexivity. Qed.
(* route.md, path table (all 16 rows) *)
Lemma doc_path_table :
  via_tree (one "h" "*") "h" "" = hit /\ via_tree (one "h" "") "h" "" = hit /\
  via_tree (one "h" "*") "h" "/" = hit /\ via_tree (one "h" "*") "h" "/a/b" = hit /\
  via_tree (one "h" "/") "h" "" = miss /\ via_tree (one "h" "/") "h" "/" = hit /\ via_tree (one "h" "/") "h" "/a" = miss /\
  via_tree (one "h" "/*") "h" "" = miss /\ via_tree (one "h" "/*") "h" "/" = hit /\ via_tree (one "h" "/*") "h" "/a" = hit /\
  via_tree (one "h" "/*") "h" "/a/b" = hit /\ via_tree (one "h" "/*") "h" "/a/" = hit /\
  via_tree (one "h" "/a/b/*") "h" "/a/b/c" = hit /\ via_tree (one "h" "/a/b/*") "h" "/a/b/c/d" = hit /\
  via_tree (one "h" "/a/b/*") "h" "/a/b" = hit /\ via_tree (one "h" "/a/b/*") "h" "/a/c" = miss /\
  via_tree (one "h" "/a/b/*") "h" "/a/" = miss.
Proof. vm_compute. repeat split; reflexivity. Qed.
(* route.md, the four-rule example and the demo table *)
Definition doc_rules4 : list rule :=
  [ mkRule [b "*.test1.com"] [] (b "StaticCluster");
    mkRule [b "*.b.test1.com"] [b "/interface/*"] (b "PhpCluster");
    mkRule [b "*.b.test1.com"] [b "/*"] (b "StaticCluster2");
    mkRule [b "www.test1.com"] [b "/interface/d"] (b "PhpCluster4") ].
Definition doc_demo : list rule :=
  [ mkRule [b "www.a.com"] [b "/a/*"] (b "Demo-A");
    mkRule [b "www.a.com"] [b "/a/b"] (b "Demo-B");
    mkRule [b "*.a.com"] [b "*"] (b "Demo-C");
    mkRule [b "www.c.com"] [b "*"] (b "ADVANCED_MODE") ].
Lemma doc_examples :
  via_tree doc_rules4 "vip.b.test1.com" "/interface/d" = Some (Some (b "PhpCluster")) /\
  via_tree doc_rules4 "vip.b.test1.com" "/other" = Some (Some (b "StaticCluster2")) /\
  via_tree doc_rules4 "www.test1.com" "/other" = Some None /\              (* exact host class, path misses: no fallback *)
  via_tree doc_rules4 "WWW.Test1.com." "/interface/d" = Some (Some (b "PhpCluster4")) /\
  via_tree doc_demo "www.a.com" "/a/b" = Some (Some (b "Demo-B")) /\
  via_tree doc_demo "www.a.com" "/a/b/c" = Some (Some (b "Demo-A")) /\
  via_tree doc_demo "www.a.com" "/ab" = Some None /\
  via_tree doc_demo "x.a.com" "/ab" = Some (Some (b "Demo-C")) /\
  via_tree doc_demo "www.c.com" "/" = Some (Some (b "ADVANCED_MODE")) /\
  via_tree doc_demo "www.d.com" "/" = Some None /\
  (* duplicates are rejected by the loader: "/foo*" and "/foo/*" have the same key *)
  load_rules [mkRule [b "h"] [b "/foo*"; b "/foo/*"] (b "C")] = None.
Proof. vm_compute. repeat split; reflexivity. Qed.

(* ================= H. the executable property holds of the model on every well-formed input ================= *)
From Bfe Require Import run.RunC11.
Lemma prop_shape2 o (y : bool) : y = true ->
  match o with VL [VZ (-1); VZ _] => true | _ => y end = true.
Proof.
  intros H. destruct o as [z|bs|l]; try exact H.
  destruct l as [|a l]; try exact H. destruct a as [z|bs|l']; try exact H.
  destruct z as [|p|p]; try exact H. destruct p; try exact H.
  destruct l as [|a2 l]; try exact H. destruct a2 as [z|bs|l']; try exact H.
  destruct l; [reflexivity|exact H].
Qed.
(* using the exported API directly on rules that pass the loader's checks builds the same tree as the loader *)
Lemma insert_from_checked rules : forall ht,
  forallb check_rule rules = true -> insert_from rules ht = load_from rules ht.
Proof.
  induction rules as [|r rules IH]; intros ht H; simpl; [reflexivity|].
  simpl in H. apply andb_true_iff in H. destruct H as [Hr Hrest]. rewrite Hr.
  destruct (tree_insert r ht); [apply IH; exact Hrest|reflexivity].
Qed.
Theorem insert_all_checked rules : forallb check_rule rules = true -> insert_all rules = load_rules rules.
Proof. apply insert_from_checked. Qed.
Lemma load_from_all_checked rules : forall ht ht', load_from rules ht = Some ht' -> forallb check_rule rules = true.
Proof.
  induction rules as [|r rules IH]; intros ht ht'; simpl; [reflexivity|].
  destruct (check_rule r); [|discriminate]. destruct (tree_insert r ht) as [ht1|]; [|discriminate].
  intros H. simpl. apply (IH ht1 ht' H).
Qed.
Lemma answers_refine rules t queries : load_rules rules = Some t ->
  enc_answers (tree_get t) queries = enc_answers (doc_route rules) queries.
Proof.
  intros El. unfold enc_answers. f_equal. apply map_ext. intros q. rewrite (get_refines_doc _ _ _ _ El). reflexivity.
Qed.
Theorem prop_C11_of_model i : wf_C11 i = true -> kf_C11 i = 0 -> prop_C11 i (run_C11 i) = true.
Proof.
  unfold wf_C11, prop_C11, run_C11. destruct (dec_C11 i) as [[[direct rules] queries]|]; [|discriminate]. intros _ _.
  destruct direct.
  - destruct (insert_all rules) as [t|] eqn:Ei; [|reflexivity].
    refine (prop_shape2 (enc_answers (tree_get t) queries) _ _).
    simpl andb. destruct (forallb check_rule rules) eqn:Ec; [|reflexivity].
    rewrite (insert_all_checked rules Ec) in Ei. rewrite (answers_refine rules t queries Ei). apply val_eqb_refl.
  - destruct (load_rules rules) as [t|] eqn:El; [|reflexivity].
    refine (prop_shape2 (enc_answers (tree_get t) queries) _ _).
    simpl andb. cbv iota. rewrite (answers_refine rules t queries El). apply val_eqb_refl.
Qed.
