(* C31_incremental: the result of the decoder model does not depend on how the input is split across Write calls. *)
From Coq Require Import List ZArith Bool Lia ZifyBool ZifyNat.
From Bfe Require Import lib.Val lib.Bytes gen.HpackTables model.Huffman model.Hpack.
Import ListNotations.
Open Scope Z_scope.

(* a reader is prefix-stable: a final answer (value, error, panic) on p stays the answer on p ++ q, a value
   consumes at least one byte, and error codes are not 0 *)
Definition mono {A} (f : bytes -> rd A) : Prop :=
  forall p q, match f p with
              | ROk a r => f (p ++ q) = ROk a (r ++ q) /\ (length r < length p)%nat
              | RNeedMore => True
              | RErr c => f (p ++ q) = RErr c /\ c <> 0
              | RPanic => f (p ++ q) = RPanic
              end.

Lemma varint_loop_mono : forall p i m q,
  match varint_loop p i m with
  | ROk a r => varint_loop (p ++ q) i m = ROk a (r ++ q) /\ (length r < length p)%nat
  | RNeedMore => True
  | RErr c => varint_loop (p ++ q) i m = RErr c /\ c <> 0
  | RPanic => False
  end.
Proof.
  induction p as [|b p IH]; intros i m q; [exact I|].
  cbn [varint_loop app]. destruct (b <? 128).
  - split; [reflexivity|simpl; lia].
  - destruct (m + 7 >=? 63); [split; [reflexivity|discriminate]|].
    specialize (IH (i + b mod 128 * 2 ^ m) (m + 7) q).
    destruct (varint_loop p (i + b mod 128 * 2 ^ m) (m + 7)); try exact IH.
    destruct IH as [H1 H2]. split; [exact H1|simpl; lia].
Qed.
Lemma read_varint_mono n : mono (read_varint n).
Proof.
  intros p q. destruct p as [|b p]; [exact I|]. cbn [read_varint app].
  destruct (b mod 2 ^ n <? 2 ^ n - 1).
  - split; [reflexivity|simpl; lia].
  - pose proof (varint_loop_mono p (b mod 2 ^ n) 0 q) as H.
    destruct (varint_loop p (b mod 2 ^ n) 0); try exact H; try contradiction.
    destruct H as [H1 H2]. split; [exact H1|simpl; lia].
Qed.

Section Incr.
Variable hd : bytes -> hres.

Lemma firstn_skipn_app_le {A} (l q : list A) n : (n <= length l)%nat ->
  firstn n (l ++ q) = firstn n l /\ skipn n (l ++ q) = skipn n l ++ q.
Proof.
  intros H. rewrite firstn_app, skipn_app. replace (n - length l)%nat with O by lia. simpl.
  rewrite app_nil_r. split; reflexivity.
Qed.

Lemma read_string_mono : mono (read_string hd).
Proof.
  intros p q. destruct p as [|b0 p0]; [exact I|]. unfold read_string. cbn [app].
  pose proof (read_varint_mono 7 (b0 :: p0) q) as Hv. cbn [app] in Hv.
  destruct (read_varint 7 (b0 :: p0)) as [len r| |c|]; try exact I.
  - destruct Hv as [Hv Hl]. rewrite Hv.
    destruct (blen r <? len) eqn:E; [exact I|].
    assert (blen (r ++ q) <? len = false) as -> by (unfold blen in *; rewrite app_length; lia).
    destruct (firstn_skipn_app_le r q (Z.to_nat len)) as [H1 H2]; [unfold blen in E; lia|].
    rewrite H1, H2.
    assert (length (skipn (Z.to_nat len) r) < length (b0 :: p0))%nat as Hlen by (rewrite skipn_length; lia).
    destruct (128 <=? b0).
    + destruct (hd (firstn (Z.to_nat len) r)).
      * split; [reflexivity|exact Hlen].
      * split; [reflexivity|discriminate].
      * reflexivity.
      * split; [reflexivity|discriminate].
    + split; [reflexivity|exact Hlen].
  - destruct Hv as [Hv Hc]. rewrite Hv. split; [reflexivity|exact Hc].
  - rewrite Hv. reflexivity.
Qed.

Lemma parse_indexed_mono d : mono (parse_indexed d).
Proof.
  intros p q. unfold parse_indexed. pose proof (read_varint_mono 7 p q) as Hv.
  destruct (read_varint 7 p) as [idx r| |c|]; try exact I.
  - destruct Hv as [Hv Hl]. rewrite Hv. destruct (dec_at d idx) as [[n v]|].
    + split; [reflexivity|exact Hl].
    + split; [reflexivity|discriminate].
  - destruct Hv as [Hv Hc]. rewrite Hv. split; [reflexivity|exact Hc].
  - rewrite Hv. reflexivity.
Qed.

Lemma parse_literal_mono d n it : mono (parse_literal hd d n it).
Proof.
  intros p q. unfold parse_literal. pose proof (read_varint_mono n p q) as Hv.
  destruct (read_varint n p) as [idx r| |c|]; try exact I.
  2:{ destruct Hv as [Hv Hc]. rewrite Hv. split; [reflexivity|exact Hc]. }
  2:{ rewrite Hv. reflexivity. }
  destruct Hv as [Hv Hl]. rewrite Hv.
  assert (match (if idx >? 0 then match dec_at d idx with Some (nm, _) => ROk nm r | None => RErr E_INDEX end
                 else read_string hd r) with
          | ROk a r1 => (if idx >? 0 then match dec_at d idx with Some (nm, _) => ROk nm (r ++ q) | None => RErr E_INDEX end
                         else read_string hd (r ++ q)) = ROk a (r1 ++ q) /\ (length r1 <= length r)%nat
          | RNeedMore => True
          | RErr c => (if idx >? 0 then match dec_at d idx with Some (nm, _) => ROk nm (r ++ q) | None => RErr E_INDEX end
                         else read_string hd (r ++ q)) = RErr c /\ c <> 0
          | RPanic => (if idx >? 0 then match dec_at d idx with Some (nm, _) => ROk nm (r ++ q) | None => RErr E_INDEX end
                         else read_string hd (r ++ q)) = RPanic
          end) as Hn.
  { destruct (idx >? 0).
    - destruct (dec_at d idx) as [[nm x]|]; [split; [reflexivity|lia]|split; [reflexivity|discriminate]].
    - pose proof (read_string_mono r q) as Hs. destruct (read_string hd r); try exact Hs.
      destruct Hs as [Hs Hl2]. split; [exact Hs|lia]. }
  destruct (if idx >? 0 then match dec_at d idx with Some (nm, _) => ROk nm r | None => RErr E_INDEX end
            else read_string hd r) as [nm r1| |c|]; try exact I.
  2:{ destruct Hn as [Hn Hc]. rewrite Hn. split; [reflexivity|exact Hc]. }
  2:{ rewrite Hn. reflexivity. }
  destruct Hn as [Hn Hl1]. rewrite Hn.
  pose proof (read_string_mono r1 q) as Hs.
  destruct (read_string hd r1) as [v r2| |c|]; try exact I.
  - destruct Hs as [Hs Hl2]. rewrite Hs. destruct (it =? 0).
    + destruct (dt_add d (mkF nm v false)); [split; [reflexivity|lia]|reflexivity].
    + split; [reflexivity|lia].
  - destruct Hs as [Hs Hc]. rewrite Hs. split; [reflexivity|exact Hc].
  - rewrite Hs. reflexivity.
Qed.

Lemma parse_size_update_mono first d : mono (parse_size_update first d).
Proof.
  intros p q. unfold parse_size_update. destruct (negb first); [split; [reflexivity|discriminate]|].
  pose proof (read_varint_mono 5 p q) as Hv.
  destruct (read_varint 5 p) as [v r| |c|]; try exact I.
  - destruct Hv as [Hv Hl]. rewrite Hv. destruct (v >? dallowed d); [split; [reflexivity|discriminate]|].
    destruct (dt_set_max d v); [split; [reflexivity|exact Hl]|reflexivity].
  - destruct Hv as [Hv Hc]. rewrite Hv. split; [reflexivity|exact Hc].
  - rewrite Hv. reflexivity.
Qed.

Lemma parse_repr_mono first d : mono (parse_repr hd first d).
Proof.
  intros p q. destruct p as [|b p0]; [exact I|]. unfold parse_repr. cbn [app].
  destruct (128 <=? b); [apply (parse_indexed_mono d (b :: p0) q)|].
  destruct (64 <=? b); [apply (parse_literal_mono d 6 0 (b :: p0) q)|].
  destruct (b <? 16); [apply (parse_literal_mono d 4 1 (b :: p0) q)|].
  destruct (b <? 32); [apply (parse_literal_mono d 4 2 (b :: p0) q)|].
  apply (parse_size_update_mono first d (b :: p0) q).
Qed.

Lemma loop_fuel : forall f1 f2 first d buf acc, (length buf < f1)%nat -> (length buf < f2)%nat ->
  parse_loop hd f1 first d buf acc = parse_loop hd f2 first d buf acc.
Proof.
  induction f1 as [|f1 IH]; intros f2 first d buf acc H1 H2; [lia|].
  destruct f2 as [|f2]; [lia|]. destruct buf as [|b p0]; [reflexivity|].
  cbn [parse_loop]. pose proof (parse_repr_mono first d (b :: p0) []) as Hm.
  destruct (parse_repr hd first d (b :: p0)) as [[d' o] rest| |c|]; try reflexivity.
  destruct Hm as [_ Hl]. apply IH; simpl in *; lia.
Qed.

Lemma loop_acc : forall f first d buf acc,
  parse_loop hd f first d buf acc = let '(dd, a, st) := parse_loop hd f first d buf [] in (dd, a ++ acc, st).
Proof.
  induction f as [|f IH]; intros first d buf acc; destruct buf as [|b p0]; cbn [parse_loop]; try reflexivity.
  destruct (parse_repr hd first d (b :: p0)) as [[d' o] rest| |c|]; try reflexivity.
  rewrite (IH _ _ _ (match o with Some x => x :: acc | None => acc end)),
          (IH _ _ _ (match o with Some x => [x] | None => [] end)).
  destruct (parse_loop hd f (next_first first o) d' rest []) as [[dd a] st].
  destruct o; [rewrite <- app_assoc|rewrite app_nil_r]; reflexivity.
Qed.

Lemma loop_cons f first d b p0 acc :
  parse_loop hd (S f) first d (b :: p0) acc =
  match parse_repr hd first d (b :: p0) with
  | ROk (d', o) rest => parse_loop hd f (next_first first o) d' rest (match o with Some x => x :: acc | None => acc end)
  | RNeedMore => (mkD d (b :: p0) first, acc, 0)
  | RErr c => (mkD d [] first, acc, c)
  | RPanic => (mkD d [] first, acc, ST_PANIC)
  end.
Proof. reflexivity. Qed.

Lemma loop_app : forall f first d p acc q F, (length p < f)%nat -> (length (p ++ q) < F)%nat ->
  parse_loop hd F first d (p ++ q) acc =
  let '(dd, acc1, st) := parse_loop hd f first d p acc in
  if st =? 0 then parse_loop hd (S (length (dsave dd ++ q))) (dfirst dd) (ddt dd) (dsave dd ++ q) acc1
  else (dd, acc1, st).
Proof.
  induction f as [|f IH]; intros first d p acc q F Hf HF; [lia|].
  destruct p as [|b p0].
  - assert (parse_loop hd (S f) first d [] acc = (mkD d [] first, acc, 0)) as -> by reflexivity.
    cbn [dsave ddt dfirst app]. change (0 =? 0) with true. cbv iota.
    apply loop_fuel; [exact HF|simpl; lia].
  - rewrite (loop_cons f first d b p0 acc). pose proof (parse_repr_mono first d (b :: p0) q) as Hm.
    destruct F as [|F0]; [lia|].
    destruct (parse_repr hd first d (b :: p0)) as [[d' o] rest| |c|].
    + destruct Hm as [Hm Hl].
      rewrite <- app_comm_cons, loop_cons, app_comm_cons, Hm.
      simpl in Hf, HF, Hl. rewrite app_length in HF. apply IH; [lia|rewrite app_length; lia].
    + cbn [dsave ddt dfirst]. change (0 =? 0) with true. cbv iota. apply loop_fuel; [exact HF|lia].
    + destruct Hm as [Hm Hc].
      rewrite <- app_comm_cons, loop_cons, app_comm_cons, Hm.
      assert (c =? 0 = false) as -> by lia. reflexivity.
    + rewrite <- app_comm_cons, loop_cons, app_comm_cons, Hm. reflexivity.
Qed.

Lemma dec_write_app d c x :
  dec_write hd d (c ++ x) =
  let '(d', fs, st) := dec_write hd d c in
  if st =? 0 then let '(d'', fs2, st2) := dec_write hd d' x in (d'', fs ++ fs2, st2) else (d', fs, st).
Proof.
  destruct c as [|b c0].
  - cbn [app]. unfold dec_write at 2. change (0 =? 0) with true. cbv iota.
    destruct (dec_write hd d x) as [[d'' fs2] st2]. reflexivity.
  - destruct x as [|y x0].
    + rewrite app_nil_r. destruct (dec_write hd d (b :: c0)) as [[d' fs] st]. destruct (st =? 0) eqn:E; [|reflexivity].
      cbn [dec_write]. rewrite app_nil_r. f_equal. lia.
    + unfold dec_write. rewrite <- app_comm_cons. rewrite app_comm_cons.
      set (p := dsave d ++ b :: c0). set (q := y :: x0).
      replace (dsave d ++ (b :: c0) ++ q) with (p ++ q) by (unfold p; rewrite <- app_assoc; reflexivity).
      rewrite (loop_app (S (length p)) (dfirst d) (ddt d) p [] q (S (length (p ++ q)))) by lia.
      destruct (parse_loop hd (S (length p)) (dfirst d) (ddt d) p []) as [[dd acc1] st].
      destruct (st =? 0); [|reflexivity].
      rewrite loop_acc. unfold q.
      destruct (parse_loop hd (S (length (dsave dd ++ y :: x0))) (dfirst dd) (ddt dd) (dsave dd ++ y :: x0) []) as [[d'' a2] st2].
      rewrite rev_app_distr. reflexivity.
Qed.

Theorem dec_run_concat : forall chunks d acc, dec_run hd d chunks acc = dec_run hd d [concat chunks] acc.
Proof.
  induction chunks as [|c r IH]; intros d acc.
  - cbn [concat dec_run dec_write]. change (0 =? 0) with true. cbv iota. cbn [dec_run]. rewrite app_nil_r. reflexivity.
  - cbn [concat]. cbn [dec_run]. rewrite dec_write_app.
    destruct (dec_write hd d c) as [[d' fs] st]. destruct (st =? 0) eqn:E.
    + rewrite IH. cbn [dec_run]. destruct (dec_write hd d' (concat r)) as [[d'' fs2] st2].
      rewrite app_assoc. reflexivity.
    + rewrite E. reflexivity.
Qed.
End Incr.
