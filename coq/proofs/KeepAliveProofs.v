(* Proofs about the C28 model (KeepAlive.v / RunC28.v). *)
From Coq Require Import List ZArith Bool Lia ZifyBool.
From Bfe Require Import lib.Val lib.Bytes model.Http1Resp model.KeepAlive run.RunC28.
Import ListNotations.
Open Scope Z_scope.

(* what the pre-fix code sends for an input *)
Definition old_output_of (i : val) : val :=
  match dec_C28 i with
  | Some (rs, ss) =>
    match serve_old (S (length (stream_of rs))) ss (stream_of rs) with
    | Some out => VB out
    | None => VErr 1
    end
  | None => VErr 0
  end.

(* ---------- the loop answers the client's requests in order, one output each, never re-reading a body ---------- *)
Section Loop.
Variable sniff : bytes -> bytes.
Variable now : bytes.
Variable fx : bool.

(* b is one self-delimiting request: whatever the client sends after it (t), the reader finds request r in b ++ t and
   the position after r's body is exactly t *)
Definition frames (b : bytes) (r : req) : Prop :=
  forall t, exists rest, read_request (b ++ t) = ROk r rest /\ body_end (r_framing r) rest = (t, true).

(* what the client must receive: for the requests in order, the output of each one's handler, up to and including
   the first one after which the server closes *)
Fixpoint outputs (scripts : list script) (rs : list req) : option bytes :=
  match rs with
  | [] => Some []
  | r :: rest =>
    match serve_one sniff now fx scripts r false with
    | None => None
    | Some (out, stop) =>
      if stop then Some out
      else match outputs scripts rest with Some o => Some (out ++ o) | None => None end
    end
  end.

Lemma serve_in_order : forall bs rs, Forall2 frames bs rs ->
  forall scripts fuel, (length rs < fuel)%nat ->
  serve sniff now fx fuel scripts (concat bs) = outputs scripts rs.
Proof.
  induction 1 as [|b r bs rs Hf _ IH]; intros scripts fuel Hfuel.
  - destruct fuel as [|f]; [simpl in Hfuel; lia|]. reflexivity.
  - destruct fuel as [|f]; [simpl in Hfuel; lia|].
    simpl concat. destruct (Hf (concat bs)) as [rest [Hr Ha]].
    cbn [serve outputs]. rewrite Hr, Ha. cbn [fst snd negb].
    destruct (serve_one sniff now fx scripts r false) as [[out stop]|]; [|reflexivity].
    destruct stop; [reflexivity|].
    rewrite IH by (simpl in Hfuel; lia). reflexivity.
Qed.

(* a malformed request head is answered "400 Bad Request" and nothing after it is read *)
Lemma serve_bad : forall scripts fuel s, read_request s = RBad ->
  serve sniff now fx (S fuel) scripts s = Some s_bad_request.
Proof. intros scripts fuel s H. cbn [serve]. rewrite H. reflexivity. Qed.
End Loop.

(* ---------- Expect: 100-continue without "100 Continue" => the connection is closed (after the fix) ---------- *)
Lemma wh_frame_close_mono is_head status nb has_cl at11 h2 :
  snd (fst (wh_frame is_head status nb has_cl at11 h2 true)) = true.
Proof. unfold wh_frame. destruct (is_head || (status =? 304)), nb, has_cl, at11; reflexivity. Qed.

Lemma write_header_close_expect sniff now allowed q status h clen c0 hdone p be :
  d_close (write_header sniff now true allowed q (true, true, false, be) status h clen c0 hdone p) = true.
Proof.
  unfold write_header. cbn [d_close fst snd]. rewrite !andb_true_l. cbn [negb]. rewrite orb_true_r.
  apply wh_frame_close_mono.
Qed.

Lemma respond_close_expect sniff now allowed q ff status h pieces err be :
  snd (fst (respond_gen sniff now true allowed q (true, true, false, be) ff status h pieces err)) = true.
Proof.
  unfold respond_gen.
  destruct (accept_writes _ _ _ _) as [[acc written] werr].
  destruct (if ff then _ else _) as [flushed pending].
  cbn [fst snd]. rewrite write_header_close_expect. reflexivity.
Qed.

Lemma expect_without_continue_closes sniff now scripts r sc :
  has_token (get_ci s_expect (r_fields r)) s_100c = true -> 1 <= r_minor r ->
  (match r_framing r with RLen n => negb (n =? 0) | RChunked => true end) = true ->
  find_script (get_ci s_spec (r_fields r)) scripts = Some sc ->
  h_read sc = 0 -> h_src sc <> 1 ->
  forall be, exists out, serve_one sniff now true scripts r be = Some (out, true).
Proof.
  intros He Hm Hcl Hs Hr Hsrc be. unfold serve_one. rewrite He, Hcl, Hs. cbn [negb andb].
  assert (E1 : (1 <=? r_minor r) = true) by (apply Z.leb_le; exact Hm). rewrite E1.
  rewrite Hr. assert (E2 : (h_src sc =? 1) = false) by (apply Z.eqb_neq; exact Hsrc). rewrite E2.
  cbn [Z.eqb negb orb andb].
  destruct (h_src sc =? 2); [eexists; reflexivity|].
  destruct (h_src sc =? 3).
  - destruct (respond' _ _ _ _ _ _ _ _ _ _) as [[out c] d]. eexists; reflexivity.
  - pose proof (respond_close_expect sniff now body_allowed_status
        {| q_minor := r_minor r; q_head := bytes_eqb (r_method r) s_head_m; q_conn := get_ci s_conn (r_fields r) |}
        false (h_status sc) (h_hdrs sc ++ [(s_xreq, get_ci s_vid (r_fields r))]) (h_pieces sc) (h_err sc) be) as Hc.
    unfold respond'. destruct (respond_gen _ _ _ _ _ _ _ _ _ _ _) as [[out c] d]. cbn [fst snd] in Hc. subst c.
    eexists; reflexivity.
Qed.

(* POST with "Expect: 100-continue", Content-Length: 40 and the body withheld, answered by a module response
   that never reads the body; then a 43-byte GET.  Before the fix the first response keeps the connection alive
   and Body.Close swallows 40 bytes of the GET: the client gets "400 Bad Request" for it. *)
Definition witness_expect : val :=
  VL [VL [VL [VB [80;79;83;84;32;47;97;32;72;84;84;80;47;49;46;49;13;10;72;111;115;116;58;32;101;120;97;109;112;108;101;46;111;114;103;13;10;88;45;86;101;114;105;102;45;73;100;58;32;114;48;13;10;88;45;86;101;114;105;102;45;83;112;101;99;58;32;114;48;13;10;69;120;112;101;99;116;58;32;49;48;48;45;99;111;110;116;105;110;117;101;13;10;67;111;110;116;101;110;116;45;76;101;110;103;116;104;58;32;52;48;13;10;13;10]; VB [114;48]; VZ 1; VZ 0; VZ 1];
          VL [VB [71;69;84;32;47;98;32;72;84;84;80;47;49;46;49;13;10;72;111;115;116;58;32;101;120;97;109;112;108;101;46;111;114;103;13;10;88;45;86;101;114;105;102;45;73;100;58;32;114;49;13;10;88;45;86;101;114;105;102;45;83;112;101;99;58;32;114;49;13;10;13;10]; VB [114;49]; VZ 0; VZ 0; VZ 0]];
      VL [VL [VB [114;48]; VZ 0; VZ 0; VZ 200; VL [VL [VB [68;97;116;101]; VB [84;104;117;44;32;48;49;32;74;97;110;32;49;57;55;48;32;48;48;58;48;48;58;48;48;32;71;77;84]]]; VL [VB [111;107]]; VZ 0]; VL [VB [114;49]; VZ 0; VZ 0; VZ 200; VL [VL [VB [68;97;116;101]; VB [84;104;117;44;32;48;49;32;74;97;110;32;49;57;55;48;32;48;48;58;48;48;58;48;48;32;71;77;84]]]; VL [VB [111;107]]; VZ 0]]].

Lemma old_expect_refuted :
  exists i, dec_C28 i <> None /\
    prop_C28 i (old_output_of i) = false /\ prop_C28 i (run_C28 i) = true.
Proof. exists witness_expect. split; [discriminate|]. split; vm_compute; reflexivity. Qed.

(* ---------- non-vacuity: a POST whose body is itself a complete GET request, followed by a real GET ---------- *)
Definition ex_b1 : bytes := [80;79;83;84;32;47;97;32;72;84;84;80;47;49;46;49;13;10;72;111;115;116;58;32;101;120;97;109;112;108;101;46;111;114;103;13;10;88;45;86;101;114;105;102;45;73;100;58;32;114;48;13;10;88;45;86;101;114;105;102;45;83;112;101;99;58;32;114;48;13;10;67;111;110;116;101;110;116;45;76;101;110;103;116;104;58;32;55;57;13;10;13;10;71;69;84;32;47;101;118;105;108;32;72;84;84;80;47;49;46;49;13;10;72;111;115;116;58;32;101;120;97;109;112;108;101;46;111;114;103;13;10;88;45;86;101;114;105;102;45;73;100;58;32;101;118;105;108;13;10;88;45;86;101;114;105;102;45;83;112;101;99;58;32;101;118;105;108;13;10;13;10].
Definition ex_b2 : bytes := [71;69;84;32;47;98;32;72;84;84;80;47;49;46;49;13;10;72;111;115;116;58;32;101;120;97;109;112;108;101;46;111;114;103;13;10;88;45;86;101;114;105;102;45;73;100;58;32;114;49;13;10;88;45;86;101;114;105;102;45;83;112;101;99;58;32;114;49;13;10;13;10].
Definition ex_r1 : req := Eval vm_compute in match read_request ex_b1 with ROk r _ => r | _ => {| r_method := []; r_minor := 0; r_fields := []; r_framing := RChunked |} end.
Definition ex_r2 : req := Eval vm_compute in match read_request ex_b2 with ROk r _ => r | _ => {| r_method := []; r_minor := 0; r_fields := []; r_framing := RChunked |} end.
Lemma body_end_len (b t : bytes) n : Z.of_nat (length b) = n -> body_end (RLen n) (b ++ t) = (t, true).
Proof.
  intro H. unfold body_end, blen. rewrite app_length.
  replace (Z.of_nat (length b + length t) <? n) with false by lia.
  rewrite <- H, Nat2Z.id. f_equal. clear H. induction b as [|x b IH]; [reflexivity|]. cbn [length app]. rewrite skipn_cons. exact IH.
Qed.
Definition ex_evil : bytes := [71;69;84;32;47;101;118;105;108;32;72;84;84;80;47;49;46;49;13;10;72;111;115;116;58;32;101;120;97;109;112;108;101;46;111;114;103;13;10;88;45;86;101;114;105;102;45;73;100;58;32;101;118;105;108;13;10;88;45;86;101;114;105;102;45;83;112;101;99;58;32;101;118;105;108;13;10;13;10].
Lemma ex_frames1 : frames ex_b1 ex_r1.
Proof.
  intro t. exists (ex_evil ++ t). split; [vm_compute; reflexivity|].
  exact (body_end_len ex_evil t 79 eq_refl).
Qed.
Lemma ex_frames2 : frames ex_b2 ex_r2.
Proof.
  intro t. exists ([] ++ t). split; [vm_compute; reflexivity|].
  exact (body_end_len [] t 0 eq_refl).
Qed.
Lemma ex_in_order : Forall2 frames [ex_b1; ex_b2] [ex_r1; ex_r2] /\ r_framing ex_r1 = RLen 79 /\ r_framing ex_r2 = RLen 0.
Proof. split; [repeat constructor; [exact ex_frames1|exact ex_frames2]|split; reflexivity]. Qed.
