(* Proofs about the C28 model (KeepAlive.v / RunC28.v). *)
From Coq Require Import List ZArith Bool Lia ZifyBool.
From Bfe Require Import lib.Val lib.Bytes model.Http1Resp model.KeepAlive run.RunC27 run.RunC28 proofs.Http1RespProofs.
Import ListNotations.
Open Scope Z_scope.

(* what the pre-fix code sends for an input *)
Definition old_output_of (i : val) : val :=
  match dec_C28 i with
  | Some (rs, ss) =>
    match serve_old (S (length (stream_of rs))) ss (stream_of rs) with
    | Some out => VB out
    | None => VErr 1
    end
  | None => VErr 0
  end.

(* ---------- the loop answers the client's requests in order, one output each, never re-reading a body ---------- *)
Section Loop.
Variable sniff : bytes -> bytes.
Variable now : bytes.
Variable fx : bool.

(* b is one self-delimiting request: whatever the client sends after it (t), the reader finds request r in b ++ t and
   the position after r's body is exactly t *)
Definition frames (b : bytes) (r : req) : Prop :=
  forall t, exists rest, read_request (b ++ t) = ROk r rest /\ body_end (r_framing r) rest = (t, true).

(* what the client must receive: for the requests in order, the output of each one's handler, up to and including
   the first one after which the server closes *)
Fixpoint outputs (scripts : list script) (rs : list req) : option bytes :=
  match rs with
  | [] => Some []
  | r :: rest =>
    match serve_one sniff now fx scripts r false with
    | None => None
    | Some (out, stop) =>
      if stop then Some out
      else match outputs scripts rest with Some o => Some (out ++ o) | None => None end
    end
  end.

Lemma serve_in_order : forall bs rs, Forall2 frames bs rs ->
  forall scripts fuel, (length rs < fuel)%nat ->
  serve sniff now fx fuel scripts (concat bs) = outputs scripts rs.
Proof.
  induction 1 as [|b r bs rs Hf _ IH]; intros scripts fuel Hfuel.
  - destruct fuel as [|f]; [simpl in Hfuel; lia|]. reflexivity.
  - destruct fuel as [|f]; [simpl in Hfuel; lia|].
    simpl concat. destruct (Hf (concat bs)) as [rest [Hr Ha]].
    cbn [serve outputs]. rewrite Hr, Ha. cbn [fst snd negb].
    destruct (serve_one sniff now fx scripts r false) as [[out stop]|]; [|reflexivity].
    destruct stop; [reflexivity|].
    rewrite IH by (simpl in Hfuel; lia). reflexivity.
Qed.

(* a malformed request head is answered "400 Bad Request" and nothing after it is read *)
Lemma serve_bad : forall scripts fuel s, read_request s = RBad ->
  serve sniff now fx (S fuel) scripts s = Some s_bad_request.
Proof. intros scripts fuel s H. cbn [serve]. rewrite H. reflexivity. Qed.
End Loop.

(* ---------- Expect: 100-continue without "100 Continue" => the connection is closed (after the fix) ---------- *)
Lemma wh_frame_close_mono is_head status nb has_cl at11 h2 :
  snd (fst (wh_frame is_head status nb has_cl at11 h2 true)) = true.
Proof. unfold wh_frame. destruct (is_head || (status =? 304)), nb, has_cl, at11; reflexivity. Qed.

Lemma write_header_close_expect sniff now allowed q status h clen c0 hdone p be :
  d_close (write_header sniff now true allowed q (true, true, false, be) status h clen c0 hdone p) = true.
Proof.
  unfold write_header. cbn [d_close fst snd]. rewrite !andb_true_l. cbn [negb]. rewrite orb_true_r.
  apply wh_frame_close_mono.
Qed.

Lemma respond_close_expect sniff now allowed q ff status h pieces err be :
  snd (fst (respond_gen sniff now true allowed q (true, true, false, be) ff status h pieces err)) = true.
Proof.
  unfold respond_gen.
  destruct (accept_writes _ _ _ _) as [[acc written] werr].
  destruct (if ff then _ else _) as [flushed pending].
  cbn [fst snd]. rewrite write_header_close_expect. reflexivity.
Qed.

Lemma expect_without_continue_closes sniff now scripts r sc :
  has_token (get_ci s_expect (r_fields r)) s_100c = true -> 1 <= r_minor r ->
  (match r_framing r with RLen n => negb (n =? 0) | RChunked => true end) = true ->
  find_script (get_ci s_spec (r_fields r)) scripts = Some sc ->
  h_read sc = 0 -> h_src sc <> 1 ->
  forall be, exists out, serve_one sniff now true scripts r be = Some (out, true).
Proof.
  intros He Hm Hcl Hs Hr Hsrc be. unfold serve_one. rewrite He, Hcl, Hs. cbn [negb andb].
  assert (E1 : (1 <=? r_minor r) = true) by (apply Z.leb_le; exact Hm). rewrite E1.
  rewrite Hr. assert (E2 : (h_src sc =? 1) = false) by (apply Z.eqb_neq; exact Hsrc). rewrite E2.
  cbn [Z.eqb negb orb andb].
  destruct (h_src sc =? 2); [eexists; reflexivity|].
  destruct (h_src sc =? 3).
  - destruct (respond' _ _ _ _ _ _ _ _ _ _) as [[out c] d]. eexists; reflexivity.
  - pose proof (respond_close_expect sniff now body_allowed_status
        {| q_minor := r_minor r; q_head := bytes_eqb (r_method r) s_head_m; q_conn := get_ci s_conn (r_fields r) |}
        false (h_status sc) (eff_hdrs (h_hdrs sc ++ [(s_xreq, get_ci s_vid (r_fields r))])) (h_pieces sc) (h_err sc) be) as Hc.
    unfold respond'. destruct (respond_gen _ _ _ _ _ _ _ _ _ _ _) as [[out c] d]. cbn [fst snd] in Hc. subst c.
    eexists; reflexivity.
Qed.

(* POST with "Expect: 100-continue", Content-Length: 40 and the body withheld, answered by a module response
   that never reads the body; then a 43-byte GET.  Before the fix the first response keeps the connection alive
   and Body.Close swallows 40 bytes of the GET: the client gets "400 Bad Request" for it. *)
Definition witness_expect : val :=
  VL [VL [VL [VB [80;79;83;84;32;47;97;32;72;84;84;80;47;49;46;49;13;10;72;111;115;116;58;32;101;120;97;109;112;108;101;46;111;114;103;13;10;88;45;86;101;114;105;102;45;73;100;58;32;114;48;13;10;88;45;86;101;114;105;102;45;83;112;101;99;58;32;114;48;13;10;69;120;112;101;99;116;58;32;49;48;48;45;99;111;110;116;105;110;117;101;13;10;67;111;110;116;101;110;116;45;76;101;110;103;116;104;58;32;52;48;13;10;13;10]; VB [114;48]; VZ 1; VZ 0; VZ 1];
          VL [VB [71;69;84;32;47;98;32;72;84;84;80;47;49;46;49;13;10;72;111;115;116;58;32;101;120;97;109;112;108;101;46;111;114;103;13;10;88;45;86;101;114;105;102;45;73;100;58;32;114;49;13;10;88;45;86;101;114;105;102;45;83;112;101;99;58;32;114;49;13;10;13;10]; VB [114;49]; VZ 0; VZ 0; VZ 0]];
      VL [VL [VB [114;48]; VZ 0; VZ 0; VZ 200; VL [VL [VB [68;97;116;101]; VB [84;104;117;44;32;48;49;32;74;97;110;32;49;57;55;48;32;48;48;58;48;48;58;48;48;32;71;77;84]]]; VL [VB [111;107]]; VZ 0]; VL [VB [114;49]; VZ 0; VZ 0; VZ 200; VL [VL [VB [68;97;116;101]; VB [84;104;117;44;32;48;49;32;74;97;110;32;49;57;55;48;32;48;48;58;48;48;58;48;48;32;71;77;84]]]; VL [VB [111;107]]; VZ 0]]].

Lemma old_expect_refuted :
  exists i, dec_C28 i <> None /\
    prop_C28 i (old_output_of i) = false /\ prop_C28 i (run_C28 i) = true.
Proof. exists witness_expect. split; [discriminate|]. split; vm_compute; reflexivity. Qed.

(* ---------- non-vacuity: a POST whose body is itself a complete GET request, followed by a real GET ---------- *)
Definition ex_b1 : bytes := [80;79;83;84;32;47;97;32;72;84;84;80;47;49;46;49;13;10;72;111;115;116;58;32;101;120;97;109;112;108;101;46;111;114;103;13;10;88;45;86;101;114;105;102;45;73;100;58;32;114;48;13;10;88;45;86;101;114;105;102;45;83;112;101;99;58;32;114;48;13;10;67;111;110;116;101;110;116;45;76;101;110;103;116;104;58;32;55;57;13;10;13;10;71;69;84;32;47;101;118;105;108;32;72;84;84;80;47;49;46;49;13;10;72;111;115;116;58;32;101;120;97;109;112;108;101;46;111;114;103;13;10;88;45;86;101;114;105;102;45;73;100;58;32;101;118;105;108;13;10;88;45;86;101;114;105;102;45;83;112;101;99;58;32;101;118;105;108;13;10;13;10].
Definition ex_b2 : bytes := [71;69;84;32;47;98;32;72;84;84;80;47;49;46;49;13;10;72;111;115;116;58;32;101;120;97;109;112;108;101;46;111;114;103;13;10;88;45;86;101;114;105;102;45;73;100;58;32;114;49;13;10;88;45;86;101;114;105;102;45;83;112;101;99;58;32;114;49;13;10;13;10].
Definition ex_r1 : req := Eval vm_compute in match read_request ex_b1 with ROk r _ => r | _ => {| r_method := []; r_minor := 0; r_fields := []; r_framing := RChunked |} end.
Definition ex_r2 : req := Eval vm_compute in match read_request ex_b2 with ROk r _ => r | _ => {| r_method := []; r_minor := 0; r_fields := []; r_framing := RChunked |} end.
Lemma body_end_len (b t : bytes) n : Z.of_nat (length b) = n -> body_end (RLen n) (b ++ t) = (t, true).
Proof.
  intro H. unfold body_end, blen. rewrite app_length.
  replace (Z.of_nat (length b + length t) <? n) with false by lia.
  rewrite <- H, Nat2Z.id. f_equal. clear H. induction b as [|x b IH]; [reflexivity|]. cbn [length app]. rewrite skipn_cons. exact IH.
Qed.
Definition ex_evil : bytes := [71;69;84;32;47;101;118;105;108;32;72;84;84;80;47;49;46;49;13;10;72;111;115;116;58;32;101;120;97;109;112;108;101;46;111;114;103;13;10;88;45;86;101;114;105;102;45;73;100;58;32;101;118;105;108;13;10;88;45;86;101;114;105;102;45;83;112;101;99;58;32;101;118;105;108;13;10;13;10].
Lemma ex_frames1 : frames ex_b1 ex_r1.
Proof.
  intro t. exists (ex_evil ++ t). split; [vm_compute; reflexivity|].
  exact (body_end_len ex_evil t 79 eq_refl).
Qed.
Lemma ex_frames2 : frames ex_b2 ex_r2.
Proof.
  intro t. exists ([] ++ t). split; [vm_compute; reflexivity|].
  exact (body_end_len [] t 0 eq_refl).
Qed.
Lemma ex_in_order : Forall2 frames [ex_b1; ex_b2] [ex_r1; ex_r2] /\ r_framing ex_r1 = RLen 79 /\ r_framing ex_r2 = RLen 0.
Proof. split; [repeat constructor; [exact ex_frames1|exact ex_frames2]|split; reflexivity]. Qed.

(* a POST whose chunked body starts with a 17-digit size line, directly followed by a complete "GET /evil"; before
   the fix 95fd21d the handler's response kept the connection alive and the embedded request was answered *)
Definition witness_chunk : val :=
  VL [VL [VL [VB [80;79;83;84;32;47;97;32;72;84;84;80;47;49;46;49;13;10;72;111;115;116;58;32;101;120;97;109;112;108;101;46;111;114;103;13;10;88;45;86;101;114;105;102;45;73;100;58;32;114;48;13;10;88;45;86;101;114;105;102;45;83;112;101;99;58;32;114;48;13;10;84;114;97;110;115;102;101;114;45;69;110;99;111;100;105;110;103;58;32;99;104;117;110;107;101;100;13;10;13;10;48;48;48;48;48;48;48;48;48;48;48;48;48;48;48;48;53;13;10;71;69;84;32;47;101;118;105;108;32;72;84;84;80;47;49;46;49;13;10;72;111;115;116;58;32;101;120;97;109;112;108;101;46;111;114;103;13;10;88;45;86;101;114;105;102;45;73;100;58;32;101;118;105;108;13;10;88;45;86;101;114;105;102;45;83;112;101;99;58;32;101;118;105;108;13;10;13;10]; VB [114;48]; VZ 4; VZ 0; VZ 0]];
      VL [VL [VB [101;118;105;108]; VZ 0; VZ 0; VZ 200; VL [VL [VB [68;97;116;101]; VB [84;104;117;44;32;48;49;32;74;97;110;32;49;57;55;48;32;48;48;58;48;48;58;48;48;32;71;77;84]]]; VL [VB [111;107]]; VZ 0]; VL [VB [114;48]; VZ 0; VZ 0; VZ 200; VL [VL [VB [68;97;116;101]; VB [84;104;117;44;32;48;49;32;74;97;110;32;49;57;55;48;32;48;48;58;48;48;58;48;48;32;71;77;84]]]; VL [VB [111;107]]; VZ 0]]].
Lemma old_corrupt_chunk_refuted :
  exists i, dec_C28 i <> None /\
    prop_C28 i (old_output_of i) = false /\ prop_C28 i (run_C28 i) = true.
Proof. exists witness_chunk. split; [discriminate|]. split; vm_compute; reflexivity. Qed.


(* ---------- prop_C28 accepts what the model's loop writes (module handlers, well-formed complete requests) ---------- *)
(* the request-body state does not influence the bytes of the response when nothing can go wrong with the body *)
Lemma write_header_rb sniff now allowed q b w status h clen c0 hdone p :
  let d1 := write_header sniff now true allowed q (b, false, w, false) status h clen c0 hdone p in
  let d0 := write_header sniff now true allowed q (false, false, false, false) status h clen c0 hdone p in
  d_head d1 = d_head d0 /\ d_chunking d1 = d_chunking d0 /\ d_close d1 = d_close d0 /\ d_clen d1 = d_clen d0.
Proof.
  unfold write_header. cbn [fst snd d_head d_chunking d_close d_clen].
  rewrite !andb_false_r. cbn [andb orb negb]. rewrite ?andb_false_r, ?orb_false_r. repeat split; reflexivity.
Qed.
Lemma respond_rb sniff now allowed q b w ff status h pieces err :
  fst (respond_gen sniff now true allowed q (b, false, w, false) ff status h pieces err) =
  fst (respond_gen sniff now true allowed q (false, false, false, false) ff status h pieces err).
Proof.
  unfold respond_gen.
  destruct (accept_writes _ _ _ _) as [[acc written] werr].
  destruct (if ff then _ else _) as [flushed pending].
  match goal with |- context [write_header sniff now true allowed q (b, false, w, false) status h ?cl false ?hd ?pp] =>
    destruct (write_header_rb sniff now allowed q b w status h cl false hd pp) as [E1 [E2 [E3 E4]]] end.
  cbn [fst]. rewrite E1, E2, E3, E4. reflexivity.
Qed.

(* a final status line is not the interim "100 Continue" *)
Fixpoint diverge (p a : bytes) : bool :=
  match p, a with
  | x :: p', y :: a' => if x =? y then diverge p' a' else true
  | _, _ => false
  end.
Lemma diverge_not_prefix p : forall a rest, diverge p a = true -> is_prefix p (a ++ rest) = false.
Proof.
  induction p as [|x p IH]; intros a rest H; [discriminate|]. destruct a as [|y a]; [discriminate|].
  cbn [diverge] in H. cbn [app is_prefix]. destruct (x =? y); [rewrite (IH _ _ H); reflexivity|reflexivity].
Qed.
Lemma diverge_all : forallb (fun k => diverge s_continue (sl_body 0 (200 + Z.of_nat k)) && diverge s_continue (sl_body 1 (200 + Z.of_nat k))) (seq 0 400) = true.
Proof. vm_compute. reflexivity. Qed.
Lemma no_continue m c rest : (m = 0 \/ m = 1) -> 200 <= c <= 599 -> strip_continue (status_line m c ++ rest) = None.
Proof.
  intros Hm Hc. unfold strip_continue.
  assert (Hd : diverge s_continue (sl_body m c) = true).
  { pose proof diverge_all as H. rewrite forallb_forall in H. specialize (H (Z.to_nat (c - 200))).
    rewrite in_seq in H. assert (Hin : (0 <= Z.to_nat (c - 200) < 0 + 400)%nat) by lia. specialize (H Hin).
    replace (200 + Z.of_nat (Z.to_nat (c - 200))) with c in H by lia. apply andb_true_iff in H. destruct Hm; subst; tauto. }
  destruct (status_line_ok m c Hm ltac:(lia)) as [S1 _]. rewrite S1, <- app_assoc.
  rewrite (diverge_not_prefix _ _ _ Hd). reflexivity.
Qed.

Lemma get_all_ci_exact X (l : fields) : (forall kv, In kv l -> eq_fold (fst kv) X = true -> fst kv = X) ->
  get_all_ci X l = get_all X l.
Proof.
  intro H. unfold get_all_ci, get_all. f_equal. apply filter_ext_in. intros kv Hin. unfold canon_lower_eq, key_is.
  destruct (eq_fold (fst kv) X) eqn:E.
  - rewrite (H kv Hin E). symmetry. apply bytes_eqb_refl.
  - destruct (bytes_eqb X (fst kv)) eqn:E2; [|reflexivity]. apply bytes_eqb_eq in E2. rewrite <- E2, eq_fold_refl in E. discriminate.
Qed.
Definition xreq_free (h : fields) : bool := forallb (fun kv => negb (eq_fold (fst kv) s_xreq)) h.

Lemma xreq_seen q status hdrs id clen hdone p :
  forallb key_ok (hdrs ++ [(s_xreq, id)]) = true -> xreq_free hdrs = true -> norm_value id = id ->
  get_all_ci s_xreq (fs_of (d_fields (wh q status (hdrs ++ [(s_xreq, id)]) clen hdone p))
                           (d_extra (wh q status (hdrs ++ [(s_xreq, id)]) clen hdone p))) = [id].
Proof.
  intros Hk Hfree Hid. set (h := hdrs ++ [(s_xreq, id)]) in *.
  assert (Hek := extra_kinds q status h clen hdone p).
  assert (Hin5 : forall kv, In kv (d_fields (wh q status h clen hdone p)) -> In kv h) by (intros kv; unfold wh; apply d_fields_in).
  assert (Hnox : forall kv, In kv hdrs -> eq_fold (fst kv) s_xreq = false).
  { intros kv Hin. unfold xreq_free in Hfree. rewrite forallb_forall in Hfree. apply negb_true_iff. apply Hfree. exact Hin. }
  assert (Hext : forall kv, In kv (d_extra (wh q status h clen hdone p)) -> eq_fold (fst kv) s_xreq = false).
  { intros kv Hin. destruct (Hek kv Hin) as [[K _]|[[K _]|[K|[K|K]]]]; rewrite K; reflexivity. }
  rewrite get_all_ci_exact.
  2:{ intros kv Hin He. unfold fs_of in Hin. apply in_map_iff in Hin. destruct Hin as [y [Hy Hin]]. subst kv.
      unfold parsed in *. cbn [fst] in *. apply in_app_or in Hin. destruct Hin as [Hin|Hin].
      - apply in_map_iff in Hin. destruct Hin as [z [Hz Hin]]. subst y. unfold san in *. cbn [fst] in *.
        apply (proj1 (in_sort _ _)) in Hin. apply Hin5 in Hin. unfold h in Hin. apply in_app_or in Hin. destruct Hin as [Hin|Hin].
        + rewrite (Hnox _ Hin) in He. discriminate.
        + destruct Hin as [<-|[]]. reflexivity.
      - rewrite (Hext _ Hin) in He. discriminate. }
  rewrite get_all_fs_of. unfold wh. rewrite (d_fields_other q status h clen hdone p s_xreq) by (try reflexivity; left; reflexivity).
  fold (wh q status h clen hdone p).
  rewrite (get_all_none s_xreq (d_extra (wh q status h clen hdone p))).
  2:{ intros x Hx. unfold key_is. destruct (bytes_eqb s_xreq (fst x)) eqn:E; [|reflexivity]. apply bytes_eqb_eq in E.
      pose proof (Hext x Hx) as Hf. rewrite <- E, eq_fold_refl in Hf. discriminate. }
  unfold h. rewrite get_all_app, (get_all_none s_xreq hdrs).
  2:{ intros x Hx. unfold key_is. destruct (bytes_eqb s_xreq (fst x)) eqn:E; [|reflexivity]. apply bytes_eqb_eq in E.
      pose proof (Hnox x Hx) as Hf. rewrite <- E, eq_fold_refl in Hf. discriminate. }
  rewrite get_all_cons. unfold key_is. cbn [fst snd]. rewrite bytes_eqb_refl. change (get_all s_xreq []) with (@nil bytes).
  cbn [map app]. rewrite Hid. reflexivity.
Qed.

Lemma respond_starts q rb ff status h pieces err out close dr :
  respond q rb ff status h pieces err = (out, close, dr) -> exists X, out = status_line (q_minor q) status ++ X.
Proof.
  unfold respond, respond_gen.
  destruct (accept_writes _ _ _ _) as [[acc written] werr].
  destruct (if ff then _ else _) as [flushed pending].
  intro H. pose proof (f_equal (fun x => fst (fst x)) H) as Ho. cbv beta in Ho. cbn [fst snd] in Ho. clear H.
  match type of Ho with d_head ?d ++ ?b = _ => set (dd := d) in *; set (bb := b) in * end.
  change (d_head dd) with (status_line (q_minor q) status ++ write_subset (d_fields dd) ++ concat (map write_raw_field (d_extra dd)) ++ crlf) in Ho.
  rewrite <- Ho, <- app_assoc. eexists. reflexivity.
Qed.
Lemma check_nil crs : check_responses crs [] = true.
Proof. destruct crs; reflexivity. Qed.

(* what makes a client request + its handler fall into the proved sub-language: kind 0 (well-formed, complete), no
   Expect field, handled by a module response (src 0) whose header is well formed, echoes the request id as X-Req
   and whose supplier is consistent *)
Definition rq_of (r : req) : rq :=
  {| q_minor := r_minor r; q_head := bytes_eqb (r_method r) s_head_m; q_conn := get_ci s_conn (r_fields r) |}.
Definition good_req (scripts : list script) (cr : creq) (r : req) : Prop :=
  c_kind cr = 0 /\ get_ci s_expect (r_fields r) = [] /\ c_head cr = bytes_eqb (r_method r) s_head_m /\
  (r_minor r = 0 \/ r_minor r = 1) /\ get_ci s_vid (r_fields r) = c_id cr /\ norm_value (c_id cr) = c_id cr /\
  exists sc, find_script (get_ci s_spec (r_fields r)) scripts = Some sc /\ h_src sc = 0 /\
    200 <= h_status sc <= 599 /\ wf_hdrs (h_hdrs sc ++ [(s_xreq, c_id cr)]) = true /\ xreq_free (h_hdrs sc) = true /\
    blen (concat (h_pieces sc)) < 2 ^ 62 /\
    (expects_b (rq_of r) (h_status sc) = true ->
     h_err sc = false /\ forall v, get_all s_cl (h_hdrs sc ++ [(s_xreq, c_id cr)]) = [v] ->
                                   parse_dec v = Some (blen (concat (h_pieces sc)))).

Lemma serve_one_good scripts cr r sc :
  get_ci s_expect (r_fields r) = [] -> get_ci s_vid (r_fields r) = c_id cr ->
  find_script (get_ci s_spec (r_fields r)) scripts = Some sc -> h_src sc = 0 ->
  wf_hdrs (h_hdrs sc ++ [(s_xreq, c_id cr)]) = true ->
  exists out close dr,
    respond (rq_of r) (false, false, false, false) false (h_status sc) (h_hdrs sc ++ [(s_xreq, c_id cr)]) (h_pieces sc) (h_err sc)
      = (out, close, dr) /\
    serve_one RunC27.sniff_text fixed_date true scripts r false = Some (out, close).
Proof.
  intros He Hv Hs Hsrc Hwfh. unfold serve_one. rewrite He, Hs, Hsrc, Hv, (eff_wf _ Hwfh).
  change (has_token [] s_100c) with false. cbn [andb negb is_empty Z.eqb orb app].
  fold (rq_of r).
  set (rb := ((match r_framing r with RLen n => negb (n =? 0) | RChunked => true end), false, false, false)).
  unfold respond'.
  pose proof (respond_rb RunC27.sniff_text fixed_date body_allowed_status (rq_of r)
                (match r_framing r with RLen n => negb (n =? 0) | RChunked => true end) false false
                (h_status sc) (h_hdrs sc ++ [(s_xreq, c_id cr)]) (h_pieces sc) (h_err sc)) as Hrb.
  fold rb in Hrb. unfold respond.
  destruct (respond_gen RunC27.sniff_text fixed_date true body_allowed_status (rq_of r) rb false (h_status sc)
              (h_hdrs sc ++ [(s_xreq, c_id cr)]) (h_pieces sc) (h_err sc)) as [[o1 c1] d1].
  destruct (respond_gen RunC27.sniff_text fixed_date true body_allowed_status (rq_of r) (false, false, false, false) false (h_status sc)
              (h_hdrs sc ++ [(s_xreq, c_id cr)]) (h_pieces sc) (h_err sc)) as [[o0 c0] d0].
  cbn [fst] in Hrb. injection Hrb as -> ->. exists o0, c0, d0. split; reflexivity.
Qed.

Lemma check_outputs : forall crs rqs scripts, Forall2 (good_req scripts) crs rqs ->
  forall o, outputs RunC27.sniff_text fixed_date true scripts rqs = Some o -> check_responses crs o = true.
Proof.
  induction 1 as [|cr r crs rqs Hg _ IH]; intros o Ho.
  - cbn in Ho. injection Ho as <-. reflexivity.
  - destruct Hg as [Hk [Hne [Hh [Hm [Hvid [Hnid [sc [Hs [Hsrc [Hst [Hwf [Hfree [Hlen Hreg]]]]]]]]]]]]].
    destruct (serve_one_good scripts cr r sc Hne Hvid Hs Hsrc Hwf) as [out [close [dr [Hr Hso]]]].
    cbn [outputs] in Ho. rewrite Hso in Ho.
    set (tail := if close then [] else match outputs RunC27.sniff_text fixed_date true scripts rqs with Some o' => o' | None => [] end).
    assert (Hoeq : o = out ++ tail /\ (close = false -> outputs RunC27.sniff_text fixed_date true scripts rqs = Some tail)).
    { unfold tail. destruct close.
      - injection Ho as <-. rewrite app_nil_r. split; [reflexivity|discriminate].
      - destruct (outputs RunC27.sniff_text fixed_date true scripts rqs) as [o'|]; [|discriminate]. injection Ho as <-. split; reflexivity. }
    destruct Hoeq as [-> Htl].
    destruct (respond_starts _ _ _ _ _ _ _ _ _ _ Hr) as [X HX].
    destruct (parses_as_one (rq_of r) false (h_status sc) _ (h_pieces sc) (h_err sc) tail out close dr
                Hwf Hm ltac:(lia) Hlen Hreg Hr) as [fs [fr [Hp [Hfr [cl [hd [p Hfs]]]]]]].
    { unfold tail. intro Hc. rewrite Hc. reflexivity. }
    cbn [check_responses].
    destruct (is_empty (out ++ tail)) eqn:Eemp; [reflexivity|].
    assert (Hsc : strip_continue (out ++ tail) = None).
    { rewrite HX, <- app_assoc. apply no_continue; [exact Hm|exact Hst]. }
    rewrite Hsc, Eemp. cbn [andb negb].
    rewrite Hh. change (bytes_eqb (r_method r) s_head_m) with (q_head (rq_of r)). rewrite Hp.
    unfold mkp. cbn [p_complete p_status p_fields p_rest andb].
    rewrite Hk. cbn [Z.eqb].
    assert (Hx : get_all_ci s_xreq fs = [c_id cr]).
    { rewrite Hfs. apply xreq_seen; [apply wf_keys; exact Hwf|exact Hfree|exact Hnid]. }
    rewrite Hx, bytes_eqb_refl. unfold has_ci. rewrite Hx. cbn [negb andb orb].
    rewrite andb_false_r. cbn [andb].
    unfold tail. destruct close; [apply check_nil|]. apply IH. apply Htl. reflexivity.
Qed.

Lemma outputs_some : forall crs rqs scripts, Forall2 (good_req scripts) crs rqs ->
  exists o, outputs RunC27.sniff_text fixed_date true scripts rqs = Some o.
Proof.
  induction 1 as [|cr r crs rqs Hg _ IH]; [exists []; reflexivity|].
  destruct Hg as [Hk [Hne [Hh [Hm [Hvid [Hnid [sc [Hs [Hsrc [_ [Hwf _]]]]]]]]]]].
  destruct (serve_one_good scripts cr r sc Hne Hvid Hs Hsrc Hwf) as [out [close [dr [_ Hso]]]].
  cbn [outputs]. rewrite Hso. destruct close; [eexists; reflexivity|]. destruct IH as [o' ->]. eexists; reflexivity.
Qed.
Lemma frames_nonempty b r : frames b r -> b <> [].
Proof. intros H Hb. subst b. destruct (H []) as [rest [Hr _]]. cbn in Hr. discriminate. Qed.
Lemma framed_length : forall bs rqs, Forall2 frames bs rqs -> (length rqs <= length (concat bs))%nat.
Proof.
  induction 1 as [|b r bs rqs Hf _ IH]; [cbn; lia|]. cbn [length concat]. rewrite app_length.
  pose proof (frames_nonempty _ _ Hf). destruct b; [congruence|]. cbn [length]. lia.
Qed.

Theorem prop_of_model_C28_partial i crs ss rqs :
  dec_C28 i = Some (crs, ss) -> Forall2 frames (map c_bytes crs) rqs -> Forall2 (good_req ss) crs rqs ->
  prop_C28 i (run_C28 i) = true.
Proof.
  intros Hdec Hfr Hgood. unfold prop_C28, run_C28. rewrite Hdec. unfold serve_new, stream_of.
  change RunC28.sniff_text with RunC27.sniff_text.
  rewrite (serve_in_order RunC27.sniff_text fixed_date true _ _ Hfr) by (pose proof (framed_length _ _ Hfr); lia).
  destruct (outputs_some _ _ _ Hgood) as [o Ho]. rewrite Ho. apply (check_outputs _ _ _ Hgood _ Ho).
Qed.

(* non-vacuity: the POST whose body is a complete GET request followed by a real GET (ex_b1, ex_b2), both answered
   by module responses *)
Definition ex_script (k : bytes) : script :=
  {| h_key := k; h_src := 0; h_read := 0; h_status := 200; h_hdrs := [(s_date, fixed_date)]; h_pieces := [[111; 107]]; h_err := false |}.
Definition ex_k0 : bytes := [114; 48].
Definition ex_k1 : bytes := [114; 49].
Definition ex_scripts : list script := [ex_script ex_k0; ex_script ex_k1].
Definition ex_crs : list creq :=
  [ {| c_bytes := ex_b1; c_id := ex_k0; c_kind := 0; c_head := false; c_expect := false |};
    {| c_bytes := ex_b2; c_id := ex_k1; c_kind := 0; c_head := false; c_expect := false |} ].
Lemma ex_good0 : good_req ex_scripts {| c_bytes := ex_b1; c_id := ex_k0; c_kind := 0; c_head := false; c_expect := false |} ex_r1.
Proof.
  unfold good_req. cbn [c_kind c_head c_id].
  split; [reflexivity|]. split; [vm_compute; reflexivity|]. split; [vm_compute; reflexivity|].
  split; [right; reflexivity|]. split; [vm_compute; reflexivity|]. split; [vm_compute; reflexivity|].
  exists (ex_script ex_k0).
  split; [vm_compute; reflexivity|]. split; [reflexivity|]. split; [cbn; lia|]. split; [vm_compute; reflexivity|].
  split; [vm_compute; reflexivity|]. split; [vm_compute; reflexivity|].
  intros _. split; [reflexivity|]. intros v Hv. vm_compute in Hv. discriminate.
Qed.
Lemma ex_good1 : good_req ex_scripts {| c_bytes := ex_b2; c_id := ex_k1; c_kind := 0; c_head := false; c_expect := false |} ex_r2.
Proof.
  unfold good_req. cbn [c_kind c_head c_id].
  split; [reflexivity|]. split; [vm_compute; reflexivity|]. split; [vm_compute; reflexivity|].
  split; [right; reflexivity|]. split; [vm_compute; reflexivity|]. split; [vm_compute; reflexivity|].
  exists (ex_script ex_k1).
  split; [vm_compute; reflexivity|]. split; [reflexivity|]. split; [cbn; lia|]. split; [vm_compute; reflexivity|].
  split; [vm_compute; reflexivity|]. split; [vm_compute; reflexivity|].
  intros _. split; [reflexivity|]. intros v Hv. vm_compute in Hv. discriminate.
Qed.
Lemma prop_of_model_C28_nonvacuous :
  Forall2 frames (map c_bytes ex_crs) [ex_r1; ex_r2] /\ Forall2 (good_req ex_scripts) ex_crs [ex_r1; ex_r2].
Proof.
  split.
  - apply Forall2_cons; [exact ex_frames1|]. apply Forall2_cons; [exact ex_frames2|]. apply Forall2_nil.
  - apply Forall2_cons; [exact ex_good0|]. apply Forall2_cons; [exact ex_good1|]. apply Forall2_nil.
Qed.
