(* Central theorems for C33 / C35: the predicates the harness evaluates on the implementation's
   observations (prop_C33, prop_C35), evaluated on the model's own output. *)
From Coq Require Import List ZArith Bool Lia.
From Bfe Require Import lib.Val model.H2Flow model.H2Stream proofs.H2FlowProofs run.RunC33 run.RunC35 proofs.H2StreamProofs.
Import ListNotations.
Open Scope Z_scope.

(* ---------- the wire encoding of outputs is read back exactly ---------- *)
Lemma dec_enc_evt e : dec_evt (enc_evt e) = Some e.
Proof. destruct e as [[k s] x]. reflexivity. Qed.

Lemma all_some_map_some {A B} (f : A -> option B) (g : B -> A) l :
  (forall x, f (g x) = Some x) -> all_some (map f (map g l)) = Some l.
Proof.
  intros H. induction l as [|x r IH]; simpl; [reflexivity|]. rewrite H, IH. reflexivity.
Qed.

Lemma dec_enc_obs l : dec_obs (VL (map enc_evt l)) = Some l.
Proof. simpl. apply all_some_map_some. exact dec_enc_evt. Qed.

Lemma split_last_app {A} (l : list A) x : split_last (l ++ [x]) = Some (l, x).
Proof.
  induction l as [|y r IH]; simpl; [reflexivity|]. rewrite IH.
  destruct (r ++ [x]) eqn:E; [destruct r; discriminate|reflexivity].
Qed.

Lemma dec_enc_out c out : dec_out (enc_out c out) = Some (out, if c_bug c then 1 else 0).
Proof.
  unfold dec_out, enc_out. rewrite split_last_app.
  rewrite (all_some_map_some dec_obs (fun l => VL (map enc_evt l)) out dec_enc_obs). reflexivity.
Qed.

(* executable well-formedness of an input: exactly the inputs the decoder accepts *)
Definition wf_script (i : val) : bool := match dec_script i with Some _ => true | None => false end.

Lemma dec_script_wf i isw maxs ops :
  dec_script i = Some (isw, maxs, ops) -> wf_cfg isw maxs = true /\ forallb wf_op ops = true.
Proof.
  unfold dec_script. destruct i as [| |l]; try discriminate.
  destruct l as [|cfg [|[| |steps] [|]]]; try discriminate.
  destruct (as_LZ cfg) as [[|a [|b [|]]]|]; try discriminate.
  destruct (all_some (map dec_op steps)) as [ops'|]; try discriminate.
  destruct (wf_cfg a b && forallb wf_op ops') eqn:W; try discriminate.
  intros H. inversion H; subst. apply andb_true_iff in W. exact W.
Qed.

(* prop_C33 / prop_C35 on the model's own output reduce to the typed validators on the model's trace *)
Lemma prop_C33_on_model i isw maxs ops :
  dec_script i = Some (isw, maxs, ops) ->
  prop_C33 i (run_C33 i) =
  spec_run (if isw =? 0 then init_window else isw) (mkK init_window [] false) ops
           (snd (run_ops (init_conn isw maxs) ops)).
Proof.
  intros Hd. unfold prop_C33, run_C33, run_script. rewrite Hd.
  destruct (run_ops (init_conn isw maxs) ops) as [c out]. rewrite dec_enc_out. reflexivity.
Qed.

Lemma prop_C35_on_model i isw maxs ops :
  dec_script i = Some (isw, maxs, ops) ->
  prop_C35 i (run_C35 i) =
  core_run false (snd (run_ops (init_conn isw maxs) ops)) &&
  rules_run (if maxs =? 0 then 200 else maxs) (mkR [] 0 false) ops (snd (run_ops (init_conn isw maxs) ops)).
Proof.
  intros Hd. unfold prop_C35, run_C35, run_script. rewrite Hd.
  pose proof (dec_script_wf _ _ _ _ Hd) as [W1 W2].
  pose proof (no_bug_reachable _ _ _ W1 W2) as Hb.
  destruct (run_ops (init_conn isw maxs) ops) as [c out]. simpl in Hb.
  rewrite dec_enc_out, Hb. reflexivity.
Qed.

(* ---------- C35 core clause: continues, or ends with GOAWAY / close, never a panic ---------- *)
Definition no45 (evs : list evt) : Prop := forall e, In e evs -> fst (fst e) <> 4 /\ fst (fst e) <> 5.
Definition ends2 (c c' : conn) (evs : list evt) : Prop :=
  (no45 evs /\ c_dead c' = c_dead c) \/ (clean_end evs /\ c_dead c' = true).

Ltac inlist45 :=
  let e := fresh "e" in let Hin := fresh "Hin" in
  intros e Hin; simpl in Hin;
  repeat (destruct Hin as [<- | Hin]; [split; simpl; discriminate | ]);
  try contradiction.

Ltac leaf3 :=
  let H := fresh "H" in let Hb := fresh "Hb" in
  intros H Hb; first
  [ left; split;
    [ apply do_reset_evs in H; [subst; unfold no45, wu_evt; crush; inlist45 | exact Hb]
    | apply do_reset_dead in H; [simpl in H; exact H | exact Hb] ]
  | inversion H; subst; simpl in *;
    first [ discriminate
          | left; split; [unfold no45, wu_evt; crush; inlist45 | reflexivity]
          | right; split; [right; reflexivity | reflexivity]
          | right; split; [left; do 2 eexists; reflexivity | reflexivity] ] ].

Lemma data_closed_end2 c id L c' evs :
  data_closed c id L = (c', evs) -> c_bug c' = false -> ends2 c c' evs.
Proof. unfold data_closed, ends2, clean_end. crush; leaf3. Qed.

Lemma data_open_end2 c st dlen L es c' evs :
  data_open c st dlen L es = (c', evs) -> c_bug c' = false -> ends2 c c' evs.
Proof. unfold data_open, finish_data, ends2, clean_end. crush; leaf3. Qed.

Lemma step_end2 c o c' evs :
  step c o = (c', evs) -> c_bug c' = false -> ends2 c c' evs.
Proof.
  destruct o; simpl.
  - unfold step_headers, ends2, clean_end. crush; leaf3.
  - unfold step_data. destruct (id =? 0); [unfold ends2, clean_end; leaf3|].
    destruct (find_live id (c_streams c)); [destruct (_ && _)|];
      first [apply data_open_end2 | apply data_closed_end2].
  - unfold step_rst, ends2, clean_end. destruct (id =? 0); [leaf3|].
    destruct (find_live id (c_streams c)).
    + destruct (close_stream c s) eqn:E; [|leaf3].
      intros H _. inversion H; subst. left. split; [intros e []|apply (close_dead _ _ _ E)].
    + destruct (c_max c <? id); leaf3.
  - unfold ends2, clean_end; leaf3.
  - unfold ends2, clean_end; leaf3.
  - unfold step_read, ends2, clean_end. crush; leaf3.
  - unfold step_closebody, ends2, clean_end. crush; leaf3.
  - unfold step_finish, ends2, clean_end.
    destruct (find_stream id (c_streams c)); [|leaf3].
    destruct (negb (s_run s)); [leaf3|]. destruct (s_state s =? 3); [leaf3|].
    destruct (close_stream _ _) eqn:E; [|leaf3].
    intros H _. inversion H; subst. left. split.
    + destruct (s_state s =? 1); inlist45.
    + destruct (close_dead _ _ _ E) as [D _]. exact D.
  - unfold ends2, clean_end; leaf3.
  - intros H Hb. left. destruct (step_race_dead _ _ _ _ _ H Hb) as [D K]. split; [|exact D].
    intros e Hin. destruct (K e Hin) as [X|[X|X]]; rewrite X; split; discriminate.
Qed.

Lemma panicked_false evs : (forall e, In e evs -> evt_ok e) -> panicked evs = false.
Proof.
  intros H. unfold panicked. apply not_true_is_false. intros Hex.
  apply existsb_exists in Hex. destruct Hex as [[[k s] x] [Hin Hp]].
  apply andb_true_iff in Hp. destruct Hp as [Hk Hv]. simpl in Hk, Hv.
  destruct (H _ Hin) as [Hn|He]; simpl in *; [lia|]. inversion He; subst. discriminate.
Qed.

Lemma ended_no45 evs : no45 evs -> ended evs = false.
Proof.
  intros H. unfold ended. apply not_true_is_false. intros Hex.
  apply existsb_exists in Hex. destruct Hex as [[[k s] x] [Hin Hp]].
  destruct (H _ Hin) as [H4 H5]. simpl in *. apply orb_true_iff in Hp. lia.
Qed.

Lemma clean_end_b evs : clean_end evs -> ended evs = true /\ clean_endb evs = true.
Proof. intros [[l [code ->]]| ->]; split; reflexivity. Qed.

Lemma core_run_dead ops : forall c c' out,
  c_dead c = true -> run_ops c ops = (c', out) -> core_run true out = true.
Proof.
  induction ops as [|o r IH]; simpl; intros c c' out Hd.
  - intros H. inversion H. reflexivity.
  - rewrite Hd. destruct (run_ops c r) as [c2 out2] eqn:E. intros H. inversion H; subst.
    simpl. apply (IH _ _ _ Hd E).
Qed.

Lemma core_run_model ops : forall c c' out,
  forallb wf_op ops = true -> c_bug c = false -> c_dead c = false -> Good c ->
  run_ops c ops = (c', out) -> core_run false out = true.
Proof.
  induction ops as [|o r IH]; simpl; intros c c' out Hwf Hb Hd HG.
  - intros H. inversion H. reflexivity.
  - apply andb_true_iff in Hwf. destruct Hwf as [Hwo Hwr]. rewrite Hd.
    destruct (step c o) as [c1 evs] eqn:Es.
    destruct (run_ops c1 r) as [c2 out2] eqn:E. intros H. inversion H; subst.
    destruct (step_post _ _ _ _ HG Hb Hwo Es) as [B P].
    simpl. rewrite (panicked_false _ (step_evs _ _ _ _ Es B)). simpl.
    destruct (step_end2 _ _ _ _ Es B) as [[Hn Hdd]|[Hc Hdd]].
    + rewrite (ended_no45 _ Hn). rewrite Hd in Hdd.
      apply (IH _ _ _ Hwr B Hdd (proj1 (P Hdd)) E).
    + destruct (clean_end_b _ Hc) as [-> ->]. simpl. apply (core_run_dead _ _ _ _ Hdd E).
Qed.

(* C35, central, clause 1 (all inputs): on the model's own output prop_C35 reduces to the rule validator;
   the no-panic and continues-or-clean-end clauses hold for every accepted input *)
Theorem prop_C35_core i isw maxs ops :
  dec_script i = Some (isw, maxs, ops) ->
  prop_C35 i (run_C35 i) =
  rules_run (if maxs =? 0 then 200 else maxs) (mkR [] 0 false) ops (snd (run_ops (init_conn isw maxs) ops)).
Proof.
  intros Hd. rewrite (prop_C35_on_model _ _ _ _ Hd).
  pose proof (dec_script_wf _ _ _ _ Hd) as [W1 W2].
  destruct (run_ops (init_conn isw maxs) ops) as [c out] eqn:E. simpl.
  rewrite (core_run_model ops (init_conn isw maxs) c out W2 eq_refl eq_refl (init_good _ _ W1) E). reflexivity.
Qed.

(* ---------- bounded exhaustive validation of the stateful validators on model traces ---------- *)
(* all scripts of length <= n over an alphabet *)
Fixpoint scripts (n : nat) (al : list op) : list (list op) :=
  match n with
  | O => [[]]
  | S k => [] :: flat_map (fun o => map (cons o) (scripts k al)) al
  end.

(* C33, stream window 4: padding, END_STREAM, content-length, exact fill, one octet over, second stream,
   unknown stream, partial / full reads, body close, handler return, RST *)
Definition al33 : list op :=
  [ OHeaders 1 false 0 (-1); OHeaders 1 false 0 2; OHeaders 3 false 0 (-1);
    OData 1 2 (-1) false; OData 1 3 0 false; OData 1 1 (-1) true; OData 1 5 (-1) false;
    OData 3 2 1 false; OData 5 1 (-1) false;
    ORead 1 1; ORead 1 9; OCloseBody 1; OFinish 1; ORst 1 8 ].
(* C33, default windows: connection window exactly full / one over, across two streams *)
Definition al33d : list op :=
  [ OHeaders 1 false 0 (-1); OHeaders 3 false 0 (-1);
    OData 1 65535 (-1) false; OData 1 65279 255 false; OData 1 1 (-1) false; OData 3 1 (-1) false;
    OData 1 30000 (-1) true; OData 3 35535 (-1) false; OData 3 35536 (-1) false;
    ORead 1 131072; ORead 3 1; OFinish 1; ORst 3 8 ].
Definition chk33 (isw : Z) (ops : list op) : bool :=
  let '(c, out) := run_ops (init_conn isw 0) ops in
  c_p3 c || spec_run (if isw =? 0 then init_window else isw) (mkK init_window [] false) ops out.

Lemma chk33_al33 : forallb (chk33 4) (scripts 4 al33) = true.
Proof. vm_compute. reflexivity. Qed.
Lemma chk33_al33d : forallb (chk33 0) (scripts 4 al33d) = true.
Proof. vm_compute. reflexivity. Qed.

Theorem prop_C33_bounded i isw ops :
  dec_script i = Some (isw, 0, ops) ->
  (isw = 4 /\ In ops (scripts 4 al33)) \/ (isw = 0 /\ In ops (scripts 4 al33d)) ->
  kf_C33 i = 0 -> prop_C33 i (run_C33 i) = true.
Proof.
  intros Hd Hin Hk. rewrite (prop_C33_on_model _ _ _ _ Hd).
  unfold kf_C33 in Hk. rewrite Hd in Hk.
  assert (Hc : chk33 isw ops = true).
  { destruct Hin as [[-> Hin]|[-> Hin]].
    - apply (proj1 (forallb_forall _ _) chk33_al33 _ Hin).
    - apply (proj1 (forallb_forall _ _) chk33_al33d _ Hin). }
  clear Hin. unfold chk33 in Hc. destruct (run_ops (init_conn isw 0) ops) as [c out].
  cbn [fst snd] in Hk |- *. destruct (c_p3 c); [discriminate|exact Hc].
Qed.

(* C35: ids odd/even/zero/idle, trailers with and without END_STREAM / pseudo-headers, second HEADERS on
   half-closed and closed streams, DATA on every state, RST on open and idle, handler return, PUSH_PROMISE,
   with the default limit and with limit 1 *)
Definition al35 : list op :=
  [ OHeaders 1 false 0 (-1); OHeaders 1 true 0 (-1); OHeaders 1 true 1 (-1); OHeaders 1 false 1 (-1);
    OHeaders 3 false 0 (-1); OHeaders 3 false 2 (-1); OHeaders 2 false 0 (-1); OHeaders 1 true 7 (-1); OHeaders 3 false 5 (-1);
    OData 1 1 (-1) false; OData 1 0 (-1) true; OData 0 1 (-1) false;
    ORst 1 8; ORst 7 8; OFinish 1; OPush 1; ORace 1 3 8 0 ].
Definition chk35 (maxs : Z) (ops : list op) : bool :=
  rules_run (if maxs =? 0 then 200 else maxs) (mkR [] 0 false) ops (snd (run_ops (init_conn 0 maxs) ops)).
Lemma chk35_al35_0 : forallb (chk35 0) (scripts 4 al35) = true.
Proof. vm_compute. reflexivity. Qed.
Lemma chk35_al35_1 : forallb (chk35 1) (scripts 4 al35) = true.
Proof. vm_compute. reflexivity. Qed.

Theorem prop_C35_bounded i maxs ops :
  dec_script i = Some (0, maxs, ops) -> maxs = 0 \/ maxs = 1 -> In ops (scripts 4 al35) ->
  prop_C35 i (run_C35 i) = true.
Proof.
  intros Hd Hm Hin. rewrite (prop_C35_core _ _ _ _ Hd).
  destruct Hm as [-> | ->].
  - apply (proj1 (forallb_forall _ _) chk35_al35_0 _ Hin).
  - apply (proj1 (forallb_forall _ _) chk35_al35_1 _ Hin).
Qed.

Lemma scripts_count : Z.of_nat (length (scripts 4 al33)) = 41371 /\ Z.of_nat (length (scripts 4 al33d)) = 30941 /\
                      Z.of_nat (length (scripts 4 al35)) = 88741.
Proof. vm_compute. repeat split. Qed.
