From Coq Require Import List ZArith Bool Lia ZifyBool.
From Bfe Require Import lib.Val lib.ValProofs lib.Bytes model.Chunked run.RunC23.
Import ListNotations.
Open Scope Z_scope.

(* ---------- parseHexUint ---------- *)
Lemma land_mul16_small n d : 0 <= d < 16 -> Z.land (n * 16) d = 0.
Proof.
  intros Hd. apply Z.bits_inj'. intros k Hk. rewrite Z.land_spec, Z.bits_0.
  destruct (Z.ltb_spec k 4).
  - change 16 with (2^4). rewrite Z.mul_pow2_bits_low by lia. reflexivity.
  - assert (Z.testbit d k = false) as ->; [|apply andb_false_r].
    destruct (Z.eq_dec d 0) as [->|Hne]; [apply Z.bits_0|].
    apply Z.bits_above_log2; [lia|]. apply Z.log2_lt_pow2; [lia|].
    apply Z.lt_le_trans with (2^4); [simpl; lia|]. apply Z.pow_le_mono_r; lia.
Qed.
Lemma lor_mul16_add n d : 0 <= d < 16 -> Z.lor (n * 16) d = n * 16 + d.
Proof.
  intros Hd. pose proof (land_mul16_small n d Hd) as H.
  rewrite <- Z.lxor_lor by exact H. symmetry. apply Z.add_nocarry_lxor. exact H.
Qed.

Lemma hex_val_spec b :
  (is_hex b = true /\ hex_val b = Some (hex_digit_value b) /\ 0 <= hex_digit_value b < 16) \/
  (is_hex b = false /\ hex_val b = None).
Proof.
  unfold is_hex, hex_val, hex_digit_value.
  destruct (48 <=? b) eqn:E1, (b <=? 57) eqn:E2, (97 <=? b) eqn:E3, (b <=? 102) eqn:E4,
           (65 <=? b) eqn:E5, (b <=? 70) eqn:E6; simpl;
  try (right; split; reflexivity); left; (split; [reflexivity|]); (split; [f_equal; lia|lia]).
Qed.

Definition hex_step (a b : Z) : Z := a * 16 + hex_digit_value b.

Lemma parse_hex_loop_spec : forall v i n, 0 <= i <= 16 -> 0 <= n < 16 ^ i ->
  (forallb is_hex v = true /\ i + blen v <= 16 /\ parse_hex_loop v i n = (fold_left hex_step v n, 0)) \/
  ((forallb is_hex v = false \/ i + blen v > 16) /\ fst (parse_hex_loop v i n) = 0 /\ snd (parse_hex_loop v i n) <> 0).
Proof.
  induction v as [|b r IH]; intros i n Hi Hn.
  - unfold blen. simpl. left. repeat split; lia.
  - cbn [parse_hex_loop forallb fold_left]. unfold blen in *. cbn [length]. rewrite Nat2Z.inj_succ.
    destruct (hex_val_spec b) as [[Hh [Hv Hr]]|[Hh Hv]]; rewrite Hv, Hh.
    + destruct (i =? 16) eqn:Ei.
      * apply Z.eqb_eq in Ei. right. split; [right; lia|]. simpl. split; [reflexivity|discriminate].
      * apply Z.eqb_neq in Ei.
        assert (Hpow : 16 ^ (i + 1) <= 2 ^ 64).
        { change (2^64) with (16^16). apply Z.pow_le_mono_r; lia. }
        assert (Hs : 16 ^ (i + 1) = 16 ^ i * 16) by (rewrite Z.pow_add_r by lia; reflexivity).
        rewrite Z.mod_small by nia. rewrite lor_mul16_add by exact Hr.
        destruct (IH (i + 1) (n * 16 + hex_digit_value b) ltac:(lia) ltac:(nia)) as [[A [B C]]|[A [B C]]].
        -- left. simpl. repeat split; [exact A|lia|exact C].
        -- right. simpl. repeat split; [destruct A; [left; assumption|right; lia]|exact B|exact C].
    + right. simpl. repeat split; [left; reflexivity|discriminate].
Qed.

Lemma hex_value_fold tok : hex_value tok = fold_left hex_step tok 0.
Proof. reflexivity. Qed.

Lemma parse_hex_exact tok :
  parse_hex tok = (hex_value tok, 0) /\ size_ok tok = true \/
  fst (parse_hex tok) = 0 /\ snd (parse_hex tok) <> 0 /\ size_ok tok = false.
Proof.
  destruct tok as [|b r]; [right; repeat split; discriminate|].
  unfold parse_hex, size_ok. set (tok := b :: r).
  assert (Hl : 1 <= blen tok) by (unfold blen, tok; cbn [length]; lia).
  destruct (parse_hex_loop_spec tok 0 0 ltac:(lia) ltac:(simpl; lia)) as [[A [B C]]|[A [B C]]].
  - left. split; [exact C|]. rewrite A. rewrite andb_true_r. apply andb_true_iff. split; apply Z.leb_le; lia.
  - right. split; [exact B|]. split; [exact C|].
    destruct A as [A|A]; [rewrite A; apply andb_false_r|].
    assert (blen tok <=? 16 = false) as -> by (apply Z.leb_gt; lia). rewrite andb_false_r. reflexivity.
Qed.

Lemma parse_hex_loop_codes : forall v i n, snd (parse_hex_loop v i n) = 0 \/ snd (parse_hex_loop v i n) = 4 \/ snd (parse_hex_loop v i n) = 7.
Proof.
  induction v as [|b r IH]; intros i n; cbn [parse_hex_loop]; [left; reflexivity|].
  destruct (hex_val b); [|right; left; reflexivity].
  destruct (i =? 16); [right; right; reflexivity|apply IH].
Qed.
Lemma parse_hex_not_eof v : snd (parse_hex v) <> 1.
Proof.
  destruct v as [|b r]; [simpl; discriminate|]. unfold parse_hex.
  destruct (parse_hex_loop_codes (b :: r) 0 0) as [H|[H|H]]; rewrite H; discriminate.
Qed.

Lemma hex_fold_nonneg : forall v n, 0 <= n -> forallb is_hex v = true -> 0 <= fold_left hex_step v n.
Proof.
  induction v as [|b r IH]; intros n Hn Hv; simpl; [exact Hn|].
  simpl in Hv. apply andb_true_iff in Hv. destruct Hv as [Hb Hr]. apply IH; [|exact Hr].
  destruct (hex_val_spec b) as [[_ [_ Hd]]|[Hf _]]; [|congruence]. unfold hex_step. lia.
Qed.

(* ---------- list helpers ---------- *)
Lemma index_byte_lt c : forall l i, index_byte c l = Some i -> (i < length l)%nat.
Proof.
  induction l as [|x r IH]; intros i H; simpl in H; [discriminate|].
  destruct (x =? c); [inversion H; simpl; lia|].
  destruct (index_byte c r) as [j|]; [|discriminate]. simpl in H. inversion H. simpl. specialize (IH j eq_refl). lia.
Qed.
Lemma firstn_add {A} : forall a b (l : list A), firstn (a + b) l = firstn a l ++ firstn b (skipn a l).
Proof.
  induction a as [|a IH]; intros b l; [reflexivity|]. destruct l as [|x l]; simpl.
  - rewrite firstn_nil. destruct b; reflexivity.
  - rewrite IH. reflexivity.
Qed.
Lemma skipn_add {A} : forall a b (l : list A), skipn (a + b) l = skipn b (skipn a l).
Proof.
  induction a as [|a IH]; intros b l; [reflexivity|]. destruct l as [|x l]; simpl.
  - rewrite skipn_nil. reflexivity.
  - apply IH.
Qed.

(* ---------- model decoder = reference decoder ---------- *)
Definition agrees (m : bytes * Z * bytes) (r : bytes * bool * bytes) : Prop :=
  let '(d, e, rm) := m in let '(d', ok, rr) := r in
  d = d' /\ e <> 0 /\ (e = 1 <-> ok = true) /\ (ok = true -> rm = rr).
Definition refst (f : nat) (n : Z) (s : bytes) : bytes * bool * bytes :=
  if n =? 0 then ref_decode f s else ref_data (ref_decode f) n s.
Definition prepend (d : bytes) (x : bytes * bool * bytes) : bytes * bool * bytes :=
  let '(d', ok, r) := x in (d ++ d', ok, r).

Lemma agrees_prepend d d2 e r x : agrees (d2, e, r) x -> agrees (d ++ d2, e, r) (prepend d x).
Proof. destruct x as [[d' ok] rr]. simpl. intros [-> H]. split; [reflexivity|exact H]. Qed.

Lemma ref_data_split K n j s : 0 < j -> j < n -> j <= blen s ->
  ref_data K n s = prepend (firstn (Z.to_nat j) s) (ref_data K (n - j) (skipn (Z.to_nat j) s)).
Proof.
  intros Hj Hn Hs. unfold ref_data, blen in *.
  rewrite skipn_length.
  assert (Hc : (Z.of_nat (length s) <? n) = (Z.of_nat (length s - Z.to_nat j) <? n - j)).
  { destruct (Z.ltb_spec (Z.of_nat (length s)) n), (Z.ltb_spec (Z.of_nat (length s - Z.to_nat j)) (n - j)); try reflexivity; lia. }
  rewrite <- Hc. destruct (Z.of_nat (length s) <? n).
  - simpl. rewrite firstn_skipn. reflexivity.
  - assert (Hnat : Z.to_nat n = (Z.to_nat j + Z.to_nat (n - j))%nat) by lia.
    rewrite Hnat, firstn_add, skipn_add.
    destruct (skipn (Z.to_nat (n - j)) (skipn (Z.to_nat j) s)) as [|a [|b s2]]; simpl;
      try reflexivity.
    destruct ((a =? 13) && (b =? 10)); [|simpl; reflexivity].
    destruct (K s2) as [[d' ok] r]. simpl. rewrite <- app_assoc. reflexivity.
Qed.

Lemma next_size_pos all cur : 1 <= fst (next_size all cur).
Proof. unfold next_size. destruct cur as [|k r]; [destruct all as [|k r]|]; simpl; lia. Qed.

Lemma begin_chunk_spec rest :
  match parse_size_line rest with
  | Some (sz, s1) => begin_chunk (rest, 0, 0) = (if sz =? 0 then (s1, 0, 1) else (s1, sz, 0)) /\ 0 <= sz /\
                     (length s1 < length rest)%nat
  | None => st_err (begin_chunk (rest, 0, 0)) <> 0 /\ st_err (begin_chunk (rest, 0, 0)) <> 1
  end.
Proof.
  unfold parse_size_line, begin_chunk, read_line. cbn [st_rest fst snd].
  destruct (index_byte 10 rest) as [i|] eqn:Ei.
  - assert (Hsw : (max_line <=? Z.of_nat (S i)) = negb (Z.of_nat (S i) <? max_line)).
    { destruct (Z.leb_spec max_line (Z.of_nat (S i))), (Z.ltb_spec (Z.of_nat (S i)) max_line); try reflexivity; lia. }
    rewrite Hsw. destruct (Z.of_nat (S i) <? max_line); cbn [negb].
    + set (tok := trim_right is_ws (firstn (S i) rest)).
      cbn [Z.eqb negb]. destruct (parse_hex_exact tok) as [[Hp Hok]|[Hv [He Hok]]]; rewrite Hok.
      * rewrite Hp. cbn [Z.eqb negb]. split; [reflexivity|]. split.
        -- rewrite hex_value_fold. apply hex_fold_nonneg; [lia|]. unfold size_ok in Hok.
           apply andb_true_iff in Hok. apply Hok.
        -- rewrite skipn_length. apply index_byte_lt in Ei. lia.
      * pose proof (parse_hex_not_eof tok) as Hne. destruct (parse_hex tok) as [v e2]. simpl in *.
        destruct (e2 =? 0) eqn:E0; [apply Z.eqb_eq in E0; congruence|]. simpl. split; assumption.
    + simpl. split; discriminate.
  - destruct (max_line <=? blen rest); simpl; split; discriminate.
Qed.

Section Loop.
Variable all : list Z.

Definition after (m : nat) (cur' : list Z) (x : bytes * crst) : bytes * Z * bytes :=
  let '(d, st') := x in
  if negb (st_err st' =? 0) then (d, st_err st', st_rest st')
  else let '(d2, e, r) := decode_loop m all cur' st' in (d ++ d2, e, r).

Lemma decode_loop_unfold m cur st :
  decode_loop (S m) all cur st = after m (snd (next_size all cur)) (cr_read (fst (next_size all cur)) st).
Proof. cbn [decode_loop]. destruct (next_size all cur) as [k cur']. reflexivity. Qed.

Definition IHm (m : nat) : Prop := forall (rest : bytes) n cur f, 0 <= n -> (length rest < m)%nat -> (length rest < f)%nat ->
  agrees (decode_loop m all cur (rest, n, 0)) (refst f n rest).

Lemma data_step m f cur' k s n : IHm m -> 1 <= k -> 0 < n -> (length s <= m)%nat -> (length s <= f)%nat ->
  agrees (after m cur' (read_data k (s, n, 0))) (ref_data (ref_decode f) n s).
Proof.
  intros IH Hk Hn Hm Hf. unfold read_data. cbn [st_rest st_n fst snd].
  destruct s as [|a0 t] eqn:Es.
  - (* nothing left: unexpected EOF *)
    unfold after, ref_data. cbn. assert (0 <? n = true) as -> by lia. simpl.
    repeat split; try discriminate; intros H; discriminate.
  - rewrite <- Es in *. assert (Hlen : 1 <= blen s) by (rewrite Es; unfold blen; simpl; lia).
    clear Es a0 t.
    set (j := Z.min (Z.min k n) (blen s)).
    assert (Hj : 1 <= j <= n /\ j <= blen s) by (unfold j; lia).
    assert (Hsk : (length (skipn (Z.to_nat j) s) < m)%nat).
    { rewrite skipn_length. unfold blen in *. lia. }
    assert (Hsf : (length (skipn (Z.to_nat j) s) < f)%nat).
    { rewrite skipn_length. unfold blen in *. lia. }
    destruct (n - j =? 0) eqn:En.
    + (* the chunk ends here: CR LF check *)
      apply Z.eqb_eq in En. assert (j = n) by lia.
      unfold ref_data. assert (blen s <? n = false) as -> by lia.
      replace (Z.to_nat n) with (Z.to_nat j) by lia.
      destruct (skipn (Z.to_nat j) s) as [|a [|b r]] eqn:Esk.
      * unfold after. cbn. repeat split; try discriminate; intros H0; discriminate.
      * unfold after. cbn. repeat split; try discriminate; intros H0; discriminate.
      * destruct ((a =? 13) && (b =? 10)) eqn:Ecrlf.
        -- unfold after. cbn [st_err st_rest fst snd Z.eqb negb].
           assert (Hr : (length r < m)%nat) by (simpl in Hsk; lia).
           assert (Hr2 : (length r < f)%nat) by (simpl in Hsf; lia).
           pose proof (IH r 0 cur' f ltac:(lia) Hr Hr2) as A. unfold refst in A. cbn [Z.eqb] in A.
           unfold bytes in *. revert A. destruct (decode_loop m all cur' (r, 0, 0)) as [[d2 e] rr]. intros A.
           apply (agrees_prepend (firstn (Z.to_nat j) s)) in A. exact A.
        -- unfold after. cbn. repeat split; try discriminate; intros H0; discriminate.
    + (* still inside the chunk *)
      apply Z.eqb_neq in En.
      rewrite (ref_data_split (ref_decode f) n j s) by lia.
      unfold after. cbn [st_err st_rest fst snd Z.eqb negb].
      pose proof (IH (skipn (Z.to_nat j) s) (n - j) cur' f ltac:(lia) Hsk Hsf) as A.
      unfold refst in A. assert (n - j =? 0 = false) as E0 by lia. rewrite E0 in A.
      unfold bytes in *. revert A. destruct (decode_loop m all cur' (skipn (Z.to_nat j) s, n - j, 0)) as [[d2 e] rr]. intros A.
      apply agrees_prepend. exact A.
Qed.

Lemma loop_agrees : forall m, IHm m.
Proof.
  induction m as [|m IH]; intros rest n cur f Hn Hm Hf; [lia|].
  rewrite decode_loop_unfold.
  pose proof (next_size_pos all cur) as Hk.
  set (k := fst (next_size all cur)) in *. set (cur' := snd (next_size all cur)).
  unfold cr_read. cbn [st_err st_n fst snd Z.eqb negb]. unfold refst.
  destruct (n =? 0) eqn:En.
  - apply Z.eqb_eq in En. subst n.
    destruct f as [|f]; [lia|]. cbn [ref_decode].
    pose proof (begin_chunk_spec rest) as B.
    destruct (parse_size_line rest) as [[sz s1]|].
    + destruct B as [B [Hsz Hl]]. rewrite B. destruct (sz =? 0) eqn:Esz.
      * cbn. repeat split; try discriminate; try reflexivity.
      * cbn [st_err fst snd Z.eqb negb]. apply data_step; try assumption; lia.
    + destruct B as [B0 B1]. destruct (begin_chunk (rest, 0, 0)) as [[r' n'] e]. cbn [st_err snd] in *.
      destruct (e =? 0) eqn:E0; [apply Z.eqb_eq in E0; congruence|]. cbn [negb after st_err st_rest fst snd].
      rewrite E0. cbn [negb]. repeat split; try assumption; try (intros H; congruence).
  - apply Z.eqb_neq in En. apply data_step; try assumption; lia.
Qed.
End Loop.

Theorem decode_all_exact sizes wire : agrees (decode_all sizes wire) (ref_decode_all wire).
Proof.
  unfold decode_all, ref_decode_all.
  apply (loop_agrees sizes (S (S (length wire))) wire 0 sizes (S (length wire))); lia.
Qed.

(* ---------- round trip: the reference decoder (hence the model decoder) inverts the encoder ---------- *)
Lemma hex_digit_ok d : 0 <= d < 16 ->
  is_hex (hex_digit d) = true /\ hex_digit_value (hex_digit d) = d /\ is_ws (hex_digit d) = false /\ hex_digit d <> 10.
Proof.
  intros H. unfold is_hex, hex_digit_value, is_ws, hex_digit.
  destruct (d <? 10) eqn:E;
    repeat match goal with |- context [if ?c then _ else _] => destruct c eqn:? end;
    repeat split; lia.
Qed.

Lemma hex_digits_spec : forall fuel n acc, 0 <= n < 16 ^ Z.of_nat fuel -> (0 < fuel)%nat ->
  exists ds, hex_digits fuel n acc = ds ++ acc /\ forallb is_hex ds = true /\
             (1 <= length ds <= fuel)%nat /\
             forall a, fold_left hex_step ds a = a * 16 ^ Z.of_nat (length ds) + n.
Proof.
  induction fuel as [|f IH]; intros n acc Hn Hf; [lia|].
  cbn [hex_digits].
  assert (Hm : 0 <= n mod 16 < 16) by (apply Z.mod_pos_bound; lia).
  destruct (hex_digit_ok _ Hm) as [Hh [Hv _]].
  destruct (n / 16 =? 0) eqn:Eq.
  - apply Z.eqb_eq in Eq. exists [hex_digit (n mod 16)]. split; [reflexivity|]. split; [simpl; rewrite Hh; reflexivity|].
    split; [simpl; lia|]. intros a. simpl. unfold hex_step. rewrite Hv.
    pose proof (Z.div_mod n 16 ltac:(lia)). lia.
  - apply Z.eqb_neq in Eq.
    assert (Hq : 0 <= n / 16 < 16 ^ Z.of_nat f).
    { split; [apply Z.div_pos; lia|]. apply Z.div_lt_upper_bound; [lia|].
      rewrite Nat2Z.inj_succ, Z.pow_succ_r in Hn by lia. lia. }
    assert (Hfpos : (0 < f)%nat).
    { destruct f; [|lia]. simpl in Hq. assert (n / 16 = 0) by lia. contradiction. }
    destruct (IH (n / 16) (hex_digit (n mod 16) :: acc) Hq Hfpos) as [ds [E [Hall [Hlen Hfold]]]].
    exists (ds ++ [hex_digit (n mod 16)]). split; [rewrite E, <- app_assoc; reflexivity|].
    split; [rewrite forallb_app, Hall; simpl; rewrite Hh; reflexivity|].
    split; [rewrite app_length; simpl; lia|].
    intros a. rewrite fold_left_app, Hfold. simpl. unfold hex_step at 1. rewrite Hv.
    rewrite app_length. simpl length. rewrite Nat2Z.inj_add. simpl Z.of_nat. rewrite Z.pow_add_r by lia.
    pose proof (Z.div_mod n 16 ltac:(lia)). change (16 ^ 1) with 16. lia.
Qed.

Lemma hex_of_spec n : 0 <= n < 2 ^ 64 ->
  forallb is_hex (hex_of n) = true /\ (1 <= length (hex_of n) <= 16)%nat /\ hex_value (hex_of n) = n.
Proof.
  intros H. unfold hex_of.
  destruct (hex_digits_spec 16 n [] ltac:(change (16 ^ Z.of_nat 16) with (2 ^ 64); lia) ltac:(lia)) as [ds [E [Hall [Hlen Hfold]]]].
  rewrite E, app_nil_r. split; [exact Hall|]. split; [exact Hlen|].
  rewrite hex_value_fold, Hfold. lia.
Qed.

Lemma is_hex_props b : is_hex b = true -> is_ws b = false /\ b <> 10 /\ b <> 13.
Proof. unfold is_hex, is_ws. intros H. repeat split; lia. Qed.

Lemma index_byte_app c : forall ds t, forallb (fun b => negb (b =? c)) ds = true ->
  index_byte c (ds ++ c :: t) = Some (length ds).
Proof.
  induction ds as [|x ds IH]; intros t H; simpl.
  - rewrite Z.eqb_refl. reflexivity.
  - simpl in H. apply andb_true_iff in H. destruct H as [Hx Hr].
    destruct (x =? c); [discriminate|]. rewrite IH by exact Hr. reflexivity.
Qed.

Lemma firstn_app_exact {A} (l t : list A) : firstn (length l) (l ++ t) = l.
Proof. rewrite firstn_app, Nat.sub_diag, firstn_all. simpl. apply app_nil_r. Qed.
Lemma skipn_app_exact {A} (l t : list A) : skipn (length l) (l ++ t) = t.
Proof. rewrite skipn_app, Nat.sub_diag, skipn_all. reflexivity. Qed.

Lemma parse_size_line_hex n rest : 0 <= n < 2 ^ 64 ->
  parse_size_line (hex_of n ++ [13; 10] ++ rest) = Some (n, rest).
Proof.
  intros Hn. destruct (hex_of_spec n Hn) as [Hall [Hlen Hval]].
  set (ds := hex_of n) in *. unfold parse_size_line.
  assert (Hno : forallb (fun b => negb (b =? 10)) (ds ++ [13]) = true).
  { rewrite forallb_app. simpl. rewrite andb_true_r. rewrite forallb_forall in *. intros b Hb.
    destruct (is_hex_props b (Hall b Hb)) as [_ [H10 _]]. lia. }
  replace (ds ++ [13; 10] ++ rest) with ((ds ++ [13]) ++ 10 :: rest) by (rewrite <- app_assoc; reflexivity).
  rewrite (index_byte_app 10 _ _ Hno).
  assert (Hl : (max_line <=? Z.of_nat (S (length (ds ++ [13])))) = false).
  { rewrite app_length. simpl. unfold max_line. lia. }
  rewrite Hl.
  replace (S (length (ds ++ [13]))) with (length ((ds ++ [13]) ++ [10])) by (rewrite !app_length; simpl; lia).
  replace ((ds ++ [13]) ++ 10 :: rest) with (((ds ++ [13]) ++ [10]) ++ rest) by (rewrite <- !app_assoc; reflexivity).
  rewrite firstn_app_exact, skipn_app_exact.
  assert (Ht : trim_right is_ws ((ds ++ [13]) ++ [10]) = ds).
  { unfold trim_right. rewrite !rev_app_distr. simpl.
    destruct (rev ds) as [|x rd] eqn:Er.
    - apply (f_equal (@length Z)) in Er. rewrite rev_length in Er. simpl in Er. lia.
    - assert (Hx : is_hex x = true).
      { rewrite forallb_forall in Hall. apply Hall. apply in_rev. rewrite Er. left. reflexivity. }
      destruct (is_hex_props x Hx) as [Hws _]. cbn [trim_left]. rewrite Hws.
      rewrite <- Er, rev_involutive. reflexivity. }
  rewrite Ht. unfold size_ok. rewrite Hall. unfold blen.
  assert ((1 <=? Z.of_nat (length ds)) && (Z.of_nat (length ds) <=? 16) = true) as -> by lia.
  simpl. rewrite Hval. reflexivity.
Qed.

Lemma ref_data_exact K (d rest : bytes) : 0 < blen d ->
  ref_data K (blen d) (d ++ [13; 10] ++ rest) = prepend d (K rest).
Proof.
  intros Hd. unfold ref_data, blen in *. rewrite app_length.
  assert (Z.of_nat (length d + length ([13; 10] ++ rest)) <? Z.of_nat (length d) = false) as -> by lia.
  rewrite Nat2Z.id, firstn_app_exact, skipn_app_exact. simpl. reflexivity.
Qed.

Lemma ref_decode_encode : forall chunks fuel, Forall (fun d => blen d < 2 ^ 64) chunks ->
  (length (flat_map encode_chunk chunks) < fuel)%nat ->
  ref_decode fuel (encode_chunks chunks) = (concat chunks, true, []).
Proof.
  unfold encode_chunks. induction chunks as [|d cs IH]; intros fuel Hall Hf.
  - destruct fuel; [simpl in Hf; lia|]. reflexivity.
  - inversion Hall as [|? ? Hd Hcs]; subst. cbn [flat_map concat]. cbn [flat_map] in Hf.
    destruct d as [|x d'] eqn:Ed.
    + simpl. apply IH; [exact Hcs|exact Hf].
    + rewrite <- Ed in *. assert (Hpos : 0 < blen d) by (rewrite Ed; unfold blen; simpl; lia).
      assert (Henc : encode_chunk d = hex_of (blen d) ++ [13; 10] ++ d ++ [13; 10]) by (rewrite Ed; reflexivity).
      rewrite Henc in *. destruct fuel as [|f]; [lia|]. cbn [ref_decode].
      rewrite <- !app_assoc.
      rewrite (parse_size_line_hex (blen d)) by lia.
      assert (blen d =? 0 = false) as -> by lia.
      rewrite ref_data_exact by exact Hpos.
      rewrite IH; [reflexivity|exact Hcs|].
      rewrite !app_length in Hf. simpl in Hf. lia.
Qed.

Theorem ref_roundtrip chunks : Forall (fun d => blen d < 2 ^ 64) chunks ->
  ref_decode_all (encode_chunks chunks) = (concat chunks, true, []).
Proof.
  intros H. unfold ref_decode_all. apply ref_decode_encode; [exact H|].
  unfold encode_chunks. rewrite app_length. simpl. lia.
Qed.

Theorem decode_encode_roundtrip chunks sizes : Forall (fun d => blen d < 2 ^ 64) chunks ->
  decode_all sizes (encode_chunks chunks) = (concat chunks, 1, []).
Proof.
  intros H. pose proof (decode_all_exact sizes (encode_chunks chunks)) as A.
  rewrite (ref_roundtrip chunks H) in A.
  destruct (decode_all sizes (encode_chunks chunks)) as [[d e] r]. simpl in A.
  destruct A as [-> [_ [He Hr]]]. rewrite (proj2 He eq_refl), (Hr eq_refl). reflexivity.
Qed.

(* ---------- the executable property holds of the model on every well-formed input ---------- *)
Lemma as_LZ_vLZ l : as_LZ (vLZ l) = Some l.
Proof. unfold as_LZ, vLZ. induction l as [|x l IH]; simpl; [reflexivity|]. rewrite map_map in *. simpl in *. rewrite IH. reflexivity. Qed.
Lemma as_LB_vLB l : as_LB (vLB l) = Some l.
Proof. unfold as_LB, vLB. induction l as [|x l IH]; simpl; [reflexivity|]. rewrite map_map in *. simpl in *. rewrite IH. reflexivity. Qed.

Lemma prop_C23_decode wire sizes pieces :
  let i := VL [VZ 1; VB wire; vLZ sizes; pieces] in prop_C23 i (run_C23 i) = true.
Proof.
  cbn zeta. unfold run_C23, prop_C23. rewrite as_LZ_vLZ.
  pose proof (decode_all_exact sizes wire) as A.
  destruct (ref_decode_all wire) as [[d ok] rest]. destruct (decode_all sizes wire) as [[d' e] rm].
  simpl in A. destruct A as [<- [He0 [He1 Hr]]]. unfold dec_obs.
  unfold bytes_eqb. rewrite list_Z_eqb_refl. cbn [andb].
  assert (negb (e =? 0) = true) as -> by lia. cbn [andb].
  rewrite (Z.eqb_refl e), andb_true_r.
  destruct ok.
  - rewrite (proj2 He1 eq_refl). rewrite (Hr eq_refl). simpl. apply Z.eqb_refl.
  - destruct (e =? 1) eqn:E1; [apply Z.eqb_eq in E1; apply He1 in E1; discriminate|]. reflexivity.
Qed.

Lemma prop_C23_encode chunks : Forall (fun d => blen d < 2 ^ 64) chunks ->
  let i := VL [VZ 2; vLB chunks] in prop_C23 i (run_C23 i) = true.
Proof.
  intros H. cbn zeta. unfold run_C23, prop_C23. rewrite as_LB_vLB.
  rewrite (ref_roundtrip chunks H). unfold bytes_eqb. rewrite list_Z_eqb_refl. reflexivity.
Qed.

Lemma prop_C23_size line :
  let i := VL [VZ 3; VB line] in prop_C23 i (run_C23 i) = true.
Proof.
  cbn zeta. unfold run_C23, prop_C23.
  destruct (parse_hex_exact line) as [[Hp Hok]|[Hv [He Hok]]]; rewrite Hok.
  - rewrite Hp. simpl. rewrite Z.eqb_refl. reflexivity.
  - destruct (parse_hex line) as [v e]. simpl in *. destruct (e =? 0) eqn:E0; [lia|]. unfold VErr. rewrite E0. reflexivity.
Qed.

(* what was wrong before the fix, on the kept model of the old parseHexUint *)
Lemma parse_hex_prefix_defects :
  parse_hex_prefix [] 0 = (0, 0) /\
  parse_hex_prefix [49;48;48;48;48;48;48;48;48;48;48;48;48;48;48;48;53] 0 = (5, 0) /\
  size_ok [] = false /\ size_ok [49;48;48;48;48;48;48;48;48;48;48;48;48;48;48;48;53] = false.
Proof. vm_compute. repeat split; reflexivity. Qed.

Lemma roundtrip_example :
  decode_all [2; 7] (encode_chunks [[104; 105]; []; [13; 10; 48; 13; 10]]) = ([104; 105; 13; 10; 48; 13; 10], 1, []).
Proof. vm_compute. reflexivity. Qed.

(* ---------- central theorem: executable well-formedness -> the property holds of the model ---------- *)
Definition wf_C23 (i : val) : bool :=
  match i with
  | VL [VZ 1; VB wire; sizes; pieces] => match as_LZ sizes with Some _ => true | None => false end
  | VL [VZ 2; chunks] =>
    match as_LB chunks with Some cs => forallb (fun d => blen d <? 2 ^ 64) cs | None => false end
  | VL [VZ 3; VB line] => true
  | _ => false
  end.

Lemma prop_C23_decode_gen wire sizes szs pieces : as_LZ sizes = Some szs ->
  let i := VL [VZ 1; VB wire; sizes; pieces] in prop_C23 i (run_C23 i) = true.
Proof.
  intros Hs. cbn zeta. unfold run_C23, prop_C23. rewrite Hs.
  pose proof (decode_all_exact szs wire) as A.
  destruct (ref_decode_all wire) as [[d ok] rest]. destruct (decode_all szs wire) as [[d' e] rm].
  simpl in A. destruct A as [<- [He0 [He1 Hr]]]. unfold dec_obs.
  unfold bytes_eqb. rewrite list_Z_eqb_refl. cbn [andb].
  assert (negb (e =? 0) = true) as -> by lia. cbn [andb].
  rewrite (Z.eqb_refl e), andb_true_r.
  destruct ok.
  - rewrite (proj2 He1 eq_refl). rewrite (Hr eq_refl). simpl. apply Z.eqb_refl.
  - destruct (e =? 1) eqn:E1; [apply Z.eqb_eq in E1; apply He1 in E1; discriminate|]. reflexivity.
Qed.

Lemma prop_C23_encode_gen chunks cs : as_LB chunks = Some cs -> forallb (fun d => blen d <? 2 ^ 64) cs = true ->
  let i := VL [VZ 2; chunks] in prop_C23 i (run_C23 i) = true.
Proof.
  intros Hc Hall. cbn zeta. unfold run_C23, prop_C23. rewrite Hc.
  assert (H : Forall (fun d => blen d < 2 ^ 64) cs).
  { rewrite Forall_forall. rewrite forallb_forall in Hall. intros d Hd. specialize (Hall d Hd). lia. }
  rewrite (ref_roundtrip cs H). unfold bytes_eqb. rewrite list_Z_eqb_refl. reflexivity.
Qed.

Theorem prop_C23_of_model i : wf_C23 i = true -> kf_C23 i = 0 -> prop_C23 i (run_C23 i) = true.
Proof.
  intros Hwf _. unfold wf_C23 in Hwf.
  destruct i as [z|b|l]; try discriminate.
  destruct l as [|[tag| |] l]; try discriminate.
  destruct tag as [|p|p]; try discriminate.
  destruct p as [[p|p|]|[p|p|]|]; try discriminate.
  - (* 3 *) destruct l as [|[|line|] [|? ?]]; try discriminate. apply prop_C23_size.
  - (* 2 *) destruct l as [|chunks [|? ?]]; try discriminate.
    destruct (as_LB chunks) as [cs|] eqn:Ec; [|discriminate]. apply (prop_C23_encode_gen chunks cs Ec Hwf).
  - (* 1 *) destruct l as [|[|wire|] [|sizes [|pieces [|? ?]]]]; try discriminate.
    destruct (as_LZ sizes) as [szs|] eqn:Es; [|discriminate]. apply (prop_C23_decode_gen wire sizes szs pieces Es).
Qed.

Lemma wf_C23_corpus :
  wf_C23 (VL [VZ 1; VB [53;13;10;104;101;108;108;111]; VL [VZ 3]; VL [VZ 2]]) = true /\
  wf_C23 (VL [VZ 2; VL [VB [104;105]; VB []]]) = true /\ wf_C23 (VL [VZ 3; VB []]) = true.
Proof. vm_compute. repeat split; reflexivity. Qed.
