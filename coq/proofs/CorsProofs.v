From Coq Require Import List ZArith Bool Lia String.
From Bfe Require Import lib.Val lib.ValProofs lib.Bytes model.Cors run.RunC52.
Import ListNotations.
Open Scope Z_scope.

(* ---- small list facts ---- *)
Lemma bytes_eqb_refl a : bytes_eqb a a = true.
Proof. apply bytes_eqb_eq. reflexivity. Qed.
Lemma mem_In x l : mem x l = true <-> In x l.
Proof.
  unfold mem. rewrite existsb_exists. split.
  - intros [y [Hy He]]. apply bytes_eqb_eq in He. subst. exact Hy.
  - intros H. exists x. split; [exact H|apply bytes_eqb_refl].
Qed.
Lemma existsb_map {A B} (f : B -> bool) (g : A -> B) l : existsb f (map g l) = existsb (fun x => f (g x)) l.
Proof. induction l as [|x l IH]; simpl; [reflexivity|]. rewrite IH. reflexivity. Qed.
Lemma existsb_flat_map {A B} (f : B -> bool) (g : A -> list B) l :
  existsb f (flat_map g l) = existsb (fun x => existsb f (g x)) l.
Proof. induction l as [|x l IH]; simpl; [reflexivity|]. rewrite existsb_app, IH. reflexivity. Qed.
Lemma vLB_inj a b : vLB a = vLB b -> a = b.
Proof.
  unfold vLB. intros H. injection H as H. revert b H.
  induction a as [|x a IH]; intros [|y b] H; simpl in H; try discriminate; [reflexivity|].
  injection H as H1 H2. f_equal; [exact H1|apply IH; exact H2].
Qed.
Lemma lb_eqb_refl a : lb_eqb a a = true.
Proof. apply val_eqb_refl. Qed.
Lemma lb_eqb_eq a b : lb_eqb a b = true -> a = b.
Proof. intros H. apply val_eqb_eq in H. apply vLB_inj. exact H. Qed.
Lemma aca_same_refl h : aca_same h h = true.
Proof. unfold aca_same. rewrite !lb_eqb_refl. reflexivity. Qed.

Lemma as_LB_vLB l : as_LB (vLB l) = Some l.
Proof.
  unfold as_LB, vLB. rewrite map_map. simpl.
  induction l as [|x l IH]; simpl; [reflexivity|]. rewrite IH. reflexivity.
Qed.
Lemma dec_enc_hdrs h : dec_hdrs (enc_hdrs h) = Some h.
Proof.
  destruct h as [a b c d e f g]. unfold enc_hdrs, dec_hdrs. cbn [h_vary h_acao h_acac h_acam h_acah h_acma h_aceh].
  rewrite !as_LB_vLB. reflexivity.
Qed.

(* ---- Vary ---- *)
Lemma vary_tokens_app a b : vary_tokens (a ++ b) = vary_tokens a ++ vary_tokens b.
Proof. unfold vary_tokens. apply flat_map_app. Qed.
Lemma vary_keeps_app a b : vary_keeps a (a ++ b) = true.
Proof.
  unfold vary_keeps. apply forallb_forall. intros t Ht. apply mem_In.
  rewrite vary_tokens_app. apply in_or_app. left. exact Ht.
Qed.
Lemma vary_keeps_refl a : vary_keeps a a = true.
Proof. rewrite <- (app_nil_r a) at 2. apply vary_keeps_app. Qed.
Lemma vary_lists_origin_covers v : vary_lists_origin v = existsb vary_line_covers v.
Proof.
  unfold vary_lists_origin, vary_tokens. rewrite existsb_flat_map.
  induction v as [|l v IH]; simpl; [reflexivity|]. rewrite IH. f_equal.
  unfold vary_line_covers. rewrite existsb_map. reflexivity.
Qed.
Lemma add_vary_extends v : exists extra, add_vary v = v ++ extra.
Proof.
  unfold add_vary. destruct (existsb vary_line_covers v).
  - exists []. rewrite app_nil_r. reflexivity.
  - exists [s_Origin]. reflexivity.
Qed.
Lemma add_vary_lists_origin v : vary_lists_origin (add_vary v) = true.
Proof.
  unfold add_vary. destruct (existsb vary_line_covers v) eqn:E.
  - rewrite vary_lists_origin_covers. exact E.
  - rewrite vary_lists_origin_covers, existsb_app. apply orb_true_iff. right. vm_compute. reflexivity.
Qed.
Lemma add_vary_keeps v : vary_keeps v (add_vary v) = true.
Proof. destruct (add_vary_extends v) as [e ->]. apply vary_keeps_app. Qed.
Lemma add_vary_idempotent v : add_vary (add_vary v) = add_vary v.
Proof.
  unfold add_vary at 1. pose proof (add_vary_lists_origin v) as H.
  rewrite vary_lists_origin_covers in H. rewrite H. reflexivity.
Qed.

(* ---- origin matching ---- *)
Lemma match_origin_sound r o mo :
  match_origin o r = Some mo ->
  (mem s_pOrigin (r_origins r) || mem s_star (r_origins r) || mem o (r_origins r)) = true
  /\ mo = expected_acao (r_origins r) o.
Proof.
  unfold match_origin, expected_acao.
  destruct (mem s_pOrigin (r_origins r)); simpl.
  - intros H; injection H as <-. rewrite andb_false_r. split; reflexivity.
  - destruct (mem s_star (r_origins r)); simpl.
    + intros H; injection H as <-. split; reflexivity.
    + destruct (mem o (r_origins r)); [|discriminate]. intros H; injection H as <-. split; reflexivity.
Qed.
Lemma match_origin_complete r o :
  origin_allowed (r_origins r) o = true -> match_origin o r = Some (expected_acao (r_origins r) o).
Proof.
  unfold origin_allowed, match_origin, expected_acao. intros H. apply andb_true_iff in H. destruct H as [_ H].
  destruct (mem s_pOrigin (r_origins r)); simpl in *; [rewrite andb_false_r; reflexivity|].
  destruct (mem s_star (r_origins r)); simpl in *; [reflexivity|]. rewrite H. reflexivity.
Qed.

Lemma set_if_cases c v old : set_if c v old = old \/ (c = true /\ set_if c v old = v).
Proof. destruct c; simpl; [right; split; reflexivity|left; reflexivity]. Qed.

Lemma grant_nonpreflight_spec r q h :
  nonempty (origin_of q) = true -> cors_spec r q h (grant_nonpreflight r (origin_of q) h) = true.
Proof.
  intros Hne. unfold grant_nonpreflight, cors_spec.
  destruct (match_origin (origin_of q) r) as [mo|] eqn:E.
  - apply match_origin_sound in E. destruct E as [Hm ->]. cbn [h_vary h_acao h_acac].
    rewrite add_vary_keeps, add_vary_lists_origin. cbn [andb]. apply orb_true_iff. right.
    unfold origin_allowed. rewrite Hne, Hm, lb_eqb_refl. cbn [andb]. rewrite orb_true_r, andb_true_r.
    destruct (set_if_cases (r_cred r) [s_true] (h_acac h)) as [-> | [-> ->]].
    + rewrite lb_eqb_refl. reflexivity.
    + rewrite lb_eqb_refl. apply orb_true_r.
  - rewrite vary_keeps_refl, aca_same_refl. reflexivity.
Qed.
Lemma grant_preflight_spec r q h :
  nonempty (origin_of q) = true -> cors_spec r q h (grant_preflight r (origin_of q) h) = true.
Proof.
  intros Hne. unfold grant_preflight, cors_spec.
  destruct (match_origin (origin_of q) r) as [mo|] eqn:E.
  - apply match_origin_sound in E. destruct E as [Hm ->]. cbn [h_vary h_acao h_acac].
    rewrite add_vary_keeps, add_vary_lists_origin. cbn [andb]. apply orb_true_iff. right.
    unfold origin_allowed. rewrite Hne, Hm, lb_eqb_refl. cbn [andb]. rewrite orb_true_r, andb_true_r.
    destruct (set_if_cases (r_cred r) [s_true] (h_acac h)) as [-> | [-> ->]].
    + rewrite lb_eqb_refl. reflexivity.
    + rewrite lb_eqb_refl. apply orb_true_r.
  - rewrite vary_keeps_refl, aca_same_refl. reflexivity.
Qed.

Lemma hdrs_same_refl h : hdrs_same h h = true.
Proof. unfold hdrs_same. rewrite lb_eqb_refl, aca_same_refl. reflexivity. Qed.
Lemma cors_spec_unchanged r q h : cors_spec r q h h = true.
Proof. unfold cors_spec. rewrite vary_keeps_refl, aca_same_refl. reflexivity. Qed.

Lemma cors_handler_spec rs q h : cors_spec_rules rs q h (cors_handler rs q h) = true.
Proof.
  unfold cors_handler, cors_spec_rules.
  destruct (q_has_rules q); cbn [negb].
  2:{ destruct (negb (nonempty (origin_of q))); [apply hdrs_same_refl|].
      destruct (is_preflight q); apply hdrs_same_refl. }
  destruct (find_rule rs) as [r|].
  - destruct (nonempty (origin_of q)) eqn:Hne; cbn [negb]; [|apply cors_spec_unchanged].
    destruct (is_preflight q); [apply cors_spec_unchanged|].
    apply grant_nonpreflight_spec. exact Hne.
  - destruct (negb (nonempty (origin_of q))); [apply hdrs_same_refl|].
    destruct (is_preflight q); apply hdrs_same_refl.
Qed.
Lemma preflight_handler_spec rs q h' :
  preflight_handler rs q = Some h' ->
  is_preflight q = true /\ q_has_rules q = true /\
  exists r, find_rule rs = Some r /\ cors_spec r q empty_hdrs h' = true.
Proof.
  unfold preflight_handler. destruct (is_preflight q) eqn:Hp; cbn [negb]; [|discriminate].
  destruct (q_has_rules q); cbn [negb]; [|discriminate].
  destruct (find_rule rs) as [r|]; [|discriminate]. intros H; injection H as <-.
  split; [reflexivity|]. split; [reflexivity|]. exists r. split; [reflexivity|]. apply grant_preflight_spec.
  unfold is_preflight in Hp. apply andb_true_iff in Hp. destruct Hp as [Hp _].
  apply andb_true_iff in Hp. apply Hp.
Qed.

(* ---- readable consequences of cors_spec ---- *)
Lemma spec_only_allowed r q before after :
  cors_spec r q before after = true -> aca_same before after = false ->
  origin_allowed (r_origins r) (origin_of q) = true
  /\ h_acao after = [expected_acao (r_origins r) (origin_of q)]
  /\ (h_acac after = h_acac before \/ (r_cred r = true /\ h_acac after = [s_true])).
Proof.
  unfold cors_spec. intros H Hd. rewrite Hd in H. cbn [orb] in H.
  apply andb_true_iff in H; destruct H as [_ H].
  apply andb_true_iff in H; destruct H as [H _].
  apply andb_true_iff in H; destruct H as [H HC].
  apply andb_true_iff in H; destruct H as [HA HB].
  split; [exact HA|]. split; [apply lb_eqb_eq; exact HB|].
  apply orb_true_iff in HC. destruct HC as [HC|HC].
  - left. apply lb_eqb_eq. exact HC.
  - right. apply andb_true_iff in HC. destruct HC as [Hc1 Hc2]. split; [exact Hc1|apply lb_eqb_eq; exact Hc2].
Qed.

Lemma hdrs_same_aca a b : hdrs_same a b = true -> aca_same a b = true.
Proof. unfold hdrs_same. intros H. apply andb_true_iff in H. apply H. Qed.

(* anything granted comes from the FIRST matching rule of the product and obeys it *)
Lemma only_allowed_handler rs q h :
  aca_same h (cors_handler rs q h) = false ->
  exists r, q_has_rules q = true /\ find_rule rs = Some r
  /\ origin_allowed (r_origins r) (origin_of q) = true
  /\ h_acao (cors_handler rs q h) = [expected_acao (r_origins r) (origin_of q)]
  /\ (h_acac (cors_handler rs q h) = h_acac h \/ (r_cred r = true /\ h_acac (cors_handler rs q h) = [s_true])).
Proof.
  intros Hd. pose proof (cors_handler_spec rs q h) as Hs. unfold cors_spec_rules in Hs.
  destruct (q_has_rules q).
  - destruct (find_rule rs) as [r|].
    + exists r. split; [reflexivity|]. split; [reflexivity|]. apply (spec_only_allowed _ _ _ _ Hs Hd).
    + apply hdrs_same_aca in Hs. congruence.
  - apply hdrs_same_aca in Hs. congruence.
Qed.
Lemma only_allowed_preflight rs q h' :
  preflight_handler rs q = Some h' -> aca_same empty_hdrs h' = false ->
  exists r, find_rule rs = Some r
  /\ origin_allowed (r_origins r) (origin_of q) = true
  /\ h_acao h' = [expected_acao (r_origins r) (origin_of q)]
  /\ (h_acac h' = [] \/ (r_cred r = true /\ h_acac h' = [s_true])).
Proof.
  intros H Hd. apply preflight_handler_spec in H. destruct H as [_ [_ [r [Hr H]]]].
  exists r. split; [exact Hr|]. apply (spec_only_allowed _ _ _ _ H Hd).
Qed.
(* no matching rule, no rules for the product, no / disallowed Origin: the response header is left exactly as it was *)
Lemma denied_unchanged rs q h :
  (q_has_rules q = false \/ find_rule rs = None
   \/ (exists r, find_rule rs = Some r /\ origin_allowed (r_origins r) (origin_of q) = false)) ->
  cors_handler rs q h = h.
Proof.
  unfold cors_handler. intros H.
  destruct (nonempty (origin_of q)) eqn:Hne; cbn [negb]; [|reflexivity].
  destruct (is_preflight q); [reflexivity|].
  destruct H as [-> | [-> | [r [-> Hr]]]]; cbn [negb]; try reflexivity.
  - destruct (q_has_rules q); reflexivity.
  - destruct (q_has_rules q); cbn [negb]; [|reflexivity].
    unfold grant_nonpreflight. destruct (match_origin (origin_of q) r) as [mo|] eqn:E; [|reflexivity].
    apply match_origin_sound in E. destruct E as [Hm _]. unfold origin_allowed in Hr. rewrite Hne, Hm in Hr. discriminate.
Qed.

(* Vary: whenever the module grants, the Vary header afterwards is the old one plus possibly one more line, and lists
   Origin (or "*"). *)
Lemma vary_origin_handler rs q h :
  aca_same h (cors_handler rs q h) = false ->
  (exists extra, h_vary (cors_handler rs q h) = h_vary h ++ extra)
  /\ vary_lists_origin (h_vary (cors_handler rs q h)) = true.
Proof.
  unfold cors_handler.
  destruct (negb (nonempty (origin_of q))); [rewrite aca_same_refl; discriminate|].
  destruct (is_preflight q); [rewrite aca_same_refl; discriminate|].
  destruct (negb (q_has_rules q)); [rewrite aca_same_refl; discriminate|].
  destruct (find_rule rs) as [r|]; [|rewrite aca_same_refl; discriminate].
  unfold grant_nonpreflight. destruct (match_origin (origin_of q) r); [|rewrite aca_same_refl; discriminate].
  intros _. cbn [h_vary]. split; [apply add_vary_extends|apply add_vary_lists_origin].
Qed.
Lemma vary_origin_granted rs r q h :
  nonempty (origin_of q) = true -> is_preflight q = false -> q_has_rules q = true ->
  find_rule rs = Some r -> origin_allowed (r_origins r) (origin_of q) = true ->
  let h' := cors_handler rs q h in
  h_acao h' = [expected_acao (r_origins r) (origin_of q)]
  /\ (exists extra, h_vary h' = h_vary h ++ extra) /\ vary_lists_origin (h_vary h') = true.
Proof.
  intros Hne Hp Hr Hf Ha. unfold cors_handler. rewrite Hne, Hp, Hr, Hf. cbn [negb].
  unfold grant_nonpreflight. rewrite (match_origin_complete _ _ Ha). cbn [h_acao h_vary].
  split; [reflexivity|]. split; [apply add_vary_extends|apply add_vary_lists_origin].
Qed.
Lemma vary_origin_preflight rs q h' :
  preflight_handler rs q = Some h' -> aca_same empty_hdrs h' = false -> vary_lists_origin (h_vary h') = true.
Proof.
  unfold preflight_handler. destruct (negb (is_preflight q)); [discriminate|].
  destruct (negb (q_has_rules q)); [discriminate|].
  destruct (find_rule rs) as [r|]; [|discriminate]. intros H; injection H as <-.
  unfold grant_preflight. destruct (match_origin (origin_of q) r); [|rewrite aca_same_refl; discriminate].
  intros _. cbn [h_vary]. apply add_vary_lists_origin.
Qed.
(* first match wins: rules after the first matching one have no influence *)
Lemma first_match_wins pre r post q h :
  forallb (fun mr => negb (fst mr)) pre = true ->
  cors_handler (pre ++ (true, r) :: post) q h = cors_handler [(true, r)] q h
  /\ preflight_handler (pre ++ (true, r) :: post) q = preflight_handler [(true, r)] q.
Proof.
  intros Hpre.
  assert (Hf : find_rule (pre ++ (true, r) :: post) = Some r).
  { induction pre as [|[m r0] pre IH]; [reflexivity|]. cbn [forallb fst] in Hpre.
    apply andb_true_iff in Hpre. destruct Hpre as [Hm Hp]. apply negb_true_iff in Hm. subst m. cbn. apply IH. exact Hp. }
  unfold cors_handler, preflight_handler. rewrite Hf. split; reflexivity.
Qed.

(* ---- the executable property holds of the model on every well-formed input ---- *)
Lemma step_prop_model rs q h k : step_prop rs q h k (step_run rs q h k) = true.
Proof.
  unfold step_prop, step_run. destruct (k =? 0) eqn:Ek.
  - pose proof (dec_enc_hdrs (cors_handler rs q h)) as Hd.
    unfold enc_hdrs in *. rewrite Hd. cbn. apply cors_handler_spec.
  - destruct (preflight_handler rs q) as [h'|] eqn:Ep.
    + pose proof (dec_enc_hdrs h') as Hd. unfold enc_hdrs in *. rewrite Hd.
      apply preflight_handler_spec in Ep. destruct Ep as [-> [Hr [r0 [Hf Hs]]]].
      unfold cors_spec_rules. rewrite Hr, Hf, Hs. reflexivity.
    + reflexivity.
Qed.
Lemma prop_ops_model t ops : prop_ops t ops (run_ops t ops) = true.
Proof.
  revert t. induction ops as [|o rest IH]; intros t; [reflexivity|].
  destruct o as [c|p q h k]; cbn [run_ops prop_ops].
  - unfold table_load. destruct (conf_ok c); rewrite val_eqb_refl; apply IH.
  - destruct (with_product t p q) as [rs q']. rewrite (step_prop_model rs q' h k). apply IH.
Qed.
Lemma prop_C52_of_model i : wf_C52 i = true -> prop_C52 i (run_C52 i) = true.
Proof.
  unfold wf_C52, prop_C52, run_C52. destruct (dec_in i) as [ops|] eqn:E; [intros _|discriminate].
  apply prop_ops_model.
Qed.

(* ---- reload ---- *)
(* after a successful reload the old table has no influence: the rest of the history behaves as on a module that
   only ever loaded the new configuration *)
Lemma reload_replaces t c ops : conf_ok c = true -> run_ops t (OLoad c :: ops) = VL [VZ 1] :: run_ops c ops.
Proof. intros H. cbn [run_ops]. unfold table_load. rewrite H. reflexivity. Qed.
Lemma failed_reload_keeps t c ops : conf_ok c = false -> run_ops t (OLoad c :: ops) = VErr 1 :: run_ops t ops.
Proof. intros H. cbn [run_ops]. unfold table_load. rewrite H. reflexivity. Qed.
(* a product that the configuration in force does not list is granted nothing, whatever was loaded before *)
Lemma dropped_product_denied t c p q h ops :
  conf_ok c = true -> lookup p c = None ->
  run_ops t (OLoad c :: OReq p q h 0 :: ops)
  = VL [VZ 1] :: VL [VZ 0; enc_hdrs h] :: run_ops c ops
  /\ run_ops t (OLoad c :: OReq p q h 1 :: ops) = VL [VZ 1] :: VL [VZ 0; VL []] :: run_ops c ops.
Proof.
  intros Hc Hl. rewrite !reload_replaces by exact Hc. cbn [run_ops]. unfold with_product. rewrite Hl.
  unfold step_run. cbn [Z.eqb].
  rewrite (denied_unchanged [] _ h) by (left; reflexivity).
  unfold preflight_handler. cbn [q_has_rules negb]. destruct (negb (is_preflight _)); split; reflexivity.
Qed.

(* ---- non-vacuity witnesses ---- *)
Definition ex_rule : rule := mkRule [bs "http://a.example"%string] true [] [] [] None.
Definition ex_rule_star : rule := mkRule [bs "*"%string] false [] [] [] None.
Definition ex_req : req := mkReq (bs "GET"%string) [bs "http://a.example"%string] [] true.
Definition ex_rsp : hdrs := mkHdrs [bs "Accept-Encoding"%string; bs "Cookie , User-Agent"%string] [] [] [] [] [] [].
Lemma ex_grant :
  rule_ok ex_rule = true /\
  cors_handler [(false, ex_rule_star); (true, ex_rule); (true, ex_rule_star)] ex_req ex_rsp =
    mkHdrs [bs "Accept-Encoding"%string; bs "Cookie , User-Agent"%string; bs "Origin"%string] [bs "http://a.example"%string] [bs "true"%string] [] [] [] []
  /\ aca_same ex_rsp (cors_handler [(false, ex_rule_star); (true, ex_rule); (true, ex_rule_star)] ex_req ex_rsp) = false.
Proof. vm_compute. repeat split. Qed.
Definition ex_req_other : req := mkReq (bs "GET"%string) [bs "http://evil.example"%string] [] true.
Lemma ex_deny : origin_allowed (r_origins ex_rule) (origin_of ex_req_other) = false
  /\ cors_handler [(false, ex_rule_star); (true, ex_rule); (true, ex_rule_star)] ex_req_other ex_rsp = ex_rsp.
Proof. vm_compute. split; reflexivity. Qed.
Definition ex_pre : req := mkReq (bs "OPTIONS"%string) [bs "http://a.example"%string] [bs "PUT"%string] true.
Lemma ex_preflight :
  preflight_handler [(true, mkRule [bs "%origin"%string] false [] [bs "PUT"%string; bs "GET"%string] [] (Some 600))] ex_pre =
  Some (mkHdrs [bs "Origin"%string] [bs "http://a.example"%string] [] [bs "PUT,GET"%string] [] [bs "600"%string] []).
Proof. vm_compute. reflexivity. Qed.

Definition w_corpus : val := (VL [(VL [(VZ 0); (VL [(VL [(VB [112;97]); (VL [(VL [(VZ 1); (VL [(VL [(VB [104;116;116;112;58;47;47;97])]); (VZ 1); (VL []); (VL []); (VL []); (VL [])])])])])])]); (VL [(VZ 1); (VB [112;97]); (VL [(VB [71;69;84]); (VL [(VB [104;116;116;112;58;47;47;97])]); (VL []); (VZ 1)]); (VL [(VL [(VB [65;99;99;101;112;116;45;69;110;99;111;100;105;110;103]); (VB [67;111;111;107;105;101])]); (VL []); (VL []); (VL []); (VL []); (VL []); (VL [])]); (VZ 0)])]).
Definition w_reload : val := (VL [(VL [(VZ 0); (VL [(VL [(VB [112;97]); (VL [(VL [(VZ 1); (VL [(VL [(VB [104;116;116;112;58;47;47;97])]); (VZ 1); (VL []); (VL []); (VL []); (VL [])])])])])])]); (VL [(VZ 1); (VB [112;97]); (VL [(VB [71;69;84]); (VL [(VB [104;116;116;112;58;47;47;97])]); (VL []); (VZ 1)]); (VL [(VL [(VB [65;99;99;101;112;116;45;69;110;99;111;100;105;110;103]); (VB [111;114;105;103;105;110])]); (VL []); (VL []); (VL []); (VL []); (VL []); (VL [])]); (VZ 0)]); (VL [(VZ 0); (VL [(VL [(VB [112;98]); (VL [(VL [(VZ 1); (VL [(VL [(VB [104;116;116;112;58;47;47;97])]); (VZ 1); (VL []); (VL []); (VL []); (VL [])])])])])])]); (VL [(VZ 1); (VB [112;97]); (VL [(VB [71;69;84]); (VL [(VB [104;116;116;112;58;47;47;97])]); (VL []); (VZ 1)]); (VL [(VL [(VB [65;99;99;101;112;116;45;69;110;99;111;100;105;110;103]); (VB [111;114;105;103;105;110])]); (VL []); (VL []); (VL []); (VL []); (VL []); (VL [])]); (VZ 0)]); (VL [(VZ 1); (VB [112;98]); (VL [(VB [71;69;84]); (VL [(VB [104;116;116;112;58;47;47;97])]); (VL []); (VZ 1)]); (VL [(VL [(VB [65;99;99;101;112;116;45;69;110;99;111;100;105;110;103]); (VB [111;114;105;103;105;110])]); (VL []); (VL []); (VL []); (VL []); (VL []); (VL [])]); (VZ 0)])]).
Lemma wf_corpus_example : wf_C52 w_corpus = true /\ kf_C52 w_corpus = 0 /\ prop_C52 w_corpus (run_C52 w_corpus) = true.
Proof. vm_compute. repeat split. Qed.
(* reload history: pa granted, reload without pa, pa no longer granted (header untouched), pb granted *)
Lemma reload_example :
  wf_C52 w_reload = true /\
  match run_C52 w_reload with
  | VL [l1; VL [_; VL (_ :: acao1 :: _)]; l2; VL [_; VL (_ :: acao2 :: _)]; VL [_; VL (_ :: acao3 :: _)]] =>
    l1 = VL [VZ 1] /\ l2 = VL [VZ 1] /\ acao1 <> VL [] /\ acao2 = VL [] /\ acao3 = acao1
  | _ => False
  end.
Proof. vm_compute. repeat split; discriminate. Qed.
