(* Lemmas about the flow-control primitives of model/H2Flow.v (bfe_http2/flow.go). *)
From Coq Require Import List ZArith Bool Lia.
From Bfe Require Import model.H2Flow.
Import ListNotations.
Open Scope Z_scope.

Lemma flow_take_conn_some c n : n <= c -> flow_take_conn c n = Some (c - n).
Proof. intros H. unfold flow_take_conn. destruct (n >? c) eqn:E; [lia|reflexivity]. Qed.

Lemma flow_take_stream_some s c n :
  n <= s -> n <= c -> flow_take_stream s c n = Some (s - n, c - n).
Proof.
  intros H1 H2. unfold flow_take_stream, flow_available.
  destruct (n >? Z.min s c) eqn:E; [lia|reflexivity].
Qed.

(* take never panics exactly when the caller checked available() first, as processData does *)
Lemma flow_take_stream_guarded s c n :
  (flow_available s c <? n) = false -> flow_take_stream s c n = Some (s - n, c - n).
Proof. intros H. unfold flow_available in H. apply flow_take_stream_some; lia. Qed.

Lemma send_wu_some f n :
  0 <= n -> f + n <= max_i31 -> send_wu f n = Some (f + n, n).
Proof.
  intros H1 H2. unfold send_wu, flow_add.
  destruct (n =? 0) eqn:E0.
  - assert (n = 0) by lia. subst. f_equal. f_equal. lia.
  - destruct (n <? 0) eqn:E1; [lia|].
    destruct (n >? max_i31 - f) eqn:E2; [lia|reflexivity].
Qed.

(* a window is never raised above 2^31-1: add refuses *)
Lemma flow_add_bounded f n f' : flow_add f n = Some f' -> f' = f + n /\ f' <= max_i31.
Proof.
  unfold flow_add. destruct (n >? max_i31 - f) eqn:E; [discriminate|].
  intros H. inversion H. lia.
Qed.
