(* C08: the executable property predicate prop_body (run/RunC08.v) holds of every observation the model allows,
   whatever the balancer's choices are. *)
From Coq Require Import List ZArith Bool Lia Arith.
From Bfe Require Import lib.Val lib.ValProofs model.Retry proofs.RetryProofs run.RunC08.
Import ListNotations.
Open Scope Z_scope.

Lemma as_LZ_vLZ l : as_LZ (vLZ l) = Some l.
Proof.
  unfold as_LZ, vLZ. induction l as [|a l IH]; [reflexivity|].
  cbn [map all_some as_Z]. rewrite IH. reflexivity.
Qed.

Lemma nth_error_firstn_lt {A} (l : list A) : forall n k, (k < n)%nat -> nth_error (firstn n l) k = nth_error l k.
Proof.
  induction l as [|x l IH]; intros n k H; [rewrite firstn_nil; reflexivity|].
  destruct n as [|n]; [lia|]. destruct k as [|k]; [reflexivity|]. cbn. apply IH. lia.
Qed.

Lemma In_firstn {A} (l : list A) : forall n x, In x (firstn n l) -> In x l.
Proof.
  induction l as [|y l IH]; intros n x H; [rewrite firstn_nil in H; exact H|].
  destruct n as [|n]; [destruct H|]. cbn in H. destruct H as [H|H]; [left; exact H|right; eapply IH; exact H].
Qed.

Lemma last_cases {A} (l : list A) d : last l d = d \/ In (last l d) l.
Proof.
  induction l as [|x l IH]; [left; reflexivity|].
  destruct l as [|y l]; [right; left; reflexivity|].
  change (last (x :: y :: l) d) with (last (y :: l) d).
  destruct IH as [IH|IH]; [|right; right; exact IH].
  (* last of a non-empty list is never the default unless it equals it: still in the list *)
  right. right. clear -l. revert y. induction l as [|z l IHl]; intro y; [left; reflexivity|].
  change (last (y :: z :: l) d) with (last (z :: l) d). right. apply IHl.
Qed.

(* ---- the loop on a stream of plain attempts ---- *)
Lemma loop_pure fuel c r : forall rt os k a,
  nth_error (retry_loop fuel c r rt (map (EvAttempt false) os)) k = Some a ->
  fst a = rt + Z.of_nat k /\ nth_error os k = Some (snd a).
Proof.
  induction fuel as [|f IH]; intros rt os k a H; cbn [retry_loop] in H; [destruct k; discriminate|].
  destruct (retry_max c + cross_retry c <? rt); [destruct k; discriminate|].
  destruct os as [|o os]; cbn [map] in H; [destruct k; discriminate|].
  destruct k as [|k].
  - cbn [nth_error] in H. inversion H; subst. cbn. split; [lia|reflexivity].
  - cbn [nth_error] in H. destruct (allow_retry c r o); [|destruct k; discriminate].
    destruct (IH (rt + 1) os k a H) as [H1 H2]. split; [lia|exact H2].
Qed.

Lemma loop_pure_length fuel c r : forall rt os,
  (length (retry_loop fuel c r rt (map (EvAttempt false) os)) <= length os)%nat.
Proof.
  induction fuel as [|f IH]; intros rt os; cbn [retry_loop]; [cbn; lia|].
  destruct (retry_max c + cross_retry c <? rt); [cbn; lia|].
  destruct os as [|o os]; cbn [map]; [cbn; lia|].
  destruct (allow_retry c r o); cbn [length]; [specialize (IH (rt + 1) os); lia|lia].
Qed.

(* ---- outcomes derived from choices ---- *)
Lemma outs_of_length choices : forall steps, length (outs_of choices steps) = length choices.
Proof. induction choices as [|b ch IH]; intro steps; cbn [outs_of]; [reflexivity|]. destruct (is_dead b); cbn [length]; rewrite IH; reflexivity. Qed.

Lemma step_outcome_spec st :
  (fst (step_outcome st) = ConnectErr <-> false = true) /\ (snd (step_outcome st) = 200 \/ snd (step_outcome st) = 500).
Proof.
  unfold step_outcome.
  repeat match goal with |- context [if ?c then _ else _] => destruct c end;
    cbn; (split; [split; intro; discriminate|auto]).
Qed.

Lemma outs_of_nth choices : forall steps k b,
  nth_error choices k = Some b ->
  exists o, nth_error (outs_of choices steps) k = Some o /\ (fst o = ConnectErr <-> is_dead b = true)
            /\ (snd o = 200 \/ snd o = 500).
Proof.
  induction choices as [|b0 ch IH]; intros steps k b H; [destruct k; discriminate|].
  cbn [outs_of]. destruct k as [|k].
  - cbn [nth_error] in H. inversion H; subst b0. destruct (is_dead b) eqn:D.
    + eexists. split; [reflexivity|]. cbn. split; [tauto|right; reflexivity].
    + eexists. split; [reflexivity|]. apply step_outcome_spec.
  - cbn [nth_error] in H. destruct (is_dead b0); cbn [nth_error]; eapply IH; exact H.
Qed.

Lemma outs_of_status choices : forall steps o, In o (outs_of choices steps) -> snd o = 200 \/ snd o = 500.
Proof.
  intros steps o H. apply In_nth_error in H. destruct H as [k H].
  assert (Hk : (k < length choices)%nat).
  { rewrite <- (outs_of_length choices steps). apply nth_error_Some. congruence. }
  destruct (nth_error choices k) as [b|] eqn:E; [|apply nth_error_None in E; lia].
  destruct (outs_of_nth choices steps k b E) as [o' [H1 [_ H3]]]. congruence.
Qed.

(* ---- helpers for the boolean clauses ---- *)
Lemma resend_safe_intro safe ch :
  (forall k a b, nth_error ch k = Some a -> nth_error ch (S k) = Some b -> is_dead a || safe = true) ->
  resend_safe safe ch = true.
Proof.
  induction ch as [|a ch IH]; intro H; [reflexivity|].
  destruct ch as [|b ch]; [reflexivity|].
  change (resend_safe safe (a :: b :: ch)) with ((is_dead a || safe) && resend_safe safe (b :: ch)).
  rewrite (H 0%nat a b eq_refl eq_refl). cbn [andb]. apply IH.
  intros k x y Hx Hy. apply (H (S k) x y); assumption.
Qed.

Lemma cross_ok_intro rm first ch : forall j,
  (forall k b, nth_error ch k = Some b -> rm < j + Z.of_nat k -> sub_of b <> first) ->
  cross_ok rm j first ch = true.
Proof.
  induction ch as [|b ch IH]; intros j H; [reflexivity|].
  cbn [cross_ok]. apply andb_true_iff. split.
  - destruct (rm <? j) eqn:E; [|reflexivity]. apply Z.ltb_lt in E.
    apply negb_true_iff. apply Z.eqb_neq. apply (H 0%nat b eq_refl). lia.
  - apply IH. intros k x Hx Hk. apply (H (S k) x Hx). lia.
Qed.

Lemma filter_length_pointwise {A B} (f : A -> bool) (g : B -> bool) (l1 : list A) : forall (l2 : list B),
  length l1 = length l2 ->
  (forall k a b, nth_error l1 k = Some a -> nth_error l2 k = Some b -> f a = g b) ->
  length (filter f l1) = length (filter g l2).
Proof.
  induction l1 as [|a l1 IH]; intros [|b l2] HL H; try discriminate; [reflexivity|].
  cbn [filter]. rewrite (H 0%nat a b eq_refl eq_refl).
  assert (R : length (filter f l1) = length (filter g l2)).
  { apply IH; [cbn in HL; lia|]. intros k x y Hx Hy. apply (H (S k) x y); assumption. }
  destruct (g b); cbn [length]; rewrite R; reflexivity.
Qed.

Lemma forallb_combine_nth {A B} (P : A * B -> bool) (l1 : list A) : forall (l2 : list B),
  forallb P (combine l1 l2) = true ->
  forall k a b, nth_error l1 k = Some a -> nth_error l2 k = Some b -> P (a, b) = true.
Proof.
  induction l1 as [|x l1 IH]; intros [|y l2] H k a b Ha Hb; try (destruct k; discriminate).
  cbn [combine forallb] in H. apply andb_true_iff in H. destruct H as [H1 H2].
  destruct k as [|k]; cbn [nth_error] in *; [inversion Ha; inversion Hb; subst; exact H1|].
  eapply IH; eassumption.
Qed.

(* ---- the theorem ---- *)
(* model_obs with the loop bound as a parameter (so that the literal 20 is never unfolded during the proof) *)
Definition model_obs_f (fuel : nat) (i : c08_input) (choices : list Z) : option val :=
  let outs := outs_of choices (i_steps i) in
  let atts := retry_loop fuel (i_cfg i) (i_req i) 0 (map (fun p => EvAttempt false (fst p)) outs) in
  let n := length atts in
  let ch := firstn n choices in
  if forallb (fun p => let '(b, a) := p in
                       (0 <=? b) && (b <=? 4) &&
                       (if is_cross (i_cfg i) a then negb (sub_of b =? 0) else sub_of b =? 0))
             (combine ch atts)
  then
    let status := match last (firstn n outs) (Other, 500) with (Ok, s) => s | _ => 500 end in
    Some (VL [vLZ ch; vLZ (filter (fun b => negb (is_dead b)) ch); VZ status])
  else None.

Lemma model_obs_eq i choices : model_obs i choices = model_obs_f 20 i choices.
Proof. unfold model_obs, model_obs_f, attempts. reflexivity. Qed.

Lemma prop_of_model_f fuel i choices o :
  (fuel <= 20)%nat ->
  0 <= retry_max (i_cfg i) -> 0 <= cross_retry (i_cfg i) ->
  model_obs_f fuel i choices = Some o -> prop_body i o = true.
Proof.
  intros Hfuel Hrm Hcr H. unfold model_obs_f in H.
  set (outs := outs_of choices (i_steps i)) in *.
  assert (Hev : map (fun p : outcome * Z => EvAttempt false (fst p)) outs = map (EvAttempt false) (map fst outs))
    by (rewrite map_map; reflexivity).
  rewrite Hev in H. set (os := map fst outs) in *.
  set (c := i_cfg i) in *. set (r := i_req i) in *.
  set (atts := retry_loop fuel c r 0 (map (EvAttempt false) os)) in *.
  set (n := length atts) in *. set (ch := firstn n choices) in *.
  destruct (forallb _ (combine ch atts)) eqn:V; [|discriminate].
  inversion H; subst o; clear H.
  (* basic facts *)
  assert (Hn : (n <= length choices)%nat).
  { unfold n, atts. pose proof (loop_pure_length fuel c r 0 os) as L.
    unfold os in L at 2. rewrite map_length in L. unfold outs in L. rewrite outs_of_length in L. exact L. }
  assert (Hlen : length ch = n) by (unfold ch; rewrite firstn_length; lia).
  assert (Hatt : forall k a, nth_error atts k = Some a -> fst a = Z.of_nat k /\ nth_error os k = Some (snd a)).
  { intros k a Ha. unfold atts in Ha. destruct (loop_pure fuel c r 0 os k a Ha) as [H1 H2]. split; [lia|exact H2]. }
  assert (Hch : forall k b, nth_error ch k = Some b -> nth_error choices k = Some b /\ exists a, nth_error atts k = Some a).
  { intros k b Hb. assert (Hk : (k < n)%nat) by (rewrite <- Hlen; apply nth_error_Some; congruence).
    unfold ch in Hb. rewrite nth_error_firstn_lt in Hb by exact Hk. split; [exact Hb|].
    destruct (nth_error atts k) as [a|] eqn:E; [eauto|]. apply nth_error_None in E. unfold n in Hk. lia. }
  assert (Hlink : forall k b a, nth_error ch k = Some b -> nth_error atts k = Some a ->
                                (snd a = ConnectErr <-> is_dead b = true)).
  { intros k b a Hb Ha. destruct (Hch k b Hb) as [Hc _]. destruct (Hatt k a Ha) as [_ Ho].
    destruct (outs_of_nth choices (i_steps i) k b Hc) as [o [No [Hd _]]]. fold outs in No.
    unfold os in Ho. rewrite nth_error_map, No in Ho. cbn in Ho. injection Ho as Heq. rewrite <- Heq. exact Hd. }
  unfold prop_body. rewrite !as_LZ_vLZ. fold c. fold r.
  repeat (apply andb_true_iff; split).
  - (* bounded *)
    apply Z.leb_le. rewrite Hlen. unfold n, atts.
    pose proof (bounded_fuel fuel c r (map (EvAttempt false) os) Hrm Hcr) as B. lia.
  - (* resend only if safe *)
    apply resend_safe_intro. intros k a b Ha Hb.
    destruct (Hch k a Ha) as [_ [x Hx]]. destruct (Hch (S k) b Hb) as [_ [y Hy]].
    destruct (resend_fuel fuel c r 0 _ k x y Hx Hy) as [Hce|[Hg [Hbl Hl]]].
    + apply (Hlink k a x Ha Hx) in Hce. rewrite Hce. reflexivity.
    + rewrite Hg, Hbl, Hl. cbn. apply orb_true_r.
  - (* never replayed *)
    destruct ((retry_level c =? 1) && is_get r && bodyless r) eqn:S; [reflexivity|]. cbn [orb].
    apply Z.leb_le.
    assert (NR : (length (filter past_connect atts) <= 1)%nat).
    { apply loop_no_replay. unfold check_allow_retry, RetryGet. exact S. }
    rewrite (filter_length_pointwise (fun b => negb (is_dead b)) past_connect ch atts); [lia|unfold n in Hlen; exact Hlen|].
    intros k a x Ha Hx. pose proof (Hlink k a x Ha Hx) as L. unfold past_connect.
    destruct (is_dead a); destruct (snd x); cbn; try reflexivity;
      try (destruct L as [L1 L2]; (discriminate (L2 eq_refl) || discriminate (L1 eq_refl))).
  - (* saw = live attempts *) apply list_Z_eqb_refl.
  - (* range *)
    apply forallb_forall. intros b Hb. apply In_nth_error in Hb. destruct Hb as [k Hb].
    destruct (Hch k b Hb) as [_ [a Ha]].
    pose proof (forallb_combine_nth _ ch atts V k b a Hb Ha) as P. cbn in P.
    apply andb_true_iff in P. exact (proj1 P).
  - (* cross attempts leave the first sub-cluster *)
    assert (F0 : match ch with b :: _ => sub_of b | [] => 0 end = 0).
    { destruct ch as [|b0 ch'] eqn:E; [reflexivity|].
      destruct (Hch 0%nat b0 eq_refl) as [_ [a Ha]]. destruct (Hatt 0%nat a Ha) as [Hf _].
      pose proof (forallb_combine_nth _ (b0 :: ch') atts V 0%nat b0 a eq_refl Ha) as P. cbn in P.
      apply andb_true_iff in P. destruct P as [_ P]. unfold is_cross in P. rewrite Hf in P. cbn in P.
      destruct (retry_max c <? 0) eqn:B; [apply Z.ltb_lt in B; lia|]. apply Z.eqb_eq in P. exact P. }
    rewrite F0. apply cross_ok_intro. intros k b Hb Hk.
    destruct (Hch k b Hb) as [_ [a Ha]]. destruct (Hatt k a Ha) as [Hf _].
    pose proof (forallb_combine_nth _ ch atts V k b a Hb Ha) as P. cbn in P.
    apply andb_true_iff in P. destruct P as [_ P]. unfold is_cross in P. rewrite Hf in P.
    destruct (retry_max c <? Z.of_nat k) eqn:B; [|apply Z.ltb_ge in B; lia].
    apply negb_true_iff in P. apply Z.eqb_neq in P. exact P.
  - (* status *)
    apply Z.leb_le.
    destruct (last_cases (firstn n outs) (Other, 500)) as [L|L].
    + rewrite L. lia.
    + apply In_firstn in L. apply outs_of_status in L.
      destruct (last (firstn n outs) (Other, 500)) as [o s]. cbn in L. destruct o; lia.
Qed.

Theorem prop_of_model i choices o :
  0 <= retry_max (i_cfg i) -> 0 <= cross_retry (i_cfg i) ->
  model_obs i choices = Some o -> prop_body i o = true.
Proof. intros Hm Hc H. rewrite model_obs_eq in H. apply (prop_of_model_f 20 i choices o); auto. Qed.

(* corollary through the wire functions: the model's own output satisfies the property *)
Corollary prop_of_run v i :
  decode_C08 v = Some i -> i_topo i = 0 -> 0 <= retry_max (i_cfg i) -> 0 <= cross_retry (i_cfg i) ->
  run_C08 v <> VErr 1 -> prop_C08 v (run_C08 v) = true.
Proof.
  intros D T Hm Hc Hne. unfold prop_C08, run_C08, model_any in *. rewrite D in *. rewrite T in *. rewrite !Z.eqb_refl in *.
  destruct (model_obs i (default_choices i)) as [o|] eqn:M; [|congruence].
  eapply prop_of_model; eassumption.
Qed.

(* ------------------------------------------------------------------------------------------------
   topologies 1 and 2 (the in-cluster selection always fails): prop_body_x holds of every observation model_obs_x allows *)
Lemma loop_pure_j j fuel c r : forall rt os k a,
  nth_error (retry_loop fuel c r rt (map (EvAttempt j) os)) k = Some a -> nth_error os k = Some (snd a).
Proof.
  induction fuel as [|f IH]; intros rt os k a H; cbn [retry_loop] in H; [destruct k; discriminate|].
  destruct (retry_max c + cross_retry c <? rt); [destruct k; discriminate|].
  destruct os as [|o os]; cbn [map] in H; [destruct k; discriminate|].
  destruct k as [|k].
  - cbn [nth_error] in H. inversion H; subst. reflexivity.
  - cbn [nth_error] in H |- *. destruct (allow_retry c r o); [|destruct k; discriminate]. eapply IH; exact H.
Qed.

Lemma loop_pure_length_j j fuel c r : forall rt os,
  (length (retry_loop fuel c r rt (map (EvAttempt j) os)) <= length os)%nat.
Proof.
  induction fuel as [|f IH]; intros rt os; cbn [retry_loop]; [cbn; lia|].
  destruct (retry_max c + cross_retry c <? rt); [cbn; lia|].
  destruct os as [|o os]; cbn [map]; [cbn; lia|].
  destruct (allow_retry c r o); cbn [length]; [specialize (IH ((if j then raise c rt else rt) + 1) os); lia|lia].
Qed.

(* after a failed in-cluster selection every attempt runs with RetryTime >= RetryMax *)
Lemma loop_jump_lower fuel c r : forall rt os,
  Forall (fun a => retry_max c <= fst a) (retry_loop fuel c r rt (map (EvAttempt true) os)).
Proof.
  induction fuel as [|f IH]; intros rt os; cbn [retry_loop]; [constructor|].
  destruct (retry_max c + cross_retry c <? rt); [constructor|].
  destruct os as [|o os]; cbn [map]; [constructor|].
  assert (R : retry_max c <= raise c rt).
  { unfold raise. destruct (rt <=? retry_max c) eqn:E; [lia|apply Z.leb_gt in E; lia]. }
  destruct (allow_retry c r o); constructor; try (cbn; exact R); [apply IH|constructor].
Qed.

Lemma loop_cross_only fuel c r : forall rt k, retry_loop fuel c r rt (repeat EvCrossBalance k) = [].
Proof.
  induction fuel as [|f IH]; intros rt k; cbn [retry_loop]; [reflexivity|].
  destruct (retry_max c + cross_retry c <? rt); [reflexivity|].
  destruct k as [|k]; cbn [repeat]; [reflexivity|apply IH].
Qed.

Lemma outs_of_x_length choices : forall steps, length (outs_of_x choices steps) = length choices.
Proof. induction choices as [|b ch IH]; intro steps; cbn [outs_of_x]; [reflexivity|]. destruct (is_dead_x b); cbn [length]; rewrite IH; reflexivity. Qed.

Lemma outs_of_x_nth choices : forall steps k b,
  nth_error choices k = Some b ->
  exists o, nth_error (outs_of_x choices steps) k = Some o /\ (fst o = ConnectErr <-> is_dead_x b = true)
            /\ (snd o = 200 \/ snd o = 500).
Proof.
  induction choices as [|b0 ch IH]; intros steps k b H; [destruct k; discriminate|].
  cbn [outs_of_x]. destruct k as [|k].
  - cbn [nth_error] in H. inversion H; subst b0. destruct (is_dead_x b) eqn:D.
    + eexists. split; [reflexivity|]. cbn. split; [tauto|right; reflexivity].
    + eexists. split; [reflexivity|]. apply step_outcome_spec.
  - cbn [nth_error] in H. destruct (is_dead_x b0); cbn [nth_error]; eapply IH; exact H.
Qed.

Lemma outs_of_x_status choices : forall steps o, In o (outs_of_x choices steps) -> snd o = 200 \/ snd o = 500.
Proof.
  intros steps o H. apply In_nth_error in H. destruct H as [k H].
  assert (Hk : (k < length choices)%nat).
  { rewrite <- (outs_of_x_length choices steps). apply nth_error_Some. congruence. }
  destruct (nth_error choices k) as [b|] eqn:E; [|apply nth_error_None in E; lia].
  destruct (outs_of_x_nth choices steps k b E) as [o' [H1 [_ H3]]]. congruence.
Qed.

Lemma resend_safe_x_intro safe ch :
  (forall k a b, nth_error ch k = Some a -> nth_error ch (S k) = Some b -> is_dead_x a || safe = true) ->
  resend_safe_x safe ch = true.
Proof.
  induction ch as [|a ch IH]; intro H; [reflexivity|].
  destruct ch as [|b ch]; [reflexivity|].
  change (resend_safe_x safe (a :: b :: ch)) with ((is_dead_x a || safe) && resend_safe_x safe (b :: ch)).
  rewrite (H 0%nat a b eq_refl eq_refl). cbn [andb]. apply IH.
  intros k x y Hx Hy. apply (H (S k) x y); assumption.
Qed.

Definition events_x_f (i : c08_input) (outs : list (outcome * Z)) : list event := events_x i outs.

Definition model_obs_x_f (fuel : nat) (i : c08_input) (choices : list Z) : option val :=
  let outs := outs_of_x choices (i_steps i) in
  let atts := retry_loop fuel (i_cfg i) (i_req i) 0 (events_x i outs) in
  let n := length atts in
  let ch := firstn n choices in
  if forallb (fun b => (b =? 5) || (b =? 6)) ch && (length ch =? n)%nat
  then
    let status := match last (firstn n outs) (Other, 500) with (Ok, s) => s | _ => 500 end in
    Some (VL [vLZ ch; vLZ (filter (fun b => negb (is_dead_x b)) ch); VZ status])
  else None.

Lemma model_obs_x_eq i choices : model_obs_x i choices = model_obs_x_f 20 i choices.
Proof. unfold model_obs_x, model_obs_x_f, attempts. reflexivity. Qed.

Lemma prop_of_model_x_f fuel i choices o :
  (fuel <= 20)%nat ->
  0 <= retry_max (i_cfg i) -> 0 <= cross_retry (i_cfg i) ->
  model_obs_x_f fuel i choices = Some o -> prop_body_x i o = true.
Proof.
  intros Hfuel Hrm Hcr H. unfold model_obs_x_f in H.
  set (outs := outs_of_x choices (i_steps i)) in *.
  set (c := i_cfg i) in *. set (r := i_req i) in *.
  set (atts := retry_loop fuel c r 0 (events_x i outs)) in *.
  set (n := length atts) in *. set (ch := firstn n choices) in *.
  destruct (forallb (fun b => (b =? 5) || (b =? 6)) ch && (length ch =? n)%nat) eqn:V; [|discriminate].
  apply andb_true_iff in V. destruct V as [V1 V2]. apply Nat.eqb_eq in V2.
  inversion H; subst o; clear H.
  (* the three shapes of the event stream *)
  assert (Shape : (atts = [] /\ ((i_topo i =? 2) || (cross_retry c <=? 0)) = true)
                  \/ (((i_topo i =? 2) || (cross_retry c <=? 0)) = false
                      /\ atts = retry_loop fuel c r 0 (map (EvAttempt true) (map fst outs)))).
  { unfold atts, events_x. fold c. destruct (i_topo i =? 2) eqn:T2.
    - left. split; [apply loop_cross_only|reflexivity].
    - destruct (cross_retry c <=? 0) eqn:C0.
      + left. split; [|reflexivity]. destruct fuel; [reflexivity|]. cbn [retry_loop].
        destruct (retry_max c + cross_retry c <? 0); reflexivity.
      + right. split; [reflexivity|]. rewrite map_map. reflexivity. }
  unfold prop_body_x. rewrite !as_LZ_vLZ. fold c. fold r.
  destruct Shape as [[Ha Hg]|[Hg Ha]].
  - (* no attempt at all *)
    assert (Hn : n = 0%nat) by (unfold n; rewrite Ha; reflexivity).
    assert (Hch : ch = []) by (unfold ch; rewrite Hn; reflexivity).
    rewrite Hch, Hg. cbn [length filter resend_safe_x forallb list_Z_eqb Z.of_nat].
    rewrite Hn. cbn [firstn last].
    assert (B : (0 <=? Z.min 20 (1 + retry_max c + cross_retry c)) = true) by (apply Z.leb_le; lia).
    rewrite B. cbn. rewrite orb_true_r. reflexivity.
  - set (os := map fst outs) in *.
    assert (Hatt : forall k a, nth_error atts k = Some a -> nth_error os k = Some (snd a)).
    { intros k a Hk. rewrite Ha in Hk. eapply loop_pure_j; exact Hk. }
    assert (Hchn : forall k b, nth_error ch k = Some b -> nth_error choices k = Some b /\ exists a, nth_error atts k = Some a).
    { intros k b Hb. assert (Hk : (k < n)%nat) by (rewrite <- V2; apply nth_error_Some; congruence).
      unfold ch in Hb. rewrite nth_error_firstn_lt in Hb by exact Hk. split; [exact Hb|].
      destruct (nth_error atts k) as [a|] eqn:E; [eauto|]. apply nth_error_None in E. unfold n in Hk. lia. }
    assert (Hlink : forall k b a, nth_error ch k = Some b -> nth_error atts k = Some a ->
                                  (snd a = ConnectErr <-> is_dead_x b = true)).
    { intros k b a Hb Hk. destruct (Hchn k b Hb) as [Hc _]. pose proof (Hatt k a Hk) as Ho.
      destruct (outs_of_x_nth choices (i_steps i) k b Hc) as [o [No [Hd _]]]. fold outs in No.
      unfold os in Ho. rewrite nth_error_map, No in Ho. cbn in Ho. injection Ho as Heq. rewrite <- Heq. exact Hd. }
    rewrite Hg.
    repeat (apply andb_true_iff; split).
    + apply Z.leb_le. rewrite V2. unfold n. rewrite Ha.
      pose proof (bounded_fuel fuel c r (map (EvAttempt true) os) Hrm Hcr) as B. lia.
    + (* at most CrossRetry + 1 attempts *)
      apply Z.leb_le. rewrite V2. unfold n. rewrite Ha.
      destruct (loop_times fuel c r 0 (map (EvAttempt true) os) Hcr) as [F S].
      pose proof (loop_jump_lower fuel c r 0 os) as L.
      assert (F' : Forall (fun a => retry_max c <= fst a <= retry_max c + cross_retry c)
                          (retry_loop fuel c r 0 (map (EvAttempt true) os))).
      { rewrite Forall_forall in *. intros a Hin. specialize (F a Hin). specialize (L a Hin). lia. }
      pose proof (sorted_bounded_length _ (retry_max c) (retry_max c + cross_retry c) F' S). lia.
    + apply resend_safe_x_intro. intros k a b Hka Hkb.
      destruct (Hchn k a Hka) as [_ [x Hx]]. destruct (Hchn (S k) b Hkb) as [_ [y Hy]].
      pose proof Hx as Hx'. pose proof Hy as Hy'. rewrite Ha in Hx', Hy'.
      destruct (resend_fuel fuel c r 0 _ k x y Hx' Hy') as [Hce|[Hgt [Hbl Hl]]].
      * apply (Hlink k a x Hka Hx) in Hce. rewrite Hce. reflexivity.
      * rewrite Hgt, Hbl, Hl. cbn. apply orb_true_r.
    + destruct ((retry_level c =? 1) && is_get r && bodyless r) eqn:S; [reflexivity|]. cbn [orb].
      apply Z.leb_le.
      assert (NR : (length (filter past_connect atts) <= 1)%nat).
      { rewrite Ha. apply loop_no_replay. unfold check_allow_retry, RetryGet. exact S. }
      rewrite (filter_length_pointwise (fun b => negb (is_dead_x b)) past_connect ch atts); [lia|exact V2|].
      intros k a x Hka Hx. pose proof (Hlink k a x Hka Hx) as L. unfold past_connect.
      destruct (is_dead_x a); destruct (snd x); cbn; try reflexivity;
        try (destruct L as [L1 L2]; (discriminate (L2 eq_refl) || discriminate (L1 eq_refl))).
    + apply list_Z_eqb_refl.
    + exact V1.
    + apply Z.leb_le.
      destruct (last_cases (firstn n outs) (Other, 500)) as [L|L].
      * rewrite L. lia.
      * apply In_firstn in L. apply outs_of_x_status in L.
        destruct (last (firstn n outs) (Other, 500)) as [o s]. cbn in L. destruct o; lia.
Qed.

Theorem prop_of_model_x i choices o :
  0 <= retry_max (i_cfg i) -> 0 <= cross_retry (i_cfg i) ->
  model_obs_x i choices = Some o -> prop_body_x i o = true.
Proof. intros Hm Hc H. rewrite model_obs_x_eq in H. apply (prop_of_model_x_f 20 i choices o); auto. Qed.
