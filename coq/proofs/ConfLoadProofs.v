(* Lemmas about the configuration loader model (C13, C14). *)
From Coq Require Import List ZArith Bool Lia Permutation Sorted.
From Bfe Require Import lib.Val lib.ValProofs lib.Bytes model.ConfLoad model.ConfLoadWire.
Import ListNotations.
Open Scope Z_scope.

(* ------------------------------------------------------------------ strings, membership, association lists *)
Lemma seqb_eq a b : seqb a b = true <-> a = b.
Proof. apply list_Z_eqb_eq. Qed.
Lemma seqb_refl a : seqb a a = true.
Proof. apply seqb_eq. reflexivity. Qed.
Lemma seqb_neq a b : seqb a b = false <-> a <> b.
Proof.
  split; intro H.
  - intro E. apply seqb_eq in E. congruence.
  - destruct (seqb a b) eqn:E; [apply seqb_eq in E; contradiction | reflexivity].
Qed.
Lemma seqb_sym a b : seqb a b = seqb b a.
Proof.
  destruct (seqb a b) eqn:E.
  - apply seqb_eq in E. subst. symmetry. apply seqb_refl.
  - apply seqb_neq in E. symmetry. apply seqb_neq. congruence.
Qed.

Lemma mem_str_In s l : mem_str s l = true <-> In s l.
Proof.
  unfold mem_str. rewrite existsb_exists. split.
  - intros [x [Hin He]]. apply seqb_eq in He. subst. exact Hin.
  - intro Hin. exists s. split; [exact Hin | apply seqb_refl].
Qed.
Lemma mem_str_false s l : mem_str s l = false <-> ~ In s l.
Proof.
  split; intro H.
  - intro Hin. apply mem_str_In in Hin. congruence.
  - destruct (mem_str s l) eqn:E; [apply mem_str_In in E; contradiction | reflexivity].
Qed.
Lemma nodup_str_NoDup l : nodup_str l = true <-> NoDup l.
Proof.
  induction l as [|x l IH]; simpl.
  - split; intro; [constructor | reflexivity].
  - rewrite andb_true_iff, negb_true_iff, mem_str_false, IH. split.
    + intros [H1 H2]. constructor; assumption.
    + intro H. inversion H; subst. split; assumption.
Qed.

Lemma assoc_In {A} k (l : list (str * A)) v : assoc k l = Some v -> In (k, v) l.
Proof.
  induction l as [|[k' v'] l IH]; simpl; intro H; [discriminate|].
  destruct (seqb k k') eqn:E.
  - apply seqb_eq in E. inversion H; subst. left. reflexivity.
  - right. apply IH. exact H.
Qed.
Lemma assoc_None {A} k (l : list (str * A)) : assoc k l = None <-> ~ In k (map fst l).
Proof.
  induction l as [|[k' v'] l IH]; simpl.
  - split; intro; [tauto | reflexivity].
  - destruct (seqb k k') eqn:E.
    + apply seqb_eq in E. subst. split; intro H; [discriminate | exfalso; apply H; left; reflexivity].
    + apply seqb_neq in E. rewrite IH. split; intro H.
      * intros [H1 | H1]; [congruence | contradiction].
      * intro H1. apply H. right. exact H1.
Qed.
Lemma assoc_some_iff {A} k (l : list (str * A)) : (exists v, assoc k l = Some v) <-> In k (map fst l).
Proof.
  split.
  - intros [v H]. apply assoc_In in H. apply in_map_iff. exists (k, v). split; [reflexivity | exact H].
  - intro H. destruct (assoc k l) eqn:E; [eauto|]. apply assoc_None in E. contradiction.
Qed.
Lemma assoc_nodup {A} k v (l : list (str * A)) : NoDup (map fst l) -> In (k, v) l -> assoc k l = Some v.
Proof.
  induction l as [|[k' v'] l IH]; simpl; intros Hnd Hin; [contradiction|].
  inversion Hnd as [|? ? Hni Hnd']; subst.
  destruct Hin as [Heq | Hin].
  - inversion Heq; subst. rewrite seqb_refl. reflexivity.
  - destruct (seqb k k') eqn:E.
    + apply seqb_eq in E. subst. exfalso. apply Hni. apply in_map_iff. exists (k', v). split; [reflexivity | exact Hin].
    + apply IH; assumption.
Qed.
Lemma assoc_perm {A} k (l l' : list (str * A)) :
  NoDup (map fst l) -> Permutation l l' -> assoc k l = assoc k l'.
Proof.
  intros Hnd Hp.
  assert (Hnd' : NoDup (map fst l')) by (eapply Permutation_NoDup; [apply Permutation_map; exact Hp | exact Hnd]).
  destruct (assoc k l) eqn:E.
  - apply assoc_In in E. symmetry. apply assoc_nodup; [exact Hnd' | eapply Permutation_in; eassumption].
  - symmetry. apply assoc_None. apply assoc_None in E. intro H. apply E.
    eapply Permutation_in; [apply Permutation_sym; apply Permutation_map; exact Hp | exact H].
Qed.
Lemma assoc_last_perm {A} k (l l' : list (str * A)) :
  NoDup (map fst l) -> Permutation l l' -> assoc_last k l = assoc_last k l'.
Proof.
  intros Hnd Hp. unfold assoc_last. apply assoc_perm.
  - rewrite map_rev. apply NoDup_rev. exact Hnd.
  - eapply Permutation_trans; [apply Permutation_sym; apply Permutation_rev|].
    eapply Permutation_trans; [exact Hp | apply Permutation_rev].
Qed.
Lemma assoc_last_In {A} k (l : list (str * A)) v : assoc_last k l = Some v -> In (k, v) l.
Proof. unfold assoc_last. intro H. apply assoc_In in H. apply in_rev. exact H. Qed.
Lemma assoc_last_some {A} k (l : list (str * A)) : In k (map fst l) -> exists v, assoc_last k l = Some v.
Proof.
  intro H. unfold assoc_last. apply assoc_some_iff. rewrite map_rev. apply in_rev. rewrite rev_involutive. exact H.
Qed.

Lemma forallb_perm {A} (f : A -> bool) l l' : Permutation l l' -> forallb f l = forallb f l'.
Proof.
  induction 1; simpl; try congruence.
  - destruct (f y), (f x); reflexivity.
Qed.
Lemma existsb_perm {A} (f : A -> bool) l l' : Permutation l l' -> existsb f l = existsb f l'.
Proof.
  induction 1; simpl; try congruence.
  - destruct (f y), (f x); reflexivity.
Qed.
Lemma forallb_ext_in {A} (f g : A -> bool) l : (forall x, In x l -> f x = g x) -> forallb f l = forallb g l.
Proof.
  induction l as [|x l IH]; simpl; intro H; [reflexivity|].
  rewrite (H x (or_introl eq_refl)), IH; [reflexivity|]. intros y Hy. apply H. right. exact Hy.
Qed.
Lemma mem_str_perm s l l' : Permutation l l' -> mem_str s l = mem_str s l'.
Proof. apply existsb_perm. Qed.
Lemma NoDup_map_inv' {A B} (f : A -> B) l : NoDup (map f l) -> NoDup l.
Proof.
  induction l as [|x l IH]; simpl; intro H; [constructor|].
  inversion H; subst. constructor; [|apply IH; assumption].
  intro Hin. apply H2. apply in_map. exact Hin.
Qed.
Lemma Permutation_flat_map' {A B} (f : A -> list B) l l' : Permutation l l' -> Permutation (flat_map f l) (flat_map f l').
Proof.
  induction 1; simpl.
  - constructor.
  - apply Permutation_app_head. assumption.
  - rewrite !app_assoc. apply Permutation_app_tail. apply Permutation_app_comm.
  - eapply Permutation_trans; eassumption.
Qed.

(* ------------------------------------------------------------------ inversion of the loaders *)
Lemma host_conf_load_inv f hc : host_conf_load f = Some hc ->
  host_conf_check f = true /\ hc_tagmap hc = flat_tags (olist (hf_tags f)) /\ hc_default hc = odef [] (hf_default f)
  /\ host_map_build [] (flat_hosts (olist (hf_hosts f))) = Some (hc_hostmap hc).
Proof.
  unfold host_conf_load. destruct (host_conf_check f); [|discriminate].
  destruct (host_map_build [] (flat_hosts (olist (hf_hosts f)))) as [hm|]; [|discriminate].
  intro H. inversion H; subst; simpl. repeat split.
Qed.

Lemma load_with_inv pick fs t : load_with pick fs = Some t ->
  exists hc vm cl,
    host_conf_load (fs_host fs) = Some hc /\ vip_conf_load (fs_vip fs) = Some vm
    /\ route_conf_check (fs_route fs) = true /\ cluster_conf_load (fs_cluster fs) = Some cl
    /\ sdc_check (hc_tagmap hc) (fs_route fs) cl = true
    /\ t = {| tb_default := hc_default hc;
              tb_hostroute := build_host_route (hc_tagmap hc) (pick (map_entries [] (hc_hostmap hc)));
              tb_tagmap := hc_tagmap hc; tb_vipmap := vm; tb_route := fs_route fs; tb_clusters := cl |}.
Proof.
  unfold load_with.
  destruct (host_conf_load (fs_host fs)) as [hc|]; [|discriminate].
  destruct (vip_conf_load (fs_vip fs)) as [vm|]; [|discriminate].
  destruct (route_conf_check (fs_route fs)); [|discriminate].
  destruct (cluster_conf_load (fs_cluster fs)) as [cl|]; [|discriminate].
  destruct (sdc_check (hc_tagmap hc) (fs_route fs) cl) eqn:Hc; [|discriminate].
  intro H. inversion H; subst. exists hc, vm, cl. repeat split; auto.
Qed.

Lemma cluster_conf_load_names f cl : cluster_conf_load f = Some cl -> cl = map fst (olist (cf_config f)).
Proof.
  unfold cluster_conf_load. destruct (cf_version f); [|discriminate]. destruct (cf_config f) as [cfg|]; [|discriminate].
  destruct (forallb _ cfg); [|discriminate]. intro H. inversion H. reflexivity.
Qed.

Lemma flat_tags_In tags t p : In (t, p) (flat_tags tags) <-> exists l, In (p, Some l) tags /\ In t l.
Proof.
  unfold flat_tags. rewrite in_flat_map. split.
  - intros [[p' ol] [He H]]. apply in_map_iff in H. destruct H as [x [Hx Hin]]. simpl in *. inversion Hx; subst.
    destruct ol as [l|]; simpl in Hin; [|contradiction]. exists l. split; assumption.
  - intros [l [He Hin]]. exists (p, Some l). split; [exact He|]. simpl. apply in_map_iff. exists t. split; [reflexivity | exact Hin].
Qed.
Lemma flat_tags_product tags t p : In (t, p) (flat_tags tags) -> In p (map fst tags).
Proof.
  intro H. apply flat_tags_In in H. destruct H as [l [He _]]. apply in_map_iff. exists (p, Some l). split; [reflexivity | exact He].
Qed.
Lemma tagmap_products_In tm p : In p (tagmap_products tm) -> exists t, In (t, p) tm.
Proof.
  unfold tagmap_products. intro H. apply in_map_iff in H. destruct H as [[t p0] [Hp Hin]]. simpl in Hp.
  destruct (assoc_last_some t tm) as [v Hv].
  - apply in_map_iff. exists (t, p0). split; [reflexivity | exact Hin].
  - rewrite Hv in Hp. simpl in Hp. subst. exists t. apply assoc_last_In. exact Hv.
Qed.

(* ------------------------------------------------------------------ C13: accepted => closed *)
Lemma accepted_is_closed fs : accepted fs = true -> closed fs = true.
Proof.
  unfold accepted, load. destruct (load_with (fun l => l) fs) as [tb|] eqn:Hl; [|discriminate]. intros _.
  apply load_with_inv in Hl. destruct Hl as [hc [vm [cl [Hh [_ [_ [Hc [Hs _]]]]]]]].
  apply host_conf_load_inv in Hh. destruct Hh as [Hchk [Htm _]].
  apply cluster_conf_load_names in Hc. rewrite Htm in Hs.
  unfold sdc_check in Hs. apply andb_true_iff in Hs. destruct Hs as [Hs Hb]. apply andb_true_iff in Hs. destruct Hs as [Hp Ha].
  unfold host_conf_check in Hchk.
  destruct (hf_version (fs_host fs)); [|discriminate].
  destruct (hf_hosts (fs_host fs)) as [hosts|] eqn:Ehosts; [|discriminate].
  destruct (hf_tags (fs_host fs)) as [tags|] eqn:Etags; [|discriminate].
  apply andb_true_iff in Hchk. destruct Hchk as [Hchk Hdef]. apply andb_true_iff in Hchk. destruct Hchk as [_ Hht].
  unfold closed, defined_products, defined_tags, defined_clusters. rewrite Etags, Ehosts. simpl olist in *.
  repeat (apply andb_true_iff; split).
  - apply forallb_forall. intros p Hin. rewrite forallb_forall in Hp. specialize (Hp p Hin).
    apply mem_str_In in Hp. apply tagmap_products_In in Hp. destruct Hp as [t Ht].
    apply mem_str_In. eapply flat_tags_product. exact Ht.
  - destruct (hf_default (fs_host fs)) as [d|]; [|reflexivity].
    destruct (assoc d tags) eqn:E; [|discriminate]. apply mem_str_In. apply assoc_In in E.
    apply in_map_iff. exists (d, o). split; [reflexivity | exact E].
  - apply forallb_forall. intros t Hin. apply in_map_iff in Hin. destruct Hin as [[t' ol] [Ht Hin]]. simpl in Ht. subst t'.
    rewrite forallb_forall in Hht. specialize (Hht _ Hin). simpl in Hht. destruct ol as [l|]; [|discriminate].
    apply existsb_exists in Hht. destruct Hht as [[p opl] [Hpe Hm]]. simpl in Hm. apply mem_str_In in Hm.
    apply mem_str_In. apply in_map_iff. exists (t, p). split; [reflexivity|].
    apply flat_tags_In. destruct opl as [pl|]; simpl in Hm; [|contradiction]. exists pl. split; assumption.
  - rewrite <- Hc. exact Ha.
  - apply forallb_forall. intros c Hin. destruct (seqb c ADVANCED_MODE) eqn:E; [apply orb_true_r|]. rewrite orb_false_r.
    rewrite <- Hc. rewrite forallb_forall in Hb. apply Hb.
    unfold basic_clusters_checked. apply in_flat_map in Hin. destruct Hin as [e [He Hin]].
    apply in_map_iff in Hin. destruct Hin as [r [Hr Hin]].
    apply in_flat_map. exists e. split; [exact He|]. apply in_flat_map. exists r. split; [exact Hin|].
    rewrite Hr, E. left. reflexivity.
Qed.

(* ------------------------------------------------------------------ C14: independence of map iteration order *)
Lemma perm_opt_olist {A} (a b : option (list A)) : perm_opt a b -> Permutation (olist a) (olist b).
Proof. destruct a, b; simpl; intro H; try contradiction; auto. Qed.

Lemma assoc_is_some_perm {A} d (l l' : list (str * A)) : Permutation l l' ->
  match assoc d l with Some _ => true | None => false end = match assoc d l' with Some _ => true | None => false end.
Proof.
  intro Hp. destruct (assoc d l) eqn:E, (assoc d l') eqn:E'; try reflexivity; exfalso.
  - apply assoc_None in E'. apply E'. eapply Permutation_in; [apply Permutation_map; exact Hp|].
    apply assoc_some_iff. eauto.
  - apply assoc_None in E. apply E. eapply Permutation_in; [apply Permutation_map; apply Permutation_sym; exact Hp|].
    apply assoc_some_iff. eauto.
Qed.

Lemma host_conf_check_perm f f' :
  hf_version f = hf_version f' -> hf_default f = hf_default f' ->
  perm_opt (hf_hosts f) (hf_hosts f') -> perm_opt (hf_tags f) (hf_tags f') ->
  host_conf_check f = host_conf_check f'.
Proof.
  intros Hv Hd Hh Ht. unfold host_conf_check. rewrite <- Hv, <- Hd.
  destruct (hf_version f); [|reflexivity].
  destruct (hf_hosts f) as [hosts|], (hf_hosts f') as [hosts'|]; simpl in Hh; try contradiction; try reflexivity.
  destruct (hf_tags f) as [tags|], (hf_tags f') as [tags'|]; simpl in Ht; try contradiction; try reflexivity.
  f_equal; [f_equal|].
  - apply forallb_perm. exact Ht.
  - rewrite (forallb_perm _ _ _ Hh). apply forallb_ext_in. intros e _. destruct (snd e); [|reflexivity].
    apply existsb_perm. exact Ht.
  - destruct (hf_default f); [|reflexivity]. apply assoc_is_some_perm. exact Ht.
Qed.

Lemma host_map_build_nodup l : forall acc,
  NoDup (map fst l) -> (forall k, In k (map fst l) -> ~ In k (map fst acc)) ->
  host_map_build acc l = Some (rev l ++ acc).
Proof.
  induction l as [|[h t] r IH]; intros acc Hnd Hdis; simpl; [reflexivity|].
  inversion Hnd as [|? ? Hni Hnd']; subst.
  assert (E : assoc h acc = None) by (apply assoc_None; apply Hdis; left; reflexivity).
  rewrite E. rewrite IH.
  - rewrite <- app_assoc. reflexivity.
  - exact Hnd'.
  - intros k Hk [Heq | Hin]; simpl in *.
    + subst. contradiction.
    + apply (Hdis k); [right; exact Hk | exact Hin].
Qed.
Lemma map_entries_nodup l : forall seen,
  NoDup (map fst l) -> (forall k, In k (map fst l) -> ~ In k seen) -> map_entries seen l = l.
Proof.
  induction l as [|[k v] r IH]; intros seen Hnd Hdis; simpl; [reflexivity|].
  inversion Hnd as [|? ? Hni Hnd']; subst.
  assert (E : mem_str k seen = false) by (apply mem_str_false; apply Hdis; left; reflexivity).
  rewrite E. f_equal. apply IH; [exact Hnd'|].
  intros k' Hk [Heq | Hin]; [subst; contradiction | apply (Hdis k'); [right; exact Hk | exact Hin]].
Qed.

Definition FH (fs : files) := flat_hosts (olist (hf_hosts (fs_host fs))).
Definition TM (fs : files) := flat_tags (olist (hf_tags (fs_host fs))).
Definition VM (fs : files) := flat_vips (vf_vips (fs_vip fs)).

Lemma host_keys_FH fs : host_keys fs = map (fun e => host_route_key (fst e)) (FH fs).
Proof. reflexivity. Qed.
Lemma guard_hosts fs : distinct_lower_hosts fs = true -> NoDup (map fst (FH fs)).
Proof.
  intro H. apply nodup_str_NoDup in H. rewrite host_keys_FH in H.
  rewrite <- (map_map fst host_route_key) in H. apply NoDup_map_inv' in H. exact H.
Qed.

Definition the_tables (pick : list (str * str) -> list (str * str)) (fs : files) : tables :=
  {| tb_default := odef [] (hf_default (fs_host fs));
     tb_hostroute := build_host_route (TM fs) (pick (rev (FH fs)));
     tb_tagmap := TM fs; tb_vipmap := VM fs; tb_route := fs_route fs;
     tb_clusters := map fst (olist (cf_config (fs_cluster fs))) |}.
Definition the_checks (fs : files) : bool :=
  host_conf_check (fs_host fs) && vip_conf_check (fs_vip fs) && route_conf_check (fs_route fs)
  && match cluster_conf_load (fs_cluster fs) with Some _ => true | None => false end
  && sdc_check (TM fs) (fs_route fs) (map fst (olist (cf_config (fs_cluster fs)))).

(* closed form of LoadServerDataConf when no host name is repeated *)
Lemma load_with_char pick fs : NoDup (map fst (FH fs)) ->
  load_with pick fs = if the_checks fs then Some (the_tables pick fs) else None.
Proof.
  intro Hnd. unfold load_with, the_checks, host_conf_load.
  destruct (host_conf_check (fs_host fs)); [|reflexivity]. simpl.
  fold (FH fs). rewrite (host_map_build_nodup (FH fs) [] Hnd) by (intros k _ H; exact H).
  rewrite app_nil_r. cbn [hc_tagmap hc_hostmap hc_default].
  unfold vip_conf_load. destruct (vip_conf_check (fs_vip fs)); [|reflexivity]. simpl.
  destruct (route_conf_check (fs_route fs)); [|reflexivity]. simpl.
  destruct (cluster_conf_load (fs_cluster fs)) as [cl|] eqn:Ec; [|reflexivity]. simpl.
  apply cluster_conf_load_names in Ec. subst cl. fold (TM fs).
  destruct (sdc_check (TM fs) (fs_route fs) (map fst (olist (cf_config (fs_cluster fs))))); [|reflexivity].
  unfold the_tables. rewrite map_entries_nodup; [| | intros k _ H; exact H].
  - destruct (hf_default (fs_host fs)); reflexivity.
  - rewrite map_rev. apply NoDup_rev. exact Hnd.
Qed.

Section PermInvariance.
  Variables fs fs' : files.
  Hypothesis Pver : hf_version (fs_host fs) = hf_version (fs_host fs').
  Hypothesis Pdef : hf_default (fs_host fs) = hf_default (fs_host fs').
  Hypothesis Phosts : perm_opt (hf_hosts (fs_host fs)) (hf_hosts (fs_host fs')).
  Hypothesis Ptags : perm_opt (hf_tags (fs_host fs)) (hf_tags (fs_host fs')).
  Hypothesis Pvver : vf_version (fs_vip fs) = vf_version (fs_vip fs').
  Hypothesis Pvips : Permutation (vf_vips (fs_vip fs)) (vf_vips (fs_vip fs')).
  Hypothesis Prver : rf_version (fs_route fs) = rf_version (fs_route fs').
  Hypothesis Pbasic : perm_opt (rf_basic (fs_route fs)) (rf_basic (fs_route fs')).
  Hypothesis Padv : perm_opt (rf_adv (fs_route fs)) (rf_adv (fs_route fs')).
  Hypothesis Pcver : cf_version (fs_cluster fs) = cf_version (fs_cluster fs').
  Hypothesis Pcfg : perm_opt (cf_config (fs_cluster fs)) (cf_config (fs_cluster fs')).
  Hypothesis Hg1 : distinct_lower_hosts fs = true.
  Hypothesis Hg2 : tags_single_product fs = true.
  Hypothesis Hg3 : vips_single_product fs = true.
  Hypothesis Hrk : route_keys_distinct fs = true.

  Lemma FH_perm : Permutation (FH fs) (FH fs').
  Proof. unfold FH, flat_hosts. apply Permutation_flat_map'. apply perm_opt_olist. exact Phosts. Qed.
  Lemma TM_perm : Permutation (TM fs) (TM fs').
  Proof. unfold TM, flat_tags. apply Permutation_flat_map'. apply perm_opt_olist. exact Ptags. Qed.
  Lemma VM_perm : Permutation (VM fs) (VM fs').
  Proof. unfold VM, flat_vips. apply Permutation_flat_map'. exact Pvips. Qed.
  Lemma TM_nodup : NoDup (map fst (TM fs)).
  Proof. apply nodup_str_NoDup. exact Hg2. Qed.
  Lemma VM_nodup : NoDup (map fst (VM fs)).
  Proof. apply nodup_str_NoDup. exact Hg3. Qed.
  Lemma FH_nodup' : NoDup (map fst (FH fs')).
  Proof. eapply Permutation_NoDup; [apply Permutation_map; apply FH_perm | apply guard_hosts; exact Hg1]. Qed.

  Lemma tag_lookup_same t : assoc_last t (TM fs) = assoc_last t (TM fs').
  Proof. apply assoc_last_perm; [apply TM_nodup | apply TM_perm]. Qed.

  Lemma tagmap_products_perm : Permutation (tagmap_products (TM fs)) (tagmap_products (TM fs')).
  Proof.
    unfold tagmap_products.
    rewrite (map_ext (fun e => odef [] (assoc_last (fst e) (TM fs))) (fun e => odef [] (assoc_last (fst e) (TM fs'))))
      by (intro e; rewrite tag_lookup_same; reflexivity).
    apply Permutation_map. apply TM_perm.
  Qed.

  Lemma route_products_perm : Permutation (route_products (fs_route fs)) (route_products (fs_route fs')).
  Proof.
    unfold route_products. apply Permutation_app; apply Permutation_map; apply perm_opt_olist; assumption.
  Qed.
  Lemma adv_clusters_perm : Permutation (adv_clusters (fs_route fs)) (adv_clusters (fs_route fs')).
  Proof. unfold adv_clusters. apply Permutation_flat_map'. apply perm_opt_olist. exact Padv. Qed.
  Lemma basic_clusters_perm : Permutation (basic_clusters_checked (fs_route fs)) (basic_clusters_checked (fs_route fs')).
  Proof. unfold basic_clusters_checked. apply Permutation_flat_map'. apply perm_opt_olist. exact Pbasic. Qed.
  Lemma cluster_names_perm :
    Permutation (map fst (olist (cf_config (fs_cluster fs)))) (map fst (olist (cf_config (fs_cluster fs')))).
  Proof. apply Permutation_map. apply perm_opt_olist. exact Pcfg. Qed.

  Lemma sdc_check_same :
    sdc_check (TM fs) (fs_route fs) (map fst (olist (cf_config (fs_cluster fs))))
    = sdc_check (TM fs') (fs_route fs') (map fst (olist (cf_config (fs_cluster fs')))).
  Proof.
    unfold sdc_check. f_equal; [f_equal|].
    - rewrite (forallb_perm _ _ _ route_products_perm). apply forallb_ext_in. intros p _.
      apply mem_str_perm. apply tagmap_products_perm.
    - rewrite (forallb_perm _ _ _ adv_clusters_perm). apply forallb_ext_in. intros c _.
      apply mem_str_perm. apply cluster_names_perm.
    - rewrite (forallb_perm _ _ _ basic_clusters_perm). apply forallb_ext_in. intros c _.
      apply mem_str_perm. apply cluster_names_perm.
  Qed.

  Lemma route_conf_check_same : route_conf_check (fs_route fs) = route_conf_check (fs_route fs').
  Proof.
    unfold route_conf_check. rewrite <- Prver. destruct (rf_version (fs_route fs)); [|reflexivity].
    assert (Hb := perm_opt_olist _ _ Pbasic). assert (Ha := perm_opt_olist _ _ Padv).
    rewrite (forallb_perm _ _ _ Hb), (forallb_perm _ _ _ Ha).
    destruct (rf_basic (fs_route fs)), (rf_basic (fs_route fs')); simpl in Pbasic; try contradiction;
      destruct (rf_adv (fs_route fs)), (rf_adv (fs_route fs')); simpl in Padv; try contradiction; reflexivity.
  Qed.
  Lemma cluster_load_same :
    match cluster_conf_load (fs_cluster fs) with Some _ => true | None => false end
    = match cluster_conf_load (fs_cluster fs') with Some _ => true | None => false end.
  Proof.
    unfold cluster_conf_load. rewrite <- Pcver. destruct (cf_version (fs_cluster fs)); [|reflexivity].
    destruct (cf_config (fs_cluster fs)) as [c|], (cf_config (fs_cluster fs')) as [c'|]; simpl in Pcfg; try contradiction;
      try reflexivity.
    rewrite (forallb_perm _ _ _ Pcfg). destruct (forallb _ c'); reflexivity.
  Qed.
  Lemma vip_check_same : vip_conf_check (fs_vip fs) = vip_conf_check (fs_vip fs').
  Proof. unfold vip_conf_check. rewrite <- Pvver. f_equal. apply forallb_perm. exact Pvips. Qed.

  Lemma the_checks_same : the_checks fs = the_checks fs'.
  Proof.
    unfold the_checks.
    rewrite (host_conf_check_perm _ _ Pver Pdef Phosts Ptags), vip_check_same, route_conf_check_same,
      cluster_load_same, sdc_check_same. reflexivity.
  Qed.

  Variables pick pick' : list (str * str) -> list (str * str).
  Hypothesis Hpick : iteration_order pick.
  Hypothesis Hpick' : iteration_order pick'.

  Lemma hostroute_perm :
    Permutation (build_host_route (TM fs) (pick (rev (FH fs)))) (build_host_route (TM fs') (pick' (rev (FH fs')))).
  Proof.
    unfold build_host_route.
    rewrite (map_ext (fun e => (host_route_key (fst e), (odef [] (assoc_last (snd e) (TM fs)), snd e)))
                     (fun e => (host_route_key (fst e), (odef [] (assoc_last (snd e) (TM fs')), snd e))))
      by (intro e; rewrite tag_lookup_same; reflexivity).
    apply Permutation_map.
    eapply Permutation_trans; [apply Permutation_sym; apply Hpick|].
    eapply Permutation_trans; [apply Permutation_sym; apply Permutation_rev|].
    eapply Permutation_trans; [apply FH_perm|].
    eapply Permutation_trans; [apply Permutation_rev | apply Hpick'].
  Qed.
  Lemma hostroute_nodup : NoDup (map fst (build_host_route (TM fs) (pick (rev (FH fs))))).
  Proof.
    unfold build_host_route. rewrite map_map. simpl.
    eapply Permutation_NoDup; [| apply nodup_str_NoDup; exact Hg1].
    rewrite host_keys_FH. apply Permutation_map.
    eapply Permutation_trans; [apply Permutation_rev | apply Hpick].
  Qed.

  Lemma vip_match_simpl v (l : list (str * str)) :
    match l with [] => None | _ => assoc_last v l end = assoc_last v l.
  Proof. destruct l; reflexivity. Qed.

  Lemma lookup_product_same p : lookup_product (the_tables pick fs) p = lookup_product (the_tables pick' fs') p.
  Proof.
    unfold lookup_product, the_tables; cbn [tb_hostroute tb_vipmap tb_default].
    rewrite (assoc_last_perm _ _ _ hostroute_nodup hostroute_perm).
    rewrite <- Pdef.
    destruct (pr_vip p) as [v|]; [|reflexivity].
    rewrite !vip_match_simpl.
    rewrite (assoc_last_perm v _ _ VM_nodup VM_perm). reflexivity.
  Qed.

  Lemma lookup_cluster_same prod host path :
    lookup_cluster (fs_route fs) prod host path = lookup_cluster (fs_route fs') prod host path.
  Proof.
    assert (Hrk' := Hrk). unfold route_keys_distinct in Hrk'. apply andb_true_iff in Hrk'. destruct Hrk' as [Hb Ha].
    apply nodup_str_NoDup in Hb. apply nodup_str_NoDup in Ha.
    unfold lookup_cluster.
    rewrite (assoc_perm prod _ _ Hb (perm_opt_olist _ _ Pbasic)).
    rewrite (assoc_perm prod _ _ Ha (perm_opt_olist _ _ Padv)). reflexivity.
  Qed.

  Lemma lookup_same p : lookup (the_tables pick fs) p = lookup (the_tables pick' fs') p.
  Proof.
    unfold lookup. rewrite lookup_product_same.
    destruct (lookup_product (the_tables pick' fs') p) as [[prod tag]|]; [|reflexivity].
    cbn [tb_route the_tables]. rewrite lookup_cluster_same. reflexivity.
  Qed.

  (* the same files, any two iteration orders: both loads are accepted or both rejected, and accepted loads route alike *)
  Lemma perm_invariant :
    match load_with pick fs, load_with pick' fs' with
    | Some t, Some t' => forall p, lookup t p = lookup t' p
    | None, None => True
    | _, _ => False
    end.
  Proof.
    rewrite (load_with_char pick fs (guard_hosts fs Hg1)), (load_with_char pick' fs' FH_nodup'), <- the_checks_same.
    destruct (the_checks fs); [|exact I]. apply lookup_same.
  Qed.
End PermInvariance.

Lemma perm_invariant_files fs fs' pick pick' :
  same_up_to_map_order fs fs' -> iteration_order pick -> iteration_order pick' ->
  order_class fs = 0 -> route_keys_distinct fs = true ->
  match load_with pick fs, load_with pick' fs' with
  | Some t, Some t' => forall p, lookup t p = lookup t' p
  | None, None => True
  | _, _ => False
  end.
Proof.
  intros [H1 [H2 [H3 [H4 [H5 [H6 [H7 [H8 [H9 [H10 H11]]]]]]]]]] Hp Hp' Hoc Hrk.
  unfold order_class in Hoc.
  destruct (distinct_lower_hosts fs) eqn:G1; [|discriminate].
  destruct (tags_single_product fs) eqn:G2; [|discriminate].
  destruct (vips_single_product fs) eqn:G3; [|discriminate].
  apply perm_invariant; assumption.
Qed.

(* ------------------------------------------------------------------ C14: the unguarded statement is false (witnesses) *)
Definition b_acom : str := [97;46;99;111;109].      (* "a.com" *)
Definition b_Acom : str := [65;46;99;111;109].      (* "A.com" *)
Definition b_borg : str := [98;46;111;114;103].     (* "b.org" *)
Definition b_t1 : str := [116;49].  Definition b_t2 : str := [116;50].
Definition b_p1 : str := [112;49].  Definition b_p2 : str := [112;50].
Definition b_c1 : str := [99;49].   Definition b_c2 : str := [99;50].
Definition b_v1 : str := [118;49].
Definition b_ip : str := [49;46;50;46;51;46;52].    (* "1.2.3.4" *)
Definition cc_default : cluster_conf :=
  {| cc_protocol := None; cc_schem := None; cc_uri := None; cc_status := None; cc_succ := None;
     cc_hash_strategy := None; cc_hash_header := None; cc_bal_mode := None |}.
Definition w_route : route_file :=
  {| rf_version := Some b_v1; rf_basic := None;
     rf_adv := Some [(b_p1, [{| ar_cond := Some 0; ar_cluster := Some b_c1 |}]);
                     (b_p2, [{| ar_cond := Some 0; ar_cluster := Some b_c2 |}])] |}.
Definition w_cluster : cluster_file := {| cf_version := Some b_v1; cf_config := Some [(b_c1, cc_default); (b_c2, cc_default)] |}.
Definition w_files hosts tags vips : files :=
  {| fs_host := {| hf_version := Some b_v1; hf_default := None; hf_hosts := Some hosts; hf_tags := Some tags |};
     fs_vip := {| vf_version := b_v1; vf_vips := vips |}; fs_route := w_route; fs_cluster := w_cluster |}.

(* "a.com" under tag t1 (product p1) and "A.com" under tag t2 (product p2) *)
Definition w_host_case : files :=
  w_files [(b_t1, Some [b_acom]); (b_t2, Some [b_Acom])] [(b_p1, Some [b_t1]); (b_p2, Some [b_t2])] [].
(* tag t1 under p1 and under p2; the two HostTags orders *)
Definition w_tag_a : files :=
  w_files [(b_t1, Some [b_acom]); (b_t2, Some [b_borg])] [(b_p1, Some [b_t1; [116;51]]); (b_p2, Some [b_t1; b_t2])] [].
Definition w_tag_b : files :=
  w_files [(b_t1, Some [b_acom]); (b_t2, Some [b_borg])] [(b_p2, Some [b_t1; b_t2]); (b_p1, Some [b_t1; [116;51]])] [].
(* p2 owns only the tag that p1 also lists: in one order p1 ends up without any tag and its route rules are rejected *)
Definition w_route_p1 : route_file :=
  {| rf_version := Some b_v1; rf_basic := None;
     rf_adv := Some [(b_p1, [{| ar_cond := Some 0; ar_cluster := Some b_c1 |}])] |}.
Definition w_steal (tags : list (str * option (list str))) : files :=
  {| fs_host := {| hf_version := Some b_v1; hf_default := None; hf_hosts := Some [(b_t1, Some [b_acom])]; hf_tags := Some tags |};
     fs_vip := {| vf_version := b_v1; vf_vips := [] |}; fs_route := w_route_p1; fs_cluster := w_cluster |}.
Definition w_steal_a : files := w_steal [(b_p1, Some [b_t1]); (b_p2, Some [b_t1])].
Definition w_steal_b : files := w_steal [(b_p2, Some [b_t1]); (b_p1, Some [b_t1])].
(* vip 1.2.3.4 under p1 and p2 *)
Definition w_vip_a : files :=
  w_files [(b_t1, Some [b_acom]); (b_t2, Some [b_borg])] [(b_p1, Some [b_t1]); (b_p2, Some [b_t2])]
          [(b_p1, [(b_ip, Some b_ip)]); (b_p2, [(b_ip, Some b_ip)])].
Definition w_vip_b : files :=
  w_files [(b_t1, Some [b_acom]); (b_t2, Some [b_borg])] [(b_p1, Some [b_t1]); (b_p2, Some [b_t2])]
          [(b_p2, [(b_ip, Some b_ip)]); (b_p1, [(b_ip, Some b_ip)])].
Definition w_probe_host : probe := {| pr_host := b_acom; pr_vip := None; pr_path := [47] |}.
Definition w_probe_vip : probe := {| pr_host := b_borg ++ b_borg; pr_vip := Some b_ip; pr_path := [47] |}.

Lemma iteration_order_id : iteration_order (fun l => l).
Proof. intro l. apply Permutation_refl. Qed.
Lemma iteration_order_rev : iteration_order (@rev (str * str)).
Proof. intro l. apply Permutation_rev. Qed.

Lemma same_refl fs : same_up_to_map_order fs fs.
Proof.
  unfold same_up_to_map_order, perm_opt.
  repeat split; try reflexivity;
    repeat match goal with |- match ?x with _ => _ end => destruct x end; auto using Permutation_refl.
Qed.

Definition differ (a b : option tables) (p : probe) : bool :=
  match a, b with
  | Some t, Some t' => negb (seqb (oc_product (lookup t p)) (oc_product (lookup t' p)))
  | _, _ => false
  end.

Lemma refuted_host_case :
  differ (load_with (fun l => l) w_host_case) (load_with (@rev _) w_host_case) w_probe_host = true.
Proof. vm_compute. reflexivity. Qed.
Lemma refuted_tag :
  same_up_to_map_order w_tag_a w_tag_b /\ differ (load w_tag_a) (load w_tag_b) w_probe_host = true.
Proof.
  split; [|vm_compute; reflexivity].
  unfold same_up_to_map_order, perm_opt; simpl. repeat split; auto using Permutation_refl. apply perm_swap.
Qed.
Lemma refuted_steal :
  same_up_to_map_order w_steal_a w_steal_b /\ accepted w_steal_a = false /\ accepted w_steal_b = true.
Proof.
  split; [|split; vm_compute; reflexivity].
  unfold same_up_to_map_order, perm_opt; simpl. repeat split; auto using Permutation_refl. apply perm_swap.
Qed.
Lemma refuted_vip :
  same_up_to_map_order w_vip_a w_vip_b /\ differ (load w_vip_a) (load w_vip_b) w_probe_vip = true.
Proof.
  split; [|vm_compute; reflexivity].
  unfold same_up_to_map_order, perm_opt; simpl. repeat split; auto using Permutation_refl. apply perm_swap.
Qed.

Definition w_vip_free : files :=
  w_files [(b_t1, Some [b_acom]); (b_t2, Some [b_borg])] [(b_p1, Some [b_t1]); (b_p2, Some [b_t2])]
          [(b_p1, [(b_ip, Some b_ip)])].
Definition w_vip_free_swapped : files :=
  w_files [(b_t2, Some [b_borg]); (b_t1, Some [b_acom])] [(b_p2, Some [b_t2]); (b_p1, Some [b_t1])]
          [(b_p1, [(b_ip, Some b_ip)])].
Lemma guard_inhabited :
  order_class w_vip_free = 0 /\ route_keys_distinct w_vip_free = true /\ accepted w_vip_free = true
  /\ same_up_to_map_order w_vip_free w_vip_free_swapped.
Proof.
  split; [vm_compute; reflexivity|]. split; [vm_compute; reflexivity|]. split; [vm_compute; reflexivity|].
  unfold same_up_to_map_order, perm_opt; simpl. repeat split; auto using Permutation_refl; apply perm_swap.
Qed.

(* ------------------------------------------------------------------ bal_gslb.Init: sorting by name removes the map order *)
Lemma str_ltb_irrefl a : str_ltb a a = false.
Proof. induction a as [|x a IH]; simpl; [reflexivity|]. rewrite Z.ltb_irrefl, Z.eqb_refl, IH. reflexivity. Qed.
Lemma str_ltb_trans a : forall b c, str_ltb a b = true -> str_ltb b c = true -> str_ltb a c = true.
Proof.
  induction a as [|x a IH]; intros [|y b] [|z c]; simpl; intros H1 H2; try discriminate; try reflexivity.
  apply orb_true_iff in H1. apply orb_true_iff in H2. apply orb_true_iff.
  destruct H1 as [H1 | H1], H2 as [H2 | H2].
  - left. apply Z.ltb_lt in H1, H2. apply Z.ltb_lt. lia.
  - apply andb_true_iff in H2. destruct H2 as [H2 _]. apply Z.eqb_eq in H2. subst. left. exact H1.
  - apply andb_true_iff in H1. destruct H1 as [H1 _]. apply Z.eqb_eq in H1. subst. left. exact H2.
  - apply andb_true_iff in H1. apply andb_true_iff in H2. destruct H1 as [H1 H1'], H2 as [H2 H2'].
    apply Z.eqb_eq in H1, H2. subst. right. rewrite Z.eqb_refl. simpl. eapply IH; eassumption.
Qed.
Lemma str_ltb_total a : forall b, a <> b -> str_ltb a b = true \/ str_ltb b a = true.
Proof.
  induction a as [|x a IH]; intros [|y b] Hne; simpl; try (left; reflexivity); try (right; reflexivity); try congruence.
  destruct (Z.lt_trichotomy x y) as [H | [H | H]].
  - left. apply orb_true_iff. left. apply Z.ltb_lt. exact H.
  - subst. rewrite Z.ltb_irrefl, Z.eqb_refl. simpl. apply IH. congruence.
  - right. apply orb_true_iff. left. apply Z.ltb_lt. exact H.
Qed.

Definition name_lt {A} (x y : str * A) : Prop := str_ltb (fst x) (fst y) = true.
Lemma insert_sorted_perm {A} (e : str * A) l : Permutation (e :: l) (insert_sorted e l).
Proof.
  induction l as [|x r IH]; simpl; [apply Permutation_refl|].
  destruct (str_ltb (fst x) (fst e)).
  - eapply Permutation_trans; [apply perm_swap | apply perm_skip; exact IH].
  - apply Permutation_refl.
Qed.
Lemma sort_by_name_perm {A} (l : list (str * A)) : Permutation l (sort_by_name l).
Proof.
  induction l as [|e r IH]; simpl; [constructor|].
  eapply Permutation_trans; [apply perm_skip; exact IH | apply insert_sorted_perm].
Qed.
Lemma insert_sorted_sorted {A} (e : str * A) l :
  StronglySorted name_lt l -> ~ In (fst e) (map fst l) -> StronglySorted name_lt (insert_sorted e l).
Proof.
  induction l as [|x r IH]; simpl; intros Hs Hni.
  - constructor; constructor.
  - inversion Hs as [|? ? Hs' Hall]; subst.
    destruct (str_ltb (fst x) (fst e)) eqn:E.
    + constructor.
      * apply IH; [exact Hs' | intro H; apply Hni; right; exact H].
      * rewrite Forall_forall. intros y Hy.
        apply (Permutation_in _ (Permutation_sym (insert_sorted_perm e r))) in Hy. destruct Hy as [Hy | Hy].
        -- subst. exact E.
        -- rewrite Forall_forall in Hall. apply Hall. exact Hy.
    + assert (Hlt : str_ltb (fst e) (fst x) = true).
      { destruct (str_ltb_total (fst e) (fst x)) as [H | H]; [|exact H|congruence].
        intro Heq. apply Hni. left. symmetry. exact Heq. }
      constructor; [exact Hs|]. constructor; [exact Hlt|].
      rewrite Forall_forall in *. intros y Hy. unfold name_lt. eapply str_ltb_trans; [exact Hlt | apply Hall; exact Hy].
Qed.
Lemma sort_by_name_sorted {A} (l : list (str * A)) : NoDup (map fst l) -> StronglySorted name_lt (sort_by_name l).
Proof.
  induction l as [|e r IH]; simpl; intro Hnd; [constructor|].
  inversion Hnd; subst. apply insert_sorted_sorted; [apply IH; assumption|].
  intro H. apply H1. eapply Permutation_in; [apply Permutation_map; apply Permutation_sym; apply sort_by_name_perm | exact H].
Qed.
Lemma sorted_perm_eq {A} (l : list (str * A)) : forall l',
  StronglySorted name_lt l -> StronglySorted name_lt l' -> Permutation l l' -> l = l'.
Proof.
  induction l as [|x r IH]; intros [|y r'] Hs Hs' Hp.
  - reflexivity.
  - apply Permutation_nil in Hp. discriminate.
  - apply Permutation_sym, Permutation_nil in Hp. discriminate.
  - inversion Hs as [|? ? Hs1 Hall]; subst. inversion Hs' as [|? ? Hs1' Hall']; subst.
    rewrite Forall_forall in Hall, Hall'.
    assert (Hxy : x = y).
    { assert (Hx : In x (y :: r')) by (eapply Permutation_in; [exact Hp | left; reflexivity]).
      assert (Hy : In y (x :: r)) by (eapply Permutation_in; [apply Permutation_sym; exact Hp | left; reflexivity]).
      destruct Hx as [Hx | Hx]; [congruence|]. destruct Hy as [Hy | Hy]; [exact Hy|]. exfalso.
      specialize (Hall _ Hy). specialize (Hall' _ Hx). unfold name_lt in *.
      pose proof (str_ltb_trans _ _ _ Hall Hall') as Hc. rewrite str_ltb_irrefl in Hc. discriminate. }
    subst. f_equal. apply IH; [assumption | assumption |]. eapply Permutation_cons_inv. exact Hp.
Qed.
Lemma pos_total_perm l l' : Permutation l l' -> pos_total l = pos_total l'.
Proof. unfold pos_total. induction 1; simpl; lia. Qed.

(* Go's map range over gslbConf may visit the sub-clusters in any order; Init's result does not depend on it *)
Lemma gslb_init_perm conf conf' : NoDup (map fst conf) -> Permutation conf conf' -> gslb_init conf = gslb_init conf'.
Proof.
  intros Hnd Hp. unfold gslb_init. rewrite (pos_total_perm _ _ Hp).
  assert (Hs : sort_by_name conf = sort_by_name conf').
  { apply sorted_perm_eq.
    - apply sort_by_name_sorted. exact Hnd.
    - apply sort_by_name_sorted. eapply Permutation_NoDup; [apply Permutation_map; exact Hp | exact Hnd].
    - eapply Permutation_trans; [apply Permutation_sym; apply sort_by_name_perm|].
      eapply Permutation_trans; [exact Hp | apply sort_by_name_perm]. }
  rewrite Hs. reflexivity.
Qed.

(* ------------------------------------------------------------------ C13: documented => accepted *)
Lemma same_slot_sym a b : same_slot a b = same_slot b a.
Proof.
  unfold same_slot. rewrite (seqb_sym (te_hk a)), (seqb_sym (te_pk a)).
  destruct (te_hw a), (te_hw b), (te_pw a), (te_pw b); reflexivity.
Qed.
Lemma slots_distinct_app a : forall b,
  slots_distinct (a ++ b) = true ->
  slots_distinct a = true /\ slots_distinct b = true /\ (forall x y, In x a -> In y b -> same_slot x y = false).
Proof.
  induction a as [|e a IH]; simpl; intros b H.
  - repeat split; [exact H | intros x y []].
  - apply andb_true_iff in H. destruct H as [H1 H2]. apply negb_true_iff in H1.
    rewrite existsb_app in H1. apply orb_false_iff in H1. destruct H1 as [H1a H1b].
    destruct (IH b H2) as [Ha [Hb Hc]]. repeat split.
    + rewrite H1a, Ha. reflexivity.
    + exact Hb.
    + intros x y [Hx | Hx] Hy.
      * subst. destruct (same_slot x y) eqn:E; [|reflexivity].
        assert (existsb (same_slot x) b = true) by (apply existsb_exists; exists y; split; assumption). congruence.
      * apply Hc; assumption.
Qed.
Lemma tree_insert_all_ok es : forall t,
  slots_distinct es = true -> (forall e, In e es -> existsb (same_slot e) t = false) ->
  tree_insert_all t es = Some (rev es ++ t).
Proof.
  induction es as [|e r IH]; simpl; intros t Hd Ht; [reflexivity|].
  apply andb_true_iff in Hd. destruct Hd as [Hd1 Hd2]. apply negb_true_iff in Hd1.
  rewrite (Ht e (or_introl eq_refl)). rewrite IH.
  - rewrite <- app_assoc. reflexivity.
  - exact Hd2.
  - intros e' He'. simpl. rewrite (Ht e' (or_intror He')), orb_false_r.
    rewrite same_slot_sym. destruct (same_slot e e') eqn:E; [|reflexivity].
    assert (existsb (same_slot e) r = true) by (apply existsb_exists; exists e'; split; assumption). congruence.
Qed.
Definition ent (r : basic_rule) : list tree_entry := rule_entries r (odef [] (br_cluster r)).
Lemma basic_rules_build_ok rules : forall t,
  forallb doc_basic_rule rules = true -> slots_distinct (flat_map ent rules) = true ->
  (forall e, In e (flat_map ent rules) -> existsb (same_slot e) t = false) ->
  exists t', basic_rules_build t rules = Some t'.
Proof.
  induction rules as [|r rest IH]; simpl; intros t Hdoc Hd Ht; [eauto|].
  apply andb_true_iff in Hdoc. destruct Hdoc as [Hr Hrest].
  unfold doc_basic_rule in Hr. apply andb_true_iff in Hr. destruct Hr as [Hr Hp].
  apply andb_true_iff in Hr. destruct Hr as [Hr Hh]. apply andb_true_iff in Hr. destruct Hr as [Hc Hne].
  destruct (br_cluster r) as [c|] eqn:Ec; [|discriminate].
  destruct (slots_distinct_app _ _ Hd) as [Hd1 [Hd2 Hcross]].
  assert (Ent : ent r = rule_entries r c) by (unfold ent; rewrite Ec; reflexivity).
  replace (match br_hosts r with [] => match br_paths r with [] => true | _ :: _ => false end | _ :: _ => false end)
    with false by (destruct (br_hosts r), (br_paths r); simpl in Hne; congruence).
  rewrite Hh, Hp. simpl. rewrite <- Ent.
  rewrite (tree_insert_all_ok (ent r) t Hd1) by (intros e He; apply Ht; apply in_or_app; left; exact He).
  apply IH; [exact Hrest | exact Hd2 |].
  intros e He. rewrite existsb_app. rewrite (Ht e) by (apply in_or_app; right; exact He). rewrite orb_false_r.
  destruct (existsb (same_slot e) (rev (ent r))) eqn:E; [|reflexivity].
  apply existsb_exists in E. destruct E as [x [Hx Hs]]. apply in_rev in Hx.
  rewrite same_slot_sym in Hs. rewrite (Hcross x e Hx He) in Hs. discriminate.
Qed.

Lemma forallb_trim_left f l : forallb f l = false -> forallb f (trim_left f l) = false.
Proof.
  induction l as [|x r IH]; simpl; intro H; [discriminate|].
  destruct (f x) eqn:E; simpl in *; [apply IH; exact H | rewrite E; reflexivity].
Qed.
Lemma forallb_rev {A} (f : A -> bool) l : forallb f (rev l) = forallb f l.
Proof. apply forallb_perm. apply Permutation_sym. apply Permutation_rev. Qed.
Lemma trim_nonempty f l : forallb f l = false -> trim f l <> [].
Proof.
  intro H. unfold trim, trim_right.
  apply forallb_trim_left in H. rewrite <- forallb_rev in H. apply forallb_trim_left in H. rewrite <- forallb_rev in H.
  intro E. rewrite E in H. discriminate.
Qed.

Lemma doc_cluster_conf_ok c : doc_cluster_conf c = true -> cluster_conf_ok c = true.
Proof.
  unfold doc_cluster_conf, cluster_conf_ok. intro H.
  apply andb_true_iff in H. destruct H as [H Hmode]. apply andb_true_iff in H. destruct H as [H Hhash].
  apply andb_true_iff in H. destruct H as [H Hsucc]. apply andb_true_iff in H. destruct H as [Hproto Hschem].
  apply andb_true_iff; split; [apply andb_true_iff; split|].
  - unfold backend_basic_ok. destruct (cc_protocol c) as [p|]; [|reflexivity]. simpl odef.
    apply mem_str_In in Hproto. simpl in Hproto.
    destruct Hproto as [E | [E | [E | [E | [E | []]]]]]; subst; reflexivity.
  - unfold backend_check_ok. cbv zeta.
    assert (Hs : 1 <=? odef 1 (cc_succ c) = true) by (destruct (cc_succ c); [exact Hsucc | reflexivity]).
    rewrite Hs, andb_true_r.
    destruct (cc_schem c) as [s|]; simpl odef.
    + destruct (seqb s s_tcp) eqn:Et.
      * apply seqb_eq in Et. subst. reflexivity.
      * apply andb_true_iff in Hschem. destruct Hschem as [Hschem Hst]. apply andb_true_iff in Hschem.
        destruct Hschem as [Hh Hu]. rewrite Hh, Hu, Hst. reflexivity.
    + change (seqb s_http s_http) with true. change (seqb s_http s_tcp) with false. simpl. exact Hschem.
  - unfold gslb_basic_ok. apply andb_true_iff. split.
    + unfold hash_conf_ok. cbv zeta in Hhash. set (st := odef 1 (cc_hash_strategy c)) in *.
      apply orb_true_iff in Hhash. destruct Hhash as [Hhash | Hhash].
      * apply orb_true_iff in Hhash. destruct Hhash as [E | E]; apply Z.eqb_eq in E; rewrite E; reflexivity.
      * apply andb_true_iff in Hhash. destruct Hhash as [Hst Hh].
        assert (Hs : (st =? 0) || (st =? 1) || (st =? 2) || (st =? 3) = true).
        { apply orb_true_iff in Hst. destruct Hst as [E | E]; apply Z.eqb_eq in E; rewrite E; reflexivity. }
        rewrite Hs, Hst. simpl.
        destruct (cc_hash_header c) as [[|x h]|]; try discriminate.
        destruct (after_colon (x :: h)) as [k|]; [|reflexivity].
        apply negb_true_iff in Hh. pose proof (trim_nonempty _ _ Hh) as Hne.
        destruct (trim is_space_go k); [congruence | reflexivity].
    + destruct (cc_bal_mode c) as [m|]; [|reflexivity]. simpl odef.
      apply orb_true_iff in Hmode. destruct Hmode as [E | E]; apply seqb_eq in E; subst; reflexivity.
Qed.

Lemma documented_is_accepted fs : documented fs = true -> accepted fs = true.
Proof.
  unfold documented. intro H. apply andb_true_iff in H. destruct H as [H _].
  apply andb_true_iff in H. destruct H as [H Hrefs]. apply andb_true_iff in H. destruct H as [H Hcl].
  apply andb_true_iff in H. destruct H as [H Hroute]. apply andb_true_iff in H. destruct H as [Hhost Hvip].
  unfold doc_host in Hhost.
  destruct (hf_version (fs_host fs)) as [ver|] eqn:Ever; [|discriminate].
  destruct (hf_hosts (fs_host fs)) as [hosts|] eqn:Ehosts; [|discriminate].
  destruct (hf_tags (fs_host fs)) as [tags|] eqn:Etags; [|discriminate].
  apply andb_true_iff in Hhost. destruct Hhost as [Hhost Hndt]. apply andb_true_iff in Hhost. destruct Hhost as [Hhost Hndh].
  apply andb_true_iff in Hhost. destruct Hhost as [Hhost Hdef]. apply andb_true_iff in Hhost. destruct Hhost as [Hhost Htd].
  apply andb_true_iff in Hhost. destruct Hhost as [Hph Hpt].
  assert (G1 : distinct_lower_hosts fs = true) by (unfold distinct_lower_hosts, host_keys; rewrite Ehosts; exact Hndh).
  assert (TMnd : NoDup (map fst (TM fs))) by (unfold TM; rewrite Etags; apply nodup_str_NoDup; exact Hndt).
  unfold accepted, load. rewrite (load_with_char _ fs (guard_hosts fs G1)).
  assert (Hchk : the_checks fs = true); [|rewrite Hchk; reflexivity].
  unfold the_checks.
  apply andb_true_iff; split; [apply andb_true_iff; split; [apply andb_true_iff; split; [apply andb_true_iff; split|]|]|].
  - (* HostTableConfCheck *)
    unfold host_conf_check. rewrite Ever, Ehosts, Etags. repeat (apply andb_true_iff; split).
    + exact Hpt.
    + apply forallb_forall. intros [t ol] Hin. simpl.
      unfold all_present in Hph. rewrite forallb_forall in Hph. specialize (Hph _ Hin). simpl in Hph.
      destruct ol as [l|]; [|discriminate].
      rewrite forallb_forall in Htd. assert (Ht : In t (map fst hosts)) by (apply in_map_iff; exists (t, Some l); auto).
      specialize (Htd _ Ht). apply mem_str_In in Htd. apply in_map_iff in Htd. destruct Htd as [[t' p] [E Hin']].
      simpl in E. subst t'. apply flat_tags_In in Hin'. destruct Hin' as [tl [Hp Htl]].
      apply existsb_exists. exists (p, Some tl). split; [exact Hp|]. simpl. apply mem_str_In. exact Htl.
    + destruct (hf_default (fs_host fs)) as [d|]; [|reflexivity].
      apply mem_str_In in Hdef. apply assoc_some_iff in Hdef. destruct Hdef as [v Hv]. rewrite Hv. reflexivity.
  - (* VipTableConfCheck *)
    unfold doc_vip in Hvip. unfold vip_conf_check. apply andb_true_iff in Hvip. destruct Hvip as [Hv1 Hv2].
    rewrite Hv2, andb_true_r. destruct (vf_version (fs_vip fs)); [discriminate | reflexivity].
  - (* convert *)
    unfold doc_route in Hroute. unfold route_conf_check.
    apply andb_true_iff in Hroute. destruct Hroute as [Hroute Hadv]. apply andb_true_iff in Hroute.
    destruct Hroute as [Hroute Hbasic]. apply andb_true_iff in Hroute. destruct Hroute as [Hrv Hrt].
    destruct (rf_version (fs_route fs)); [|discriminate].
    assert (Hb : forallb (fun e : str * list basic_rule =>
                            match basic_rules_build [] (snd e) with Some _ => true | None => false end)
                         (olist (rf_basic (fs_route fs))) = true).
    { apply forallb_forall. intros e He. rewrite forallb_forall in Hbasic. specialize (Hbasic _ He).
      apply andb_true_iff in Hbasic. destruct Hbasic as [Hd Hs].
      destruct (basic_rules_build_ok (snd e) [] Hd Hs) as [t' Ht']; [intros; reflexivity|]. rewrite Ht'. reflexivity. }
    rewrite Hb. simpl.
    destruct (rf_basic (fs_route fs)), (rf_adv (fs_route fs)); try discriminate; exact Hadv.
  - (* BfeClusterConfCheck *)
    unfold doc_cluster in Hcl. unfold cluster_conf_load.
    destruct (cf_version (fs_cluster fs)); [|discriminate]. destruct (cf_config (fs_cluster fs)) as [cfg|]; [|discriminate].
    assert (Hok : forallb (fun e : str * cluster_conf => cluster_conf_ok (snd e)) cfg = true).
    { apply forallb_forall. intros e He. rewrite forallb_forall in Hcl. apply doc_cluster_conf_ok. apply Hcl. exact He. }
    rewrite Hok. reflexivity.
  - (* ServerDataConf.check *)
    unfold doc_refs in Hrefs. apply andb_true_iff in Hrefs. destruct Hrefs as [Hrefs Hrb].
    apply andb_true_iff in Hrefs. destruct Hrefs as [Hrp Hra].
    unfold sdc_check. repeat (apply andb_true_iff; split).
    + apply forallb_forall. intros p Hp. rewrite forallb_forall in Hrp. specialize (Hrp _ Hp).
      apply mem_str_In in Hrp. unfold products_with_tags in Hrp. fold (TM fs) in Hrp.
      apply in_map_iff in Hrp. destruct Hrp as [[t p'] [E Hin]]. simpl in E. subst p'.
      apply mem_str_In. unfold tagmap_products. apply in_map_iff. exists (t, p). split; [|exact Hin]. simpl.
      unfold assoc_last. rewrite (assoc_nodup t p (rev (TM fs))); [reflexivity | | apply in_rev; rewrite rev_involutive; exact Hin].
      rewrite map_rev. apply NoDup_rev. exact TMnd.
    + exact Hra.
    + apply forallb_forall. intros c Hc. unfold basic_clusters_checked in Hc.
      apply in_flat_map in Hc. destruct Hc as [e [He Hc]]. apply in_flat_map in Hc. destruct Hc as [r [Hr Hc]].
      destruct (seqb (odef [] (br_cluster r)) ADVANCED_MODE) eqn:E; [contradiction|].
      destruct Hc as [Hc | []]. subst c.
      rewrite forallb_forall in Hrb.
      assert (Hin : In (odef [] (br_cluster r))
                       (flat_map (fun e => map (fun r => odef [] (br_cluster r)) (snd e)) (olist (rf_basic (fs_route fs))))).
      { apply in_flat_map. exists e. split; [exact He|]. apply in_map_iff. exists r. split; [reflexivity | exact Hr]. }
      specialize (Hrb _ Hin). rewrite E, orb_false_r in Hrb. exact Hrb.
Qed.

Definition w_doc_adv : files :=
  {| fs_host := {| hf_version := Some b_v1; hf_default := Some b_p1;
                   hf_hosts := Some [(b_t1, Some [b_acom]); (b_t2, Some [b_borg])];
                   hf_tags := Some [(b_p1, Some [b_t1]); (b_p2, Some [b_t2])] |};
     fs_vip := {| vf_version := b_v1; vf_vips := [(b_p1, [(b_ip, Some b_ip)])] |};
     fs_route := {| rf_version := Some b_v1;
                    rf_basic := Some [(b_p1, [{| br_hosts := [b_acom]; br_paths := [[47; 42]]; br_cluster := Some ADVANCED_MODE |};
                                              {| br_hosts := []; br_paths := [[47; 97]]; br_cluster := Some b_c2 |}])];
                    rf_adv := rf_adv w_route |};
     fs_cluster := w_cluster |}.
Lemma doc_inhabited : documented w_doc_adv = true /\ accepted w_doc_adv = true /\ closed_full w_doc_adv = true.
Proof. repeat split; vm_compute; reflexivity. Qed.

(* a vip listed under a product that host_rule.data does not define is accepted *)
Definition b_ghost : str := [103;104;111;115;116].   (* "ghost" *)
Definition w_vip_ghost : files :=
  w_files [(b_t1, Some [b_acom]); (b_t2, Some [b_borg])] [(b_p1, Some [b_t1]); (b_p2, Some [b_t2])]
          [(b_ghost, [(b_ip, Some b_ip)])].
Lemma refuted_vip_ghost :
  accepted w_vip_ghost = true /\ closed_full w_vip_ghost = false
  /\ match load w_vip_ghost with
     | Some t => oc_product (lookup t w_probe_vip) = b_ghost /\ oc_err (lookup t w_probe_vip) = 2
     | None => False
     end.
Proof. split; [vm_compute; reflexivity|]. split; [vm_compute; reflexivity|]. vm_compute. split; reflexivity. Qed.
Lemma accepted_is_closed_full fs : vip_products_defined fs = true -> accepted fs = true -> closed_full fs = true.
Proof. intros Hv Ha. unfold closed_full. rewrite (accepted_is_closed fs Ha), Hv. reflexivity. Qed.

(* ------------------------------------------------------------------ bal_gslb.Reload: independent of the load history *)
Lemma NoDup_app_intro {A} (a b : list A) : NoDup a -> NoDup b -> (forall x, In x a -> ~ In x b) -> NoDup (a ++ b).
Proof.
  induction a as [|x a IH]; simpl; intros Ha Hb Hd; [exact Hb|].
  inversion Ha; subst. constructor.
  - intro Hin. apply in_app_or in Hin. destruct Hin as [Hin | Hin]; [contradiction | exact (Hd x (or_introl eq_refl) Hin)].
  - apply IH; [assumption | assumption | intros y Hy; apply Hd; right; exact Hy].
Qed.
Lemma filter_keys_nodup {A} (p : str * A -> bool) l : NoDup (map fst l) -> NoDup (map fst (filter p l)).
Proof.
  induction l as [|e l IH]; simpl; intro H; [constructor|]. inversion H; subst.
  destruct (p e); simpl; [constructor|]; auto.
  intro Hin. apply H2. apply in_map_iff in Hin. destruct Hin as [y [Hy Hin]]. apply filter_In in Hin.
  apply in_map_iff. exists y. tauto.
Qed.
Definition kept (old conf : list (str * Z)) : list (str * Z) :=
  flat_map (fun e => match assoc (fst e) conf with Some w => [(fst e, w)] | None => [] end) old.
Lemma kept_In old conf k w : In (k, w) (kept old conf) <-> In k (map fst old) /\ assoc k conf = Some w.
Proof.
  unfold kept. rewrite in_flat_map. split.
  - intros [e [He Hin]]. destruct (assoc (fst e) conf) eqn:E; [|contradiction]. destruct Hin as [Hin | []].
    inversion Hin; subst. split; [apply in_map; exact He | exact E].
  - intros [Hk Ha]. apply in_map_iff in Hk. destruct Hk as [e [Hf He]]. exists e. split; [exact He|].
    rewrite Hf, Ha. left. reflexivity.
Qed.
Lemma kept_keys_nodup old conf : NoDup (map fst old) -> NoDup (map fst (kept old conf)).
Proof.
  unfold kept. induction old as [|e old IH]; simpl; intro H; [constructor|]. inversion H; subst.
  rewrite map_app. apply NoDup_app_intro.
  - destruct (assoc (fst e) conf); simpl; repeat constructor. intros [].
  - apply IH. assumption.
  - intros x Hx Hin. destruct (assoc (fst e) conf); simpl in Hx; [|contradiction]. destruct Hx as [Hx | []]. subst x.
    apply in_map_iff in Hin. destruct Hin as [[k w] [Hk Hin]]. simpl in Hk. subst k.
    apply (kept_In old conf) in Hin. destruct Hin as [Hin _]. contradiction.
Qed.
Lemma gslb_merge_perm old conf :
  NoDup (map fst old) -> NoDup (map fst conf) -> Permutation (gslb_merge old conf) conf.
Proof.
  intros Ho Hc. fold (kept old conf) in *. unfold gslb_merge. fold (kept old conf).
  assert (Hnd : NoDup (map fst (kept old conf ++ filter (fun e => negb (mem_str (fst e) (map fst old))) conf))).
  { rewrite map_app. apply NoDup_app_intro.
    - apply kept_keys_nodup. exact Ho.
    - apply filter_keys_nodup. exact Hc.
    - intros k Hk Hin. apply in_map_iff in Hk. destruct Hk as [[k' w] [E Hk]]. simpl in E. subst k'.
      apply kept_In in Hk. destruct Hk as [Hk _].
      apply in_map_iff in Hin. destruct Hin as [[k' w'] [E Hin]]. simpl in E. subst k'.
      apply filter_In in Hin. destruct Hin as [_ Hin]. simpl in Hin. apply negb_true_iff in Hin.
      apply mem_str_false in Hin. contradiction. }
  apply NoDup_Permutation.
  - apply NoDup_map_inv' in Hnd. exact Hnd.
  - apply NoDup_map_inv' in Hc. exact Hc.
  - intros [k w]. rewrite in_app_iff, kept_In, filter_In. simpl. split.
    + intros [[_ Ha] | [Hin _]]; [apply assoc_In; exact Ha | exact Hin].
    + intro Hin. destruct (mem_str k (map fst old)) eqn:E.
      * left. split; [apply mem_str_In; exact E | apply assoc_nodup; assumption].
      * right. split; [exact Hin | reflexivity].
Qed.

(* Init(a); Reload(b) ends in the state of a fresh Init(b): same sorted sub-cluster list, total weight, single flag and
   (when single) avail index -- hence the same sub-cluster for every hash value *)
Lemma gslb_reload_history_independent a b :
  NoDup (map fst a) -> NoDup (map fst b) -> pos_total a <> 0 -> gslb_after_reload a b = gslb_fresh b.
Proof.
  intros Ha Hb Hpa. unfold gslb_after_reload, gslb_fresh.
  destruct (pos_total a =? 0) eqn:E; [apply Z.eqb_eq in E; contradiction|].
  assert (Hsa : NoDup (map fst (sort_by_name a)))
    by (eapply Permutation_NoDup; [apply Permutation_map; apply sort_by_name_perm | exact Ha]).
  pose proof (gslb_merge_perm (sort_by_name a) b Hsa Hb) as Hp.
  assert (Hs : sort_by_name (gslb_merge (sort_by_name a) b) = sort_by_name b).
  { apply sorted_perm_eq.
    - apply sort_by_name_sorted. eapply Permutation_NoDup; [apply Permutation_map; apply Permutation_sym; exact Hp | exact Hb].
    - apply sort_by_name_sorted. exact Hb.
    - eapply Permutation_trans; [apply Permutation_sym; apply sort_by_name_perm|].
      eapply Permutation_trans; [exact Hp | apply sort_by_name_perm]. }
  rewrite Hs. rewrite <- (pos_total_perm _ _ (sort_by_name_perm b)). reflexivity.
Qed.
(* stickyBalance / the backend inventory do not depend on the order in which Init or Update left the backend list *)
Lemma bk_sorted_perm bks bks' :
  NoDup (map addr_info bks) -> Permutation bks bks' -> bk_sorted bks = bk_sorted bks'.
Proof.
  intros Hnd Hp. unfold bk_sorted. f_equal.
  assert (Hk : forall l : list bk, map fst (map (fun b => (addr_info b, b)) l) = map addr_info l)
    by (intro l; rewrite map_map; reflexivity).
  assert (Hp' : Permutation (map (fun b => (addr_info b, b)) bks) (map (fun b => (addr_info b, b)) bks'))
    by (apply Permutation_map; exact Hp).
  apply sorted_perm_eq.
  - apply sort_by_name_sorted. rewrite Hk. exact Hnd.
  - apply sort_by_name_sorted. rewrite Hk. eapply Permutation_NoDup; [apply Permutation_map; exact Hp | exact Hnd].
  - eapply Permutation_trans; [apply Permutation_sym; apply sort_by_name_perm|].
    eapply Permutation_trans; [exact Hp' | apply sort_by_name_perm].
Qed.
Lemma sticky_pick_perm bks bks' h :
  NoDup (map addr_info bks) -> Permutation bks bks' ->
  sticky_pick bks h = sticky_pick bks' h /\ bk_inventory bks = bk_inventory bks'.
Proof.
  intros Hnd Hp. unfold sticky_pick, bk_inventory. rewrite (bk_sorted_perm bks bks' Hnd Hp). split; reflexivity.
Qed.

Lemma sort_merge_eq s c : NoDup (map fst s) -> NoDup (map fst c) -> sort_by_name (gslb_merge s c) = sort_by_name c.
Proof.
  intros Hs Hc. pose proof (gslb_merge_perm s c Hs Hc) as Hp. apply sorted_perm_eq.
  - apply sort_by_name_sorted. eapply Permutation_NoDup; [apply Permutation_map; apply Permutation_sym; exact Hp | exact Hc].
  - apply sort_by_name_sorted. exact Hc.
  - eapply Permutation_trans; [apply Permutation_sym; apply sort_by_name_perm|].
    eapply Permutation_trans; [exact Hp | apply sort_by_name_perm].
Qed.
Lemma sorted_keys_nodup (c : list (str * Z)) : NoDup (map fst c) -> NoDup (map fst (sort_by_name c)).
Proof. intro H. eapply Permutation_NoDup; [apply Permutation_map; apply sort_by_name_perm | exact H]. Qed.
Definition loadable (c : list (str * Z)) : Prop := NoDup (map fst c) /\ pos_total c <> 0.
Lemma gslb_chain_last confs : forall s b,
  NoDup (map fst s) -> Forall loadable confs -> loadable b ->
  gslb_chain s (confs ++ [b]) = Some (sort_by_name b).
Proof.
  induction confs as [|c r IH]; intros s b Hs Hall [Hb Hpb]; simpl.
  - rewrite (sort_merge_eq s b Hs Hb). rewrite <- (pos_total_perm _ _ (sort_by_name_perm b)).
    destruct (pos_total b =? 0) eqn:E; [apply Z.eqb_eq in E; contradiction | reflexivity].
  - inversion Hall as [|? ? [Hc Hpc] Hall']; subst.
    rewrite (sort_merge_eq s c Hs Hc). rewrite <- (pos_total_perm _ _ (sort_by_name_perm c)).
    destruct (pos_total c =? 0) eqn:E; [apply Z.eqb_eq in E; contradiction|].
    apply IH; [apply sorted_keys_nodup; exact Hc | exact Hall' | split; assumption].
Qed.
(* any history of loadable configurations followed by Reload(b) ends in the state of a fresh Init(b) *)
Lemma gslb_history_independent hist b :
  hist <> [] -> Forall loadable hist -> loadable b -> gslb_after_history hist b = gslb_fresh b.
Proof.
  intros Hne Hall Hb. destruct hist as [|a rest]; [contradiction|]. inversion Hall as [|? ? [Ha Hpa] Hall']; subst.
  unfold gslb_after_history, gslb_fresh.
  destruct (pos_total a =? 0) eqn:E; [apply Z.eqb_eq in E; contradiction|].
  rewrite (gslb_chain_last rest (sort_by_name a) b (sorted_keys_nodup a Ha) Hall' Hb).
  destruct Hb as [_ Hpb]. destruct (pos_total b =? 0) eqn:E'; [apply Z.eqb_eq in E'; contradiction | reflexivity].
Qed.

(* ------------------------------------------------------------------ C13: a JSON null at any pointer position of host_rule.data is rejected *)
Lemma host_null_rejected f :
  hf_version f = None \/ hf_hosts f = None \/ hf_tags f = None
  \/ (exists t, In (t, None) (olist (hf_hosts f))) \/ (exists p, In (p, None) (olist (hf_tags f))) ->
  host_conf_load f = None.
Proof.
  intro H. unfold host_conf_load.
  assert (Hc : host_conf_check f = false); [|rewrite Hc; reflexivity].
  unfold host_conf_check.
  destruct (hf_version f); [|reflexivity]. destruct (hf_hosts f) as [hosts|]; [|reflexivity].
  destruct (hf_tags f) as [tags|]; [|reflexivity]. simpl in H.
  destruct H as [H | [H | [H | [[t H] | [p H]]]]]; try discriminate.
  - assert (Hf : forallb (fun e : str * option (list str) =>
                           match snd e with None => false | Some _ => existsb (fun pe : str * option (list str) => mem_str (fst e) (olist (snd pe))) tags end) hosts = false).
    { destruct (forallb _ hosts) eqn:E; [|reflexivity]. rewrite forallb_forall in E. specialize (E _ H). discriminate. }
    rewrite Hf. rewrite andb_false_r. reflexivity.
  - assert (Hf : all_present tags = false).
    { unfold all_present. destruct (forallb _ tags) eqn:E; [|reflexivity]. rewrite forallb_forall in E. specialize (E _ H). discriminate. }
    rewrite Hf. reflexivity.
Qed.
