(* C42: proofs about the record-layer model (model/TlsRecord.v). *)
From Coq Require Import List ZArith Bool Lia.
From Bfe Require Import lib.Val lib.ValProofs lib.Bytes model.TlsRecord run.RunC42.
Import ListNotations.
Open Scope Z_scope.

(* ------------------------------------------------------------------------------------------ *)
(* generic list facts *)
Lemma nth_error_skipn_cons {A} (l : list A) k x :
  nth_error l k = Some x -> skipn k l = x :: skipn (S k) l.
Proof.
  revert k; induction l as [|a l IH]; intros [|k] H; simpl in *; try discriminate.
  - inversion H; reflexivity.
  - apply IH; exact H.
Qed.
Lemma firstn_S_nth {A} (l : list A) k x :
  nth_error l k = Some x -> firstn (S k) l = firstn k l ++ [x].
Proof.
  revert k; induction l as [|a l IH]; intros [|k] H; simpl in *; try discriminate.
  - inversion H; reflexivity.
  - f_equal. apply IH; exact H.
Qed.
Lemma nth_error_lt {A} (l : list A) k x : nth_error l k = Some x -> (k < length l)%nat.
Proof. intro H. apply nth_error_Some. congruence. Qed.

Definition app_data (S : list (Z * list Z)) : list Z :=
  flat_map (fun tp => if fst tp =? 23 then snd tp else []) S.

Section Generic.
  Variable B : Type.
  Variable seal : Z -> Z -> Z -> list Z -> B.
  Variable open : Z -> Z -> Z -> B -> option (list Z).
  Variable c : cfg.
  Variable S : list (Z * list Z).          (* the plaintext records (type, payload) the sender protected, in order *)

  (* correctness of the authenticated encryption, and what it binds *)
  Hypothesis open_seal : forall s t v p, open s t v (seal s t v p) = Some p.
  Hypothesis open_bind : forall s t v s' t' v' p,
      open s t v (seal s' t' v' p) <> None -> s = s' /\ t = t'.
  (* sender's payloads are bytes and at most maxPlaintext long (writeRecord splits) *)
  Hypothesis S_ok : Forall (fun tp => wf_bytes (snd tp) = true /\ blen (snd tp) <= maxPlaintext) S.

  (* Unforgeability, as a condition on what is on the wire: a record body is either one that the
     sender sealed (for its k-th record, with that record's length) or it opens under nothing. *)
  Definition authentic (r : srec B) : Prop :=
    match r_body r with
    | None => True
    | Some b =>
      (exists k t p, nth_error S k = Some (t, p) /\ b = seal (Z.of_nat k) t (c_vers c) p /\
                     r_actual r = wire_len c (blen p))
      \/ (forall s t v, open s t v b = None)
    end.

  Definition deliv (n : nat) : list Z := app_data (firstn n S).

  Lemma deliv_S k t p : nth_error S k = Some (t, p) ->
    deliv (Datatypes.S k) = deliv k ++ (if t =? 23 then p else []).
  Proof.
    intro H. unfold deliv, app_data. rewrite (firstn_S_nth _ _ _ H), flat_map_app. simpl.
    rewrite app_nil_r. reflexivity.
  Qed.

  Lemma decrypt_some seq r p : decrypt B open c seq r = Some p ->
    exists b, r_body r = Some b /\ r_claim r = r_actual r /\ open seq (r_typ r) (r_vers r) b = Some p.
  Proof.
    unfold decrypt, body_seen. intro H.
    destruct ((c_kind c =? 2) && (r_claim r <? c_expl c)); [discriminate|].
    destruct ((c_kind c =? 1) && _); [discriminate|].
    destruct (r_claim r =? r_actual r) eqn:E; [|discriminate].
    destruct (r_body r) as [b|]; [|discriminate].
    exists b. apply Z.eqb_eq in E. destruct (open seq (r_typ r) (r_vers r) b) as [p0|]; [|discriminate].
    destruct ((c_kind c =? 1) && negb (pad_accept (c_vers c) (sender_pad c (blen p0)))); [discriminate|].
    inversion H; subst. auto.
  Qed.

  (* an accepted record is the sender's record number seq, unmodified *)
  Lemma decrypt_sound seq r p : 0 <= seq -> authentic r -> r_vers r = c_vers c ->
    decrypt B open c seq r = Some p ->
    nth_error S (Z.to_nat seq) = Some (r_typ r, p) /\
    r = mkRec (r_typ r) (c_vers c) (wire_len c (blen p)) (wire_len c (blen p))
              (Some (seal seq (r_typ r) (c_vers c) p)).
  Proof.
    intros Hs Ha Hv H. destruct (decrypt_some _ _ _ H) as [b [Hb [Hc Ho]]].
    unfold authentic in Ha. rewrite Hb in Ha. destruct Ha as [[k [t [q [Hn [Hbq Hlen]]]]]|Hno].
    - subst b. assert (Hne : open seq (r_typ r) (r_vers r) (seal (Z.of_nat k) t (c_vers c) q) <> None) by congruence.
      destruct (open_bind _ _ _ _ _ _ _ Hne) as [E1 E2].
      rewrite E1, E2, Hv in Ho. rewrite open_seal in Ho. inversion Ho; subst q.
      subst seq. rewrite Nat2Z.id. split; [rewrite E2; exact Hn|].
      destruct r as [rt rv rc ra rb]; simpl in *. subst. reflexivity.
    - rewrite Hno in Ho. discriminate.
  Qed.

  (* what recv accepted: m records, which are exactly the sender's records seq .. seq+m-1 *)
  Definition genuine (seq : Z) (m : nat) (l : list (srec B)) : Prop :=
    firstn m l = protect_from B seal c seq (firstn m (skipn (Z.to_nat seq) S)) /\
    (Z.to_nat seq + m <= length S)%nat.

  Lemma genuine_0 seq l : (Z.to_nat seq <= length S)%nat -> genuine seq 0 l.
  Proof. intro H. split; [reflexivity|lia]. Qed.

  Lemma genuine_step seq m r rest p :
    0 <= seq -> nth_error S (Z.to_nat seq) = Some (r_typ r, p) ->
    r = mkRec (r_typ r) (c_vers c) (wire_len c (blen p)) (wire_len c (blen p)) (Some (seal seq (r_typ r) (c_vers c) p)) ->
    genuine (seq + 1) m rest -> genuine seq (Datatypes.S m) (r :: rest).
  Proof.
    intros Hs Hn Hr [Hg Hl]. assert (E : Z.to_nat (seq + 1) = Datatypes.S (Z.to_nat seq)) by lia.
    rewrite E in *. split; [|lia].
    rewrite (nth_error_skipn_cons _ _ _ Hn). simpl. rewrite Hg. rewrite Hr at 1. reflexivity.
  Qed.

  Lemma payload_ok k t p : nth_error S k = Some (t, p) -> wf_bytes p = true /\ blen p <= maxPlaintext.
  Proof.
    intro H. apply nth_error_In in H. rewrite Forall_forall in S_ok. apply (S_ok _ H).
  Qed.

  (* the invariant of Conn.Read's record loop *)
  Lemma recv_inv : forall l seq acc trail d st n,
    Forall authentic l -> 0 <= seq -> (Z.to_nat seq <= length S)%nat ->
    acc = deliv (Z.to_nat seq) ->
    recv B open c seq acc l trail = (d, st, n) ->
    exists m, n = seq + Z.of_nat m /\ genuine seq m l /\ d = deliv (Z.to_nat n) /\
      (st = 1 -> length l = m \/
                 ((1 <= m)%nat /\ exists lvl, nth_error S (Z.to_nat n - 1) = Some (21, [lvl; 0]))).
  Proof.
    induction l as [|r rest IH]; intros seq acc trail d st n Hall Hseq Hlen Hacc H.
    - simpl in H. inversion H; subst. exists 0%nat. split; [lia|].
      split; [apply genuine_0; exact Hlen|]. split; [reflexivity|]. intros _. left. reflexivity.
    - inversion Hall as [|x xs Har Hrest]. subst x xs.
      assert (Stop : forall code, code <> 1 -> (d, st, n) = (deliv (Z.to_nat seq), code, seq) ->
                exists m, n = seq + Z.of_nat m /\ genuine seq m (r :: rest) /\ d = deliv (Z.to_nat n) /\
                  (st = 1 -> length (r :: rest) = m \/
                     ((1 <= m)%nat /\ exists lvl, nth_error S (Z.to_nat n - 1) = Some (21, [lvl; 0])))).
      { intros code Hc E. inversion E; subst. exists 0%nat. split; [lia|].
        split; [apply genuine_0; exact Hlen|]. split; [reflexivity|]. intro; contradiction. }
      simpl in H.
      destruct (negb (r_vers r =? c_vers c)) eqn:Ev; [apply (Stop 170); [lia|(symmetry; exact H) || congruence]|].
      destruct (r_claim r >? maxCiphertext); [apply (Stop 122); [lia|(symmetry; exact H) || congruence]|].
      destruct (r_actual r + total B rest + trail <? r_claim r); [apply (Stop 2); [lia|(symmetry; exact H) || congruence]|].
      destruct (decrypt B open c seq r) as [p|] eqn:Ed.
      2:{ apply (Stop (fail_code B r)); [|(symmetry; exact H) || congruence]. unfold fail_code.
          destruct (5 + r_claim r >? maxPlaintext); [lia|]. destruct (r_typ r =? 23); [lia|].
          destruct (r_typ r =? 22); lia. }
      apply negb_false_iff, Z.eqb_eq in Ev.
      destruct (decrypt_sound _ _ _ Hseq Har Ev Ed) as [Hn Hr].
      destruct (payload_ok _ _ _ Hn) as [Hwf Hmax].
      assert (Hlt := nth_error_lt _ _ _ Hn).
      assert (E1 : Z.to_nat (seq + 1) = Datatypes.S (Z.to_nat seq)) by lia.
      assert (Hd := deliv_S _ _ _ Hn).
      (* result of stopping after having accepted r *)
      assert (Stop1 : forall code, (code = 1 -> exists lvl, p = [lvl; 0] /\ r_typ r = 21) ->
                negb (r_typ r =? 23) = true ->
                (d, st, n) = (acc, code, seq + 1) ->
                exists m, n = seq + Z.of_nat m /\ genuine seq m (r :: rest) /\ d = deliv (Z.to_nat n) /\
                  (st = 1 -> length (r :: rest) = m \/
                     ((1 <= m)%nat /\ exists lvl, nth_error S (Z.to_nat n - 1) = Some (21, [lvl; 0])))).
      { intros code Hc Ht E. inversion E; subst d st n. exists 1%nat. split; [lia|].
        split; [apply (genuine_step _ _ _ _ p Hseq Hn Hr); apply genuine_0; lia|].
        split.
        - rewrite E1, Hd. apply negb_true_iff in Ht. rewrite Ht, app_nil_r. exact Hacc.
        - intro Hst. right. split; [lia|]. destruct (Hc Hst) as [lvl [Hp Hty]]. exists lvl.
          rewrite E1. simpl. rewrite Nat.sub_0_r. rewrite Hn, Hp, Hty. reflexivity. }
      destruct (blen p >? maxPlaintext) eqn:Eo; [apply Z.gtb_lt in Eo; lia|].
      destruct (r_typ r =? 23) eqn:E23.
      { (* application data: delivered, continue *)
        destruct (IH (seq + 1) (acc ++ p) trail d st n Hrest ltac:(lia) ltac:(lia)) as [m [Hm [Hg [Hdd Hs]]]]; [|exact H|].
        - rewrite E1, Hd, Hacc. reflexivity.
        - exists (Datatypes.S m). split; [lia|]. split; [apply (genuine_step _ _ _ _ p Hseq Hn Hr Hg)|].
          split; [exact Hdd|]. intro Hst. destruct (Hs Hst) as [Hl|[Hm1 Hx]]; [left; simpl; lia|right].
          split; [lia|exact Hx]. }
      destruct (r_typ r =? 21) eqn:E21.
      { apply Z.eqb_eq in E21.
        destruct p as [|lvl [|a [|x p']]];
          try (apply (Stop1 110); [intro; lia|reflexivity|(symmetry; exact H) || congruence]).
        destruct (a =? 0) eqn:Ea.
        { apply Z.eqb_eq in Ea. subst a. apply (Stop1 1); [|reflexivity|(symmetry; exact H) || congruence].
          intros _. exists lvl. auto. }
        destruct (lvl =? 1).
        { (* warning alert: dropped, continue *)
          destruct (IH (seq + 1) acc trail d st n Hrest ltac:(lia) ltac:(lia)) as [m [Hm [Hg [Hdd Hs]]]]; [|exact H|].
          - rewrite E1, Hd. cbv iota. rewrite app_nil_r. exact Hacc.
          - exists (Datatypes.S m). split; [lia|]. split; [apply (genuine_step _ _ _ _ _ Hseq Hn Hr Hg)|].
            split; [exact Hdd|]. intro Hst. destruct (Hs Hst) as [Hl|[Hm1 Hx]]; [left; simpl; lia|right].
            split; [lia|exact Hx]. }
        assert (Ha : 0 <= a < 256).
        { unfold wf_bytes in Hwf. simpl in Hwf. unfold wf_byte in Hwf. lia. }
        destruct (lvl =? 2); [apply (Stop1 (300 + a)); [intro; lia|reflexivity|(symmetry; exact H) || congruence]|].
        apply (Stop1 110); [intro; lia|reflexivity|(symmetry; exact H) || congruence]. }
      destruct (r_typ r =? 22); [apply (Stop1 200); [intro; lia|reflexivity|(symmetry; exact H) || congruence]|].
      apply (Stop1 110); [intro; lia|reflexivity|(symmetry; exact H) || congruence].
  Qed.

  Lemma deliv_prefix n : exists rest, app_data S = deliv n ++ rest.
  Proof.
    exists (app_data (skipn n S)). unfold deliv, app_data. rewrite <- flat_map_app, firstn_skipn. reflexivity.
  Qed.

  (* C42 headline, generic in the authenticated-encryption primitive *)
  Theorem receive_prefix_only : forall l trail d st n,
    Forall authentic l -> receive B open c l trail = (d, st, n) ->
    (* delivered bytes = application data of the first n sender records: a prefix of what was sent *)
    (exists rest, app_data S = d ++ rest) /\
    (* the n records that were accepted are the sender's first n records, unmodified and in order,
       and n is the final sequence number *)
    0 <= n /\ firstn (Z.to_nat n) l = firstn (Z.to_nat n) (protect B seal c S) /\
    d = app_data (firstn (Z.to_nat n) S) /\
    (* Read ends with io.EOF only if the stream is exactly a prefix of the sender's stream cut at a
       record boundary (or inside a following record header), or the sender's own close_notify arrived
       in sequence; everything else ends with a hard error *)
    (st = 1 -> l = firstn (Z.to_nat n) (protect B seal c S) \/
               (1 <= n /\ exists lvl, nth_error S (Z.to_nat n - 1) = Some (21, [lvl; 0]))).
  Proof.
    intros l trail d st n Hall H. unfold receive in H.
    destruct (recv_inv l 0 [] trail d st n Hall ltac:(lia) ltac:(simpl; lia) eq_refl H) as [m [Hm [[Hg Hl] [Hd Hs]]]].
    simpl in Hm, Hg, Hl. subst n. rewrite Nat2Z.id in *.
    assert (Hp : firstn m (protect B seal c S) = protect_from B seal c 0 (firstn m S)).
    { unfold protect. clear. generalize 0. revert m. induction S as [|[t p] S' IH]; intros [|m] k; simpl; try reflexivity.
      rewrite IH. reflexivity. }
    split; [rewrite Hd; apply deliv_prefix|]. split; [lia|]. split; [rewrite Hp; exact Hg|].
    split; [exact Hd|]. intro Hst. destruct (Hs Hst) as [Hlen|[Hm1 Hx]].
    - left. rewrite Hp, <- Hg. symmetry. apply firstn_all2. lia.
    - right. split; [lia|exact Hx].
  Qed.
End Generic.

(* ------------------------------------------------------------------------------------------ *)
(* the free instance used by run_C42 satisfies the hypotheses *)
Lemma sopen_seal s t v p : sopen s t v (sseal s t v p) = Some p.
Proof. unfold sopen, sseal. rewrite !Z.eqb_refl. reflexivity. Qed.
Lemma sopen_bind s t v s' t' v' p : sopen s t v (sseal s' t' v' p) <> None -> s = s' /\ t = t'.
Proof.
  unfold sopen, sseal. destruct (s' =? s) eqn:E1; [|intro H; exfalso; apply H; reflexivity].
  destruct (t' =? t) eqn:E2; [|intro H; exfalso; apply H; reflexivity].
  apply Z.eqb_eq in E1, E2. auto.
Qed.

(* ---- the sender: chunking keeps the bytes ---- *)
Lemma chunks_concat : forall fuel p, (length p <= fuel)%nat -> concat (chunks fuel p) = p.
Proof.
  induction fuel as [|f IH]; intros p H.
  - destruct p; [reflexivity|simpl in H; lia].
  - destruct p as [|x p']; [reflexivity|].
    change (chunks (Datatypes.S f) (x :: p')) with
      (firstn (Z.to_nat initPlaintext) (x :: p') :: chunks f (skipn (Z.to_nat initPlaintext) (x :: p'))).
    assert (Hk : (1 <= Z.to_nat initPlaintext)%nat) by (unfold initPlaintext; lia).
    remember (Z.to_nat initPlaintext) as k. cbn [concat]. rewrite IH.
    + apply firstn_skipn.
    + rewrite skipn_length. cbn [length] in *. lia.
Qed.
Lemma chunks_bound : forall fuel p q, In q (chunks fuel p) -> blen q <= initPlaintext /\ exists a b, p = a ++ q ++ b.
Proof.
  induction fuel as [|f IH]; intros p q H; [contradiction|].
  destruct p as [|x p']; [contradiction|].
  change (chunks (Datatypes.S f) (x :: p')) with
      (firstn (Z.to_nat initPlaintext) (x :: p') :: chunks f (skipn (Z.to_nat initPlaintext) (x :: p'))) in H.
  remember (Z.to_nat initPlaintext) as k. destruct H as [H|H].
  - subst q. split.
    + unfold blen. rewrite firstn_length. unfold initPlaintext in *. lia.
    + exists [], (skipn k (x :: p')). simpl app at 1. symmetry. apply firstn_skipn.
  - destruct (IH _ _ H) as [Hb [a [b Hab]]]. split; [exact Hb|].
    exists (firstn k (x :: p') ++ a), b. rewrite <- app_assoc, <- Hab. symmetry. apply firstn_skipn.
Qed.
Lemma write_recs_concat cf p : concat (write_recs cf p) = p.
Proof.
  unfold write_recs. destruct ((1 <? blen p) && (c_vers cf <=? 769) && (c_kind cf =? 1)).
  - cbn [concat]. rewrite chunks_concat; [apply firstn_skipn|]. rewrite skipn_length. lia.
  - apply chunks_concat. lia.
Qed.
Lemma wf_bytes_app a b : wf_bytes (a ++ b) = wf_bytes a && wf_bytes b.
Proof. unfold wf_bytes. apply forallb_app. Qed.
Lemma write_recs_ok cf p q : wf_bytes p = true -> In q (write_recs cf p) ->
  wf_bytes q = true /\ blen q <= maxPlaintext.
Proof.
  intros Hw H. unfold write_recs in H.
  assert (Hsub : forall a b, p = a ++ q ++ b -> wf_bytes q = true).
  { intros a b E. rewrite E, !wf_bytes_app in Hw. apply andb_true_iff in Hw. destruct Hw as [_ Hw].
    apply andb_true_iff in Hw. tauto. }
  destruct ((1 <? blen p) && (c_vers cf <=? 769) && (c_kind cf =? 1)).
  - destruct H as [H|H].
    + subst q. split.
      * apply (Hsub [] (skipn 1 p)). rewrite app_nil_l. symmetry. apply firstn_skipn.
      * unfold blen. rewrite firstn_length. unfold maxPlaintext. lia.
    + destruct (chunks_bound _ _ _ H) as [Hb [a [b E]]]. split.
      * apply (Hsub (firstn 1 p ++ a) b). rewrite <- app_assoc, <- E. symmetry. apply firstn_skipn.
      * unfold initPlaintext, maxPlaintext in *. lia.
  - destruct (chunks_bound _ _ _ H) as [Hb [a [b E]]]. split; [apply (Hsub a b E)|].
    unfold initPlaintext, maxPlaintext in *. lia.
Qed.

Lemma app_data_app a b : app_data (a ++ b) = app_data a ++ app_data b.
Proof. unfold app_data. apply flat_map_app. Qed.
Lemma app_data_apps l : app_data (map (fun p => (typApp, p)) l) = concat l.
Proof. induction l as [|p l IH]; [reflexivity|]. unfold app_data in *. simpl. rewrite IH. reflexivity. Qed.
Lemma concat_flat_map {A} (f : A -> list (list Z)) l : concat (flat_map f l) = concat (map (fun x => concat (f x)) l).
Proof. induction l as [|x l IH]; [reflexivity|]. simpl. rewrite concat_app, IH. reflexivity. Qed.

(* the application data of the protected records is what the application wrote *)
Lemma app_data_plain cf writes close : app_data (plain_records cf writes close) = sent_bytes writes.
Proof.
  unfold plain_records, sent_bytes. rewrite app_data_app, app_data_apps, concat_flat_map.
  replace (app_data (match close with [] => [] | _ => [(typAlert, close)] end)) with (@nil Z) by (destruct close; reflexivity).
  rewrite app_nil_r. f_equal. induction writes as [|w ws IH]; [reflexivity|]. simpl. rewrite write_recs_concat, IH. reflexivity.
Qed.

Lemma plain_records_ok cf writes close : forallb wf_bytes writes = true ->
  wf_bytes close = true -> blen close <= maxPlaintext ->
  Forall (fun tp => wf_bytes (snd tp) = true /\ blen (snd tp) <= maxPlaintext) (plain_records cf writes close).
Proof.
  intros Hw Hcw Hcl. unfold plain_records. apply Forall_app. split.
  - apply Forall_forall. intros [t q] Hin. apply in_map_iff in Hin. destruct Hin as [q' [E Hin]]. inversion E; subst.
    apply in_flat_map in Hin. destruct Hin as [w [Hw1 Hq]]. rewrite forallb_forall in Hw.
    apply (write_recs_ok cf w q (Hw _ Hw1) Hq).
  - destruct close; [constructor|]. constructor; [|constructor]. cbn [snd]. split; assumption.
Qed.

(* the only alert record of the sender is the final close_notify *)
Lemma plain_records_alert cf writes close k lvl :
  nth_error (plain_records cf writes close) k = Some (21, [lvl; 0]) ->
  close = [lvl; 0] /\ Datatypes.S k = length (plain_records cf writes close).
Proof.
  unfold plain_records. set (A := map (fun p => (typApp, p)) (flat_map (write_recs cf) writes)).
  intro H. destruct (Nat.lt_ge_cases k (length A)) as [Hlt|Hge].
  - rewrite nth_error_app1 in H by exact Hlt. apply nth_error_In in H. subst A. apply in_map_iff in H.
    destruct H as [q [E _]]. unfold typApp in E. inversion E.
  - rewrite nth_error_app2 in H by exact Hge. destruct close as [|c0 cl].
    + destruct (k - length A)%nat; discriminate.
    + destruct (k - length A)%nat as [|j] eqn:Ej; [|destruct j; discriminate].
      simpl in H. inversion H. split; [reflexivity|]. rewrite app_length. simpl. lia.
Qed.

(* ---- the adversary's edits keep every body authentic ---- *)
Lemma Forall_firstn' {A} (P : A -> Prop) n l : Forall P l -> Forall P (firstn n l).
Proof. revert l; induction n; intros [|a l] H; simpl; try constructor; inversion H; auto. Qed.
Lemma Forall_skipn' {A} (P : A -> Prop) n l : Forall P l -> Forall P (skipn n l).
Proof. revert l; induction n; intros [|a l] H; simpl; try constructor; inversion H; auto. Qed.
Lemma Forall_nth {A} (P : A -> Prop) l k a : Forall P l -> nth_error l k = Some a -> P a.
Proof. intros H Hn. rewrite Forall_forall in H. apply H. eapply nth_error_In; eauto. Qed.

Section Adversary.
  Variable cf : cfg.
  Variable S : list (Z * list Z).
  Variable bf : srec sbody -> Z -> option sbody.
  Hypothesis Hbf : forall r off, bf r off = None.
  Let auth := authentic sbody sseal sopen cf S.

  Lemma protect_auth : forall Sr k, (forall j tp, nth_error Sr j = Some tp -> nth_error S (k + j) = Some tp) ->
    Forall auth (protect_from sbody sseal cf (Z.of_nat k) Sr).
  Proof.
    induction Sr as [|[t p] Sr IH]; intros k H; [constructor|]. simpl. constructor.
    - unfold auth, authentic. simpl. left. exists k, t, p. split; [|split; reflexivity].
      specialize (H 0%nat (t, p) eq_refl). rewrite Nat.add_0_r in H. exact H.
    - replace (Z.of_nat k + 1) with (Z.of_nat (Datatypes.S k)) by lia. apply IH. intros j tp Hj.
      specialize (H (Datatypes.S j) tp Hj). replace (Datatypes.S k + j)%nat with (k + Datatypes.S j)%nat by lia. exact H.
  Qed.

  Lemma flip_auth r off mask : auth r -> auth (flip_rec sbody bf r off mask).
  Proof.
    intro H. unfold flip_rec. rewrite Hbf.
    repeat match goal with |- auth (if ?b then _ else _) => destruct b end; try exact H; try exact I;
      destruct r; exact H.
  Qed.

  Lemma upd_auth l i f : (forall r, auth r -> auth (f r)) -> Forall auth l -> Forall auth (upd sbody l i f).
  Proof.
    intros Hf Hl. unfold upd. destruct (in_range sbody i l); [|exact Hl].
    apply Forall_app. split; [apply Forall_firstn'; exact Hl|].
    pose proof (Forall_skipn' auth (Z.to_nat i) l Hl) as Hs.
    destruct (skipn (Z.to_nat i) l) as [|r t]; [constructor|]. inversion Hs; subst. constructor; auto.
  Qed.
  Lemma insert_auth l j r : auth r -> Forall auth l -> Forall auth (insert_at sbody l j r).
  Proof.
    intros Hr Hl. unfold insert_at. destruct ((0 <=? j) && (j <=? Z.of_nat (length l))); [|exact Hl].
    apply Forall_app. split; [apply Forall_firstn'; exact Hl|]. constructor; [exact Hr|apply Forall_skipn'; exact Hl].
  Qed.

  Lemma apply_op_auth l o : Forall auth l -> Forall auth (apply_op sbody bf l o).
  Proof.
    intro Hl. destruct o as [i off mask|i j|i j|i|i t v n|i n]; cbn [apply_op].
    - apply upd_auth; [intros r Hr; apply flip_auth; exact Hr|exact Hl].
    - destruct (in_range sbody i l && in_range sbody j l); [|exact Hl].
      destruct (nth_error l (Z.to_nat i)) as [a|] eqn:Ea; [|exact Hl].
      destruct (nth_error l (Z.to_nat j)) as [b|] eqn:Eb; [|exact Hl].
      apply upd_auth; [intros _ _; apply (Forall_nth _ _ _ _ Hl Ea)|].
      apply upd_auth; [intros _ _; apply (Forall_nth _ _ _ _ Hl Eb)|exact Hl].
    - destruct (in_range sbody i l); [|exact Hl].
      destruct (nth_error l (Z.to_nat i)) as [a|] eqn:Ea; [|exact Hl].
      apply insert_auth; [apply (Forall_nth _ _ _ _ Hl Ea)|exact Hl].
    - destruct (in_range sbody i l); [|exact Hl].
      apply Forall_app. split; [apply Forall_firstn'|apply Forall_skipn']; exact Hl.
    - destruct ((0 <=? n) && (n <? 65536)); [|exact Hl]. apply insert_auth; [exact I|exact Hl].
    - apply upd_auth; [|exact Hl]. intros r Hr. destruct ((0 <=? n) && (n <? r_actual r)); [exact I|exact Hr].
  Qed.
  Lemma apply_script_auth s : forall l, Forall auth l -> Forall auth (apply_script sbody bf l s).
  Proof.
    unfold apply_script. induction s as [|o s IH]; intros l Hl; [exact Hl|]. simpl. apply IH, apply_op_auth, Hl.
  Qed.
  Lemma cut_auth : forall l n, Forall auth l -> Forall auth (fst (cut sbody l n)).
  Proof.
    induction l as [|r t IH]; intros n Hl; [constructor|]. cbn [cut]. inversion Hl as [|? ? Hr Ht]; subst.
    destruct (5 + r_actual r <=? n).
    - specialize (IH (n - (5 + r_actual r)) Ht). destruct (cut sbody t (n - (5 + r_actual r))) as [t' tr].
      cbn [fst] in *. constructor; assumption.
    - destruct (n <? 5); cbn [fst]; [constructor|]. constructor; [exact I|constructor].
  Qed.
  Lemma apply_cut_auth l n : Forall auth l -> Forall auth (fst (apply_cut sbody l n)).
  Proof. intro Hl. unfold apply_cut. destruct (n <? 0); [exact Hl|apply cut_auth, Hl]. Qed.
End Adversary.

Definition S_of (x : c42_in) : list (Z * list Z) := plain_records (i_cfg x) (i_writes x) (i_close x).

Lemma sbflip_none c : ssl3_longpad c = false -> forall r off, sbflip c r off = None.
Proof. intros H r off. unfold sbflip. rewrite H. reflexivity. Qed.

Lemma tampered_auth x : ssl3_longpad (i_cfg x) = false ->
  Forall (authentic sbody sseal sopen (i_cfg x) (S_of x)) (fst (tampered_wire x)).
Proof.
  intro Hl. unfold tampered_wire. apply apply_cut_auth, apply_script_auth; [apply sbflip_none, Hl|]. unfold orig_wire, protect.
  change 0 with (Z.of_nat 0). apply protect_auth. intros j tp H. exact H.
Qed.

(* ---- comparing wires ---- *)
Lemma srec_eqb_refl r : srec_eqb r r = true.
Proof.
  unfold srec_eqb. rewrite !Z.eqb_refl. simpl. destruct (r_body r) as [[k t v p pm]|]; [|reflexivity].
  simpl. rewrite !Z.eqb_refl, list_Z_eqb_refl, Bool.eqb_reflx. reflexivity.
Qed.
Lemma srecs_prefix_firstn n : forall l, srecs_prefix (firstn n l) l = true.
Proof. induction n; intros [|r l]; simpl; try reflexivity. rewrite srec_eqb_refl, IHn. reflexivity. Qed.
Lemma length_protect_from B seal cf : forall l k, length (protect_from B seal cf k l) = length l.
Proof. induction l as [|[t p] l IH]; intro k; simpl; [reflexivity|]. rewrite IH. reflexivity. Qed.

Lemma wf_base_bytes x : wf_base x = true ->
  forallb wf_bytes (i_writes x) = true /\ wf_bytes (i_close x) = true /\ blen (i_close x) <= maxPlaintext.
Proof.
  unfold wf_base. intro H. apply andb_true_iff in H. destruct H as [H _]. apply andb_true_iff in H. destruct H as [_ H].
  apply andb_true_iff in H. destruct H as [H H3]. apply andb_true_iff in H. destruct H as [H1 H2].
  apply Z.leb_le in H3. unfold maxPlaintext. repeat split; try assumption. lia.
Qed.

(* ------------------------------------------------------------------------------------------ *)
(* the executable model (free instance + tamper scripts): prefix and detection *)
Theorem model_prefix_and_detection : forall x w trail d st n,
  wf_base x = true -> ssl3_longpad (i_cfg x) = false -> tampered_wire x = (w, trail) ->
  receive sbody sopen (i_cfg x) w trail = (d, st, n) ->
  is_prefix d (sent_bytes (i_writes x)) = true /\
  0 <= n /\ firstn (Z.to_nat n) w = firstn (Z.to_nat n) (orig_wire x) /\
  (relevant x = true -> tail_dropped x = false -> st <> 1).
Proof.
  intros x w trail d st n Hwf Hlp Hw Hr.
  destruct (wf_base_bytes x Hwf) as [Hbytes [Hcw Hcl]].
  pose proof (tampered_auth x Hlp) as Ha. rewrite Hw in Ha. simpl in Ha.
  destruct (receive_prefix_only sbody sseal sopen (i_cfg x) (S_of x) sopen_seal sopen_bind
              (plain_records_ok _ _ _ Hbytes Hcw Hcl) w trail d st n Ha Hr) as [[rest Hp] [Hn [Hg [Hd Hs]]]].
  split; [|split; [exact Hn|split; [exact Hg|]]].
  - apply is_prefix_spec. exists rest. unfold S_of in Hp. rewrite app_data_plain in Hp. exact Hp.
  - intros Hrel Htd Hst. specialize (Hs Hst). unfold tail_dropped, relevant in *. rewrite Hw in *.
    change (protect sbody sseal (i_cfg x) (S_of x)) with (orig_wire x) in *.
    destruct Hs as [Hpre|[Hn1 [lvl Hx]]].
    + rewrite Hrel in Htd. rewrite Hpre in Htd. rewrite srecs_prefix_firstn in Htd. discriminate.
    + destruct (plain_records_alert (i_cfg x) (i_writes x) (i_close x) _ _ Hx) as [Hc Hlen].
      assert (Hall : firstn (Z.to_nat n) (orig_wire x) = orig_wire x).
      { apply firstn_all2. unfold orig_wire, protect. rewrite length_protect_from. lia. }
      rewrite Hall in Hg. rewrite Hc in Hrel. cbn [terminal Z.eqb orb] in Hrel. rewrite <- Hg in Hrel. rewrite srecs_prefix_firstn in Hrel. discriminate.
Qed.

(* the sticky error state of the model: every further Read returns nothing and the same error, so the
   total of delivered bytes is the authenticated prefix for every number of Read calls *)
Lemma sticky_reads st bufs :
  Forall (fun r => r = (0, st)) (reads_after st bufs) /\
  forall d, total_delivered d (reads_after st bufs) = blen d.
Proof.
  split.
  - unfold reads_after. apply Forall_forall. intros r H. apply in_map_iff in H. destruct H as [b [E _]]. subst. reflexivity.
  - intro d. unfold total_delivered, reads_after. induction bufs as [|b bufs IH]; simpl in *; lia.
Qed.
Lemma sticky_prop st bufs :
  forallb (fun v => val_eqb v (VL [VZ 0; VZ st])) (map (fun r => VL [VZ (fst r); VZ (snd r)]) (reads_after st bufs)) = true.
Proof.
  apply forallb_forall. intros v H. apply in_map_iff in H. destruct H as [r [E Hr]]. unfold reads_after in Hr.
  apply in_map_iff in Hr. destruct Hr as [b [Eb _]]. subst. unfold read_after. cbn [fst snd]. apply val_eqb_refl.
Qed.

Theorem prop_C42_of_model_tampered : forall i x,
  dec_C42 i = Some x -> wf_base x = true -> ssl3_longpad (i_cfg x) = false -> relevant x = true -> kf_C42 i = 0 ->
  prop_C42 i (run_C42 i) = true.
Proof.
  intros i x Hdec Hwf Hlp Hrel Hkf. unfold run_C42, prop_C42, kf_C42 in *. rewrite Hdec in *. rewrite Hwf in *.
  destruct (tampered_wire x) as [w trail] eqn:Hw.
  destruct (receive sbody sopen (i_cfg x) w trail) as [[d st] n] eqn:Hr.
  destruct (model_prefix_and_detection x w trail d st n Hwf Hlp Hw Hr) as [Hp [_ [_ Hdet]]].
  rewrite sticky_prop, Hp, Hrel. simpl. simpl in Hkf. destruct (tail_dropped x) eqn:Htd; [discriminate|].
  apply negb_true_iff, Z.eqb_neq. apply Hdet; [exact Hrel|reflexivity].
Qed.

(* ---- completeness: an untouched stream is delivered completely ---- *)
Lemma pad_pattern_length n : forall i, length (pad_pattern n i) = n.
Proof. induction n; intro i; simpl; [reflexivity|]. rewrite IHn. reflexivity. Qed.

Lemma sender_pad_len c m : 0 < c_bs c -> 0 <= c_padx c ->
  blen (sender_pad c m) =
  (c_bs c - (m + c_mac c) mod c_bs c) + (if c_pad c =? 2 then c_bs c * c_padx c else 0).
Proof.
  intros Hbs Hx. unfold sender_pad, blen. pose proof (Z.mod_pos_bound (m + c_mac c) (c_bs c) Hbs) as Hm.
  set (base := c_bs c - (m + c_mac c) mod c_bs c) in *.
  assert (Hmul : 0 <= c_bs c * c_padx c) by (apply Z.mul_nonneg_nonneg; lia).
  destruct (c_pad c =? 0) eqn:E0.
  { apply Z.eqb_eq in E0. rewrite E0. simpl (0 =? 2). rewrite repeat_length, Z2Nat.id by lia. lia. }
  destruct (c_pad c =? 1) eqn:E1.
  { apply Z.eqb_eq in E1. rewrite E1. simpl (1 =? 2). rewrite app_length, pad_pattern_length. simpl length.
    rewrite Nat2Z.inj_add, Z2Nat.id by lia. simpl Z.of_nat. lia. }
  destruct (c_pad c =? 2) eqn:E2.
  { cbv zeta. rewrite repeat_length, Z2Nat.id by lia. lia. }
  rewrite app_length, pad_pattern_length. simpl length. rewrite Nat2Z.inj_add, Z2Nat.id by lia. simpl Z.of_nat. lia.
Qed.

Section Complete.
  Variable B : Type.
  Variable seal : Z -> Z -> Z -> list Z -> B.
  Variable open : Z -> Z -> Z -> B -> option (list Z).
  Variable c : cfg.
  Hypothesis open_seal : forall s t v p, open s t v (seal s t v p) = Some p.
  Hypothesis Hc : cfg_ok c = true.

  Lemma wire_len_facts m : 0 <= m <= maxPlaintext ->
    0 <= wire_len c m <= maxCiphertext /\
    ((c_kind c =? 2) && (wire_len c m <? c_expl c) = false) /\
    ((c_kind c =? 1) && (negb (wire_len c m mod c_bs c =? 0) ||
                         (wire_len c m <? round_up (c_expl c + c_mac c + 1) (c_bs c))) = false).
  Proof.
    intro Hm. pose proof Hc as Hc'. unfold cfg_ok in Hc'. unfold maxPlaintext, maxCiphertext in *.
    apply andb_true_iff in Hc'. destruct Hc' as [Hc' H]. apply andb_true_iff in Hc'. destruct Hc' as [Hc' Hpx].
    apply andb_true_iff in Hc'. destruct Hc' as [Hwf Hsum].
    unfold wf_cfg in Hwf.
    repeat (apply andb_true_iff in Hwf; let W := fresh "W" in destruct Hwf as [Hwf W]).
    repeat match goal with H : (_ <=? _) = true |- _ => apply Z.leb_le in H | H : (_ <? _) = true |- _ => apply Z.ltb_lt in H end.
    unfold wire_len.
    destruct (c_kind c =? 0) eqn:E0; [apply Z.eqb_eq in E0|apply Z.eqb_neq in E0].
    { replace (c_kind c =? 2) with false by (symmetry; apply Z.eqb_neq; lia).
      replace (c_kind c =? 1) with false by (symmetry; apply Z.eqb_neq; lia). simpl. split; [lia|auto]. }
    destruct (c_kind c =? 1) eqn:E1; [apply Z.eqb_eq in E1|apply Z.eqb_neq in E1].
    - replace (c_kind c =? 2) with false by (symmetry; apply Z.eqb_neq; lia). cbn [andb orb negb] in *.
      apply andb_true_iff in H. destruct H as [Hb He].
      assert (Hbs : c_bs c = 8 \/ c_bs c = 16).
      { apply orb_true_iff in Hb. destruct Hb as [Hb|Hb]; apply Z.eqb_eq in Hb; auto. }
      assert (Hex : c_expl c = 0 \/ c_expl c = c_bs c).
      { apply orb_true_iff in He. destruct He as [He|He]; apply Z.eqb_eq in He; auto. }
      rewrite sender_pad_len by lia. unfold round_up.
      assert (Hextra : 0 <= (if c_pad c =? 2 then c_bs c * c_padx c else 0) <= c_bs c * 15).
      { destruct (c_pad c =? 2); [|lia]. destruct Hbs as [Hbs|Hbs]; rewrite Hbs; lia. }
      assert (Hmod : exists k, (if c_pad c =? 2 then c_bs c * c_padx c else 0) = c_bs c * k).
      { destruct (c_pad c =? 2); [exists (c_padx c)|exists 0]; lia. }
      destruct Hmod as [k Hk]. rewrite Hk in *. clear Hk.
      split; [|split; [reflexivity|]].
      + destruct Hbs as [Hbs|Hbs]; rewrite Hbs in *; destruct Hex as [Hex|Hex]; rewrite Hex in *;
          Z.div_mod_to_equations; lia.
      + apply orb_false_iff. split.
        * apply negb_false_iff, Z.eqb_eq.
          destruct Hbs as [Hbs|Hbs]; rewrite Hbs in *; destruct Hex as [Hex|Hex]; rewrite Hex in *;
            Z.div_mod_to_equations; lia.
        * apply Z.ltb_ge.
          destruct Hbs as [Hbs|Hbs]; rewrite Hbs in *; destruct Hex as [Hex|Hex]; rewrite Hex in *;
            Z.div_mod_to_equations; lia.
    - assert (E2 : c_kind c = 2) by lia. rewrite E2. cbn [andb Z.eqb Pos.eqb]. split; [lia|].
      split; [|reflexivity]. apply Z.ltb_ge. lia.
  Qed.

  Lemma total_app l1 l2 : total B (l1 ++ l2) = total B l1 + total B l2.
  Proof. induction l1 as [|r l1 IH]; simpl; [reflexivity|]. rewrite IH. lia. Qed.
  Lemma total_protect : forall Sr k, Forall (fun tp => 0 <= blen (snd tp) <= maxPlaintext) Sr ->
    0 <= total B (protect_from B seal c k Sr).
  Proof.
    induction Sr as [|[t p] Sr IH]; intros k H; cbn [protect_from total r_actual]; [lia|].
    inversion H as [|? ? H2 H3]; subst. cbn [snd] in H2.
    destruct (wire_len_facts (blen p) H2) as [Hw _]. specialize (IH (k + 1) H3). lia.
  Qed.

  (* the receiving version accepts the peer's padding of an m-byte record *)
  Definition pad_fine (p : list Z) : Prop :=
    (c_kind c =? 1) && negb (pad_accept (c_vers c) (sender_pad c (blen p))) = false.

  (* one genuine record at the head of the stream passes every check of readRecord / decrypt *)
  Lemma recv_head t p seq acc rest trail : 0 <= blen p <= maxPlaintext -> pad_fine p -> 0 <= total B rest + trail ->
    recv B open c seq acc
      (mkRec t (c_vers c) (wire_len c (blen p)) (wire_len c (blen p)) (Some (seal seq t (c_vers c) p)) :: rest) trail =
    (if t =? 23 then recv B open c (seq + 1) (acc ++ p) rest trail
     else if t =? 21 then
       match p with
       | [lvl; a] => if a =? 0 then (acc, 1, seq + 1)
                     else if lvl =? 1 then recv B open c (seq + 1) acc rest trail
                     else if lvl =? 2 then (acc, 300 + a, seq + 1) else (acc, 110, seq + 1)
       | _ => (acc, 110, seq + 1)
       end
     else if t =? 22 then (acc, 200, seq + 1) else (acc, 110, seq + 1)).
  Proof.
    intros Hp Hpad Ht. destruct (wire_len_facts (blen p) Hp) as [Hw [H2 H1]].
    cbn [recv r_vers r_claim r_actual r_typ]. rewrite Z.eqb_refl. cbn [negb].
    replace (wire_len c (blen p) >? maxCiphertext) with false by (symmetry; rewrite Z.gtb_ltb; apply Z.ltb_ge; lia).
    replace (wire_len c (blen p) + total B rest + trail <? wire_len c (blen p)) with false by (symmetry; apply Z.ltb_ge; lia).
    unfold decrypt, body_seen. cbn [r_claim r_actual r_body r_typ r_vers]. rewrite H2, H1, Z.eqb_refl, open_seal.
    unfold pad_fine in Hpad. rewrite Hpad.
    cbv zeta. replace (blen p >? maxPlaintext) with false by (symmetry; rewrite Z.gtb_ltb; apply Z.ltb_ge; lia).
    reflexivity.
  Qed.

  Lemma recv_apps : forall (ws : list (list Z)) seq acc rest trail,
    Forall (fun p => 0 <= blen p <= maxPlaintext /\ pad_fine p) ws -> 0 <= total B rest + trail ->
    recv B open c seq acc (protect_from B seal c seq (map (fun p : list Z => (typApp, p)) ws) ++ rest) trail =
    recv B open c (seq + Z.of_nat (length ws)) (acc ++ concat ws) rest trail.
  Proof.
    induction ws as [|p ws IH]; intros seq acc rest trail Hws Ht.
    - simpl. rewrite Z.add_0_r, app_nil_r. reflexivity.
    - inversion Hws as [|? ? [Hp Hpf] Hws']; subst. cbn [map protect_from app].
      assert (Hrest : 0 <= total B (protect_from B seal c (seq + 1) (map (fun p0 : list Z => (typApp, p0)) ws) ++ rest) + trail).
      { rewrite total_app.
        assert (0 <= total B (protect_from B seal c (seq + 1) (map (fun p0 : list Z => (typApp, p0)) ws))).
        { apply total_protect. apply Forall_forall. intros [t q] Hin. apply in_map_iff in Hin.
          destruct Hin as [q' [E Hin]]. inversion E; subst. rewrite Forall_forall in Hws'. apply Hws'. exact Hin. }
        lia. }
      rewrite (recv_head typApp p seq acc _ trail Hp Hpf Hrest).
      unfold typApp. cbn [Z.eqb Pos.eqb]. rewrite IH by assumption. cbn [concat length].
      rewrite app_assoc. f_equal; lia.
  Qed.
End Complete.

Lemma concat_write_recs cf ws : concat (flat_map (write_recs cf) ws) = concat ws.
Proof. induction ws as [|w l IH]; [reflexivity|]. simpl. rewrite concat_app, write_recs_concat, IH. reflexivity. Qed.

(* the untouched stream of the executable model: if the receiving version accepts the peer's padding,
   everything is delivered, Read ends with io.EOF, the sequence number is the number of records *)
Theorem model_untampered : forall x, wf_base x = true -> cfg_ok (i_cfg x) = true -> pads_ok x = true ->
  receive sbody sopen (i_cfg x) (orig_wire x) 0 =
  (sent_bytes (i_writes x), clean_status (i_close x), Z.of_nat (length (S_of x))).
Proof.
  intros x Hwf Hc Hpads. destruct (wf_base_bytes x Hwf) as [Hbytes [Hcw Hcl]].
  pose proof (plain_records_ok (i_cfg x) (i_writes x) (i_close x) Hbytes Hcw Hcl) as Hok.
  unfold pads_ok in Hpads. rewrite forallb_forall in Hpads.
  assert (Hpf : forall tp, In tp (plain_records (i_cfg x) (i_writes x) (i_close x)) -> pad_fine (i_cfg x) (snd tp)).
  { intros tp Hin. specialize (Hpads tp Hin). unfold pad_fine.
    destruct (c_kind (i_cfg x) =? 1); [|reflexivity]. cbn [negb orb andb] in *. apply negb_false_iff. exact Hpads. }
  unfold receive, orig_wire, protect, S_of in *. unfold plain_records in *.
  set (ws := flat_map (write_recs (i_cfg x)) (i_writes x)) in *.
  apply Forall_app in Hok. destruct Hok as [Hws _].
  assert (Hws' : Forall (fun p => 0 <= blen p <= maxPlaintext /\ pad_fine (i_cfg x) p) ws).
  { apply Forall_forall. intros p Hin. rewrite Forall_forall in Hws.
    assert (Hin' : In (typApp, p) (map (fun p : list Z => (typApp, p)) ws)) by (apply in_map_iff; exists p; auto).
    specialize (Hws (typApp, p) Hin'). simpl in Hws. split; [unfold blen in *; lia|].
    apply (Hpf (typApp, p)). apply in_or_app. left. exact Hin'. }
  assert (Hcat : concat ws = sent_bytes (i_writes x)).
  { unfold ws, sent_bytes. apply concat_write_recs. }
  assert (Hpfr : forall k a b, protect_from sbody sseal (i_cfg x) k (a ++ b) =
                 protect_from sbody sseal (i_cfg x) k a ++ protect_from sbody sseal (i_cfg x) (k + Z.of_nat (length a)) b).
  { intros k a. revert k. induction a as [|[t p] a IH]; intros k b; cbn [app protect_from length].
    - rewrite Z.add_0_r. reflexivity.
    - rewrite IH. replace (k + 1 + Z.of_nat (length a)) with (k + Z.of_nat (Datatypes.S (length a))) by lia. reflexivity. }
  rewrite Hpfr, app_length, map_length.
  destruct (i_close x) as [|c0 cl] eqn:Ecl.
  - cbn [protect_from]. rewrite (recv_apps sbody sseal sopen (i_cfg x) sopen_seal Hc ws 0 [] [] 0 Hws' ltac:(simpl; lia)).
    simpl recv. rewrite Hcat. simpl app. repeat f_equal. simpl length. lia.
  - set (fin := c0 :: cl) in *.
    assert (Hal : pad_fine (i_cfg x) fin).
    { apply (Hpf (typAlert, fin)). apply in_or_app. right. left. reflexivity. }
    assert (Hfl : 0 <= blen fin <= maxPlaintext) by (unfold blen in *; lia).
    rewrite (recv_apps sbody sseal sopen (i_cfg x) sopen_seal Hc ws 0 [] _ 0 Hws').
    + cbn [protect_from]. rewrite ?map_length.
      rewrite (recv_head sbody sseal sopen (i_cfg x) sopen_seal Hc typAlert fin _ _ [] 0 Hfl Hal ltac:(simpl; lia)).
      unfold typAlert. cbn [Z.eqb Pos.eqb]. rewrite Hcat. simpl app.
      replace (0 + Z.of_nat (length ws) + 1) with (Z.of_nat (length ws + length [(21, fin)])) by (simpl length; lia).
      unfold fin, clean_status. destruct cl as [|a [|b cl']]; try reflexivity.
      destruct (a =? 0); [reflexivity|]. destruct (c0 =? 1); [reflexivity|]. destruct (c0 =? 2); reflexivity.
    + cbn [protect_from]. rewrite ?map_length. cbn [total r_actual].
      destruct (wire_len_facts sbody sseal sopen (i_cfg x) sopen_seal Hc (blen fin)) as [Hw _]; [exact Hfl|]. lia.
Qed.

Lemma srecs_prefix_refl l : srecs_prefix l l = true.
Proof. rewrite <- (firstn_all l) at 1. apply srecs_prefix_firstn. Qed.

(* prop_C42 holds of the model on inputs without tampering *)
Theorem prop_C42_of_model_untampered : forall i x,
  dec_C42 i = Some x -> wf_base x = true -> cfg_ok (i_cfg x) = true -> ssl3_longpad (i_cfg x) = false ->
  i_script x = [] -> i_cut x < 0 ->
  prop_C42 i (run_C42 i) = true.
Proof.
  intros i x Hdec Hwf Hc Hlp Hs Hcut.
  assert (Hw : tampered_wire x = (orig_wire x, 0)).
  { unfold tampered_wire, apply_cut. rewrite Hs. simpl apply_script. apply Z.ltb_lt in Hcut. rewrite Hcut. reflexivity. }
  assert (Hrel : relevant x = false).
  { unfold relevant. rewrite Hw. unfold srecs_eqb. rewrite srecs_prefix_refl, Z.eqb_refl. destruct (terminal (i_close x)); reflexivity. }
  unfold run_C42, prop_C42. rewrite Hdec, Hwf, Hw, Hrel.
  destruct (receive sbody sopen (i_cfg x) (orig_wire x) 0) as [[d st] n] eqn:Hr.
  cbn [andb].
  destruct (model_prefix_and_detection x _ _ d st n Hwf Hlp Hw Hr) as [Hp _]. rewrite sticky_prop, Hp.
  destruct (pads_ok x) eqn:Hpo; [|reflexivity].
  rewrite (model_untampered x Hwf Hc Hpo) in Hr. inversion Hr; subst.
  rewrite Z.eqb_refl. unfold bytes_eqb. rewrite list_Z_eqb_refl. reflexivity.
Qed.

(* CENTRAL THEOREM: the property predicate holds of the model on every well-formed input outside the
   finding class *)
Theorem prop_C42_of_model : forall i x,
  dec_C42 i = Some x -> wf_C42 x = true -> kf_C42 i = 0 -> prop_C42 i (run_C42 i) = true.
Proof.
  intros i x Hdec Hwf Hkf. unfold wf_C42 in Hwf. apply andb_true_iff in Hwf. destruct Hwf as [Hwf Hcase].
  apply andb_true_iff in Hwf. destruct Hwf as [Hwf Hlp]. apply negb_true_iff in Hlp.
  apply andb_true_iff in Hwf. destruct Hwf as [Hb Hc].
  destruct (relevant x) eqn:Hrel.
  - apply (prop_C42_of_model_tampered i x Hdec Hb Hlp Hrel Hkf).
  - simpl in Hcase. apply andb_true_iff in Hcase. destruct Hcase as [Hs Hcut].
    destruct (i_script x) eqn:Es; [|discriminate]. apply Z.ltb_lt in Hcut.
    apply (prop_C42_of_model_untampered i x Hdec Hb Hc Hlp Es Hcut).
Qed.

(* ---- witnesses ---- *)
Definition hello_world : val := VL [VB [104; 101; 108; 108; 111]; VB [119; 111; 114; 108; 100]].
Definition ex_taildrop : val :=
  VL [VL [VZ 47; VZ 771; VZ 1; VZ 20; VZ 16; VZ 16; VZ 0; VZ 0; VZ 0]; hello_world; VB [1; 0];
      VL [VL [VZ 4; VZ 2]; VL [VZ 4; VZ 1]]; VZ (-1); VZ 0; VZ 64; VL [VZ 5; VZ 4096]].
Definition ex_flip_tag : val :=
  VL [VL [VZ 49199; VZ 771; VZ 2; VZ 0; VZ 0; VZ 8; VZ 16; VZ 0; VZ 0]; hello_world; VB [1; 0];
      VL [VL [VZ 1; VZ 1; VZ 33; VZ 1]]; VZ (-1); VZ 0; VZ 64; VL [VZ 5; VZ 4096]].
Definition ex_replay : val :=
  VL [VL [VZ 5; VZ 769; VZ 0; VZ 20; VZ 0; VZ 0; VZ 0; VZ 0; VZ 0]; hello_world; VB [1; 0];
      VL [VL [VZ 3; VZ 0; VZ 1]]; VZ (-1); VZ 0; VZ 64; VL [VZ 5; VZ 4096]].
Definition ex_forged_close : val :=
  VL [VL [VZ 47; VZ 769; VZ 1; VZ 20; VZ 16; VZ 0; VZ 0; VZ 0; VZ 0]; hello_world; VB [];
      VL [VL [VZ 5; VZ 1; VZ 21; VZ 769; VZ 2]]; VZ (-1); VZ 0; VZ 64; VL [VZ 5; VZ 4096]].
Definition ex_clean : val :=
  VL [VL [VZ 47; VZ 769; VZ 1; VZ 20; VZ 16; VZ 0; VZ 0; VZ 0; VZ 0]; hello_world; VB [1; 0]; VL []; VZ (-1); VZ 0; VZ 64; VL [VZ 5; VZ 4096]].

Lemma tail_truncation_witness : exists i x,
  dec_C42 i = Some x /\ wf_C42 x = true /\ relevant x = true /\ kf_C42 i = 1 /\
  run_C42 i = VL [VB [104; 101; 108; 108; 111]; VZ 1; VZ 1; VL [VL [VZ 0; VZ 1]; VL [VZ 0; VZ 1]]; VZ 0] /\ prop_C42 i (run_C42 i) = false.
Proof.
  exists ex_taildrop. eexists. split; [vm_compute; reflexivity|]. vm_compute. repeat split.
Qed.
Lemma examples_lemma :
  run_C42 ex_flip_tag = VL [VB [104; 101; 108; 108; 111]; VZ 120; VZ 1; VL [VL [VZ 0; VZ 120]; VL [VZ 0; VZ 120]]; VZ 120] /\ kf_C42 ex_flip_tag = 0 /\
  run_C42 ex_replay = VL [VB [104; 101; 108; 108; 111]; VZ 120; VZ 1; VL [VL [VZ 0; VZ 120]; VL [VZ 0; VZ 120]]; VZ 120] /\ kf_C42 ex_replay = 0 /\
  run_C42 ex_forged_close = VL [VB [104]; VZ 110; VZ 1; VL [VL [VZ 0; VZ 110]; VL [VZ 0; VZ 110]]; VZ 110] /\ kf_C42 ex_forged_close = 0 /\
  run_C42 ex_clean = VL [VB [104; 101; 108; 108; 111; 119; 111; 114; 108; 100]; VZ 1; VZ 5; VL [VL [VZ 0; VZ 1]; VL [VZ 0; VZ 1]]; VZ 0].
Proof. vm_compute. repeat split. Qed.

(* a peer with SSLv3-style padding (arbitrary content): rejected by a TLS 1.0 receiver, accepted by SSLv3 *)
Definition ex_ssl3_pad_tls : val :=
  VL [VL [VZ 47; VZ 769; VZ 1; VZ 20; VZ 16; VZ 0; VZ 0; VZ 1; VZ 0]; hello_world; VB [1; 0]; VL []; VZ (-1); VZ 0; VZ 64; VL [VZ 5; VZ 4096]].
Definition ex_ssl3_pad_ssl3 : val :=
  VL [VL [VZ 47; VZ 768; VZ 1; VZ 20; VZ 16; VZ 0; VZ 0; VZ 1; VZ 0]; hello_world; VB [1; 0]; VL []; VZ (-1); VZ 0; VZ 64; VL [VZ 5; VZ 4096]].
Lemma wf_examples_lemma :
  (exists x, dec_C42 ex_flip_tag = Some x /\ wf_C42 x = true) /\
  (exists x, dec_C42 ex_replay = Some x /\ wf_C42 x = true) /\
  (exists x, dec_C42 ex_forged_close = Some x /\ wf_C42 x = true) /\
  (exists x, dec_C42 ex_clean = Some x /\ wf_C42 x = true /\ pads_ok x = true) /\
  (exists x, dec_C42 ex_ssl3_pad_tls = Some x /\ wf_C42 x = true /\ pads_ok x = false /\
             run_C42 ex_ssl3_pad_tls = VL [VB []; VZ 120; VZ 0; VL [VL [VZ 0; VZ 120]; VL [VZ 0; VZ 120]]; VZ 120]) /\
  (exists x, dec_C42 ex_ssl3_pad_ssl3 = Some x /\ wf_C42 x = true /\ pads_ok x = true).
Proof. repeat split; eexists; (split; [vm_compute; reflexivity|]); vm_compute; repeat split. Qed.

(* finding 2: SSLv3, peer with three blocks of padding, one bit of the padding flipped: accepted *)
Definition ex_ssl3_longpad_flip : val :=
  VL [VL [VZ 47; VZ 768; VZ 1; VZ 20; VZ 16; VZ 0; VZ 0; VZ 2; VZ 2]; hello_world; VB [1; 0];
      VL [VL [VZ 1; VZ 1; VZ 38; VZ 4]]; VZ (-1); VZ 0; VZ 64; VL [VZ 5; VZ 4096]].
Lemma ssl3_padding_witness : exists x,
  dec_C42 ex_ssl3_longpad_flip = Some x /\ wf_base x = true /\ ssl3_longpad (i_cfg x) = true /\
  relevant x = true /\ kf_C42 ex_ssl3_longpad_flip = 2 /\
  run_C42 ex_ssl3_longpad_flip = VL [VB [104; 101; 108; 108; 111; 119; 111; 114; 108; 100]; VZ 1; VZ 5; VL [VL [VZ 0; VZ 1]; VL [VZ 0; VZ 1]]; VZ 0] /\
  prop_C42 ex_ssl3_longpad_flip (run_C42 ex_ssl3_longpad_flip) = false.
Proof. eexists. split; [vm_compute; reflexivity|]. vm_compute. repeat split. Qed.
