(* Proofs about model/Hpack.v (C30, C31). *)
From Coq Require Import List ZArith Bool Lia ZifyBool ZifyNat.
From Bfe Require Import lib.Val lib.Bytes gen.HpackTables model.Huffman model.Hpack proofs.HuffmanProofs.
Import ListNotations.
Open Scope Z_scope.

(* ================= variable-length integers ================= *)
Lemma pow2_pos m : 0 <= m -> 0 < 2 ^ m.
Proof. intros. apply Z.pow_pos_nonneg; lia. Qed.

Lemma varint_loop_tail rest : forall fuel j acc m,
  0 <= j -> 0 <= m -> j * 2 ^ m < 2 ^ 63 -> j < 128 ^ Z.of_nat fuel ->
  varint_loop (varint_tail fuel j ++ rest) acc m = ROk (acc + j * 2 ^ m) rest.
Proof.
  induction fuel as [|f IH]; intros j acc m Hj Hm Hb Hf.
  - simpl in Hf. assert (j = 0) by lia. subst. cbn [varint_tail app varint_loop]. change (0 mod 128) with 0. change (0 <? 128) with true. cbv iota. reflexivity.
  - cbn [varint_tail]. destruct (j >=? 128) eqn:E.
    + cbn [app varint_loop].
      assert ((128 + j mod 128) mod 128 = j mod 128) as Hmod.
      { clear. Z.div_mod_to_equations. lia. }
      rewrite Hmod. pose proof (Z.mod_pos_bound j 128 ltac:(lia)) as Hmb.
      assert (128 + j mod 128 <? 128 = false) as -> by lia.
      pose proof (pow2_pos m Hm) as Hp.
      assert (m + 7 < 63) as Hlt.
      { apply (Z.pow_lt_mono_r_iff 2); [lia|lia|]. rewrite Z.pow_add_r by lia. nia. }
      assert (m + 7 >=? 63 = false) as -> by lia.
      pose proof (Z.div_mod j 128 ltac:(lia)) as Hdm.
      assert (0 <= j / 128) as Hq by (apply Z.div_pos; lia).
      rewrite IH.
      * f_equal. rewrite Z.pow_add_r by lia. change (2 ^ 7) with 128. nia.
      * exact Hq.
      * lia.
      * rewrite Z.pow_add_r by lia. change (2 ^ 7) with 128. nia.
      * rewrite Nat2Z.inj_succ, Z.pow_succ_r in Hf by lia.
        apply Z.div_lt_upper_bound; lia.
    + cbn [app varint_loop]. assert (j mod 128 = j) as -> by (apply Z.mod_small; lia).
      assert (j <? 128 = true) as -> by lia. reflexivity.
Qed.

(* shape and decoding of an encoded prefixed integer with type bits `flag` above the n-bit prefix *)
Lemma varint_enc n flag i rest :
  1 <= n <= 7 -> 0 <= i < 2 ^ 62 -> 0 <= flag -> flag mod 2 ^ n = 0 ->
  exists b0 t, or_first flag (append_varint n i) = b0 :: t /\ flag <= b0 < flag + 2 ^ n
               /\ read_varint n ((b0 :: t) ++ rest) = ROk i rest.
Proof.
  intros Hn Hi Hfl Hfm. unfold append_varint.
  assert (2 <= 2 ^ n <= 128) as Hp.
  { split.
    - change 2 with (2 ^ 1) at 1. apply Z.pow_le_mono_r; lia.
    - change 128 with (2 ^ 7). apply Z.pow_le_mono_r; lia. }
  assert (forall x, 0 <= x < 2 ^ n -> (x + flag) mod 2 ^ n = x) as Hmod.
  { intros x Hx. rewrite Z.add_mod, Hfm, Z.add_0_r, Z.mod_mod by lia. apply Z.mod_small. exact Hx. }
  destruct (i <? 2 ^ n - 1) eqn:E.
  - exists (i + flag), []. split; [reflexivity|split; [lia|]].
    cbn [app read_varint]. rewrite Hmod by lia. rewrite E. reflexivity.
  - exists (2 ^ n - 1 + flag), (varint_tail 10 (i - (2 ^ n - 1))). split; [reflexivity|split; [lia|]].
    cbn [app read_varint]. rewrite Hmod by lia.
    assert (2 ^ n - 1 <? 2 ^ n - 1 = false) as -> by lia.
    rewrite varint_loop_tail; [f_equal; lia|lia|lia| |].
    + rewrite Z.pow_0_r. change (2 ^ 63) with 9223372036854775808.
      change (2 ^ 62) with 4611686018427387904 in Hi. lia.
    + change (128 ^ Z.of_nat 10) with 1180591620717411303424.
      change (2 ^ 62) with 4611686018427387904 in Hi. lia.
Qed.

(* ================= strings ================= *)
Definition hd_ok (hd : bytes -> hres) : Prop := forall s, wf_bytes s = true -> hd (huff_encode s) = HOk s.

Lemma firstn_skipn_app_exact {A} (a b : list A) n : n = length a -> firstn n (a ++ b) = a /\ skipn n (a ++ b) = b.
Proof.
  intros ->. split.
  - rewrite firstn_app, Nat.sub_diag, firstn_all. simpl. apply app_nil_r.
  - rewrite skipn_app, skipn_all, Nat.sub_diag. reflexivity.
Qed.

Lemma huff_enc_len_nonneg s : wf_bytes s = true -> 0 <= huff_enc_len s.
Proof. intros H. destruct (huff_encode_facts s H) as [_ [Hl _]]. rewrite <- Hl. unfold blen. lia. Qed.

Lemma string_roundtrip hd s rest :
  hd_ok hd -> wf_bytes s = true -> blen s < 2 ^ 62 ->
  read_string hd (append_hpack_string s ++ rest) = ROk s rest.
Proof.
  intros Hhd Hw Hlen. unfold append_hpack_string.
  destruct (huff_encode_facts s Hw) as [_ [Hl _]].
  pose proof (huff_enc_len_nonneg s Hw) as Hnn.
  assert (0 <= blen s) as Hbs by (unfold blen; lia).
  destruct (huff_enc_len s <? blen s) eqn:E.
  - destruct (varint_enc 7 128 (huff_enc_len s) (huff_encode s ++ rest)) as [b0 [t [He [Hb Hr]]]];
      [lia|lia|lia|reflexivity|].
    rewrite He, <- app_assoc. unfold read_string. cbn [app]. cbn [app] in Hr. rewrite Hr.
    assert (blen (huff_encode s ++ rest) <? huff_enc_len s = false) as ->.
    { unfold blen in *. rewrite app_length. lia. }
    destruct (firstn_skipn_app_exact (huff_encode s) rest (Z.to_nat (huff_enc_len s))) as [H1 H2].
    { unfold blen in Hl. lia. }
    rewrite H1, H2. assert (128 <=? b0 = true) as -> by lia. rewrite (Hhd s Hw). reflexivity.
  - destruct (varint_enc 7 0 (blen s) (s ++ rest)) as [b0 [t [He [Hb Hr]]]]; [lia|lia|lia|reflexivity|].
    assert (or_first 0 (append_varint 7 (blen s)) = append_varint 7 (blen s)) as Hof.
    { unfold or_first. destruct (append_varint 7 (blen s)); [reflexivity|]. f_equal. lia. }
    rewrite Hof in He. rewrite He, <- app_assoc. unfold read_string. cbn [app]. cbn [app] in Hr. rewrite Hr.
    assert (blen (s ++ rest) <? blen s = false) as ->.
    { unfold blen. rewrite app_length. lia. }
    destruct (firstn_skipn_app_exact s rest (Z.to_nat (blen s))) as [H1 H2]; [unfold blen; lia|].
    rewrite H1, H2. change (0 + 2 ^ 7) with 128 in Hb. assert (128 <=? b0 = false) as -> by lia. reflexivity.
Qed.

(* ================= dynamic table ================= *)
Definition tsum (l : list field) : Z := fold_right (fun f a => fsize f + a) 0 l.
Lemma fsize_pos f : 32 <= fsize f.
Proof. unfold fsize, blen. lia. Qed.
Lemma tsum_nonneg l : 0 <= tsum l.
Proof. induction l as [|f l IH]; simpl; [lia|]. pose proof (fsize_pos f). lia. Qed.
Lemma tsum_app a b : tsum (a ++ b) = tsum a + tsum b.
Proof. induction a; simpl; lia. Qed.

(* what eviction down to mx keeps (oldest first list) *)
Fixpoint fit (es : list field) (mx : Z) : list field :=
  match es with
  | [] => []
  | e :: r => if tsum es >? mx then fit r mx else es
  end.
Lemma evict_loop_fit es : forall mx, 0 <= mx -> evict_loop es (tsum es) mx = Some (fit es mx, tsum (fit es mx)).
Proof.
  induction es as [|e r IH]; intros mx Hmx.
  - simpl. assert (0 >? mx = false) as -> by lia. reflexivity.
  - cbn [evict_loop fit]. destruct (tsum (e :: r) >? mx) eqn:E; [|reflexivity].
    replace (tsum (e :: r) - fsize e) with (tsum r) by (simpl; lia). apply IH. exact Hmx.
Qed.
Lemma fit_le es mx : 0 <= mx -> tsum (fit es mx) <= mx.
Proof.
  intros Hmx. induction es as [|e r IH]; [simpl; lia|].
  cbn [fit]. destruct (tsum (e :: r) >? mx) eqn:E; [exact IH|lia].
Qed.
Lemma fit_min es : forall a b, tsum es <= a -> fit es b = fit es (Z.min a b).
Proof.
  induction es as [|e r IH]; intros a b Ha; [reflexivity|].
  cbn [fit]. assert (tsum r <= a) by (simpl in Ha; pose proof (fsize_pos e); lia).
  destruct (tsum (e :: r) >? b) eqn:E1, (tsum (e :: r) >? Z.min a b) eqn:E2; try lia; auto.
Qed.
Lemma fit_fit es : forall a b, fit (fit es a) b = fit es (Z.min a b).
Proof.
  induction es as [|e r IH]; intros a b; [reflexivity|].
  destruct (tsum (e :: r) >? a) eqn:E1.
  - cbn [fit]. rewrite E1. assert (tsum (e :: r) >? Z.min a b = true) as -> by lia. apply IH.
  - replace (fit (e :: r) a) with (e :: r) by (cbn [fit]; rewrite E1; reflexivity). apply fit_min. lia.
Qed.
Lemma fit_id es mx : tsum es <= mx -> fit es mx = es.
Proof. destruct es as [|e r]; [reflexivity|]. intros H. cbn [fit]. assert (tsum (e :: r) >? mx = false) as -> by lia. reflexivity. Qed.

Definition tab_ok (d : dyntab) : Prop := dsize d = tsum (ents d) /\ 0 <= dmax d /\ tsum (ents d) <= dmax d.
(* same entries and maximum (the allowed maximum is decoder-only) *)
Definition tab_eq (a b : dyntab) : Prop := ents a = ents b /\ dmax a = dmax b.

Lemma dt_set_max_ok d v : tab_ok d -> 0 <= v ->
  dt_set_max d v = Some (mkDT (fit (ents d) v) (tsum (fit (ents d) v)) v (dallowed d)).
Proof. intros [Hs _] Hv. unfold dt_set_max. rewrite Hs, evict_loop_fit by exact Hv. reflexivity. Qed.
Lemma dt_add_ok d f : tab_ok d ->
  dt_add d f = Some (mkDT (fit (ents d ++ [f]) (dmax d)) (tsum (fit (ents d ++ [f]) (dmax d))) (dmax d) (dallowed d)).
Proof.
  intros [Hs [Hm _]]. unfold dt_add. rewrite Hs.
  replace (tsum (ents d) + fsize f) with (tsum (ents d ++ [f])) by (rewrite tsum_app; simpl; lia).
  rewrite evict_loop_fit by exact Hm. reflexivity.
Qed.

(* ================= table search and lookup ================= *)
Lemma search_list_spec f l : forall k i j m,
  search_list l k f i = (j, m) ->
  (m = true -> k <= j < k + Z.of_nat (length l) /\ fsens f = false
               /\ nth_error l (Z.to_nat (j - k)) = Some (fname f, fvalue f)) /\
  (m = false -> j = i \/ (k <= j < k + Z.of_nat (length l)
                          /\ exists v, nth_error l (Z.to_nat (j - k)) = Some (fname f, v))).
Proof.
  induction l as [|[n v] r IH]; intros k i j m H.
  - simpl in H. inversion H; subst. split; [discriminate|]. intros _. left. reflexivity.
  - cbn [search_list] in H. cbn [length]. rewrite Nat2Z.inj_succ.
    assert (forall i', search_list r (k + 1) f i' = (j, m) ->
       (m = true -> k <= j < k + Z.succ (Z.of_nat (length r)) /\ fsens f = false
               /\ nth_error ((n, v) :: r) (Z.to_nat (j - k)) = Some (fname f, fvalue f)) /\
       (m = false -> j = i' \/ (k <= j < k + Z.succ (Z.of_nat (length r))
                          /\ exists v0, nth_error ((n, v) :: r) (Z.to_nat (j - k)) = Some (fname f, v0)))) as Hrec.
    { intros i' Hs. destruct (IH _ _ _ _ Hs) as [Ht Hf]. split.
      - intros Hm. destruct (Ht Hm) as [Hb [Hse Hn]]. split; [lia|split; [exact Hse|]].
        replace (Z.to_nat (j - k)) with (S (Z.to_nat (j - (k + 1)))) by lia. exact Hn.
      - intros Hm. destruct (Hf Hm) as [->|[Hb [v0 Hn]]]; [left; reflexivity|right].
        split; [lia|]. exists v0. replace (Z.to_nat (j - k)) with (S (Z.to_nat (j - (k + 1)))) by lia. exact Hn. }
    assert (forall (P : Prop), k <= k < k + Z.succ (Z.of_nat (length r))) as Hk by (intros; lia).
    destruct (bytes_eqb n (fname f)) eqn:En.
    + apply bytes_eqb_eq in En. subst n.
      assert (forall i', search_list r (k + 1) f (if i =? 0 then k else i) = (j, m) -> i' = i ->
        (m = true -> k <= j < k + Z.succ (Z.of_nat (length r)) /\ fsens f = false
               /\ nth_error ((fname f, v) :: r) (Z.to_nat (j - k)) = Some (fname f, fvalue f)) /\
        (m = false -> j = i \/ (k <= j < k + Z.succ (Z.of_nat (length r))
                          /\ exists v0, nth_error ((fname f, v) :: r) (Z.to_nat (j - k)) = Some (fname f, v0)))) as Hrec2.
      { intros i' Hs _. destruct (Hrec _ Hs) as [Ht Hf]. split; [exact Ht|].
        intros Hm. destruct (Hf Hm) as [Hj|Hj]; [|right; exact Hj].
        destruct (i =? 0) eqn:Ei; [|left; exact Hj].
        right. subst j. split; [lia|]. exists v. rewrite Z.sub_diag. reflexivity. }
      destruct (fsens f) eqn:Es; [apply (Hrec2 i H eq_refl)|].
      destruct (bytes_eqb v (fvalue f)) eqn:Ev; [|apply (Hrec2 i H eq_refl)].
      apply bytes_eqb_eq in Ev. subst v. inversion H; subst j m. split.
      * intros _. split; [lia|split; [reflexivity|]]. rewrite Z.sub_diag. reflexivity.
      * discriminate.
    + apply Hrec. exact H.
Qed.

Lemma static_len_61 : static_len = 61.
Proof. reflexivity. Qed.
Lemma pairs_length d : length (pairs_newest_first d) = length (ents d).
Proof. unfold pairs_newest_first. rewrite map_length, rev_length. reflexivity. Qed.

Lemma search_table_spec d f idx m :
  search_table d f = (idx, m) ->
  0 <= idx <= 61 + Z.of_nat (length (ents d)) /\
  (m = true -> fsens f = false /\ dec_at d idx = Some (fname f, fvalue f)) /\
  (m = false -> idx <> 0 -> exists v, dec_at d idx = Some (fname f, v)).
Proof.
  unfold search_table.
  destruct (search_list static_table 1 f 0) as [i ms] eqn:Es.
  destruct (search_list_spec f _ _ _ _ _ Es) as [Hst Hsf].
  change (Z.of_nat (length static_table)) with 61 in *.
  destruct ms.
  - intros H. inversion H; subst idx m. destruct (Hst eq_refl) as [Hb [Hse Hn]].
    split; [lia|split; [|discriminate]]. intros _. split; [exact Hse|].
    unfold dec_at. rewrite static_len_61.
    assert (i <? 1 = false) as -> by lia. assert (i >? Z.of_nat (length (ents d)) + 61 = false) as -> by lia.
    assert (i <=? 61 = true) as -> by lia. exact Hn.
  - destruct (search_list (pairs_newest_first d) 1 f 0) as [j m2] eqn:Ed.
    destruct (search_list_spec f _ _ _ _ _ Ed) as [Hdt Hdf]. rewrite pairs_length in *.
    assert (forall v, 1 <= j < 1 + Z.of_nat (length (ents d)) ->
               nth_error (pairs_newest_first d) (Z.to_nat (j - 1)) = Some (fname f, v) ->
               dec_at d (j + static_len) = Some (fname f, v)) as Hdyn.
    { intros v Hb Hn. unfold dec_at. rewrite static_len_61.
      assert (j + 61 <? 1 = false) as -> by lia.
      assert (j + 61 >? Z.of_nat (length (ents d)) + 61 = false) as -> by lia.
      assert (j + 61 <=? 61 = false) as -> by lia.
      replace (j + 61 - 61 - 1) with (j - 1) by lia. exact Hn. }
    destruct (m2 || ((i =? 0) && negb (j =? 0))) eqn:Ec; intros H; inversion H; subst idx m.
    + destruct m2.
      * destruct (Hdt eq_refl) as [Hb [Hse Hn]]. rewrite static_len_61.
        split; [lia|split; [|discriminate]]. intros _. split; [exact Hse|].
        rewrite <- static_len_61. apply Hdyn; assumption.
      * simpl in Ec. destruct (Hdf eq_refl) as [Hj|[Hb [v Hn]]]; [lia|].
        rewrite static_len_61. split; [lia|split; [discriminate|]]. intros _ _. exists v.
        rewrite <- static_len_61. apply Hdyn; assumption.
    + destruct m2; [discriminate|]. destruct (Hsf eq_refl) as [Hi|[Hb [v Hn]]].
      * subst i. split; [lia|split; [discriminate|]]. intros _ Hnz. congruence.
      * split; [lia|split; [discriminate|]]. intros _ _. exists v.
        unfold dec_at. rewrite static_len_61.
        assert (i <? 1 = false) as -> by lia. assert (i >? Z.of_nat (length (ents d)) + 61 = false) as -> by lia.
        assert (i <=? 61 = true) as -> by lia. exact Hn.
Qed.

Lemma length_le_tsum l : 32 * Z.of_nat (length l) <= tsum l.
Proof. induction l as [|f l IH]; [simpl; lia|]. cbn [length tsum fold_right]. fold (tsum l). pose proof (fsize_pos f). lia. Qed.
Lemma search_table_ents a b f : ents a = ents b -> search_table a f = search_table b f.
Proof. intros H. unfold search_table, pairs_newest_first. rewrite H. reflexivity. Qed.
Lemma dec_at_ents a b i : ents a = ents b -> dec_at a i = dec_at b i.
Proof. intros H. unfold dec_at, pairs_newest_first. rewrite H. reflexivity. Qed.

Lemma tab_ok_set_max d v : 0 <= v -> tab_ok (mkDT (fit (ents d) v) (tsum (fit (ents d) v)) v (dallowed d)).
Proof. intros Hv. unfold tab_ok. simpl. split; [reflexivity|split; [exact Hv|apply fit_le; exact Hv]]. Qed.
Lemma tab_ok_add d f : tab_ok d -> tab_ok (mkDT (fit (ents d ++ [f]) (dmax d)) (tsum (fit (ents d ++ [f]) (dmax d))) (dmax d) (dallowed d)).
Proof. intros [_ [Hm _]]. unfold tab_ok. simpl. split; [reflexivity|split; [exact Hm|apply fit_le; exact Hm]]. Qed.

(* ================= one representation: encoder output parsed by the decoder ================= *)
Section Roundtrip.
Variable hd : bytes -> hres.
Hypothesis Hhd : hd_ok hd.
Variable ff : bool.      (* Decoder.firstField; irrelevant for header field representations *)

Definition wf_f (f : field) : Prop :=
  wf_bytes (fname f) = true /\ wf_bytes (fvalue f) = true /\ blen (fname f) < 2 ^ 61 /\ blen (fvalue f) < 2 ^ 61.

Lemma parse_repr_literal t p b tl n it :
  p = b :: tl ->
  ((64 <= b < 128 /\ n = 6 /\ it = 0) \/ (0 <= b < 16 /\ n = 4 /\ it = 1) \/ (16 <= b < 32 /\ n = 4 /\ it = 2)) ->
  parse_repr hd ff t p = parse_literal hd t n it p.
Proof.
  intros -> H. unfold parse_repr.
  destruct H as [[Hb [-> ->]]|[[Hb [-> ->]]|[Hb [-> ->]]]].
  - assert (128 <=? b = false) as -> by lia. assert (64 <=? b = true) as -> by lia. reflexivity.
  - assert (128 <=? b = false) as -> by lia. assert (64 <=? b = false) as -> by lia.
    assert (b <? 16 = true) as -> by lia. reflexivity.
  - assert (128 <=? b = false) as -> by lia. assert (64 <=? b = false) as -> by lia.
    assert (b <? 16 = false) as -> by lia. assert (b <? 32 = true) as -> by lia. reflexivity.
Qed.

Lemma parse_literal_ok t n it p nameIdx r nm r1 v r2 :
  read_varint n p = ROk nameIdx r ->
  (if nameIdx >? 0 then (exists x, dec_at t nameIdx = Some (nm, x)) /\ r1 = r else read_string hd r = ROk nm r1) ->
  read_string hd r1 = ROk v r2 ->
  parse_literal hd t n it p =
    (if it =? 0 then match dt_add t (mkF nm v false) with
                     | Some d' => ROk (d', Some (mkF nm v (it =? 2))) r2
                     | None => RPanic
                     end
     else ROk (t, Some (mkF nm v (it =? 2))) r2).
Proof.
  intros H H0 H1. unfold parse_literal. rewrite H.
  destruct (nameIdx >? 0); [destruct H0 as [[x Hx] ->]; rewrite Hx | rewrite H0]; rewrite H1; reflexivity.
Qed.

Lemma lt61_62 x : x < 2 ^ 61 -> x < 2 ^ 62.
Proof. intros H. assert (2 ^ 61 < 2 ^ 62) by (apply Z.pow_lt_mono_r; lia). lia. Qed.

Definition lit_triple (tb n it : Z) : Prop :=
  (tb = 64 /\ n = 6 /\ it = 0) \/ (tb = 0 /\ n = 4 /\ it = 1) \/ (tb = 16 /\ n = 4 /\ it = 2).
Definition lit_result (t : dyntab) (it : Z) (fn fv rest : bytes) : rd (dyntab * option field) :=
  if it =? 0 then match dt_add t (mkF fn fv false) with
                  | Some d' => ROk (d', Some (mkF fn fv (it =? 2))) rest
                  | None => RPanic
                  end
  else ROk (t, Some (mkF fn fv (it =? 2))) rest.

Lemma parse_new_name t tb n it fn fv rest :
  lit_triple tb n it -> wf_bytes fn = true -> wf_bytes fv = true -> blen fn < 2 ^ 61 -> blen fv < 2 ^ 61 ->
  parse_repr hd ff t ((tb :: append_hpack_string fn ++ append_hpack_string fv) ++ rest) = lit_result t it fn fv rest.
Proof.
  intros Htr Hwn Hwv Hln Hlv. apply lt61_62 in Hln. apply lt61_62 in Hlv.
  rewrite <- app_comm_cons, <- app_assoc.
  assert (read_varint n (tb :: append_hpack_string fn ++ append_hpack_string fv ++ rest)
          = ROk 0 (append_hpack_string fn ++ append_hpack_string fv ++ rest)) as Hrv.
  { destruct Htr as [[-> [-> _]]|[[-> [-> _]]|[-> [-> _]]]]; reflexivity. }
  rewrite (parse_repr_literal t _ tb _ n it eq_refl).
  - rewrite (parse_literal_ok t n it _ 0 _ fn (append_hpack_string fv ++ rest) fv rest Hrv).
    + reflexivity.
    + change (0 >? 0) with false. cbv iota. apply string_roundtrip; assumption.
    + apply string_roundtrip; assumption.
  - unfold lit_triple in Htr. lia.
Qed.

Lemma parse_idx_name t tb n it idx fn x fv rest :
  lit_triple tb n it -> 0 < idx < 2 ^ 62 -> dec_at t idx = Some (fn, x) ->
  wf_bytes fv = true -> blen fv < 2 ^ 61 ->
  parse_repr hd ff t ((or_first tb (append_varint n idx) ++ append_hpack_string fv) ++ rest) = lit_result t it fn fv rest.
Proof.
  intros Htr Hidx Hat Hwv Hlv. apply lt61_62 in Hlv.
  assert (1 <= n <= 7 /\ 0 <= tb /\ tb mod 2 ^ n = 0 /\ tb + 2 ^ n = (if it =? 0 then 128 else if it =? 1 then 16 else 32)) as [Hn [Htb [Hmod Hsum]]].
  { destruct Htr as [[-> [-> ->]]|[[-> [-> ->]]|[-> [-> ->]]]]; repeat split; try lia; reflexivity. }
  destruct (varint_enc n tb idx (append_hpack_string fv ++ rest) Hn ltac:(lia) Htb Hmod) as [b0 [tl [Hb [Hr Hrd]]]].
  rewrite Hb, <- app_assoc. rewrite <- app_comm_cons. rewrite <- app_comm_cons in Hrd.
  rewrite (parse_repr_literal t _ b0 _ n it eq_refl).
  - rewrite (parse_literal_ok t n it _ idx _ fn (append_hpack_string fv ++ rest) fv rest Hrd).
    + reflexivity.
    + assert (idx >? 0 = true) as -> by lia. split; [exists x; exact Hat|reflexivity].
    + apply string_roundtrip; assumption.
  - unfold lit_triple in Htr. destruct Htr as [[-> [-> ->]]|[[-> [-> ->]]|[-> [-> ->]]]]; cbn [Z.eqb] in Hsum; lia.
Qed.

Lemma parse_indexed_ok t idx fn fv rest :
  0 <= idx < 2 ^ 62 -> dec_at t idx = Some (fn, fv) ->
  parse_repr hd ff t (append_indexed idx ++ rest) = ROk (t, Some (mkF fn fv false)) rest.
Proof.
  intros Hidx Hat. unfold append_indexed.
  destruct (varint_enc 7 128 idx rest ltac:(lia) Hidx ltac:(lia) eq_refl) as [b0 [tl [Hb [Hr Hrd]]]].
  rewrite Hb. rewrite <- app_comm_cons. rewrite <- app_comm_cons in Hrd.
  unfold parse_repr. assert (128 <=? b0 = true) as -> by lia.
  unfold parse_indexed. rewrite Hrd, Hat. reflexivity.
Qed.

Lemma or_first_nonnil flag n i : or_first flag (append_varint n i) <> [].
Proof. unfold append_varint. destruct (i <? 2 ^ n - 1); discriminate. Qed.

Lemma enc_literal_tables e fn fv fs e' (body body' : bytes) t indexing :
  tab_ok t -> tab_ok (edt e) -> ents (edt e) = ents t -> dmax (edt e) = dmax t ->
  (fs = true -> indexing = false) ->
  (if indexing
   then match dt_add (edt e) (mkF fn fv fs) with
        | Some d => Some (mkE d (eminsize e) (elimit e) (epending e), body')
        | None => None
        end
   else Some (e, body')) = Some (e', body) ->
  exists t', (if indexing then dt_add t (mkF fn fv false) else Some t) = Some t' /\
      tab_eq (edt e') t' /\ tab_ok t' /\ tab_ok (edt e') /\ dallowed t' = dallowed t /\ dmax t' = dmax t
      /\ eminsize e' = eminsize e /\ elimit e' = elimit e /\ epending e' = epending e /\ body = body'.
Proof.
  intros Hokt Hoke Hents Hmax Hsi He. destruct indexing.
  - assert (fs = false \/ fs = true) as [-> | ->] by (destruct fs; auto).
    + rewrite (dt_add_ok _ _ Hoke) in He. rewrite (dt_add_ok _ _ Hokt).
      inversion He; subst e' body. eexists. split; [reflexivity|].
      unfold tab_eq. cbn [edt eminsize elimit epending ents dmax dallowed].
      split; [split; [rewrite Hents, Hmax; reflexivity|exact Hmax]|].
      split; [apply tab_ok_add; exact Hokt|].
      split; [apply tab_ok_add; exact Hoke|].
      repeat split; reflexivity.
    + specialize (Hsi eq_refl). discriminate Hsi.
  - inversion He; subst e' body. exists t. split; [reflexivity|]. split; [split; assumption|].
    split; [exact Hokt|]. split; [exact Hoke|]. repeat split; reflexivity.
Qed.

Lemma lit_triple_of indexing fs : (fs = true -> indexing = false) ->
  lit_triple (type_byte indexing fs) (if indexing then 6 else 4) (if fs then 2 else if indexing then 0 else 1)
  /\ ((if fs then 2 else if indexing then 0 else 1) =? 2) = fs
  /\ ((if fs then 2 else if indexing then 0 else 1) =? 0) = indexing.
Proof.
  intros Hsi. unfold lit_triple. destruct fs; [rewrite (Hsi eq_refl)|destruct indexing]; cbn; auto 10.
Qed.

Lemma idx_bound t idx : tab_ok t -> dmax t <= 2 ^ 32 -> 0 <= idx <= 61 + Z.of_nat (length (ents t)) -> 0 <= idx < 2 ^ 62.
Proof.
  intros Hokt Hbig Hidx. pose proof (length_le_tsum (ents t)). destruct Hokt as [_ [_ Hle]].
  assert (2 ^ 32 < 2 ^ 61) by (apply Z.pow_lt_mono_r; lia).
  assert (2 ^ 61 < 2 ^ 62) by (apply Z.pow_lt_mono_r; lia). lia.
Qed.

Definition fr_post (e e' : enc) (t t' : dyntab) : Prop :=
  tab_eq (edt e') t' /\ tab_ok t' /\ tab_ok (edt e') /\ dallowed t' = dallowed t /\ dmax t' = dmax t
  /\ eminsize e' = eminsize e /\ elimit e' = elimit e /\ epending e' = epending e.

Lemma field_roundtrip_literal e fn fv fs e' body t idx :
  wf_bytes fn = true -> wf_bytes fv = true -> blen fn < 2 ^ 61 -> blen fv < 2 ^ 61 ->
  tab_ok t -> tab_ok (edt e) -> ents (edt e) = ents t -> dmax (edt e) = dmax t ->
  0 <= idx < 2 ^ 62 -> (idx <> 0 -> exists v, dec_at t idx = Some (fn, v)) ->
  (let indexing := negb fs && (fsize (mkF fn fv fs) <=? dmax (edt e)) in
   let body := if idx =? 0 then append_new_name (mkF fn fv fs) indexing else append_indexed_name (mkF fn fv fs) idx indexing in
   if indexing
   then match dt_add (edt e) (mkF fn fv fs) with
        | Some d => Some (mkE d (eminsize e) (elimit e) (epending e), body)
        | None => None
        end
   else Some (e, body)) = Some (e', body) ->
  body <> [] /\ exists t', (forall rest, parse_repr hd ff t (body ++ rest) = ROk (t', Some (mkF fn fv fs)) rest) /\ fr_post e e' t t'.
Proof.
  intros Hwn Hwv Hln Hlv Hokt Hoke Hents Hmax Hidx2 Hnm He. cbv zeta in He.
  remember (negb fs && (fsize (mkF fn fv fs) <=? dmax (edt e))) as indexing eqn:Hidef.
  assert (fs = true -> indexing = false) as Hsi by (intros ->; subst indexing; reflexivity).
  clear Hidef.
  destruct (lit_triple_of indexing fs Hsi) as [Htr [Hit2 Hit0]].
  destruct (enc_literal_tables e fn fv fs e' body _ t indexing Hokt Hoke Hents Hmax Hsi He)
    as [t' [Ht' [Hteq [Hokt' [Hoke' [Hal [Hmx [Hmin [Hlim [Hpen Hbody]]]]]]]]]].
  assert (lit_result t (if fs then 2 else if indexing then 0 else 1) fn fv = fun rest => ROk (t', Some (mkF fn fv fs)) rest) as Hres.
  { unfold lit_result. rewrite Hit2, Hit0. destruct indexing; [rewrite Ht'; reflexivity|inversion Ht'; reflexivity]. }
  assert (fr_post e e' t t') as Hpost by (exact (conj Hteq (conj Hokt' (conj Hoke' (conj Hal (conj Hmx (conj Hmin (conj Hlim Hpen)))))))).
  rewrite Hbody. destruct (idx =? 0) eqn:E0.
  - unfold append_new_name. cbn [fname fvalue fsens]. split; [discriminate|]. exists t'.
    split; [|exact Hpost].
    intros rest. rewrite (parse_new_name t _ _ _ fn fv rest Htr Hwn Hwv Hln Hlv), Hres. reflexivity.
  - unfold append_indexed_name. cbn [fname fvalue fsens].
    destruct (Hnm ltac:(lia)) as [x Hat].
    split; [intros Hnil; apply app_eq_nil in Hnil; destruct Hnil as [Hnil _]; revert Hnil; apply or_first_nonnil|].
    exists t'. split; [|exact Hpost].
    intros rest. rewrite (parse_idx_name t _ _ _ idx fn x fv rest Htr ltac:(lia) Hat Hwv Hlv), Hres. reflexivity.
Qed.

Lemma field_roundtrip_literal' e f e' body t idx :
  wf_f f -> tab_ok t -> tab_ok (edt e) -> ents (edt e) = ents t -> dmax (edt e) = dmax t ->
  0 <= idx < 2 ^ 62 -> (idx <> 0 -> exists v, dec_at t idx = Some (fname f, v)) ->
  (let indexing := negb (fsens f) && (fsize f <=? dmax (edt e)) in
   let body := if idx =? 0 then append_new_name f indexing else append_indexed_name f idx indexing in
   if indexing
   then match dt_add (edt e) f with
        | Some d => Some (mkE d (eminsize e) (elimit e) (epending e), body)
        | None => None
        end
   else Some (e, body)) = Some (e', body) ->
  body <> [] /\ exists t', (forall rest, parse_repr hd ff t (body ++ rest) = ROk (t', Some f) rest) /\ fr_post e e' t t'.
Proof.
  intros [Hwn [Hwv [Hln Hlv]]]. destruct f as [fn fv fs]. cbn [fname fvalue fsens] in *.
  intros. eapply field_roundtrip_literal; eassumption.
Qed.

Lemma field_roundtrip_core e f e' body t idx nvm :
  wf_f f -> tab_ok t -> tab_ok (edt e) -> ents (edt e) = ents t -> dmax (edt e) = dmax t -> dmax t <= 2 ^ 32 ->
  search_table t f = (idx, nvm) ->
  (if nvm then Some (e, append_indexed idx)
   else
    let indexing := negb (fsens f) && (fsize f <=? dmax (edt e)) in
    let body := if idx =? 0 then append_new_name f indexing else append_indexed_name f idx indexing in
    if indexing then
      match dt_add (edt e) f with
      | Some d => Some (mkE d (eminsize e) (elimit e) (epending e), body)
      | None => None
      end
    else Some (e, body)) = Some (e', body) ->
  body <> [] /\ exists t', (forall rest, parse_repr hd ff t (body ++ rest) = ROk (t', Some f) rest) /\ fr_post e e' t t'.
Proof.
  intros Hwf Hokt Hoke Hents Hmax Hbig Est He.
  destruct (search_table_spec _ _ _ _ Est) as [Hidx [Hm Hnm]].
  pose proof (idx_bound t idx Hokt Hbig Hidx) as Hidx2.
  destruct nvm.
  - inversion He; subst e' body. destruct (Hm eq_refl) as [Hs Hat].
    assert (f = mkF (fname f) (fvalue f) false) as Hf by (destruct f; cbn in Hs; subst; reflexivity).
    split; [apply or_first_nonnil|]. exists t.
    split; [intros rest; rewrite Hf at 1; apply parse_indexed_ok; assumption|].
    unfold fr_post. split; [split; assumption|split; [exact Hokt|split; [exact Hoke|repeat split; reflexivity]]].
  - apply (field_roundtrip_literal' e f e' body t idx); try assumption.
    apply Hnm. reflexivity.
Qed.

Lemma enc_field_unfold e f t : ents (edt e) = ents t ->
  enc_field e f =
  (if snd (search_table t f) then Some (e, append_indexed (fst (search_table t f)))
   else
    let indexing := negb (fsens f) && (fsize f <=? dmax (edt e)) in
    let body := if fst (search_table t f) =? 0 then append_new_name f indexing
                else append_indexed_name f (fst (search_table t f)) indexing in
    if indexing then
      match dt_add (edt e) f with
      | Some d => Some (mkE d (eminsize e) (elimit e) (epending e), body)
      | None => None
      end
    else Some (e, body)).
Proof.
  intros Hents. unfold enc_field. rewrite (search_table_ents _ t f Hents).
  generalize (search_table t f). intros [i m]. reflexivity.
Qed.

Lemma field_roundtrip e f e' body t :
  wf_f f -> tab_ok t -> tab_ok (edt e) -> tab_eq (edt e) t -> dmax t <= 2 ^ 32 ->
  enc_field e f = Some (e', body) ->
  body <> [] /\ exists t', (forall rest, parse_repr hd ff t (body ++ rest) = ROk (t', Some f) rest) /\ fr_post e e' t t'.
Proof.
  intros Hwf Hokt Hoke [Hents Hmax] Hbig He.
  rewrite (enc_field_unfold e f t Hents) in He.
  apply (field_roundtrip_core e f e' body t (fst (search_table t f)) (snd (search_table t f))); try assumption.
  apply surjective_pairing.
Qed.
End Roundtrip.

(* ================= sequences: decoding what the encoder wrote ================= *)
Section Sequence.
Variable hd : bytes -> hres.
Hypothesis Hhd : hd_ok hd.

Lemma parse_size_update_ok t v rest : tab_ok t -> 0 <= v <= dallowed t -> v < 2 ^ 62 ->
  parse_repr hd true t (append_table_size v ++ rest)
  = ROk (mkDT (fit (ents t) v) (tsum (fit (ents t) v)) v (dallowed t), None) rest.
Proof.
  intros Hok Hv Hv2. unfold append_table_size.
  destruct (varint_enc 5 32 v rest ltac:(lia) ltac:(lia) ltac:(lia) eq_refl) as [b0 [tl [Hb [Hr Hrd]]]].
  rewrite Hb. rewrite <- app_comm_cons. rewrite <- app_comm_cons in Hrd.
  change (32 + 2 ^ 5) with 64 in Hr.
  unfold parse_repr. assert (128 <=? b0 = false) as -> by lia. assert (64 <=? b0 = false) as -> by lia.
  assert (b0 <? 16 = false) as -> by lia. assert (b0 <? 32 = false) as -> by lia.
  unfold parse_size_update. cbn [negb]. rewrite Hrd. assert (v >? dallowed t = false) as -> by lia.
  rewrite (dt_set_max_ok t v Hok) by lia. reflexivity.
Qed.

Definition ocons (o : option field) (l : list field) : list field := match o with Some x => x :: l | None => l end.
Inductive Dec : bool -> dyntab -> bytes -> list field -> bool -> dyntab -> Prop :=
| Dec_nil ff t : Dec ff t [] [] ff t
| Dec_step ff t r t1 o rest0 fs ff' t' :
    r <> [] -> (forall rest, parse_repr hd ff t (r ++ rest) = ROk (t1, o) rest) ->
    Dec (next_first ff o) t1 rest0 fs ff' t' ->
    Dec ff t (r ++ rest0) (ocons o fs) ff' t'.

Lemma Dec_app ff t a fa ff1 t1 : Dec ff t a fa ff1 t1 -> forall b fb ff2 t2, Dec ff1 t1 b fb ff2 t2 -> Dec ff t (a ++ b) (fa ++ fb) ff2 t2.
Proof.
  induction 1 as [ff t|ff t r t1 o rest0 fs ff' t' Hr Hp Hd IH]; intros b fb ff2 t2 H2; [exact H2|].
  rewrite <- app_assoc. replace (ocons o fs ++ fb) with (ocons o (fs ++ fb)) by (destruct o; reflexivity).
  eapply Dec_step; [exact Hr|exact Hp|]. apply IH. exact H2.
Qed.
Lemma Dec_one ff t r t1 o : r <> [] -> (forall rest, parse_repr hd ff t (r ++ rest) = ROk (t1, o) rest) ->
  Dec ff t r (ocons o []) (next_first ff o) t1.
Proof. intros Hr Hp. rewrite <- (app_nil_r r). eapply Dec_step; [exact Hr|exact Hp|apply Dec_nil]. Qed.

Lemma Dec_parse_loop ff t blk fs ff' t' : Dec ff t blk fs ff' t' -> forall fuel acc, (length blk < fuel)%nat ->
  parse_loop hd fuel ff t blk acc = (mkD t' [] ff', rev fs ++ acc, 0).
Proof.
  induction 1 as [ff t|ff t r t1 o rest0 fs ff' t' Hr Hp Hd IH]; intros fuel acc Hf.
  - destruct fuel; reflexivity.
  - destruct r as [|b r']; [congruence|]. destruct fuel as [|f]; [simpl in Hf; lia|].
    rewrite <- app_comm_cons. cbn [parse_loop]. rewrite app_comm_cons, Hp.
    rewrite IH by (simpl in Hf; rewrite app_length in Hf; lia).
    destruct o; cbn [ocons rev]; [rewrite <- app_assoc|]; reflexivity.
Qed.
Lemma Dec_nil_inv ff t fs ff' t' : Dec ff t [] fs ff' t' -> fs = [] /\ t' = t /\ ff' = ff.
Proof.
  intros H. inversion H as [|? ? r ? ? rest0 ? ? ? Hr _ _ Heq]; subst; [auto|].
  destruct r; [congruence|discriminate].
Qed.
Lemma Dec_run ff t blk fs ff' t' : Dec ff t blk fs ff' t' -> dec_run hd (mkD t [] ff) [blk] [] = (mkD t' [] true, fs, 0).
Proof.
  intros H. cbn [dec_run]. unfold dec_write. destruct blk as [|b blk'].
  - destruct (Dec_nil_inv _ _ _ _ _ H) as [-> [-> ->]]. reflexivity.
  - cbn [dsave ddt dfirst app]. rewrite (Dec_parse_loop _ _ _ _ _ _ H) by (simpl; lia).
    rewrite app_nil_r, rev_involutive. reflexivity.
Qed.
Lemma Dec_first ff t blk fs ff' t' : Dec ff t blk fs ff' t' -> ff' = match fs with [] => ff | _ => false end.
Proof.
  induction 1 as [ff t|ff t r t1 o rest0 fs ff' t' Hr Hp Hd IH]; [reflexivity|].
  rewrite IH. destruct o; cbn [ocons next_first]; [destruct fs; reflexivity|reflexivity].
Qed.

(* simulation relation between encoder state and decoder table (L = negotiated limit) *)
Definition sim (L : Z) (e : enc) (t : dyntab) : Prop :=
  tab_ok t /\ tab_ok (edt e) /\ dallowed t = L /\ elimit e = L /\ dmax (edt e) <= L /\ dmax t <= 2 ^ 32
  /\ tsum (ents t) <= L
  /\ (epending e = false -> tab_eq (edt e) t /\ eminsize e = uint32_max)
  /\ (epending e = true -> ents (edt e) = fit (ents t) (Z.min (eminsize e) (dmax (edt e))) /\ 0 <= eminsize e
        /\ (eminsize e <= dmax (edt e) \/ (eminsize e = uint32_max /\ dmax (edt e) = L))).

Lemma u32_lt : uint32_max < 2 ^ 32 /\ 2 ^ 32 < 2 ^ 62 /\ 0 <= uint32_max.
Proof. unfold uint32_max. split; [lia|split; [apply Z.pow_lt_mono_r; lia|]]. assert (0 < 2 ^ 32) by (apply Z.pow_pos_nonneg; lia). lia. Qed.

Lemma sim_updates L e t : 0 <= L <= uint32_max -> sim L e t ->
  forall ff, (epending e = true -> ff = true) ->
  exists t1, Dec ff t (enc_updates e) [] ff t1 /\ tab_eq (edt e) t1 /\ tab_ok t1 /\ dallowed t1 = L /\ dmax t1 <= 2 ^ 32
             /\ tsum (ents t1) <= L.
Proof.
  intros HL [Hokt [Hoke [Hal [Hlim [HmL [Hbig [HtL [Hnp Hp]]]]]]]] ff Hff.
  pose proof u32_lt as [Hu1 [Hu2 Hu3]].
  unfold enc_updates. destruct (epending e) eqn:Ep.
  - rewrite (Hff eq_refl). clear Hff ff.
    destruct (Hp eq_refl) as [Hents [Hm0 Hdisj]]. clear Hnp Hp.
    set (m := eminsize e) in *. set (M := dmax (edt e)) in *.
    assert (0 <= M) as HM0 by (destruct Hoke as [_ [H _]]; exact H).
    set (tM := fun (t0 : dyntab) v => mkDT (fit (ents t0) v) (tsum (fit (ents t0) v)) v (dallowed t0)).
    destruct (m <? M) eqn:Emm.
    + exists (tM (tM t m) M). split; [|split; [|split; [|split; [|split]]]].
      * change (@nil field) with (ocons None (ocons None [])) at 1.
        eapply Dec_step; [apply or_first_nonnil| |].
        -- intros rest. apply parse_size_update_ok; [exact Hokt|lia|lia].
        -- rewrite <- (app_nil_r (append_table_size M)).
           eapply Dec_step; [apply or_first_nonnil| |apply Dec_nil].
           intros rest. apply parse_size_update_ok; [apply tab_ok_set_max; lia|cbn [dallowed]; lia|lia].
      * unfold tab_eq, tM. cbn [ents dmax]. rewrite fit_fit. split; [exact Hents|reflexivity].
      * apply (tab_ok_set_max (tM t m) M). lia.
      * unfold tM. cbn [dallowed]. exact Hal.
      * unfold tM. cbn [dmax]. lia.
      * unfold tM. cbn [ents]. pose proof (fit_le (fit (ents t) m) M HM0). lia.
    + exists (tM t M). split; [|split; [|split; [|split; [|split]]]].
      * cbn [app]. change (@nil field) with (ocons None []). change true with (next_first true None) at 2.
        apply Dec_one; [apply or_first_nonnil|].
        intros rest. apply parse_size_update_ok; [exact Hokt|lia|lia].
      * unfold tab_eq, tM. cbn [ents dmax]. rewrite Hents. replace (Z.min m M) with M by lia. split; reflexivity.
      * apply tab_ok_set_max. lia.
      * unfold tM. cbn [dallowed]. exact Hal.
      * unfold tM. cbn [dmax]. lia.
      * unfold tM. cbn [ents]. pose proof (fit_le (ents t) M HM0). lia.
  - destruct (Hnp eq_refl) as [Heq _]. exists t. split; [apply Dec_nil|].
    split; [exact Heq|split; [exact Hokt|split; [exact Hal|split; [exact Hbig|exact HtL]]]].
Qed.

Strategy opaque [enc_field search_table search_list].
Lemma sim_write L e t f e' b : 0 <= L <= uint32_max -> sim L e t -> wf_f f ->
  enc_write e f = Some (e', b) -> forall ff, (epending e = true -> ff = true) ->
  exists t', Dec ff t b [f] false t' /\ sim L e' t' /\ epending e' = false.
Proof.
  intros HL Hsim Hwf Hw ff Hff. destruct (sim_updates L e t HL Hsim ff Hff) as [t1 [Hd1 [Heq1 [Hok1 [Hal1 [Hbig1 HtL1]]]]]].
  destruct Hsim as [Hokt [Hoke [Hal [Hlim [HmL [_ [_ [Hnp _]]]]]]]].
  unfold enc_write in Hw. destruct (enc_field (enc_clear e) f) as [[e2 body]|] eqn:Ef; [|discriminate].
  inversion Hw; subst e' b.
  assert (edt (enc_clear e) = edt e /\ elimit (enc_clear e) = elimit e /\ epending (enc_clear e) = false
          /\ eminsize (enc_clear e) = uint32_max \/ (epending e = false /\ enc_clear e = e)) as Hc.
  { unfold enc_clear. destruct (epending e) eqn:Ep; [left; cbn; auto|right; auto]. }
  assert (edt (enc_clear e) = edt e /\ elimit (enc_clear e) = elimit e /\ epending (enc_clear e) = false) as [Hc1 [Hc2 Hc3]].
  { destruct Hc as [[H1 [H2 [H3 _]]]|[H1 H2]]; [auto|rewrite H2; auto]. }
  destruct (field_roundtrip hd Hhd ff (enc_clear e) f e2 body t1 Hwf Hok1 ltac:(rewrite Hc1; exact Hoke)
              ltac:(rewrite Hc1; exact Heq1) Hbig1 Ef) as [Hnn [t' [Hp [Hteq [Hokt' [Hoke' [Hal' [Hmx' [Hmin' [Hlim' Hpen']]]]]]]]]].
  exists t'. split.
  - change [f] with ([] ++ ocons (Some f) []). eapply Dec_app; [exact Hd1|].
    change false with (next_first ff (Some f)). apply Dec_one; assumption.
  - split; [|rewrite Hpen'; exact Hc3]. unfold sim. destruct Hteq as [Hte Htm]. destruct Heq1 as [_ Hm1].
    split; [exact Hokt'|split; [exact Hoke'|split; [congruence|split; [congruence|]]]].
    split; [rewrite Htm, Hmx', <- Hm1; exact HmL|].
    split; [rewrite Hmx'; exact Hbig1|].
    split; [destruct Hokt' as [_ [_ Hle]]; rewrite Hmx', <- Hm1 in Hle; lia|].
    split.
    + intros _. split; [split; assumption|].
      rewrite Hmin'. destruct Hc as [[_ [_ [_ H4]]]|[H1 H2]]; [exact H4|].
      rewrite H2. apply (Hnp H1).
    + intros Hpe. rewrite Hpen', Hc3 in Hpe. discriminate Hpe.
Qed.

Lemma sim_set_max L e t v : 0 <= L <= uint32_max -> sim L e t -> 0 <= v ->
  exists e', enc_set_max e v = Some e' /\ sim L e' t.
Proof.
  intros HL [Hokt [Hoke [Hal [Hlim [HmL [Hbig [HtL [Hnp Hp]]]]]]]] Hv.
  pose proof u32_lt as [Hu1 [Hu2 Hu3]].
  unfold enc_set_max. rewrite Hlim.
  set (v' := if v >? L then L else v). assert (0 <= v' <= L) as Hv' by (unfold v'; destruct (v >? L) eqn:E; lia).
  rewrite (dt_set_max_ok (edt e) v' Hoke) by lia.
  eexists. split; [reflexivity|].
  unfold sim. cbn [edt eminsize elimit epending ents dmax dallowed].
  split; [exact Hokt|split; [apply tab_ok_set_max; lia|split; [exact Hal|split; [reflexivity|split; [lia|split; [exact Hbig|split; [exact HtL|]]]]]]].
  split; [discriminate|]. intros _.
  destruct (epending e) eqn:Ep.
  - destruct (Hp eq_refl) as [Hents [Hm0 Hdisj]]. rewrite Hents, fit_fit.
    destruct (v' <? eminsize e) eqn:E.
    + split; [f_equal; lia|split; [lia|left; lia]].
    + split; [f_equal; lia|split; [lia|left; lia]].
  - destruct (Hnp eq_refl) as [[Hents _] Hmin]. rewrite Hents, Hmin.
    destruct (v' <? uint32_max) eqn:E.
    + split; [f_equal; lia|split; [lia|left; lia]].
    + split; [f_equal; lia|split; [lia|left; lia]].
Qed.
End Sequence.
