(* Proofs about the control-frame accounting model (C37). *)
From Coq Require Import List ZArith Bool Lia.
From Bfe Require Import lib.Val model.H2Ctl run.RunC37.
Import ListNotations.
Open Scope Z_scope.

(* ---------- the counter is the length of the zero queue ---------- *)
Definition counter_ok (c : conn) : Prop := queued c = Z.of_nat (length (zero c)).

Lemma removelast_len {A} (l : list A) : l <> [] -> length l = S (length (removelast l)).
Proof.
  intro H. destruct (exists_last H) as [l' [a E]]. subst l.
  rewrite removelast_last, app_length. simpl. lia.
Qed.

Lemma schedule_counter c : counter_ok c -> counter_ok (schedule c).
Proof.
  unfold counter_ok, schedule. intro H.
  destruct (writing c); [exact H|].
  destruct (need_goaway c); [exact H|].
  destruct (need_ack c); [exact H|].
  destruct (zero c) as [|x r] eqn:Ez.
  - destruct (sq c) as [|[i q] r']; simpl.
    + destruct (needs_flush c); simpl; rewrite ?Ez; exact H.
    + simpl in H. exact H.
  - unfold start_write, upd_sched. cbn [queued zero].
    assert (Hne : x :: r <> []) by discriminate.
    pose proof (removelast_len (x :: r) Hne) as HL. rewrite H, HL. lia.
Qed.

Lemma write_frame_counter c st tag : counter_ok c -> counter_ok (write_frame c st tag).
Proof.
  intro H. unfold write_frame. apply schedule_counter.
  destruct (st =? 0); unfold counter_ok, upd_sched in *; simpl; [rewrite H; lia|exact H].
Qed.

Lemma handle_counter c e : counter_ok c -> counter_ok (handle c e).
Proof.
  intro H. destruct e; simpl; try exact H;
    try (apply write_frame_counter; try apply write_frame_counter; exact H).
  - apply schedule_counter. exact H.
  - destruct (in_goaway c && (max_sid c <? sid)); [exact H|].
    apply write_frame_counter, write_frame_counter, H.
  - destruct (in_goaway c); exact H.
  - destruct (existsb (fun e => fst e =? sid) (sq c)); [|exact H].
    exact (write_frame_counter c 0 (- sid) H).
  - destruct (in_goaway c); [exact H|]. apply schedule_counter. exact H.
  - apply schedule_counter. exact H.
Qed.

Lemma iteration_counter limit c e : counter_ok c -> counter_ok (iteration limit c e).
Proof.
  intro H. unfold iteration. destruct (closed c); [exact H|].
  pose proof (handle_counter c e H) as H'. destruct (limit <? queued (handle c e)); exact H'.
Qed.

Lemma counter_is_queue_length limit evs c :
  counter_ok c -> counter_ok (run_events limit c evs).
Proof.
  revert c. induction evs as [|e r IH]; intros c H; simpl; [exact H|].
  apply IH. apply iteration_counter. exact H.
Qed.

(* ---------- the bound ---------- *)
Lemma schedule_queued c : queued (schedule c) <= queued c.
Proof.
  unfold schedule. destruct (writing c); [lia|]. destruct (need_goaway c); simpl; [lia|]. destruct (need_ack c); simpl; [lia|].
  destruct (zero c); simpl.
  - destruct (sq c) as [|[i q] r]; simpl; [destruct (needs_flush c); simpl; lia|lia].
  - lia.
Qed.
Lemma schedule_closed c : closed (schedule c) = closed c.
Proof.
  unfold schedule. destruct (writing c); [reflexivity|]. destruct (need_goaway c); simpl; [reflexivity|]. destruct (need_ack c); simpl; [reflexivity|].
  destruct (zero c); simpl; [|reflexivity].
  destruct (sq c) as [|[i q] r]; simpl; [destruct (needs_flush c); reflexivity|reflexivity].
Qed.

Lemma write_frame_queued c st tag : queued (write_frame c st tag) <= queued c + 1.
Proof.
  unfold write_frame. etransitivity; [apply schedule_queued|]. destruct (st =? 0); simpl; lia.
Qed.
Lemma write_frame_closed c st tag : closed (write_frame c st tag) = closed c.
Proof. unfold write_frame. rewrite schedule_closed. destruct (st =? 0); reflexivity. Qed.

Lemma handle_queued c e : queued (handle c e) <= queued c + per_iteration_max.
Proof.
  unfold per_iteration_max. destruct e; simpl; try lia.
  - pose proof (write_frame_queued c 0 id). lia.
  - pose proof (schedule_queued (mkC (zero c) (sq c) (queued c) (writing c) (needs_flush c) true (closed c) (started c) (in_goaway c) (need_goaway c) (max_sid c))).
    simpl in *. lia.
  - destruct (in_goaway c && (max_sid c <? sid)); [lia|].
    pose proof (write_frame_queued c 0 0). pose proof (write_frame_queued (write_frame c 0 0) 0 (- sid)). lia.
  - destruct (in_goaway c); simpl; lia.
  - pose proof (write_frame_queued c sid tag). lia.
  - pose proof (write_frame_queued c 0 tag). lia.
  - destruct (existsb (fun e => fst e =? sid) (sq c)); simpl; [|lia]. pose proof (write_frame_queued c 0 (- sid)). lia.
  - destruct (in_goaway c); [lia|].
    pose proof (schedule_queued (mkC (zero c) (sq c) (queued c) (writing c) (needs_flush c) (need_ack c) (closed c) (started c) true true (max_sid c))).
    simpl in *. lia.
  - pose proof (schedule_queued (mkC (zero c) (sq c) (queued c) false (needs_flush c) (need_ack c) (closed c) (started c) (in_goaway c) (need_goaway c) (max_sid c))).
    unfold wrote_frame. simpl in *. lia.
Qed.
Lemma handle_closed c e : closed (handle c e) = closed c.
Proof.
  destruct e; simpl; rewrite ?write_frame_closed, ?schedule_closed; try reflexivity.
  - destruct (in_goaway c && (max_sid c <? sid)); [reflexivity|]. rewrite !write_frame_closed. reflexivity.
  - destruct (in_goaway c); reflexivity.
  - destruct (existsb (fun e => fst e =? sid) (sq c)); simpl; [apply write_frame_closed|reflexivity].
  - destruct (in_goaway c); [reflexivity|]. rewrite schedule_closed. reflexivity.
  - unfold wrote_frame. rewrite schedule_closed. reflexivity.
Qed.

Definition bound_ok (limit : Z) (c : conn) : Prop :=
  (closed c = false -> queued c <= limit) /\ queued c <= limit + per_iteration_max.

Lemma iteration_bound limit c e : bound_ok limit c -> bound_ok limit (iteration limit c e).
Proof.
  intros [H1 H2]. unfold iteration. destruct (closed c) eqn:Ec; [split; [rewrite Ec; discriminate|exact H2]|].
  pose proof (handle_queued c e) as Hq. specialize (H1 eq_refl).
  destruct (limit <? queued (handle c e)) eqn:El; split; simpl.
  - discriminate.
  - lia.
  - intros _. apply Z.ltb_ge in El. exact El.
  - lia.
Qed.

Lemma bounded limit evs c : bound_ok limit c -> bound_ok limit (run_events limit c evs).
Proof.
  revert c. induction evs as [|e r IH]; intros c H; simpl; [exact H|]. apply IH, iteration_bound, H.
Qed.

Lemma iteration_closed_mono limit c e : closed c = true -> closed (iteration limit c e) = true.
Proof. intro H. unfold iteration. rewrite H. exact H. Qed.
Lemma closed_forever limit evs c : closed c = true -> closed (run_events limit c evs) = true.
Proof.
  revert c. induction evs as [|e r IH]; intros c H; simpl; [exact H|]. apply IH, iteration_closed_mono, H.
Qed.

(* ---------- a flood against a blocked writer does close the connection ---------- *)
Lemma ping_blocked limit c id :
  writing c = true -> closed c = false ->
  let c' := iteration limit c (EPing id) in
  queued c' = queued c + 1 /\ writing c' = true /\ closed c' = (limit <? queued c + 1)
  /\ zero c' = id :: zero c.
Proof.
  intros Hw Hc. unfold iteration. rewrite Hc. simpl handle. unfold write_frame. simpl.
  unfold schedule. simpl. rewrite Hw. simpl.
  destruct (limit <? queued c + 1) eqn:E; simpl; rewrite ?Hw, ?Hc; repeat split; reflexivity.
Qed.

Lemma flood_blocked limit ids : forall c,
  writing c = true -> closed c = false -> queued c <= limit ->
  let c' := run_events limit c (map EPing ids) in
  if limit <? queued c + Z.of_nat (length ids)
  then closed c' = true /\ queued c' = limit + 1
  else closed c' = false /\ queued c' = queued c + Z.of_nat (length ids) /\ zero c' = rev ids ++ zero c.
Proof.
  induction ids as [|id r IH]; intros c Hw Hc Hq.
  - simpl. replace (queued c + 0) with (queued c) by lia.
    destruct (limit <? queued c) eqn:E; [apply Z.ltb_lt in E; lia|]. split; [exact Hc|]. split; [lia|reflexivity].
  - cbv zeta. cbn [map run_events fold_left].
    destruct (ping_blocked limit c id Hw Hc) as [Q [W [C Zr]]].
    set (c1 := iteration limit c (EPing id)) in *.
    destruct (limit <? queued c + 1) eqn:E1.
    + (* closed by this very ping *)
      assert (Hcl : closed (fold_left (iteration limit) (map EPing r) c1) = true)
        by (apply (closed_forever limit (map EPing r) c1); exact C).
      assert (Hqq : queued (fold_left (iteration limit) (map EPing r) c1) = queued c1).
      { clear -C. revert C. generalize (map EPing r) as evs. intros evs. revert c1.
        induction evs as [|e evs IHe]; intros c1 C; simpl; [reflexivity|].
        assert (E : iteration limit c1 e = c1) by (unfold iteration; rewrite C; reflexivity).
        rewrite E. apply IHe. exact C. }
      apply Z.ltb_lt in E1.
      destruct (limit <? queued c + Z.of_nat (length (id :: r))) eqn:E2.
      * split; [exact Hcl|]. unfold run_events in *. rewrite Hqq, Q. lia.
      * apply Z.ltb_ge in E2. simpl length in E2. lia.
    + apply Z.ltb_ge in E1.
      assert (Hq1 : queued c1 <= limit) by lia.
      specialize (IH c1 W C Hq1). cbv zeta in IH. unfold run_events in *.
      replace (queued c + Z.of_nat (length (id :: r))) with (queued c1 + Z.of_nat (length r))
        by (rewrite Q; simpl length; lia).
      destruct (limit <? queued c1 + Z.of_nat (length r)); [exact IH|].
      destruct IH as [A [B D]]. split; [exact A|]. split; [exact B|].
      rewrite D, Zr. simpl. rewrite <- app_assoc. reflexivity.
Qed.

Lemma flood_closes limit ids :
  0 <= limit -> limit < Z.of_nat (length ids) ->
  let c := run_events limit conn_blocked (map EPing ids) in
  closed c = true /\ queued c = limit + 1 /\ Z.of_nat (length (zero c)) = limit + 1.
Proof.
  intros H0 Hl.
  pose proof (flood_blocked limit ids conn_blocked eq_refl eq_refl) as F. simpl queued in F.
  specialize (F H0). cbv zeta in F.
  destruct (limit <? 0 + Z.of_nat (length ids)) eqn:E; [|apply Z.ltb_ge in E; lia].
  destruct F as [A B]. cbv zeta. split; [exact A|]. split; [exact B|].
  pose proof (counter_is_queue_length limit (map EPing ids) conn_blocked eq_refl) as K.
  unfold counter_ok in K. rewrite <- K. exact B.
Qed.

Lemma flood_below_stays_open limit ids :
  Z.of_nat (length ids) <= limit ->
  let c := run_events limit conn_blocked (map EPing ids) in
  closed c = false /\ zero c = rev ids.
Proof.
  intros Hl.
  assert (H0 : 0 <= limit) by lia.
  pose proof (flood_blocked limit ids conn_blocked eq_refl eq_refl) as F. simpl queued in F.
  specialize (F H0). cbv zeta in F.
  destruct (limit <? 0 + Z.of_nat (length ids)) eqn:E; [apply Z.ltb_lt in E; lia|].
  destruct F as [A [B D]]. cbv zeta. split; [exact A|]. rewrite D. simpl. apply app_nil_r.
Qed.

(* ---------- the executable property holds of the model on every input ---------- *)
Definition good (limit : Z) (c : conn) : Prop := counter_ok c /\ bound_ok limit c.

Lemma iteration_good limit c e : good limit c -> good limit (iteration limit c e).
Proof. intros [A B]. split; [apply iteration_counter, A|apply iteration_bound, B]. Qed.

Lemma rep_events_good limit n mk st :
  good limit (fst st) -> good limit (fst (rep_events limit n mk st)).
Proof.
  intro H. unfold rep_events, Z.iter. destruct n as [|p|p]; try exact H.
  apply (Pos.iter_invariant p _ _ (fun s => good limit (fst s))); [|exact H].
  intros x Hx. simpl. apply iteration_good, Hx.
Qed.
Lemma rep_events_closed limit n mk st :
  closed (fst st) = true -> closed (fst (rep_events limit n mk st)) = true.
Proof.
  intro H. unfold rep_events, Z.iter. destruct n as [|p|p]; try exact H.
  apply (Pos.iter_invariant p _ _ (fun s => closed (fst s) = true)); [|exact H].
  intros x Hx. simpl. apply iteration_closed_mono, Hx.
Qed.

Lemma apply_cop_good limit o st : good limit (fst st) -> good limit (fst (apply_cop limit o st)).
Proof.
  intro H. destruct o; simpl; try (destruct (in_goaway (fst st)); simpl); try exact H; try (apply rep_events_good, H); repeat apply iteration_good; exact H.
Qed.
Lemma apply_cop_closed limit o st : closed (fst st) = true -> closed (fst (apply_cop limit o st)) = true.
Proof.
  intro H. destruct o; simpl; try (destruct (in_goaway (fst st)); simpl); try exact H; try (apply rep_events_closed, H); repeat apply iteration_closed_mono; exact H.
Qed.

Lemma sample_step limit wc c r :
  good limit c -> (wc = true -> closed c = true) ->
  samples_ok limit wc (sample c :: r) = samples_ok limit (closed c) r.
Proof.
  intros [Hc [Hb1 Hb2]] Hw. unfold counter_ok in Hc. unfold sample, vLZ. cbn [map samples_ok].
  assert (E1 : (queued c =? Z.of_nat (length (zero c))) = true) by (apply Z.eqb_eq; exact Hc).
  assert (E2 : (0 <=? Z.of_nat (length (zero c))) = true) by (apply Z.leb_le; lia).
  assert (E3 : (Z.of_nat (length (zero c)) <=? limit + per_iteration_max) = true) by (apply Z.leb_le; lia).
  rewrite E1, E2, E3. cbn [andb].
  destruct (closed c) eqn:Ecl.
  - cbn. destruct wc; reflexivity.
  - assert (E4 : (Z.of_nat (length (zero c)) <=? limit) = true) by (apply Z.leb_le; specialize (Hb1 eq_refl); lia).
    rewrite E4. cbn. destruct wc; [specialize (Hw eq_refl); discriminate|reflexivity].
Qed.

Lemma drain_good limit c : good limit c -> good limit (drain limit c).
Proof.
  intro H. unfold drain.
  set (c1 := iteration limit c (EPing MARKER)).
  assert (H1 : good limit c1) by (apply iteration_good, H).
  set (c0 := mkC (zero c1) (sq c1) (queued c1) (writing c1) (needs_flush c1) (need_ack c1) (closed c1) [] (in_goaway c1) (need_goaway c1) (max_sid c1)).
  assert (H0 : good limit c0) by exact H1.
  generalize (repeat tt (length (zero c0) + Z.to_nat (sq_total (sq c0)) + 6)) as l.
  intro l. revert H0. generalize c0. induction l as [|x l IH]; intros c2 H2; simpl; [exact H2|].
  apply IH, iteration_good, H2.
Qed.
Lemma drain_closed limit c : closed c = true -> closed (drain limit c) = true.
Proof.
  intro H. unfold drain.
  set (c1 := iteration limit c (EPing MARKER)).
  assert (H1 : closed c1 = true) by (apply iteration_closed_mono, H).
  set (c0 := mkC (zero c1) (sq c1) (queued c1) (writing c1) (needs_flush c1) (need_ack c1) (closed c1) [] (in_goaway c1) (need_goaway c1) (max_sid c1)).
  assert (H0 : closed c0 = true) by exact H1.
  generalize (repeat tt (length (zero c0) + Z.to_nat (sq_total (sq c0)) + 6)) as l.
  intro l. revert H0. generalize c0. induction l as [|x l IH]; intros c2 H2; simpl; [exact H2|].
  apply IH, iteration_closed_mono, H2.
Qed.
Lemma drain_state_good limit c : good limit c -> good limit (drain_state limit c).
Proof. intro H. unfold drain_state. destruct (closed c || (limit <=? queued c)); [exact H|apply drain_good, H]. Qed.
Lemma drain_state_closed limit c : closed c = true -> closed (drain_state limit c) = true.
Proof. intro H. unfold drain_state. rewrite H. exact H. Qed.

Lemma run_ops_ok limit ops : forall st wc out,
  good limit (fst st) -> (wc = true -> closed (fst st) = true) ->
  run_ops limit ops st = Some out -> samples_ok limit wc out = true.
Proof.
  induction ops as [|o r IH]; intros st wc out Hg Hw Hr.
  - simpl in Hr. inversion Hr. reflexivity.
  - assert (Hgen : forall out',
      match run_ops limit r (barrier limit (fst (apply_cop limit o st)), snd (apply_cop limit o st)) with
      | Some out0 => Some (sample (barrier limit (fst (apply_cop limit o st))) :: out0)
      | None => None
      end = Some out' -> samples_ok limit wc out' = true).
    { intros out' Hr'.
      destruct (run_ops limit r (barrier limit (fst (apply_cop limit o st)), snd (apply_cop limit o st))) as [out0|] eqn:E;
        [|discriminate].
      inversion Hr'; subst out'.
      assert (Hg' : good limit (barrier limit (fst (apply_cop limit o st))))
        by (apply iteration_good, apply_cop_good, Hg).
      rewrite sample_step; [|exact Hg'|].
      - eapply IH; [| |exact E]; simpl; [exact Hg'|intro H; exact H].
      - intro H. apply iteration_closed_mono, apply_cop_closed, Hw, H. }
    destruct o; simpl in Hr; try (apply Hgen; exact Hr).
    destruct r; [|discriminate]. inversion Hr.
    assert (Hd : samples_ok limit wc [sample (barrier limit (drain_state limit (fst st)))] = true).
    { rewrite sample_step.
      - reflexivity.
      - apply iteration_good, drain_state_good, Hg.
      - intro H. apply iteration_closed_mono, drain_state_closed, Hw, H. }
    unfold drain_out.
    destruct (closed (fst st) || (limit <=? queued (fst st))); cbn [samples_ok Z.eqb Pos.eqb andb]; exact Hd.
Qed.

Lemma conn_blocked_good limit : 0 <= limit -> good limit conn_blocked.
Proof.
  intro H. split; [reflexivity|]. split; simpl; unfold per_iteration_max; lia.
Qed.

(* every well-formed input: the model's own observation satisfies the executable property *)
Lemma prop_C37_of_model limit stall ops :
  0 <= limit -> 0 <= stall ->
  run_C37 (VL [VZ limit; VZ stall; VL ops]) <> VErr 0 ->
  prop_C37 (VL [VZ limit; VZ stall; VL ops]) (run_C37 (VL [VZ limit; VZ stall; VL ops])) = true.
Proof.
  intros Hl Hs. unfold run_C37.
  assert (E1 : (0 <=? limit) = true) by (apply Z.leb_le; exact Hl).
  assert (E2 : (0 <=? stall) = true) by (apply Z.leb_le; exact Hs).
  rewrite E1, E2. cbn [andb].
  destruct (all_some (map dec_cop ops)) as [cops|]; [|intro H; exfalso; apply H; reflexivity].
  destruct (run_ops limit cops (conn_blocked, 1)) as [out|] eqn:Er; [|intro H; exfalso; apply H; reflexivity].
  intros _. unfold prop_C37.
  rewrite (sample_step limit false conn_blocked out (conn_blocked_good limit Hl)); [|discriminate].
  eapply run_ops_ok; [| |exact Er]; simpl; [apply conn_blocked_good, Hl|discriminate].
Qed.

Lemma run_ops_some limit cops : forall st, drain_last cops = true -> run_ops limit cops st <> None.
Proof.
  induction cops as [|o r IH]; intros st Hd; [simpl; discriminate|].
  assert (G : forall o', drain_last r = true ->
    match run_ops limit r (barrier limit (fst (apply_cop limit o' st)), snd (apply_cop limit o' st)) with
    | Some out => Some (sample (barrier limit (fst (apply_cop limit o' st))) :: out)
    | None => None
    end <> None).
  { intros o' Hd'. specialize (IH (barrier limit (fst (apply_cop limit o' st)), snd (apply_cop limit o' st)) Hd').
    destruct (run_ops limit r _); [discriminate|exact IH]. }
  destruct o; cbn [run_ops]; cbn [drain_last] in Hd; try (apply G; exact Hd).
  destruct r; [discriminate|discriminate].
Qed.

(* THE central statement: on every well-formed input the model's observation satisfies the executable property *)
Lemma prop_C37_central i : wf_C37 i = true -> kf_C37 i = 0 -> prop_C37 i (run_C37 i) = true.
Proof.
  intros Hwf _. unfold wf_C37 in Hwf.
  destruct i as [z|b|l]; try discriminate.
  destruct l as [|[limit| |] [|[stall| |] [|[| |ops] [|]]]]; try discriminate.
  apply andb_true_iff in Hwf. destruct Hwf as [Hwf Hd]. apply andb_true_iff in Hwf. destruct Hwf as [Hl Hs].
  apply Z.leb_le in Hl. apply Z.leb_le in Hs.
  apply prop_C37_of_model; [exact Hl|exact Hs|].
  unfold run_C37.
  assert (E1 : (0 <=? limit) = true) by (apply Z.leb_le; exact Hl).
  assert (E2 : (0 <=? stall) = true) by (apply Z.leb_le; exact Hs).
  rewrite E1, E2. cbn [andb].
  destruct (all_some (map dec_cop ops)) as [cops|]; [|discriminate].
  pose proof (run_ops_some limit cops (conn_blocked, 1) Hd) as Hn.
  destruct (run_ops limit cops (conn_blocked, 1)); [discriminate|contradiction].
Qed.

(* non-vacuity witnesses *)
Lemma ex_flood_input :
  let i := VL [VZ 5; VZ 0; VL [VL [VZ 1; VZ 5]; VL [VZ 5; VZ 1]; VL [VZ 4; VZ 1; VZ 77]; VL [VZ 7]]] in
  run_C37 i = VL [vLZ [0;0;0;0]; vLZ [5;5;0;0]; vLZ [5;5;1;0]; vLZ [7;7;-1;1]; VL [VZ 7; VL []]; vLZ [7;7;-1;1]]
  /\ wf_C37 i = true
  /\ prop_C37 i (run_C37 i) = true.
Proof. vm_compute. repeat split; reflexivity. Qed.
Lemma ex_drain_input :
  let i := VL [VZ 10; VZ 2; VL [VL [VZ 1; VZ 3]; VL [VZ 4; VZ 1; VZ 77]; VL [VZ 7]]] in
  run_C37 i = VL [vLZ [0;0;0;0]; vLZ [3;3;0;0]; vLZ [5;5;0;0]; VL [VZ 7; vLZ [1;2;3;0;-77;MARKER]]; vLZ [0;0;0;0]].
Proof. vm_compute. reflexivity. Qed.

(* graceful shutdown does not switch the accounting off: after GOAWAY(NO_ERROR) a flood against the blocked writer is
   still counted and still closes the connection at limit + 1 *)
Lemma flood_closes_goaway limit ids :
  0 <= limit -> limit < Z.of_nat (length ids) ->
  let c := run_events limit conn_blocked (EGoAway :: map EPing ids) in
  closed c = true /\ queued c = limit + 1 /\ Z.of_nat (length (zero c)) = limit + 1 /\ in_goaway c = true.
Proof.
  intros H0 Hl. cbv zeta. cbn [run_events fold_left].
  assert (E : iteration limit conn_blocked EGoAway
              = mkC [] [] 0 true false false false [] true true 0).
  { unfold iteration. cbn. destruct (limit <? 0) eqn:El; [apply Z.ltb_lt in El; lia|reflexivity]. }
  rewrite E. set (c1 := mkC [] [] 0 true false false false [] true true 0).
  pose proof (flood_blocked limit ids c1 eq_refl eq_refl) as F. simpl queued in F. specialize (F H0). cbv zeta in F.
  destruct (limit <? 0 + Z.of_nat (length ids)) eqn:El; [|apply Z.ltb_ge in El; lia].
  destruct F as [A B]. unfold run_events in *. split; [exact A|]. split; [exact B|].
  pose proof (counter_is_queue_length limit (map EPing ids) c1 eq_refl) as K. unfold counter_ok, run_events in K.
  split; [rewrite <- K; exact B|].
  clear -c1. generalize (map EPing ids) as evs. intro evs.
  assert (G : forall evs c, in_goaway c = true -> in_goaway (fold_left (iteration limit) evs c) = true).
  { induction evs0 as [|e r IH]; intros c Hc; [exact Hc|]. simpl. apply IH.
    unfold iteration. destruct (closed c); [exact Hc|].
    assert (Hh : in_goaway (handle c e) = true).
    { assert (Hs : forall x, in_goaway (schedule x) = in_goaway x).
      { intro x. unfold schedule. destruct (writing x); [reflexivity|]. destruct (need_goaway x); [reflexivity|].
        destruct (need_ack x); [reflexivity|]. destruct (zero x); [|reflexivity].
        destruct (sq x) as [|[i q] r0]; [destruct (needs_flush x); reflexivity|reflexivity]. }
      assert (Hw : forall x st tag, in_goaway (write_frame x st tag) = in_goaway x)
        by (intros x st tag; unfold write_frame; rewrite Hs; destruct (st =? 0); reflexivity).
      destruct e; simpl; rewrite ?Hw, ?Hs; try exact Hc.
      - destruct (in_goaway c && (max_sid c <? sid)); [exact Hc|]. rewrite !Hw. exact Hc.
      - rewrite Hc. exact Hc.
      - destruct (existsb (fun e0 => fst e0 =? sid) (sq c)); [simpl; rewrite Hw; exact Hc|exact Hc].
      - rewrite Hc. exact Hc.
      - unfold wrote_frame. rewrite Hs. exact Hc. }
    destruct (limit <? queued (handle c e)); exact Hh. }
  apply G. reflexivity.
Qed.
