(* Proofs about the ipdict model (repaired mergeItems/Sort): the merge stack is pairwise separated, covers
   exactly the addresses of the loaded ranges; hence for every valid sorter the table search is exact. *)
From Coq Require Import List ZArith Bool Lia Sorted Permutation ZifyBool.
From Bfe Require Import lib.Val lib.ValProofs model.IpDict run.RunC19.
Import ListNotations.
Open Scope Z_scope.

Definition wfr (r : rng) : Prop := fst r <= snd r.
Definition desc (a b : rng) : Prop := fst b <= fst a.
Definition inr (ip : Z) (r : rng) : Prop := fst r <= ip <= snd r.
Definition Cov (l : list rng) (ip : Z) : Prop := exists r, In r l /\ inr ip r.
(* stack order (top first): everything above ends before the start of everything below *)
Definition above (a b : rng) : Prop := snd a < fst b.
(* array order: everything later ends before the start of everything earlier *)
Definition sepR (a b : rng) : Prop := snd b < fst a.

(* sort.Sort as a parameter: any function returning a permutation that is sorted w.r.t. Less *)
Definition valid_sorter (f : list rng -> list rng) : Prop :=
  forall l, Permutation (f l) l /\ StronglySorted desc (f l).

Lemma Cov_nil ip : Cov [] ip <-> False.
Proof. split; [intros (r & [] & _) | tauto]. Qed.
Lemma Cov_cons r l ip : Cov (r :: l) ip <-> inr ip r \/ Cov l ip.
Proof.
  split.
  - intros (x & [-> | Hin] & Hi); [left; exact Hi | right; exists x; tauto].
  - intros [Hi | (x & Hin & Hi)]; [exists r | exists x]; simpl; tauto.
Qed.
Lemma Cov_perm a b ip : Permutation a b -> Cov a ip -> Cov b ip.
Proof. intros HP (r & Hin & H). exists r. split; [eapply Permutation_in; eauto | exact H]. Qed.
Lemma Cov_rev l ip : Cov (rev l) ip <-> Cov l ip.
Proof. split; intros (r & Hin & H); exists r; split; auto; [apply in_rev; exact Hin | apply in_rev in Hin; exact Hin]. Qed.

(* ---- one step of the merge loop ---- *)
Lemma push_spec : forall st cur,
  wfr cur -> Forall wfr st -> StronglySorted above st -> (forall x, In x st -> fst cur <= fst x) ->
  StronglySorted above (push cur st) /\ Forall wfr (push cur st) /\
  (forall ip, Cov (push cur st) ip <-> inr ip cur \/ Cov st ip) /\
  (forall x, In x (push cur st) -> fst cur <= fst x) /\
  (length (push cur st) <= S (length st))%nat.
Proof.
  induction st as [|top r IH]; intros cur Hc Hw Hs Hle.
  - cbn [push]. split; [repeat constructor|]. split; [repeat constructor; exact Hc|].
    split; [intros ip; rewrite Cov_cons; tauto|]. split; [intros x [<- | []]; lia | simpl; lia].
  - cbn [push]. inversion Hw as [|? ? Ht Hw']; subst. inversion Hs as [|? ? Hs' Hab]; subst.
    pose proof (Hle top (or_introl eq_refl)) as Hct.
    destruct (fst top <=? snd cur) eqn:E.
    + set (c2 := (fst cur, if snd cur <? snd top then snd top else snd cur)).
      assert (Hc2 : wfr c2) by (unfold wfr, c2 in *; cbn [fst snd]; destruct (snd cur <? snd top); lia).
      destruct (IH c2 Hc2 Hw' Hs') as (G1 & G2 & G3 & G4 & G5).
      { intros x Hx. unfold c2. cbn [fst]. apply Hle. right. exact Hx. }
      split; [exact G1|]. split; [exact G2|].
      split.
      { intros ip. rewrite G3, Cov_cons.
        assert (Hu : inr ip c2 <-> inr ip cur \/ inr ip top).
        { unfold inr, c2, wfr in *. cbn [fst snd]. destruct (snd cur <? snd top) eqn:E2; lia. }
        rewrite Hu. tauto. }
      split; [intros x Hx; apply (G4 x Hx)|]. simpl. lia.
    + split.
      { constructor; [exact Hs|]. constructor; [unfold above; lia|].
        rewrite Forall_forall in *. intros b Hb. specialize (Hab b Hb). unfold above, wfr in *. lia. }
      split; [constructor; [exact Hc | exact Hw]|].
      split; [intros ip; rewrite Cov_cons; tauto|].
      split; [intros x [<- | Hx]; [lia | apply Hle; exact Hx] | simpl; lia].
Qed.

(* ---- the whole merge loop ---- *)
Lemma merge_spec : forall l st,
  StronglySorted desc l -> Forall wfr l -> Forall wfr st -> StronglySorted above st ->
  (forall x y, In x st -> In y l -> fst y <= fst x) ->
  let r := fold_left (fun st x => push x st) l st in
  StronglySorted above r /\ Forall wfr r /\ (forall ip, Cov r ip <-> Cov l ip \/ Cov st ip) /\
  (length r <= length l + length st)%nat.
Proof.
  induction l as [|x l IH]; intros st Hs Hw Hwst Hsep Hle; cbn [fold_left].
  - split; [exact Hsep|]. split; [exact Hwst|]. split; [intros ip; rewrite Cov_nil; tauto | simpl; lia].
  - inversion Hs as [|? ? Hs' Hd]; subst. inversion Hw as [|? ? Hx Hw']; subst.
    destruct (push_spec st x Hx Hwst Hsep) as (P1 & P2 & P3 & P4 & P5).
    { intros z Hz. apply (Hle z x Hz). left. reflexivity. }
    destruct (IH (push x st) Hs' Hw' P2 P1) as (G1 & G2 & G3 & G4).
    { intros z y Hz Hy. rewrite Forall_forall in Hd. specialize (Hd y Hy). specialize (P4 z Hz). unfold desc in Hd. lia. }
    split; [exact G1|]. split; [exact G2|].
    split; [intros ip; rewrite G3, P3, Cov_cons; tauto | simpl; lia].
Qed.

Lemma merge_stack_spec l : StronglySorted desc l -> Forall wfr l ->
  StronglySorted above (merge_stack l) /\ Forall wfr (merge_stack l) /\
  (forall ip, Cov (merge_stack l) ip <-> Cov l ip) /\ (length (merge_stack l) <= length l)%nat.
Proof.
  intros Hs Hw. destruct (merge_spec l [] Hs Hw (Forall_nil _) (SSorted_nil _)) as (G1 & G2 & G3 & G4).
  { intros x y []. }
  unfold merge_stack. split; [exact G1|]. split; [exact G2|].
  split; [intros ip; rewrite G3, Cov_nil; tauto | simpl in G4; lia].
Qed.

(* ---- the reslice keeps exactly the stack (bottom first) ---- *)
Lemma build_is_stack sorter items : Permutation (sorter items) items ->
  (length (merge_stack (sorter items)) <= length (sorter items))%nat ->
  build sorter items = rev (merge_stack (sorter items)).
Proof.
  intros HP Hl. unfold build, merge_items. set (st := merge_stack (sorter items)) in *.
  rewrite <- (Permutation_length HP).
  replace (Z.to_nat (Z.of_nat (length (sorter items)) - (Z.of_nat (length (sorter items)) - Z.of_nat (length st))))
    with (length (rev st)) by (rewrite rev_length; lia).
  rewrite firstn_app, firstn_all, Nat.sub_diag. cbn [firstn]. apply app_nil_r.
Qed.

Lemma SS_rev {A} (R : A -> A -> Prop) l :
  StronglySorted R l -> StronglySorted (fun a b => R b a) (rev l).
Proof.
  induction 1 as [|a l HS IH HF]; simpl; [constructor|].
  assert (G : forall m, StronglySorted (fun a b => R b a) m -> Forall (fun b => R a b) m ->
                        StronglySorted (fun a b => R b a) (m ++ [a])).
  { induction 1 as [|b m HSm IHm HFm]; intros HA; simpl; [repeat constructor|].
    inversion HA; subst. constructor; [apply IHm; assumption|].
    apply Forall_app. split; [exact HFm | constructor; [assumption | constructor]]. }
  apply G; [exact IH|]. rewrite Forall_forall in *. intros b Hb. apply in_rev in Hb. apply HF. exact Hb.
Qed.

(* search over a separated array is exact *)
Lemma search_sep : forall l ip, StronglySorted sepR l -> Forall wfr l ->
  (search l ip = true <-> Cov l ip).
Proof.
  induction l as [|[s e] l IH]; intros ip HS HW.
  - simpl. rewrite Cov_nil. split; [discriminate | tauto].
  - inversion HS as [|? ? HS' HF]; subst. inversion HW as [|? ? Hw HW']; subst. cbn [search]. rewrite Cov_cons.
    destruct (s <=? ip) eqn:Es.
    + split; [intros H; left; unfold inr; simpl; lia|].
      intros [Hi | (r & Hin & Hi)]; [unfold inr in Hi; simpl in Hi; lia|].
      exfalso. rewrite Forall_forall in HF. specialize (HF r Hin). unfold sepR, inr in *. simpl in *. lia.
    + rewrite (IH ip HS' HW'). split; [tauto|]. intros [Hi | H]; [unfold inr in Hi; simpl in Hi; lia | exact H].
Qed.

Lemma sep_desc l : StronglySorted sepR l -> Forall wfr l -> StronglySorted desc l.
Proof.
  induction 1 as [|a l HS IH HF]; intros HW; [constructor|]. inversion HW as [|? ? Ha HW']; subst.
  constructor; [apply IH; exact HW'|]. rewrite Forall_forall in *. intros b Hb.
  specialize (HF b Hb). specialize (HW' b Hb). unfold sepR, desc, wfr in *. lia.
Qed.

Lemma bool_eq_iff (a b : bool) : (a = true <-> b = true) -> a = b.
Proof. destruct a, b; intuition congruence. Qed.
Lemma wf_rng_wfr items : forallb wf_rng items = true -> Forall wfr items.
Proof. rewrite forallb_forall. intros H. apply Forall_forall. intros r Hr. specialize (H r Hr). unfold wf_rng, wfr in *. lia. Qed.
Lemma Cov_existsb l ip : Cov l ip <-> existsb (in_rng ip) l = true.
Proof.
  rewrite existsb_exists. unfold Cov. split; intros (r & Hin & Hi); exists r; split; auto; unfold in_rng, inr in *; lia.
Qed.

Section Sorter.
  Variable sorter : list rng -> list rng.
  Hypothesis Hsorter : valid_sorter sorter.

  Lemma build_facts items : Forall wfr items ->
    StronglySorted sepR (build sorter items) /\ Forall wfr (build sorter items) /\
    (forall ip, Cov (build sorter items) ip <-> Cov items ip).
  Proof.
    intros Hw. destruct (Hsorter items) as [HP HS].
    assert (Hw1 : Forall wfr (sorter items)).
    { rewrite Forall_forall in *. intros x Hx. apply Hw. eapply Permutation_in; eauto. }
    destruct (merge_stack_spec _ HS Hw1) as (G1 & G2 & G3 & G4).
    rewrite (build_is_stack sorter items HP G4).
    split; [apply (SS_rev above); exact G1|].
    split; [apply Forall_rev; exact G2|].
    intros ip. rewrite Cov_rev, G3. split; apply Cov_perm; [exact HP | apply Permutation_sym; exact HP].
  Qed.

  Theorem search_exact_pairs items ip : forallb wf_rng items = true ->
    search (build sorter items) ip = existsb (in_rng ip) items.
  Proof.
    intros Hwf. destruct (build_facts items (wf_rng_wfr _ Hwf)) as (G1 & G2 & G3).
    apply bool_eq_iff. rewrite (search_sep _ ip G1 G2), G3. apply Cov_existsb.
  Qed.

  (* the headline: exact membership, no guard *)
  Theorem search_exact items singles ip : forallb wf_rng items = true ->
    table_search singles (build sorter items) ip = spec singles items ip.
  Proof. intros Hwf. unfold table_search, spec. f_equal. apply search_exact_pairs. exact Hwf. Qed.

  (* the array handed to sort.Search is sorted: "first index with start <= ip" is what binary search returns *)
  Theorem final_sorted items : forallb wf_rng items = true -> StronglySorted desc (build sorter items).
  Proof.
    intros Hwf. destruct (build_facts items (wf_rng_wfr _ Hwf)) as (G1 & G2 & _). apply sep_desc; assumption.
  Qed.

  (* and its entries are pairwise disjoint, non-touching ranges *)
  Theorem final_separated items : forallb wf_rng items = true -> StronglySorted sepR (build sorter items).
  Proof. intros Hwf. destruct (build_facts items (wf_rng_wfr _ Hwf)) as (G1 & _). exact G1. Qed.
End Sorter.

(* ---- Go's insertion sort is a valid sorter ---- *)
Definition asc (a b : rng) : Prop := fst a <= fst b.
Lemma insert_left_perm x acc : Permutation (insert_left x acc) (x :: acc).
Proof.
  induction acc as [|y r IH]; simpl; [apply Permutation_refl|].
  destruct (less x y); [|apply Permutation_refl].
  eapply perm_trans; [apply perm_skip; exact IH | apply perm_swap].
Qed.
Lemma insert_left_sorted x acc : StronglySorted asc acc -> StronglySorted asc (insert_left x acc).
Proof.
  induction 1 as [|y r HS IH HF]; simpl; [repeat constructor|].
  unfold less. destruct (fst y <=? fst x) eqn:E.
  - constructor; [exact IH|]. rewrite Forall_forall in *. intros z Hz.
    apply (Permutation_in _ (insert_left_perm x r)) in Hz. destruct Hz as [<- | Hz]; [unfold asc; lia | auto].
  - constructor; [constructor; assumption|]. constructor; [unfold asc; lia|].
    rewrite Forall_forall in *. intros z Hz. specialize (HF z Hz). unfold asc in *. lia.
Qed.
Lemma fold_insert_spec l : forall acc, StronglySorted asc acc ->
  Permutation (fold_left (fun a x => insert_left x a) l acc) (l ++ acc) /\
  StronglySorted asc (fold_left (fun a x => insert_left x a) l acc).
Proof.
  induction l as [|x l IH]; intros acc Ha; simpl; [split; [apply Permutation_refl | exact Ha]|].
  destruct (IH (insert_left x acc) (insert_left_sorted x acc Ha)) as [HP HS]. split; [|exact HS].
  eapply perm_trans; [exact HP|]. eapply perm_trans; [apply Permutation_app_head; apply insert_left_perm|].
  apply Permutation_sym. apply Permutation_middle.
Qed.
Theorem go_insertion_sort_valid : valid_sorter go_insertion_sort.
Proof.
  intros l. unfold go_insertion_sort.
  destruct (fold_insert_spec l [] (SSorted_nil _)) as [HP HS]. rewrite app_nil_r in HP. split.
  - eapply perm_trans; [apply Permutation_sym; apply Permutation_rev | exact HP].
  - apply (SS_rev asc). exact HS.
Qed.

(* ---- 4-byte and 16-byte forms of an IPv4 address are the same address ---- *)
Definition v4prefix : list Z := [0;0;0;0;0;0;0;0;0;0;255;255].
Lemma fold_be_acc b : forall acc,
  fold_left (fun a x => a * 256 + x) b acc = acc * 256 ^ Z.of_nat (length b) + fold_left (fun a x => a * 256 + x) b 0.
Proof.
  induction b as [|x b IH]; intros acc; cbn [fold_left length]; [rewrite Z.pow_0_r; lia|].
  rewrite IH, (IH (0 * 256 + x)), Nat2Z.inj_succ, Z.pow_succ_r by lia. ring.
Qed.
Lemma be_app a b : be (a ++ b) = be a * 256 ^ Z.of_nat (length b) + be b.
Proof. unfold be. rewrite fold_left_app. apply fold_be_acc. Qed.
Theorem to16_v4_forms b : length b = 4%nat -> to16 (v4prefix ++ b) = to16 b.
Proof.
  intros H. unfold to16. rewrite app_length, H. cbn [length v4prefix Nat.add Nat.eqb].
  rewrite be_app, H. f_equal.
Qed.

(* ---- the executable predicates of RunC19 ---- *)
Lemma some_inj {A} (x y : A) : Some x = Some y -> x = y.
Proof. intros H. injection H. auto. Qed.
Lemma insert_pair_wf s e r : insert_pair s e = Some r -> wf_rng r = true.
Proof.
  unfold insert_pair. destruct (to16 s) as [s16|]; [|discriminate]. destruct (to16 e) as [e16|]; [|discriminate].
  destruct (negb (Bool.eqb (is_v4 s16) (is_v4 e16))); [discriminate|].
  destruct (e16 <? s16) eqn:E3; [discriminate|]. intros E. apply some_inj in E. subst r.
  unfold wf_rng. cbn [fst snd]. lia.
Qed.
Lemma loaded_items_wf i : forallb wf_rng (loaded_items i) = true.
Proof.
  unfold loaded_items. induction (in_pairs i) as [|p l IH]; [reflexivity|]. cbn [map keep_some].
  destruct (insert_pair (fst p) (snd p)) as [r|] eqn:E; cbn [keep_some]; [|exact IH].
  cbn [forallb]. rewrite (insert_pair_wf _ _ _ E). exact IH.
Qed.

(* executable well-formedness of a wire input: it decodes *)
Definition wf_C19 (v : val) : bool := match dec_input v with Some _ => true | None => false end.

Lemma version_results i :
  results_of (version_obs i (go_insertion_sort (loaded_items i))) = VL (spec_results i).
Proof.
  unfold version_obs, spec_results. pose proof (loaded_items_wf i) as Hw.
  destruct (merge_items (go_insertion_sort (loaded_items i))) as [m cnt] eqn:Em.
  assert (Hf : final_of (length (loaded_items i)) cnt m = build go_insertion_sort (loaded_items i)).
  { unfold build, final_of. rewrite Em. reflexivity. }
  rewrite Hf. unfold results_of. cbn [nth]. f_equal.
  apply map_ext. intros q. unfold probe_result, spec_result. destruct (to16 q); [|reflexivity].
  destruct (in_noupd i); [reflexivity|].
  rewrite (search_exact _ go_insertion_sort_valid _ _ _ Hw). reflexivity.
Qed.
Lemma version_obs_shape i s1 : exists a0 a1 a2 a3 a4 a6,
  version_obs i s1 = [a0; a1; a2; a3; a4; results_of (version_obs i s1); a6].
Proof. unfold version_obs. destruct (merge_items s1) as [m cnt]. do 6 eexists. reflexivity. Qed.
Lemma one_of_left : forall a b, length a = length b -> one_of a b a = true.
Proof.
  induction a as [|x a IH]; intros [|y b] H; simpl in H; try discriminate; [reflexivity|].
  cbn [one_of]. rewrite val_eqb_refl. cbn [orb andb]. apply IH. lia.
Qed.

(* the model satisfies the executable property on every well-formed input *)
Theorem prop_C19_of_model : forall v, wf_C19 v = true -> kf_C19 v = 0 -> prop_C19 v (run_C19 v) = true.
Proof.
  intros v Hwf _. unfold wf_C19, prop_C19, run_C19 in *. destruct (dec_input v) as [i|]; [|discriminate].
  pose proof (version_results i) as R1. pose proof (version_results (second i)) as R2.
  destruct (version_obs_shape i (go_insertion_sort (loaded_items i))) as (a0 & a1 & a2 & a3 & a4 & a6 & E1).
  destruct (version_obs_shape (second i) (go_insertion_sort (loaded_items (second i))))
    as (b0 & b1 & b2 & b3 & b4 & b6 & E2).
  set (o1 := version_obs i (go_insertion_sort (loaded_items i))) in *.
  set (o2 := version_obs (second i) (go_insertion_sort (loaded_items (second i)))) in *.
  rewrite R1 in E1. rewrite R2 in E2.
  destruct (in_mode i =? 2).
  - rewrite R1, R2, E1, E2. cbn [app firstn nth]. rewrite !val_eqb_refl. cbn [andb].
    apply one_of_left. unfold spec_results. rewrite !map_length. reflexivity.
  - rewrite E1. cbn [nth]. rewrite val_eqb_refl. reflexivity.
Qed.

(* ---- IPTable.Update while a Search is in flight ---- *)
Theorem search_during_linearizable : forall cell t1 t2 t3 ip, (t1 <= t2 <= t3)%nat ->
  exists t, (t1 <= t <= t3)%nat /\ search_during cell t1 t2 t3 ip = vsearch (cell t) ip.
Proof. intros cell t1 t2 t3 ip H. exists t1. split; [lia | reflexivity]. Qed.

Theorem search_during_exact : forall sorter, valid_sorter sorter ->
  forall (sg : nat -> list Z) (items : nat -> list rng) t1 t2 t3 ip,
  (forall t, forallb wf_rng (items t) = true) -> (t1 <= t2 <= t3)%nat ->
  exists t, (t1 <= t <= t3)%nat /\
    search_during (fun t => (sg t, build sorter (items t))) t1 t2 t3 ip = spec (sg t) (items t) ip.
Proof.
  intros sorter Hs sg items t1 t2 t3 ip Hw Ht. exists t1. split; [lia|].
  unfold search_during. cbn [fst snd]. apply (search_exact sorter Hs (items t1) (sg t1) ip (Hw t1)).
Qed.

Corollary search_during_member_of_all : forall sorter, valid_sorter sorter ->
  forall (sg : nat -> list Z) (items : nat -> list rng) t1 t2 t3 ip,
  (forall t, forallb wf_rng (items t) = true) -> (t1 <= t2 <= t3)%nat ->
  (forall t, spec (sg t) (items t) ip = true) ->
  search_during (fun t => (sg t, build sorter (items t))) t1 t2 t3 ip = true.
Proof.
  intros sorter Hs sg items t1 t2 t3 ip Hw Ht Hall.
  destruct (search_during_exact sorter Hs sg items t1 t2 t3 ip Hw Ht) as (t & _ & E). rewrite E. apply Hall.
Qed.

(* contrast: a lookup that re-reads the live pointer for its range half is NOT linearizable: old version
   10..20 as a range, new version 15 as a single address, Update lands between the two steps: 15 is a member of
   both versions and yet reported absent *)
Lemma search_live_not_linearizable :
  let old := ([], [(10, 20)]) in let new := ([15], []) in
  let cell := fun t => if (t <? 2)%nat then old else new in
  vsearch old 15 = true /\ vsearch new 15 = true /\
  search_during cell 0 1 2 15 = true /\ search_during_live cell 0 1 2 15 = false.
Proof. vm_compute. auto. Qed.

(* ---- non-vacuity ---- *)
Lemma C19_nonvacuous_lemma :
  let a := Z4 + 167772160 in
  let items := [(a + 10, a + 20); (a + 15, a + 30); (a + 12, a + 13); (a + 30, a + 31); (a + 33, a + 40);
                (a + 10, a + 20); (5, 9); (0, 3); (0, 0); (Z4, Z4); (Z4, Z4 + 2); (1, Z4 + 1)] in
  forallb wf_rng items = true /\
  build go_insertion_sort items = [(a + 33, a + 40); (a + 10, a + 31); (0, Z4 + 2)] /\
  map (fun ip => table_search [a + 50] (build go_insertion_sort items) ip)
      [a + 9; a + 10; a + 31; a + 32; a + 33; a + 41; 0; 4; Z4 + 2; Z4 + 3; a + 50]
  = [false; true; true; false; true; false; true; true; true; false; true].
Proof. vm_compute. auto. Qed.
Lemma C19_former_witnesses_lemma :
  table_search [] (build go_insertion_sort [(0, 5); (0, 9)]) 3 = true /\
  table_search [] (build go_insertion_sort [(Z4, Z4 + 5); (Z4 + 2, Z4 + 9); (Z4, Z4)]) (Z4 + 1) = true.
Proof. vm_compute. auto. Qed.
Lemma C19_wf_example :
  wf_C19 (VL [VL [VL [VB [0;0;0;0]; VB [0;0;0;5]]; VL [VB [0;0;0;2]; VB [0;0;0;9]]; VL [VB [0;0;0;0]; VB [0;0;0;0]]];
              VL []; VL [VB [0;0;0;1]; VB [0;0;0;0]; VB [0;0;0;9]; VB [0;0;0;10]]; VZ 0; VZ 0]) = true.
Proof. reflexivity. Qed.
