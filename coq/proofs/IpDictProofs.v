(* Proofs about the ipdict model: the merge keeps the covered address set, leaves pairwise separated
   survivors, counts its tombstones exactly; hence for every valid sorter the table search is exact
   whenever no loaded range collides with the zero-address tombstone encoding. *)
From Coq Require Import List ZArith Bool Lia Sorted Permutation ZifyBool.
From Bfe Require Import lib.Val lib.ValProofs model.IpDict run.RunC19.
Import ListNotations.
Open Scope Z_scope.

Definition good (r : rng) : Prop := 0 < fst r /\ fst r <= snd r /\ snd r <> Z4.
Definition ok (r : rng) : Prop := r = tomb \/ good r.
Definition liveb (r : rng) : bool := negb (snd r =? 0).
Definition lv (l : list rng) : list rng := filter liveb l.
Definition desc (a b : rng) : Prop := fst b <= fst a.
Definition sepR (a b : rng) : Prop := snd b < fst a.
Definition inr (ip : Z) (r : rng) : Prop := fst r <= ip <= snd r.
Definition Cov (l : list rng) (ip : Z) : Prop := exists r, In r l /\ snd r <> 0 /\ inr ip r.
Fixpoint nlive (l : list rng) : Z :=
  match l with [] => 0 | r :: t => (if snd r =? 0 then 0 else 1) + nlive t end.

(* sort.Sort as a parameter: any function returning a permutation that is sorted w.r.t. Less *)
Definition valid_sorter (f : list rng -> list rng) : Prop :=
  forall l, Permutation (f l) l /\ StronglySorted desc (f l).

Lemma Z4_pos : 0 < Z4. Proof. reflexivity. Qed.
Lemma good_live r : good r -> snd r <> 0.
Proof. unfold good. lia. Qed.
Lemma is_zero_good r : good r -> is_zero (snd r) = false.
Proof. unfold good, is_zero. intros H. destruct (snd r =? 0) eqn:E1; destruct (snd r =? Z4) eqn:E2; try reflexivity; lia. Qed.
Lemma good_ok r : good r -> ok r. Proof. right. assumption. Qed.
Lemma tomb_ok : ok tomb. Proof. left. reflexivity. Qed.
Lemma ok_live_good r : ok r -> snd r <> 0 -> good r.
Proof. intros [-> | H] Hl; [simpl in Hl; lia | exact H]. Qed.
Lemma max_if a b : (if a <=? b then b else a) = Z.max a b.
Proof. destruct (a <=? b) eqn:E; lia. Qed.

(* ---- nlive / lv / Cov algebra ---- *)
Lemma nlive_app a b : nlive (a ++ b) = nlive a + nlive b.
Proof. induction a as [|x a IH]; simpl; [reflexivity | rewrite IH; lia]. Qed.
Lemma lv_app a b : lv (a ++ b) = lv a ++ lv b.
Proof. apply filter_app. Qed.
Definition tombs (p : list rng) : list rng := map (fun _ => tomb) p.
Lemma lv_tombs p : lv (tombs p) = [].
Proof. induction p; simpl; auto. Qed.
Lemma nlive_tombs p : nlive (tombs p) = 0.
Proof. induction p; simpl; auto. Qed.
Lemma nlive_length_lv l : nlive l = Z.of_nat (length (lv l)).
Proof.
  induction l as [|r l IH]; [reflexivity|]. cbn [nlive lv filter]. unfold liveb at 1.
  destruct (snd r =? 0); cbn [negb]; fold (lv l); [lia | cbn [length]; lia].
Qed.
Lemma lv_cons_live x l : snd x <> 0 -> lv (x :: l) = x :: lv l.
Proof. intros H. cbn [lv filter]. unfold liveb at 1. destruct (snd x =? 0) eqn:E; [lia | reflexivity]. Qed.
Lemma lv_cons_dead x l : snd x = 0 -> lv (x :: l) = lv l.
Proof. intros H. cbn [lv filter]. unfold liveb at 1. rewrite H. reflexivity. Qed.
Lemma In_lv r l : In r (lv l) <-> In r l /\ snd r <> 0.
Proof. unfold lv. rewrite filter_In. unfold liveb. destruct (snd r =? 0) eqn:E; simpl; intuition (try lia; try congruence). Qed.

Lemma Cov_nil ip : Cov [] ip <-> False.
Proof. split; [intros (r & [] & _) | tauto]. Qed.
Lemma Cov_cons r l ip : Cov (r :: l) ip <-> (snd r <> 0 /\ inr ip r) \/ Cov l ip.
Proof.
  split.
  - intros (x & [-> | Hin] & Hl & Hi); [left; tauto | right; exists x; tauto].
  - intros [[Hl Hi] | (x & Hin & Hl & Hi)]; [exists r | exists x]; simpl; tauto.
Qed.
Lemma Cov_app a b ip : Cov (a ++ b) ip <-> Cov a ip \/ Cov b ip.
Proof.
  induction a as [|x a IH]; simpl.
  - rewrite Cov_nil. tauto.
  - rewrite !Cov_cons, IH. tauto.
Qed.
Lemma Cov_tombs p ip : Cov (tombs p) ip <-> False.
Proof.
  split; [|tauto]. intros (r & Hin & Hl & _). unfold tombs in Hin. apply in_map_iff in Hin.
  destruct Hin as (_ & <- & _). simpl in Hl. lia.
Qed.
Lemma Cov_perm a b ip : Permutation a b -> Cov a ip -> Cov b ip.
Proof. intros HP (r & Hin & H). exists r. split; [eapply Permutation_in; eauto | exact H]. Qed.

Lemma kill_between_spec p : Forall ok p -> kill_between p = (tombs p, nlive p).
Proof.
  induction 1 as [|k r Hk _ IH]; [reflexivity|]. cbn [kill_between tombs map nlive]. fold (tombs r). rewrite IH.
  destruct Hk as [-> | Hg].
  - reflexivity.
  - rewrite (is_zero_good _ Hg). pose proof (good_live _ Hg) as Hl.
    destruct (snd k =? 0) eqn:E; [lia|]. f_equal. lia.
Qed.
Lemma Forall_ok_tombs p : Forall ok (tombs p).
Proof. induction p; simpl; constructor; auto using tomb_ok. Qed.

Lemma SS_app_r {A} (R : A -> A -> Prop) a b : StronglySorted R (a ++ b) -> StronglySorted R b.
Proof. induction a as [|x a IH]; simpl; [auto|]. intros H. inversion H; auto. Qed.
Lemma SS_app_Forall {A} (R : A -> A -> Prop) a b x :
  StronglySorted R (a ++ b) -> In x a -> Forall (R x) b.
Proof.
  induction a as [|y a IH]; simpl; [tauto|]. intros H [-> | Hin].
  - inversion H as [|? ? _ HF]; subst. apply Forall_app in HF. tauto.
  - inversion H; subst. auto.
Qed.
Lemma SS_filter {A} (R : A -> A -> Prop) f l : StronglySorted R l -> StronglySorted R (filter f l).
Proof.
  induction 1 as [|a l HS IH HF]; simpl; [constructor|].
  destruct (f a); [|exact IH]. constructor; [exact IH|].
  rewrite Forall_forall in *. intros x Hx. apply filter_In in Hx. apply HF. tauto.
Qed.

(* ---- the inner loop (fixed i) ---- *)
Lemma inner_spec : forall rest cur passed cnt,
  good cur -> Forall ok passed -> Forall ok rest ->
  StronglySorted desc (lv (passed ++ rest)) ->
  (forall p, In p passed -> snd p <> 0 -> snd p < fst cur) ->
  (forall x, In x rest -> snd x <> 0 -> fst x <= fst cur) ->
  forall cur' rest' cnt', inner cur passed rest cnt = (cur', rest', cnt') ->
    good cur' /\ Forall ok rest' /\ length rest' = (length passed + length rest)%nat /\
    (forall ip, (inr ip cur' \/ Cov rest' ip) <-> (inr ip cur \/ Cov passed ip \/ Cov rest ip)) /\
    (forall y, In y rest' -> snd y <> 0 -> snd y < fst cur') /\
    StronglySorted desc (lv rest') /\
    cnt' = cnt + nlive passed + nlive rest - nlive rest'.
Proof.
  induction rest as [|x rest IH]; intros cur passed cnt Hcur Hp Hr Hs Hsep Hle cur' rest' cnt' E.
  - cbn [inner] in E. inversion E; subst. rewrite app_nil_r in Hs.
    split; [exact Hcur|]. split; [exact Hp|]. split; [simpl; lia|].
    split; [intros ip; rewrite Cov_nil; tauto|]. split; [exact Hsep|]. split; [exact Hs|]. simpl; lia.
  - inversion Hr as [|? ? Hx Hr']; subst.
    (* the two "not merged" branches share this continuation *)
    assert (Hskip : (snd x <> 0 -> snd x < fst cur) ->
                    inner cur (passed ++ [x]) rest cnt = (cur', rest', cnt') ->
      good cur' /\ Forall ok rest' /\ length rest' = (length passed + length (x :: rest))%nat /\
      (forall ip, (inr ip cur' \/ Cov rest' ip) <-> (inr ip cur \/ Cov passed ip \/ Cov (x :: rest) ip)) /\
      (forall y, In y rest' -> snd y <> 0 -> snd y < fst cur') /\
      StronglySorted desc (lv rest') /\
      cnt' = cnt + nlive passed + nlive (x :: rest) - nlive rest').
    { intros Hxs E'.
      eapply IH in E'; eauto.
      - destruct E' as (G1 & G2 & G3 & G4 & G5 & G6 & G7).
        split; [exact G1|]. split; [exact G2|].
        split; [rewrite G3, app_length; simpl; lia|].
        split; [intros ip; rewrite G4, Cov_app, !Cov_cons, Cov_nil; tauto|].
        split; [exact G5|]. split; [exact G6|].
        rewrite G7, nlive_app. cbn [nlive]. lia.
      - apply Forall_app. split; [exact Hp | constructor; [exact Hx | constructor]].
      - rewrite <- app_assoc. exact Hs.
      - intros p Hin. apply in_app_iff in Hin. destruct Hin as [Hin | [<- | []]]; [apply Hsep; exact Hin | exact Hxs].
      - intros y Hy. apply Hle. right. exact Hy. }
    cbn [inner] in E.
    destruct Hx as [-> | Hgx].
    + (* a tombstone is skipped *)
      cbn [tomb snd fst] in E. rewrite Z.eqb_refl in E. cbn [orb] in E.
      apply Hskip; [simpl; lia | exact E].
    + pose proof (good_live _ Hgx) as Hlx.
      assert (E0 : (snd x =? 0) = false) by lia. rewrite E0 in E.
      assert (E4 : (snd cur =? Z4) = false) by (unfold good in Hcur; lia). rewrite E4 in E. cbn [orb] in E.
      destruct (fst cur <=? snd x) eqn:Ec.
      * (* merge: items[i] absorbs items[j]; everything in between dies *)
        rewrite (kill_between_spec _ Hp) in E. rewrite max_if in E.
        set (c2 := (fst x, Z.max (snd cur) (snd x))) in *.
        assert (Hfx : fst x <= fst cur) by (apply Hle; [left; reflexivity | exact Hlx]).
        assert (Hgc : good c2). { unfold good in Hcur, Hgx |- *. unfold c2. cbn [fst snd]. clear - Hcur Hgx. lia. }
        assert (Hsx : StronglySorted desc (x :: lv rest)).
        { rewrite lv_app in Hs. apply SS_app_r in Hs. rewrite (lv_cons_live _ _ Hlx) in Hs. exact Hs. }
        eapply IH in E; eauto.
        -- destruct E as (G1 & G2 & G3 & G4 & G5 & G6 & G7).
           assert (Hcov : forall ip, inr ip c2 <-> (inr ip cur \/ Cov passed ip \/ (snd x <> 0 /\ inr ip x))).
           { intros ip. split.
             - unfold inr, c2, good in *. cbn [fst snd]. intros H.
               destruct (Z_le_gt_dec (fst cur) ip), (Z_le_gt_dec ip (snd cur)); [left; lia | right; right; lia ..].
             - intros [H | [(p & Hin & Hl & Hi) | [_ H]]].
               + unfold inr, c2, good in *. cbn [fst snd]. lia.
               + pose proof (Hsep p Hin Hl) as H1.
                 assert (Hd : desc p x).
                 { rewrite lv_app, (lv_cons_live _ _ Hlx) in Hs.
                   pose proof (SS_app_Forall _ _ _ p Hs) as HF.
                   assert (Hin' : In p (lv passed)) by (apply In_lv; tauto).
                   specialize (HF Hin'). inversion HF; assumption. }
                 unfold inr, c2, good, desc in *. cbn [fst snd]. lia.
               + unfold inr, c2, good in *. cbn [fst snd]. lia. }
           split; [exact G1|]. split; [exact G2|].
           split; [rewrite G3, app_length; unfold tombs; rewrite map_length; simpl; lia|].
           split.
           { intros ip. rewrite G4, Cov_app, Cov_cons, Cov_tombs, Cov_nil, Cov_cons. rewrite Hcov.
             cbn [tomb snd]. intuition lia. }
           split; [exact G5|]. split; [exact G6|].
           rewrite G7, nlive_app, nlive_tombs. cbn [nlive tomb snd]. rewrite E0, Z.eqb_refl. lia.
        -- apply Forall_app. split; [apply Forall_ok_tombs | constructor; [apply tomb_ok | constructor]].
        -- rewrite !lv_app, lv_tombs. simpl. inversion Hsx; assumption.
        -- intros p Hin Hl. exfalso. apply in_app_iff in Hin. destruct Hin as [Hin | [<- | []]].
           ++ unfold tombs in Hin. apply in_map_iff in Hin. destruct Hin as (_ & <- & _). simpl in Hl. lia.
           ++ simpl in Hl. lia.
        -- intros y Hy Hl. inversion Hsx as [|? ? _ HF]; subst. rewrite Forall_forall in HF.
           assert (Hy' : In y (lv rest)) by (apply In_lv; tauto). specialize (HF y Hy'). unfold desc in HF.
           unfold c2. simpl. exact HF.
      * apply Hskip; [lia | exact E].
Qed.

(* ---- the outer loop ---- *)
Lemma outer_spec : forall fuel l cnt, (length l <= fuel)%nat -> Forall ok l -> StronglySorted desc (lv l) ->
  forall l' cnt', outer fuel l cnt = (l', cnt') ->
    Forall ok l' /\ length l' = length l /\ (forall ip, Cov l' ip <-> Cov l ip) /\
    StronglySorted sepR (lv l') /\ cnt' = cnt + nlive l - nlive l'.
Proof.
  induction fuel as [|f IH]; intros l cnt Hlen Hok Hs l' cnt' E.
  - destruct l; [|simpl in Hlen; lia]. simpl in E. inversion E; subst.
    split; [constructor|]. split; [reflexivity|]. split; [tauto|]. split; [constructor | lia].
  - destruct l as [|cur rest].
    + simpl in E. inversion E; subst.
      split; [constructor|]. split; [reflexivity|]. split; [tauto|]. split; [constructor | lia].
    + cbn [outer] in E. inversion Hok as [|? ? Hc Hr]; subst. simpl in Hlen.
      destruct Hc as [-> | Hg].
      * change (is_zero (snd tomb)) with true in E. cbn iota in E.
        destruct (outer f rest cnt) as [r c] eqn:Eo. inversion E; subst.
        change (lv (tomb :: rest)) with (lv rest) in Hs.
        eapply IH in Eo; eauto; [|lia].
        destruct Eo as (G1 & G2 & G3 & G4 & G5).
        split; [constructor; [apply tomb_ok | exact G1]|].
        split; [simpl; lia|].
        split; [intros ip; rewrite !Cov_cons, G3; tauto|].
        split; [change (lv (tomb :: r)) with (lv r); exact G4|].
        cbn [nlive tomb snd]. rewrite Z.eqb_refl. lia.
      * rewrite (is_zero_good _ Hg) in E.
        destruct (inner cur [] rest 0) as [[c2 rest2] c1] eqn:Ei.
        destruct (outer f rest2 (cnt + c1)) as [r c] eqn:Eo. inversion E; subst.
        pose proof (good_live _ Hg) as Hl.
        assert (Hs' : StronglySorted desc (cur :: lv rest)).
        { rewrite (lv_cons_live _ _ Hl) in Hs. exact Hs. }
        inversion Hs' as [|? ? Hs2 HF]; subst.
        eapply inner_spec in Ei; eauto.
        2:{ intros p []. }
        2:{ intros x Hx Hlx. rewrite Forall_forall in HF. apply (HF x). apply In_lv. tauto. }
        destruct Ei as (I1 & I2 & I3 & I4 & I5 & I6 & I7).
        eapply IH in Eo; eauto; [|simpl in I3; lia].
        destruct Eo as (G1 & G2 & G3 & G4 & G5).
        pose proof (good_live _ I1) as Hl2.
        split; [constructor; [apply good_ok; exact I1 | exact G1]|].
        split; [simpl; simpl in I3; lia|].
        split.
        { intros ip. rewrite !Cov_cons, G3. specialize (I4 ip). rewrite Cov_nil in I4. tauto. }
        split.
        { rewrite (lv_cons_live _ _ Hl2).
          constructor; [exact G4|]. apply Forall_forall. intros y Hy. apply In_lv in Hy. destruct Hy as [Hy Hly].
          rewrite Forall_forall in G1. pose proof (ok_live_good _ (G1 y Hy) Hly) as Hgy.
          assert (Hc : Cov r (snd y)) by (exists y; unfold inr, good in *; repeat split; auto; lia).
          apply G3 in Hc. destruct Hc as (x & Hx & Hlx & Hix). pose proof (I5 x Hx Hlx) as H5.
          unfold sepR, inr in *. lia. }
        cbn [nlive]. destruct (snd cur =? 0) eqn:E0; [lia|]. destruct (snd c2 =? 0) eqn:E1; [lia|].
        simpl in I7. lia.
Qed.

(* ---- the second sort and the reslice ---- *)
Lemma firstn_lv_sorted l : StronglySorted desc l -> Forall ok l -> firstn (length (lv l)) l = lv l.
Proof.
  induction 1 as [|a l HS IH HF]; intros Hok; [reflexivity|].
  inversion Hok as [|? ? Ha Hl]; subst.
  destruct (Z.eq_dec (snd a) 0) as [E0 | E0].
  - (* a is a tombstone: everything after it starts at 0, hence is a tombstone too *)
    rewrite (lv_cons_dead _ _ E0).
    assert (Hn : lv l = []).
    { destruct (lv l) as [|y t] eqn:Ey; [reflexivity|]. exfalso.
      assert (Hy : In y (lv l)) by (rewrite Ey; left; reflexivity). apply In_lv in Hy. destruct Hy as [Hy Hly].
      rewrite Forall_forall in HF, Hl. pose proof (ok_live_good _ (Hl y Hy) Hly) as Hg.
      pose proof (HF y Hy) as Hd. destruct Ha as [-> | Hga]; [|pose proof (good_live _ Hga); lia].
      unfold desc, good in *. simpl in Hd. lia. }
    rewrite Hn. reflexivity.
  - rewrite (lv_cons_live _ _ E0). cbn [length firstn]. f_equal. apply IH. exact Hl.
Qed.

Lemma Permutation_lv a b : Permutation a b -> Permutation (lv a) (lv b).
Proof.
  induction 1 as [| x a b _ IH | x y a | a b c _ IH1 _ IH2]; cbn [lv filter].
  - constructor.
  - destruct (liveb x); [constructor|]; exact IH.
  - destruct (liveb x), (liveb y); try apply Permutation_refl. apply perm_swap.
  - eapply perm_trans; eauto.
Qed.

(* search over any list that is sorted by start, duplicate-free and pairwise disjoint is exact *)
Definition disj (a b : rng) : Prop := snd b < fst a \/ snd a < fst b.
Lemma search_exact_list : forall l ip,
  StronglySorted desc l -> NoDup l -> Forall good l ->
  (forall a b, In a l -> In b l -> a = b \/ disj a b) ->
  (search l ip = true <-> exists r, In r l /\ inr ip r).
Proof.
  induction l as [|[s e] l IH]; intros ip HS HN HG HD.
  - simpl. split; [discriminate | intros (r & [] & _)].
  - inversion HS as [|? ? HS' HF]; subst. inversion HN as [|? ? Hni HN']; subst.
    inversion HG as [|? ? Hg HG']; subst. cbn [search].
    destruct (s <=? ip) eqn:Es.
    + split.
      * intros H. exists (s, e). split; [left; reflexivity | unfold inr; simpl; lia].
      * intros (r & [<- | Hin] & Hi); [unfold inr in Hi; simpl in Hi; lia|].
        exfalso. destruct (HD (s, e) r (or_introl eq_refl) (or_intror Hin)) as [<- | Hd]; [tauto|].
        rewrite Forall_forall in HF. pose proof (HF r Hin) as Hds.
        unfold disj, desc, inr, good in *. simpl in *. lia.
    + rewrite IH; auto.
      * split; intros (r & Hin & Hi); [exists r; split; [right|]; assumption|].
        destruct Hin as [<- | Hin]; [unfold inr in Hi; simpl in Hi; lia | exists r; tauto].
      * intros a b Ha Hb. apply HD; right; assumption.
Qed.

Lemma sep_NoDup l : Forall good l -> StronglySorted sepR l -> NoDup l.
Proof.
  induction 2 as [|a l HS IH HF]; [constructor|]. inversion H; subst.
  constructor; [|auto]. intros Hin. rewrite Forall_forall in HF. specialize (HF a Hin).
  unfold sepR, good in *. lia.
Qed.
Lemma sep_disj l : StronglySorted sepR l -> forall a b, In a l -> In b l -> a = b \/ disj a b.
Proof.
  induction 1 as [|x l HS IH HF]; intros a b Ha Hb; [destruct Ha|].
  rewrite Forall_forall in HF. destruct Ha as [<- | Ha], Hb as [<- | Hb]; auto.
  - right. left. apply HF. exact Hb.
  - right. right. apply HF. exact Ha.
Qed.

Lemma Forall_good_live_eq l : Forall good l -> lv l = l.
Proof.
  induction 1 as [|r l Hg _ IH]; [reflexivity|]. cbn [lv filter]. unfold liveb at 1.
  pose proof (good_live _ Hg). destruct (snd r =? 0) eqn:E; [lia|]. cbn [negb]. fold (lv l). rewrite IH. reflexivity.
Qed.

Lemma merge_then_sort_exact : forall (s2 : list rng -> list rng) l1 ip,
  valid_sorter s2 -> Forall good l1 -> StronglySorted desc l1 ->
  let '(m, cnt) := merge_items l1 in
  (search (firstn (Z.to_nat (Z.of_nat (length l1) - cnt)) (s2 m)) ip = true <-> Cov l1 ip)
  /\ StronglySorted desc (firstn (Z.to_nat (Z.of_nat (length l1) - cnt)) (s2 m)).
Proof.
  intros s2 l1 ip Hv Hg Hs. unfold merge_items.
  destruct (outer (length l1) l1 0) as [m cnt] eqn:Eo.
  assert (Hok : Forall ok l1) by (eapply Forall_impl; [|exact Hg]; intros; apply good_ok; assumption).
  pose proof (Forall_good_live_eq _ Hg) as Hlv.
  eapply outer_spec in Eo; eauto; [|rewrite Hlv; exact Hs].
  destruct Eo as (G1 & G2 & G3 & G4 & G5).
  destruct (Hv m) as [HP HS2].
  assert (Hn : Z.to_nat (Z.of_nat (length l1) - cnt) = length (lv (s2 m))).
  { rewrite G5. rewrite (nlive_length_lv l1), Hlv, (nlive_length_lv m).
    rewrite (Permutation_length (Permutation_lv _ _ HP)). lia. }
  rewrite Hn.
  assert (Hok2 : Forall ok (s2 m)).
  { rewrite Forall_forall in *. intros x Hx. apply G1. eapply Permutation_in; eauto. }
  rewrite (firstn_lv_sorted _ HS2 Hok2).
  assert (HPl : Permutation (lv (s2 m)) (lv m)) by (apply Permutation_lv; exact HP).
  assert (Hgm : Forall good (lv m)).
  { rewrite Forall_forall in *. intros x Hx. apply In_lv in Hx. apply ok_live_good; [apply G1|]; tauto. }
  assert (Hg2 : Forall good (lv (s2 m))).
  { rewrite Forall_forall in *. intros x Hx. apply Hgm. eapply Permutation_in; eauto. }
  split; [|apply SS_filter; exact HS2].
  rewrite search_exact_list.
  - rewrite <- G3. split.
    + intros (r & Hin & Hi). apply In_lv in Hin. destruct Hin as [Hin Hl].
      exists r. split; [eapply Permutation_in; eauto | tauto].
    + intros (r & Hin & Hl & Hi). exists r. split; [|exact Hi]. apply In_lv. split; [|exact Hl].
      eapply Permutation_in; [apply Permutation_sym; exact HP | exact Hin].
  - apply SS_filter. exact HS2.
  - eapply Permutation_NoDup; [apply Permutation_sym; exact HPl | apply sep_NoDup; assumption].
  - exact Hg2.
  - intros a b Ha Hb. apply (sep_disj _ G4); eapply Permutation_in; eauto.
Qed.

(* guard, as a Prop over the loaded items *)
Definition goodb (r : rng) : bool := (0 <? fst r) && (fst r <=? snd r) && negb (snd r =? Z4).
Lemma goodb_good r : goodb r = true <-> good r.
Proof. unfold goodb, good. lia. Qed.

Lemma Cov_good_existsb l ip : Forall good l -> (Cov l ip <-> existsb (in_rng ip) l = true).
Proof.
  intros Hg. rewrite existsb_exists. rewrite Forall_forall in Hg. split.
  - intros (r & Hin & _ & Hi). exists r. split; [exact Hin|]. unfold in_rng, inr in *. lia.
  - intros (r & Hin & Hi). exists r. repeat split; auto; [apply good_live; auto | unfold in_rng in Hi; lia | unfold in_rng in Hi; lia].
Qed.

Lemma bool_eq_iff (a b : bool) : (a = true <-> b = true) -> a = b.
Proof. destruct a, b; intuition congruence. Qed.

Theorem search_exact_good : forall s1 s2 items ip,
  valid_sorter s1 -> valid_sorter s2 -> Forall good items ->
  search (build2 s1 s2 items) ip = existsb (in_rng ip) items.
Proof.
  intros s1 s2 items ip H1 H2 Hg. destruct (H1 items) as [HP HS]. unfold build2.
  assert (Hg1 : Forall good (s1 items)).
  { rewrite Forall_forall in *. intros x Hx. apply Hg. eapply Permutation_in; eauto. }
  pose proof (merge_then_sort_exact s2 (s1 items) ip H2 Hg1 HS) as HM.
  destruct (merge_items (s1 items)) as [m cnt]. rewrite (Permutation_length HP) in HM.
  destruct HM as [HM _]. apply bool_eq_iff. rewrite HM. rewrite <- (Cov_good_existsb _ _ Hg).
  split; apply Cov_perm; [exact HP | apply Permutation_sym; exact HP].
Qed.

Lemma merge_items_single x : merge_items [x] = ([x], 0).
Proof. unfold merge_items. cbn [length outer]. destruct (is_zero (snd x)); reflexivity. Qed.

(* zero or one loaded range: nothing to merge, whatever its bounds *)
Lemma search_exact_small : forall s1 s2 items ip,
  valid_sorter s1 -> valid_sorter s2 -> (length items <= 1)%nat ->
  search (build2 s1 s2 items) ip = existsb (in_rng ip) items.
Proof.
  intros s1 s2 items ip H1 H2 Hl. destruct (H1 items) as [HP _]. unfold build2.
  destruct items as [|x [|y t]]; [| |simpl in Hl; lia].
  - apply Permutation_sym, Permutation_nil in HP. rewrite HP. destruct (H2 []) as [HP2 _].
    apply Permutation_sym, Permutation_nil in HP2. cbn. try rewrite HP2. reflexivity.
  - apply Permutation_sym, Permutation_length_1_inv in HP. rewrite HP. rewrite merge_items_single.
    destruct (H2 [x]) as [HP2 _]. apply Permutation_sym, Permutation_length_1_inv in HP2. rewrite HP2.
    change (Z.to_nat (Z.of_nat (length [x]) - 0)) with 1%nat. destruct x as [s e].
    cbn [firstn search existsb]. unfold in_rng. cbn [fst snd].
    destruct (s <=? ip); cbn [andb orb]; try rewrite orb_false_r; reflexivity.
Qed.

Lemma guard_cases items :
  forallb wf_rng items = true -> no_zero_sentinel items = true ->
  (length items <= 1)%nat \/ Forall good items.
Proof.
  unfold no_zero_sentinel. intros Hwf Hg. apply orb_true_iff in Hg. destruct Hg as [Hg | Hg].
  - left. apply Nat.leb_le. exact Hg.
  - right. apply andb_true_iff in Hg. destruct Hg as [Ha Hb]. unfold no_v6zero_start, no_v4zero_end in *.
    rewrite forallb_forall in *. apply Forall_forall. intros r Hin.
    specialize (Hwf r Hin). specialize (Ha r Hin). specialize (Hb r Hin). unfold wf_rng, good in *. lia.
Qed.

(* the headline: exact membership for every valid pair of sorters under the guard *)
Theorem search_exact : forall s1 s2 items singles ip,
  valid_sorter s1 -> valid_sorter s2 ->
  forallb wf_rng items = true -> no_zero_sentinel items = true ->
  table_search singles (build2 s1 s2 items) ip = spec singles items ip.
Proof.
  intros s1 s2 items singles ip H1 H2 Hwf Hg. unfold table_search, spec. f_equal.
  destruct (guard_cases _ Hwf Hg) as [Hl | Hgd].
  - apply search_exact_small; assumption.
  - apply search_exact_good; assumption.
Qed.

(* the array handed to sort.Search is sorted, so "first index with start <= ip" is what binary search returns *)
Theorem final_sorted : forall s1 s2 items,
  valid_sorter s1 -> valid_sorter s2 -> Forall good items -> StronglySorted desc (build2 s1 s2 items).
Proof.
  intros s1 s2 items H1 H2 Hg. destruct (H1 items) as [HP HS]. unfold build2.
  assert (Hg1 : Forall good (s1 items)).
  { rewrite Forall_forall in *. intros x Hx. apply Hg. eapply Permutation_in; eauto. }
  pose proof (merge_then_sort_exact s2 (s1 items) 0 H2 Hg1 HS) as HM.
  destruct (merge_items (s1 items)) as [m cnt]. rewrite (Permutation_length HP) in HM. tauto.
Qed.

(* ---- Go's insertion sort is a valid sorter ---- *)
Definition asc (a b : rng) : Prop := fst a <= fst b.
Lemma insert_left_perm x acc : Permutation (insert_left x acc) (x :: acc).
Proof.
  induction acc as [|y r IH]; simpl; [apply Permutation_refl|].
  destruct (less x y); [|apply Permutation_refl].
  eapply perm_trans; [apply perm_skip; exact IH | apply perm_swap].
Qed.
Lemma insert_left_sorted x acc : StronglySorted asc acc -> StronglySorted asc (insert_left x acc).
Proof.
  induction 1 as [|y r HS IH HF]; simpl; [repeat constructor|].
  unfold less. destruct (fst y <=? fst x) eqn:E.
  - constructor; [exact IH|]. rewrite Forall_forall in *. intros z Hz.
    apply (Permutation_in _ (insert_left_perm x r)) in Hz. destruct Hz as [<- | Hz]; [unfold asc; lia | auto].
  - constructor; [constructor; assumption|]. constructor; [unfold asc; lia|].
    rewrite Forall_forall in *. intros z Hz. specialize (HF z Hz). unfold asc in *. lia.
Qed.
Lemma fold_insert_spec l : forall acc, StronglySorted asc acc ->
  Permutation (fold_left (fun a x => insert_left x a) l acc) (l ++ acc) /\
  StronglySorted asc (fold_left (fun a x => insert_left x a) l acc).
Proof.
  induction l as [|x l IH]; intros acc Ha; simpl; [split; [apply Permutation_refl | exact Ha]|].
  destruct (IH (insert_left x acc) (insert_left_sorted x acc Ha)) as [HP HS]. split; [|exact HS].
  eapply perm_trans; [exact HP|]. eapply perm_trans; [apply Permutation_app_head; apply insert_left_perm|].
  apply Permutation_sym. apply Permutation_middle.
Qed.
Lemma SS_rev_asc l : StronglySorted asc l -> StronglySorted desc (rev l).
Proof.
  induction 1 as [|a l HS IH HF]; simpl; [constructor|].
  assert (G : forall m, StronglySorted desc m -> Forall (fun b => desc b a) m -> StronglySorted desc (m ++ [a])).
  { induction 1 as [|b m HSm IHm HFm]; intros HA; simpl; [repeat constructor|].
    inversion HA; subst. constructor; [apply IHm; assumption|].
    apply Forall_app. split; [exact HFm | constructor; [assumption | constructor]]. }
  apply G; [exact IH|]. rewrite Forall_forall in *. intros b Hb. apply in_rev in Hb. apply HF in Hb. exact Hb.
Qed.
Theorem go_insertion_sort_valid : valid_sorter go_insertion_sort.
Proof.
  intros l. unfold go_insertion_sort.
  destruct (fold_insert_spec l [] (SSorted_nil _)) as [HP HS]. rewrite app_nil_r in HP. split.
  - eapply perm_trans; [apply Permutation_sym; apply Permutation_rev | exact HP].
  - apply SS_rev_asc. exact HS.
Qed.

(* ---- refutation witnesses ---- *)
Lemma refuted_v6zero :
  exists items ip, forallb wf_rng items = true /\
    table_search [] (build go_insertion_sort items) ip = false /\ spec [] items ip = true.
Proof. exists [(0, 5); (0, 9)], 3. vm_compute. auto. Qed.
Lemma refuted_v4zero :
  exists items ip, forallb wf_rng items = true /\
    table_search [] (build go_insertion_sort items) ip = false /\ spec [] items ip = true.
Proof. exists [(Z4, Z4 + 5); (Z4 + 2, Z4 + 9); (Z4, Z4)], (Z4 + 1). vm_compute. auto. Qed.

(* ---- the executable predicates of RunC19 ---- *)
Definition wf_bytes (b : list Z) : Prop := Forall (fun x => 0 <= x) b.
Definition wf_input (i : input) : Prop :=
  Forall (fun p => wf_bytes (fst p) /\ wf_bytes (snd p)) (in_pairs i).

Lemma be_nonneg b : wf_bytes b -> 0 <= be b.
Proof.
  unfold be. assert (G : forall acc, 0 <= acc -> wf_bytes b -> 0 <= fold_left (fun a x => a * 256 + x) b acc).
  { induction b as [|x b IH]; intros acc Ha Hb; simpl; [exact Ha|]. inversion Hb; subst. apply IH; [lia | assumption]. }
  apply G. lia.
Qed.
Lemma some_inj {A} (x y : A) : Some x = Some y -> x = y.
Proof. intros H. injection H. auto. Qed.
Lemma to16_nonneg b z : wf_bytes b -> to16 b = Some z -> 0 <= z.
Proof.
  intros Hb. unfold to16. pose proof (be_nonneg b Hb). pose proof Z4_pos.
  destruct (length b =? 4)%nat; [intros E; apply some_inj in E; lia|].
  destruct (length b =? 16)%nat; intros E; [apply some_inj in E; lia | discriminate].
Qed.
Lemma insert_pair_wf s e r : wf_bytes s -> wf_bytes e -> insert_pair s e = Some r -> wf_rng r = true.
Proof.
  intros Hs He. unfold insert_pair. destruct (to16 s) as [s16|] eqn:E1; [|discriminate].
  destruct (to16 e) as [e16|] eqn:E2; [|discriminate].
  pose proof (to16_nonneg _ _ Hs E1).
  destruct (negb (Bool.eqb (is_v4 s16) (is_v4 e16))); [discriminate|].
  destruct (e16 <? s16) eqn:E3; [discriminate|]. intros E. apply some_inj in E. subst r.
  unfold wf_rng. cbn [fst snd]. lia.
Qed.
Lemma loaded_items_wf i : wf_input i -> forallb wf_rng (loaded_items i) = true.
Proof.
  unfold wf_input, loaded_items. induction 1 as [|p l [Hs He] _ IH]; [reflexivity|]. cbn [map keep_some].
  destruct (insert_pair (fst p) (snd p)) as [r|] eqn:E; cbn [keep_some]; [|exact IH].
  cbn [forallb]. rewrite (insert_pair_wf _ _ _ Hs He E). exact IH.
Qed.
Lemma kf_items_guard its : kf_items its = 0 -> no_zero_sentinel its = true.
Proof.
  unfold kf_items, no_zero_sentinel. destruct (length its <=? 1)%nat; [reflexivity|].
  destruct (no_v6zero_start its); cbn; [|discriminate]. destruct (no_v4zero_end its); cbn; [reflexivity|discriminate].
Qed.

(* the model satisfies the executable property on every well-formed input outside the finding classes *)
Theorem prop_C19_of_model : forall v i,
  dec_input v = Some i -> wf_input i -> kf_C19 v = 0 -> prop_C19 v (run_C19 v) = true.
Proof.
  intros v i Hd Hwf Hk. unfold prop_C19, run_C19, kf_C19 in *. rewrite Hd in *.
  pose proof (loaded_items_wf _ Hwf) as Hw. pose proof (kf_items_guard _ Hk) as Hg.
  destruct (merge_items (go_insertion_sort (loaded_items i))) as [m cnt] eqn:Em.
  assert (Hf : final_of (length (loaded_items i)) cnt (go_insertion_sort m)
               = build2 go_insertion_sort go_insertion_sort (loaded_items i)).
  { unfold build2, final_of. rewrite Em. reflexivity. }
  rewrite Hf.
  assert (Hm : map (fun q => vbool (probe_result (loaded_singles i)
                      (build2 go_insertion_sort go_insertion_sort (loaded_items i)) q)) (in_probes i)
             = map (fun q => vbool (spec_result (loaded_singles i) (loaded_items i) q)) (in_probes i)).
  { apply map_ext. intros q. unfold probe_result, spec_result. destruct (to16 q); [|reflexivity].
    rewrite (search_exact _ _ _ _ _ go_insertion_sort_valid go_insertion_sort_valid Hw Hg). reflexivity. }
  rewrite Hm. apply val_eqb_refl.
Qed.

Lemma C19_nonvacuous_lemma :
  let a := Z4 + 167772160 in
  let items := [(a + 10, a + 20); (a + 15, a + 30); (a + 12, a + 13); (a + 30, a + 31); (a + 33, a + 40);
                (a + 10, a + 20); (5, 9)] in
  forallb wf_rng items = true /\ no_zero_sentinel items = true /\
  build go_insertion_sort items = [(a + 33, a + 40); (a + 10, a + 31); (5, 9)] /\
  map (fun ip => table_search [7] (build go_insertion_sort items) ip) [a + 9; a + 10; a + 31; a + 32; a + 33; a + 41; 4; 5; 9; 10; 7]
  = [false; true; true; false; true; false; false; true; true; false; true].
Proof. vm_compute. auto. Qed.
