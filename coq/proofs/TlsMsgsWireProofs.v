(* C45: the executable property prop_C45 holds of the model on every well-formed harness input
   (lifting of the typed round-trip and totality theorems of TlsMsgsProofs.v to the wire values). *)
From Coq Require Import List ZArith Bool Lia.
From Bfe Require Import lib.Val lib.ValProofs lib.Bytes model.TlsMsgs run.RunC45 proofs.TlsMsgsProofs.
Import ListNotations.
Open Scope Z_scope.

Lemma all_some_as_B l : forall bs, all_some (map as_B l) = Some bs -> l = map VB bs.
Proof.
  induction l as [|v l IH]; intros bs H; simpl in H.
  - inversion H. reflexivity.
  - destruct v as [z|b|l']; simpl in H; try discriminate.
    destruct (all_some (map as_B l)) as [r|] eqn:E; [|discriminate]. inversion H; subst.
    simpl. f_equal. apply IH. reflexivity.
Qed.
Lemma as_LB_inv v bs : as_LB v = Some bs -> v = vLB bs.
Proof. destruct v as [z|b|l]; simpl; try discriminate. intros H. apply all_some_as_B in H. subst. reflexivity. Qed.
Lemma all_some_as_Z l : forall zs, all_some (map as_Z l) = Some zs -> l = map VZ zs.
Proof.
  induction l as [|v l IH]; intros zs H; simpl in H.
  - inversion H. reflexivity.
  - destruct v as [z|b|l']; simpl in H; try discriminate.
    destruct (all_some (map as_Z l)) as [r|] eqn:E; [|discriminate]. inversion H; subst.
    simpl. f_equal. apply IH. reflexivity.
Qed.
Lemma as_LZ_inv v zs : as_LZ v = Some zs -> v = vLZ zs.
Proof. destruct v as [z|b|l]; simpl; try discriminate. intros H. apply all_some_as_Z in H. subst. reflexivity. Qed.

Lemma firstn_len_app {A} (l r : list A) : firstn (length l) (l ++ r) = l.
Proof. rewrite firstn_app, Nat.sub_diag, firstn_all. simpl. apply app_nil_r. Qed.
Lemma VL_inj a b : VL a = VL b -> a = b.
Proof. intros H. inversion H. reflexivity. Qed.

Definition rt_goal (mt : Z) (fl : bool) (f : list val) (b : bytes) : Prop :=
  exists f', unmarshal_any mt fl b = VL [VZ 1; VL f'] /\ firstn (length f) f' = f.

Lemma rt_ch fl f b : wf_any 1 fl f = true -> marshal_any 1 fl f = Some b -> rt_goal 1 fl f b.
Proof.
  unfold wf_any, marshal_any. simpl (1 =? 1). cbv iota.
  destruct (ch_of f) as [m|]; [|discriminate]. rewrite andb_true_iff. intros [Hw Hc] Hm.
  apply val_eqb_eq in Hc. apply VL_inj in Hc. simpl in Hm. inversion Hm; subst b. clear Hm.
  unfold rt_goal, unmarshal_any. simpl (1 =? 1). cbv iota. rewrite (roundtrip_ch m Hw).
  exists (ch_fields m ++ [vb false; vLZ (map fst (ch_exts m))]). split; [reflexivity|].
  rewrite <- Hc. apply firstn_len_app.
Qed.

Lemma rt_sh fl f b : wf_any 2 fl f = true -> marshal_any 2 fl f = Some b -> rt_goal 2 fl f b.
Proof.
  unfold wf_any, marshal_any. simpl (2 =? 1). simpl (2 =? 2). cbv iota.
  destruct (sh_of f) as [m|]; [|discriminate]. rewrite andb_true_iff. intros [Hw Hc] Hm.
  apply val_eqb_eq in Hc. apply VL_inj in Hc. simpl in Hm. inversion Hm; subst b. clear Hm.
  unfold rt_goal, unmarshal_any. simpl (2 =? 1). simpl (2 =? 2). cbv iota. rewrite (roundtrip_sh m Hw).
  exists (sh_fields m). split; [reflexivity|]. rewrite <- Hc. apply firstn_all.
Qed.

Ltac pick mt := unfold wf_any, marshal_any, rt_goal, unmarshal_any;
  repeat match goal with
  | |- context [Z.eqb (Zpos ?a) (Zpos ?b)] =>
    let v := eval compute in (Z.eqb (Zpos a) (Zpos b)) in change (Z.eqb (Zpos a) (Zpos b)) with v
  end; cbv iota.

Lemma rt_cert fl f b : wf_any 3 fl f = true -> marshal_any 3 fl f = Some b -> rt_goal 3 fl f b.
Proof.
  pick 3. destruct f as [|c [|? ?]]; try discriminate.
  destruct (as_LB c) as [cs|] eqn:E; [|discriminate]. apply as_LB_inv in E. subst c.
  rewrite andb_true_iff, Z.ltb_lt. intros [Hw Hl] Hm. simpl in Hm. inversion Hm; subst b.
  rewrite (roundtrip_cert cs Hw Hl). eexists. split; reflexivity.
Qed.

Lemma rt_one mt fl f b :
  In mt [4; 7; 8; 9; 12] -> wf_any mt fl f = true -> marshal_any mt fl f = Some b -> rt_goal mt fl f b.
Proof.
  intros Hin. simpl in Hin.
  repeat (destruct Hin as [<-|Hin]; [pick 0; destruct f as [|[z|k|l] [|? ?]]; try discriminate;
          intros Hw Hm; inversion Hm; subst b; try (apply wf_str_spec in Hw; destruct Hw as [_ Hw])|]);
    try contradiction.
  - rewrite roundtrip_ske. eexists; split; reflexivity.
  - rewrite roundtrip_cke by lia. eexists; split; reflexivity.
  - rewrite roundtrip_fin. eexists; split; reflexivity.
  - rewrite roundtrip_np by lia. eexists; split; reflexivity.
  - rewrite roundtrip_nst by lia. eexists; split; reflexivity.
Qed.

Lemma rt_cs fl f b : wf_any 5 fl f = true -> marshal_any 5 fl f = Some b -> rt_goal 5 fl f b.
Proof.
  pick 5. destruct f as [|[ty| |] [|[|r|] [|? ?]]]; try discriminate.
  rewrite !andb_true_iff, Z.leb_le, Z.ltb_lt, orb_true_iff, !Z.eqb_eq. intros [[[H1 H2] Hr] Hc] Hm.
  apply wf_str_spec in Hr. destruct Hr as [_ Hr]. inversion Hm; subst b.
  rewrite roundtrip_cs; [eexists; split; reflexivity|lia|lia|].
  destruct Hc as [Hc|Hc]; [left; exact Hc|right]. destruct r; [reflexivity|]. unfold blen in Hc. simpl in Hc. lia.
Qed.

Lemma rt_creq fl f b : wf_any 10 fl f = true -> marshal_any 10 fl f = Some b -> rt_goal 10 fl f b.
Proof.
  pick 10. destruct f as [|[|ty|] [|sa [|ca [|? ?]]]]; try discriminate.
  destruct (as_LZ sa) as [sa'|] eqn:E1; [|discriminate]. destruct (as_LB ca) as [ca'|] eqn:E2; [|discriminate].
  apply as_LZ_inv in E1. apply as_LB_inv in E2. subst sa ca.
  rewrite !andb_true_iff, orb_true_iff, !Z.ltb_lt, Z.eqb_eq. intros [[[[[Ht Hsa] Hsl] Hfl] Hca] Hcl] Hm.
  apply wf_str_spec in Ht. destruct Ht as [_ Ht]. inversion Hm; subst b.
  rewrite roundtrip_creq; auto; [eexists; split; reflexivity|].
  intros ->. destruct Hfl as [Hfl|Hfl]; [discriminate|]. destruct sa'; [reflexivity|]. unfold blen in Hfl. simpl in Hfl. lia.
Qed.

Lemma rt_cv fl f b : wf_any 11 fl f = true -> marshal_any 11 fl f = Some b -> rt_goal 11 fl f b.
Proof.
  pick 11. destruct f as [|[sah| |] [|[|sg|] [|? ?]]]; try discriminate.
  rewrite andb_true_iff. intros [Hs Hg] Hm. apply wf_str_spec in Hg. destruct Hg as [_ Hg].
  inversion Hm; subst b.
  rewrite roundtrip_cv; [eexists; split; reflexivity| |lia].
  destruct fl; [apply wf_u16_range; exact Hs|apply Z.eqb_eq; exact Hs].
Qed.

Lemma rt_ss fl f b : wf_any 13 fl f = true -> marshal_any 13 fl f = Some b -> rt_goal 13 fl f b.
Proof.
  pick 13. unfold ss_of. destruct f as [|[v| |] [|[su| |] [|[|ms|] [|ce [|? ?]]]]]; try discriminate.
  destruct (as_LB ce) as [certs|] eqn:E; [|discriminate]. apply as_LB_inv in E. subst ce.
  intros Hw Hm. simpl in Hm. inversion Hm; subst b. rewrite (roundtrip_ss _ Hw).
  eexists; split; reflexivity.
Qed.

Lemma rt_any mt fl f b :
  valid_mt mt = true -> wf_any mt fl f = true -> marshal_any mt fl f = Some b -> rt_goal mt fl f b.
Proof.
  unfold valid_mt. rewrite existsb_exists. intros [x [Hin Hx]]. apply Z.eqb_eq in Hx. subst x.
  simpl in Hin.
  destruct Hin as [<-|[<-|[<-|[<-|[<-|[<-|[<-|[<-|[<-|[<-|[<-|[<-|[]]]]]]]]]]]]].
  - apply rt_ch. - apply rt_sh. - apply rt_cert. - apply rt_one; simpl; auto. - apply rt_cs.
  - apply rt_one; simpl; auto. - apply rt_one; simpl; auto. - apply rt_one; simpl; auto 6.
  - apply rt_creq. - apply rt_cv. - apply rt_one; simpl; auto 6. - apply rt_ss.
Qed.

Lemma valid_mt_In mt : valid_mt mt = true -> In mt [1; 2; 3; 4; 5; 7; 8; 9; 10; 11; 12; 13].
Proof. unfold valid_mt. rewrite existsb_exists. intros [x [Hin Hx]]. apply Z.eqb_eq in Hx. subst x. exact Hin. Qed.

Lemma prop_rt_of_model mt flag f :
  valid_mt mt = true -> (exists b, marshal_any mt (negb (flag =? 0)) f = Some b) ->
  prop_C45 (VL [VZ 1; VZ mt; VZ flag; VL f]) (run_C45 (VL [VZ 1; VZ mt; VZ flag; VL f])) = true.
Proof.
  intros Hv [b Em]. unfold prop_C45, run_C45. rewrite Em.
  rewrite (parse_safe mt _ b (valid_mt_In mt Hv)). simpl andb.
  destruct (wf_any mt (negb (flag =? 0)) f) eqn:Ew; [|reflexivity]. cbn [negb orb].
  destruct (rt_any mt _ f b Hv Ew Em) as [f' [Hu Hf]]. rewrite Hu. cbv iota beta. rewrite Hf.
  exact (val_eqb_refl (VL f)).
Qed.

(* central theorem: on every well-formed harness input the model's own output satisfies the property *)
Theorem prop_of_model i : wf_C45 i = true -> kf_C45 i = 0 -> prop_C45 i (run_C45 i) = true.
Proof.
  intros Hwf _. unfold wf_C45 in Hwf.
  destruct i as [z|b|l]; try discriminate.
  destruct l as [|[op| |] l]; try discriminate.
  destruct op as [|[[?|?|]|[?|?|]|]|?]; try discriminate.
  all: destruct l as [|[mt| |] [|[flag| |] [|x [|? ?]]]]; try discriminate.
  all: destruct x as [|d|f]; try discriminate.
  all: first
    [ apply prop_parse_of_model; apply valid_mt_In; exact Hwf
    | apply andb_true_iff in Hwf; destruct Hwf as [Hv Hm];
      apply prop_rt_of_model; [exact Hv|];
      destruct (marshal_any mt (negb (flag =? 0)) f) as [b|]; [exists b; reflexivity|discriminate] ].
Qed.

(* corpus/C45/witness.case, rt-ch-all *)
Definition corpus_rt_ch_all : val :=
  VL [VZ 1; VZ 1; VZ 0;
      VL [VZ 771; VB (repeat 7 32); VB [1; 2; 3]; vLZ [49199; 255; 22016]; VB [0]; VZ 1; VB [97; 46; 98]; VZ 1;
          vLZ [23; 24]; VB [0]; VZ 1; VB [9; 9]; vLZ [1025; 513]; VZ 1;
          vLB [[104; 50]; [104; 116; 116; 112; 47; 49; 46; 49]]]].
Lemma corpus_rt_ch_all_wf :
  wf_C45 corpus_rt_ch_all = true /\
  (exists f, corpus_rt_ch_all = VL [VZ 1; VZ 1; VZ 0; VL f] /\ wf_any 1 false f = true).
Proof. split; [vm_compute; reflexivity|]. eexists. split; [reflexivity|vm_compute; reflexivity]. Qed.
