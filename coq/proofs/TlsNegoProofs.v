(* C41: proofs about the negotiation model TlsNego.v *)
From Coq Require Import List ZArith Bool Lia.
From Bfe Require Import lib.Val lib.ValProofs lib.Bytes gen.TlsSuites model.TlsNego run.RunC41.
Import ListNotations.
Open Scope Z_scope.

(* ---------- membership helpers ---------- *)
Lemma mem_In x l : mem x l = true <-> In x l.
Proof.
  unfold mem. rewrite existsb_exists. split.
  - intros [y [Hy He]]. apply Z.eqb_eq in He. subst. exact Hy.
  - intros H. exists x. split; [exact H|apply Z.eqb_refl].
Qed.
Lemma memb_In x l : memb x l = true <-> In x l.
Proof.
  unfold memb. rewrite existsb_exists. split.
  - intros [y [Hy He]]. apply bytes_eqb_eq in He. subst. exact Hy.
  - intros H. exists x. split; [exact H|]. apply bytes_eqb_eq. reflexivity.
Qed.

(* ---------- versions ---------- *)
Lemma mutual_version_bounds c v v' :
  min_version c <= max_version c -> mutual_version c v = Some v' ->
  min_version c <= v' /\ v' <= max_version c /\ v' <= v.
Proof.
  unfold mutual_version. intros Hr H.
  destruct (v <? min_version c) eqn:E1; [discriminate|]. apply Z.ltb_ge in E1.
  destruct (max_version c <? v) eqn:E2; inversion H; subst.
  - apply Z.ltb_lt in E2. lia.
  - apply Z.ltb_ge in E2. lia.
Qed.

Lemma check_version_grade_spec v g v' :
  check_version_grade v g = Some v' ->
  v' = v /\ (bytes_eqb g grade_a && (v <? version_tls10)) = false /\
  (bytes_eqb g grade_aplus && (v <? version_tls12)) = false.
Proof.
  unfold check_version_grade. intros H.
  destruct (bytes_eqb g grade_a && (v <? version_tls10)) eqn:E1; [discriminate|].
  destruct (bytes_eqb g grade_aplus && (v <? version_tls12)) eqn:E2; [discriminate|].
  inversion H. auto.
Qed.

(* ---------- tryCipherSuite ---------- *)
Lemma try_suite_from_spec id supported vers el ec ch rc4 : forall i k,
  try_suite_from i id supported vers el ec ch rc4 = Some k ->
  In id supported /\ exists fl, suite_flags id = Some fl /\ suite_usable fl vers el ec ch rc4 = true.
Proof.
  induction supported as [|s r IH]; intros i k H; simpl in H; [discriminate|].
  destruct (id =? s) eqn:E.
  - apply Z.eqb_eq in E. subst s.
    destruct (suite_flags id) as [fl|] eqn:Ef.
    + destruct (suite_usable fl vers el ec ch rc4) eqn:Eu.
      * split; [left; reflexivity|]. exists fl. auto.
      * apply IH in H. destruct H as [H1 H2]. split; [right; exact H1|exact H2].
    + apply IH in H. destruct H as [H1 H2]. split; [right; exact H1|exact H2].
  - apply IH in H. destruct H as [H1 H2]. split; [right; exact H1|exact H2].
Qed.

Definition acceptable (id : Z) (supported : list Z) vers el ec ch rc4 : Prop :=
  In id supported /\ exists fl, suite_flags id = Some fl /\ suite_usable fl vers el ec ch rc4 = true.

Lemma try_suite_spec id supported vers el ec ch rc4 k :
  try_suite id supported vers el ec ch rc4 = Some k -> acceptable id supported vers el ec ch rc4.
Proof. unfold try_suite. apply try_suite_from_spec. Qed.

Lemma pick_normal_spec prefs supported vers el ec ch rc4 s :
  pick_normal prefs supported vers el ec ch rc4 = Some s ->
  In s prefs /\ acceptable s supported vers el ec ch rc4.
Proof.
  induction prefs as [|id r IH]; simpl; intros H; [discriminate|].
  destruct (try_suite id supported vers el ec ch rc4) eqn:E.
  - inversion H; subst. split; [left; reflexivity|]. eapply try_suite_spec; eauto.
  - apply IH in H. destruct H. split; [right; assumption|assumption].
Qed.

Lemma pick_equiv_spec client vers el ec ch rc4 : forall ps sel s,
  (forall t, sel = Some t -> In (fst (fst t)) (map snd ps) \/ True) ->
  pick_equiv ps sel client vers el ec ch rc4 = Some s ->
  (exists t, sel = Some t /\ fst (fst t) = s) \/
  (In s (map snd ps) /\ acceptable s client vers el ec ch rc4).
Proof.
  induction ps as [|[so id] r IH]; intros sel s _ H; simpl in H.
  - destruct sel as [t|]; simpl in H; [|discriminate]. inversion H. left. exists t. auto.
  - set (sel' := match try_suite id client vers el ec ch rc4 with
                 | Some clientOrder =>
                   match sel with
                   | None => Some (id, so, clientOrder)
                   | Some (_, so0, co) =>
                     if (so =? so0) && (clientOrder <? co) then Some (id, so, clientOrder) else sel
                   end
                 | None => sel
                 end) in *.
    assert (Hsel' : forall t, sel' = Some t ->
              (sel = Some t) \/ (fst (fst t) = id /\ acceptable id client vers el ec ch rc4)).
    { intros t Ht. unfold sel' in Ht.
      destruct (try_suite id client vers el ec ch rc4) as [co|] eqn:Et; [|left; exact Ht].
      apply try_suite_spec in Et.
      destruct sel as [[[s0 so0] co0]|].
      - destruct ((so =? so0) && (co <? co0)).
        + inversion Ht; subst. right. simpl. auto.
        + left. exact Ht.
      - inversion Ht; subst. right. simpl. auto. }
    assert (Hfin : forall t, sel' = Some t ->
              (exists t0, sel = Some t0 /\ fst (fst t0) = fst (fst t)) \/
              (In (fst (fst t)) (map snd ((so, id) :: r)) /\
               acceptable (fst (fst t)) client vers el ec ch rc4)).
    { intros t Ht. destruct (Hsel' t Ht) as [Hs|[Hid Hacc]].
      - left. exists t. auto.
      - right. rewrite Hid. split; [left; reflexivity|exact Hacc]. }
    destruct sel' as [[[s1 so1] co1]|] eqn:Es'.
    + destruct (so1 <? so).
      * inversion H; subst. apply (Hfin (s, so1, co1)). reflexivity.
      * apply IH in H; [|intros; right; exact I].
        destruct H as [[t [Ht Hs]]|[Hin Hacc]].
        -- inversion Ht; subst t. simpl in Hs. subst s1. apply (Hfin (s, so1, co1)). reflexivity.
        -- right. split; [right; exact Hin|exact Hacc].
    + apply IH in H; [|intros; right; exact I].
      destruct H as [[t [Ht _]]|[Hin Hacc]]; [discriminate|].
      right. split; [right; exact Hin|exact Hacc].
Qed.

Lemma map_snd_combine_incl {A B} (l1 : list A) (l2 : list B) x :
  In x (map snd (combine l1 l2)) -> In x l2.
Proof.
  revert l2; induction l1 as [|a l1 IH]; intros [|b l2]; simpl; intros H; try contradiction.
  destruct H as [H|H]; [left; exact H|right; apply IH; exact H].
Qed.

Lemma select_suite_spec c h vers sc sp rc4 s :
  select_suite c h vers sc sp rc4 = Some s ->
  In s (h_suites h) /\ In s (cfg_suites c) /\
  exists fl el, suite_flags s = Some fl /\ suite_usable fl vers el (c_ecdsa c) (chacha_ok c) rc4 = true.
Proof.
  unfold select_suite. intros H.
  set (prefs := if c_prefer_server c then cfg_suites c else h_suites h) in *.
  set (supported := if c_prefer_server c then h_suites h else cfg_suites c) in *.
  assert (Hboth : forall x, In x prefs -> In x supported -> In x (h_suites h) /\ In x (cfg_suites c)).
  { unfold prefs, supported. destruct (c_prefer_server c); intros; auto. }
  assert (Hacc : forall x el, In x prefs -> acceptable x supported vers el (c_ecdsa c) (chacha_ok c) rc4 ->
            In x (h_suites h) /\ In x (cfg_suites c) /\
            exists fl el, suite_flags x = Some fl /\
                          suite_usable fl vers el (c_ecdsa c) (chacha_ok c) rc4 = true).
  { intros x el Hp [Hs [fl [Hf Hu]]]. destruct (Hboth x Hp Hs). repeat split; auto. exists fl, el. auto. }
  match type of H with
  | match ?first with _ => _ end = _ => destruct first as [s1|] eqn:Ef
  end.
  - inversion H; subst s1. clear H.
    destruct (c_prefer_server c && (Z.of_nat (length (c_priority c)) =? Z.of_nat (length prefs))).
    + apply pick_equiv_spec in Ef; [|intros; right; exact I].
      destruct Ef as [[t [Ht _]]|[Hin Ha]]; [discriminate|].
      apply map_snd_combine_incl in Hin. eapply Hacc; eauto.
    + apply pick_normal_spec in Ef. destruct Ef as [Hin Ha]. eapply Hacc; eauto.
  - destruct (elliptic_may_ok vers sc sp h); [|discriminate].
    apply pick_normal_spec in H. destruct H as [Hin Ha].
    apply filter_In in Hin. destruct Hin as [Hin _]. eapply Hacc; eauto.
Qed.

Lemma resume_suite_spec c h el rc4 s :
  resume_suite c h el rc4 = Some s ->
  exists sv nc, session_of c h = Some (sv, s, nc) /\
    sv <= h_vers h /\ mutual_version c sv = Some sv /\ In s (h_suites h) /\
    acceptable s (cfg_suites c) sv el (c_ecdsa c) (chacha_ok c) rc4.
Proof.
  unfold resume_suite. intros H.
  destruct (session_of c h) as [[[sv ss] nc]|] eqn:Es; [|discriminate].
  destruct (h_vers h <? sv) eqn:E1; [discriminate|]. apply Z.ltb_ge in E1.
  destruct (mutual_version c sv) as [v'|] eqn:E2; [|discriminate].
  destruct (v' =? sv) eqn:E3; simpl in H; [|discriminate]. apply Z.eqb_eq in E3. subst v'.
  destruct (mem ss (h_suites h)) eqn:E4; simpl in H; [|discriminate]. apply mem_In in E4.
  destruct (try_suite ss (cfg_suites c) sv el (c_ecdsa c) (chacha_ok c) rc4) eqn:E5; [|discriminate].
  apply try_suite_spec in E5.
  destruct ((((client_auth c =? 2) || (client_auth c =? 4)) && negb (negb (nc =? 0)))); [discriminate|].
  destruct (negb (nc =? 0) && (client_auth c =? 0)); [discriminate|].
  inversion H; subst ss. exists sv, nc. repeat (split; [solve [auto]|]). exact E5.
Qed.

(* ---------- protocol ---------- *)
Lemma mutual_protocol_spec client server s :
  mutual_protocol client server = Some s -> In s client /\ In s server.
Proof.
  induction server as [|x r IH]; simpl; intros H; [discriminate|].
  destruct (memb x client) eqn:E.
  - inversion H; subst. apply memb_In in E. auto.
  - apply IH in H. destruct H. auto.
Qed.

Lemma app_proto_spec c h :
  let ap := app_proto c h in
  (fst (fst ap) = [] \/ (In (fst (fst ap)) (h_alpn h) /\ In (fst (fst ap)) (server_protos c))) /\
  (snd (fst ap) = true -> h_npn h = true) /\
  (forall p, In p (snd ap) -> In p (server_protos c)).
Proof.
  unfold app_proto. destruct (h_alpn h) as [|a0 ar] eqn:Ea.
  - destruct (h_npn h && match remove_h2 (server_protos c) with [] => false | _ :: _ => true end) eqn:E; simpl.
    + apply andb_true_iff in E. destruct E as [E _]. repeat split; auto.
      intros p Hp. unfold remove_h2 in Hp. apply filter_In in Hp. tauto.
    + repeat split; auto; try discriminate. intros p [].
  - simpl. repeat split; try discriminate; [|intros p []].
    destruct (mutual_protocol (a0 :: ar) (server_protos c)) eqn:Em; [|left; reflexivity].
    right. apply mutual_protocol_spec in Em. exact Em.
Qed.

(* ---------- the four clauses over negotiate ---------- *)
Lemma negotiate_done_inv c h r v s a n p :
  negotiate1 c h = Done r v s a n p ->
  exists v0,
    mutual_version c (h_vers h) = Some v0 /\ check_version_grade v0 (grade_of c) = Some v /\
    scsv_fallback c h = false /\
    a = h2_fix (fst (fst (app_proto c h))) s v /\ n = snd (fst (app_proto c h)) /\ p = snd (app_proto c h) /\
    let rc4 := check_cipher_grade c (grade_of c) v in
    let sc := existsb (fun cv => mem cv (curve_prefs c)) (h_curves h) in
    let sp := mem point_format_uncompressed (h_points h) in
    ((r = true /\ resume_suite c h (sc && sp) rc4 = Some s) \/
     (r = false /\ select_suite c h v sc sp rc4 = Some s)).
Proof.
  unfold negotiate1. intros H.
  destruct (mutual_version c (h_vers h)) as [v0|] eqn:E1; [|discriminate].
  destruct (check_version_grade v0 (grade_of c)) as [vers|] eqn:E2; [|discriminate].
  destruct (negb (mem compression_none (h_comp h))); [discriminate|].
  destruct (scsv_fallback c h) eqn:E3; [discriminate|].
  destruct (resume_suite c h _ _) as [s1|] eqn:E4.
  - inversion H; subst. exists v0. repeat split; auto.
  - destruct (select_suite c h vers _ _ _) as [s1|] eqn:E5; [|discriminate].
    inversion H; subst. exists v0. repeat split; auto.
Qed.

Theorem version_in_range c h r v s a n p :
  min_version c <= max_version c ->
  negotiate1 c h = Done r v s a n p ->
  min_version c <= v /\ v <= max_version c /\ v <= h_vers h /\
  (grade_of c = grade_a -> version_tls10 <= v) /\ (grade_of c = grade_aplus -> version_tls12 <= v).
Proof.
  intros Hr H. apply negotiate_done_inv in H. destruct H as [v0 [Hm [Hg _]]].
  apply check_version_grade_spec in Hg. destruct Hg as [-> [Ga Gp]].
  destruct (mutual_version_bounds _ _ _ Hr Hm) as [B1 [B2 B3]].
  repeat split; auto.
  - intros Eg. rewrite Eg in Ga. replace (bytes_eqb grade_a grade_a) with true in Ga by reflexivity.
    simpl in Ga. apply Z.ltb_ge in Ga. exact Ga.
  - intros Eg. rewrite Eg in Gp. replace (bytes_eqb grade_aplus grade_aplus) with true in Gp by reflexivity.
    simpl in Gp. apply Z.ltb_ge in Gp. exact Gp.
Qed.

(* suite_usable implies the specification-level conditions, for any session version sv <= v *)
Lemma usable_spec c v sv fl el :
  sv <= v ->
  suite_usable fl sv el (c_ecdsa c) (chacha_ok c) (check_cipher_grade c (grade_of c) v) = true ->
  (negb (has fl fl_chacha20) || chacha_ok c) && spec_rc4_ok c v (has fl fl_rc4) &&
  negb (has fl fl_tls12 && (v <? version_tls12)) && Bool.eqb (has fl fl_ecdsa) (c_ecdsa c) = true.
Proof.
  intros Hsv Hu. unfold suite_usable in Hu.
  repeat (apply andb_true_iff in Hu; destruct Hu as [Hu ?]).
  rename H into U6, H0 into U5, H1 into U4, H2 into U3, H3 into U2, Hu into U1.
  repeat (apply andb_true_iff; split); auto.
  - destruct (has fl fl_chacha20); simpl in *; auto. destruct (chacha_ok c); auto.
  - unfold spec_rc4_ok, check_cipher_grade in *.
    destruct (bytes_eqb (grade_of c) grade_aplus || bytes_eqb (grade_of c) grade_a).
    + destruct (has fl fl_rc4); simpl in *; auto.
    + destruct (bytes_eqb (grade_of c) grade_b).
      * destruct (version_tls10 <=? v); destruct (has fl fl_rc4); simpl in *; auto.
      * destruct (bytes_eqb (grade_of c) grade_c); auto.
        destruct (c_poodle c && (v =? version_ssl30)); destruct (has fl fl_rc4); simpl in *; auto.
  - destruct (has fl fl_tls12); simpl in *; auto.
    destruct (sv <? version_tls12) eqn:E; simpl in U3; [discriminate|].
    apply Z.ltb_ge in E. assert (E' : (v <? version_tls12) = false) by (apply Z.ltb_ge; lia).
    rewrite E'. reflexivity.
Qed.

Theorem suite_mutual c h r v s a n p :
  min_version c <= max_version c ->
  negotiate1 c h = Done r v s a n p -> spec_suite_ok c h v s = true.
Proof.
  intros Hr H. apply negotiate_done_inv in H.
  destruct H as [v0 [Hm [Hg [_ [_ [_ [_ Hs]]]]]]].
  apply check_version_grade_spec in Hg. destruct Hg as [-> _].
  destruct (mutual_version_bounds _ _ _ Hr Hm) as [B1 [B2 B3]].
  unfold spec_suite_ok.
  destruct Hs as [[_ Hres]|[_ Hsel]].
  - apply resume_suite_spec in Hres.
    destruct Hres as [sv [nc [_ [Hle [Hmv [Hin [Hc [fl [Hf Hu]]]]]]]]].
    assert (Hsv : sv <= v0).
    { unfold mutual_version in Hm, Hmv.
      destruct (h_vers h <? min_version c); [discriminate|].
      destruct (sv <? min_version c); [discriminate|].
      destruct (max_version c <? sv) eqn:E; inversion Hmv.
      - apply Z.ltb_lt in E. lia.
      - apply Z.ltb_ge in E. destruct (max_version c <? h_vers h) eqn:E'; inversion Hm; subst; lia. }
    apply mem_In in Hin. apply mem_In in Hc. rewrite Hin, Hc, Hf. simpl.
    eapply usable_spec; eauto.
  - apply select_suite_spec in Hsel. destruct Hsel as [Hin [Hc [fl [el [Hf Hu]]]]].
    apply mem_In in Hin. apply mem_In in Hc. rewrite Hin, Hc, Hf. simpl.
    eapply usable_spec; [|exact Hu]. lia.
Qed.

(* ALPN: unless validateHttp2Accepted rewrote h2 to http/1.1, the answer is in both lists *)
Theorem alpn_mutual_partial c h r v s a n p :
  negotiate1 c h = Done r v s a n p -> a <> [] ->
  a = fst (fst (app_proto c h)) ->          (* i.e. validateHttp2Accepted did not rewrite it *)
  In a (h_alpn h) /\ In a (server_protos c).
Proof.
  intros _ Hne ->. destruct (app_proto_spec c h) as [[He|Hin] _]; [contradiction|exact Hin].
Qed.

Theorem scsv_refused c h :
  In tls_fallback_scsv (h_suites h) -> h_vers h < max_version c ->
  exists code, negotiate1 c h = Alert code.
Proof.
  intros Hin Hlt.
  assert (Hs : scsv_fallback c h = true).
  { unfold scsv_fallback. apply andb_true_iff. split; [apply mem_In; exact Hin|apply Z.ltb_lt; exact Hlt]. }
  unfold negotiate1.
  destruct (mutual_version c (h_vers h)); [|eexists; reflexivity].
  destruct (check_version_grade z (grade_of c)); [|eexists; reflexivity].
  destruct (negb (mem compression_none (h_comp h))); [eexists; reflexivity|].
  rewrite Hs. eexists; reflexivity.
Qed.

(* when version and compression are acceptable the alert is exactly inappropriate_fallback *)
Theorem scsv_alert_86 c h v0 v :
  In tls_fallback_scsv (h_suites h) -> h_vers h < max_version c ->
  mutual_version c (h_vers h) = Some v0 -> check_version_grade v0 (grade_of c) = Some v ->
  In compression_none (h_comp h) ->
  negotiate1 c h = Alert alert_inappropriate_fallback.
Proof.
  intros Hin Hlt Hm Hg Hc.
  unfold negotiate1. rewrite Hm, Hg.
  apply mem_In in Hc. rewrite Hc. simpl.
  unfold scsv_fallback. apply mem_In in Hin. rewrite Hin. apply Z.ltb_lt in Hlt. rewrite Hlt. reflexivity.
Qed.

(* ---------- the executable property on the model ---------- *)
Lemma forallb_memb l ps : (forall p, In p l -> In p ps) -> forallb (fun p => memb p ps) l = true.
Proof. intros H. apply forallb_forall. intros x Hx. apply memb_In. apply H. exact Hx. Qed.

Lemma as_LB_vLB l : as_LB (vLB l) = Some l.
Proof. unfold as_LB, vLB. induction l as [|x r IH]; simpl; [reflexivity|]. simpl in IH. rewrite IH. reflexivity. Qed.

Lemma max_version_spec c :
  (if c_max c =? 0 then version_tls12 else c_max c) = max_version c.
Proof. unfold max_version. destruct (c_max c =? 0); reflexivity. Qed.



(* the specification predicates hold of every accepted outcome of negotiate1 *)
Lemma prop_core c h r v s a n p :
  min_version c <= max_version c -> negotiate1 c h = Done r v s a n p ->
  spec_alpn_ok c h a = true ->
  spec_version_ok c h v && spec_suite_ok c h v s && spec_alpn_ok c h a &&
  negb (spec_scsv_must_refuse c h) &&
  ((negb n || h_npn h) && forallb (fun q => memb q (server_protos c)) p) = true.
Proof.
  intros Hr Hn Ha.
  pose proof (version_in_range c h r v s a n p Hr Hn) as [V1 [V2 [V3 [V4 V5]]]].
  pose proof (suite_mutual c h r v s a n p Hr Hn) as Hs.
  pose proof (negotiate_done_inv c h r v s a n p Hn) as [v0 [_ [_ [Hsc [_ [Hnn [Hp _]]]]]]].
  destruct (app_proto_spec c h) as [_ [Hnpn Hps]].
  assert (Hv : spec_version_ok c h v = true).
  { unfold spec_version_ok.
    repeat (apply andb_true_iff; split); try (apply Z.leb_le; lia).
    - destruct (bytes_eqb (grade_of c) grade_a) eqn:E; simpl; [|reflexivity].
      apply bytes_eqb_eq in E. specialize (V4 E).
      assert (E' : (v <? version_tls10) = false) by (apply Z.ltb_ge; exact V4). rewrite E'. reflexivity.
    - destruct (bytes_eqb (grade_of c) grade_aplus) eqn:E; simpl; [|reflexivity].
      apply bytes_eqb_eq in E. specialize (V5 E).
      assert (E' : (v <? version_tls12) = false) by (apply Z.ltb_ge; exact V5). rewrite E'. reflexivity. }
  rewrite Hv, Hs, Ha. unfold spec_scsv_must_refuse. rewrite max_version_spec.
  unfold scsv_fallback in Hsc. rewrite Hsc. simpl.
  subst p. rewrite (forallb_memb _ _ Hps), andb_true_r.
  subst n. destruct (snd (fst (app_proto c h))) eqn:En; simpl; [apply Hnpn; reflexivity|reflexivity].
Qed.

Lemma suite_mutual_full c h r v s a n p :
  min_version c <= max_version c ->
  negotiate1 c h = Done r v s a n p ->
  mem s (h_suites h) = true /\ mem s (cfg_suites c) = true /\ spec_suite_ok c h v s = true.
Proof.
  intros Hr H. pose proof (suite_mutual c h r v s a n p Hr H) as Hs.
  split; [|split]; [| |exact Hs]; unfold spec_suite_ok in Hs;
    apply andb_true_iff in Hs; destruct Hs as [Hs _]; apply andb_true_iff in Hs; tauto.
Qed.

(* ---------- reload invariance ---------- *)
Lemma clone_id c : clone c = c.
Proof. destruct c. reflexivity. Qed.
Lemma reload_n_id n c : reload_n n c = c.
Proof. revert c; induction n as [|n IH]; intros c; simpl; [reflexivity|]. rewrite clone_id. apply IH. Qed.
Lemma live_id c : live c = c.
Proof. unfold live. apply reload_n_id. Qed.
Theorem clone_invariant c h : negotiate (clone c) h = negotiate c h.
Proof. rewrite clone_id. reflexivity. Qed.
Theorem reload_invariant c h : fst (serve c h) = negotiate c h /\ snd (serve c h) = [].
Proof. unfold serve. simpl. rewrite live_id. auto. Qed.

(* ---------- lifting to negotiate = negotiate1 on the per-connection configuration ---------- *)
Theorem prop_of_model i : wf_C41 i = true -> kf_C41 i = 0 -> prop_C41 i (run_C41 i) = true.
Proof.
  unfold wf_C41, prop_C41, run_C41, kf_C41.
  destruct (decode i) as [[c h]|]; [|discriminate]. intros Hr Hk. apply Z.leb_le in Hr.
  cbv zeta. unfold serve. cbn [fst snd]. rewrite live_id in *. unfold negotiate in *.
  destruct (negotiate1 (eff c h) h) as [code|r v s a n p] eqn:Hn; [reflexivity|].
  destruct (spec_alpn_ok (eff c h) h a) eqn:Ha; [|discriminate].
  pose proof (prop_core (eff c h) h r v s a n p Hr Hn Ha) as Hc.
  unfold enc_outcome.
  change (all_some (map as_B (map VB p))) with (as_LB (vLB p)).
  destruct r; destruct n; cbn [vbool VT VF vLB map]; rewrite as_LB_vLB; exact Hc.
Qed.

Theorem version_in_range_conn c h r v s a n p :
  min_version c <= max_version c ->
  negotiate c h = Done r v s a n p ->
  min_version c <= v /\ v <= max_version c /\ v <= h_vers h /\
  (grade_of (eff c h) = grade_a -> version_tls10 <= v) /\
  (grade_of (eff c h) = grade_aplus -> version_tls12 <= v).
Proof. exact (version_in_range (eff c h) h r v s a n p). Qed.

Theorem suite_mutual_conn c h r v s a n p :
  min_version c <= max_version c ->
  negotiate c h = Done r v s a n p ->
  mem s (h_suites h) = true /\ mem s (cfg_suites c) = true /\ spec_suite_ok (eff c h) h v s = true.
Proof. exact (suite_mutual_full (eff c h) h r v s a n p). Qed.

Theorem scsv_refused_conn c h :
  In tls_fallback_scsv (h_suites h) -> h_vers h < max_version c ->
  exists code, negotiate c h = Alert code.
Proof. exact (scsv_refused (eff c h) h). Qed.

Theorem scsv_alert_conn c h v0 v :
  In tls_fallback_scsv (h_suites h) -> h_vers h < max_version c ->
  mutual_version c (h_vers h) = Some v0 -> check_version_grade v0 (grade_of (eff c h)) = Some v ->
  In compression_none (h_comp h) ->
  negotiate c h = Alert alert_inappropriate_fallback.
Proof. exact (scsv_alert_86 (eff c h) h v0 v). Qed.

Theorem alpn_mutual_partial_conn c h r v s a n p :
  negotiate c h = Done r v s a n p -> a <> [] ->
  a = fst (fst (app_proto (eff c h) h)) ->
  In a (h_alpn h) /\ In a (server_protos (eff c h)).
Proof. exact (alpn_mutual_partial (eff c h) h r v s a n p). Qed.

(* the grade policy (checkVersionGrade + checkCipherGrade), stated directly: which (version, RC4?)
   combinations a completed handshake can have under each grade *)
Theorem grade_policy c h r v s a n p fl :
  min_version c <= max_version c ->
  negotiate c h = Done r v s a n p -> suite_flags s = Some fl ->
  let g := grade_of (eff c h) in
  let rc4 := has fl fl_rc4 in
  (g = grade_aplus -> version_tls12 <= v /\ rc4 = false) /\
  (g = grade_a -> version_tls10 <= v /\ rc4 = false) /\
  (g = grade_b -> (version_tls10 <= v -> rc4 = false) /\ (v < version_tls10 -> rc4 = true)) /\
  (g = grade_c -> c_poodle c = true -> v = version_ssl30 -> rc4 = true).
Proof.
  intros Hr Hn Hf g rc4.
  destruct (version_in_range_conn c h r v s a n p Hr Hn) as [_ [_ [_ [V4 V5]]]].
  destruct (suite_mutual_conn c h r v s a n p Hr Hn) as [_ [_ Hs]].
  unfold spec_suite_ok in Hs. rewrite Hf in Hs.
  apply andb_true_iff in Hs. destruct Hs as [_ Hs].
  repeat (apply andb_true_iff in Hs; destruct Hs as [Hs ?]).
  match goal with H : spec_rc4_ok _ _ _ = true |- _ => rename H into Hrc end.
  unfold spec_rc4_ok in Hrc. fold g in Hrc, V4, V5. fold rc4 in Hrc.
  change (c_poodle (eff c h)) with (c_poodle c) in Hrc.
  split; [|split; [|split]].
  - intros Eg. split; [apply V5; exact Eg|]. rewrite Eg in Hrc.
    replace (bytes_eqb grade_aplus grade_aplus) with true in Hrc by reflexivity.
    simpl in Hrc. destruct rc4; [discriminate|reflexivity].
  - intros Eg. split; [apply V4; exact Eg|]. rewrite Eg in Hrc.
    replace (bytes_eqb grade_a grade_aplus || bytes_eqb grade_a grade_a) with true in Hrc by reflexivity.
    destruct rc4; [discriminate|reflexivity].
  - intros Eg. rewrite Eg in Hrc.
    replace (bytes_eqb grade_b grade_aplus || bytes_eqb grade_b grade_a) with false in Hrc by reflexivity.
    replace (bytes_eqb grade_b grade_b) with true in Hrc by reflexivity.
    split; intros Hv.
    + apply Z.leb_le in Hv. rewrite Hv in Hrc. destruct rc4; [discriminate|reflexivity].
    + assert (E : (version_tls10 <=? v) = false) by (apply Z.leb_gt; exact Hv). rewrite E in Hrc. exact Hrc.
  - intros Eg Hp Hv. rewrite Eg in Hrc.
    replace (bytes_eqb grade_c grade_aplus || bytes_eqb grade_c grade_a) with false in Hrc by reflexivity.
    replace (bytes_eqb grade_c grade_b) with false in Hrc by reflexivity.
    replace (bytes_eqb grade_c grade_c) with true in Hrc by reflexivity.
    rewrite Hp in Hrc. subst v. replace (version_ssl30 =? version_ssl30) with true in Hrc by reflexivity.
    exact Hrc.
Qed.

(* ---------- witnesses ---------- *)
Definition cfg_default (protos : list bytes) : config :=
  {| c_min := 0; c_max := 0; c_prefer_server := true; c_suites := None; c_priority := []; c_protos := protos;
     c_curves := []; c_poodle := false; c_tickets_disabled := false; c_client_auth := 0; c_ecdsa := false;
     c_rule := None; c_rules := []; c_certs := []; c_cache := 0; c_reloads := 0 |}.
Definition hello_simple (vers : Z) (suites : list Z) (alpn : list bytes) (tk : ticket) : hello :=
  {| h_vers := vers; h_suites := suites; h_comp := [0]; h_curves := [23]; h_points := [0]; h_alpn := alpn;
     h_npn := false; h_sni := []; h_sid := []; h_ticket := tk; h_cache := NoTicket |}.

(* client offers only h2 and only an AES-CBC suite: the server answers "http/1.1" *)
Lemma alpn_mutual_refuted_lemma :
  let c := cfg_default [proto_h2] in
  let h := hello_simple 771 [47] [proto_h2] NoTicket in
  negotiate c h = Done false 771 47 proto_http11 false [] /\
  ~ In proto_http11 (h_alpn h) /\ ~ In proto_http11 (server_protos c).
Proof.
  split; [vm_compute; reflexivity|]. split; simpl; intros [H|[]]; discriminate.
Qed.

Lemma nonvacuous_h2 :
  negotiate (cfg_default [proto_h2; proto_http11]) (hello_simple 771 [47; 49199] [proto_http11; proto_h2] NoTicket)
  = Done false 771 49199 proto_h2 false [].
Proof. vm_compute. reflexivity. Qed.

Lemma nonvacuous_scsv_default_max :
  negotiate (cfg_default []) (hello_simple 770 [47; 22016] [] NoTicket) = Alert alert_inappropriate_fallback.
Proof. vm_compute. reflexivity. Qed.

Lemma nonvacuous_scsv_resumption :
  let h := hello_simple 770 [47; 22016] [] (GoodTicket 770 47 0) in
  negotiate (cfg_default []) h = Alert alert_inappropriate_fallback /\
  negotiate (cfg_default []) (hello_simple 770 [47] [] (GoodTicket 770 47 0)) = Done true 770 47 [] false [].
Proof. split; vm_compute; reflexivity. Qed.



(* corpus/C41/witness.case: sni-rule-grade-b-ssl3-rc4-only and sni-wildcard-ecdsa-cert *)
Definition corpus_cfg (rules certs : val) : val :=
  VL [VZ 0; VZ 0; VZ 1; VL []; VL []; VL []; VL []; VZ 0; VZ 0; VZ 0; VZ 0; VL []; rules; certs; VZ 0; VZ 2].
Definition corpus_sni_grade_b : val :=
  VL [corpus_cfg (VL [VL [VB [97; 46; 99; 111; 109]; VL [VB [66]; VL []; VZ 0; VZ 0]]]) (VL []);
      VL [VZ 768; vLZ [47; 5]; VB [0]; vLZ [23]; VB [0]; VL []; VZ 0; VB [97; 46; 99; 111; 109]; VB [];
          VL [VZ 0]; VL [VZ 0]]].
Definition corpus_wildcard_cert : val :=
  VL [corpus_cfg (VL []) (VL [VL [VB [42; 46; 97; 46; 99; 111; 109]; VZ 1]]);
      VL [VZ 771; vLZ [47; 49195]; VB [0]; vLZ [23]; VB [0]; VL []; VZ 0;
          VB [87; 87; 87; 46; 65; 46; 67; 79; 77; 46]; VB []; VL [VZ 0]; VL [VZ 0]]].
Lemma corpus_cases_ok :
  wf_C41 corpus_sni_grade_b = true /\ run_C41 corpus_sni_grade_b = VL [VL [VZ 1; VZ 0; VZ 768; VZ 5; VB []; VZ 0; VL []]; VL []] /\
  wf_C41 corpus_wildcard_cert = true /\
  run_C41 corpus_wildcard_cert = VL [VL [VZ 1; VZ 0; VZ 771; VZ 49195; VB []; VZ 0; VL []]; VL []].
Proof. repeat split; vm_compute; reflexivity. Qed.
