(* C21: proofs about the pipe model (model/Pipe.v): representation invariant of FixedBuffer,
   refinement of the FIFO specification by the model, FIFO / exactly-once consequences. *)
From Coq Require Import List ZArith Bool Arith Lia.
From Coq Require Import ZifyBool ZifyNat.
From Bfe Require Import lib.Val lib.ValProofs model.Pipe run.RunC21.
Import ListNotations.
Open Scope Z_scope.

(* ---------- list helpers ---------- *)
Lemma lz_eqb_refl l : lz_eqb l l = true.
Proof. induction l as [|x l IH]; simpl; [reflexivity|]. rewrite Z.eqb_refl, IH. reflexivity. Qed.

Lemma lz_eqb_eq a b : lz_eqb a b = true -> a = b.
Proof.
  revert b; induction a as [|x a IH]; intros [|y b]; simpl; intro H; try reflexivity; try discriminate.
  apply andb_true_iff in H. destruct H as [H1 H2]. apply Z.eqb_eq in H1. apply IH in H2. congruence.
Qed.

Lemma firstn_exact {A} (l1 l2 : list A) n : n = length l1 -> firstn n (l1 ++ l2) = l1.
Proof.
  intros ->. rewrite firstn_app, firstn_all, Nat.sub_diag. simpl. apply app_nil_r.
Qed.

Lemma skipn_exact {A} (l1 l2 : list A) n : (n <= length l1)%nat -> skipn n (l1 ++ l2) = skipn n l1 ++ l2.
Proof.
  intros H. rewrite skipn_app. replace (n - length l1)%nat with 0%nat by lia. reflexivity.
Qed.

Lemma skipn_skipn' {A} (x y : nat) (l : list A) : skipn x (skipn y l) = skipn (y + x) l.
Proof.
  revert l; induction y as [|y IH]; intros l; simpl; [reflexivity|].
  destruct l as [|a l]; [rewrite skipn_nil; reflexivity|]. apply IH.
Qed.

(* ---------- FixedBuffer ---------- *)
Definition fb_inv (b : fbuf) : Prop := (fb_r b <= fb_w b)%nat /\ (fb_w b <= length (fb_buf b))%nat.

Lemma fb_slice_length b : fb_inv b -> length (fb_slice b) = (fb_w b - fb_r b)%nat.
Proof.
  intros [H1 H2]. unfold fb_slice. rewrite firstn_length, skipn_length. lia.
Qed.

Lemma slice_write (buf : list Z) r w n d :
  (r <= w)%nat -> (w <= length buf)%nat -> (n <= length d)%nat -> (w + n <= length buf)%nat ->
  firstn (w + n - r) (skipn r (firstn w buf ++ firstn n d ++ skipn (w + n) buf))
  = firstn (w - r) (skipn r buf) ++ firstn n d.
Proof.
  intros Hrw Hw Hn Hwn.
  rewrite skipn_exact by (rewrite firstn_length; lia).
  rewrite skipn_firstn_comm.
  rewrite app_assoc. apply firstn_exact.
  rewrite app_length, !firstn_length, skipn_length. lia.
Qed.

Lemma len_write (buf : list Z) w n d :
  (w <= length buf)%nat -> (n <= length d)%nat -> (w + n <= length buf)%nat ->
  length (firstn w buf ++ firstn n d ++ skipn (w + n) buf) = length buf.
Proof.
  intros. rewrite !app_length, !firstn_length, skipn_length. lia.
Qed.

Lemma slide_ok (buf : list Z) r w :
  (r <= w)%nat -> (w <= length buf)%nat ->
  let sl := firstn (w - r) (skipn r buf) in
  length (copy_into buf sl) = length buf /\
  firstn (w - r - 0) (skipn 0 (copy_into buf sl)) = sl.
Proof.
  intros Hrw Hw sl.
  assert (Hl : length sl = (w - r)%nat) by (unfold sl; rewrite firstn_length, skipn_length; lia).
  unfold copy_into. rewrite (firstn_all2 (n := length buf) sl) by lia.
  split.
  - rewrite app_length, skipn_length. lia.
  - simpl. rewrite Nat.sub_0_r. apply firstn_exact. lia.
Qed.

(* Write appends exactly the first n = min(len d, cap - pending) bytes, whether or not it slides *)
Lemma fb_write_spec b d b' n e :
  fb_inv b -> fb_write b d = (b', n, e) ->
  fb_inv b' /\ length (fb_buf b') = length (fb_buf b) /\
  n = Nat.min (length d) (length (fb_buf b) - length (fb_slice b)) /\
  fb_slice b' = fb_slice b ++ firstn n d /\
  e = (if Nat.ltb n (length d) then E_WRITE_FULL else 0).
Proof.
  intros Hinv Hw. pose proof (fb_slice_length b Hinv) as Hsl.
  destruct Hinv as [Hrw Hwc]. unfold fb_write in Hw.
  destruct (Nat.ltb 0 (fb_r b) && Nat.ltb (length (fb_buf b) - fb_w b) (length d)) eqn:Hs.
  - (* slide *)
    cbn [fb_buf fb_r fb_w] in Hw.
    destruct (slide_ok (fb_buf b) (fb_r b) (fb_w b) Hrw Hwc) as [Hlen Hslice].
    fold (fb_slice b) in Hlen, Hslice.
    set (buf1 := copy_into (fb_buf b) (fb_slice b)) in *.
    set (w1 := (fb_w b - fb_r b)%nat) in *.
    set (n1 := Nat.min (length buf1 - w1) (length d)) in *.
    inversion Hw; subst b' n e; clear Hw.
    unfold fb_inv. cbn [fb_buf fb_r fb_w].
    assert (Hn1 : (n1 <= length d)%nat) by (unfold n1; lia).
    assert (Hn2 : (w1 + n1 <= length buf1)%nat) by (unfold n1, w1; lia).
    assert (Hw1 : (w1 <= length buf1)%nat) by (unfold w1; lia).
    rewrite (len_write buf1 w1 n1 d Hw1 Hn1 Hn2).
    repeat split; try lia.
    unfold fb_slice at 1. cbn [fb_buf fb_r fb_w].
    rewrite (slice_write buf1 0 w1 n1 d) by lia.
    rewrite Hslice. reflexivity.
  - (* no slide *)
    set (n1 := Nat.min (length (fb_buf b) - fb_w b) (length d)) in *.
    inversion Hw; subst b' n e; clear Hw.
    unfold fb_inv. cbn [fb_buf fb_r fb_w].
    assert (Hn1 : (n1 <= length d)%nat) by (unfold n1; lia).
    assert (Hn2 : (fb_w b + n1 <= length (fb_buf b))%nat) by (unfold n1; lia).
    rewrite (len_write (fb_buf b) (fb_w b) n1 d Hwc Hn1 Hn2).
    repeat split; try lia.
    unfold fb_slice at 1. cbn [fb_buf fb_r fb_w].
      rewrite (slice_write (fb_buf b) (fb_r b) (fb_w b) n1 d) by lia. reflexivity.
Qed.

(* Read on a non-empty buffer delivers the first min(n, pending) bytes and removes exactly them *)
Lemma fb_read_spec b n b' data e :
  fb_inv b -> fb_r b <> fb_w b -> fb_read b n = (b', data, e) ->
  fb_inv b' /\ length (fb_buf b') = length (fb_buf b) /\
  data = firstn n (fb_slice b) /\ fb_slice b' = skipn n (fb_slice b) /\ e = 0.
Proof.
  intros Hinv Hne Hr. pose proof (fb_slice_length b Hinv) as Hsl.
  destruct Hinv as [Hrw Hwc]. unfold fb_read in Hr.
  destruct (Nat.eqb (fb_r b) (fb_w b)) eqn:E0; [apply Nat.eqb_eq in E0; contradiction|].
  assert (Hld : length (firstn n (fb_slice b)) = Nat.min n (fb_w b - fb_r b)) by (rewrite firstn_length, Hsl; reflexivity).
  destruct (Nat.eqb (fb_r b + length (firstn n (fb_slice b))) (fb_w b)) eqn:E1;
    inversion Hr; subst b' data e; clear Hr; unfold fb_inv; cbn [fb_buf fb_r fb_w].
  - apply Nat.eqb_eq in E1. repeat split; try lia.
    unfold fb_slice at 1. cbn [fb_buf fb_r fb_w]. simpl.
    symmetry. apply skipn_all2. lia.
  - apply Nat.eqb_neq in E1. repeat split; try lia.
    unfold fb_slice. cbn [fb_buf fb_r fb_w].
    fold (fb_slice b). rewrite Hld.
    assert (Hk : Nat.min n (fb_w b - fb_r b) = n) by lia. rewrite Hk.
    unfold fb_slice. rewrite skipn_firstn_comm, skipn_skipn'.
    f_equal. lia.
Qed.

(* ---------- Pipe: invariant and abstraction to the FIFO specification ---------- *)
Definition done_inv (p : pipe) : Prop :=
  forall c, p_done p = Some c -> c = (negb (p_err p =? 0) || negb (p_brk p =? 0)).
Definition p_inv (cap : nat) (p : pipe) : Prop :=
  match p_b p with Some b => fb_inv b /\ length (fb_buf b) = cap | None => True end /\ done_inv p.

Definition is_none {A} (o : option A) : bool := match o with None => true | Some _ => false end.

(* abstraction: the specification state of a pipe, up to the two ghost fields about readFn *)
Definition absf (cap : nat) (p : pipe) (m : bool) (a : Z) : sst :=
  {| s_cap := cap; s_pend := pending p; s_cerr := p_err p; s_berr := p_brk p; s_rel := is_none (p_b p);
     s_fnmust := m; s_fnavail := a; s_calls := p_calls p |}.
Definition R (cap : nat) (p : pipe) (s : sst) : Prop :=
  exists m a, s = absf cap p m a /\ (p_brk p = 0 -> m = p_fn p) /\ (p_fn p = true -> 1 <= a) /\ 0 <= a.

Lemma inv_new cap : p_inv cap (new_pipe cap).
Proof.
  split; simpl.
  - split; [split; simpl; lia|]. apply repeat_length.
  - intros c H. discriminate.
Qed.
Lemma R_new cap : R cap (new_pipe cap) (spec_init cap).
Proof.
  exists false, 0. unfold absf, spec_init, pending. simpl. repeat split; try lia; try discriminate.
Qed.

Lemma pending_length cap p : p_inv cap p ->
  length (pending p) = match p_b p with Some b => fb_len b | None => 0%nat end.
Proof.
  intros [H _]. unfold pending. destruct (p_b p) as [b|]; [|reflexivity].
  destruct H as [H _]. apply fb_slice_length. exact H.
Qed.

Ltac zb := repeat match goal with
  | H : (_ =? _) = true |- _ => apply Z.eqb_eq in H
  | H : (_ =? _) = false |- _ => apply Z.eqb_neq in H
  end.

Lemma sim_write cap p s d p' b :
  p_inv cap p -> R cap p s -> pipe_write p d = (p', b) ->
  exists s', spec_step s (OWrite d) b = Some s' /\ R cap p' s' /\ p_inv cap p'.
Proof.
  intros Hinv (m & a & -> & Hm & Ha & Ha0) Hw. unfold pipe_write in Hw.
  destruct (p_err p =? 0) eqn:Ee; cbn [negb] in Hw; cbv iota in Hw.
  2:{ inversion Hw; subst p' b. exists (absf cap p m a). split.
      - unfold spec_step, absf; cbn [s_cerr s_rel]. rewrite Ee. reflexivity.
      - split; [exists m, a; auto|exact Hinv]. }
  destruct (p_b p) as [fb|] eqn:Eb.
  2:{ inversion Hw; subst p' b. exists (absf cap p m a). split.
      - unfold spec_step, absf; cbn [s_cerr s_rel]. rewrite Ee, Eb. reflexivity.
      - split; [exists m, a; auto|exact Hinv]. }
  destruct (fb_write fb d) as [[fb' n] e] eqn:Ew. inversion Hw; subst p' b; clear Hw.
  destruct Hinv as [Hb Hd]. rewrite Eb in Hb. destruct Hb as [Hfb Hcap].
  destruct (fb_write_spec fb d fb' n e Hfb Ew) as (Hfb' & Hlen & Hn & Hsl & He).
  rewrite Hcap in Hn.
  assert (Hpend : pending p = fb_slice fb) by (unfold pending; rewrite Eb; reflexivity).
  assert (HR' : R cap (set_b p (Some fb')) (absf cap (set_b p (Some fb')) m a)).
  { exists m, a. simpl. auto. }
  assert (Hinv' : p_inv cap (set_b p (Some fb'))).
  { split; simpl; [split; [exact Hfb'|lia]|exact Hd]. }
  assert (Habs : absf cap (set_b p (Some fb')) m a = with_pend (absf cap p m a) (pending p ++ firstn n d)).
  { unfold absf, with_pend, pending; simpl. rewrite Eb. simpl. rewrite Hsl. reflexivity. }
  unfold spec_step. cbn [s_cerr s_rel s_berr s_cap s_pend absf]. rewrite Ee, Eb. simpl negb. simpl orb. cbv iota.
  rewrite Hpend, <- Hn.
  destruct (negb (p_brk p =? 0) && Nat.eqb n 0 && negb (e =? 0) && Nat.ltb 0 (length d)) eqn:Eref.
  - (* a broken pipe with a full buffer: refusing = accepting 0 bytes *)
    exists (absf cap p m a). split; [reflexivity|].
    assert (Hn0 : n = 0%nat) by lia. rewrite Hn0 in Habs.
    rewrite Habs in HR'. simpl firstn in HR'. rewrite app_nil_r in HR'.
    split; [exact HR'|exact Hinv'].
  - exists (absf cap (set_b p (Some fb')) m a).
    rewrite Nat.eqb_refl. simpl andb.
    assert (Hee : Bool.eqb (Nat.ltb n (length d)) (negb (e =? 0)) = true).
    { rewrite He. destruct (Nat.ltb n (length d)); reflexivity. }
    rewrite Hee. rewrite Habs, Hpend. split; [reflexivity|].
    rewrite <- Hpend, <- Habs. split; [exact HR'|exact Hinv'].
Qed.

Lemma sim_read cap p s k p' b :
  p_inv cap p -> R cap p s -> pipe_read p k = (p', b) ->
  exists s', spec_step s (ORead k) b = Some s' /\ R cap p' s' /\ p_inv cap p'.
Proof.
  intros Hinv (m & a & -> & Hm & Ha & Ha0) Hr. unfold pipe_read in Hr.
  pose proof (pending_length cap p Hinv) as Hpl.
  destruct (p_brk p =? 0) eqn:Ebk; cbn [negb] in Hr; cbv iota in Hr.
  2:{ inversion Hr; subst p' b. exists (absf cap p m a). split.
      - unfold spec_step, absf; cbn [s_berr s_calls]. rewrite Ebk. cbn [negb]. cbv iota.
        rewrite !Z.eqb_refl. reflexivity.
      - split; [exists m, a; auto|exact Hinv]. }
  assert (Hnodata : length (pending p) = 0%nat ->
     (if negb (p_err p =? 0) then
          let calls' := if p_fn p then p_calls p + 1 else p_calls p in
          ({| p_b := p_b p; p_err := p_err p; p_brk := p_brk p; p_fn := false; p_calls := calls'; p_done := p_done p |},
           BRead 0 [] (p_err p) calls')
        else (p, BBlocked)) = (p', b) ->
     exists s', spec_step (absf cap p m a) (ORead k) b = Some s' /\ R cap p' s' /\ p_inv cap p').
  { clear Hr. intros Hl0 Hr.
    destruct (p_err p =? 0) eqn:Ee; cbn [negb] in Hr; cbv iota in Hr.
    - inversion Hr; subst p' b. exists (absf cap p m a). split.
      + unfold spec_step, absf; cbn [s_berr s_cerr s_pend]. rewrite Ebk, Ee, Hl0. reflexivity.
      + split; [exists m, a; auto|exact Hinv].
    - cbv zeta in Hr. inversion Hr; subst p' b; clear Hr.
      zb. specialize (Hm Ebk). subst m.
      set (delta := if p_fn p then 1 else 0).
      set (p1 := {| p_b := p_b p; p_err := p_err p; p_brk := p_brk p; p_fn := false;
                    p_calls := if p_fn p then p_calls p + 1 else p_calls p; p_done := p_done p |}).
      exists (absf cap p1 false (a - delta)). split.
      + unfold spec_step, absf; cbn [s_berr s_cerr s_pend s_calls s_fnmust s_fnavail s_cap s_rel].
        assert (E1 : (p_brk p =? 0) = true) by (apply Z.eqb_eq; exact Ebk).
        assert (E2 : (p_err p =? 0) = false) by (apply Z.eqb_neq; exact Ee).
        rewrite E1, E2, Hl0. cbn [negb Nat.ltb Nat.leb]. cbv iota.
        rewrite Z.eqb_refl. simpl lz_eqb. simpl Nat.eqb. cbn [andb].
        replace ((if p_fn p then p_calls p + 1 else p_calls p) - p_calls p) with delta
          by (unfold delta; destruct (p_fn p); lia).
        assert (Hd3 : ((delta =? 0) || (delta =? 1)) && (delta <=? a) && (if p_fn p then delta =? 1 else true) = true).
        { unfold delta. destruct (p_fn p); [specialize (Ha eq_refl)|]; lia. }
        rewrite <- !andb_assoc in Hd3. rewrite <- !andb_assoc. rewrite Hd3.
        unfold p1, pending. simpl. reflexivity.
      + split.
        * exists false, (a - delta). repeat split; auto; simpl; try discriminate.
          unfold delta. destruct (p_fn p); [specialize (Ha eq_refl)|]; lia.
        * exact Hinv. }
  destruct (p_b p) as [fb|] eqn:Eb.
  2:{ apply Hnodata; [unfold pending; rewrite Eb; reflexivity|exact Hr]. }
  destruct (Nat.ltb 0 (fb_len fb)) eqn:Eld.
  2:{ apply Hnodata; [rewrite Hpl; apply Nat.ltb_ge in Eld; lia|exact Hr]. }
  clear Hnodata.
  destruct (fb_read fb k) as [[fb' data] e] eqn:Erd. inversion Hr; subst p' b; clear Hr.
  destruct Hinv as [Hb Hd]. rewrite Eb in Hb. destruct Hb as [Hfb Hcap].
  apply Nat.ltb_lt in Eld. unfold fb_len in Eld.
  assert (Hne : fb_r fb <> fb_w fb) by lia.
  destruct (fb_read_spec fb k fb' data e Hfb Hne Erd) as (Hfb' & Hlen & Hdata & Hsl & He).
  assert (Hpend : pending p = fb_slice fb) by (unfold pending; rewrite Eb; reflexivity).
  exists (absf cap (set_b p (Some fb')) m a). split.
  - unfold spec_step, absf; cbn [s_berr s_cerr s_pend s_calls s_fnmust s_fnavail s_cap s_rel].
    rewrite Ebk. cbn [negb]. cbv iota.
    assert (Hlt : Nat.ltb 0 (length (pending p)) = true) by (apply Nat.ltb_lt; rewrite Hpl; unfold fb_len; lia).
    rewrite Hlt. rewrite Hdata, Hpend, firstn_length, Nat.eqb_refl, lz_eqb_refl, He, !Z.eqb_refl.
    cbn [andb]. unfold with_pend, pending; simpl. rewrite Eb, Hsl. reflexivity.
  - split.
    + exists m, a. simpl. auto.
    + split; simpl; [split; [exact Hfb'|lia]|exact Hd].
Qed.

Lemma sim_close cap p s e code p' b :
  p_inv cap p -> R cap p s -> close_with p false e code = (p', b) ->
  exists s', spec_step s (if code then OCloseCode e else OClose e) b = Some s' /\ R cap p' s' /\ p_inv cap p'.
Proof.
  intros Hinv (m & a & -> & Hm & Ha & Ha0) Hc. unfold close_with in Hc.
  assert (Hsp : forall s' : sst,
     (let cd := code in
      if e =? 0 then match b with BPanic => Some (absf cap p m a) | _ => None end
      else match b with
           | BUnit =>
               Some {| s_cap := cap; s_pend := pending p; s_cerr := set_err (p_err p) e; s_berr := p_brk p;
                       s_rel := is_none (p_b p);
                       s_fnmust := if p_err p =? 0 then cd else m;
                       s_fnavail := if cd then a + 1 else a; s_calls := p_calls p |}
           | _ => None
           end) = Some s' ->
     spec_step (absf cap p m a) (if code then OCloseCode e else OClose e) b = Some s').
  { intros s' H. destruct code; exact H. }
  destruct (e =? 0) eqn:E0.
  { inversion Hc; subst p' b. exists (absf cap p m a). split; [apply Hsp; reflexivity|].
    split; [exists m, a; auto|exact Hinv]. }
  destruct Hinv as [Hb Hd].
  destruct (p_err p =? 0) eqn:Ee; cbn [negb] in Hc; cbv iota in Hc.
  - (* first close *)
    inversion Hc; subst p' b; clear Hc. eexists. split; [apply Hsp; cbv zeta; reflexivity|].
    zb. unfold set_err. rewrite Ee. simpl (0 =? 0). cbv iota.
    split.
    + exists code, (if code then a + 1 else a). unfold absf, pending; simpl.
      repeat split; auto; destruct code; try lia; discriminate.
    + split; [exact Hb|]. intros c Hcd. simpl in *.
      destruct (p_done p); simpl in Hcd; inversion Hcd.
      assert ((e =? 0) = false) by (apply Z.eqb_neq; exact E0). rewrite H. reflexivity.
  - destruct (p_err p =? E_EOF) eqn:E1; inversion Hc; subst p' b; clear Hc.
    + (* io.EOF replaced *)
      eexists. split; [apply Hsp; cbv zeta; reflexivity|].
      unfold set_err. rewrite Ee, E1.
      split.
      * exists m, (if code then a + 1 else a). unfold absf, pending; simpl.
        repeat split; auto; destruct code; try lia; intro Hf; specialize (Ha Hf); lia.
      * split; [exact Hb|]. intros c Hcd. simpl in *. specialize (Hd c Hcd).
        rewrite Ee in Hd. rewrite E0. exact Hd.
    + eexists. split; [apply Hsp; cbv zeta; reflexivity|].
      unfold set_err. rewrite Ee, E1.
      split.
      * exists m, (if code then a + 1 else a). unfold absf, pending; simpl.
        repeat split; auto; destruct code; try lia; intro Hf; specialize (Ha Hf); lia.
      * split; [exact Hb|exact Hd].
Qed.

Lemma sim_break cap p s e p' b :
  p_inv cap p -> R cap p s -> close_with p true e false = (p', b) ->
  exists s', spec_step s (OBreak e) b = Some s' /\ R cap p' s' /\ p_inv cap p'.
Proof.
  intros Hinv (m & a & -> & Hm & Ha & Ha0) Hc. unfold close_with in Hc.
  unfold spec_step. cbn [absf s_cap s_pend s_cerr s_berr s_rel s_fnmust s_fnavail s_calls].
  destruct (e =? 0) eqn:E0.
  { inversion Hc; subst p' b. exists (absf cap p m a). split; [reflexivity|].
    split; [exists m, a; auto|exact Hinv]. }
  destruct Hinv as [Hb Hd].
  destruct (p_brk p =? 0) eqn:Ee; cbn [negb] in Hc; cbv iota in Hc.
  - inversion Hc; subst p' b; clear Hc. eexists. split; [reflexivity|].
    unfold set_err. rewrite Ee.
    split.
    + exists m, a. unfold absf, pending; simpl. repeat split; auto; try lia; try discriminate.
    + split; [exact Hb|]. intros c Hcd. simpl in *.
      destruct (p_done p); simpl in Hcd; inversion Hcd. rewrite E0. simpl. symmetry. apply orb_true_r.
  - destruct (p_brk p =? E_EOF) eqn:E1; inversion Hc; subst p' b; clear Hc.
    + eexists. split; [reflexivity|].
      unfold set_err. rewrite Ee, E1.
      split.
      * exists m, a. unfold absf, pending; simpl. repeat split; auto; try lia.
      * split; [exact Hb|]. intros c Hcd. simpl in *. specialize (Hd c Hcd).
        rewrite Ee in Hd. rewrite E0. exact Hd.
    + eexists. split; [reflexivity|].
      unfold set_err. rewrite Ee, E1.
      split; [exists m, a; auto|split; [exact Hb|exact Hd]].
Qed.

Lemma sim_step cap p s o p' b :
  p_inv cap p -> R cap p s -> step p o = (p', b) ->
  exists s', spec_step s o b = Some s' /\ R cap p' s' /\ p_inv cap p'.
Proof.
  intros Hinv HR Hs. destruct o; simpl in Hs.
  - eapply sim_write; eauto.
  - eapply sim_read; eauto.
  - exact (sim_close cap p s e false p' b Hinv HR Hs).
  - eapply sim_break; eauto.
  - (* Err *)
    destruct HR as (m & a & -> & Hm & Ha & Ha0). inversion Hs; subst p' b.
    exists (absf cap p m a). split.
    + unfold spec_step, absf; cbn [s_berr s_cerr]. rewrite Z.eqb_refl. reflexivity.
    + split; [exists m, a; auto|exact Hinv].
  - (* Release *)
    destruct HR as (m & a & -> & Hm & Ha & Ha0).
    destruct (p_b p) as [fb|] eqn:Eb; inversion Hs; subst p' b.
    + eexists. split.
      * unfold spec_step, absf; cbn [s_rel]. rewrite Eb. simpl. reflexivity.
      * split; [exists m, a; unfold absf, pending; simpl; auto|].
        destruct Hinv as [_ Hd]. split; [exact I|exact Hd].
    + exists (absf cap p m a). split.
      * unfold spec_step, absf; cbn [s_rel]. rewrite Eb. reflexivity.
      * split; [exists m, a; auto|exact Hinv].
  - (* Done *)
    destruct HR as (m & a & -> & Hm & Ha & Ha0). destruct Hinv as [Hb Hd].
    destruct (p_done p) as [c|] eqn:Ed; inversion Hs; subst p' b.
    + exists (absf cap p m a). split.
      * unfold spec_step, absf; cbn [s_berr s_cerr]. rewrite <- (Hd c Ed).
        rewrite eqb_reflx. reflexivity.
      * split; [exists m, a; auto|split; assumption].
    + eexists. split.
      * unfold spec_step, absf; cbn [s_berr s_cerr]. rewrite eqb_reflx. reflexivity.
      * split; [exists m, a; unfold absf, pending; simpl; auto|].
        split; [exact Hb|]. intros c Hc. simpl in *. inversion Hc. reflexivity.
  - exact (sim_close cap p s e true p' b Hinv HR Hs).
  - (* Peek *)
    destruct HR as (m & a & -> & Hm & Ha & Ha0).
    destruct (p_b p) as [fb|] eqn:Eb; inversion Hs; subst p' b;
      (exists (absf cap p m a); split; [reflexivity|split; [exists m, a; auto|exact Hinv]]).
Qed.

(* ---------- the model refines the specification on every history ---------- *)
Lemma sim_run cap ops : forall p s p' outs,
  p_inv cap p -> R cap p s -> run_from p ops = (p', outs) ->
  exists s', spec_run s ops outs = Some s' /\ R cap p' s' /\ p_inv cap p'.
Proof.
  induction ops as [|o ops IH]; intros p s p' outs Hinv HR Hrun; simpl in Hrun.
  - inversion Hrun; subst. exists s. simpl. auto.
  - destruct (step p o) as [p1 b] eqn:Es.
    destruct (run_from p1 ops) as [p2 bs] eqn:Er. inversion Hrun; subst p' outs; clear Hrun.
    destruct (sim_step cap p s o p1 b Hinv HR Es) as (s1 & Hs1 & HR1 & Hinv1).
    destruct (IH p1 s1 p2 bs Hinv1 HR1 Er) as (s2 & Hs2 & HR2 & Hinv2).
    exists s2. simpl. rewrite Hs1. auto.
Qed.

Theorem model_refines_spec cap ops : spec_ok cap ops (snd (run_pipe cap ops)) = true.
Proof.
  unfold run_pipe, spec_ok. destruct (run_from (new_pipe cap) ops) as [p' outs] eqn:Er.
  destruct (sim_run cap ops _ _ _ _ (inv_new cap) (R_new cap) Er) as (s' & Hs & _).
  simpl. rewrite Hs. reflexivity.
Qed.

(* ---------- consequences of the specification (hold for ANY accepted observation trace) ---------- *)
Definition srel_inv (s : sst) : Prop := s_rel s = true -> s_pend s = [].

Ltac band := repeat match goal with
  | H : _ && _ = true |- _ => apply andb_true_iff in H; destruct H
  end.

(* one specification step: pending ++ accepted = delivered ++ pending', unless it is the Release *)
Lemma spec_step_account s o b s' :
  spec_step s o b = Some s' -> srel_inv s ->
  srel_inv s' /\
  (o <> ORelease ->
   s_pend s ++ concat (accepted_writes [o] [b]) = concat (reads [b]) ++ s_pend s') /\
  (o = ORelease -> s_pend s' = [] /\ s_rel s' = true /\ reads [b] = []) /\
  (s_rel s = true -> s_rel s' = true /\ concat (reads [b]) = []).
Proof.
  intros Hs Hrel. unfold srel_inv in *.
  destruct o; destruct b; simpl in Hs; try discriminate;
    repeat match type of Hs with
    | (if ?c then _ else _) = Some _ => let E := fresh "E" in destruct c eqn:E; try discriminate
    end;
    try (inversion Hs; subst s'; clear Hs; simpl;
         repeat split; try congruence; try (intros; rewrite ?app_nil_r; reflexivity); auto; fail).
  - (* write refused: closed or released *)
    inversion Hs; subst s'; clear Hs. band.
    assert (n = 0%nat) by (apply Nat.eqb_eq; assumption). subst n. simpl.
    repeat split; intros; rewrite ?app_nil_r; auto; try congruence.
  - (* write refused: broken *)
    inversion Hs; subst s'; clear Hs. band.
    assert (n = 0%nat) by (apply Nat.eqb_eq; assumption). subst n. simpl.
    repeat split; intros; rewrite ?app_nil_r; auto; try congruence.
  - (* write accepted *)
    inversion Hs; subst s'; clear Hs. simpl. apply orb_false_iff in E. destruct E as [_ Er].
    repeat split; intros; rewrite ?app_nil_r; auto; try congruence.
  - (* read reporting the break error *)
    inversion Hs; subst s'; clear Hs. simpl. band.
    match goal with H : lz_eqb _ _ = true |- _ => apply lz_eqb_eq in H; subst d end.
    repeat split; intros; rewrite ?app_nil_r; auto; try congruence.
  - (* read with data *)
    inversion Hs; subst s'; clear Hs. simpl. band.
    match goal with H : lz_eqb _ _ = true |- _ => apply lz_eqb_eq in H; subst d end.
    repeat split; try congruence; intros.
    + match goal with H : s_rel s = true |- _ => apply Hrel in H; rewrite H end. apply skipn_nil.
    + rewrite !app_nil_r. symmetry. apply firstn_skipn.
    + match goal with H : s_rel s = true |- _ => apply Hrel in H; rewrite H in * end. discriminate.
  - (* read reporting the close error *)
    inversion Hs; subst s'; clear Hs. simpl. band.
    match goal with H : lz_eqb _ _ = true |- _ => apply lz_eqb_eq in H; subst d end.
    repeat split; intros; rewrite ?app_nil_r; auto; try congruence.
Qed.

Lemma reads_cons b outs : reads (b :: outs) = reads [b] ++ reads outs.
Proof. destruct b; reflexivity. Qed.
Lemma accepted_cons o b ops outs :
  accepted_writes (o :: ops) (b :: outs) = accepted_writes [o] [b] ++ accepted_writes ops outs.
Proof. destruct o; destruct b; reflexivity. Qed.
Lemma accepted_release b : accepted_writes [ORelease] [b] = [].
Proof. destruct b; reflexivity. Qed.

Lemma op_eq_release (o : op) : {o = ORelease} + {o <> ORelease}.
Proof. destruct o; (left; reflexivity) || (right; discriminate). Qed.

Lemma spec_run_released ops : forall outs s s',
  spec_run s ops outs = Some s' -> srel_inv s -> s_rel s = true -> concat (reads outs) = [].
Proof.
  induction ops as [|o ops IH]; intros [|b outs] s s' Hrun Hinv Hrel; simpl in Hrun; try discriminate.
  - reflexivity.
  - destruct (spec_step s o b) as [s1|] eqn:Es; [|discriminate].
    destruct (spec_step_account s o b s1 Es Hinv) as (Hinv1 & _ & _ & Hr).
    destruct (Hr Hrel) as [Hrel1 Hnil].
    rewrite reads_cons, concat_app, Hnil. simpl. eapply IH; eauto.
Qed.

(* exact accounting while the buffer is not released: nothing lost, nothing duplicated, order kept *)
Lemma spec_run_exact ops : forall outs s s',
  spec_run s ops outs = Some s' -> srel_inv s -> ~ In ORelease ops ->
  s_pend s ++ concat (accepted_writes ops outs) = concat (reads outs) ++ s_pend s'.
Proof.
  induction ops as [|o ops IH]; intros [|b outs] s s' Hrun Hinv Hno; simpl in Hrun; try discriminate.
  - inversion Hrun; subst. simpl. apply app_nil_r.
  - destruct (spec_step s o b) as [s1|] eqn:Es; [|discriminate].
    destruct (spec_step_account s o b s1 Es Hinv) as (Hinv1 & Hacc & _ & _).
    assert (Ho : o <> ORelease) by (intro; subst; apply Hno; left; reflexivity).
    assert (Hno' : ~ In ORelease ops) by (intro; apply Hno; right; assumption).
    rewrite reads_cons, accepted_cons, !concat_app.
    rewrite app_assoc, (Hacc Ho), <- app_assoc, (IH outs s1 s' Hrun Hinv1 Hno'), app_assoc. reflexivity.
Qed.

(* every history: what was delivered is a prefix of what was accepted (Release may drop the rest) *)
Lemma spec_run_prefix ops : forall outs s s',
  spec_run s ops outs = Some s' -> srel_inv s ->
  is_prefix_of (concat (reads outs)) (s_pend s ++ concat (accepted_writes ops outs)).
Proof.
  induction ops as [|o ops IH]; intros [|b outs] s s' Hrun Hinv; simpl in Hrun; try discriminate.
  - exists (s_pend s). simpl. apply app_nil_r.
  - destruct (spec_step s o b) as [s1|] eqn:Es; [|discriminate].
    destruct (spec_step_account s o b s1 Es Hinv) as (Hinv1 & Hacc & Hrl & _).
    rewrite reads_cons, accepted_cons, !concat_app.
    destruct (op_eq_release o) as [Ho|Ho].
    + subst o. destruct (Hrl eq_refl) as (Hp1 & Hr1 & Hb).
      rewrite Hb, accepted_release. simpl.
      rewrite (spec_run_released ops outs s1 s' Hrun Hinv1 Hr1).
      exists (s_pend s ++ concat (accepted_writes ops outs)). reflexivity.
    + destruct (IH outs s1 s' Hrun Hinv1) as [t Ht].
      exists t. rewrite app_assoc, (Hacc Ho), <- !app_assoc, Ht. reflexivity.
Qed.

(* ---------- headline statements for the model ---------- *)
Definition reachable (cap : nat) (p : pipe) : Prop := exists ops, fst (run_pipe cap ops) = p.

Lemma reachable_inv cap p : reachable cap p -> p_inv cap p.
Proof.
  intros [ops H]. unfold run_pipe in H.
  destruct (run_from (new_pipe cap) ops) as [p' outs] eqn:Er. simpl in H. subst p'.
  destruct (sim_run cap ops _ _ _ _ (inv_new cap) (R_new cap) Er) as (s' & _ & _ & Hinv). exact Hinv.
Qed.

Lemma srel_init cap : srel_inv (spec_init cap).
Proof. intros _. reflexivity. Qed.

Theorem fifo_exactly_once cap ops :
  let '(p, outs) := run_pipe cap ops in
  is_prefix_of (concat (reads outs)) (concat (accepted_writes ops outs)).
Proof.
  unfold run_pipe. destruct (run_from (new_pipe cap) ops) as [p' outs] eqn:Er.
  destruct (sim_run cap ops _ _ _ _ (inv_new cap) (R_new cap) Er) as (s' & Hs & _).
  exact (spec_run_prefix ops outs (spec_init cap) s' Hs (srel_init cap)).
Qed.

Theorem exact_until_release cap ops :
  ~ In ORelease ops ->
  let '(p, outs) := run_pipe cap ops in
  concat (accepted_writes ops outs) = concat (reads outs) ++ pending p /\ (length (pending p) <= cap)%nat.
Proof.
  intros Hno. unfold run_pipe. destruct (run_from (new_pipe cap) ops) as [p' outs] eqn:Er.
  destruct (sim_run cap ops _ _ _ _ (inv_new cap) (R_new cap) Er) as (s' & Hs & HR & Hinv).
  pose proof (spec_run_exact ops outs (spec_init cap) s' Hs (srel_init cap) Hno) as H.
  destruct HR as (m & a & -> & _). simpl in H. split; [exact H|].
  rewrite (pending_length cap p' Hinv). destruct Hinv as [Hb _].
  destruct (p_b p') as [fb|]; [|lia]. destruct Hb as [[H1 H2] H3]. unfold fb_len. lia.
Qed.

(* any observation trace accepted by the executable property has the FIFO property *)
Theorem prop_implies_fifo i o cap ops outs :
  pool_mode i = false -> conc_mode i = false ->
  decode_input i = Some (cap, ops) -> decode_outs o = Some outs -> prop_C21 i o = true ->
  is_prefix_of (concat (reads outs)) (concat (accepted_writes ops outs)) /\
  (~ In ORelease ops -> exists rest, concat (accepted_writes ops outs) = concat (reads outs) ++ rest).
Proof.
  intros Hpm Hc Hi Ho Hp. unfold prop_C21 in Hp. rewrite Hpm, Hi, Ho, Hc in Hp. unfold spec_ok in Hp.
  destruct (spec_run (spec_init cap) ops outs) as [s'|] eqn:Hs; [|discriminate].
  split.
  - exact (spec_run_prefix ops outs (spec_init cap) s' Hs (srel_init cap)).
  - intros Hno. exists (s_pend s').
    exact (spec_run_exact ops outs (spec_init cap) s' Hs (srel_init cap) Hno).
Qed.

(* wire encoding round trip *)
Lemma decode_encode_obs b : decode_obs (encode_obs b) = Some b.
Proof.
  destruct b; simpl; try reflexivity.
  - assert (H : (0 <=? Z.of_nat n) = true) by lia. unfold vnat. rewrite H, Nat2Z.id. reflexivity.
  - assert (H : (0 <=? Z.of_nat n) = true) by lia. unfold vnat. rewrite H, Nat2Z.id. reflexivity.
  - destruct closed; reflexivity.
Qed.
Lemma decode_encode_outs outs : decode_outs (VL (map encode_obs outs)) = Some outs.
Proof.
  unfold decode_outs. induction outs as [|b outs IH]; [reflexivity|].
  simpl. rewrite decode_encode_obs. simpl in IH. rewrite IH. reflexivity.
Qed.

(* ---------- pooled buffers: a pipe built on a recycled buffer refines a FRESH specification ---------- *)
Definition pool_ok (cap : nat) (pool : list fbuf) : Prop :=
  Forall (fun b => fb_inv b /\ length (fb_buf b) = cap /\ fb_r b = 0%nat /\ fb_w b = 0%nat) pool.

Lemma inv_from cap b : fb_inv b -> length (fb_buf b) = cap -> p_inv cap (pipe_from b).
Proof. intros H1 H2. split; simpl; [split; assumption|]. intros c H. discriminate. Qed.
Lemma R_from cap b : fb_r b = 0%nat -> fb_w b = 0%nat -> R cap (pipe_from b) (spec_init cap).
Proof.
  intros Hr Hw. exists false, 0. unfold absf, spec_init, pending, pipe_from, fb_slice. simpl. rewrite Hr, Hw. simpl.
  repeat split; try lia; try discriminate.
Qed.

Lemma run_from_pool_ok cap ops : forall p pool s p' pool' outs,
  p_inv cap p -> R cap p s -> pool_ok cap pool -> run_from_pool p pool ops = (p', pool', outs) ->
  (exists s', spec_run s ops outs = Some s') /\ pool_ok cap pool' /\ length outs = length ops.
Proof.
  induction ops as [|o ops IH]; intros p pool s p' pool' outs Hinv HR Hpool Hrun; cbn [run_from_pool] in Hrun.
  - inversion Hrun; subst. split; [exists s; reflexivity|]. split; [exact Hpool|reflexivity].
  - destruct (step p o) as [p1 b] eqn:Es.
    set (pool1 := match o, p_b p with ORelease, Some b0 => fb_reset b0 :: pool | _, _ => pool end) in *.
    destruct (run_from_pool p1 pool1 ops) as [[p2 pool2] bs] eqn:Er. inversion Hrun; subst p' pool' outs; clear Hrun.
    destruct (sim_step cap p s o p1 b Hinv HR Es) as (s1 & Hs1 & HR1 & Hinv1).
    assert (Hpool1 : pool_ok cap pool1).
    { unfold pool1. destruct o; try exact Hpool. destruct (p_b p) as [b0|] eqn:Eb; [|exact Hpool].
      constructor; [|exact Hpool]. destruct Hinv as [Hb _]. rewrite Eb in Hb. destruct Hb as [[H1 H2] H3].
      unfold fb_reset, fb_inv. simpl. repeat split; try lia. }
    destruct (IH p1 pool1 s1 p2 pool2 bs Hinv1 HR1 Hpool1 Er) as ([s2 Hs2] & Hp2 & Hlen).
    split; [exists s2; simpl; rewrite Hs1; exact Hs2|]. split; [exact Hp2|simpl; rewrite Hlen; reflexivity].
Qed.

Lemma pool_get_ok cap pool b pool1 : pool_ok cap pool -> pool_get cap pool = (b, pool1) ->
  fb_inv b /\ length (fb_buf b) = cap /\ fb_r b = 0%nat /\ fb_w b = 0%nat /\ pool_ok cap pool1.
Proof.
  unfold pool_get. destruct pool as [|b0 r]; intros Hp E; inversion E; subst.
  - unfold fb_new, fb_inv. simpl. rewrite repeat_length. repeat split; try lia. constructor.
  - inversion Hp as [|? ? Hb Hr]; subst. destruct Hb as (H1 & H2 & H3 & H4).
    split; [exact H1|split; [exact H2|split; [exact H3|split; [exact H4|exact Hr]]]].
Qed.

(* every generation of a pooled history is accepted by a fresh specification *)
Lemma run_gens_ok cap : forall gens pool, pool_ok cap pool ->
  Forall2 (fun g outs => spec_ok cap g outs = true /\ length outs = length g) gens (run_gens cap pool gens).
Proof.
  induction gens as [|g rest IH]; intros pool Hpool; cbn [run_gens]; [constructor|].
  destruct (pool_get cap pool) as [b pool1] eqn:Eg.
  destruct (pool_get_ok cap pool b pool1 Hpool Eg) as (H1 & H2 & H3 & H4 & Hp1).
  destruct (run_from_pool (pipe_from b) pool1 g) as [[p' pool2] outs] eqn:Er.
  destruct (run_from_pool_ok cap g _ _ _ _ _ _ (inv_from cap b H1 H2) (R_from cap b H3 H4) Hp1 Er) as ([s' Hs] & Hp2 & Hlen).
  constructor; [|apply IH; exact Hp2].
  split; [unfold spec_ok; rewrite Hs; reflexivity|exact Hlen].
Qed.

Lemma check_join cap : forall gens outs,
  Forall2 (fun g o => spec_ok cap g o = true /\ length o = length g) gens outs ->
  check_gens cap gens (join_gens outs) = true.
Proof.
  induction gens as [|g rest IH]; intros outs H; inversion H as [|? o ? outs' [Hok Hlen] Hrest]; subst; [reflexivity|].
  cbn [check_gens].
  assert (Hf : forall tl, firstn (length g) (map encode_obs o ++ tl) = map encode_obs o).
  { intros tl. apply firstn_exact. rewrite map_length. symmetry. exact Hlen. }
  assert (Hs : forall tl, skipn (length g) (map encode_obs o ++ tl) = tl).
  { intros tl. rewrite <- Hlen, <- (map_length encode_obs o). rewrite skipn_app, Nat.sub_diag, skipn_all. reflexivity. }
  pose proof (decode_encode_outs o) as Hd. unfold decode_outs in Hd.
  destruct outs' as [|o2 outs2].
  - inversion Hrest; subst. cbn [join_gens]. rewrite <- (app_nil_r (map encode_obs o)). rewrite Hf, Hs, Hd, Hok. reflexivity.
  - inversion Hrest as [|g2 ? rest2 ? Hh Ht]; subst. cbn [join_gens]. rewrite Hf, Hs, Hd, Hok. cbn [andb].
    apply (IH (o2 :: outs2)). exact Hrest.
Qed.

(* central shape: the model satisfies the executable property on every well-formed input *)
Theorem prop_of_model i : wf_C21 i = true -> kf_C21 i = 0 -> prop_C21 i (run_C21 i) = true.
Proof.
  intros Hwf _. unfold wf_C21 in Hwf. unfold prop_C21, run_C21.
  destruct (pool_mode i).
  { destruct (decode_gens i) as [[cap gens]|] eqn:Hi; [|discriminate].
    apply check_join. apply run_gens_ok. constructor. }
  destruct (decode_input i) as [[cap ops]|] eqn:Hi; [|discriminate].
  destruct (conc_mode i).
  - change (VL [encode_obs (transfer_result ops)]) with (VL (map encode_obs [transfer_result ops])).
    rewrite decode_encode_outs. unfold transfer_result.
    rewrite Nat.eqb_refl, lz_eqb_refl. reflexivity.
  - rewrite decode_encode_outs. apply model_refines_spec.
Qed.

(* A Reset that only rewinds the write index is NOT enough: partial read, Release, reuse loses bytes *)
Lemma reset_w_only_breaks :
  let b1 := fst (fst (fb_write (fb_new 8) [104;101;108;108;111])) in          (* "hello" *)
  let b2 := fst (fst (fb_read b1 2)) in                                      (* partial read: r = 2 *)
  snd (run_from (pipe_from (fb_reset_w_only b2)) [OWrite [104;101;108;108;111]; ORead 8])
    = [BWrite 5 0; BRead 3 [108;108;111] 0 0] /\                               (* "llo" *)
  snd (run_from (pipe_from (fb_reset b2)) [OWrite [104;101;108;108;111]; ORead 8])
    = [BWrite 5 0; BRead 5 [104;101;108;108;111] 0 0].
Proof. vm_compute. split; reflexivity. Qed.

Lemma ex_pool_wire :
  run_C21 (VL [VZ 8; VZ 8; VL [VL [VZ 1; VB [104;101;108;108;111]]; VL [VZ 2; VZ 2]; VL [VZ 6]; VL [VZ 10];
                               VL [VZ 9]; VL [VZ 1; VB [104;101;108;108;111]]; VL [VZ 2; VZ 8]]])
  = VL [VL [VZ 1; VZ 5; VZ 0]; VL [VZ 2; VZ 2; VB [104;101]; VZ 0; VZ 0]; VL []; VL [];
        VL [VZ 9; VZ 0; VZ 0]; VL [VZ 1; VZ 5; VZ 0]; VL [VZ 2; VZ 5; VB [104;101;108;108;111]; VZ 0; VZ 0]].
Proof. vm_compute. reflexivity. Qed.

(* ---------- single-step statements over reachable states ---------- *)
Theorem write_all_or_error cap p d :
  reachable cap p ->
  exists p' n e, step p (OWrite d) = (p', BWrite n e) /\
    (n <= length d)%nat /\ ((n < length d)%nat -> e <> 0) /\ (e = 0 -> n = length d) /\
    pending p' = pending p ++ firstn n d /\
    (p_err p = 0 -> p_b p <> None ->
       n = Nat.min (length d) (cap - length (pending p)) /\ (e <> 0 -> (n < length d)%nat)) /\
    (p_err p <> 0 \/ p_b p = None -> n = 0%nat /\ e = E_CLOSED_WRITE).
Proof.
  intros Hre. pose proof (reachable_inv cap p Hre) as [Hb Hd]. simpl. unfold pipe_write.
  destruct (p_err p =? 0) eqn:Ee; cbn [negb]; cbv iota.
  2:{ zb. exists p, 0%nat, E_CLOSED_WRITE. simpl. rewrite app_nil_r. unfold E_CLOSED_WRITE.
      repeat split; try lia; try congruence; intros; try discriminate; try lia. }
  destruct (p_b p) as [fb|] eqn:Eb.
  2:{ zb. exists p, 0%nat, E_CLOSED_WRITE. simpl. rewrite app_nil_r. unfold E_CLOSED_WRITE.
      repeat split; try lia; try congruence; intros; try discriminate; try lia. }
  destruct Hb as [Hfb Hcap].
  destruct (fb_write fb d) as [[fb' n] e] eqn:Ew.
  destruct (fb_write_spec fb d fb' n e Hfb Ew) as (Hfb' & Hlen & Hn & Hsl & He).
  exists (set_b p (Some fb')), n, e. zb.
  assert (Hp : pending p = fb_slice fb) by (unfold pending; rewrite Eb; reflexivity).
  assert (Hp' : pending (set_b p (Some fb')) = fb_slice fb') by reflexivity.
  rewrite Hp, Hp', <- Hcap. unfold E_WRITE_FULL in He.
  repeat split; try lia; try assumption.
  - intros Hlt. rewrite He. destruct (Nat.ltb n (length d)) eqn:El; [lia|]. apply Nat.ltb_ge in El. lia.
  - intros H0. rewrite He in H0. destruct (Nat.ltb n (length d)) eqn:El; [lia|]. apply Nat.ltb_ge in El. lia.
  - intros Hne. rewrite He in Hne. destruct (Nat.ltb n (length d)) eqn:El; [apply Nat.ltb_lt in El; lia|lia].
  - match goal with H : _ \/ _ |- _ => destruct H as [H|H]; [contradiction|discriminate] end.
  - match goal with H : _ \/ _ |- _ => destruct H as [H|H]; [contradiction|discriminate] end.
Qed.

Theorem break_immediate p k :
  p_brk p <> 0 -> step p (ORead k) = (p, BRead 0 [] (p_brk p) (p_calls p)).
Proof.
  intros H. simpl. unfold pipe_read. apply Z.eqb_neq in H. rewrite H. reflexivity.
Qed.

Lemma pending_nil_iff cap p : p_inv cap p ->
  (pending p = [] <-> match p_b p with Some b => Nat.ltb 0 (fb_len b) | None => false end = false).
Proof.
  intros Hinv. pose proof (pending_length cap p Hinv) as Hl.
  destruct (p_b p) as [fb|] eqn:Eb.
  - split; intro H.
    + rewrite H in Hl. simpl in Hl. apply Nat.ltb_ge. lia.
    + apply Nat.ltb_ge in H. apply length_zero_iff_nil. lia.
  - split; intro; [reflexivity|]. unfold pending. rewrite Eb. reflexivity.
Qed.

Theorem read_cases cap p k :
  reachable cap p -> p_brk p = 0 ->
  (pending p <> [] ->
     exists p', step p (ORead k) = (p', BRead (Nat.min k (length (pending p))) (firstn k (pending p)) 0 (p_calls p)) /\
       pending p' = skipn k (pending p) /\ p_err p' = p_err p /\ p_brk p' = 0) /\
  (pending p = [] -> p_err p <> 0 ->
     exists p' c, step p (ORead k) = (p', BRead 0 [] (p_err p) c) /\ pending p' = [] /\ p_err p' = p_err p) /\
  (pending p = [] -> p_err p = 0 -> step p (ORead k) = (p, BBlocked)).
Proof.
  intros Hre Hbk. pose proof (reachable_inv cap p Hre) as Hinv.
  pose proof (pending_nil_iff cap p Hinv) as Hnil.
  simpl. unfold pipe_read. apply Z.eqb_eq in Hbk. rewrite Hbk. cbn [negb]. cbv iota.
  split; [|split].
  - intros Hne. destruct (p_b p) as [fb|] eqn:Eb.
    2:{ exfalso. apply Hne. unfold pending. rewrite Eb. reflexivity. }
    destruct (Nat.ltb 0 (fb_len fb)) eqn:El.
    2:{ exfalso. apply Hne. apply Hnil. reflexivity. }
    destruct Hinv as [Hb _]. rewrite Eb in Hb. destruct Hb as [Hfb Hcap].
    apply Nat.ltb_lt in El. unfold fb_len in El.
    assert (Hrw : fb_r fb <> fb_w fb) by lia.
    destruct (fb_read fb k) as [[fb' data] e] eqn:Erd.
    destruct (fb_read_spec fb k fb' data e Hfb Hrw Erd) as (Hfb' & Hlen & Hdata & Hsl & He).
    assert (Hp : pending p = fb_slice fb) by (unfold pending; rewrite Eb; reflexivity).
    exists (set_b p (Some fb')). rewrite Hp. subst data e. rewrite firstn_length.
    repeat split; simpl; auto. apply Z.eqb_eq. exact Hbk.
  - intros Hn He. apply Hnil in Hn. apply Z.eqb_neq in He.
    assert (Hgo : forall X : pipe * obs,
       match p_b p with
       | Some b => if Nat.ltb 0 (fb_len b)
                   then let '(b', data, e) := fb_read b k in (set_b p (Some b'), BRead (length data) data e (p_calls p))
                   else X
       | None => X end = X).
    { intros X. destruct (p_b p); [rewrite Hn|]; reflexivity. }
    match goal with |- exists p' c, ?lhs = _ /\ _ => assert (Hl : lhs =
       (if negb (p_err p =? 0) then
          let calls' := if p_fn p then p_calls p + 1 else p_calls p in
          ({| p_b := p_b p; p_err := p_err p; p_brk := p_brk p; p_fn := false; p_calls := calls'; p_done := p_done p |},
           BRead 0 [] (p_err p) calls')
        else (p, BBlocked))) end.
    { destruct (p_b p) as [fb|]; [|reflexivity]. rewrite Hn. reflexivity. }
    rewrite Hl, He. cbn [negb]. cbv iota zeta.
    eexists. eexists. split; [reflexivity|]. simpl. split; [|reflexivity].
    apply Hnil. simpl. exact Hn.
  - intros Hn He. apply Hnil in Hn. apply Z.eqb_eq in He.
    destruct (p_b p) as [fb|]; [rewrite Hn|]; rewrite He; reflexivity.
Qed.

Theorem blocked_iff cap p k :
  reachable cap p ->
  (snd (step p (ORead k)) = BBlocked <-> (pending p = [] /\ p_err p = 0 /\ p_brk p = 0)) /\
  (snd (step p (ORead k)) = BBlocked -> fst (step p (ORead k)) = p).
Proof.
  intros Hre.
  assert (Hiff : snd (step p (ORead k)) = BBlocked <-> (pending p = [] /\ p_err p = 0 /\ p_brk p = 0)).
  { split.
    - intros Hb. destruct (Z.eq_dec (p_brk p) 0) as [Hbk|Hbk].
      2:{ rewrite (break_immediate p k Hbk) in Hb. discriminate. }
      destruct (read_cases cap p k Hre Hbk) as (H1 & H2 & H3).
      destruct (pending p) as [|x l] eqn:Ep.
      + destruct (Z.eq_dec (p_err p) 0) as [He|He]; [auto|].
        destruct (H2 eq_refl He) as (p' & c & Hs & _). rewrite Hs in Hb. discriminate.
      + destruct H1 as (p' & Hs & _); [discriminate|]. rewrite Hs in Hb. discriminate.
    - intros (Hp & He & Hbk). destruct (read_cases cap p k Hre Hbk) as (_ & _ & H3).
      rewrite (H3 Hp He). reflexivity. }
  split; [exact Hiff|].
  intros Hb. apply Hiff in Hb. destruct Hb as (Hp & He & Hbk).
  destruct (read_cases cap p k Hre Hbk) as (_ & _ & H3). rewrite (H3 Hp He). reflexivity.
Qed.

(* ---------- non-vacuity witnesses ---------- *)
(* cap 4: partial read, then a write that only fits after sliding; order and content preserved *)
Definition ex_slide_ops : list op := [OWrite [1;2;3]; ORead 2; OPeek; OWrite [4;5;6]; OPeek; ORead 10; ORead 1].
Lemma ex_slide :
  snd (run_pipe 4 ex_slide_ops) =
    [BWrite 3 0; BRead 2 [1;2] 0 0; BPeek 2 3; BWrite 3 0; BPeek 0 4; BRead 4 [3;4;5;6] 0 0; BBlocked]
  /\ concat (reads (snd (run_pipe 4 ex_slide_ops))) = [1;2;3;4;5;6]
  /\ concat (accepted_writes ex_slide_ops (snd (run_pipe 4 ex_slide_ops))) = [1;2;3;4;5;6].
Proof. vm_compute. repeat split; reflexivity. Qed.

(* truncated write, close(EOF) replaced by error 2, drain, then the error; break reported at once *)
Definition ex_close_ops : list op :=
  [OWrite [1;2;3;4;5]; OCloseCode 1; OClose 2; OWrite [9]; ORead 3; ORead 3; ORead 3; OBreak 7; ORead 3].
Lemma ex_close :
  snd (run_pipe 4 ex_close_ops) =
    [BWrite 4 E_WRITE_FULL; BUnit; BUnit; BWrite 0 E_CLOSED_WRITE; BRead 3 [1;2;3] 0 0; BRead 1 [4] 0 0;
     BRead 0 [] 2 1; BUnit; BRead 0 [] 7 1].
Proof. vm_compute. reflexivity. Qed.

Lemma ex_reachable :
  exists p, reachable 4 p /\ pending p = [3] /\ p_err p = 2 /\ p_brk p = 0 /\
            match p_b p with Some b => fb_r b = 2%nat | None => False end.
Proof.
  exists (fst (run_pipe 4 [OWrite [1;2;3]; ORead 2; OClose 2])). split.
  - exists [OWrite [1;2;3]; ORead 2; OClose 2]. reflexivity.
  - vm_compute. repeat split; reflexivity.
Qed.

Lemma ex_wire :
  let i := VL [VZ 4; VZ 0; VL [VL [VZ 1; VB [1;2;3]]; VL [VZ 2; VZ 2]; VL [VZ 1; VB [4;5;6]]; VL [VZ 2; VZ 9]; VL [VZ 2; VZ 1]]] in
  wf_C21 i = true /\ kf_C21 i = 0 /\
  run_C21 i = VL [VL [VZ 1; VZ 3; VZ 0]; VL [VZ 2; VZ 2; VB [1;2]; VZ 0; VZ 0]; VL [VZ 1; VZ 3; VZ 0];
                  VL [VZ 2; VZ 4; VB [3;4;5;6]; VZ 0; VZ 0]; VL [VZ (-4)]].
Proof. vm_compute. repeat split; reflexivity. Qed.

(* the property rejects wrong observations: reordered data, duplicated data, early close error *)
Lemma ex_prop_rejects :
  let i := VL [VZ 4; VZ 0; VL [VL [VZ 1; VB [1;2;3]]; VL [VZ 3; VZ 2]; VL [VZ 2; VZ 2]; VL [VZ 2; VZ 2]]] in
  prop_C21 i (VL [VL [VZ 1; VZ 3; VZ 0]; VL []; VL [VZ 2; VZ 2; VB [1;2]; VZ 0; VZ 0]; VL [VZ 2; VZ 1; VB [3]; VZ 0; VZ 0]]) = true /\
  prop_C21 i (VL [VL [VZ 1; VZ 3; VZ 0]; VL []; VL [VZ 2; VZ 2; VB [2;1]; VZ 0; VZ 0]; VL [VZ 2; VZ 1; VB [3]; VZ 0; VZ 0]]) = false /\
  prop_C21 i (VL [VL [VZ 1; VZ 3; VZ 0]; VL []; VL [VZ 2; VZ 2; VB [1;2]; VZ 0; VZ 0]; VL [VZ 2; VZ 1; VB [2]; VZ 0; VZ 0]]) = false /\
  prop_C21 i (VL [VL [VZ 1; VZ 3; VZ 0]; VL []; VL [VZ 2; VZ 2; VB [1;2]; VZ 0; VZ 0]; VL [VZ 2; VZ 0; VB []; VZ 2; VZ 0]]) = false /\
  prop_C21 i (VL [VL [VZ 1; VZ 2; VZ 0]; VL []; VL [VZ 2; VZ 2; VB [1;2]; VZ 0; VZ 0]; VL [VZ 2; VZ 0; VB []; VZ 2; VZ 0]]) = false.
Proof. vm_compute. repeat split; reflexivity. Qed.

(* ---------- concurrent transfer: every schedule delivers exactly the written data ---------- *)
Lemma run_from_app a : forall p b,
  fst (run_from p (a ++ b)) = fst (run_from (fst (run_from p a)) b).
Proof.
  induction a as [|o a IH]; intros p b; simpl; [reflexivity|].
  destruct (step p o) as [p1 x]. specialize (IH p1 b).
  destruct (run_from p1 (a ++ b)) as [p2 y]. destruct (run_from p1 a) as [p3 z]. simpl in *. exact IH.
Qed.

Lemma reachable_step cap p o : reachable cap p -> reachable cap (fst (step p o)).
Proof.
  intros [ops H]. exists (ops ++ [o]). unfold run_pipe in *. rewrite run_from_app, H. simpl.
  destruct (step p o) as [p1 x]. reflexivity.
Qed.

Lemma write_preserves p d :
  let p' := fst (step p (OWrite d)) in
  p_err p' = p_err p /\ p_brk p' = p_brk p /\ (p_b p <> None -> p_b p' <> None).
Proof.
  simpl. unfold pipe_write. destruct (negb (p_err p =? 0)); [simpl; auto|].
  destruct (p_b p) as [fb|]; [|simpl; auto].
  destruct (fb_write fb d) as [[fb' n] e]. simpl. repeat split; auto. discriminate.
Qed.

Lemma read_preserves p k :
  let p' := fst (step p (ORead k)) in
  p_err p' = p_err p /\ p_brk p' = p_brk p /\ (p_b p <> None -> p_b p' <> None).
Proof.
  simpl. unfold pipe_read. destruct (negb (p_brk p =? 0)); [simpl; auto|].
  destruct (p_b p) as [fb|] eqn:Eb.
  - destruct (Nat.ltb 0 (fb_len fb)).
    + destruct (fb_read fb k) as [[fb' data] e]. simpl. repeat split; auto. discriminate.
    + destruct (negb (p_err p =? 0)); simpl; rewrite ?Eb; repeat split; auto; discriminate.
  - destruct (negb (p_err p =? 0)); simpl; rewrite ?Eb; repeat split; auto.
Qed.

Lemma close_eof_effect p :
  p_err p = 0 \/ p_err p = E_EOF ->
  let p' := fst (step p (OClose E_EOF)) in
  p_err p' = E_EOF /\ p_brk p' = p_brk p /\ p_b p' = p_b p.
Proof.
  intros [H|H]; simpl; unfold close_with; simpl; rewrite H; simpl; auto.
Qed.

Definition t_inv (cap : nat) (W : list (list Z)) (t : tstate) : Prop :=
  reachable cap (t_p t) /\ p_brk (t_p t) = 0 /\ p_b (t_p t) <> None /\
  concat W = t_got t ++ pending (t_p t) ++ concat (t_wq t) /\
  (p_err (t_p t) = 0 \/ (p_err (t_p t) = E_EOF /\ t_wq t = [])) /\
  (t_rerr t = 0 \/ (t_rerr t = E_EOF /\ pending (t_p t) = [] /\ t_wq t = [])).

Lemma t_inv_init cap W : t_inv cap W (t_init cap W).
Proof.
  unfold t_inv, t_init; simpl. repeat split; auto.
  - exists []. reflexivity.
  - discriminate.
Qed.

Lemma t_inv_step cap W t c : t_inv cap W t -> t_inv cap W (t_step t c).
Proof.
  intros (Hre & Hbk & Hb & Hacc & Herr & Hrd). destruct c as [|k]; unfold t_step.
  - (* writer *)
    destruct (t_wq t) as [|d rest] eqn:Ewq.
    + (* close *)
      assert (Hcl : p_err (t_p t) = 0 \/ p_err (t_p t) = E_EOF) by (destruct Herr as [H|[H _]]; auto).
      pose proof (close_eof_effect (t_p t) Hcl) as (H1 & H2 & H3).
      pose proof (reachable_step cap (t_p t) (OClose E_EOF) Hre) as Hre'.
      destruct (step (t_p t) (OClose E_EOF)) as [p' x]. simpl in *.
      assert (Hp : pending p' = pending (t_p t)) by (unfold pending; rewrite H3; reflexivity).
      unfold t_inv; simpl. rewrite Hp, H2, H3. repeat split; auto.
    + (* write *)
      assert (He0 : p_err (t_p t) = 0) by (destruct Herr as [H|[_ H]]; [exact H|discriminate]).
      destruct (write_all_or_error cap (t_p t) d Hre) as (p' & n & e & Hs & Hn & _ & _ & Hpend & _).
      pose proof (write_preserves (t_p t) d) as (H1 & H2 & H3).
      pose proof (reachable_step cap (t_p t) (OWrite d) Hre) as Hre'.
      rewrite Hs in *. simpl in H1, H2, H3, Hre'.
      unfold t_inv; simpl. rewrite H1, H2, Hpend.
      assert (Hcat : firstn n d ++ concat (if Nat.leb (length d) n then rest else skipn n d :: rest) = d ++ concat rest).
      { destruct (Nat.leb (length d) n) eqn:El.
        - apply Nat.leb_le in El. rewrite firstn_all2 by lia. reflexivity.
        - simpl. rewrite app_assoc, firstn_skipn. reflexivity. }
      repeat split; auto.
      * rewrite <- !app_assoc, Hcat. simpl in Hacc. exact Hacc.
      * destruct Hrd as [H|(_ & _ & H)]; [left; exact H|discriminate].
  - (* reader *)
    destruct (t_rerr t =? 0) eqn:Er; cbn [negb]; cbv iota.
    2:{ unfold t_inv. repeat split; auto. }
    apply Z.eqb_eq in Er.
    destruct (read_cases cap (t_p t) k Hre Hbk) as (R1 & R2 & R3).
    pose proof (read_preserves (t_p t) k) as (H1 & H2 & H3).
    pose proof (reachable_step cap (t_p t) (ORead k) Hre) as Hre'.
    destruct (pending (t_p t)) as [|x l] eqn:Ep.
    + destruct (Z.eq_dec (p_err (t_p t)) 0) as [He|He].
      * rewrite (R3 eq_refl He). unfold t_inv; simpl. rewrite Ep. repeat split; auto.
      * destruct (R2 eq_refl He) as (p' & c & Hs & Hp' & He').
        rewrite Hs in *. simpl in H1, H2, H3, Hre'.
        assert (Heof : p_err (t_p t) = E_EOF /\ t_wq t = []) by (destruct Herr as [H|H]; [contradiction|exact H]).
        destruct Heof as [Heof Hwq].
        unfold t_inv; simpl. rewrite Hp', H2, H1, app_nil_r. repeat split; auto.
    + destruct R1 as (p' & Hs & Hp' & He' & Hb'); [discriminate|].
      rewrite Hs in *. simpl in H1, H2, H3, Hre'.
      unfold t_inv; simpl. rewrite Hp', H2, H1. repeat split; auto.
      rewrite Hacc, <- !app_assoc. f_equal. rewrite app_assoc, firstn_skipn. reflexivity.
Qed.

Lemma t_inv_run cap W sch : t_inv cap W (t_run cap W sch).
Proof.
  unfold t_run. generalize (t_inv_init cap W). generalize (t_init cap W).
  induction sch as [|c sch IH]; intros t Ht; simpl; [exact Ht|].
  apply IH. apply t_inv_step. exact Ht.
Qed.

Theorem transfer_any_schedule cap W sch :
  let t := t_run cap W sch in
  is_prefix_of (t_got t) (concat W) /\
  (t_rerr t <> 0 -> t_got t = concat W /\ t_rerr t = E_EOF).
Proof.
  pose proof (t_inv_run cap W sch) as (_ & _ & _ & Hacc & _ & Hrd). cbv zeta. split.
  - eexists. exact Hacc.
  - intros Hne. destruct Hrd as [H|(H1 & H2 & H3)]; [contradiction|].
    rewrite H2, H3 in Hacc. simpl in Hacc. rewrite app_nil_r in Hacc. auto.
Qed.

(* non-vacuity: a round-robin schedule over a 2-byte pipe completes the transfer of 5 bytes *)
Lemma ex_transfer :
  let t := t_run 2 [[1;2;3]; []; [4;5]]
             [SWriter; SReader 1; SWriter; SReader 3; SReader 3; SWriter; SWriter; SReader 2; SWriter; SWriter; SReader 2; SReader 2] in
  t_got t = [1;2;3;4;5] /\ t_rerr t = E_EOF.
Proof. vm_compute. split; reflexivity. Qed.
