(* Proofs about model/Http1Write.v (C25). *)
From Coq Require Import List ZArith Bool Lia ZifyBool.
From Bfe Require Import lib.Val lib.Bytes model.Http1Req model.Http1Write proofs.Http1ReqProofs run.RunC25.
Import ListNotations.
Open Scope Z_scope.

(* ---------- bytes / lines ---------- *)
Lemma tchar_range b : is_tchar b = true -> 33 <= b <= 126 /\ b <> 58.
Proof. unfold is_tchar, is_alpha, is_digit. cbn [existsb]. lia. Qed.

Lemma forallb_impl {A} (P Q : A -> bool) l :
  (forall x, P x = true -> Q x = true) -> forallb P l = true -> forallb Q l = true.
Proof.
  intros H. induction l as [|x l IH]; simpl; [reflexivity|]. intro E. apply andb_true_iff in E. destruct E as [E1 E2].
  rewrite (H _ E1), (IH E2). reflexivity.
Qed.

Lemma split_crlf_app l r : no_crlf l = true -> split_crlf (l ++ 13 :: 10 :: r) = Some (l, r).
Proof.
  unfold no_crlf. induction l as [|x l IH]; intro H.
  - reflexivity.
  - cbn [forallb] in H. apply andb_true_iff in H. destruct H as [H1 H2].
    cbn [app split_crlf]. destruct (x =? 13) eqn:E13; [cbn in H1; discriminate|].
    destruct (x =? 10) eqn:E10; [rewrite orb_true_r in H1; discriminate|].
    rewrite (IH H2). reflexivity.
Qed.

Definition nosep (c : Z) (a : bytes) : bool := forallb (fun b => negb (b =? c)) a.
Lemma split_byte_nosep c a : nosep c a = true -> split_byte c a = [a].
Proof.
  unfold nosep. induction a as [|x a IH]; intro H; [reflexivity|].
  cbn [forallb] in H. apply andb_true_iff in H. destruct H as [H1 H2]. apply negb_true_iff in H1.
  cbn [split_byte]. rewrite (IH H2), H1. reflexivity.
Qed.
Lemma split_byte_app c a b : nosep c a = true -> split_byte c (a ++ c :: b) = a :: split_byte c b.
Proof.
  unfold nosep. induction a as [|x a IH]; intro H.
  - cbn [app split_byte]. pose proof (split_byte_nonempty c b) as Hne.
    destruct (split_byte c b); [congruence|]. rewrite Z.eqb_refl. reflexivity.
  - cbn [forallb] in H. apply andb_true_iff in H. destruct H as [H1 H2]. apply negb_true_iff in H1.
    cbn [app split_byte]. rewrite (IH H2), H1. reflexivity.
Qed.
Lemma index_byte_app c k r : nosep c k = true -> index_byte c (k ++ c :: r) = Some (length k).
Proof.
  unfold nosep. induction k as [|x k IH]; intro H.
  - cbn. rewrite Z.eqb_refl. reflexivity.
  - cbn [forallb] in H. apply andb_true_iff in H. destruct H as [H1 H2]. apply negb_true_iff in H1.
    cbn [app index_byte length]. rewrite H1, (IH H2). reflexivity.
Qed.

Lemma token_nosep c k : is_token k = true -> (c < 33 \/ c = 58 \/ 126 < c) -> nosep c k = true.
Proof.
  intros Ht Hc. unfold nosep. destruct k as [|x k]; [discriminate|]. unfold is_token in Ht.
  apply (forallb_impl is_tchar); [|exact Ht]. intros b Hb. apply tchar_range in Hb. lia.
Qed.
Lemma token_no_crlf k : is_token k = true -> no_crlf k = true.
Proof.
  intro Ht. unfold no_crlf. destruct k as [|x k]; [discriminate|]. unfold is_token in Ht.
  apply (forallb_impl is_tchar); [|exact Ht]. intros b Hb. apply tchar_range in Hb. lia.
Qed.
Lemma no_crlf_app a b : no_crlf (a ++ b) = no_crlf a && no_crlf b.
Proof. unfold no_crlf. apply forallb_app. Qed.

(* ---------- one header line, a block of header lines ---------- *)
Definition line (kv : bytes * bytes) : bytes := fst kv ++ colon_sp ++ snd kv ++ crlf.
Definition good_kv (kv : bytes * bytes) : bool := is_token (fst kv) && no_crlf (snd kv).
Definition parsed (kv : bytes * bytes) : bytes * bytes := (fst kv, trim is_space (snd kv)).

Lemma strict_field_line k v : is_token k = true -> strict_field (k ++ colon_sp ++ v) = Some (k, trim is_space v).
Proof.
  intro Ht. unfold strict_field, colon_sp. cbn [app].
  rewrite (index_byte_app 58 k (32 :: v)) by (apply token_nosep; [exact Ht|lia]).
  rewrite firstn_app, Nat.sub_diag, firstn_all. cbn [firstn]. rewrite app_nil_r, Ht.
  replace (skipn (S (length k)) (k ++ 58 :: 32 :: v)) with (32 :: v); [reflexivity|].
  clear Ht. induction k as [|x k IH]; [reflexivity|]. cbn [length app]. rewrite skipn_cons. exact IH.
Qed.

Lemma strict_fields_lines : forall L fuel acc B,
  forallb good_kv L = true -> (length L < fuel)%nat ->
  strict_fields fuel (concat (map line L) ++ 13 :: 10 :: B) acc = Some (rev acc ++ map parsed L, B).
Proof.
  induction L as [|kv L IH]; intros fuel acc B Hg Hf.
  - destruct fuel as [|f]; [inversion Hf|]. cbn. rewrite app_nil_r. reflexivity.
  - destruct fuel as [|f]; [inversion Hf|].
    cbn [forallb] in Hg. apply andb_true_iff in Hg. destruct Hg as [Hk HL].
    unfold good_kv in Hk. apply andb_true_iff in Hk. destruct Hk as [Hk Hv].
    cbn [map concat]. unfold line at 1. unfold crlf.
    replace (((fst kv ++ colon_sp ++ snd kv ++ [13; 10]) ++ concat (map line L)) ++ 13 :: 10 :: B)
      with ((fst kv ++ colon_sp ++ snd kv) ++ 13 :: 10 :: (concat (map line L) ++ 13 :: 10 :: B)).
    2:{ rewrite <- !app_assoc. reflexivity. }
    cbn [strict_fields]. rewrite split_crlf_app.
    2:{ rewrite !no_crlf_app, (token_no_crlf _ Hk), Hv. reflexivity. }
    destruct (fst kv ++ colon_sp ++ snd kv) as [|c l] eqn:El.
    { destruct (fst kv); [discriminate|discriminate]. }
    rewrite <- El, (strict_field_line _ _ Hk).
    rewrite IH; [|exact HL|simpl in Hf; lia].
    cbn [rev map]. unfold parsed at 2. rewrite <- app_assoc. reflexivity.
Qed.

(* ---------- decimal text round trip ---------- *)
Definition dval (l : bytes) (a : Z) : Z := fold_left (fun a b => a * 10 + (b - 48)) l a.
Lemma dval_acc l : forall a, dval l a = a * 10 ^ (blen l) + dval l 0.
Proof.
  unfold blen. induction l as [|d l IH]; intro a; cbn [dval fold_left length].
  - simpl. lia.
  - fold (dval l (a * 10 + (d - 48))). fold (dval l (0 * 10 + (d - 48))).
    rewrite (IH (a * 10 + (d - 48))), (IH (0 * 10 + (d - 48))).
    rewrite Nat2Z.inj_succ, Z.pow_succ_r by lia. ring.
Qed.
Lemma dec_digits_spec : forall fuel n acc,
  0 <= n < 10 ^ (Z.of_nat fuel) -> (0 < fuel)%nat -> forallb is_digit acc = true ->
  forallb is_digit (dec_digits fuel n acc) = true /\
  dval (dec_digits fuel n acc) 0 = n * 10 ^ (blen acc) + dval acc 0 /\
  dec_digits fuel n acc <> [].
Proof.
  induction fuel as [|f IH]; intros n acc Hn Hf Ha; [inversion Hf|].
  cbn [dec_digits].
  assert (Hd : is_digit (48 + n mod 10) = true).
  { unfold is_digit. pose proof (Z.mod_pos_bound n 10). lia. }
  assert (Hv : dval ((48 + n mod 10) :: acc) 0 = (n mod 10) * 10 ^ (blen acc) + dval acc 0).
  { cbn [dval fold_left]. fold (dval acc (0 * 10 + (48 + n mod 10 - 48))). rewrite dval_acc.
    replace (0 * 10 + (48 + n mod 10 - 48)) with (n mod 10) by lia. reflexivity. }
  destruct (n / 10 =? 0) eqn:E.
  - apply Z.eqb_eq in E. repeat split.
    + cbn [forallb]. rewrite Hd, Ha. reflexivity.
    + rewrite Hv. assert (Hnm : n = n mod 10) by (pose proof (Z.div_mod n 10); lia). rewrite <- Hnm. reflexivity.
    + discriminate.
  - apply Z.eqb_neq in E.
    assert (Hn' : 0 <= n / 10 < 10 ^ Z.of_nat f).
    { rewrite Nat2Z.inj_succ, Z.pow_succ_r in Hn by lia. split; [apply Z.div_pos; lia|].
      apply Z.div_lt_upper_bound; lia. }
    assert (Hf' : (0 < f)%nat).
    { destruct f; [|lia]. simpl in Hn'. assert (n / 10 = 0) by lia. congruence. }
    destruct (IH (n / 10) ((48 + n mod 10) :: acc) Hn' Hf') as [I1 [I2 I3]].
    { cbn [forallb]. rewrite Hd, Ha. reflexivity. }
    repeat split; [exact I1| |exact I3].
    rewrite I2, Hv. unfold blen. cbn [length]. rewrite Nat2Z.inj_succ, Z.pow_succ_r by lia.
    assert (Hdm : n = 10 * (n / 10) + n mod 10) by (apply Z.div_mod; lia).
    set (q := n / 10) in *. set (m := n mod 10) in *. set (p := 10 ^ Z.of_nat (length acc)).
    replace (n * p) with ((10 * q + m) * p) by (rewrite <- Hdm; reflexivity). ring.
Qed.
Lemma parse_dec_dec_of_Z n : 0 <= n < 10 ^ 80 ->
  parse_dec (dec_of_Z n) = Some n /\ forallb is_digit (dec_of_Z n) = true.
Proof.
  intro Hn. unfold dec_of_Z. destruct (n <? 0) eqn:E; [lia|].
  destruct (dec_digits_spec 80 n [] ltac:(simpl; lia) ltac:(lia) eq_refl) as [H1 [H2 H3]].
  split; [|exact H1]. unfold parse_dec. destruct (dec_digits 80 n []) as [|z0 l0] eqn:Ed; [congruence|].
  rewrite H1. f_equal. change (dval (z0 :: l0) 0 = n). rewrite H2. cbn. lia.
Qed.

Lemma trim_left_head f x r : f x = false -> trim_left f (x :: r) = x :: r.
Proof. intro H. cbn. rewrite H. reflexivity. Qed.
Lemma trim_id f l : forallb (fun b => negb (f b)) l = true -> trim f l = l.
Proof.
  intro H. unfold trim, trim_right.
  assert (H1 : trim_left f l = l).
  { destruct l as [|x r]; [reflexivity|]. cbn [forallb] in H. apply andb_true_iff in H. destruct H as [H _].
    apply negb_true_iff in H. apply trim_left_head. exact H. }
  rewrite H1.
  assert (H2 : forallb (fun b => negb (f b)) (rev l) = true).
  { apply forallb_forall. intros x Hx. apply in_rev in Hx. revert x Hx. apply forallb_forall. exact H. }
  destruct (rev l) as [|x r] eqn:Er.
  - cbn. destruct l; [reflexivity|]. apply (f_equal (@length Z)) in Er. rewrite rev_length in Er. discriminate.
  - cbn [forallb] in H2. apply andb_true_iff in H2. destruct H2 as [H2 _]. apply negb_true_iff in H2.
    rewrite (trim_left_head _ _ _ H2). rewrite <- Er. apply rev_involutive.
Qed.
Lemma digits_trim l : forallb is_digit l = true -> trim is_space l = l.
Proof.
  intro H. apply trim_id. apply (forallb_impl is_digit); [|exact H].
  intros b Hb. unfold is_digit, is_space in *. lia.
Qed.

(* ---------- hexadecimal chunk-size round trip ---------- *)
Definition hexv (b : Z) : Z := match hex_val b with Some d => d | None => 0 end.
Definition ishex (b : Z) : bool := match hex_val b with Some _ => true | None => false end.
Definition hv (l : bytes) (a : Z) : Z := fold_left (fun a b => a * 16 + hexv b) l a.
Lemma parse_hex_ok l : forall a, forallb ishex l = true -> parse_hex l a = Some (hv l a).
Proof.
  induction l as [|b l IH]; intros a H; [reflexivity|].
  cbn [forallb] in H. apply andb_true_iff in H. destruct H as [H1 H2].
  cbn [parse_hex hv fold_left]. unfold ishex in H1. unfold hexv. destruct (hex_val b) as [d|]; [|discriminate].
  apply IH. exact H2.
Qed.
Lemma hv_acc l : forall a, hv l a = a * 16 ^ (blen l) + hv l 0.
Proof.
  unfold blen. induction l as [|d l IH]; intro a; cbn [hv fold_left length].
  - simpl. lia.
  - fold (hv l (a * 16 + hexv d)). fold (hv l (0 * 16 + hexv d)).
    rewrite (IH (a * 16 + hexv d)), (IH (0 * 16 + hexv d)).
    rewrite Nat2Z.inj_succ, Z.pow_succ_r by lia. ring.
Qed.
Lemma hex_digit_ok d : 0 <= d < 16 -> ishex (hex_digit d) = true /\ hexv (hex_digit d) = d /\ hex_digit d <> 13 /\ hex_digit d <> 10.
Proof.
  intro H. unfold ishex, hexv, hex_val, hex_digit, is_digit.
  destruct (d <? 10) eqn:E.
  - replace ((48 <=? 48 + d) && (48 + d <=? 57)) with true by lia. repeat split; lia.
  - replace ((48 <=? 87 + d) && (87 + d <=? 57)) with false by lia.
    replace ((97 <=? 87 + d) && (87 + d <=? 102)) with true by lia. repeat split; lia.
Qed.
Lemma hex_digits_spec : forall fuel n acc (k : nat),
  0 <= n < 16 ^ (Z.of_nat k) -> (0 < k <= fuel)%nat -> forallb ishex acc = true -> no_crlf acc = true ->
  forallb ishex (hex_digits fuel n acc) = true /\ hv (hex_digits fuel n acc) 0 = n * 16 ^ (blen acc) + hv acc 0 /\ hex_digits fuel n acc <> [] /\ (length (hex_digits fuel n acc) <= length acc + k)%nat /\ no_crlf (hex_digits fuel n acc) = true.
Proof.
  induction fuel as [|f IH]; intros n acc k Hn Hk Ha Hc; [lia|].
  cbn [hex_digits].
  assert (Hm : 0 <= n mod 16 < 16) by (apply Z.mod_pos_bound; lia).
  destruct (hex_digit_ok _ Hm) as [D1 [D2 [D3 D4]]].
  assert (Hv : hv (hex_digit (n mod 16) :: acc) 0 = (n mod 16) * 16 ^ (blen acc) + hv acc 0).
  { cbn [hv fold_left]. fold (hv acc (0 * 16 + hexv (hex_digit (n mod 16)))). rewrite hv_acc, D2.
    replace (0 * 16 + n mod 16) with (n mod 16) by lia. reflexivity. }
  assert (Hc' : no_crlf (hex_digit (n mod 16) :: acc) = true).
  { unfold no_crlf in *. cbn [forallb]. rewrite Hc, andb_true_r.
    apply negb_true_iff. apply orb_false_iff. split; apply Z.eqb_neq; assumption. }
  destruct (n / 16 =? 0) eqn:E.
  - apply Z.eqb_eq in E. repeat split.
    + cbn [forallb]. rewrite D1, Ha. reflexivity.
    + rewrite Hv. assert (Hnm : n = n mod 16) by (pose proof (Z.div_mod n 16); lia). rewrite <- Hnm. reflexivity.
    + discriminate.
    + cbn [length]. lia.
    + exact Hc'.
  - apply Z.eqb_neq in E.
    destruct k as [|k']; [lia|].
    assert (Hn' : 0 <= n / 16 < 16 ^ Z.of_nat k').
    { rewrite Nat2Z.inj_succ, Z.pow_succ_r in Hn by lia. split; [apply Z.div_pos; lia|].
      apply Z.div_lt_upper_bound; lia. }
    assert (Hk' : (0 < k' <= f)%nat).
    { split; [|lia]. destruct k'; [|lia]. simpl in Hn'. assert (n / 16 = 0) by lia. congruence. }
    destruct (IH (n / 16) (hex_digit (n mod 16) :: acc) k' Hn' Hk') as [I1 [I2 [I3 [I4 I5]]]].
    { cbn [forallb]. rewrite D1, Ha. reflexivity. }
    { exact Hc'. }
    repeat split; [exact I1| |exact I3| |exact I5].
    + rewrite I2, Hv. unfold blen. cbn [length]. rewrite Nat2Z.inj_succ, Z.pow_succ_r by lia.
      assert (Hdm : n = 16 * (n / 16) + n mod 16) by (apply Z.div_mod; lia).
      set (q := n / 16) in *. set (m := n mod 16) in *. set (p := 16 ^ Z.of_nat (length acc)).
      replace (n * p) with ((16 * q + m) * p) by (rewrite <- Hdm; reflexivity). ring.
    + cbn [length] in I4. lia.
Qed.
Lemma parse_hex_line_hex_of_Z n : 0 <= n < 16 ^ 16 ->
  parse_hex_line (hex_of_Z n) = Some n /\ no_crlf (hex_of_Z n) = true.
Proof.
  intro Hn. unfold hex_of_Z.
  destruct (hex_digits_spec 20 n [] 16 ltac:(simpl; lia) ltac:(lia) eq_refl eq_refl) as [H1 [H2 [H3 [H4 H5]]]].
  split; [|exact H5]. unfold parse_hex_line.
  destruct (hex_digits 20 n []) as [|z0 l0] eqn:Ed; [congruence|].
  cbn [length] in H4.
  replace (length (z0 :: l0) <=? 16)%nat with true by (symmetry; apply Nat.leb_le; cbn [length]; lia).
  rewrite (parse_hex_ok _ 0 H1), H2. cbn. f_equal. lia.
Qed.

(* strict chunk parser on what chunkedWriter produced *)
Lemma skipn_app_len {A} (a b : list A) : skipn (length a) (a ++ b) = b.
Proof. induction a as [|x a IH]; [reflexivity|]. cbn [length app]. rewrite skipn_cons. exact IH. Qed.
Lemma firstn_app_len {A} (a b : list A) : firstn (length a) (a ++ b) = a.
Proof. induction a as [|x a IH]; [reflexivity|]. cbn [length app firstn]. rewrite IH. reflexivity. Qed.
Definition nonempty (d : bytes) : bool := match d with [] => false | _ => true end.
Lemma nonempty_written cs : (length (filter nonempty cs) <= length (concat (map write_chunk cs)))%nat.
Proof.
  induction cs as [|d cs IH]; [cbn; lia|]. destruct d as [|d0 d']; [exact IH|].
  cbn [filter nonempty length map concat].
  change (write_chunk (d0 :: d')) with (hex_of_Z (blen (d0 :: d')) ++ [13; 10] ++ (d0 :: d') ++ [13; 10]).
  rewrite !app_length. cbn [length]. lia.
Qed.
Lemma strict_chunks_written : forall cs fuel acc,
  forallb (fun d => blen d <? 16 ^ 16) cs = true -> (length (filter nonempty cs) < fuel)%nat ->
  strict_chunks fuel (concat (map write_chunk cs) ++ [48; 13; 10; 13; 10]) acc = Some (acc ++ concat cs, []).
Proof.
  induction cs as [|d cs IH]; intros fuel acc Hb Hf.
  - destruct fuel as [|f]; [inversion Hf|]. cbn. rewrite app_nil_r. reflexivity.
  - cbn [forallb] in Hb. apply andb_true_iff in Hb. destruct Hb as [Hd Hcs].
    destruct d as [|d0 d'].
    + cbn [map concat write_chunk app]. rewrite IH; [reflexivity|exact Hcs|exact Hf].
    + destruct fuel as [|f]; [inversion Hf|].
      set (d := d0 :: d') in *.
      assert (Hn : 0 <= blen d < 16 ^ 16) by (unfold blen in *; lia).
      destruct (parse_hex_line_hex_of_Z _ Hn) as [Hp Hc].
      cbn [map concat]. change (write_chunk d) with (hex_of_Z (blen d) ++ [13; 10] ++ d ++ [13; 10]).
      replace (((hex_of_Z (blen d) ++ [13; 10] ++ d ++ [13; 10]) ++ concat (map write_chunk cs)) ++ [48; 13; 10; 13; 10])
        with (hex_of_Z (blen d) ++ 13 :: 10 :: (d ++ 13 :: 10 :: (concat (map write_chunk cs) ++ [48; 13; 10; 13; 10]))).
      2:{ rewrite <- !app_assoc. reflexivity. }
      cbn [strict_chunks]. rewrite (split_crlf_app _ _ Hc), Hp.
      replace (blen d =? 0) with false by (unfold blen, d; cbn [length]; lia).
      replace (blen (d ++ 13 :: 10 :: concat (map write_chunk cs) ++ [48; 13; 10; 13; 10]) <? blen d) with false.
      2:{ unfold blen. rewrite app_length. lia. }
      unfold blen. rewrite Nat2Z.id, skipn_app_len, firstn_app_len.
      rewrite IH; [|exact Hcs|unfold d in Hf; cbn [filter nonempty length] in Hf; lia].
      cbn [concat]. rewrite <- app_assoc. reflexivity.
Qed.

(* ---------- sorting keeps the elements ---------- *)
Lemma forallb_insert (P : bytes * bytes -> bool) kv l :
  forallb P (insert_field kv l) = P kv && forallb P l.
Proof.
  induction l as [|x l IH]; cbn [insert_field forallb]; [reflexivity|].
  destruct (bytes_ltb (fst x) (fst kv)); cbn [forallb]; [rewrite IH|reflexivity].
  destruct (P x), (P kv); reflexivity.
Qed.
Lemma forallb_sort (P : bytes * bytes -> bool) l : forallb P (sort_fields l) = forallb P l.
Proof.
  unfold sort_fields. induction l as [|x l IH]; cbn [fold_right forallb]; [reflexivity|].
  rewrite forallb_insert, IH. reflexivity.
Qed.
Lemma forallb_filter_both {A} (P Q : A -> bool) l :
  forallb P l = true -> forallb (fun x => P x && Q x) (filter Q l) = true.
Proof.
  induction l as [|x l IH]; cbn [filter forallb]; [reflexivity|]. intro H. apply andb_true_iff in H. destruct H as [H1 H2].
  destruct (Q x) eqn:E; [cbn [forallb]; rewrite H1, E, (IH H2); reflexivity|exact (IH H2)].
Qed.

(* ---------- the written bytes: shape ---------- *)
Definition frl (r : wreq) : fields :=
  match w_body r with
  | WChunked _ => [(s_te, s_chunked)]
  | WLen n _ => [(s_cl, dec_of_Z n)]
  | WNone => match get_first s_cl (w_fields r) with [] => [] | _ => [(s_cl, [48])] end
  end.
Definition fw (r : wreq) : fields :=
  map (fun kv => (fst kv, sanitize_value (snd kv))) (forwarded_fields (w_fields r)).
Definition body_bytes (r : wreq) : bytes :=
  match w_body r with
  | WChunked cs => concat (map write_chunk cs) ++ [48; 13; 10; 13; 10]
  | WLen _ d => d
  | WNone => []
  end.
Lemma concat_lines_fw r : concat (map line (fw r)) = write_subset (w_fields r).
Proof.
  unfold fw, write_subset. rewrite map_map. f_equal.
Qed.
Lemma write_shape r : w_method r <> [] ->
  write_request r =
  (w_method r ++ 32 :: w_ruri r ++ 32 :: s_http11) ++ 13 :: 10 ::
  concat (map line ((s_host, w_host r) :: frl r ++ fw r)) ++ 13 :: 10 :: body_bytes r.
Proof.
  intro Hm. unfold write_request. destruct (w_method r) as [|m0 m] eqn:Em; [congruence|].
  cbn [map concat]. rewrite map_app, concat_app, concat_lines_fw.
  unfold frl, body_bytes, line. cbn [fst snd].
  destruct (w_body r) as [|n d|cs]; [destruct (get_first s_cl (w_fields r))| |];
    cbn [map concat]; unfold s_http11_line, s_host_colon, s_cl_colon, s_te_chunked_line, s_http11, s_host, colon_sp, crlf;
    repeat rewrite <- app_assoc; cbn [app]; repeat rewrite <- app_assoc; reflexivity.
Qed.

(* ---------- well-formed accepted requests ---------- *)
Definition canon_ok (kv : bytes * bytes) : bool := bytes_eqb (canon_key (fst kv)) (fst kv).
Definition body_ok : wbody -> bool := body_wf.
Definition wf_wreq (r : wreq) : bool := forallb canon_ok (w_fields r) && body_ok (w_body r).

Lemma sanitize_no_crlf v : no_crlf (sanitize_value v) = true.
Proof.
  unfold sanitize_value, trim4, trim, trim_right.
  assert (Hm : forall l, no_crlf l = true -> forall f, no_crlf (trim_left f l) = true).
  { intros l. induction l as [|x l IH]; intros H f; [reflexivity|]. cbn [trim_left].
    destruct (f x); [|exact H]. apply IH. unfold no_crlf in *. cbn [forallb] in H. apply andb_true_iff in H. apply H. }
  assert (Hr : forall l, no_crlf l = true -> no_crlf (rev l) = true).
  { intros l H. unfold no_crlf in *. apply forallb_forall. intros x Hx. apply in_rev in Hx. revert x Hx. apply forallb_forall. exact H. }
  apply Hr, Hm, Hr, Hm.
  unfold no_crlf. induction v as [|b v IH]; [reflexivity|]. cbn [map forallb]. rewrite IH, andb_true_r.
  destruct ((b =? 10) || (b =? 13)) eqn:E; [reflexivity|]. apply orb_false_iff in E. destruct E as [E1 E2].
  rewrite E1, E2. reflexivity.
Qed.

Lemma get_all_canon K l :
  get_all K (canon_fields l) = map snd (filter (fun kv => bytes_eqb (canon_key (fst kv)) K) l).
Proof.
  unfold get_all, canon_fields, key_is. induction l as [|kv l IH]; cbn [map filter fst snd]; [reflexivity|].
  destruct (bytes_eqb (canon_key (fst kv)) K); cbn [map snd]; rewrite IH; reflexivity.
Qed.

Definition fwd_ok (kv : bytes * bytes) : bool := canon_ok kv && negb (write_excluded (fst kv)).
Lemma fwd_ok_not_key K kv : fwd_ok kv = true ->
  (K = s_host \/ K = s_cl \/ K = s_te) -> bytes_eqb (canon_key (fst kv)) K = false.
Proof.
  unfold fwd_ok, canon_ok, write_excluded. intros H HK. apply andb_true_iff in H. destruct H as [H1 H2].
  apply bytes_eqb_eq in H1. rewrite H1. apply negb_true_iff in H2.
  apply orb_false_iff in H2. destruct H2 as [H2 _]. apply orb_false_iff in H2. destruct H2 as [H2 H4].
  apply orb_false_iff in H2. destruct H2 as [H2 H3].
  destruct HK as [->|[->| ->]]; assumption.
Qed.
Lemma fwd_ok_not_framing kv : fwd_ok kv = true -> strict_framing_key (fst kv) = false.
Proof.
  intro H. unfold strict_framing_key.
  rewrite (fwd_ok_not_key s_host _ H), (fwd_ok_not_key s_cl _ H), (fwd_ok_not_key s_te _ H); auto.
Qed.
Lemma forwarded_fwd_ok h : forallb canon_ok h = true -> forallb fwd_ok (forwarded_fields h) = true.
Proof.
  intro H. unfold forwarded_fields. rewrite forallb_sort. unfold fwd_ok.
  apply (forallb_filter_both canon_ok (fun kv => negb (write_excluded (fst kv)))). exact H.
Qed.
Lemma forallb_map_fst (P : bytes * bytes -> bool) (g : bytes * bytes -> bytes * bytes) l :
  (forall kv, P (g kv) = P kv) -> forallb P (map g l) = forallb P l.
Proof. intro H. induction l as [|x l IH]; cbn [map forallb]; [reflexivity|]. rewrite H, IH. reflexivity. Qed.
Lemma filter_none {A} (P : A -> bool) l : forallb (fun x => negb (P x)) l = true -> filter P l = [].
Proof.
  induction l as [|x l IH]; cbn [forallb filter]; [reflexivity|]. intro H. apply andb_true_iff in H. destruct H as [H1 H2].
  apply negb_true_iff in H1. rewrite H1. exact (IH H2).
Qed.
Lemma filter_all {A} (P : A -> bool) l : forallb P l = true -> filter P l = l.
Proof.
  induction l as [|x l IH]; cbn [forallb filter]; [reflexivity|]. intro H. apply andb_true_iff in H. destruct H as [H1 H2].
  rewrite H1, (IH H2). reflexivity.
Qed.

(* parsed forwarded lines: no Host / Content-Length / Transfer-Encoding among them, all kept as "other" fields *)
Lemma pfw_props r : forallb canon_ok (w_fields r) = true ->
  forallb fwd_ok (map parsed (fw r)) = true.
Proof.
  intro H. unfold fw. rewrite !forallb_map_fst; [apply forwarded_fwd_ok; exact H| |]; intros kv; reflexivity.
Qed.
Lemma fwd_get_none K l : forallb fwd_ok l = true -> (K = s_host \/ K = s_cl \/ K = s_te) ->
  filter (fun kv => bytes_eqb (canon_key (fst kv)) K) l = [].
Proof.
  intros H HK. apply filter_none. apply (forallb_impl fwd_ok); [|exact H].
  intros kv Hkv. rewrite (fwd_ok_not_key K kv Hkv HK). reflexivity.
Qed.
Lemma fwd_others l : forallb fwd_ok l = true ->
  filter (fun kv => negb (strict_framing_key (fst kv))) l = l.
Proof.
  intro H. apply filter_all. apply (forallb_impl fwd_ok); [|exact H].
  intros kv Hkv. rewrite (fwd_ok_not_framing kv Hkv). reflexivity.
Qed.

Lemma good_fw r : forallb (fun kv => is_token (fst kv)) (forwarded_fields (w_fields r)) = true ->
  forallb good_kv (fw r) = true.
Proof.
  intro H. unfold fw. induction (forwarded_fields (w_fields r)) as [|kv l IH]; [reflexivity|].
  cbn [forallb] in H. apply andb_true_iff in H. destruct H as [H1 H2].
  cbn [map forallb]. unfold good_kv at 1. cbn [fst snd]. rewrite H1, sanitize_no_crlf, (IH H2). reflexivity.
Qed.

(* ---------- headline ---------- *)
Theorem C25_one_wellformed_request_lemma : forall r,
  safe_request r = true -> wf_wreq r = true ->
  strict_parse (write_request r) = Some (normalize r).
Proof.
  intros r Hs Hw. unfold safe_request, unsafe_component in Hs.
  destruct (is_token (w_method r)) eqn:Hm; cbn [negb] in Hs; [|discriminate].
  destruct (target_ok (w_ruri r)) eqn:Ht; cbn [negb] in Hs; [|discriminate].
  destruct (no_crlf (w_host r)) eqn:Hh; cbn [negb] in Hs; [|discriminate].
  destruct (forallb (fun kv => is_token (fst kv)) (forwarded_fields (w_fields r))) eqn:Hn; cbn [negb] in Hs; [|discriminate].
  clear Hs. unfold wf_wreq in Hw. apply andb_true_iff in Hw. destruct Hw as [Hc Hb].
  assert (Hmne : w_method r <> []) by (destruct (w_method r); [discriminate|discriminate]).
  rewrite (write_shape r Hmne). unfold strict_parse.
  (* request line *)
  assert (Htn : nosep 32 (w_ruri r) = true /\ no_crlf (w_ruri r) = true).
  { unfold target_ok in Ht. destruct (w_ruri r) as [|t0 t]; [discriminate|]. split.
    - unfold nosep. apply (forallb_impl target_byte_ok); [|exact Ht]. intros b Hb0. unfold target_byte_ok in Hb0. lia.
    - unfold no_crlf. apply (forallb_impl target_byte_ok); [|exact Ht]. intros b Hb0. unfold target_byte_ok in Hb0. lia. }
  destruct Htn as [Htn Htc].
  rewrite split_crlf_app.
  2:{ rewrite no_crlf_app, (token_no_crlf _ Hm). cbn [andb]. change (32 :: w_ruri r ++ 32 :: s_http11) with ([32] ++ w_ruri r ++ 32 :: s_http11).
      rewrite !no_crlf_app, Htc. reflexivity. }
  unfold strict_reqline.
  rewrite (split_byte_app 32 (w_method r)) by (apply token_nosep; [exact Hm|lia]).
  rewrite (split_byte_app 32 (w_ruri r)) by exact Htn.
  rewrite (split_byte_nosep 32 s_http11) by reflexivity.
  rewrite Hm, Ht, bytes_eqb_refl. cbn [andb].
  (* header block *)
  set (L := (s_host, w_host r) :: frl r ++ fw r).
  assert (HgL : forallb good_kv L = true).
  { assert (G1 : good_kv (s_host, w_host r) = true).
    { unfold good_kv. cbn [fst snd]. rewrite Hh. reflexivity. }
    assert (G2 : forallb good_kv (frl r) = true).
    { unfold frl. destruct (w_body r) as [|n d|cs]; [destruct (get_first s_cl (w_fields r)); reflexivity| |reflexivity].
      cbn [body_ok body_wf] in Hb. assert (Hn80 : 0 <= n < 10 ^ 80) by lia.
      destruct (parse_dec_dec_of_Z n Hn80) as [_ Hd].
      assert (Hnc : no_crlf (dec_of_Z n) = true).
      { unfold no_crlf. apply (forallb_impl is_digit); [|exact Hd]. intros b Hb0. unfold is_digit in Hb0. lia. }
      cbn [forallb]. unfold good_kv. cbn [fst snd]. rewrite Hnc. reflexivity. }
    unfold L. cbn [forallb]. rewrite forallb_app, G1, G2, (good_fw r Hn). reflexivity. }
  rewrite (strict_fields_lines L _ [] (body_bytes r) HgL).
  2:{ assert (forall M, (length M <= length (concat (map line M)))%nat) as Hlen.
      { induction M as [|kv M IHM]; [cbn; lia|]. cbn [map concat length]. rewrite app_length. unfold line at 1.
        rewrite !app_length. unfold crlf. cbn [length]. lia. }
      specialize (Hlen L). rewrite app_length. lia. }
  cbn [rev app].
  (* Host / framing / other fields *)
  pose proof (pfw_props r Hc) as Hp.
  assert (Hsplit : map parsed L = parsed (s_host, w_host r) :: map parsed (frl r) ++ map parsed (fw r)).
  { unfold L. cbn [map]. rewrite map_app. reflexivity. }
  rewrite Hsplit. clear Hsplit.
  rewrite !get_all_canon.
  change (parsed (s_host, w_host r)) with (s_host, trim is_space (w_host r)).
  cbn [filter fst].
  change (bytes_eqb (canon_key s_host) s_host) with true.
  change (bytes_eqb (canon_key s_host) s_te) with false.
  change (bytes_eqb (canon_key s_host) s_cl) with false.
  change (strict_framing_key s_host) with true. cbn [negb].
  rewrite !filter_app.
  rewrite (fwd_get_none s_host _ Hp), (fwd_get_none s_cl _ Hp), (fwd_get_none s_te _ Hp), (fwd_others _ Hp); auto.
  rewrite !app_nil_r.
  unfold frl, body_bytes, normalize, body_of. unfold fw. rewrite map_map.
  destruct (w_body r) as [|n d|cs].
  - destruct (get_first s_cl (w_fields r)); reflexivity.
  - cbn [body_ok body_wf] in Hb. assert (Hn80 : 0 <= n < 10 ^ 80) by lia.
    destruct (parse_dec_dec_of_Z n Hn80) as [Hpd Hd].
    cbn [map filter parsed fst snd].
    replace (bytes_eqb (canon_key s_cl) s_host) with false by reflexivity.
    replace (bytes_eqb (canon_key s_cl) s_te) with false by reflexivity.
    replace (bytes_eqb (canon_key s_cl) s_cl) with true by reflexivity.
    replace (strict_framing_key s_cl) with true by reflexivity.
    cbn [map snd app negb]. change (snd (parsed (s_cl, dec_of_Z n))) with (trim is_space (dec_of_Z n)).
    rewrite (digits_trim _ Hd), Hpd.
    replace (blen d =? n) with true by lia. reflexivity.
  - cbn [body_ok body_wf] in Hb.
    cbn [map filter parsed fst snd].
    change (bytes_eqb (canon_key s_te) s_host) with false.
    change (bytes_eqb (canon_key s_te) s_te) with true.
    change (bytes_eqb (canon_key s_te) s_cl) with false.
    change (strict_framing_key s_te) with true.
    cbn [map snd app negb].
    change (snd (parsed (s_te, s_chunked))) with s_chunked.
    change (bytes_eqb s_chunked s_chunked) with true. cbv iota.
    rewrite strict_chunks_written; [reflexivity|exact Hb|].
    pose proof (nonempty_written cs). rewrite app_length. lia.
Qed.

(* ---------- the same through the wire predicates ---------- *)
Lemma sreq_eqb_refl a : sreq_eqb a a = true.
Proof. unfold sreq_eqb. rewrite !bytes_eqb_refl, fields_eqb_refl. reflexivity. Qed.
Theorem C25_prop_of_model_lemma : forall i r,
  accepted i = inr r -> safe_request r = true -> wf_wreq r = true ->
  prop_C25 i (run_C25 i) = true.
Proof.
  intros i r Ha Hs Hw. unfold run_C25. rewrite Ha, Hs. unfold prop_C25, is_scenario, not_modelled. rewrite Ha.
  cbn [orb]. cbv beta iota. change (0 =? 0) with true. cbv iota.
  rewrite (C25_one_wellformed_request_lemma r Hs Hw). apply sreq_eqb_refl.
Qed.

(* ---------- former refutation witnesses ---------- *)
Definition h1_in (s : bytes) : val := VL [VZ 1; VB s].
Definition fl_in (tag : Z) (ps : fields) : val := VL [VZ tag; VL (map (fun kv => VL [VB (fst kv); VB (snd kv)]) ps)].
Definition b_get : bytes := [71;69;84].
Definition b_slash : bytes := [47].
Definition b_https : bytes := [104;116;116;112;115].
Definition b_ahost : bytes := [97;46;101;120].                       (* a.ex *)
Definition b_ver : bytes := [72;84;84;80;47;49;46;49].
Definition b_evil_line : bytes := [13;10;69;118;105;108;58;32;49]. (* \r\nEvil: 1 *)
Definition h2_base (m p : bytes) : fields := [(p_method, m); (p_path, p); (p_scheme, b_https); (p_authority, b_ahost)].
Definition spdy_base (m p h : bytes) (extra : fields) : fields :=
  [(p_method, m); (p_path, p); (p_scheme, b_https); (p_host, h); (p_version, b_ver)] ++ extra.
Definition w11 : val := h1_in ([71;40;84;32;47;32] ++ b_ver ++ [13;10;72;111;115;116;58;32;97;13;10;13;10]).
Definition w13 : val := h1_in (b_get ++ [32;47;32] ++ b_ver ++ [13;10;72;111;115;116;58;32;97;13;98;13;10;13;10]).
Definition w14 : val := h1_in (b_get ++ [32;47;32] ++ b_ver ++ [13;10;88;32;65;58;32;49;13;10;13;10]).
Definition w21 : val := fl_in 2 (h2_base (b_get ++ [32;47;120]) b_slash).
Definition w22 : val := fl_in 2 (h2_base b_get [47;97;32;98]).
Definition w31 : val := fl_in 3 (spdy_base (b_get ++ b_evil_line) b_slash b_ahost []).
Definition w32 : val := fl_in 3 (spdy_base b_get [47;97;32;98] b_ahost []).
Definition w33 : val := fl_in 3 (spdy_base b_get b_slash (b_ahost ++ b_evil_line) []).
Definition w34 : val := fl_in 3 (spdy_base b_get b_slash b_ahost [([120;13;10;101;118;105;108;58;32;49], [118])]).
(* after the repairs nothing is written for any of them: the HTTP/1 reader rejects the non-token method and
   name (code 1); Request.write refuses the others (code 2) *)
Definition refused (i : val) (code : Z) : Prop :=
  run_C25 i = VL [VZ code; VB []] /\ prop_C25 i (run_C25 i) = true.
Lemma C25_fixed_lemma :
  refused w11 1 /\ refused w13 2 /\ refused w14 1 /\ refused w21 2 /\ refused w22 2 /\
  refused w31 2 /\ refused w32 2 /\ refused w33 2 /\ refused w34 2.
Proof. repeat split; vm_compute; reflexivity. Qed.
(* in general: an accepted request that is not safe is refused by Request.write *)
Lemma C25_unsafe_refused_lemma : forall i r,
  accepted i = inr r -> safe_request r = false -> run_C25 i = VL [VZ 2; VB []].
Proof. intros i r Ha Hs. unfold run_C25. rewrite Ha, Hs. reflexivity. Qed.

(* non-vacuity: one safe, well-formed accepted request per frontend; HTTP/1 one carries a 3-byte body *)
(* "POST /p HTTP/1.1\r\nHost: a\r\nX-B: a\rb\r\nContent-Length: 3\r\n\r\nabc" *)
Definition ok1 : val := h1_in ([80;79;83;84;32;47;112;32] ++ b_ver ++ [13;10;72;111;115;116;58;32;97;13;10;88;45;66;58;32;97;13;98;13;10] ++
                               s_cl ++ [58;32;51;13;10;13;10;97;98;99]).
Definition s_cookie_lc : bytes := [99;111;111;107;105;101].
Definition ok2 : val := fl_in 2 (h2_base b_get b_slash ++ [([120;45;97], [118;9;119]); (s_cookie_lc, [97]); (s_cookie_lc, [98])]).
Definition ok3 : val := fl_in 3 (spdy_base b_get b_slash b_ahost [([120;45;97], [97;13;10;69;118;105;108;58;32;49;0;98])]).
(* "POST /p HTTP/1.1\r\nHost: a\r\nTransfer-Encoding: chunked\r\n\r\n3\r\nabc\r\nA \r\n0123456789\r\n0\r\nX-T: 1\r\n\r\n" *)
Definition ok4 : val := h1_in ([80;79;83;84;32;47;112;32] ++ b_ver ++ [13;10;72;111;115;116;58;32;97;13;10] ++ s_te ++ [58;32] ++ s_chunked ++
  [13;10;13;10;51;13;10;97;98;99;13;10;65;32;13;10;48;49;50;51;52;53;54;55;56;57;13;10;48;13;10;88;45;84;58;32;49;13;10;13;10]).
Definition nonvac (i : val) : Prop :=
  exists r, accepted i = inr r /\ safe_request r = true /\ wf_wreq r = true /\ prop_C25 i (run_C25 i) = true.
Lemma C25_nonvacuous_lemma : nonvac ok1 /\ nonvac ok2 /\ nonvac ok3 /\ nonvac ok4.
Proof. repeat split; eexists; (split; [vm_compute; reflexivity|]); repeat split; vm_compute; reflexivity. Qed.

(* ---------- every frontend stores header keys in canonical form (premise canon_ok of wf_wreq) ---------- *)
Definition cstep (u : bool) (c : Z) : Z :=
  if u && (97 <=? c) && (c <=? 122) then c - 32
  else if negb u && (65 <=? c) && (c <=? 90) then c + 32 else c.
Lemma canon_go_cons u c r : canon_go u (c :: r) = cstep u c :: canon_go (cstep u c =? 45) r.
Proof. reflexivity. Qed.
Lemma cstep_tchar u c : is_tchar c = true -> is_tchar (cstep u c) = true.
Proof.
  unfold cstep. destruct u; cbn [andb negb].
  - destruct ((97 <=? c) && (c <=? 122)) eqn:E; [|auto]. intros _. unfold is_tchar, is_alpha. lia.
  - destruct ((65 <=? c) && (c <=? 90)) eqn:E; [|auto]. intros _. unfold is_tchar, is_alpha. lia.
Qed.
Lemma cstep_idem u c : cstep u (cstep u c) = cstep u c.
Proof.
  unfold cstep. destruct u; cbn [andb negb].
  - destruct ((97 <=? c) && (c <=? 122)) eqn:E; [|rewrite E; reflexivity].
    replace ((97 <=? c - 32) && (c - 32 <=? 122)) with false by lia. reflexivity.
  - destruct ((65 <=? c) && (c <=? 90)) eqn:E; [|rewrite E; reflexivity].
    replace ((65 <=? c + 32) && (c + 32 <=? 90)) with false by lia. reflexivity.
Qed.
Lemma canon_go_tchar a : forall u, forallb is_tchar a = true -> forallb is_tchar (canon_go u a) = true.
Proof.
  induction a as [|c r IH]; intros u H; [reflexivity|]. rewrite canon_go_cons.
  cbn [forallb] in *. apply andb_true_iff in H. destruct H as [H1 H2]. rewrite (cstep_tchar u c H1), (IH _ H2). reflexivity.
Qed.
Lemma canon_go_idem a : forall u, canon_go u (canon_go u a) = canon_go u a.
Proof.
  induction a as [|c r IH]; intro u; [reflexivity|]. rewrite !canon_go_cons, cstep_idem, IH. reflexivity.
Qed.
Lemma canon_key_idem a : canon_key (canon_key a) = canon_key a.
Proof.
  unfold canon_key. destruct (forallb is_tchar a) eqn:E.
  - rewrite (canon_go_tchar a true E). apply canon_go_idem.
  - rewrite E. reflexivity.
Qed.
Lemma canon_ok_canon k v : canon_ok (canon_key k, v) = true.
Proof. unfold canon_ok. cbn [fst]. rewrite canon_key_idem. apply bytes_eqb_refl. Qed.

Lemma canon_ok_filter (P : bytes * bytes -> bool) l : forallb canon_ok l = true -> forallb canon_ok (filter P l) = true.
Proof.
  induction l as [|x l IH]; cbn [filter forallb]; [reflexivity|]. intro H. apply andb_true_iff in H. destruct H as [H1 H2].
  destruct (P x); [cbn [forallb]; rewrite H1, (IH H2); reflexivity|exact (IH H2)].
Qed.
Lemma canon_ok_set_first k v : canon_ok (k, v) = true -> forall h seen,
  forallb canon_ok h = true -> forallb canon_ok (set_first k v seen h) = true.
Proof.
  intros Hk h. induction h as [|x h IH]; intros seen H; [reflexivity|].
  cbn [forallb] in H. apply andb_true_iff in H. destruct H as [H1 H2]. cbn [set_first].
  destruct (key_is k x); [destruct seen; [apply IH; exact H2|cbn [forallb]; rewrite Hk, (IH _ H2); reflexivity]|].
  cbn [forallb]. rewrite H1, (IH _ H2). reflexivity.
Qed.
Lemma canon_ok_canon_fields fs : forallb canon_ok (canon_fields fs) = true.
Proof. unfold canon_fields. induction fs as [|x fs IH]; [reflexivity|]. cbn [map forallb]. rewrite canon_ok_canon, IH. reflexivity. Qed.
Lemma canon_ok_merge h : forallb canon_ok h = true -> forallb canon_ok (merge_cookies h) = true.
Proof.
  intro H. unfold merge_cookies. destruct (get_all s_cookie h) as [|a [|b l]]; try exact H.
  apply canon_ok_set_first; [reflexivity|exact H].
Qed.
Lemma canon_ok_del_expect h : forallb canon_ok h = true -> forallb canon_ok (del_expect h) = true.
Proof. intro H. unfold del_expect. destruct (bytes_eqb _ _); [apply canon_ok_filter; exact H|exact H]. Qed.

Lemma match03 {T : Type} (z a b : Z) (X r : T) :
  match z with 0 => inl a | 3 => inl b | _ => inr X end = inr r -> X = r.
Proof.
  destruct z as [|p|p]; [discriminate| |intro H; inversion H; reflexivity].
  destruct p as [[p'|p'|]|p'|]; intro H; try discriminate; inversion H; reflexivity.
Qed.
Lemma h2_canonical fs r : front_h2 fs = inr r -> forallb canon_ok (w_fields r) = true.
Proof.
  unfold front_h2. destruct (negb _); [discriminate|].
  destruct (bytes_eqb _ s_connect).
  { destruct (pseudo_value p_path fs); [|discriminate]. destruct (pseudo_value p_scheme fs); [|discriminate].
    destruct (pseudo_value p_authority fs); [discriminate|]. intro H. inversion H. cbn [w_fields].
    apply canon_ok_filter, canon_ok_merge, canon_ok_del_expect, canon_ok_canon_fields. }
  destruct (_ || _ || _); [discriminate|].
  intro H. apply match03 in H. subst r. cbn [w_fields].
  apply canon_ok_filter, canon_ok_merge, canon_ok_del_expect, canon_ok_canon_fields.
Qed.

Lemma canon_ok_values k l : forallb canon_ok (map (fun x : bytes => (canon_key k, x)) l) = true.
Proof. induction l as [|x l IH]; [reflexivity|]. cbn [map forallb]. rewrite canon_ok_canon, IH. reflexivity. Qed.
Lemma spdy_block_canonical : forall ps seen h, spdy_block seen ps = Some h -> forallb canon_ok h = true.
Proof.
  induction ps as [|[n v] ps IH]; intros seen h H; cbn [spdy_block] in H.
  - inversion H. reflexivity.
  - destruct (has_upper n || (uni_scan n =? 1) || existsb (bytes_eqb n) seen); [discriminate|].
    destruct (spdy_block (canon_key n :: seen) ps) as [fs|] eqn:E; [|discriminate]. inversion H; subst h.
    rewrite forallb_app, (IH _ _ E), andb_true_r. apply canon_ok_values.
Qed.
Lemma spdy_canonical ps r : front_spdy ps = inr r -> forallb canon_ok (w_fields r) = true.
Proof.
  unfold front_spdy.
  match goal with |- (if ?c then _ else _) = _ -> _ => destruct c; [discriminate|] end.
  destruct (spdy_block [] ps) as [h|] eqn:E; [|discriminate].
  pose proof (spdy_block_canonical _ _ _ E) as Hh.
  match goal with |- (if ?c then _ else _) = _ -> _ => destruct c; [discriminate|] end.
  match goal with |- (if ?c then _ else _) = _ -> _ => destruct c; [discriminate|] end.
  intro H. apply match03 in H. subst r. cbn [w_fields].
  rewrite forallb_app. apply andb_true_iff. split; [|reflexivity].
  repeat apply canon_ok_filter. apply canon_ok_merge, canon_ok_del_expect. exact Hh.
Qed.

Lemma collect_bfe_canonical : forall ls fs, collect_fields bfe_field ls = Some fs -> forallb canon_ok fs = true.
Proof.
  induction ls as [|l ls IH]; intros fs H; cbn [collect_fields] in H.
  - inversion H. reflexivity.
  - unfold bfe_field in H at 1. destruct (line_key l) as [k|]; [|discriminate].
    destruct (canon_key k) as [|z0 l0] eqn:Ek.
    + apply IH. exact H.
    + destruct (collect_fields bfe_field ls) as [fs'|]; [|discriminate]. inversion H.
      cbn [forallb]. rewrite <- Ek, canon_ok_canon, (IH _ eq_refl). reflexivity.
Qed.
Lemma validate_fields V hd m : validate V hd = inr m -> collect_fields (v_field V) (h_lines hd) = Some (r_fields m).
Proof.
  unfold validate. destruct (parse_request_line (h_reqline hd)) as [[[me t] p]|]; [|discriminate].
  destruct (negb (v_method V me)); [discriminate|]. destruct (max_uri <? blen t); [discriminate|].
  destruct (negb (v_version V p)); [discriminate|].
  destruct (target_class me t =? 0); [discriminate|]. destruct (target_class me t =? 3); [discriminate|].
  destruct (h_leadws hd); [discriminate|].
  destruct (collect_fields (v_field V) (h_lines hd)) as [fs|]; [|discriminate].
  destruct (negb (h_complete hd)); [discriminate|]. destruct (negb (v_names V fs)); [discriminate|].
  destruct (v_frame V fs) as [c|fr]; [discriminate|].
  intro H. inversion H. reflexivity.
Qed.
Lemma canon_ok_dedupe f : forall seen h, forallb canon_ok h = true -> forallb canon_ok (dedupe_cl f seen h) = true.
Proof.
  intros seen h. revert seen. induction h as [|x h IH]; intros seen H; [reflexivity|].
  cbn [forallb] in H. apply andb_true_iff in H. destruct H as [H1 H2]. cbn [dedupe_cl].
  destruct (key_is s_cl x); [destruct seen; [apply IH; exact H2|cbn [forallb]; rewrite (IH _ H2); reflexivity]|].
  cbn [forallb]. rewrite H1, (IH _ H2). reflexivity.
Qed.
Lemma final_canonical h fr : forallb canon_ok h = true -> forallb canon_ok (bfe_final_fields h fr) = true.
Proof.
  intro H. unfold bfe_final_fields.
  set (h1 := del_key s_host h).
  assert (E1 : forallb canon_ok h1 = true) by (apply canon_ok_filter; exact H).
  set (h2 := if has_key s_pragma h1 && bytes_eqb (get_first s_pragma h1) s_nocache && negb (has_key s_cc h1)
             then h1 ++ [(s_cc, s_nocache)] else h1).
  assert (E2 : forallb canon_ok h2 = true).
  { unfold h2. destruct (has_key s_pragma h1 && bytes_eqb (get_first s_pragma h1) s_nocache && negb (has_key s_cc h1)); [|exact E1].
    rewrite forallb_app, E1. reflexivity. }
  set (h3 := del_key s_te h2).
  assert (E3 : forallb canon_ok h3 = true) by (apply canon_ok_filter; exact E2).
  match goal with |- forallb canon_ok (match get_first s_trailer ?h4 with _ => _ end) = _ =>
    assert (E4 : forallb canon_ok h4 = true) end.
  { destruct fr as [n|].
    - destruct (get_all s_cl h3) as [|a [|b l]]; try exact E3. apply canon_ok_dedupe. exact E3.
    - apply canon_ok_filter. exact E3. }
  match goal with |- forallb canon_ok (match ?x with _ => _ end) = _ => destruct x end;
    [exact E4|apply canon_ok_filter; exact E4].
Qed.
Lemma inl_match98 {T : Type} (c : Z) (r : T) : match c with 98 => @inl Z T 98 | _ => inl 1 end = inr r -> False.
Proof.
  destruct c as [|p|p]; try discriminate.
  do 7 (destruct p as [p|p|]; try discriminate).
Qed.
Lemma h1_canonical s r : front_http1 s = inr r -> forallb canon_ok (w_fields r) = true.
Proof.
  unfold front_http1. destruct (read_head s) as [hd|]; [|discriminate].
  destruct (validate V_bfe hd) as [c|m] eqn:Ev.
  { intro H. exfalso. exact (inl_match98 c r H). }
  pose proof (validate_fields _ _ _ Ev) as Hf. cbn [v_field V_bfe] in Hf.
  pose proof (final_canonical _ (r_framing m) (collect_bfe_canonical _ _ Hf)) as Hc.
  destruct (h1_ruri (r_method m) (r_target m)); [|discriminate].
  destruct (r_framing m) as [n|].
  - destruct (n =? 0); [intro H; inversion H; exact Hc|].
    destruct (blen (h_rest hd) <? n); [discriminate|]. intro H; inversion H; exact Hc.
  - destruct (read_chunk_list _ _ _); [|discriminate]. intro H; inversion H; exact Hc.
Qed.
Lemma attach_canonical h2 t r body r' : attach_body h2 t r body = inr r' ->
  forallb canon_ok (w_fields r) = true -> forallb canon_ok (w_fields r') = true.
Proof.
  unfold attach_body. destruct body as [b|]; [|intro H; inversion H; auto].
  destruct (bytes_eqb (w_method r) s_head); [discriminate|].
  assert (Hc : forall cs, (if h2 && t then inl 98 else inr (set_body r (WChunked cs))) = inr r' ->
               forallb canon_ok (w_fields r) = true -> forallb canon_ok (w_fields r') = true).
  { intros cs. destruct (h2 && t); [discriminate|]. intro H; inversion H; auto. }
  destruct (get_all s_cl (w_fields r)) as [|v l]; [apply Hc|].
  destruct (go_parse_int v) as [n err].
  destruct (negb h2 && (err || (n <? 0))); [discriminate|].
  destruct (n <? 0); [apply Hc|].
  destruct (n =? 0); [destruct b; [intro H; inversion H; auto|apply Hc]|].
  destruct (n =? blen b); [intro H; inversion H; auto|discriminate].
Qed.
Lemma h2b_canonical fs body r : front_h2b fs body = inr r -> forallb canon_ok (w_fields r) = true.
Proof.
  unfold front_h2b. destruct (front_h2 fs) as [c|r0] eqn:E; [discriminate|].
  intro H. apply (attach_canonical _ _ _ _ _ H). apply (h2_canonical _ _ E).
Qed.
Lemma spdyb_canonical ps body r : front_spdyb ps body = inr r -> forallb canon_ok (w_fields r) = true.
Proof.
  unfold front_spdyb. destruct (front_spdy ps) as [c|r0] eqn:E; [discriminate|].
  intro H. apply (attach_canonical _ _ _ _ _ H). apply (spdy_canonical _ _ E).
Qed.
Theorem frontends_canonical i r : accepted i = inr r -> forallb canon_ok (w_fields r) = true.
Proof.
  intro H. unfold accepted in H.
  repeat match type of H with
         | match ?x with _ => _ end = _ => destruct x; try discriminate
         end;
    first [exact (h1_canonical _ _ H) | exact (h2b_canonical _ _ _ H) | exact (spdyb_canonical _ _ _ H)].
Qed.

Theorem C25_central_lemma : forall i,
  wf_C25 i = true -> kf_C25 i = 0 -> prop_C25 i (run_C25 i) = true.
Proof.
  intros i Hw _. unfold wf_C25 in Hw. destruct (accepted i) as [c|r] eqn:Ha.
  - unfold run_C25, prop_C25, is_scenario, not_modelled. rewrite Ha. apply negb_true_iff in Hw. rewrite Hw. cbn [andb].
    destruct (c =? 98); [reflexivity|]. cbn [orb]. destruct (c =? 2); reflexivity.
  - destruct (safe_request r) eqn:Hs.
    + apply (C25_prop_of_model_lemma i r Ha Hs). unfold wf_wreq. rewrite (frontends_canonical i r Ha). exact Hw.
    + rewrite (C25_unsafe_refused_lemma i r Ha Hs). unfold prop_C25, is_scenario, not_modelled. rewrite Ha. reflexivity.
Qed.

Lemma C25_wf_examples_lemma : wf_C25 ok1 = true /\ wf_C25 ok2 = true /\ wf_C25 ok3 = true /\ wf_C25 ok4 = true /\ wf_C25 w31 = true.
Proof. repeat split; vm_compute; reflexivity. Qed.

(* ---------- transport level (several requests over kept-alive backend connections) ---------- *)
Definition mk_step (m p : bytes) (n : Z) (d : bytes) (early close err : bool) : tstep :=
  {| t_method := m; t_path := p; t_declared := n; t_delivered := d; t_early := early; t_respclose := close; t_bodyerr := err |}.
Definition b_post : bytes := [80;79;83;84].
(* the scenario of seeded/C25-r4: POST /first declares 10 bytes, the backend answers early, the body ends
   after "abcd"; then GET /second *)
Definition sc_demo : list tstep :=
  [mk_step b_post [47;102;105;114;115;116] 10 [97;98;99;100] true false false;
   mk_step b_get [47;115;101;99;111;110;100] 0 [] false false false].
(* the model never re-uses the connection of the failed write: two connections, both streams acceptable *)
Lemma C25_transport_demo_lemma :
  length (run_transport sc_demo [] false) = 2%nat /\
  forallb (fun s => seq_ok (S (length s)) s) (run_transport sc_demo [] false) = true.
Proof. split; vm_compute; reflexivity. Qed.
(* what a transport that re-used the connection would produce (first request's header block and buffered
   "abcd", then the second request) is rejected by the predicate: it is not a sequence of requests *)
Definition spliced_demo : bytes :=
  write_request (step_req (mk_step b_post [47;102;105;114;115;116] 10 [] true false false) [97;98;99;100]) ++
  write_request (step_req (mk_step b_get [47;115;101;99;111;110;100] 0 [] false false false) []).
Lemma C25_transport_splice_rejected_lemma : seq_ok (S (length spliced_demo)) spliced_demo = false.
Proof. vm_compute. reflexivity. Qed.
(* three requests, complete bodies, keep-alive: one connection carrying three complete requests *)
Definition sc_keepalive : list tstep :=
  [mk_step b_post [47;97] 3 [120;121;122] true false false;
   mk_step b_get [47;98] 0 [] false false false;
   mk_step b_post [47;99] 2 [49;50] false false false].
Lemma C25_transport_keepalive_lemma :
  length (run_transport sc_keepalive [] false) = 1%nat /\
  forallb (fun s => seq_ok (S (length s)) s) (run_transport sc_keepalive [] false) = true.
Proof. split; vm_compute; reflexivity. Qed.

(* General (all scenarios): a backend connection that is not usable any more -- its last exchange failed,
   was cut short or carried "Connection: close" -- never receives another byte, whatever follows. *)
Lemma run_transport_shape : forall steps conns last cur,
  exists last' more, run_transport steps (conns ++ [last]) cur = conns ++ [last'] ++ more /\
                     (cur = false -> last' = last).
Proof.
  induction steps as [|st r IH]; intros conns last cur; cbn [run_transport].
  - exists last, []. split; [reflexivity|auto].
  - destruct cur.
    + rewrite rev_app_distr. cbn [rev app]. rewrite rev_involutive.
      destruct (IH conns (last ++ step_bytes st) (step_keeps st)) as [l' [more [E _]]].
      exists l', more. split; [exact E|discriminate].
    + destruct (IH (conns ++ [last]) (step_bytes st) (step_keeps st)) as [l' [more [E _]]].
      exists last, ([l'] ++ more). split; [|reflexivity].
      rewrite E. rewrite <- !app_assoc. reflexivity.
Qed.
Theorem C25_transport_no_reuse_lemma : forall steps conns last,
  exists more, run_transport steps (conns ++ [last]) false = conns ++ [last] ++ more.
Proof.
  intros. destruct (run_transport_shape steps conns last false) as [l' [more [E H]]].
  exists more. rewrite E, (H eq_refl). reflexivity.
Qed.
(* ... and a connection is kept usable only by a step whose complete request was written (declared length
   = delivered length, no body error, no "Connection: close"), i.e. whose bytes are write_request of a
   request with a well-formed body -- to which C25_one_wellformed_request applies. *)
Theorem C25_transport_kept_is_complete_lemma : forall st, step_keeps st = true ->
  step_bytes st = write_request (step_req st (t_delivered st)) /\
  body_wf (w_body (step_req st (t_delivered st))) = true \/ t_declared st = 0 \/ 10 ^ 80 <= t_declared st.
Proof.
  intros st H. unfold step_keeps in H. apply andb_true_iff in H. destruct H as [Hok Hc].
  apply negb_true_iff in Hc. unfold step_bytes. rewrite Hok, Hc, andb_false_r. cbn [negb andb].
  unfold step_ok in Hok. apply andb_true_iff in Hok. destruct Hok as [Hl _]. apply Z.eqb_eq in Hl.
  destruct (t_declared st =? 0) eqn:E0; [right; left; apply Z.eqb_eq; exact E0|].
  destruct (t_declared st <? 10 ^ 80) eqn:E80; [|right; right; apply Z.ltb_ge; exact E80].
  left. split; [reflexivity|]. unfold step_req. cbn [w_body]. rewrite E0. cbn [body_wf].
  rewrite E80, Hl, Z.eqb_refl.
  assert (H0 : (0 <? t_declared st) = true).
  { apply Z.ltb_lt. pose proof (Zle_0_nat (length (t_delivered st))). apply Z.eqb_neq in E0. unfold blen in Hl. lia. }
  rewrite H0. reflexivity.
Qed.
