From Coq Require Import List ZArith Bool Lia.
From Bfe Require Import lib.Val lib.Bytes model.Http1Req model.Http1Write run.RunC25.
Import ListNotations.
Open Scope Z_scope.

Lemma placeholder_c25 : kf_C25 (VZ 0) = 0.
Proof. reflexivity. Qed.
