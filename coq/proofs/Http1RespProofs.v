(* Proofs about the C27 model (Http1Resp.v / RunC27.v). *)
From Coq Require Import List ZArith Bool Lia.
From Bfe Require Import lib.Val lib.Bytes model.Http1Resp run.RunC27.
Import ListNotations.
Open Scope Z_scope.

(* the exchange as the pre-fix code performed it *)
Definition old_exchange (c : c27in) : bytes :=
  let '(h, pieces, err) := response_of c in
  let '(out, close, _) := respond_old (i_q c) (false, false, false) (negb (i_src c =? 0)) (i_status c) h pieces err in
  out ++ (if close then [] else probe_bytes).
Definition old_exchange_of (i : val) : bytes :=
  match dec_C27 i with Some c => old_exchange c | None => [] end.

Definition witness_204 : val :=
  VL [VZ 1; VZ 0; VB []; VZ 0; VZ 204; VL [VL [VB s_cl; VB [53]]]; VZ 0; VZ 0; VL [VB [104;101;108;108;111]]; VZ 0].

Lemma old_bodyless_refuted :
  exists i, dec_C27 i <> None /\
    prop_C27 i (VB (old_exchange_of i)) = false /\ prop_C27 i (run_C27 i) = true.
Proof. exists witness_204. split; [discriminate|]. split; vm_compute; reflexivity. Qed.
