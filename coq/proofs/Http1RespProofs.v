(* Proofs about the C27 model (Http1Resp.v / RunC27.v). *)
From Coq Require Import List ZArith Bool Lia ZifyBool.
From Bfe Require Import lib.Val lib.Bytes model.Http1Resp run.RunC27.
Import ListNotations.
Open Scope Z_scope.

(* ---------- bytes / lines (adapted from the request-side proofs of C25) ---------- *)
Definition no_crlf (l : bytes) : bool := forallb (fun b => negb ((b =? 13) || (b =? 10))) l.
Lemma tchar_range b : is_tchar b = true -> 33 <= b <= 126 /\ b <> 58.
Proof. unfold is_tchar, is_digit. cbn [existsb]. lia. Qed.
Lemma forallb_impl {A} (P Q : A -> bool) l :
  (forall x, P x = true -> Q x = true) -> forallb P l = true -> forallb Q l = true.
Proof.
  intros H. induction l as [|x l IH]; simpl; [reflexivity|]. intro E. apply andb_true_iff in E. destruct E as [E1 E2].
  rewrite (H _ E1), (IH E2). reflexivity.
Qed.
Lemma split_crlf_app l r : no_crlf l = true -> split_crlf (l ++ 13 :: 10 :: r) = Some (l, r).
Proof.
  unfold no_crlf. induction l as [|x l IH]; intro H.
  - reflexivity.
  - cbn [forallb] in H. apply andb_true_iff in H. destruct H as [H1 H2].
    cbn [app split_crlf]. destruct (x =? 13) eqn:E13; [cbn in H1; discriminate|].
    destruct (x =? 10) eqn:E10; [rewrite orb_true_r in H1; discriminate|].
    rewrite (IH H2). reflexivity.
Qed.
Definition nosep (c : Z) (a : bytes) : bool := forallb (fun b => negb (b =? c)) a.
Lemma index_byte_app c k r : nosep c k = true -> index_byte c (k ++ c :: r) = Some (length k).
Proof.
  unfold nosep. induction k as [|x k IH]; intro H.
  - cbn. rewrite Z.eqb_refl. reflexivity.
  - cbn [forallb] in H. apply andb_true_iff in H. destruct H as [H1 H2]. apply negb_true_iff in H1.
    cbn [app index_byte length]. rewrite H1, (IH H2). reflexivity.
Qed.
Lemma token_nosep c k : is_token k = true -> (c < 33 \/ c = 58 \/ 126 < c) -> nosep c k = true.
Proof.
  intros Ht Hc. unfold nosep. destruct k as [|x k]; [discriminate|]. unfold is_token in Ht.
  apply (forallb_impl is_tchar); [|exact Ht]. intros b Hb. apply tchar_range in Hb. lia.
Qed.
Lemma token_no_crlf k : is_token k = true -> no_crlf k = true.
Proof.
  intro Ht. unfold no_crlf. destruct k as [|x k]; [discriminate|]. unfold is_token in Ht.
  apply (forallb_impl is_tchar); [|exact Ht]. intros b Hb. apply tchar_range in Hb. lia.
Qed.
Lemma no_crlf_app a b : no_crlf (a ++ b) = no_crlf a && no_crlf b.
Proof. unfold no_crlf. apply forallb_app. Qed.

(* ---------- one header line, a block of header lines ---------- *)
Definition line (kv : bytes * bytes) : bytes := fst kv ++ colon_sp ++ snd kv ++ crlf.
Definition good_kv (kv : bytes * bytes) : bool := is_token (fst kv) && no_crlf (snd kv).
Definition parsed (kv : bytes * bytes) : bytes * bytes := (fst kv, trim is_space (snd kv)).
Lemma strict_field_line k v : is_token k = true -> strict_field (k ++ colon_sp ++ v) = Some (k, trim is_space v).
Proof.
  intro Ht. unfold strict_field, colon_sp. cbn [app].
  rewrite (index_byte_app 58 k (32 :: v)) by (apply token_nosep; [exact Ht|lia]).
  rewrite firstn_app, Nat.sub_diag, firstn_all. cbn [firstn]. rewrite app_nil_r, Ht.
  replace (skipn (S (length k)) (k ++ 58 :: 32 :: v)) with (32 :: v); [reflexivity|].
  clear Ht. induction k as [|x k IH]; [reflexivity|]. cbn [length app]. rewrite skipn_cons. exact IH.
Qed.
Lemma strict_fields_lines : forall L fuel acc B,
  forallb good_kv L = true -> (length L < fuel)%nat ->
  strict_fields fuel (concat (map line L) ++ 13 :: 10 :: B) acc = Some (rev acc ++ map parsed L, B).
Proof.
  induction L as [|kv L IH]; intros fuel acc B Hg Hf.
  - destruct fuel as [|f]; [inversion Hf|]. cbn. rewrite app_nil_r. reflexivity.
  - destruct fuel as [|f]; [inversion Hf|].
    cbn [forallb] in Hg. apply andb_true_iff in Hg. destruct Hg as [Hk HL].
    unfold good_kv in Hk. apply andb_true_iff in Hk. destruct Hk as [Hk Hv].
    cbn [map concat]. unfold line at 1. unfold crlf.
    replace (((fst kv ++ colon_sp ++ snd kv ++ [13; 10]) ++ concat (map line L)) ++ 13 :: 10 :: B)
      with ((fst kv ++ colon_sp ++ snd kv) ++ 13 :: 10 :: (concat (map line L) ++ 13 :: 10 :: B)).
    2:{ rewrite <- !app_assoc. reflexivity. }
    cbn [strict_fields]. rewrite split_crlf_app.
    2:{ rewrite !no_crlf_app, (token_no_crlf _ Hk), Hv. reflexivity. }
    destruct (fst kv ++ colon_sp ++ snd kv) as [|c l] eqn:El.
    { destruct (fst kv); [discriminate|discriminate]. }
    rewrite <- El, (strict_field_line _ _ Hk).
    rewrite IH; [|exact HL|simpl in Hf; lia].
    cbn [rev map]. unfold parsed at 2. rewrite <- app_assoc. reflexivity.
Qed.

(* ---------- decimal text round trip ---------- *)
Definition dval (l : bytes) (a : Z) : Z := fold_left (fun a b => a * 10 + (b - 48)) l a.
Lemma dval_acc l : forall a, dval l a = a * 10 ^ (blen l) + dval l 0.
Proof.
  unfold blen. induction l as [|d l IH]; intro a; cbn [dval fold_left length].
  - simpl. lia.
  - fold (dval l (a * 10 + (d - 48))). fold (dval l (0 * 10 + (d - 48))).
    rewrite (IH (a * 10 + (d - 48))), (IH (0 * 10 + (d - 48))).
    rewrite Nat2Z.inj_succ, Z.pow_succ_r by lia. ring.
Qed.
Lemma dec_digits_spec : forall fuel n acc,
  0 <= n < 10 ^ (Z.of_nat fuel) -> (0 < fuel)%nat -> forallb is_digit acc = true ->
  forallb is_digit (dec_digits fuel n acc) = true /\
  dval (dec_digits fuel n acc) 0 = n * 10 ^ (blen acc) + dval acc 0 /\
  dec_digits fuel n acc <> [].
Proof.
  induction fuel as [|f IH]; intros n acc Hn Hf Ha; [inversion Hf|].
  cbn [dec_digits].
  assert (Hd : is_digit (48 + n mod 10) = true).
  { unfold is_digit. pose proof (Z.mod_pos_bound n 10). lia. }
  assert (Hv : dval ((48 + n mod 10) :: acc) 0 = (n mod 10) * 10 ^ (blen acc) + dval acc 0).
  { cbn [dval fold_left]. fold (dval acc (0 * 10 + (48 + n mod 10 - 48))). rewrite dval_acc.
    replace (0 * 10 + (48 + n mod 10 - 48)) with (n mod 10) by lia. reflexivity. }
  destruct (n / 10 =? 0) eqn:E.
  - apply Z.eqb_eq in E. repeat split.
    + cbn [forallb]. rewrite Hd, Ha. reflexivity.
    + rewrite Hv. assert (Hnm : n = n mod 10) by (pose proof (Z.div_mod n 10); lia). rewrite <- Hnm. reflexivity.
    + discriminate.
  - apply Z.eqb_neq in E.
    assert (Hn' : 0 <= n / 10 < 10 ^ Z.of_nat f).
    { rewrite Nat2Z.inj_succ, Z.pow_succ_r in Hn by lia. split; [apply Z.div_pos; lia|].
      apply Z.div_lt_upper_bound; lia. }
    assert (Hf' : (0 < f)%nat).
    { destruct f; [|lia]. simpl in Hn'. assert (n / 10 = 0) by lia. congruence. }
    destruct (IH (n / 10) ((48 + n mod 10) :: acc) Hn' Hf') as [I1 [I2 I3]].
    { cbn [forallb]. rewrite Hd, Ha. reflexivity. }
    repeat split; [exact I1| |exact I3].
    rewrite I2, Hv. unfold blen. cbn [length]. rewrite Nat2Z.inj_succ, Z.pow_succ_r by lia.
    assert (Hdm : n = 10 * (n / 10) + n mod 10) by (apply Z.div_mod; lia).
    set (q := n / 10) in *. set (m := n mod 10) in *. set (p := 10 ^ Z.of_nat (length acc)).
    replace (n * p) with ((10 * q + m) * p) by (rewrite <- Hdm; reflexivity). ring.
Qed.
Lemma parse_dec_dec_of_Z n : 0 <= n < 10 ^ 80 ->
  parse_dec (dec_of_Z n) = Some n /\ forallb is_digit (dec_of_Z n) = true.
Proof.
  intro Hn. unfold dec_of_Z. destruct (n <? 0) eqn:E; [lia|].
  destruct (dec_digits_spec 80 n [] ltac:(simpl; lia) ltac:(lia) eq_refl) as [H1 [H2 H3]].
  split; [|exact H1]. unfold parse_dec. destruct (dec_digits 80 n []) as [|z0 l0] eqn:Ed; [congruence|].
  rewrite H1. f_equal. change (dval (z0 :: l0) 0 = n). rewrite H2. cbn. lia.
Qed.
Lemma trim_left_head f x r : f x = false -> trim_left f (x :: r) = x :: r.
Proof. intro H. cbn. rewrite H. reflexivity. Qed.
Lemma trim_id f l : forallb (fun b => negb (f b)) l = true -> trim f l = l.
Proof.
  intro H. unfold trim, trim_right.
  assert (H1 : trim_left f l = l).
  { destruct l as [|x r]; [reflexivity|]. cbn [forallb] in H. apply andb_true_iff in H. destruct H as [H _].
    apply negb_true_iff in H. apply trim_left_head. exact H. }
  rewrite H1.
  assert (H2 : forallb (fun b => negb (f b)) (rev l) = true).
  { apply forallb_forall. intros x Hx. apply in_rev in Hx. revert x Hx. apply forallb_forall. exact H. }
  destruct (rev l) as [|x r] eqn:Er.
  - cbn. destruct l; [reflexivity|]. apply (f_equal (@length Z)) in Er. rewrite rev_length in Er. discriminate.
  - cbn [forallb] in H2. apply andb_true_iff in H2. destruct H2 as [H2 _]. apply negb_true_iff in H2.
    rewrite (trim_left_head _ _ _ H2). rewrite <- Er. apply rev_involutive.
Qed.
Lemma digits_trim f l : (forall b, is_digit b = true -> f b = false) -> forallb is_digit l = true -> trim f l = l.
Proof.
  intros Hf H. apply trim_id. apply (forallb_impl is_digit); [|exact H].
  intros b Hb. rewrite (Hf b Hb). reflexivity.
Qed.

(* ---------- hexadecimal chunk-size round trip ---------- *)
Definition hv (l : bytes) (a : Z) : Z := fold_left (fun a b => a * 16 + hexv b) l a.
Lemma hv_acc l : forall a, hv l a = a * 16 ^ (blen l) + hv l 0.
Proof.
  unfold blen. induction l as [|d l IH]; intro a; cbn [hv fold_left length].
  - simpl. lia.
  - fold (hv l (a * 16 + hexv d)). fold (hv l (0 * 16 + hexv d)).
    rewrite (IH (a * 16 + hexv d)), (IH (0 * 16 + hexv d)).
    rewrite Nat2Z.inj_succ, Z.pow_succ_r by lia. ring.
Qed.
Lemma hex_digit_ok d : 0 <= d < 16 -> ishex (hex_digit d) = true /\ hexv (hex_digit d) = d /\ hex_digit d <> 13 /\ hex_digit d <> 10.
Proof.
  intro H. unfold ishex, hexv, hex_digit, is_digit. destruct (d <? 10) eqn:E.
  - replace (48 + d <=? 57) with true by lia. repeat split; lia.
  - replace (87 + d <=? 57) with false by lia. replace (87 + d <=? 70) with false by lia. repeat split; lia.
Qed.
Lemma hex_digits_spec : forall fuel n acc (k : nat),
  0 <= n < 16 ^ (Z.of_nat k) -> (0 < k <= fuel)%nat -> forallb ishex acc = true -> no_crlf acc = true ->
  forallb ishex (hex_digits fuel n acc) = true /\ hv (hex_digits fuel n acc) 0 = n * 16 ^ (blen acc) + hv acc 0 /\ hex_digits fuel n acc <> [] /\ (length (hex_digits fuel n acc) <= length acc + k)%nat /\ no_crlf (hex_digits fuel n acc) = true.
Proof.
  induction fuel as [|f IH]; intros n acc k Hn Hk Ha Hc; [lia|].
  cbn [hex_digits].
  assert (Hm : 0 <= n mod 16 < 16) by (apply Z.mod_pos_bound; lia).
  destruct (hex_digit_ok _ Hm) as [D1 [D2 [D3 D4]]].
  assert (Hv : hv (hex_digit (n mod 16) :: acc) 0 = (n mod 16) * 16 ^ (blen acc) + hv acc 0).
  { cbn [hv fold_left]. fold (hv acc (0 * 16 + hexv (hex_digit (n mod 16)))). rewrite hv_acc, D2.
    replace (0 * 16 + n mod 16) with (n mod 16) by lia. reflexivity. }
  assert (Hc' : no_crlf (hex_digit (n mod 16) :: acc) = true).
  { unfold no_crlf in *. cbn [forallb]. rewrite Hc, andb_true_r.
    apply negb_true_iff. apply orb_false_iff. split; apply Z.eqb_neq; assumption. }
  destruct (n / 16 =? 0) eqn:E.
  - apply Z.eqb_eq in E. repeat split.
    + cbn [forallb]. rewrite D1, Ha. reflexivity.
    + rewrite Hv. assert (Hnm : n = n mod 16) by (pose proof (Z.div_mod n 16); lia). rewrite <- Hnm. reflexivity.
    + discriminate.
    + cbn [length]. lia.
    + exact Hc'.
  - apply Z.eqb_neq in E.
    destruct k as [|k']; [lia|].
    assert (Hn' : 0 <= n / 16 < 16 ^ Z.of_nat k').
    { rewrite Nat2Z.inj_succ, Z.pow_succ_r in Hn by lia. split; [apply Z.div_pos; lia|].
      apply Z.div_lt_upper_bound; lia. }
    assert (Hk' : (0 < k' <= f)%nat).
    { split; [|lia]. destruct k'; [|lia]. simpl in Hn'. assert (n / 16 = 0) by lia. congruence. }
    destruct (IH (n / 16) (hex_digit (n mod 16) :: acc) k' Hn' Hk') as [I1 [I2 [I3 [I4 I5]]]].
    { cbn [forallb]. rewrite D1, Ha. reflexivity. }
    { exact Hc'. }
    repeat split; [exact I1| |exact I3| |exact I5].
    + rewrite I2, Hv. unfold blen. cbn [length]. rewrite Nat2Z.inj_succ, Z.pow_succ_r by lia.
      assert (Hdm : n = 16 * (n / 16) + n mod 16) by (apply Z.div_mod; lia).
      set (q := n / 16) in *. set (m := n mod 16) in *. set (p := 16 ^ Z.of_nat (length acc)).
      replace (n * p) with ((16 * q + m) * p) by (rewrite <- Hdm; reflexivity). ring.
    + cbn [length] in I4. lia.
Qed.
Lemma parse_hex_line_hex_of_Z n : 0 <= n < 16 ^ 16 ->
  parse_hex_line (hex_of_Z n) = Some n /\ no_crlf (hex_of_Z n) = true.
Proof.
  intro Hn. unfold hex_of_Z.
  destruct (hex_digits_spec 20 n [] 16 ltac:(simpl; lia) ltac:(lia) eq_refl eq_refl) as [H1 [H2 [H3 [H4 H5]]]].
  split; [|exact H5]. unfold parse_hex_line.
  destruct (hex_digits 20 n []) as [|z0 l0] eqn:Ed; [congruence|].
  cbn [length] in H4. rewrite H1.
  replace (Z.of_nat (length (z0 :: l0)) <=? 16) with true by (cbn [length]; lia).
  cbn [andb]. change (fold_left (fun a b : Z => a * 16 + hexv b) (z0 :: l0) 0) with (hv (z0 :: l0) 0).
  rewrite H2. cbn. f_equal. lia.
Qed.
Lemma skipn_app_len {A} (a b : list A) : skipn (length a) (a ++ b) = b.
Proof. induction a as [|x a IH]; [reflexivity|]. cbn [length app]. rewrite skipn_cons. exact IH. Qed.
Lemma firstn_app_len {A} (a b : list A) : firstn (length a) (a ++ b) = a.
Proof. induction a as [|x a IH]; [reflexivity|]. cbn [length app firstn]. rewrite IH. reflexivity. Qed.

(* what the chunkWriter wrote for a list of non-empty writes decodes to their concatenation, whatever follows *)
Lemma strict_chunks_written : forall ws fuel acc t,
  forallb (fun d => negb (is_empty d) && (blen d <? 16 ^ 16)) ws = true -> (length ws < fuel)%nat ->
  strict_chunks fuel (concat (map write_chunk ws) ++ last_chunk ++ t) acc = Some (acc ++ concat ws, t, true).
Proof.
  induction ws as [|d ws IH]; intros fuel acc t Hb Hf.
  - destruct fuel as [|f]; [inversion Hf|]. cbn. rewrite app_nil_r. reflexivity.
  - cbn [forallb] in Hb. apply andb_true_iff in Hb. destruct Hb as [Hd Hws].
    apply andb_true_iff in Hd. destruct Hd as [Hne Hlt].
    destruct fuel as [|f]; [inversion Hf|].
    destruct d as [|d0 d']; [discriminate|]. set (d := d0 :: d') in *.
    assert (Hn : 0 <= blen d < 16 ^ 16) by (unfold blen in *; lia).
    destruct (parse_hex_line_hex_of_Z _ Hn) as [Hp Hc].
    cbn [map concat]. unfold write_chunk at 1. unfold crlf.
    replace (((hex_of_Z (blen d) ++ [13; 10] ++ d ++ [13; 10]) ++ concat (map write_chunk ws)) ++ last_chunk ++ t)
      with (hex_of_Z (blen d) ++ 13 :: 10 :: (d ++ 13 :: 10 :: (concat (map write_chunk ws) ++ last_chunk ++ t))).
    2:{ rewrite <- !app_assoc. reflexivity. }
    cbn [strict_chunks].
    destruct (hex_of_Z (blen d) ++ 13 :: 10 :: d ++ 13 :: 10 :: concat (map write_chunk ws) ++ last_chunk ++ t) as [|c0 l0] eqn:El.
    { destruct (hex_of_Z (blen d)); discriminate. }
    rewrite <- El. rewrite (split_crlf_app _ _ Hc), Hp.
    replace (blen d =? 0) with false by (unfold blen, d; cbn [length]; lia).
    replace (blen (d ++ 13 :: 10 :: concat (map write_chunk ws) ++ last_chunk ++ t) <=? blen d) with false.
    2:{ unfold blen. rewrite app_length. cbn [length]. lia. }
    unfold blen. rewrite Nat2Z.id, skipn_app_len, firstn_app_len.
    rewrite IH; [|exact Hws|simpl in Hf; lia].
    cbn [concat]. rewrite <- app_assoc. reflexivity.
Qed.

(* the exchange as the pre-fix code performed it *)
Definition old_exchange (c : c27in) : bytes :=
  let '(h, pieces, err) := response_of c in
  let '(out, close, _) := respond_old (i_q c) (false, false, false, false) (negb (i_src c =? 0)) (i_status c) h pieces err in
  out ++ (if close then [] else probe_bytes).
Definition old_exchange_of (i : val) : bytes :=
  match dec_C27 i with Some c => old_exchange c | None => [] end.

Definition witness_204 : val :=
  VL [VZ 1; VZ 0; VB []; VZ 0; VZ 204; VL [VL [VB s_cl; VB [53]]]; VZ 0; VZ 0; VL [VB [104;101;108;108;111]]; VZ 0].

Lemma old_bodyless_refuted :
  exists i, dec_C27 i <> None /\
    prop_C27 i (VB (old_exchange_of i)) = false /\ prop_C27 i (run_C27 i) = true.
Proof. exists witness_204. split; [discriminate|]. split; vm_compute; reflexivity. Qed.


(* ---------- header lists ---------- *)
Lemma bytes_eqb_refl a : bytes_eqb a a = true.
Proof. apply bytes_eqb_eq. reflexivity. Qed.
Lemma bytes_ltb_irrefl a : bytes_ltb a a = false.
Proof. induction a as [|x a IH]; [reflexivity|]. cbn. rewrite Z.ltb_irrefl. exact IH. Qed.
Lemma key_is_eq k kv : key_is k kv = true -> fst kv = k.
Proof. unfold key_is. intro H. apply bytes_eqb_eq in H. congruence. Qed.
Lemma get_all_cons k kv l : get_all k (kv :: l) = if key_is k kv then snd kv :: get_all k l else get_all k l.
Proof. unfold get_all. cbn [filter]. destruct (key_is k kv); reflexivity. Qed.
Lemma get_all_insert k kv l :
  get_all k (insert_field kv l) = if key_is k kv then snd kv :: get_all k l else get_all k l.
Proof.
  induction l as [|x l IH]; cbn [insert_field].
  - rewrite get_all_cons. reflexivity.
  - destruct (bytes_ltb (fst x) (fst kv)) eqn:E.
    + rewrite !get_all_cons, IH. destruct (key_is k kv) eqn:Ek, (key_is k x) eqn:Ex; try reflexivity.
      apply key_is_eq in Ek, Ex. rewrite Ek, Ex, bytes_ltb_irrefl in E. discriminate.
    + rewrite get_all_cons. reflexivity.
Qed.
Lemma get_all_sort k l : get_all k (sort_fields l) = get_all k l.
Proof.
  induction l as [|x l IH]; [reflexivity|]. unfold sort_fields in *. cbn [fold_right].
  rewrite get_all_insert, IH, get_all_cons. reflexivity.
Qed.
Lemma in_insert kv x l : In x (insert_field kv l) <-> x = kv \/ In x l.
Proof.
  induction l as [|y l IH]; cbn [insert_field].
  - cbn. intuition.
  - destruct (bytes_ltb (fst y) (fst kv)); cbn [In]; rewrite ?IH; intuition.
Qed.
Lemma in_sort x l : In x (sort_fields l) <-> In x l.
Proof.
  induction l as [|y l IH]; [reflexivity|]. unfold sort_fields in *. cbn [fold_right].
  rewrite in_insert, IH. cbn. intuition.
Qed.
Lemma forallb_sort (P : bytes * bytes -> bool) l : forallb P l = true -> forallb P (sort_fields l) = true.
Proof. rewrite !forallb_forall. intros H x Hx. apply H. apply in_sort. exact Hx. Qed.
Lemma forallb_del (P : bytes * bytes -> bool) X l : forallb P l = true -> forallb P (del_key X l) = true.
Proof. rewrite !forallb_forall. intros H x Hx. apply H. unfold del_key in Hx. apply filter_In in Hx. tauto. Qed.
Lemma get_all_del_other k X l : bytes_eqb X k = false -> get_all k (del_key X l) = get_all k l.
Proof.
  intro H. unfold del_key. induction l as [|x l IH]; [reflexivity|]. cbn [filter].
  destruct (key_is X x) eqn:EX; cbn [negb].
  - rewrite get_all_cons, IH. destruct (key_is k x) eqn:Ek; [|reflexivity].
    apply key_is_eq in EX, Ek. rewrite <- EX, <- Ek, bytes_eqb_refl in H. discriminate.
  - rewrite !get_all_cons, IH. reflexivity.
Qed.
Lemma get_all_del_same X l : get_all X (del_key X l) = [].
Proof.
  unfold del_key. induction l as [|x l IH]; [reflexivity|]. cbn [filter].
  destruct (key_is X x) eqn:EX; cbn [negb]; [exact IH|]. rewrite get_all_cons, EX. exact IH.
Qed.
Lemma has_key_get_all k l : has_key k l = match get_all k l with [] => false | _ => true end.
Proof.
  unfold has_key. induction l as [|x l IH]; [reflexivity|]. cbn [existsb]. rewrite get_all_cons.
  destruct (key_is k x); [reflexivity|exact IH].
Qed.
Lemma get_all_app k a b : get_all k (a ++ b) = get_all k a ++ get_all k b.
Proof. unfold get_all. rewrite filter_app, map_app. reflexivity. Qed.
Lemma get_all_map k (g : bytes -> bytes) l :
  get_all k (map (fun kv => (fst kv, g (snd kv))) l) = map g (get_all k l).
Proof.
  induction l as [|x l IH]; [reflexivity|]. cbn [map]. rewrite !get_all_cons.
  unfold key_is at 1. cbn [fst snd]. fold (key_is k x). destruct (key_is k x); cbn [map]; rewrite IH; reflexivity.
Qed.
Lemma concat_filter_nonempty (ps : list bytes) : concat (filter (fun p => negb (is_empty p)) ps) = concat ps.
Proof.
  induction ps as [|p ps IH]; [reflexivity|]. cbn [filter]. destruct p as [|b p]; cbn [is_empty negb concat]; [exact IH|].
  rewrite IH. reflexivity.
Qed.

(* ---------- response.write accepts everything when the body is allowed and fits the declared length ---------- *)
Lemma accept_all : forall ps clen written,
  (clen = -1 \/ written + blen (concat ps) <= clen) ->
  accept_writes true clen written ps =
  (filter (fun p => negb (is_empty p)) ps, written + blen (concat ps), false).
Proof.
  induction ps as [|p ps IH]; intros clen written H.
  - cbn. f_equal. f_equal. unfold blen. cbn. lia.
  - cbn [accept_writes filter concat]. destruct p as [|b p].
    + cbn [is_empty negb app]. apply IH. exact H.
    + cbn [is_empty negb]. set (pp := b :: p) in *.
      assert (Hl : blen (pp ++ concat ps) = blen pp + blen (concat ps)).
      { unfold blen. rewrite app_length. lia. }
      assert (Hp : 0 <= blen (concat ps)) by (unfold blen; lia).
      cbv zeta. cbn [concat] in H. rewrite Hl in H. assert (Hpp : 0 < blen pp) by (unfold blen, pp; cbn [length]; lia).
      replace (negb (clen =? -1) && (clen <? written + blen pp)) with false by lia.
      rewrite IH by lia. rewrite Hl. f_equal. f_equal. lia.
Qed.
Lemma accept_none : forall ps clen written,
  fst (fst (accept_writes false clen written ps)) = [].
Proof.
  induction ps as [|p ps IH]; intros clen written; [reflexivity|].
  cbn [accept_writes]. destruct (is_empty p); [apply IH|reflexivity].
Qed.

(* ---------- the 512-byte bufio in front of the chunkWriter ---------- *)
Lemma bufio_write_spec : forall fuel buffered p ws b,
  bufio_write fuel buffered p = (ws, b) ->
  concat ws ++ b = buffered ++ p /\ forallb (fun d => negb (is_empty d)) ws = true.
Proof.
  induction fuel as [|f IH]; intros buffered p ws b H.
  - cbn in H. inversion H; subst. split; reflexivity.
  - cbn [bufio_write] in H.
    destruct (blen p <=? bufsz - blen buffered) eqn:E1.
    { inversion H; subst. split; reflexivity. }
    destruct (is_empty buffered) eqn:E2.
    { inversion H; subst. destruct buffered; [|discriminate]. cbn [concat app]. rewrite !app_nil_r. split; [reflexivity|]. cbn [forallb]. rewrite andb_true_r.
      destruct p; [|reflexivity]. unfold bufsz, blen in E1. cbn in E1. discriminate. }
    destruct (bufio_write f [] (skipn (Z.to_nat (bufsz - blen buffered)) p)) as [ws' b'] eqn:E3.
    inversion H; subst. destruct (IH _ _ _ _ E3) as [I1 I2]. split.
    + cbn [concat]. rewrite <- app_assoc, I1. cbn [app]. rewrite <- app_assoc, firstn_skipn. reflexivity.
    + cbn [forallb]. rewrite I2. destruct buffered; [discriminate|reflexivity].
Qed.
Lemma bufio_writes_spec : forall ps buffered ws b,
  bufio_writes buffered ps = (ws, b) ->
  concat ws ++ b = buffered ++ concat ps /\ forallb (fun d => negb (is_empty d)) ws = true.
Proof.
  induction ps as [|p ps IH]; intros buffered ws b H.
  - cbn in H. inversion H; subst. cbn. rewrite app_nil_r. split; reflexivity.
  - cbn [bufio_writes] in H. destruct (bufio_write 3 buffered p) as [w1 b1] eqn:E1.
    destruct (bufio_writes b1 ps) as [w2 b2] eqn:E2. inversion H; subst.
    destruct (bufio_write_spec _ _ _ _ _ E1) as [A1 A2]. destruct (IH _ _ _ E2) as [B1 B2]. split.
    + rewrite concat_app, <- app_assoc, B1. cbn [concat]. rewrite !app_assoc. f_equal. exact A1.
    + rewrite forallb_app, A2, B2. reflexivity.
Qed.


(* ---------- the status line, by enumeration of the 2 x 500 (version, code) pairs ---------- *)
Definition sl_body (m c : Z) : bytes := s_http1 ++ [48 + m] ++ [32] ++ dec_of_Z c ++ [32] ++ reason c.
Definition sl_check (m c : Z) : bool :=
  no_crlf (sl_body m c) &&
  match parse_status_line (sl_body m c) with Some (m', c') => (m' =? m) && (c' =? c) | None => false end.
Lemma sl_check_all : forallb (fun k => sl_check 0 (100 + Z.of_nat k) && sl_check 1 (100 + Z.of_nat k)) (seq 0 500) = true.
Proof. vm_compute. reflexivity. Qed.
Lemma status_line_ok m c : (m = 0 \/ m = 1) -> 100 <= c <= 599 ->
  status_line m c = sl_body m c ++ crlf /\ no_crlf (sl_body m c) = true /\ parse_status_line (sl_body m c) = Some (m, c).
Proof.
  intros Hm Hc. split.
  { unfold status_line, sl_body. rewrite <- !app_assoc. reflexivity. }
  pose proof sl_check_all as H. rewrite forallb_forall in H.
  specialize (H (Z.to_nat (c - 100))). rewrite in_seq in H.
  assert (Hin : (0 <= Z.to_nat (c - 100) < 0 + 500)%nat) by lia. specialize (H Hin).
  replace (100 + Z.of_nat (Z.to_nat (c - 100))) with c in H by lia.
  apply andb_true_iff in H. destruct H as [H0 H1].
  assert (Hs : sl_check m c = true) by (destruct Hm; subst; assumption).
  unfold sl_check in Hs. apply andb_true_iff in Hs. destruct Hs as [Hs1 Hs2]. split; [exact Hs1|].
  destruct (parse_status_line (sl_body m c)) as [[m' c']|]; [|discriminate].
  apply andb_true_iff in Hs2. destruct Hs2 as [E1 E2]. apply Z.eqb_eq in E1, E2. subst. reflexivity.
Qed.

(* ---------- sanitised values have no line breaks ---------- *)
Lemma in_trim_left f x l : In x (trim_left f l) -> In x l.
Proof.
  induction l as [|y l IH]; [intros []|]. cbn [trim_left]. destruct (f y); [intro H; right; apply IH; exact H|tauto].
Qed.
Lemma in_trim f x l : In x (trim f l) -> In x l.
Proof.
  unfold trim, trim_right. intro H. apply in_rev in H. apply in_trim_left in H. apply in_rev in H.
  apply in_trim_left in H. exact H.
Qed.
Lemma sanitize_no_crlf v : no_crlf (sanitize_value v) = true.
Proof.
  unfold no_crlf, sanitize_value. apply forallb_forall. intros x Hx. apply in_trim in Hx.
  apply in_map_iff in Hx. destruct Hx as [b [Hb _]]. subst x.
  destruct ((b =? 10) || (b =? 13)) eqn:E; lia.
Qed.

(* ---------- the header block ---------- *)
Definition san (kv : bytes * bytes) : bytes * bytes := (fst kv, sanitize_value (snd kv)).
Lemma write_subset_lines h : write_subset h = concat (map line (map san (sort_fields h))).
Proof. unfold write_subset. rewrite map_map. reflexivity. Qed.
Lemma lines_length L : (length L <= length (concat (map line L)))%nat.
Proof.
  induction L as [|kv L IH]; [cbn; lia|]. cbn [map concat length]. rewrite app_length.
  unfold line at 1. rewrite !app_length. unfold colon_sp. cbn [length]. lia.
Qed.
Definition fs_of (h5 extra : fields) : fields := map parsed (map san (sort_fields h5) ++ extra).
Lemma parse_head is_head m c h5 extra rest :
  (m = 0 \/ m = 1) -> 100 <= c <= 599 ->
  forallb (fun kv => is_token (fst kv)) h5 = true -> forallb good_kv extra = true ->
  ref_parse is_head (status_line m c ++ write_subset h5 ++ concat (map write_raw_field extra) ++ crlf ++ rest)
  = ref_parse_body is_head m c (fs_of h5 extra) rest.
Proof.
  intros Hm Hc Hk He. destruct (status_line_ok m c Hm Hc) as [S1 [S2 S3]].
  unfold ref_parse. rewrite S1, <- app_assoc. unfold crlf at 1. cbn [app].
  rewrite (split_crlf_app _ _ S2), S3.
  rewrite write_subset_lines.
  change (map write_raw_field extra) with (map line extra).
  rewrite app_assoc, <- concat_app, <- map_app. unfold crlf. cbn [app].
  set (L := map san (sort_fields h5) ++ extra).
  rewrite (strict_fields_lines L).
  - cbn [rev app]. reflexivity.
  - unfold L. rewrite forallb_app, He, andb_true_r.
    apply forallb_forall. intros x Hx. apply in_map_iff in Hx. destruct Hx as [kv [Hkv Hin]]. subst x.
    unfold good_kv, san. cbn [fst snd]. rewrite sanitize_no_crlf, andb_true_r.
    apply (proj1 (in_sort _ _)) in Hin. rewrite forallb_forall in Hk. apply Hk. exact Hin.
  - pose proof (lines_length L). rewrite app_length. cbn [length]. lia.
Qed.


(* ---------- well-formed supplied headers ---------- *)
Definition specials : list bytes := [s_cl; s_te; s_ct; s_conn; s_date].
(* a name that equals one of the special names up to letter case is that name (header keys are canonical in Go) *)
Definition canon_ok (k : bytes) : bool := forallb (fun X => implb (eq_fold k X) (bytes_eqb k X)) specials.
Definition key_ok (kv : bytes * bytes) : bool := is_token (fst kv) && canon_ok (fst kv).
Definition digits18 (v : bytes) : bool :=
  negb (is_empty v) && forallb is_digit v && (Z.of_nat (length v) <=? 18).
Definition wf_hdrs (h : fields) : bool :=
  forallb key_ok h && negb (has_key s_te h) &&
  match get_all s_cl h with [] => true | [v] => digits18 v | _ => false end.

Lemma eq_fold_refl a : eq_fold a a = true.
Proof. unfold eq_fold. apply bytes_eqb_refl. Qed.
Lemma bytes_eqb_sym a b : bytes_eqb a b = bytes_eqb b a.
Proof.
  destruct (bytes_eqb a b) eqn:E1, (bytes_eqb b a) eqn:E2; try reflexivity.
  - apply bytes_eqb_eq in E1. subst. rewrite bytes_eqb_refl in E2. discriminate.
  - apply bytes_eqb_eq in E2. subst. rewrite bytes_eqb_refl in E1. discriminate.
Qed.
Lemma get_all_ci_canon X l : In X specials -> forallb (fun kv => canon_ok (fst kv)) l = true ->
  get_all_ci X l = get_all X l.
Proof.
  intros HX H. unfold get_all_ci, get_all. f_equal. apply filter_ext_in. intros kv Hin.
  rewrite forallb_forall in H. specialize (H kv Hin). unfold canon_ok in H. rewrite forallb_forall in H.
  specialize (H X HX). unfold canon_lower_eq, key_is.
  destruct (eq_fold (fst kv) X) eqn:E.
  - cbn [implb] in H. rewrite bytes_eqb_sym. symmetry. exact H.
  - destruct (bytes_eqb X (fst kv)) eqn:E2; [|reflexivity]. apply bytes_eqb_eq in E2. rewrite <- E2, eq_fold_refl in E. discriminate.
Qed.
Lemma get_all_fs_of X h5 extra :
  get_all X (fs_of h5 extra) = map norm_value (get_all X h5) ++ map (trim is_space) (get_all X extra).
Proof.
  unfold fs_of. rewrite map_app, get_all_app. f_equal.
  - unfold parsed, san. rewrite (get_all_map X (trim is_space)), (get_all_map X sanitize_value), get_all_sort, map_map. reflexivity.
  - unfold parsed. apply (get_all_map X (trim is_space)).
Qed.
Lemma get_all_del_nil k X l : get_all k l = [] -> get_all k (del_key X l) = [].
Proof.
  unfold get_all, del_key. induction l as [|x l IH]; [reflexivity|]. cbn [filter].
  destruct (key_is k x) eqn:Ek; [cbn; discriminate|]. intro H.
  destruct (key_is X x); cbn [negb filter]; rewrite ?Ek; apply IH; exact H.
Qed.
Lemma in_del kv X l : In kv (del_key X l) -> In kv l.
Proof. unfold del_key. intro H. apply filter_In in H. tauto. Qed.

(* ---------- what writeHeader leaves of the supplied header ---------- *)
Section Decision.
Variables (q : rq) (status : Z) (h : fields) (clen : Z) (hdone : bool) (p : bytes).
Let d := write_header sniff_text fixed_date true body_allowed_status q (false, false, false, false) status h clen false hdone p.

Ltac wh_unfold := unfold d, write_header, wh_frame; cbn [d_fields d_extra d_chunking d_close d_clen fst snd].
Ltac wh_split := repeat match goal with |- context [if ?b then _ else _] => destruct b end; cbn [fst snd].

Lemma d_fields_in kv : In kv (d_fields d) -> In kv h.
Proof.
  wh_unfold. wh_split; intro H; repeat (apply in_del in H); exact H.
Qed.
Lemma d_fields_other k : bytes_eqb s_cl k = false -> bytes_eqb s_te k = false -> bytes_eqb s_conn k = false ->
  (bytes_eqb s_ct k = false \/ (status =? 304) = false) -> get_all k (d_fields d) = get_all k h.
Proof.
  intros H1 H2 H3 H4. wh_unfold.
  destruct (status =? 304) eqn:E304.
  - destruct H4 as [H4|H4]; [|discriminate]. wh_split; rewrite ?get_all_del_other by assumption; reflexivity.
  - wh_split; rewrite ?get_all_del_other by assumption; reflexivity.
Qed.
Lemma d_fields_nil k : get_all k h = [] -> get_all k (d_fields d) = [].
Proof.
  intro H. wh_unfold. wh_split; repeat (apply get_all_del_nil); exact H.
Qed.
End Decision.


(* ---------- the framing scenarios of writeHeader for a response that carries a body ---------- *)
Section Scenarios.
Variables (q : rq) (status : Z) (h : fields) (clen : Z) (hdone : bool) (p : bytes).
Let d := write_header sniff_text fixed_date true body_allowed_status q (false, false, false, false) status h clen false hdone p.
Hypothesis Hhead : q_head q = false.
Hypothesis Hallowed : body_allowed_status status = true.
Hypothesis Hte : get_all s_te h = [].

Ltac wh_unfold := unfold d, write_header, wh_frame; cbn [d_fields d_extra d_chunking d_close d_clen fst snd].
Ltac wh_split := cbn [is_empty negb andb orb fst snd]; repeat (match goal with |- context [if ?b then _ else _] => destruct b end; cbn [is_empty negb andb orb fst snd]).
Lemma st304 : (status =? 304) = false.
Proof. unfold body_allowed_status in Hallowed. lia. Qed.
Lemma st204 : (status =? 204) = false.
Proof. unfold body_allowed_status in Hallowed. lia. Qed.
Lemma te_first : get_first s_te h = [].
Proof. unfold get_first. rewrite Hte. reflexivity. Qed.

Ltac prep := wh_unfold; rewrite ?Hhead, ?st304, ?st204, ?Hallowed, ?te_first; cbn [negb orb andb is_empty].

(* the supplier declared a length *)
Lemma sc_declared v : get_all s_cl h = [v] -> v <> [] -> (clen =? -1) = false ->
  d_chunking d = false /\ get_all s_te (d_extra d) = [] /\ get_all s_cl (d_fields d) = [v] /\
  get_all s_cl (d_extra d) = [] /\ d_clen d = clen.
Proof.
  intros Hcl Hv Hc.
  assert (Hf : is_empty (get_first s_cl h) = false).
  { unfold get_first. rewrite Hcl. destruct v; [congruence|reflexivity]. }
  prep. rewrite Hf, ?andb_false_r. cbn [negb andb orb is_empty fst snd]. rewrite Hc. cbn [negb andb orb fst snd].
  repeat split.
  - wh_split; rewrite ?get_all_app; cbn; reflexivity.
  - wh_split; rewrite ?get_all_del_other by reflexivity; exact Hcl.
  - wh_split; rewrite ?get_all_app; cbn; reflexivity.
Qed.

(* no declared length, the handler is done before the header is written: Content-Length is computed *)
Lemma sc_computed : get_all s_cl h = [] -> clen = -1 -> hdone = true ->
  d_chunking d = false /\ get_all s_te (d_extra d) = [] /\ get_all s_cl (d_fields d) = [] /\
  get_all s_cl (d_extra d) = [dec_of_Z (blen p)] /\ d_clen d = blen p.
Proof.
  intros Hcl Hc Hd. subst clen hdone.
  assert (Hf : is_empty (get_first s_cl h) = true) by (unfold get_first; rewrite Hcl; reflexivity).
  prep. rewrite Hf. cbn [negb andb orb fst snd].
  assert (Hp : (blen p =? -1) = false) by (unfold blen; lia). rewrite Hp. cbn [negb andb orb fst snd].
  repeat split.
  - wh_split; rewrite ?get_all_app; cbn; reflexivity.
  - wh_split; repeat (apply get_all_del_nil); exact Hcl.
  - wh_split; rewrite ?get_all_app; cbn; reflexivity.
Qed.

(* no length known when the header is written, HTTP/1.1: chunked *)
Lemma sc_chunked : get_all s_cl h = [] -> clen = -1 -> hdone = false -> at_least_11 q = true ->
  d_chunking d = true /\ get_all s_te (d_extra d) = [s_chunked] /\ get_all s_cl (d_fields d) = [] /\
  get_all s_cl (d_extra d) = [] /\ d_clen d = -1.
Proof.
  intros Hcl Hc Hd H11. subst clen hdone.
  prep. rewrite H11, ?Z.eqb_refl. cbn [negb andb orb fst snd]. change (is_empty s_chunked) with false. cbn iota.
  repeat split.
  - wh_split; rewrite ?get_all_app; cbn; reflexivity.
  - wh_split; repeat (apply get_all_del_nil); exact Hcl.
  - wh_split; rewrite ?get_all_app; cbn; reflexivity.
Qed.

(* no length known, HTTP/1.0: delimited by closing the connection *)
Lemma sc_until_close : get_all s_cl h = [] -> clen = -1 -> hdone = false -> at_least_11 q = false ->
  d_chunking d = false /\ get_all s_te (d_extra d) = [] /\ get_all s_cl (d_fields d) = [] /\
  get_all s_cl (d_extra d) = [] /\ d_clen d = -1 /\ d_close d = true.
Proof.
  intros Hcl Hc Hd H11. subst clen hdone.
  prep. rewrite H11, ?Z.eqb_refl. cbn [negb andb orb fst snd].
  repeat split.
  - wh_split; rewrite ?get_all_app; cbn; reflexivity.
  - wh_split; repeat (apply get_all_del_nil); exact Hcl.
  - wh_split; rewrite ?get_all_app; cbn; reflexivity.
Qed.
End Scenarios.


(* ---------- glue ---------- *)
Lemma digits_no_crlf l : forallb is_digit l = true -> no_crlf l = true.
Proof. unfold no_crlf. apply forallb_impl. intros b Hb. unfold is_digit in Hb. lia. Qed.
Lemma dec_no_crlf n : 0 <= n < 10 ^ 80 -> no_crlf (dec_of_Z n) = true.
Proof. intro H. apply digits_no_crlf. apply parse_dec_dec_of_Z. exact H. Qed.
Lemma blen_bound (p : bytes) : 0 <= blen p.
Proof. unfold blen. lia. Qed.

Section Glue.
Variables (q : rq) (status : Z) (h : fields) (clen : Z) (hdone : bool) (p : bytes).
Let d := write_header sniff_text fixed_date true body_allowed_status q (false, false, false, false) status h clen false hdone p.
Ltac wh_unfold := unfold d, write_header, wh_frame; cbn [d_fields d_extra d_chunking d_close d_clen d_head fst snd].
Ltac wh_split := cbn [is_empty negb andb orb fst snd]; repeat (match goal with |- context [if ?b then _ else _] => destruct b end; cbn [is_empty negb andb orb fst snd]).

Lemma d_head_eq :
  d_head d = status_line (q_minor q) status ++ write_subset (d_fields d) ++ concat (map write_raw_field (d_extra d)) ++ crlf.
Proof. reflexivity. Qed.

Lemma extras_good : blen p < 10 ^ 80 -> forallb good_kv (d_extra d) = true.
Proof.
  intro Hp. pose proof (dec_no_crlf (blen p) (conj (blen_bound p) Hp)) as Hd.
  wh_unfold. unfold wh_conn, sniff_text.
  wh_split; cbn [app forallb good_kv fst snd]; unfold good_kv; cbn [fst snd]; rewrite ?Hd; reflexivity.
Qed.
Lemma extras_canon : forallb (fun kv => canon_ok (fst kv)) (d_extra d) = true.
Proof. wh_unfold. wh_split; reflexivity. Qed.

(* a response without a body is never chunked *)
Lemma nobody_not_chunked : q_head q || negb (body_allowed_status status) = true -> d_chunking d = false.
Proof.
  intro H. wh_unfold. destruct (q_head q); cbn [orb] in *; [reflexivity|].
  destruct (status =? 304); cbn [orb]; [reflexivity|]. rewrite H, orb_true_r. reflexivity.
Qed.
End Glue.

Lemma chunks_length ws : (length ws <= length (concat (map write_chunk ws)))%nat.
Proof.
  induction ws as [|w ws IH]; [cbn; lia|]. cbn [map concat length]. rewrite app_length.
  unfold write_chunk at 1. rewrite !app_length. unfold crlf. cbn [length]. lia.
Qed.
Lemma in_concat_le (x : bytes) l : In x l -> blen x <= blen (concat l).
Proof.
  induction l as [|y l IH]; [intros []|]. intros [->|H]; cbn [concat]; unfold blen in *; rewrite app_length; [lia|].
  specialize (IH H). lia.
Qed.
Lemma sanitize_digits v : forallb is_digit v = true -> norm_value v = v.
Proof.
  intro H. unfold norm_value, sanitize_value.
  assert (Hm : map (fun b => if (b =? 10) || (b =? 13) then 32 else b) v = v).
  { induction v as [|b v IH]; [reflexivity|]. cbn [forallb] in H. apply andb_true_iff in H. destruct H as [H1 H2].
    cbn [map]. rewrite (IH H2). unfold is_digit in H1. replace ((b =? 10) || (b =? 13)) with false by lia. reflexivity. }
  rewrite Hm. rewrite (digits_trim is_trim_byte v); [|intros b Hb; unfold is_digit, is_trim_byte in *; lia|exact H].
  apply digits_trim; [intros b Hb; unfold is_digit, is_space in *; lia|exact H].
Qed.
Lemma parse_int_digits v n : forallb is_digit v = true -> parse_dec v = Some n -> n < 2 ^ 63 -> parse_int v = Some n.
Proof.
  intros Hd Hp Hn. unfold parse_int. destruct v as [|c r]; [cbn in Hp; discriminate|].
  cbn [forallb] in Hd. apply andb_true_iff in Hd. destruct Hd as [Hc _]. unfold is_digit in Hc.
  replace (c =? 43) with false by lia. replace (c =? 45) with false by lia.
  rewrite Hp. replace (n <? 2 ^ 63) with true by lia. reflexivity.
Qed.


(* ---------- the body part of the reference parse, by framing scenario ---------- *)
Lemma accept_sub a : forall ps clen w, blen (concat (fst (fst (accept_writes a clen w ps)))) <= blen (concat ps).
Proof.
  induction ps as [|p ps IH]; intros clen w; [apply Z.le_refl|]. cbn [accept_writes].
  destruct (is_empty p) eqn:E.
  - destruct p; [|discriminate]. cbn [concat app]. apply IH.
  - destruct (negb a); [cbn [fst concat]; change (blen []) with 0; apply blen_bound|]. cbv zeta.
    destruct (negb (clen =? -1) && (clen <? w + blen p)); [cbn [fst concat]; change (blen []) with 0; apply blen_bound|].
    specialize (IH clen (w + blen p)). destruct (accept_writes a clen (w + blen p) ps) as [[acc w2] e].
    cbn [fst concat] in *. unfold blen in *. rewrite !app_length. lia.
Qed.

Definition mkp (m st : Z) (fs : fields) (fr : Z) (b : bytes) (c : bool) (t : bytes) : presp :=
  {| p_minor := m; p_status := st; p_fields := fs; p_framing := fr; p_body := b; p_complete := c; p_rest := t |}.

Section Body.
Variables (m status : Z) (h5 extra : fields) (tail : bytes).
Hypothesis Hallowed : body_allowed_status status = true.
Hypothesis Hcanon5 : forallb (fun kv => canon_ok (fst kv)) h5 = true.
Hypothesis Hcanone : forallb (fun kv => canon_ok (fst kv)) extra = true.
Hypothesis Hte5 : get_all s_te h5 = [].

Lemma fs_canon : forallb (fun kv => canon_ok (fst kv)) (fs_of h5 extra) = true.
Proof.
  unfold fs_of. apply forallb_forall. intros x Hx. apply in_map_iff in Hx. destruct Hx as [y [Hy Hin]]. subst x.
  unfold parsed. cbn [fst]. apply in_app_or in Hin. destruct Hin as [Hin|Hin].
  - apply in_map_iff in Hin. destruct Hin as [z [Hz Hin]]. subst y. unfold san. cbn [fst].
    apply (proj1 (in_sort _ _)) in Hin. rewrite forallb_forall in Hcanon5. apply (Hcanon5 _ Hin).
  - rewrite forallb_forall in Hcanone. apply (Hcanone _ Hin).
Qed.
Lemma te_ci : get_all_ci s_te (fs_of h5 extra) = map (trim is_space) (get_all s_te extra).
Proof.
  rewrite (get_all_ci_canon s_te); [|cbn; tauto|apply fs_canon]. rewrite get_all_fs_of, Hte5. reflexivity.
Qed.
Lemma cl_ci : get_all_ci s_cl (fs_of h5 extra) = map norm_value (get_all s_cl h5) ++ map (trim is_space) (get_all s_cl extra).
Proof. rewrite (get_all_ci_canon s_cl); [|cbn; tauto|apply fs_canon]. apply get_all_fs_of. Qed.

(* Content-Length framing: the announced value is the body length *)
Lemma body_len v body : get_all s_te extra = [] ->
  map norm_value (get_all s_cl h5) ++ map (trim is_space) (get_all s_cl extra) = [v] ->
  parse_dec v = Some (blen body) ->
  ref_parse_body false m status (fs_of h5 extra) (body ++ tail) = Some (mkp m status (fs_of h5 extra) 1 body true tail).
Proof.
  intros Hte Hcl Hp. unfold ref_parse_body. rewrite Hallowed. cbn [negb orb].
  rewrite te_ci, Hte, cl_ci, Hcl. cbn [map]. rewrite Hp.
  replace (blen body <=? blen (body ++ tail)) with true by (unfold blen; rewrite app_length; lia).
  unfold blen. rewrite Nat2Z.id, firstn_app_len, skipn_app_len. reflexivity.
Qed.
(* chunked framing *)
Lemma body_chunked ws : m = 1 -> get_all s_te extra = [s_chunked] ->
  get_all s_cl h5 = [] -> get_all s_cl extra = [] ->
  forallb (fun d => negb (is_empty d) && (blen d <? 16 ^ 16)) ws = true ->
  ref_parse_body false m status (fs_of h5 extra) ((concat (map write_chunk ws) ++ last_chunk) ++ tail)
  = Some (mkp m status (fs_of h5 extra) 2 (concat ws) true tail).
Proof.
  intros Hm Hte Hc5 Hce Hws. unfold ref_parse_body. rewrite Hallowed. cbn [negb orb].
  rewrite te_ci, Hte, cl_ci, Hc5, Hce. cbn [map app]. subst m.
  change (eq_fold (trim is_space s_chunked) s_chunked && (1 =? 1)) with true. cbn iota.
  rewrite <- app_assoc. rewrite strict_chunks_written; [reflexivity|exact Hws|].
  rewrite !app_length. pose proof (chunks_length ws). lia.
Qed.
(* delimited by the end of the connection *)
Lemma body_until_close body : get_all s_te extra = [] -> get_all s_cl h5 = [] -> get_all s_cl extra = [] ->
  ref_parse_body false m status (fs_of h5 extra) body = Some (mkp m status (fs_of h5 extra) 3 body true []).
Proof.
  intros Hte Hc5 Hce. unfold ref_parse_body. rewrite Hallowed. cbn [negb orb].
  rewrite te_ci, Hte, cl_ci, Hc5, Hce. reflexivity.
Qed.
End Body.


(* ---------- one response, end to end ---------- *)
Definition expects_b (q : rq) (status : Z) : bool := negb (q_head q) && body_allowed_status status.
Definition wh (q : rq) (status : Z) (h : fields) (clen : Z) (hdone : bool) (p : bytes) : hdec :=
  write_header sniff_text fixed_date true body_allowed_status q (false, false, false, false) status h clen false hdone p.

Lemma wf_te h : wf_hdrs h = true -> get_all s_te h = [].
Proof.
  unfold wf_hdrs. intro H. apply andb_true_iff in H. destruct H as [H _]. apply andb_true_iff in H. destruct H as [_ H].
  rewrite has_key_get_all in H. destruct (get_all s_te h); [reflexivity|discriminate].
Qed.
Lemma wf_keys h : wf_hdrs h = true -> forallb key_ok h = true.
Proof. unfold wf_hdrs. intro H. apply andb_true_iff in H. destruct H as [H _]. apply andb_true_iff in H. tauto. Qed.
Lemma d_keys q status h clen hdone p : forallb key_ok h = true ->
  forallb (fun kv => is_token (fst kv)) (d_fields (wh q status h clen hdone p)) = true /\
  forallb (fun kv => canon_ok (fst kv)) (d_fields (wh q status h clen hdone p)) = true.
Proof.
  intro H. rewrite forallb_forall in H. split; apply forallb_forall; intros kv Hin; apply d_fields_in in Hin;
    specialize (H kv Hin); unfold key_ok in H; apply andb_true_iff in H; tauto.
Qed.

Theorem parses_as_one q ff status h pieces err tail out close dr :
  wf_hdrs h = true -> (q_minor q = 0 \/ q_minor q = 1) -> 100 <= status <= 599 ->
  blen (concat pieces) < 2 ^ 62 ->
  (expects_b q status = true ->
   err = false /\ forall v, get_all s_cl h = [v] -> parse_dec v = Some (blen (concat pieces))) ->
  respond q (false, false, false, false) ff status h pieces err = (out, close, dr) ->
  (close = true -> tail = []) ->
  exists fs fr,
    ref_parse (q_head q) (out ++ tail) =
      Some (mkp (q_minor q) status fs fr (if expects_b q status then concat pieces else []) true tail) /\
    (fr =? 0) = negb (expects_b q status) /\
    exists clen hdone p, fs = fs_of (d_fields (wh q status h clen hdone p)) (d_extra (wh q status h clen hdone p)).
Proof.
  intros Hwf Hm Hst Hlen Hreg Hresp Hclose.
  pose proof (wf_te h Hwf) as Hte. pose proof (wf_keys h Hwf) as Hkeys.
  unfold respond, respond_gen in Hresp.
  remember (match get_first s_cl h with [] => -1 | c :: l => match parse_int (c :: l) with Some v => if 0 <=? v then v else -1 | None => -1 end end) as clen0 eqn:Eclen0.
  destruct (accept_writes (body_allowed_status status) clen0 0 pieces) as [[acc written] werr] eqn:Ea.
  destruct (if ff then (acc, []) else bufio_writes [] acc) as [flushed pending] eqn:Eb.
  set (ws := flushed ++ (if is_empty pending then [] else [pending])) in *.
  remember (if ff then false else match flushed with [] => true | _ :: _ => false end) as hdone eqn:Ehdone.
  remember (if ff then [] else match ws with [] => [] | x :: _ => x end) as p eqn:Ep.
  fold (wh q status h clen0 hdone p) in Hresp. set (d := wh q status h clen0 hdone p) in *.
  pose proof (f_equal (fun x => fst (fst x)) Hresp) as Hout. pose proof (f_equal (fun x => snd (fst x)) Hresp) as Hcl.
  cbv beta in Hout, Hcl. cbn [fst snd] in Hout, Hcl. clear Hresp.
  (* facts about the writes *)
  assert (Hacc : blen (concat acc) <= blen (concat pieces)).
  { pose proof (accept_sub (body_allowed_status status) pieces clen0 0) as Hs. rewrite Ea in Hs. exact Hs. }
  assert (Hws : concat ws = concat acc /\ forallb (fun x => negb (is_empty x)) ws = true \/ ff = true /\ ws = acc).
  { destruct ff.
    - right. inversion Eb; subst flushed pending. unfold ws. cbn. rewrite app_nil_r. split; reflexivity.
    - left. destruct (bufio_writes_spec _ _ _ _ Eb) as [B1 B2]. cbn [app] in B1. unfold ws. split.
      + rewrite concat_app. destruct pending; cbn [is_empty concat app]; rewrite <- B1, ?app_nil_r; reflexivity.
      + rewrite forallb_app, B2. destruct pending; reflexivity. }
  assert (Hcw : concat ws = concat acc) by (destruct Hws as [[A _]|[_ A]]; [exact A|rewrite A; reflexivity]).
  assert (Hp : blen p < 10 ^ 80).
  { assert (blen p <= blen (concat ws)).
    { rewrite Ep. destruct ff; [change (blen []) with 0; apply blen_bound|].
      destruct ws as [|x ws']; [change (blen []) with 0; apply blen_bound|]. apply in_concat_le. left. reflexivity. }
    rewrite Hcw in H. eapply Z.le_lt_trans; [exact H|]. eapply Z.le_lt_trans; [exact Hacc|].
    eapply Z.lt_trans; [exact Hlen|]. vm_compute. reflexivity. }
  destruct (d_keys q status h clen0 hdone p Hkeys) as [Htok Hcan].
  pose proof (extras_good q status h clen0 hdone p Hp) as Hgood.
  pose proof (extras_canon q status h clen0 hdone p) as Hecan.
  pose proof (d_fields_nil q status h clen0 hdone p s_te Hte) as Hte5.
  fold (wh q status h clen0 hdone p) in Hgood, Hecan, Hte5. fold d in Hgood, Hecan, Hte5, Htok, Hcan.
  exists (fs_of (d_fields d) (d_extra d)).
  rewrite <- Hout. change (d_head d) with (status_line (q_minor q) status ++ write_subset (d_fields d) ++ concat (map write_raw_field (d_extra d)) ++ crlf).
  rewrite <- !app_assoc.
  rewrite (parse_head (q_head q) (q_minor q) status (d_fields d) (d_extra d) _ Hm Hst Htok Hgood).
  destruct (expects_b q status) eqn:Eex.
  - (* a body is expected *)
    unfold expects_b in Eex. apply andb_true_iff in Eex. destruct Eex as [Hh Hal]. apply negb_true_iff in Hh.
    destruct (Hreg eq_refl) as [Herr Hclv]. rewrite ?Hh. unfold body_bytes. rewrite ?Hh.
    rewrite Hal in Ea.
    assert (Hfn : forall ps : list bytes, forallb (fun x => negb (is_empty x)) (filter (fun p0 => negb (is_empty p0)) ps) = true).
    { intro ps. apply forallb_forall. intros x Hx. apply filter_In in Hx. tauto. }
    assert (Hwf3 : match get_all s_cl h with [] => true | [v] => digits18 v | _ => false end = true).
    { unfold wf_hdrs in Hwf. apply andb_true_iff in Hwf. tauto. }
    assert (Hkeep : forall n, (n = -1 \/ 0 + blen (concat pieces) <= n) -> clen0 = n ->
              acc = filter (fun p0 => negb (is_empty p0)) pieces /\ werr = false /\ concat ws = concat pieces).
    { intros n Hn Hc. rewrite Hc, (accept_all pieces n 0 Hn) in Ea. injection Ea as A1 A2 A3. subst acc werr.
      repeat split. rewrite Hcw. apply concat_filter_nonempty. }
    assert (Hwsok : concat ws = concat pieces -> acc = filter (fun p0 => negb (is_empty p0)) pieces ->
              forallb (fun x => negb (is_empty x) && (blen x <? 16 ^ 16)) ws = true).
    { intros Hcp Hacc'. apply forallb_forall. intros x Hx. apply andb_true_iff. split.
      - destruct Hws as [[_ B]|[_ B]].
        + rewrite forallb_forall in B. apply B. exact Hx.
        + rewrite B, Hacc' in Hx. apply filter_In in Hx. tauto.
      - pose proof (in_concat_le x ws Hx) as Hle. rewrite Hcp in Hle. apply Z.ltb_lt.
        eapply Z.le_lt_trans; [exact Hle|]. eapply Z.lt_trans; [exact Hlen|]. vm_compute. reflexivity. }
    destruct (get_all s_cl h) as [|v [|v2 l]] eqn:Ecl; [| |discriminate].
    + (* no declared length *)
      assert (Hc0 : clen0 = -1) by (rewrite Eclen0; unfold get_first; rewrite Ecl; reflexivity).
      destruct (Hkeep (-1) (or_introl eq_refl) Hc0) as [Hacc' [Hwerr Hcp]].
      destruct hdone eqn:Ehd.
      * (* Content-Length computed *)
        destruct (sc_computed q status h clen0 true p Hh Hal Hte Ecl Hc0 eq_refl) as [S1 [S2 [S3 [S4 S5]]]].
        fold (wh q status h clen0 true p) in S1, S2, S3, S4, S5. fold d in S1, S2, S3, S4, S5.
        assert (Hpc : p = concat ws).
        { destruct ff; [discriminate|]. destruct flushed; [|discriminate]. rewrite Ep. unfold ws. cbn [app].
          destruct pending; cbn [is_empty concat app]; rewrite ?app_nil_r; reflexivity. }
        exists 1. split; [|split; [reflexivity|exists clen0, true, p; reflexivity]].
        rewrite S1, Hcp.
        apply (body_len (q_minor q) status (d_fields d) (d_extra d) tail Hal Hcan Hecan Hte5 (dec_of_Z (blen p))); [exact S2| |].
        -- rewrite S3, S4. cbn [map app]. f_equal. apply digits_trim; [clear; intros b Hb; unfold is_digit, is_space in *; lia|].
           apply parse_dec_dec_of_Z. split; [apply blen_bound|exact Hp].
        -- rewrite <- Hcp, <- Hpc. apply parse_dec_dec_of_Z. split; [apply blen_bound|exact Hp].
      * destruct (at_least_11 q) eqn:E11.
        -- (* chunked *)
           destruct (sc_chunked q status h clen0 false p Hh Hal Hte Ecl Hc0 eq_refl E11) as [S1 [S2 [S3 [S4 S5]]]].
           fold (wh q status h clen0 false p) in S1, S2, S3, S4, S5. fold d in S1, S2, S3, S4, S5.
           exists 2. split; [|split; [reflexivity|exists clen0, false, p; reflexivity]].
           rewrite S1, <- Hcp.
           assert (Hm1 : q_minor q = 1) by (clear - E11 Hm; unfold at_least_11 in E11; lia).
           apply (body_chunked (q_minor q) status (d_fields d) (d_extra d) tail Hal Hcan Hecan Hte5 ws Hm1 S2 S3 S4).
           apply Hwsok; assumption.
        -- (* until close *)
           destruct (sc_until_close q status h clen0 false p Hh Hal Hte Ecl Hc0 eq_refl E11) as [S1 [S2 [S3 [S4 [S5 S6]]]]].
           fold (wh q status h clen0 false p) in S1, S2, S3, S4, S5, S6. fold d in S1, S2, S3, S4, S5, S6.
           exists 3. split; [|split; [reflexivity|exists clen0, false, p; reflexivity]].
           assert (Ht : tail = []) by (apply Hclose; rewrite <- Hcl, S6; reflexivity).
           rewrite S1, Ht, app_nil_r, <- Hcp.
           apply (body_until_close (q_minor q) status (d_fields d) (d_extra d) Hal Hcan Hecan Hte5 (concat ws) S2 S3 S4).
    + (* declared length, equal to the body length *)
      unfold digits18 in Hwf3. apply andb_true_iff in Hwf3. destruct Hwf3 as [Hw1 Hw3].
      apply andb_true_iff in Hw1. destruct Hw1 as [Hw1 Hw2].
      assert (Hvne : v <> []) by (destruct v; [discriminate|discriminate]).
      pose proof (Hclv v eq_refl) as Hpd.
      assert (Hc0 : clen0 = blen (concat pieces)).
      { rewrite Eclen0. unfold get_first. rewrite Ecl. destruct v as [|c l']; [congruence|].
        rewrite (parse_int_digits (c :: l') _ Hw2 Hpd) by (eapply Z.lt_trans; [exact Hlen|]; vm_compute; reflexivity).
        assert (Hge : (0 <=? blen (concat pieces)) = true) by (clear; pose proof (blen_bound (concat pieces)); lia).
        rewrite Hge. reflexivity. }
      destruct (Hkeep (blen (concat pieces)) (or_intror (Z.le_refl _)) Hc0) as [Hacc' [Hwerr Hcp]].
      assert (Hne1 : (clen0 =? -1) = false) by (clear - Hc0; pose proof (blen_bound (concat pieces)); lia).
      destruct (sc_declared q status h clen0 hdone p Hh Hal Hte v Ecl Hvne Hne1) as [S1 [S2 [S3 [S4 S5]]]].
      fold (wh q status h clen0 hdone p) in S1, S2, S3, S4, S5. fold d in S1, S2, S3, S4, S5.
      exists 1. split; [|split; [reflexivity|exists clen0, hdone, p; reflexivity]].
      rewrite S1, Hcp.
      apply (body_len (q_minor q) status (d_fields d) (d_extra d) tail Hal Hcan Hecan Hte5 v); [exact S2| |exact Hpd].
      rewrite S3, S4. cbn [map app]. rewrite (sanitize_digits v Hw2). reflexivity.
  - (* no body *)
    exists 0. split; [|split; [reflexivity|exists clen0, hdone, p; reflexivity]].
    assert (Hnb : q_head q || negb (body_allowed_status status) = true).
    { unfold expects_b in Eex. clear - Eex. destruct (q_head q), (body_allowed_status status); cbn in *; congruence. }
    assert (Hbb : body_bytes (q_head q) (d_chunking d) ws = []).
    { unfold body_bytes. destruct (q_head q) eqn:Hh; [reflexivity|]. cbn [orb] in Hnb. apply negb_true_iff in Hnb.
      unfold d, wh. rewrite (nobody_not_chunked q status h clen0 hdone p) by (rewrite Hh, Hnb; reflexivity).
      rewrite Hnb in Ea. pose proof (accept_none pieces clen0 0) as Hn. rewrite Ea in Hn. cbn [fst] in Hn. subst acc.
      assert (ws = []).
      { destruct Hws as [[A B]|[_ A]]; [|exact A]. destruct ws as [|x ws']; [reflexivity|].
        cbn [concat] in A. cbn [forallb] in B. destruct x; [discriminate|discriminate]. }
      rewrite H. reflexivity. }
    rewrite Hbb. cbn [app]. unfold ref_parse_body. rewrite Hnb. reflexivity.
Qed.

(* ---------- non-vacuity ---------- *)
Definition ex_q : rq := {| q_minor := 1; q_head := false; q_conn := [] |}.
Definition ex_body5 : bytes := [104; 101; 108; 108; 111].
Definition ex_h1 : fields := [(s_cl, [53]); (s_ct, s_text_plain); (s_date, fixed_date)].
Definition ex_h2 : fields := [(s_ct, s_text_plain)].
Lemma parses_as_one_nonvacuous :
  wf_hdrs ex_h1 = true /\ expects_b ex_q 200 = true /\ get_all s_cl ex_h1 = [[53]] /\
  parse_dec [53] = Some (blen (concat [ex_body5])) /\
  wf_hdrs ex_h2 = true /\ get_all s_cl ex_h2 = [] /\
  snd (fst (respond ex_q (false, false, false, false) false 200 ex_h2 [repeat 97 600] false)) = false.
Proof. repeat split; vm_compute; reflexivity. Qed.


(* ---------- the end-to-end header fields are preserved ---------- *)
Lemma list_bytes_eqb_refl l : list_bytes_eqb l l = true.
Proof. induction l as [|x l IH]; [reflexivity|]. cbn. rewrite bytes_eqb_refl. exact IH. Qed.
Lemma in_has_key kv h : In kv h -> has_key (fst kv) h = true.
Proof.
  intro H. unfold has_key. apply existsb_exists. exists kv. split; [exact H|]. unfold key_is. apply bytes_eqb_refl.
Qed.
Lemma has_key_del_other k X l : bytes_eqb X k = false -> has_key k (del_key X l) = has_key k l.
Proof. intro H. rewrite !has_key_get_all, (get_all_del_other k X l H). reflexivity. Qed.

Section Headers.
Variables (q : rq) (status : Z) (h : fields) (clen : Z) (hdone : bool) (p : bytes).
Let d := wh q status h clen hdone p.
Hypothesis Hkeys : forallb key_ok h = true.
Ltac wh_unfold := unfold d, wh, write_header, wh_frame; cbn [d_fields d_extra d_chunking d_close d_clen d_head fst snd].
Ltac wh_split := cbn [is_empty negb andb orb fst snd]; repeat (match goal with |- context [if ?b then _ else _] => destruct b end; cbn [is_empty negb andb orb fst snd]).

Let h1 := if status =? 304 then del_key s_te (del_key s_cl (del_key s_ct h)) else h.
Lemma h1_date : has_key s_date h1 = has_key s_date h.
Proof. unfold h1. destruct (status =? 304); [|reflexivity]. rewrite !has_key_del_other by reflexivity. reflexivity. Qed.

(* every extra field is one of: Date (only if none supplied), Content-Type (only if none supplied and not 304),
   or a framing field *)
Lemma extra_kinds kv : In kv (d_extra d) ->
  (fst kv = s_date /\ has_key s_date h = false) \/ (fst kv = s_ct /\ has_key s_ct h = false /\ (status =? 304) = false) \/
  fst kv = s_cl \/ fst kv = s_conn \/ fst kv = s_te.
Proof.
  wh_unfold. fold h1. rewrite h1_date. unfold sniff_text.
  intro H. repeat (apply in_app_or in H; destruct H as [H|H]).
  - destruct (has_key s_date h) eqn:E; [destruct H|]. destruct H as [<-|[]]. left. split; reflexivity.
  - destruct (_ && _); [|destruct H]. destruct H as [<-|[]]. right. right. left. reflexivity.
  - destruct (status =? 304) eqn:E3; [destruct H|]. destruct (has_key s_ct h) eqn:Ec; [destruct H|].
    cbn [is_empty] in H. destruct H as [<-|[]]. right. left. repeat split.
  - match type of H with In _ (if ?b then _ else _) => destruct b end; [destruct H|]. destruct H as [<-|[]]. tauto.
  - match type of H with In _ (if ?b then _ else _) => destruct b end; [destruct H|]. destruct H as [<-|[]]. tauto.
Qed.
Lemma extra_date_once : (length (get_all s_date (d_extra d)) <= 1)%nat /\ (length (get_all s_ct (d_extra d)) <= 1)%nat.
Proof. wh_unfold. split; wh_split; rewrite ?get_all_app; cbn; lia. Qed.
End Headers.

Lemma eq_fold_false_neq k X : eq_fold k X = false -> bytes_eqb X k = false.
Proof.
  intro H. destruct (bytes_eqb X k) eqn:E; [|reflexivity]. apply bytes_eqb_eq in E. subst. rewrite eq_fold_refl in H. discriminate.
Qed.
Lemma get_all_none k (l : fields) : (forall x, In x l -> key_is k x = false) -> get_all k l = [].
Proof.
  induction l as [|x l IH]; intro H; [reflexivity|]. rewrite get_all_cons, (H x (or_introl eq_refl)). apply IH.
  intros y Hy. apply H. right. exact Hy.
Qed.

Theorem headers_preserved q status h clen hdone p : forallb key_ok h = true ->
  headers_ok status h (fs_of (d_fields (wh q status h clen hdone p)) (d_extra (wh q status h clen hdone p))) = true.
Proof.
  intro Hkeys.
  destruct (d_keys q status h clen hdone p Hkeys) as [Htok Hcan].
  pose proof (extras_canon q status h clen hdone p) as Hecan. fold (wh q status h clen hdone p) in Hecan.
  pose proof (fs_canon _ _ Hcan Hecan) as Hfsc.
  assert (Hek := extra_kinds q status h clen hdone p). assert (Hdo := extra_date_once q status h clen hdone p Hkeys).
  unfold wh in *.
  unfold headers_ok. repeat (apply andb_true_iff; split).
  - apply forallb_forall. intros kv Hin. destruct (e2e_key status (fst kv)) eqn:Ee; [|reflexivity]. cbn [implb].
    unfold e2e_key, framing_key in Ee. apply andb_true_iff in Ee. destruct Ee as [Ef Ect].
    apply negb_true_iff in Ef. apply orb_false_iff in Ef. destruct Ef as [Ef Econn]. apply orb_false_iff in Ef. destruct Ef as [Ecl Ete].
    apply negb_true_iff in Ect.
    rewrite get_all_fs_of.
    rewrite (d_fields_other q status h clen hdone p (fst kv));
      try (apply eq_fold_false_neq; assumption).
    2:{ destruct (status =? 304); [left; apply eq_fold_false_neq; cbn [andb] in Ect; exact Ect|right; reflexivity]. }
    rewrite (get_all_none (fst kv) (d_extra _)); [rewrite app_nil_r; apply list_bytes_eqb_refl|].
    intros x Hx. unfold key_is. destruct (bytes_eqb (fst kv) (fst x)) eqn:Ek; [|reflexivity]. apply bytes_eqb_eq in Ek.
    pose proof (in_has_key kv h Hin) as Hhk.
    destruct (Hek x Hx) as [[K1 K2]|[[K1 [K2 K3]]|[K1|[K1|K1]]]]; rewrite K1 in Ek; rewrite Ek in *.
    + congruence.
    + congruence.
    + rewrite eq_fold_refl in Ecl. discriminate.
    + rewrite eq_fold_refl in Econn. discriminate.
    + rewrite eq_fold_refl in Ete. discriminate.
  - apply forallb_forall. intros x Hx. unfold fs_of in Hx. apply in_map_iff in Hx. destruct Hx as [y [Hy Hin]]. subst x.
    unfold parsed. cbn [fst]. apply in_app_or in Hin. destruct Hin as [Hin|Hin].
    + apply in_map_iff in Hin. destruct Hin as [z [Hz Hin]]. subst y. unfold san. cbn [fst].
      apply (proj1 (in_sort _ _)) in Hin. apply d_fields_in in Hin. rewrite (in_has_key z h Hin).
      destruct (framing_key (fst z)); reflexivity.
    + destruct (Hek y Hin) as [[K1 K2]|[[K1 [K2 K3]]|[K1|[K1|K1]]]]; rewrite K1.
      * rewrite K2. reflexivity.
      * rewrite K2, K3. reflexivity.
      * reflexivity.
      * reflexivity.
      * reflexivity.
  - destruct (has_key s_date h) eqn:E; [reflexivity|]. cbn [orb].
    rewrite (get_all_ci_canon s_date _ (or_intror (or_intror (or_intror (or_intror (or_introl eq_refl))))) Hfsc). rewrite get_all_fs_of.
    rewrite has_key_get_all in E.
    assert (Hn : get_all s_date h = []) by (destruct (get_all s_date h); [reflexivity|discriminate]).
    rewrite (d_fields_nil q status h clen hdone p s_date Hn). cbn [map app]. rewrite map_length.
    destruct Hdo as [L1 _]. apply Z.leb_le. lia.
  - destruct (has_key s_ct h) eqn:E; [reflexivity|]. cbn [orb].
    rewrite (get_all_ci_canon s_ct _ (or_intror (or_intror (or_introl eq_refl))) Hfsc). rewrite get_all_fs_of.
    rewrite has_key_get_all in E.
    assert (Hn : get_all s_ct h = []) by (destruct (get_all s_ct h); [reflexivity|discriminate]).
    rewrite (d_fields_nil q status h clen hdone p s_ct Hn). cbn [map app]. rewrite map_length.
    destruct Hdo as [_ L1]. apply Z.leb_le. lia.
Qed.



(* WriteHeader's cleanup leaves a well-formed header alone *)
Lemma dval_bound l : forallb is_digit l = true -> 0 <= dval l 0 < 10 ^ (blen l).
Proof.
  induction l as [|d l IH] using rev_ind; intro H; [cbn; lia|].
  rewrite forallb_app in H. apply andb_true_iff in H. destruct H as [H1 H2]. cbn [forallb] in H2.
  specialize (IH H1). unfold dval in *. rewrite fold_left_app. cbn [fold_left].
  unfold blen in *. rewrite app_length. cbn [length]. rewrite Nat2Z.inj_add, Z.pow_add_r by lia.
  change (Z.of_nat 1) with 1. rewrite Z.pow_1_r. unfold is_digit in H2. lia.
Qed.
Lemma eff_wf h : wf_hdrs h = true -> eff_hdrs h = h.
Proof.
  intro Hwf. unfold wf_hdrs in Hwf. apply andb_true_iff in Hwf. destruct Hwf as [_ H3].
  unfold eff_hdrs, get_first. destruct (get_all s_cl h) as [|v [|v2 l]]; [reflexivity| |discriminate].
  unfold digits18 in H3. apply andb_true_iff in H3. destruct H3 as [H3 Hl]. apply andb_true_iff in H3. destruct H3 as [Hne Hd].
  destruct v as [|c r]; [reflexivity|].
  pose proof (dval_bound (c :: r) Hd) as Hb.
  assert (Hp : parse_dec (c :: r) = Some (dval (c :: r) 0)) by (unfold parse_dec; rewrite Hd; reflexivity).
  assert (Hlt : 10 ^ blen (c :: r) <= 10 ^ 18) by (apply Z.pow_le_mono_r; unfold blen; lia).
  rewrite (parse_int_digits (c :: r) _ Hd Hp) by lia.
  replace (0 <=? dval (c :: r) 0) with true by lia. reflexivity.
Qed.

(* ---------- the property on the model's own output, module responses ---------- *)
Lemma probe_is_probe : is_probe_response probe_bytes = true.
Proof. vm_compute. reflexivity. Qed.

Theorem prop_of_model_module i c :
  dec_C27 i = Some c -> i_src c <> 1 ->
  (q_minor (i_q c) = 0 \/ q_minor (i_q c) = 1) -> 100 <= i_status c <= 599 ->
  wf_hdrs (i_hdrs c) = true -> blen (supplied_body c) < 2 ^ 62 -> irregular c = false ->
  prop_C27 i (run_C27 i) = true.
Proof.
  intros Hdec Hsrc Hm Hst Hwf Hlen Hirr.
  unfold prop_C27, run_C27. rewrite Hdec. unfold exchange, response_of.
  assert (Es : negb (i_src c =? 1) = true) by lia. rewrite Es, (eff_wf _ Hwf).
  destruct (respond (i_q c) (false, false, false, false) (negb (i_src c =? 0)) (i_status c) (i_hdrs c) (i_pieces c) (i_err c))
    as [[out close] dr] eqn:Er.
  set (tail := if close then [] else probe_bytes).
  assert (Hreg : expects_b (i_q c) (i_status c) = true ->
                 i_err c = false /\ forall v, get_all s_cl (i_hdrs c) = [v] -> parse_dec v = Some (blen (concat (i_pieces c)))).
  { intro He. unfold irregular in Hirr. change (expects_body c) with (expects_b (i_q c) (i_status c)) in Hirr.
    rewrite He, Es in Hirr. cbn [andb] in Hirr. apply orb_false_iff in Hirr. destruct Hirr as [H1 H2]. split; [exact H1|].
    intros v Hv. unfold get_first in H2. rewrite Hv in H2.
    unfold wf_hdrs in Hwf. apply andb_true_iff in Hwf. destruct Hwf as [_ Hw]. rewrite Hv in Hw.
    unfold digits18 in Hw. apply andb_true_iff in Hw. destruct Hw as [Hw Hl18]. apply andb_true_iff in Hw. destruct Hw as [Hne Hd].
    destruct v as [|b v']; [discriminate|].
    pose proof (dval_bound (b :: v') Hd) as Hb.
    assert (Hlt : 10 ^ blen (b :: v') <= 10 ^ 18) by (apply Z.pow_le_mono_r; unfold blen; lia).
    assert (Hpd : parse_dec (b :: v') = Some (dval (b :: v') 0)) by (unfold parse_dec; rewrite Hd; reflexivity).
    rewrite Hpd in *. replace (dval (b :: v') 0 <? 2 ^ 63) with true in H2 by lia. cbn [andb] in H2.
    apply negb_false_iff in H2. apply Z.eqb_eq in H2. unfold supplied_body in H2. rewrite H2. reflexivity. }
  destruct (parses_as_one (i_q c) (negb (i_src c =? 0)) (i_status c) (i_hdrs c) (i_pieces c) (i_err c) tail out close dr
              Hwf Hm Hst Hlen Hreg Er) as [fs [fr [Hp [Hfr [cl [hd [p Hfs]]]]]]].
  { unfold tail. intro Hc. rewrite Hc. reflexivity. }
  fold tail. rewrite Hp. unfold mkp. cbn [p_status p_fields p_framing p_complete p_body p_rest].
  rewrite Z.eqb_refl, Hfs, (headers_preserved _ _ _ _ _ _ (wf_keys _ Hwf)). cbn [andb].
  change (expects_body c) with (expects_b (i_q c) (i_status c)). rewrite Hirr, Hfr.
  unfold supplied_body.
  destruct (expects_b (i_q c) (i_status c)); cbn [negb andb]; rewrite bytes_eqb_refl; cbn [andb];
    unfold tail; destruct close; cbn [is_empty orb]; try reflexivity; apply probe_is_probe.
Qed.



(* ---------- the property on the model's own output, backend replies ---------- *)
Lemma has_key_app k a b : has_key k (a ++ b) = has_key k a || has_key k b.
Proof. unfold has_key. apply existsb_app. Qed.
Lemma has_key_del_sub k X l : has_key k (del_key X l) = true -> has_key k l = true.
Proof.
  rewrite !has_key_get_all. intro H. destruct (get_all k l) eqn:E; [|reflexivity].
  rewrite (get_all_del_nil k X l E) in H. discriminate.
Qed.

(* the header seen by sendResponse differs from the one the backend sent only in framing fields *)
Lemma headers_ok_view status h h' fs :
  (forall kv, In kv h -> e2e_key status (fst kv) = true -> In kv h' /\ get_all (fst kv) h' = get_all (fst kv) h) ->
  (forall k, has_key k h' = true -> has_key k h = true \/ framing_key k = true) ->
  has_key s_date h' = has_key s_date h -> has_key s_ct h' = has_key s_ct h ->
  headers_ok status h' fs = true -> headers_ok status h fs = true.
Proof.
  intros H1 H2 Hd Hc Hok. unfold headers_ok in *.
  apply andb_true_iff in Hok. destruct Hok as [Hok O4]. apply andb_true_iff in Hok. destruct Hok as [Hok O3].
  apply andb_true_iff in Hok. destruct Hok as [O1 O2]. rewrite Hd in O3. rewrite Hc in O4. rewrite O3, O4, !andb_true_r.
  apply andb_true_iff. split.
  - apply forallb_forall. intros kv Hin. destruct (e2e_key status (fst kv)) eqn:Ee; [|reflexivity]. cbn [implb].
    destruct (H1 kv Hin Ee) as [Hin' Hg]. rewrite forallb_forall in O1. specialize (O1 kv Hin'). rewrite Ee in O1.
    cbn [implb] in O1. rewrite Hg in O1. exact O1.
  - apply forallb_forall. intros x Hx. rewrite forallb_forall in O2. specialize (O2 x Hx). rewrite Hd, Hc in O2.
    destruct (framing_key (fst x)) eqn:Ef; [reflexivity|]. cbn [orb] in *.
    destruct (has_key (fst x) h') eqn:Eh; [|destruct (has_key (fst x) h); [reflexivity|exact O2]].
    destruct (H2 _ Eh) as [K|K]; [rewrite K; reflexivity|congruence].
Qed.

Definition view_hdrs (h : fields) (framing declared : Z) : fields :=
  (if bytes_eqb (to_lower (get_first s_conn h)) s_close then del_key s_conn h else h) ++
  (if framing =? 0 then [(s_cl, dec_of_Z declared)] else []).
Lemma backend_view_hdrs is_head status h framing declared chunks tr :
  fst (fst (backend_view is_head status h framing declared chunks tr)) = view_hdrs h framing declared.
Proof.
  unfold backend_view, view_hdrs. destruct (is_head || negb (body_allowed_status status));
    destruct (framing =? 0); cbn [fst]; rewrite ?app_nil_r; reflexivity.
Qed.
Lemma e2e_not_framing status k : e2e_key status k = true ->
  bytes_eqb s_cl k = false /\ bytes_eqb s_te k = false /\ bytes_eqb s_conn k = false.
Proof.
  unfold e2e_key, framing_key. intro H. apply andb_true_iff in H. destruct H as [H _]. apply negb_true_iff in H.
  apply orb_false_iff in H. destruct H as [H H3]. apply orb_false_iff in H. destruct H as [H1 H2].
  repeat split; apply eq_fold_false_neq; assumption.
Qed.
Lemma view_e2e status h framing declared kv : In kv h -> e2e_key status (fst kv) = true ->
  In kv (view_hdrs h framing declared) /\ get_all (fst kv) (view_hdrs h framing declared) = get_all (fst kv) h.
Proof.
  intros Hin He. destruct (e2e_not_framing _ _ He) as [N1 [N2 N3]]. unfold view_hdrs.
  assert (Hd : In kv (del_key s_conn h)).
  { unfold del_key. apply filter_In. split; [exact Hin|]. unfold key_is. rewrite N3. reflexivity. }
  assert (Hc : get_all (fst kv) [(s_cl, dec_of_Z declared)] = []).
  { rewrite get_all_cons. unfold key_is. cbn [fst]. rewrite bytes_eqb_sym, N1. reflexivity. }
  destruct (bytes_eqb (to_lower (get_first s_conn h)) s_close); destruct (framing =? 0);
    (split; [apply in_or_app; left; assumption|]); rewrite get_all_app, ?Hc, ?app_nil_r, ?(get_all_del_other _ _ _ N3); reflexivity.
Qed.
Lemma view_has_key h framing declared k : has_key k (view_hdrs h framing declared) = true ->
  has_key k h = true \/ framing_key k = true.
Proof.
  unfold view_hdrs. rewrite has_key_app. intro H. apply orb_true_iff in H. destruct H as [H|H].
  - left. destruct (bytes_eqb (to_lower (get_first s_conn h)) s_close); [apply (has_key_del_sub _ _ _ H)|exact H].
  - right. destruct (framing =? 0); [|discriminate]. cbn in H. rewrite orb_false_r in H. unfold key_is in H. cbn [fst] in H.
    apply bytes_eqb_eq in H. subst k. reflexivity.
Qed.
Lemma view_has_other h framing declared k : bytes_eqb s_conn k = false -> bytes_eqb s_cl k = false ->
  has_key k (view_hdrs h framing declared) = has_key k h.
Proof.
  intros N1 N2. unfold view_hdrs. rewrite has_key_app.
  assert (Hc : has_key k [(s_cl, dec_of_Z declared)] = false).
  { cbn. unfold key_is. cbn [fst]. rewrite bytes_eqb_sym, N2. reflexivity. }
  destruct (bytes_eqb (to_lower (get_first s_conn h)) s_close); destruct (framing =? 0);
    rewrite ?Hc, ?(has_key_del_other _ _ _ N1), ?orb_false_r; reflexivity.
Qed.
Lemma view_wf h framing declared : wf_hdrs h = true -> get_all s_cl h = [] -> digits18 (dec_of_Z declared) = true ->
  wf_hdrs (view_hdrs h framing declared) = true.
Proof.
  intros Hwf Hcl Hd. pose proof (wf_keys _ Hwf) as Hk. pose proof (wf_te _ Hwf) as Hte.
  unfold wf_hdrs. repeat (apply andb_true_iff; split).
  - unfold view_hdrs. rewrite forallb_app. apply andb_true_iff. split.
    + destruct (bytes_eqb (to_lower (get_first s_conn h)) s_close); [apply forallb_del|]; exact Hk.
    + destruct (framing =? 0); reflexivity.
  - rewrite (view_has_other h framing declared s_te) by reflexivity. rewrite has_key_get_all, Hte. reflexivity.
  - unfold view_hdrs. rewrite get_all_app.
    destruct (bytes_eqb (to_lower (get_first s_conn h)) s_close); rewrite ?(get_all_del_nil _ _ _ Hcl), ?Hcl;
      (destruct (framing =? 0); [|reflexivity]); cbn [app]; rewrite get_all_cons; cbn; exact Hd.
Qed.
Lemma view_cl h framing declared v : get_all s_cl h = [] -> get_all s_cl (view_hdrs h framing declared) = [v] ->
  framing = 0 /\ v = dec_of_Z declared.
Proof.
  intros Hcl. unfold view_hdrs. rewrite get_all_app.
  destruct (bytes_eqb (to_lower (get_first s_conn h)) s_close); rewrite ?(get_all_del_nil _ _ _ Hcl), ?Hcl;
    (destruct (framing =? 0) eqn:Ef; [|discriminate]); cbn [app]; rewrite get_all_cons; cbn; intro H; injection H as <-;
    (split; [lia|reflexivity]).
Qed.

Theorem prop_of_model_backend i c :
  dec_C27 i = Some c -> i_src c = 1 ->
  (q_minor (i_q c) = 0 \/ q_minor (i_q c) = 1) -> 100 <= i_status c <= 599 ->
  wf_hdrs (i_hdrs c) = true -> get_all s_cl (i_hdrs c) = [] -> digits18 (dec_of_Z (i_declared c)) = true ->
  0 <= i_declared c < 10 ^ 80 ->
  blen (supplied_body c) < 2 ^ 62 -> irregular c = false ->
  prop_C27 i (run_C27 i) = true.
Proof.
  intros Hdec Hsrc Hm Hst Hwf Hncl Hdd Hdr Hlen Hirr.
  unfold prop_C27, run_C27. rewrite Hdec. unfold exchange, response_of.
  assert (Es : negb (i_src c =? 1) = false) by lia. rewrite Es.
  assert (Es0 : negb (i_src c =? 0) = true) by lia. rewrite Es0.
  destruct (backend_view (q_head (i_q c)) (i_status c) (i_hdrs c) (i_framing c) (i_declared c) (i_pieces c) (i_err c))
    as [[h' ps'] e'] eqn:Ev.
  pose proof (backend_view_hdrs (q_head (i_q c)) (i_status c) (i_hdrs c) (i_framing c) (i_declared c) (i_pieces c) (i_err c)) as Hh'.
  rewrite Ev in Hh'. cbn [fst] in Hh'. subst h'.
  assert (Hps : expects_b (i_q c) (i_status c) = true -> ps' = filter (fun x => negb (is_empty x)) (i_pieces c) /\ e' = i_err c).
  { intro He. unfold expects_b in He. unfold backend_view in Ev.
    assert (En : q_head (i_q c) || negb (body_allowed_status (i_status c)) = false).
    { clear - He. destruct (q_head (i_q c)), (body_allowed_status (i_status c)); cbn in *; congruence. }
    rewrite En in Ev. injection Ev as _ E2 E3. split; congruence. }
  assert (Hps0 : expects_b (i_q c) (i_status c) = false -> ps' = []).
  { intro He. unfold expects_b in He. unfold backend_view in Ev.
    assert (En : q_head (i_q c) || negb (body_allowed_status (i_status c)) = true).
    { clear - He. destruct (q_head (i_q c)), (body_allowed_status (i_status c)); cbn in *; congruence. }
    rewrite En in Ev. injection Ev as _ E2 E3. congruence. }
  destruct (respond (i_q c) (false, false, false, false) true (i_status c) (view_hdrs (i_hdrs c) (i_framing c) (i_declared c)) ps' e')
    as [[out close] dr] eqn:Er.
  set (tail := if close then [] else probe_bytes).
  pose proof (view_wf _ (i_framing c) (i_declared c) Hwf Hncl Hdd) as Hwf'.
  assert (Hcp : concat ps' = if expects_b (i_q c) (i_status c) then concat (i_pieces c) else []).
  { destruct (expects_b (i_q c) (i_status c)) eqn:He.
    - destruct (Hps eq_refl) as [-> _]. apply concat_filter_nonempty.
    - rewrite (Hps0 eq_refl). reflexivity. }
  assert (Hlen' : blen (concat ps') < 2 ^ 62).
  { rewrite Hcp. destruct (expects_b _ _); [exact Hlen|]. vm_compute. reflexivity. }
  assert (Hreg : expects_b (i_q c) (i_status c) = true ->
                 e' = false /\ forall v, get_all s_cl (view_hdrs (i_hdrs c) (i_framing c) (i_declared c)) = [v] ->
                                         parse_dec v = Some (blen (concat ps'))).
  { intro He. destruct (Hps He) as [_ He']. unfold irregular in Hirr.
    change (expects_body c) with (expects_b (i_q c) (i_status c)) in Hirr.
    rewrite He, Es in Hirr. cbn [andb] in Hirr. apply orb_false_iff in Hirr. destruct Hirr as [I1 I2].
    split; [congruence|]. intros v Hv. rewrite Hcp, He.
    destruct (view_cl _ _ _ _ Hncl Hv) as [Ef ->]. rewrite Ef in I2. cbn [Z.eqb andb] in I2.
    apply negb_false_iff in I2. apply Z.eqb_eq in I2.
    unfold supplied_body in I2. rewrite <- I2. apply parse_dec_dec_of_Z. exact Hdr. }
  destruct (parses_as_one (i_q c) true (i_status c) _ ps' e' tail out close dr Hwf' Hm Hst Hlen' Hreg Er)
    as [fs [fr [Hp [Hfr [cl [hd [p Hfs]]]]]]].
  { unfold tail. intro Hc. rewrite Hc. reflexivity. }
  fold tail. rewrite Hp. unfold mkp. cbn [p_status p_fields p_framing p_complete p_body p_rest].
  rewrite Z.eqb_refl, Hfs.
  rewrite (headers_ok_view (i_status c) (i_hdrs c) (view_hdrs (i_hdrs c) (i_framing c) (i_declared c))).
  2:{ intros kv Hin He. apply (view_e2e (i_status c)); assumption. }
  2:{ apply view_has_key. }
  2:{ apply view_has_other; reflexivity. }
  2:{ apply view_has_other; reflexivity. }
  2:{ apply headers_preserved. apply wf_keys. exact Hwf'. }
  cbn [andb]. change (expects_body c) with (expects_b (i_q c) (i_status c)). rewrite Hirr, Hfr, Hcp.
  unfold supplied_body.
  destruct (expects_b (i_q c) (i_status c)); cbn [negb andb]; rewrite bytes_eqb_refl; cbn [andb];
    unfold tail; destruct close; cbn [is_empty orb]; try reflexivity; apply probe_is_probe.
Qed.

Definition witness_200 : val :=
  VL [VZ 1; VZ 0; VB []; VZ 2; VZ 200; VL [VL [VB s_cl; VB [53]]; VL [VB s_ct; VB s_text_plain]]; VZ 0; VZ 0;
      VL [VB [104;101]; VB [108;108;111]]; VZ 0].
Lemma prop_of_model_nonvacuous :
  exists c, dec_C27 witness_200 = Some c /\ i_src c <> 1 /\ wf_hdrs (i_hdrs c) = true /\
            expects_body c = true /\ irregular c = false /\ blen (supplied_body c) = 5.
Proof. eexists. split; [vm_compute; reflexivity|]. repeat split; try (vm_compute; reflexivity). vm_compute. discriminate. Qed.
