(* Proofs about the C27 model (Http1Resp.v / RunC27.v). *)
From Coq Require Import List ZArith Bool Lia ZifyBool.
From Bfe Require Import lib.Val lib.Bytes model.Http1Resp run.RunC27.
Import ListNotations.
Open Scope Z_scope.

(* ---------- bytes / lines (adapted from the request-side proofs of C25) ---------- *)
Definition no_crlf (l : bytes) : bool := forallb (fun b => negb ((b =? 13) || (b =? 10))) l.
Lemma tchar_range b : is_tchar b = true -> 33 <= b <= 126 /\ b <> 58.
Proof. unfold is_tchar, is_digit. cbn [existsb]. lia. Qed.
Lemma forallb_impl {A} (P Q : A -> bool) l :
  (forall x, P x = true -> Q x = true) -> forallb P l = true -> forallb Q l = true.
Proof.
  intros H. induction l as [|x l IH]; simpl; [reflexivity|]. intro E. apply andb_true_iff in E. destruct E as [E1 E2].
  rewrite (H _ E1), (IH E2). reflexivity.
Qed.
Lemma split_crlf_app l r : no_crlf l = true -> split_crlf (l ++ 13 :: 10 :: r) = Some (l, r).
Proof.
  unfold no_crlf. induction l as [|x l IH]; intro H.
  - reflexivity.
  - cbn [forallb] in H. apply andb_true_iff in H. destruct H as [H1 H2].
    cbn [app split_crlf]. destruct (x =? 13) eqn:E13; [cbn in H1; discriminate|].
    destruct (x =? 10) eqn:E10; [rewrite orb_true_r in H1; discriminate|].
    rewrite (IH H2). reflexivity.
Qed.
Definition nosep (c : Z) (a : bytes) : bool := forallb (fun b => negb (b =? c)) a.
Lemma index_byte_app c k r : nosep c k = true -> index_byte c (k ++ c :: r) = Some (length k).
Proof.
  unfold nosep. induction k as [|x k IH]; intro H.
  - cbn. rewrite Z.eqb_refl. reflexivity.
  - cbn [forallb] in H. apply andb_true_iff in H. destruct H as [H1 H2]. apply negb_true_iff in H1.
    cbn [app index_byte length]. rewrite H1, (IH H2). reflexivity.
Qed.
Lemma token_nosep c k : is_token k = true -> (c < 33 \/ c = 58 \/ 126 < c) -> nosep c k = true.
Proof.
  intros Ht Hc. unfold nosep. destruct k as [|x k]; [discriminate|]. unfold is_token in Ht.
  apply (forallb_impl is_tchar); [|exact Ht]. intros b Hb. apply tchar_range in Hb. lia.
Qed.
Lemma token_no_crlf k : is_token k = true -> no_crlf k = true.
Proof.
  intro Ht. unfold no_crlf. destruct k as [|x k]; [discriminate|]. unfold is_token in Ht.
  apply (forallb_impl is_tchar); [|exact Ht]. intros b Hb. apply tchar_range in Hb. lia.
Qed.
Lemma no_crlf_app a b : no_crlf (a ++ b) = no_crlf a && no_crlf b.
Proof. unfold no_crlf. apply forallb_app. Qed.

(* ---------- one header line, a block of header lines ---------- *)
Definition line (kv : bytes * bytes) : bytes := fst kv ++ colon_sp ++ snd kv ++ crlf.
Definition good_kv (kv : bytes * bytes) : bool := is_token (fst kv) && no_crlf (snd kv).
Definition parsed (kv : bytes * bytes) : bytes * bytes := (fst kv, trim is_space (snd kv)).
Lemma strict_field_line k v : is_token k = true -> strict_field (k ++ colon_sp ++ v) = Some (k, trim is_space v).
Proof.
  intro Ht. unfold strict_field, colon_sp. cbn [app].
  rewrite (index_byte_app 58 k (32 :: v)) by (apply token_nosep; [exact Ht|lia]).
  rewrite firstn_app, Nat.sub_diag, firstn_all. cbn [firstn]. rewrite app_nil_r, Ht.
  replace (skipn (S (length k)) (k ++ 58 :: 32 :: v)) with (32 :: v); [reflexivity|].
  clear Ht. induction k as [|x k IH]; [reflexivity|]. cbn [length app]. rewrite skipn_cons. exact IH.
Qed.
Lemma strict_fields_lines : forall L fuel acc B,
  forallb good_kv L = true -> (length L < fuel)%nat ->
  strict_fields fuel (concat (map line L) ++ 13 :: 10 :: B) acc = Some (rev acc ++ map parsed L, B).
Proof.
  induction L as [|kv L IH]; intros fuel acc B Hg Hf.
  - destruct fuel as [|f]; [inversion Hf|]. cbn. rewrite app_nil_r. reflexivity.
  - destruct fuel as [|f]; [inversion Hf|].
    cbn [forallb] in Hg. apply andb_true_iff in Hg. destruct Hg as [Hk HL].
    unfold good_kv in Hk. apply andb_true_iff in Hk. destruct Hk as [Hk Hv].
    cbn [map concat]. unfold line at 1. unfold crlf.
    replace (((fst kv ++ colon_sp ++ snd kv ++ [13; 10]) ++ concat (map line L)) ++ 13 :: 10 :: B)
      with ((fst kv ++ colon_sp ++ snd kv) ++ 13 :: 10 :: (concat (map line L) ++ 13 :: 10 :: B)).
    2:{ rewrite <- !app_assoc. reflexivity. }
    cbn [strict_fields]. rewrite split_crlf_app.
    2:{ rewrite !no_crlf_app, (token_no_crlf _ Hk), Hv. reflexivity. }
    destruct (fst kv ++ colon_sp ++ snd kv) as [|c l] eqn:El.
    { destruct (fst kv); [discriminate|discriminate]. }
    rewrite <- El, (strict_field_line _ _ Hk).
    rewrite IH; [|exact HL|simpl in Hf; lia].
    cbn [rev map]. unfold parsed at 2. rewrite <- app_assoc. reflexivity.
Qed.

(* ---------- decimal text round trip ---------- *)
Definition dval (l : bytes) (a : Z) : Z := fold_left (fun a b => a * 10 + (b - 48)) l a.
Lemma dval_acc l : forall a, dval l a = a * 10 ^ (blen l) + dval l 0.
Proof.
  unfold blen. induction l as [|d l IH]; intro a; cbn [dval fold_left length].
  - simpl. lia.
  - fold (dval l (a * 10 + (d - 48))). fold (dval l (0 * 10 + (d - 48))).
    rewrite (IH (a * 10 + (d - 48))), (IH (0 * 10 + (d - 48))).
    rewrite Nat2Z.inj_succ, Z.pow_succ_r by lia. ring.
Qed.
Lemma dec_digits_spec : forall fuel n acc,
  0 <= n < 10 ^ (Z.of_nat fuel) -> (0 < fuel)%nat -> forallb is_digit acc = true ->
  forallb is_digit (dec_digits fuel n acc) = true /\
  dval (dec_digits fuel n acc) 0 = n * 10 ^ (blen acc) + dval acc 0 /\
  dec_digits fuel n acc <> [].
Proof.
  induction fuel as [|f IH]; intros n acc Hn Hf Ha; [inversion Hf|].
  cbn [dec_digits].
  assert (Hd : is_digit (48 + n mod 10) = true).
  { unfold is_digit. pose proof (Z.mod_pos_bound n 10). lia. }
  assert (Hv : dval ((48 + n mod 10) :: acc) 0 = (n mod 10) * 10 ^ (blen acc) + dval acc 0).
  { cbn [dval fold_left]. fold (dval acc (0 * 10 + (48 + n mod 10 - 48))). rewrite dval_acc.
    replace (0 * 10 + (48 + n mod 10 - 48)) with (n mod 10) by lia. reflexivity. }
  destruct (n / 10 =? 0) eqn:E.
  - apply Z.eqb_eq in E. repeat split.
    + cbn [forallb]. rewrite Hd, Ha. reflexivity.
    + rewrite Hv. assert (Hnm : n = n mod 10) by (pose proof (Z.div_mod n 10); lia). rewrite <- Hnm. reflexivity.
    + discriminate.
  - apply Z.eqb_neq in E.
    assert (Hn' : 0 <= n / 10 < 10 ^ Z.of_nat f).
    { rewrite Nat2Z.inj_succ, Z.pow_succ_r in Hn by lia. split; [apply Z.div_pos; lia|].
      apply Z.div_lt_upper_bound; lia. }
    assert (Hf' : (0 < f)%nat).
    { destruct f; [|lia]. simpl in Hn'. assert (n / 10 = 0) by lia. congruence. }
    destruct (IH (n / 10) ((48 + n mod 10) :: acc) Hn' Hf') as [I1 [I2 I3]].
    { cbn [forallb]. rewrite Hd, Ha. reflexivity. }
    repeat split; [exact I1| |exact I3].
    rewrite I2, Hv. unfold blen. cbn [length]. rewrite Nat2Z.inj_succ, Z.pow_succ_r by lia.
    assert (Hdm : n = 10 * (n / 10) + n mod 10) by (apply Z.div_mod; lia).
    set (q := n / 10) in *. set (m := n mod 10) in *. set (p := 10 ^ Z.of_nat (length acc)).
    replace (n * p) with ((10 * q + m) * p) by (rewrite <- Hdm; reflexivity). ring.
Qed.
Lemma parse_dec_dec_of_Z n : 0 <= n < 10 ^ 80 ->
  parse_dec (dec_of_Z n) = Some n /\ forallb is_digit (dec_of_Z n) = true.
Proof.
  intro Hn. unfold dec_of_Z. destruct (n <? 0) eqn:E; [lia|].
  destruct (dec_digits_spec 80 n [] ltac:(simpl; lia) ltac:(lia) eq_refl) as [H1 [H2 H3]].
  split; [|exact H1]. unfold parse_dec. destruct (dec_digits 80 n []) as [|z0 l0] eqn:Ed; [congruence|].
  rewrite H1. f_equal. change (dval (z0 :: l0) 0 = n). rewrite H2. cbn. lia.
Qed.
Lemma trim_left_head f x r : f x = false -> trim_left f (x :: r) = x :: r.
Proof. intro H. cbn. rewrite H. reflexivity. Qed.
Lemma trim_id f l : forallb (fun b => negb (f b)) l = true -> trim f l = l.
Proof.
  intro H. unfold trim, trim_right.
  assert (H1 : trim_left f l = l).
  { destruct l as [|x r]; [reflexivity|]. cbn [forallb] in H. apply andb_true_iff in H. destruct H as [H _].
    apply negb_true_iff in H. apply trim_left_head. exact H. }
  rewrite H1.
  assert (H2 : forallb (fun b => negb (f b)) (rev l) = true).
  { apply forallb_forall. intros x Hx. apply in_rev in Hx. revert x Hx. apply forallb_forall. exact H. }
  destruct (rev l) as [|x r] eqn:Er.
  - cbn. destruct l; [reflexivity|]. apply (f_equal (@length Z)) in Er. rewrite rev_length in Er. discriminate.
  - cbn [forallb] in H2. apply andb_true_iff in H2. destruct H2 as [H2 _]. apply negb_true_iff in H2.
    rewrite (trim_left_head _ _ _ H2). rewrite <- Er. apply rev_involutive.
Qed.
Lemma digits_trim f l : (forall b, is_digit b = true -> f b = false) -> forallb is_digit l = true -> trim f l = l.
Proof.
  intros Hf H. apply trim_id. apply (forallb_impl is_digit); [|exact H].
  intros b Hb. rewrite (Hf b Hb). reflexivity.
Qed.

(* ---------- hexadecimal chunk-size round trip ---------- *)
Definition hv (l : bytes) (a : Z) : Z := fold_left (fun a b => a * 16 + hexv b) l a.
Lemma hv_acc l : forall a, hv l a = a * 16 ^ (blen l) + hv l 0.
Proof.
  unfold blen. induction l as [|d l IH]; intro a; cbn [hv fold_left length].
  - simpl. lia.
  - fold (hv l (a * 16 + hexv d)). fold (hv l (0 * 16 + hexv d)).
    rewrite (IH (a * 16 + hexv d)), (IH (0 * 16 + hexv d)).
    rewrite Nat2Z.inj_succ, Z.pow_succ_r by lia. ring.
Qed.
Lemma hex_digit_ok d : 0 <= d < 16 -> ishex (hex_digit d) = true /\ hexv (hex_digit d) = d /\ hex_digit d <> 13 /\ hex_digit d <> 10.
Proof.
  intro H. unfold ishex, hexv, hex_digit, is_digit. destruct (d <? 10) eqn:E.
  - replace (48 + d <=? 57) with true by lia. repeat split; lia.
  - replace (87 + d <=? 57) with false by lia. replace (87 + d <=? 70) with false by lia. repeat split; lia.
Qed.
Lemma hex_digits_spec : forall fuel n acc (k : nat),
  0 <= n < 16 ^ (Z.of_nat k) -> (0 < k <= fuel)%nat -> forallb ishex acc = true -> no_crlf acc = true ->
  forallb ishex (hex_digits fuel n acc) = true /\ hv (hex_digits fuel n acc) 0 = n * 16 ^ (blen acc) + hv acc 0 /\ hex_digits fuel n acc <> [] /\ (length (hex_digits fuel n acc) <= length acc + k)%nat /\ no_crlf (hex_digits fuel n acc) = true.
Proof.
  induction fuel as [|f IH]; intros n acc k Hn Hk Ha Hc; [lia|].
  cbn [hex_digits].
  assert (Hm : 0 <= n mod 16 < 16) by (apply Z.mod_pos_bound; lia).
  destruct (hex_digit_ok _ Hm) as [D1 [D2 [D3 D4]]].
  assert (Hv : hv (hex_digit (n mod 16) :: acc) 0 = (n mod 16) * 16 ^ (blen acc) + hv acc 0).
  { cbn [hv fold_left]. fold (hv acc (0 * 16 + hexv (hex_digit (n mod 16)))). rewrite hv_acc, D2.
    replace (0 * 16 + n mod 16) with (n mod 16) by lia. reflexivity. }
  assert (Hc' : no_crlf (hex_digit (n mod 16) :: acc) = true).
  { unfold no_crlf in *. cbn [forallb]. rewrite Hc, andb_true_r.
    apply negb_true_iff. apply orb_false_iff. split; apply Z.eqb_neq; assumption. }
  destruct (n / 16 =? 0) eqn:E.
  - apply Z.eqb_eq in E. repeat split.
    + cbn [forallb]. rewrite D1, Ha. reflexivity.
    + rewrite Hv. assert (Hnm : n = n mod 16) by (pose proof (Z.div_mod n 16); lia). rewrite <- Hnm. reflexivity.
    + discriminate.
    + cbn [length]. lia.
    + exact Hc'.
  - apply Z.eqb_neq in E.
    destruct k as [|k']; [lia|].
    assert (Hn' : 0 <= n / 16 < 16 ^ Z.of_nat k').
    { rewrite Nat2Z.inj_succ, Z.pow_succ_r in Hn by lia. split; [apply Z.div_pos; lia|].
      apply Z.div_lt_upper_bound; lia. }
    assert (Hk' : (0 < k' <= f)%nat).
    { split; [|lia]. destruct k'; [|lia]. simpl in Hn'. assert (n / 16 = 0) by lia. congruence. }
    destruct (IH (n / 16) (hex_digit (n mod 16) :: acc) k' Hn' Hk') as [I1 [I2 [I3 [I4 I5]]]].
    { cbn [forallb]. rewrite D1, Ha. reflexivity. }
    { exact Hc'. }
    repeat split; [exact I1| |exact I3| |exact I5].
    + rewrite I2, Hv. unfold blen. cbn [length]. rewrite Nat2Z.inj_succ, Z.pow_succ_r by lia.
      assert (Hdm : n = 16 * (n / 16) + n mod 16) by (apply Z.div_mod; lia).
      set (q := n / 16) in *. set (m := n mod 16) in *. set (p := 16 ^ Z.of_nat (length acc)).
      replace (n * p) with ((16 * q + m) * p) by (rewrite <- Hdm; reflexivity). ring.
    + cbn [length] in I4. lia.
Qed.
Lemma parse_hex_line_hex_of_Z n : 0 <= n < 16 ^ 16 ->
  parse_hex_line (hex_of_Z n) = Some n /\ no_crlf (hex_of_Z n) = true.
Proof.
  intro Hn. unfold hex_of_Z.
  destruct (hex_digits_spec 20 n [] 16 ltac:(simpl; lia) ltac:(lia) eq_refl eq_refl) as [H1 [H2 [H3 [H4 H5]]]].
  split; [|exact H5]. unfold parse_hex_line.
  destruct (hex_digits 20 n []) as [|z0 l0] eqn:Ed; [congruence|].
  cbn [length] in H4. rewrite H1.
  replace (Z.of_nat (length (z0 :: l0)) <=? 16) with true by (cbn [length]; lia).
  cbn [andb]. change (fold_left (fun a b : Z => a * 16 + hexv b) (z0 :: l0) 0) with (hv (z0 :: l0) 0).
  rewrite H2. cbn. f_equal. lia.
Qed.
Lemma skipn_app_len {A} (a b : list A) : skipn (length a) (a ++ b) = b.
Proof. induction a as [|x a IH]; [reflexivity|]. cbn [length app]. rewrite skipn_cons. exact IH. Qed.
Lemma firstn_app_len {A} (a b : list A) : firstn (length a) (a ++ b) = a.
Proof. induction a as [|x a IH]; [reflexivity|]. cbn [length app firstn]. rewrite IH. reflexivity. Qed.

(* what the chunkWriter wrote for a list of non-empty writes decodes to their concatenation, whatever follows *)
Lemma strict_chunks_written : forall ws fuel acc t,
  forallb (fun d => negb (is_empty d) && (blen d <? 16 ^ 16)) ws = true -> (length ws < fuel)%nat ->
  strict_chunks fuel (concat (map write_chunk ws) ++ last_chunk ++ t) acc = Some (acc ++ concat ws, t, true).
Proof.
  induction ws as [|d ws IH]; intros fuel acc t Hb Hf.
  - destruct fuel as [|f]; [inversion Hf|]. cbn. rewrite app_nil_r. reflexivity.
  - cbn [forallb] in Hb. apply andb_true_iff in Hb. destruct Hb as [Hd Hws].
    apply andb_true_iff in Hd. destruct Hd as [Hne Hlt].
    destruct fuel as [|f]; [inversion Hf|].
    destruct d as [|d0 d']; [discriminate|]. set (d := d0 :: d') in *.
    assert (Hn : 0 <= blen d < 16 ^ 16) by (unfold blen in *; lia).
    destruct (parse_hex_line_hex_of_Z _ Hn) as [Hp Hc].
    cbn [map concat]. unfold write_chunk at 1. unfold crlf.
    replace (((hex_of_Z (blen d) ++ [13; 10] ++ d ++ [13; 10]) ++ concat (map write_chunk ws)) ++ last_chunk ++ t)
      with (hex_of_Z (blen d) ++ 13 :: 10 :: (d ++ 13 :: 10 :: (concat (map write_chunk ws) ++ last_chunk ++ t))).
    2:{ rewrite <- !app_assoc. reflexivity. }
    cbn [strict_chunks].
    destruct (hex_of_Z (blen d) ++ 13 :: 10 :: d ++ 13 :: 10 :: concat (map write_chunk ws) ++ last_chunk ++ t) as [|c0 l0] eqn:El.
    { destruct (hex_of_Z (blen d)); discriminate. }
    rewrite <- El. rewrite (split_crlf_app _ _ Hc), Hp.
    replace (blen d =? 0) with false by (unfold blen, d; cbn [length]; lia).
    replace (blen (d ++ 13 :: 10 :: concat (map write_chunk ws) ++ last_chunk ++ t) <=? blen d) with false.
    2:{ unfold blen. rewrite app_length. cbn [length]. lia. }
    unfold blen. rewrite Nat2Z.id, skipn_app_len, firstn_app_len.
    rewrite IH; [|exact Hws|simpl in Hf; lia].
    cbn [concat]. rewrite <- app_assoc. reflexivity.
Qed.

(* the exchange as the pre-fix code performed it *)
Definition old_exchange (c : c27in) : bytes :=
  let '(h, pieces, err) := response_of c in
  let '(out, close, _) := respond_old (i_q c) (false, false, false) (negb (i_src c =? 0)) (i_status c) h pieces err in
  out ++ (if close then [] else probe_bytes).
Definition old_exchange_of (i : val) : bytes :=
  match dec_C27 i with Some c => old_exchange c | None => [] end.

Definition witness_204 : val :=
  VL [VZ 1; VZ 0; VB []; VZ 0; VZ 204; VL [VL [VB s_cl; VB [53]]]; VZ 0; VZ 0; VL [VB [104;101;108;108;111]]; VZ 0].

Lemma old_bodyless_refuted :
  exists i, dec_C27 i <> None /\
    prop_C27 i (VB (old_exchange_of i)) = false /\ prop_C27 i (run_C27 i) = true.
Proof. exists witness_204. split; [discriminate|]. split; vm_compute; reflexivity. Qed.
