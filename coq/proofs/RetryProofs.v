(* C08 proofs about model/Retry.v *)
From Coq Require Import List ZArith Bool Lia Arith Sorted.
From Bfe Require Import lib.Val model.Retry.
Import ListNotations.
Open Scope Z_scope.

(* ---- invariants of the loop: RetryTime values of the RoundTrips are strictly increasing, start at >= rt, and stay
   within the budget ---- *)
Lemma raise_ge c rt : rt <= raise c rt.
Proof. unfold raise. destruct (rt <=? retry_max c) eqn:E; lia. Qed.

Lemma raise_le_budget c rt : 0 <= cross_retry c -> rt <= retry_max c + cross_retry c -> raise c rt <= retry_max c + cross_retry c.
Proof. unfold raise. destruct (rt <=? retry_max c) eqn:E; lia. Qed.

Lemma loop_times fuel c r : forall rt evs,
  0 <= cross_retry c ->
  Forall (fun a => rt <= fst a <= retry_max c + cross_retry c) (retry_loop fuel c r rt evs)
  /\ StronglySorted (fun a b => fst a < fst b) (retry_loop fuel c r rt evs).
Proof.
  induction fuel as [|f IH]; intros rt evs Hc; cbn [retry_loop]; [split; constructor|].
  destruct (retry_max c + cross_retry c <? rt) eqn:B; [split; constructor|].
  apply Z.ltb_ge in B.
  destruct evs as [|e evs]; [split; constructor|].
  destruct e as [| |j o]; [split; constructor| |].
  - destruct (IH (raise c rt + 1) evs Hc) as [F S]. split; [|exact S].
    eapply Forall_impl; [|exact F]. cbn. intros a [H1 H2]. pose proof (raise_ge c rt). lia.
  - set (rt1 := if j then raise c rt else rt).
    assert (R1 : rt <= rt1 <= retry_max c + cross_retry c).
    { unfold rt1. destruct j; [split; [apply raise_ge|apply raise_le_budget; assumption]|lia]. }
    destruct (allow_retry c r o).
    + destruct (IH (rt1 + 1) evs Hc) as [F S]. split.
      * constructor; [cbn; lia|]. eapply Forall_impl; [|exact F]. cbn. intros a [H1 H2]. lia.
      * constructor; [exact S|]. eapply Forall_impl; [|exact F]. cbn. intros a [H1 H2]. lia.
    + split; [constructor; [cbn; lia|constructor]|constructor; constructor].
Qed.

(* a strictly increasing list of integers within [lo, hi] has at most hi - lo + 1 elements *)
Lemma sorted_bounded_length (l : list (Z * outcome)) : forall lo hi,
  Forall (fun a => lo <= fst a <= hi) l -> StronglySorted (fun a b => fst a < fst b) l ->
  Z.of_nat (length l) <= Z.max 0 (hi - lo + 1).
Proof.
  induction l as [|a l IH]; intros lo hi F S; [cbn; lia|].
  inversion F as [|? ? Ha Fl]; subst. inversion S as [|? ? Sl Hall]; subst.
  assert (F' : Forall (fun b => fst a + 1 <= fst b <= hi) l).
  { rewrite Forall_forall in *. intros b Hb. specialize (Fl b Hb). specialize (Hall b Hb). lia. }
  specialize (IH (fst a + 1) hi F' Sl). cbn [length]. rewrite Nat2Z.inj_succ. lia.
Qed.

Lemma loop_length_fuel fuel c r : forall rt evs, (length (retry_loop fuel c r rt evs) <= fuel)%nat.
Proof.
  induction fuel as [|f IH]; intros rt evs; cbn [retry_loop]; [cbn; lia|].
  destruct (retry_max c + cross_retry c <? rt); [cbn; lia|].
  destruct evs as [|e evs]; [cbn; lia|].
  destruct e as [| |j o]; [cbn; lia| |].
  - specialize (IH (raise c rt + 1) evs). lia.
  - destruct (allow_retry c r o); [cbn [length]; specialize (IH ((if j then raise c rt else rt) + 1) evs); lia|cbn; lia].
Qed.

Theorem bounded c r evs :
  0 <= retry_max c -> 0 <= cross_retry c ->
  Z.of_nat (length (attempts c r evs)) <= Z.min 20 (1 + retry_max c + cross_retry c).
Proof.
  intros Hm Hc. unfold attempts. apply Z.min_glb.
  - pose proof (loop_length_fuel 20 c r 0 evs). lia.
  - destruct (loop_times 20 c r 0 evs Hc) as [F S].
    pose proof (sorted_bounded_length _ 0 (retry_max c + cross_retry c) F S). lia.
Qed.

(* ---- resend only if safe ---- *)
Lemma loop_resend fuel c r : forall rt evs k a b,
  nth_error (retry_loop fuel c r rt evs) k = Some a ->
  nth_error (retry_loop fuel c r rt evs) (S k) = Some b ->
  allow_retry c r (snd a) = true.
Proof.
  induction fuel as [|f IH]; intros rt evs k a b Ha Hb; cbn [retry_loop] in *; [destruct k; discriminate|].
  destruct (retry_max c + cross_retry c <? rt); [destruct k; discriminate|].
  destruct evs as [|e evs]; [destruct k; discriminate|].
  destruct e as [| |j o]; [destruct k; discriminate| |].
  - eapply IH; eassumption.
  - destruct (allow_retry c r o) eqn:AR.
    + destruct k as [|k]; cbn [nth_error] in *.
      * inversion Ha; subst. exact AR.
      * eapply IH; eassumption.
    + destruct k as [|k]; cbn [nth_error] in *; [discriminate|destruct k; discriminate].
Qed.

Theorem resend_only_if_safe c r evs k a b :
  nth_error (attempts c r evs) k = Some a ->
  nth_error (attempts c r evs) (S k) = Some b ->
  snd a = ConnectErr \/ (is_get r = true /\ bodyless r = true /\ retry_level c = RetryGet).
Proof.
  unfold attempts. intros Ha Hb. pose proof (loop_resend 20 c r 0 evs k a b Ha Hb) as H.
  destruct (snd a); cbn in H; try discriminate; auto;
    right; unfold check_allow_retry in H; apply andb_true_iff in H; destruct H as [H1 H3];
    apply andb_true_iff in H1; destruct H1 as [H1 H2]; apply Z.eqb_eq in H1; auto.
Qed.

(* ---- a request that is not a body-less GET under RetryGet gets past connecting at most once ---- *)
Definition past_connect (a : Z * outcome) : bool := match snd a with ConnectErr => false | _ => true end.

Lemma loop_no_replay fuel c r : check_allow_retry c r = false -> forall rt evs,
  (length (filter past_connect (retry_loop fuel c r rt evs)) <= 1)%nat
  /\ (forall k a, nth_error (retry_loop fuel c r rt evs) k = Some a -> past_connect a = true ->
                  S k = length (retry_loop fuel c r rt evs)).
Proof.
  intro NA. induction fuel as [|f IH]; intros rt evs; cbn [retry_loop]; [split; [cbn; lia|intros [|k] a H; discriminate]|].
  destruct (retry_max c + cross_retry c <? rt); [split; [cbn; lia|intros [|k] a H; discriminate]|].
  destruct evs as [|e evs]; [split; [cbn; lia|intros [|k] a H; discriminate]|].
  destruct e as [| |j o]; [split; [cbn; lia|intros [|k] a H; discriminate]|apply IH|].
  destruct o; cbn [allow_retry]; rewrite ?NA;
    try (split; [cbn; lia|intros [|k] a H P; [reflexivity|destruct k; discriminate]]).
  (* ConnectErr: retried *)
  destruct (IH ((if j then raise c rt else rt) + 1) evs) as [L P]. split.
  - cbn [filter past_connect snd]. exact L.
  - intros [|k] a H Pa; cbn [nth_error] in H.
    + inversion H; subst. discriminate.
    + cbn [length]. f_equal. eapply P; eassumption.
Qed.

Theorem no_replay_after_body c r evs :
  (is_get r && bodyless r && (retry_level c =? RetryGet)) = false ->
  (length (filter past_connect (attempts c r evs)) <= 1)%nat.
Proof.
  intro H. unfold attempts. apply loop_no_replay. unfold check_allow_retry.
  destruct (retry_level c =? RetryGet), (is_get r), (bodyless r); cbn in *; congruence.
Qed.

(* fuel-generic forms (used by the tie proof, where the literal 20 must stay folded) *)
Lemma bounded_fuel fuel c r evs :
  0 <= retry_max c -> 0 <= cross_retry c ->
  Z.of_nat (length (retry_loop fuel c r 0 evs)) <= Z.min (Z.of_nat fuel) (1 + retry_max c + cross_retry c).
Proof.
  intros Hm Hc. apply Z.min_glb.
  - pose proof (loop_length_fuel fuel c r 0 evs). lia.
  - destruct (loop_times fuel c r 0 evs Hc) as [F S].
    pose proof (sorted_bounded_length _ 0 (retry_max c + cross_retry c) F S). lia.
Qed.

Lemma resend_fuel fuel c r rt evs k a b :
  nth_error (retry_loop fuel c r rt evs) k = Some a ->
  nth_error (retry_loop fuel c r rt evs) (S k) = Some b ->
  snd a = ConnectErr \/ (is_get r = true /\ bodyless r = true /\ retry_level c = RetryGet).
Proof.
  intros Ha Hb. pose proof (loop_resend fuel c r rt evs k a b Ha Hb) as H.
  destruct (snd a); cbn in H; try discriminate; auto;
    right; unfold check_allow_retry in H; apply andb_true_iff in H; destruct H as [H1 H3];
    apply andb_true_iff in H1; destruct H1 as [H1 H2]; apply Z.eqb_eq in H1; auto.
Qed.

(* ---- cross attempts: exactly those beyond the in-cluster budget ---- *)
Theorem cross_after_budget c r evs a :
  In a (attempts c r evs) -> is_cross c a = true -> retry_max c < fst a.
Proof. intros _ H. unfold is_cross in H. apply Z.ltb_lt in H. exact H. Qed.

(* ---- randomSelectExclude never returns the excluded sub-cluster, a blackhole or a negative-weight one ---- *)
Lemma pick_eligible_spec excl : forall subs i n k,
  pick_eligible excl i subs n = Some k ->
  (i <= k)%nat /\ exists sc, nth_error subs (k - i) = Some sc /\ eligible excl k sc = true.
Proof.
  induction subs as [|sc subs IH]; intros i n k H; cbn [pick_eligible] in H; [discriminate|].
  destruct (eligible excl i sc) eqn:E.
  - destruct n as [|n].
    + inversion H; subst. split; [lia|]. exists sc. rewrite Nat.sub_diag. split; [reflexivity|exact E].
    + destruct (IH (S i) n k H) as [L [sc' [N E']]]. split; [lia|]. exists sc'. split; [|exact E'].
      replace (k - i)%nat with (S (k - S i)) by lia. exact N.
  - destruct (IH (S i) n k H) as [L [sc' [N E']]]. split; [lia|]. exists sc'. split; [|exact E'].
    replace (k - i)%nat with (S (k - S i)) by lia. exact N.
Qed.

Theorem cross_distinct subs excl rnd k :
  random_select_exclude subs excl rnd = Some k ->
  k <> excl /\ exists sc, nth_error subs k = Some sc /\ snd sc = false /\ 0 <= fst sc.
Proof.
  unfold random_select_exclude. destruct (count_eligible excl 0 subs) as [|m] eqn:C; [discriminate|].
  intro H. destruct (pick_eligible_spec excl subs 0%nat _ k H) as [_ [sc [N E]]].
  rewrite Nat.sub_0_r in N. unfold eligible in E.
  apply andb_true_iff in E. destruct E as [E E3]. apply andb_true_iff in E. destruct E as [E1 E2].
  split.
  - intro Hk. subst. rewrite Nat.eqb_refl in E1. discriminate.
  - exists sc. split; [exact N|]. split; [destruct (snd sc); [discriminate|reflexivity]|apply Z.leb_le; exact E2].
Qed.

(* non-vacuity *)
Example ex_get_retried :
  attempts (mkCfg 2 1 1) (mkReq true true) [EvAttempt false ReadHdrErr; EvAttempt false ConnectErr; EvAttempt false WriteErr; EvAttempt false Ok; EvAttempt false Ok]
  = [(0, ReadHdrErr); (1, ConnectErr); (2, WriteErr); (3, Ok)].
Proof. reflexivity. Qed.
Example ex_post_not_replayed :
  attempts (mkCfg 2 1 1) (mkReq false false) [EvAttempt false ConnectErr; EvAttempt false ReadHdrErr; EvAttempt false Ok]
  = [(0, ConnectErr); (1, ReadHdrErr)].
Proof. reflexivity. Qed.
Example ex_budget :
  map fst (attempts (mkCfg 1 1 0) (mkReq true true) (repeat (EvAttempt false ConnectErr) 10)) = [0; 1; 2].
Proof. reflexivity. Qed.
Example ex_select : random_select_exclude [(100, false); (0, false); (0, true); (0, false)] 0 5 = Some 3%nat.
Proof. reflexivity. Qed.
