(* C40: proofs about model/SpdyServer.v *)
From Coq Require Import List ZArith Bool Lia.
From Bfe Require Import lib.Val lib.ValProofs model.SpdyServer run.RunC40.
Import ListNotations.
Open Scope Z_scope.
Lemma c40_placeholder : True. Proof. exact I. Qed.
