(* C40: proofs about model/SpdyServer.v *)
From Coq Require Import List ZArith Bool Lia.
From Bfe Require Import lib.Val lib.ValProofs model.SpdyServer run.RunC40.
Import ListNotations.
Open Scope Z_scope.

(* ---------- int32 helpers ---------- *)
Lemma wrap32_small z : - 2^31 <= z < 2^31 -> wrap32 z = z.
Proof. intros H. unfold wrap32. rewrite Z.mod_small; lia. Qed.
Lemma flow_add_ok cur n : 0 <= cur -> 0 <= n -> cur + n <= 65536 -> flow_add cur n = Some (cur + n).
Proof.
  intros H1 H2 H3. unfold flow_add.
  rewrite (wrap32_small (2^31 - 1 - cur)) by (change (2^31) with 2147483648; lia).
  destruct (2^31 - 1 - cur <? n) eqn:E.
  - apply Z.ltb_lt in E. change (2^31) with 2147483648 in E. lia.
  - rewrite wrap32_small by (change (2^31) with 2147483648; lia). reflexivity.
Qed.
Lemma zmin_le_l a b : zmin a b <= a.
Proof. unfold zmin. destruct (a <? b) eqn:E; [lia | apply Z.ltb_ge in E; lia]. Qed.
Lemma zmin_le_r a b : zmin a b <= b.
Proof. unfold zmin. destruct (a <? b) eqn:E; [apply Z.ltb_lt in E; lia | lia]. Qed.

(* ---------- the inbound flow-control invariant ---------- *)
Fixpoint sumbuf (l : list stream) : Z := match l with [] => 0 | s :: r => buf s + sumbuf r end.
Definition sok (s : stream) : Prop :=
  0 <= sinflow s /\ 0 <= buf s /\ sinflow s + buf s <= INITWIN /\ (sstate s = 1 -> hasbody s = true).
(* session window plus everything buffered for handlers never exceeds what was advertised (65536):
   the server never holds more inbound DATA than it advertised, per stream and per session *)
Definition Inv (c : conn) : Prop :=
  0 <= cinflow c /\ cinflow c + sumbuf (strs c) <= INITWIN /\ Forall sok (strs c).

Lemma find_s_in id l s : find_s id l = Some s -> In s l /\ sid s = id.
Proof.
  induction l as [|x l IH]; simpl; [discriminate|].
  destruct (sid x =? id) eqn:E.
  - intros H. inversion H; subst. apply Z.eqb_eq in E. auto.
  - intros H. destruct (IH H). auto.
Qed.
Lemma find_s_ok id l s : find_s id l = Some s -> Forall sok l -> sok s.
Proof. intros H F. apply find_s_in in H. destruct H as [H _]. rewrite Forall_forall in F. auto. Qed.
Lemma sumbuf_update id l s s' :
  find_s id l = Some s -> sid s' = id -> sumbuf (update_s s' l) = sumbuf l - buf s + buf s'.
Proof.
  intros H E. induction l as [|x l IH]; simpl in *; [discriminate|].
  rewrite E. destruct (sid x =? id) eqn:Ex.
  - inversion H; subst. simpl. lia.
  - simpl. rewrite IH by exact H. lia.
Qed.
Lemma forall_update l s' : Forall sok l -> sok s' -> Forall sok (update_s s' l).
Proof.
  intros F Hs. induction l as [|x l IH]; simpl; [constructor|].
  inversion F; subst. destruct (sid x =? sid s'); constructor; auto.
Qed.
Lemma forall_remove id l : Forall sok l -> Forall sok (remove_s id l).
Proof.
  intros F. induction l as [|x l IH]; simpl; [constructor|].
  inversion F; subst. destruct (sid x =? id); [assumption|constructor; auto].
Qed.
Lemma sumbuf_nonneg l : Forall sok l -> 0 <= sumbuf l.
Proof. induction 1 as [|x l Hx _ IH]; simpl; [lia|]. destruct Hx as (_ & ? & _). lia. Qed.
Lemma sumbuf_remove id l : Forall sok l -> sumbuf (remove_s id l) <= sumbuf l.
Proof.
  intros F. induction l as [|x l IH]; simpl; [lia|].
  inversion F as [|? ? Hx Hl]; subst. destruct (sid x =? id); simpl.
  - destruct Hx as (_ & ? & _). lia.
  - specialize (IH Hl). lia.
Qed.

(* stream updates that leave the inbound fields alone *)
Lemma sok_out s ofl rep q : sok s -> sok (s_with_out s ofl rep q).
Proof. unfold sok. simpl. auto. Qed.
Lemma sok_bclose s : sok s -> sok (s_bclose s).
Proof. unfold sok. simpl. auto. Qed.

Lemma Inv_close c id : Inv c -> Inv (close_s c id).
Proof.
  intros (H1 & H2 & H3). unfold Inv, close_s. simpl.
  pose proof (sumbuf_remove id (strs c) H3). split; [lia|]. split; [lia|]. apply forall_remove. exact H3.
Qed.
Lemma Inv_upd_same c id s s' :
  Inv c -> find_s id (strs c) = Some s -> sid s' = id -> buf s' = buf s -> sok s' -> Inv (upd c s').
Proof.
  intros (H1 & H2 & H3) Hf Hid Hb Hs. unfold Inv, upd. simpl.
  rewrite (sumbuf_update id (strs c) s s' Hf Hid). split; [lia|]. split; [lia|]. apply forall_update; assumption.
Qed.
Lemma Inv_set_cflow c n : Inv c -> Inv (set_cflow c n).
Proof. unfold Inv. simpl. auto. Qed.
Lemma Inv_reset c id code : Inv c -> Inv (fst (reset_stream c id code)).
Proof.
  intros H. unfold reset_stream. destruct (find_s id (strs c)); simpl; [apply Inv_close|]; exact H.
Qed.
Lemma Inv_go_away c code : Inv c -> Inv (fst (go_away c code)).
Proof. intros H. unfold go_away. destruct (0 <=? goaway c); simpl; exact H. Qed.

Lemma Inv_take_head c id : Inv c -> Inv (fst (take_head c id)).
Proof.
  intros H. unfold take_head.
  destruct (find_s id (strs c)) as [s|] eqn:Hf; [|exact H].
  destruct (outq s) as [|[[k n] fin] q]; [exact H|].
  pose proof (find_s_in _ _ _ Hf) as [_ Hid].
  assert (Hs : sok s) by (destruct H as (_ & _ & F); eapply find_s_ok; eauto).
  destruct (negb (k =? 0)).
  - simpl. eapply Inv_upd_same; [exact H|exact Hf|exact Hid|reflexivity|apply sok_out; exact Hs].
  - cbv zeta. set (allowed := zmin (zmin (soflow s) (cflow c)) MAXFRAME).
    destruct ((n =? 0) || (n <=? allowed)).
    + assert (H1 : Inv (set_cflow (upd c (s_with_out s (soflow s - n) (replied s) q)) (cflow c - n))).
      { apply Inv_set_cflow. eapply Inv_upd_same; [exact H|exact Hf|exact Hid|reflexivity|apply sok_out; exact Hs]. }
      destruct fin; simpl; [apply Inv_close|]; exact H1.
    + simpl. apply Inv_set_cflow. eapply Inv_upd_same; [exact H|exact Hf|exact Hid|reflexivity|apply sok_out; exact Hs].
Qed.
Lemma Inv_sched f : forall c, Inv c -> Inv (fst (sched f c)).
Proof.
  induction f as [|f IH]; intros c H; cbn [sched]; [exact H|].
  destruct (muted c); [exact H|].
  destruct (find head_nocost (strs c)) as [s|].
  - pose proof (Inv_take_head c (sid s) H) as H1. destruct (take_head c (sid s)) as [c1 f1].
    specialize (IH c1 H1). destruct (sched f c1) as [c2 f2]. exact IH.
  - destruct (find (head_sendable c) (strs c)) as [s|]; [|exact H].
    pose proof (Inv_take_head c (sid s) H) as H1. destruct (take_head c (sid s)) as [c1 f1].
    specialize (IH c1 H1). destruct (sched f c1) as [c2 f2]. exact IH.
Qed.
Lemma Inv_tickle c : Inv c -> Inv (fst (tickle c)).
Proof. intros H. unfold tickle. apply Inv_sched. exact H. Qed.
Lemma Inv_then_tickle r : Inv (fst r) -> Inv (fst (then_tickle r)).
Proof.
  destruct r as [c fs]. simpl. intros H. pose proof (Inv_tickle c H) as H1.
  destruct (tickle c) as [c' fs']. exact H1.
Qed.
Lemma Inv_reset_tickle c id code : Inv c -> Inv (fst (then_tickle (reset_stream c id code))).
Proof. intros H. apply Inv_then_tickle. apply Inv_reset. exact H. Qed.

Lemma Inv_init maxs : Inv (init_conn maxs).
Proof. unfold Inv, init_conn, INITWIN. simpl. split; [lia|]. split; [lia|constructor]. Qed.

(* ---------- every event preserves the invariant and never reaches a panic ---------- *)
Definition nobug (fs : list val) : Prop := has_bug fs = false.
Lemma nobug_nil : nobug []. Proof. reflexivity. Qed.
Lemma has_bug_app a b : has_bug (a ++ b) = has_bug a || has_bug b.
Proof. unfold has_bug. apply existsb_app. Qed.
Lemma nobug_emit c fs : nobug fs -> nobug (emit c fs).
Proof. intros H. unfold emit. destruct (muted c); [reflexivity|exact H]. Qed.

Lemma nobug_take_head c id : nobug (snd (take_head c id)).
Proof.
  unfold take_head.
  destruct (find_s id (strs c)) as [s|]; [|reflexivity].
  destruct (outq s) as [|[[k n] fin] q]; [reflexivity|].
  destruct (negb (k =? 0)); [destruct (k =? 9); reflexivity|].
  cbv zeta. destruct ((n =? 0) || (n <=? zmin (zmin (soflow s) (cflow c)) MAXFRAME)); [|reflexivity].
  destruct fin; [|reflexivity]. simpl. destruct (sstate s =? 1); reflexivity.
Qed.
Lemma nobug_sched f : forall c, nobug (snd (sched f c)).
Proof.
  induction f as [|f IH]; intros c; cbn [sched]; [reflexivity|].
  destruct (muted c); [reflexivity|].
  destruct (find head_nocost (strs c)) as [s|].
  - pose proof (nobug_take_head c (sid s)) as H1. destruct (take_head c (sid s)) as [c1 f1].
    specialize (IH c1). destruct (sched f c1) as [c2 f2]. simpl in *.
    unfold nobug in *. rewrite has_bug_app, H1, IH. reflexivity.
  - destruct (find (head_sendable c) (strs c)) as [s|]; [|reflexivity].
    pose proof (nobug_take_head c (sid s)) as H1. destruct (take_head c (sid s)) as [c1 f1].
    specialize (IH c1). destruct (sched f c1) as [c2 f2]. simpl in *.
    unfold nobug in *. rewrite has_bug_app, H1, IH. reflexivity.
Qed.
Lemma nobug_tickle c : nobug (snd (tickle c)).
Proof. apply nobug_sched. Qed.
Lemma nobug_then_tickle r : nobug (snd r) -> nobug (snd (then_tickle r)).
Proof.
  destruct r as [c fs]. simpl. intros H. pose proof (nobug_tickle c) as H1.
  destruct (tickle c) as [c' fs']. simpl in *. unfold nobug in *. rewrite has_bug_app, H, H1. reflexivity.
Qed.
Lemma nobug_reset c id code : nobug (snd (reset_stream c id code)).
Proof.
  unfold reset_stream. destruct (find_s id (strs c)); simpl; apply nobug_emit; reflexivity.
Qed.
Lemma nobug_go_away c code : nobug (snd (go_away c code)).
Proof. unfold go_away. destruct (0 <=? goaway c); reflexivity. Qed.
Lemma good_reset_tickle c id code :
  Inv c -> Inv (fst (then_tickle (reset_stream c id code))) /\ nobug (snd (then_tickle (reset_stream c id code))).
Proof. intros H. split; [apply Inv_reset_tickle; exact H | apply nobug_then_tickle, nobug_reset]. Qed.

Definition good (r : conn * list val) : Prop := Inv (fst r) /\ nobug (snd r).

Lemma sumbuf_snoc l x : buf x = 0 -> sumbuf (l ++ [x]) = sumbuf l.
Proof. intros Hx. induction l as [|y l IH]; simpl; [lia|]. rewrite IH. reflexivity. Qed.
Lemma Inv_add_stream c s mx cu :
  Inv c -> buf s = 0 -> sok s ->
  Inv {| strs := strs c ++ [s]; maxid := mx; cur := cu; cinflow := cinflow c; cflow := cflow c;
         initwin := initwin c; goaway := goaway c; dead := dead c; maxstreams := maxstreams c |}.
Proof.
  intros (H1 & H2 & H3) Hb Hs. unfold Inv. simpl. rewrite sumbuf_snoc by exact Hb.
  split; [exact H1|]. split; [exact H2|]. apply Forall_app. split; [exact H3|]. constructor; [exact Hs|constructor].
Qed.
Lemma Inv_set_dead c : Inv c -> Inv (set_dead c).
Proof. unfold Inv. simpl. auto. Qed.
Lemma good_process_syn c id fin cl bad : Inv c -> good (process_syn c id fin cl bad).
Proof.
  intros H. unfold process_syn.
  destruct (0 <=? goaway c); [split; [exact H|reflexivity]|].
  destruct (negb (id mod 2 =? 1) || (id <? maxid c)); [split; [apply Inv_go_away; exact H|apply nobug_go_away]|].
  destruct (id =? maxid c); [apply good_reset_tickle; exact H|].
  cbv zeta.
  match goal with |- context [strs c ++ [?s]] => set (ns := s) end.
  assert (Hc1 : Inv {| strs := strs c ++ [ns]; maxid := id; cur := cur c + 1; cinflow := cinflow c;
        cflow := cflow c; initwin := initwin c; goaway := goaway c; dead := dead c; maxstreams := maxstreams c |}).
  { apply Inv_add_stream; [exact H|reflexivity|].
    unfold sok, ns, INITWIN. simpl. repeat split; try lia. destruct fin; [discriminate|reflexivity]. }
  match goal with |- good (if ?b then _ else _) => destruct b end.
  - split; [apply Inv_set_dead; exact Hc1|reflexivity].
  - destruct bad; [apply good_reset_tickle; exact Hc1 | split; [exact Hc1|reflexivity]].
Qed.



(* take n bytes of window and buffer them (or not): generic accounting step *)
Lemma Inv_account c id s s' ci :
  Inv c -> find_s id (strs c) = Some s -> sid s' = id -> sok s' ->
  0 <= ci -> ci + buf s' <= cinflow c + buf s ->
  Inv (upd (set_cin c ci) s').
Proof.
  intros (H1 & H2 & H3) Hf Hid Hs Hci Hle. unfold Inv, upd, set_cin. simpl.
  rewrite (sumbuf_update id (strs c) s s' Hf Hid). split; [exact Hci|]. split; [lia|].
  apply forall_update; assumption.
Qed.

Lemma find_update id l s s' : find_s id l = Some s -> sid s' = id -> find_s id (update_s s' l) = Some s'.
Proof.
  intros Hf Hid. induction l as [|x l IH]; simpl in *; [discriminate|].
  rewrite Hid. destruct (sid x =? id) eqn:Ex.
  - simpl. rewrite Hid, Z.eqb_refl. reflexivity.
  - simpl. rewrite Ex. apply IH. exact Hf.
Qed.
Lemma nobug_app a b : nobug a -> nobug b -> nobug (a ++ b).
Proof. unfold nobug. intros Ha Hb. rewrite has_bug_app, Ha, Hb. reflexivity. Qed.
Lemma good_drop_data c id n code : Inv c -> good (drop_data c id n code).
Proof.
  intros H. unfold drop_data.
  destruct (n =? 0); [apply good_reset_tickle; exact H|].
  destruct (cinflow c <? n); [apply good_reset_tickle; exact H|].
  destruct (good_reset_tickle c id code H) as [H1 H2].
  destruct (then_tickle (reset_stream c id code)) as [c' fs]. simpl in *.
  split; [exact H1|]. apply nobug_app; [apply nobug_emit; reflexivity|exact H2].
Qed.
Lemma good_process_data c id n fin : Inv c -> 0 <= n -> good (process_data c id n fin).
Proof.
  intros H Hn. unfold process_data.
  destruct (find_s id (strs c)) as [s|] eqn:Hf; [|apply good_drop_data; exact H].
  pose proof (find_s_in _ _ _ Hf) as [_ Hid].
  assert (Hs : sok s) by (destruct H as (_ & _ & F); eapply find_s_ok; eauto).
  destruct (sstate s =? 1) eqn:Est; cbn [negb]; [|apply good_drop_data; exact H].
  apply Z.eqb_eq in Est.
  destruct Hs as (Hs1 & Hs2 & Hs3 & Hs4). rewrite (Hs4 Est). cbn [negb].
  destruct (negb (decl s =? -1) && (decl s <? bodyb s + n)); [apply good_drop_data; exact H|].
  (* the FIN part *)
  assert (Hstep2 : forall c0 s0, Inv c0 -> find_s id (strs c0) = Some s0 ->
            good (if fin then
                    if negb (decl s0 =? -1) && negb (decl s0 =? bodyb s0) then then_tickle (reset_stream c0 id 1)
                    else (upd c0 (s_with_in s0 (sinflow s0) (buf s0) (bodyb s0) 3), [])
                  else (c0, []))).
  { intros c0 s0 H0 Hf0. destruct fin; [|split; [exact H0|reflexivity]].
    destruct (negb (decl s0 =? -1) && negb (decl s0 =? bodyb s0)); [apply good_reset_tickle; exact H0|].
    split; [|reflexivity]. simpl.
    pose proof (find_s_in _ _ _ Hf0) as [_ Hid0].
    assert (Hs0 : sok s0) by (destruct H0 as (_ & _ & F); eapply find_s_ok; eauto).
    eapply Inv_upd_same; [exact H0|exact Hf0|exact Hid0|reflexivity|].
    destruct Hs0 as (? & ? & ? & ?). unfold sok. simpl. repeat split; try assumption. discriminate. }
  destruct (0 <? n) eqn:En; [|apply Hstep2; assumption].
  destruct (zmin (sinflow s) (cinflow c) <? n) eqn:Ew; [apply good_reset_tickle; exact H|].
  apply Z.ltb_ge in Ew. pose proof (zmin_le_l (sinflow s) (cinflow c)). pose proof (zmin_le_r (sinflow s) (cinflow c)).
  destruct (bclosed s || (INITWIN <? buf s + n)).
  - assert (HI : Inv (upd c (s_with_in s (sinflow s - n) (buf s) (bodyb s) 1))).
    { eapply Inv_upd_same; [exact H|exact Hf|exact Hid|reflexivity|].
      unfold sok. simpl. repeat split; try lia. intros _. apply Hs4. exact Est. }
    destruct (good_reset_tickle _ id 9 HI) as [HA HB].
    destruct (then_tickle (reset_stream (upd c (s_with_in s (sinflow s - n) (buf s) (bodyb s) 1)) id 9)) as [c' fs].
    simpl in *. split; [exact HA|]. apply nobug_app; [apply nobug_emit; reflexivity|exact HB].
  - set (s1 := s_with_in s (sinflow s - n) (buf s + n) (bodyb s + n) 1).
    assert (HI1 : Inv (upd (set_cin c (cinflow c - n)) s1)).
    { eapply Inv_account; [exact H|exact Hf|exact Hid| |lia|simpl; lia].
      unfold sok, s1. simpl. repeat split; try lia. intros _. apply Hs4. exact Est. }
    apply Hstep2; [exact HI1|].
    unfold upd, set_cin. cbn [strs]. apply (find_update id (strs c) s s1 Hf). exact Hid.
Qed.

Lemma good_process_wu c id delta : Inv c -> good (process_wu c id delta).
Proof.
  intros H. unfold process_wu.
  destruct (id =? 0).
  - destruct (flow_add (cflow c) (wrap32 delta)).
    + split; [apply Inv_tickle, Inv_set_cflow; exact H|apply nobug_tickle].
    + split; [apply Inv_go_away; exact H|apply nobug_go_away].
  - destruct (find_s id (strs c)) as [s|] eqn:Hf; [|split; [exact H|reflexivity]].
    pose proof (find_s_in _ _ _ Hf) as [_ Hid].
    assert (Hs : sok s) by (destruct H as (_ & _ & F); eapply find_s_ok; eauto).
    destruct (flow_add (soflow s) (wrap32 delta)); [|apply good_reset_tickle; exact H].
    split; [apply Inv_tickle|apply nobug_tickle].
    eapply Inv_upd_same; [exact H|exact Hf|exact Hid|reflexivity|apply sok_out; exact Hs].
Qed.

Lemma good_process_rst c id : Inv c -> good (process_rst c id).
Proof.
  intros H. unfold process_rst. destruct (find_s id (strs c)).
  - split; [apply Inv_close; exact H|reflexivity].
  - destruct (id <=? maxid c); [split; [exact H|reflexivity]|split; [apply Inv_go_away; exact H|apply nobug_go_away]].
Qed.

Lemma sumbuf_map_g (g : stream -> stream * bool) l :
  (forall s, buf (fst (g s)) = buf s) -> sumbuf (map fst (map g l)) = sumbuf l.
Proof. intros Hg. induction l as [|x l IH]; simpl; [reflexivity|]. rewrite IH, Hg. reflexivity. Qed.
Lemma forall_map_g (g : stream -> stream * bool) l :
  (forall s, sok s -> sok (fst (g s))) -> Forall sok l -> Forall sok (map fst (map g l)).
Proof. intros Hg F. induction F as [|x l Hx _ IH]; simpl; constructor; auto. Qed.
Lemma good_process_settings c v : Inv c -> good (process_settings c v).
Proof.
  intros (H1 & H2 & H3). unfold process_settings. cbv zeta.
  set (g := fun s : stream => match flow_add (soflow s) (wrap32 (wrap32 v - initwin c)) with
                     | Some n => (s_with_out s n (replied s) (outq s), true)
                     | None => (s, false) end).
  assert (Hsum : sumbuf (map fst (map g (strs c))) = sumbuf (strs c)).
  { apply sumbuf_map_g. intros x. unfold g.
    destruct (flow_add (soflow x) (wrap32 (wrap32 v - initwin c))); reflexivity. }
  assert (Hall : Forall sok (map fst (map g (strs c)))).
  { apply forall_map_g; [|exact H3]. intros x Hx. unfold g.
    destruct (flow_add (soflow x) (wrap32 (wrap32 v - initwin c))); simpl; [apply sok_out|]; exact Hx. }
  assert (Hc1 : Inv {| strs := map fst (map g (strs c)); maxid := maxid c; cur := cur c; cinflow := cinflow c;
                       cflow := cflow c; initwin := wrap32 v; goaway := goaway c; dead := dead c; maxstreams := maxstreams c |}).
  { unfold Inv. simpl. rewrite Hsum. auto. }
  destruct (forallb snd (map g (strs c))); [split; [exact Hc1|reflexivity]|].
  split; [apply Inv_go_away; exact Hc1|apply nobug_go_away].
Qed.

Lemma good_process_ping c id : Inv c -> good (process_ping c id).
Proof.
  intros H. unfold process_ping. destruct (id mod 2 =? 0); [split; [exact H|reflexivity]|].
  split; [apply Inv_then_tickle; exact H|apply nobug_then_tickle, nobug_emit; reflexivity].
Qed.

Lemma good_handler_write c id n fin : Inv c -> good (handler_write c id n fin).
Proof.
  intros H. unfold handler_write. destruct (find_s id (strs c)) as [s|] eqn:Hf; [|split; [exact H|reflexivity]].
  pose proof (find_s_in _ _ _ Hf) as [_ Hid].
  assert (Hs : sok s) by (destruct H as (_ & _ & F); eapply find_s_ok; eauto).
  cbv zeta. split; [apply Inv_tickle|apply nobug_tickle].
  eapply Inv_upd_same; [exact H|exact Hf|exact Hid|reflexivity|apply sok_out; exact Hs].
Qed.

Lemma good_handler_close_body c id : Inv c -> good (handler_close_body c id).
Proof.
  intros H. unfold handler_close_body. destruct (find_s id (strs c)) as [s|] eqn:Hf; [|split; [exact H|reflexivity]].
  pose proof (find_s_in _ _ _ Hf) as [_ Hid].
  assert (Hs : sok s) by (destruct H as (_ & _ & F); eapply find_s_ok; eauto).
  destruct (hasbody s); [|split; [exact H|reflexivity]].
  split; [|reflexivity]. simpl.
  eapply Inv_upd_same; [exact H|exact Hf|exact Hid|reflexivity|apply sok_bclose; exact Hs].
Qed.

Lemma good_handler_read c id k :
  Inv c -> good (fst (handler_read c id k)).
Proof.
  intros H. unfold handler_read.
  destruct (find_s id (strs c)) as [s|] eqn:Hf; [|split; [exact H|reflexivity]].
  pose proof (find_s_in _ _ _ Hf) as [Hin Hid].
  assert (Hs : sok s) by (destruct H as (_ & _ & F); eapply find_s_ok; eauto).
  set (n := zmin k (buf s)).
  destruct (n <=? 0) eqn:En; [split; [exact H|reflexivity]|]. apply Z.leb_gt in En.
  pose proof (zmin_le_r k (buf s)) as Hnb. fold n in Hnb.
  destruct H as (H1 & H2 & H3). destruct Hs as (Hs1 & Hs2 & Hs3 & Hs4).
  (* the stream's buffered bytes are part of the session total *)
  assert (Hpart : buf s <= sumbuf (strs c)).
  { clear -Hin H3. induction (strs c) as [|x l IH]; [destruct Hin|].
    inversion H3 as [|? ? Hx Hl]; subst. simpl. destruct Hin as [->|Hin].
    - pose proof (sumbuf_nonneg l Hl). lia.
    - specialize (IH Hl Hin). destruct Hx as (_ & ? & _). lia. }
  unfold INITWIN in *.
  rewrite (flow_add_ok (cinflow c) n) by lia.
  assert (HI : Inv c) by (unfold Inv, INITWIN; auto).
  destruct (sstate s =? 3) eqn:E3.
  - match goal with |- good (fst (let '(c2, fs) := then_tickle ?r in (c2, fs, n))) =>
      pose proof (Inv_then_tickle r) as HA; pose proof (nobug_then_tickle r) as HB;
      destruct (then_tickle r) as [c2 fs] end.
    simpl in *. split.
    + apply HA. eapply Inv_account; [exact HI|exact Hf|exact Hid| |lia|simpl; lia].
      unfold sok, INITWIN. simpl. repeat split; try lia; try (intros Hx; discriminate).
    + apply HB. apply nobug_emit. reflexivity.
  - rewrite (flow_add_ok (sinflow s) n) by lia.
    match goal with |- good (fst (let '(c2, fs) := then_tickle ?r in (c2, fs, n))) =>
      pose proof (Inv_then_tickle r) as HA; pose proof (nobug_then_tickle r) as HB;
      destruct (then_tickle r) as [c2 fs] end.
    simpl in *. split.
    + apply HA. eapply Inv_account; [exact HI|exact Hf|exact Hid| |lia|simpl; lia].
      unfold sok, INITWIN. simpl. repeat split; try lia. exact Hs4.
    + apply HB. apply nobug_emit. reflexivity.
Qed.

(* one event: invariant preserved, no Bug frame; w.f. events carry non-negative DATA lengths *)
Definition ev_ok (ev : val) : bool :=
  match ev with VL [VZ 2; VZ _; VZ n; VZ _] => 0 <=? n | _ => true end.
Lemma good_step c ev c' fs x :
  Inv c -> ev_ok ev = true -> step c ev = Some (c', fs, x) -> Inv c' /\ has_bug fs = false.
Proof.
  intros H Hev Hst. unfold step in Hst.
  destruct (dead c); [inversion Hst; subst; split; [exact H|reflexivity]|].
  destruct ev as [z|b|l]; try discriminate.
  destruct l as [|[t| |] l]; try discriminate.
  repeat (destruct t as [|t|t]; try discriminate);
  repeat (destruct l as [|[?z| |] l]; try discriminate).
  all: try match type of Hst with (let '(_, _) := ?r in _) = _ =>
         let G := fresh "G" in
         assert (G : good r) by
           first [apply good_process_syn; exact H
                 |apply good_process_data; [exact H|simpl in Hev; apply Z.leb_le; exact Hev]
                 |apply good_process_wu; exact H
                 |apply good_process_rst; exact H
                 |apply good_process_settings; exact H
                 |apply good_handler_write; exact H
                 |apply good_handler_close_body; exact H
                 |apply good_process_ping; exact H];
         destruct r as [c1 f1]; inversion Hst; subst; exact G end.
  (* handler read *)
  match type of Hst with Some (handler_read ?a ?b ?d) = _ =>
    pose proof (good_handler_read a b d H) as G; destruct (handler_read a b d) as [[c1 f1] x1];
    inversion Hst; subst; exact G end.
Qed.

Lemma obs_not_bug c fs x : val_eqb Bug (obs c fs x) = false.
Proof. unfold obs. destruct (dead c); reflexivity. Qed.

Theorem no_bug_run : forall evs c os cf,
  Inv c -> forallb ev_ok evs = true -> run_events c evs = Some (os, cf) ->
  existsb (val_eqb Bug) os = false /\ Inv cf.
Proof.
  induction evs as [|ev r IH]; intros c os cf H Hev Hr; simpl in Hr.
  - inversion Hr; subst. split; [reflexivity|exact H].
  - simpl in Hev. apply andb_true_iff in Hev. destruct Hev as [He Hev].
    destruct (step c ev) as [[[c' fs] x]|] eqn:Hs; [|discriminate].
    destruct (good_step c ev c' fs x H He Hs) as [H' Hb]. rewrite Hb in Hr.
    destruct (run_events c' r) as [[os' cf']|] eqn:Hr'; [|discriminate].
    inversion Hr; subst. destruct (IH c' os' cf H' Hev Hr') as [Hn Hc].
    split; [|exact Hc]. cbn [existsb]. rewrite obs_not_bug. exact Hn.
Qed.

(* the scheduler never touches the inbound session window *)
Lemma cinflow_take_head c id : cinflow (fst (take_head c id)) = cinflow c.
Proof.
  unfold take_head. destruct (find_s id (strs c)) as [s|]; [|reflexivity].
  destruct (outq s) as [|[[k n] fin] q]; [reflexivity|].
  destruct (negb (k =? 0)); [reflexivity|]. cbv zeta.
  destruct ((n =? 0) || (n <=? zmin (zmin (soflow s) (cflow c)) MAXFRAME)); [|reflexivity].
  destruct fin; reflexivity.
Qed.
Lemma cinflow_sched f : forall c, cinflow (fst (sched f c)) = cinflow c.
Proof.
  induction f as [|f IH]; intros c; cbn [sched]; [reflexivity|].
  destruct (muted c); [reflexivity|].
  destruct (find head_nocost (strs c)) as [s|].
  - pose proof (cinflow_take_head c (sid s)) as H1. destruct (take_head c (sid s)) as [c1 f1].
    specialize (IH c1). destruct (sched f c1) as [c2 f2]. simpl in *. congruence.
  - destruct (find (head_sendable c) (strs c)) as [s|]; [|reflexivity].
    pose proof (cinflow_take_head c (sid s)) as H1. destruct (take_head c (sid s)) as [c1 f1].
    specialize (IH c1). destruct (sched f c1) as [c2 f2]. simpl in *. congruence.
Qed.
Lemma cinflow_tickle c : cinflow (fst (tickle c)) = cinflow c.
Proof. apply cinflow_sched. Qed.

(* ---------- rule lemmas (single events, any state) ---------- *)
Lemma then_tickle_head c f fs : exists c' fs', then_tickle (c, f :: fs) = (c', f :: fs').
Proof. unfold then_tickle. destruct (tickle c) as [c' fs']. eexists. eexists. reflexivity. Qed.

(* DATA larger than the stream's or the session's remaining window is never buffered *)
Lemma data_over_window_reset c id n fin s :
  find_s id (strs c) = Some s -> sstate s = 1 -> hasbody s = true ->
  (decl s = -1 \/ bodyb s + n <= decl s) -> 0 < n -> zmin (sinflow s) (cinflow c) < n ->
  process_data c id n fin = then_tickle (reset_stream c id 7).
Proof.
  intros Hf Hst Hb Hd Hn Hw. unfold process_data. rewrite Hf, Hst, Hb. cbn [Z.eqb negb Pos.eqb].
  assert (Hov : negb (decl s =? -1) && (decl s <? bodyb s + n) = false).
  { destruct Hd as [->|Hd]; [reflexivity|]. apply andb_false_iff. right. apply Z.ltb_ge. lia. }
  rewrite Hov. apply Z.ltb_lt in Hn. rewrite Hn. apply Z.ltb_lt in Hw. rewrite Hw. reflexivity.
Qed.
(* accepted DATA takes exactly n from both windows and buffers exactly n *)
Lemma data_accept c id n s :
  find_s id (strs c) = Some s -> sstate s = 1 -> hasbody s = true -> decl s = -1 ->
  0 < n -> n <= zmin (sinflow s) (cinflow c) -> bclosed s = false -> buf s + n <= INITWIN ->
  process_data c id n false =
  (upd (set_cin c (cinflow c - n)) (s_with_in s (sinflow s - n) (buf s + n) (bodyb s + n) 1), []).
Proof.
  intros Hf Hst Hb Hd Hn Hw Hc Hcap. unfold process_data. rewrite Hf, Hst, Hb, Hd, Hc. cbn [Z.eqb negb Pos.eqb andb orb].
  apply Z.ltb_lt in Hn. rewrite Hn.
  assert (E1 : (zmin (sinflow s) (cinflow c) <? n) = false) by (apply Z.ltb_ge; lia). rewrite E1.
  assert (E2 : (INITWIN <? buf s + n) = false) by (apply Z.ltb_ge; lia). rewrite E2. reflexivity.
Qed.

(* frames for a stream that is not in the table are answered with RST_STREAM(INVALID_STREAM), and the
   bytes are returned at session level first (or FLOW_CONTROL_ERROR if they exceed the session window) *)
Lemma data_unknown_stream c id n fin :
  find_s id (strs c) = None -> 0 < n -> n <= cinflow c ->
  exists c' fs, process_data c id n fin = (c', emit c [f_wu 0 n] ++ emit c [f_rst id 2] ++ fs) /\ cinflow c' = cinflow c.
Proof.
  intros Hf Hn Hw. unfold process_data, drop_data, reset_stream. rewrite Hf.
  assert (E0 : (n =? 0) = false) by (apply Z.eqb_neq; lia). rewrite E0.
  assert (E1 : (cinflow c <? n) = false) by (apply Z.ltb_ge; lia). rewrite E1.
  unfold then_tickle.
  pose proof (cinflow_tickle c) as Hc.
  destruct (tickle c) as [c' fs']. eexists. eexists. split; [reflexivity|exact Hc].
Qed.
(* ... and for a stream the client already half-closed with RST_STREAM(STREAM_ALREADY_CLOSED), closing it *)
Lemma data_closed_stream c id n fin s :
  find_s id (strs c) = Some s -> sstate s <> 1 ->
  process_data c id n fin = drop_data c id n 9.
Proof.
  intros Hf Hst. unfold process_data. rewrite Hf.
  destruct (sstate s =? 1) eqn:E; [apply Z.eqb_eq in E; contradiction|]. reflexivity.
Qed.

(* SYN_STREAM with an even id, or an id below the largest seen, is a session error PROTOCOL_ERROR *)
Lemma syn_invalid_id c id fin cl bad :
  goaway c < 0 -> (id mod 2 <> 1 \/ id < maxid c) ->
  process_syn c id fin cl bad = go_away c 1 /\ snd (go_away c 1) = [f_goaway (maxid c) 1].
Proof.
  intros Hg Hid. unfold process_syn, go_away.
  assert (E : (0 <=? goaway c) = false) by (apply Z.leb_gt; lia). rewrite E.
  assert (E2 : negb (id mod 2 =? 1) || (id <? maxid c) = true).
  { destruct Hid as [Hm|Hl]; [|apply orb_true_iff; right; apply Z.ltb_lt; exact Hl].
    apply orb_true_iff. left. apply negb_true_iff. apply Z.eqb_neq. exact Hm. }
  rewrite E2. split; reflexivity.
Qed.
(* a second SYN_STREAM for the current highest id is a stream error PROTOCOL_ERROR *)
Lemma syn_dup_id c id fin cl bad :
  goaway c < 0 -> id mod 2 = 1 -> id = maxid c ->
  process_syn c id fin cl bad = then_tickle (reset_stream c id 1).
Proof.
  intros Hg Hm He. unfold process_syn.
  assert (E : (0 <=? goaway c) = false) by (apply Z.leb_gt; lia). rewrite E.
  rewrite Hm. cbn [Z.eqb Pos.eqb negb orb]. subst id. rewrite Z.ltb_irrefl, Z.eqb_refl. reflexivity.
Qed.

(* replenish: a handler read of n bytes returns exactly n bytes of session window, WINDOW_UPDATE(0, n) first *)
Lemma read_replenishes c id k s :
  Inv c -> find_s id (strs c) = Some s -> 0 < zmin k (buf s) -> muted c = false ->
  exists c' fs, handler_read c id k = (c', f_wu 0 (zmin k (buf s)) :: fs, zmin k (buf s)).
Proof.
  intros H Hf Hn Hm. unfold handler_read. rewrite Hf.
  pose proof (find_s_in _ _ _ Hf) as [Hin Hid].
  assert (Hs : sok s) by (destruct H as (_ & _ & F); eapply find_s_ok; eauto).
  set (n := zmin k (buf s)) in *.
  assert (En : (n <=? 0) = false) by (apply Z.leb_gt; lia). rewrite En.
  pose proof (zmin_le_r k (buf s)) as Hnb. fold n in Hnb.
  destruct H as (H1 & H2 & H3). destruct Hs as (Hs1 & Hs2 & Hs3 & Hs4).
  assert (Hpart : buf s <= sumbuf (strs c)).
  { clear -Hin H3. induction (strs c) as [|x l IH]; [destruct Hin|].
    inversion H3 as [|? ? Hx Hl]; subst. simpl. destruct Hin as [->|Hin].
    - pose proof (sumbuf_nonneg l Hl). lia.
    - specialize (IH Hl Hin). destruct Hx as (_ & ? & _). lia. }
  unfold INITWIN in *.
  rewrite (flow_add_ok (cinflow c) n) by lia.
  assert (Hem : forall l, emit (set_cin c (cinflow c + n)) l = l).
  { intros l. unfold emit, muted in *. simpl. rewrite Hm. reflexivity. }
  destruct (sstate s =? 3).
  - rewrite Hem.
    match goal with |- context [then_tickle (?a, f_wu 0 n :: ?r)] =>
      destruct (then_tickle_head a (f_wu 0 n) r) as (c' & fs' & E); rewrite E end.
    eexists. eexists. reflexivity.
  - rewrite (flow_add_ok (sinflow s) n) by lia. rewrite Hem.
    match goal with |- context [then_tickle (?a, f_wu 0 n :: ?r)] =>
      destruct (then_tickle_head a (f_wu 0 n) r) as (c' & fs' & E); rewrite E end.
    eexists. eexists. reflexivity.
Qed.

(* ---------- refutation of conservation (known finding 1) ---------- *)
(* client: opens stream 1, sends 1000 bytes, resets the stream before the handler reads them; then uses
   stream 3 normally.  The 1000 unread bytes of session window are never returned. *)
Definition w_leak : val :=
  VL [VZ 200; VL [VL [VZ 1; VZ 1; VZ 0; VZ (-1); VZ 0]; VL [VZ 2; VZ 1; VZ 1000; VZ 0]; VL [VZ 4; VZ 1; VZ 5];
                  VL [VZ 1; VZ 3; VZ 0; VZ (-1); VZ 0]; VL [VZ 2; VZ 3; VZ 64536; VZ 0]; VL [VZ 5; VZ 3; VZ 70000]]].
(* DATA for a stream that does not exist is returned at once (fixed in /repo): the property holds *)
Definition w_dropped : val :=
  VL [VZ 200; VL [VL [VZ 2; VZ 5; VZ 1000; VZ 0]; VL [VZ 1; VZ 1; VZ 0; VZ (-1); VZ 0];
                  VL [VZ 2; VZ 1; VZ 65536; VZ 0]; VL [VZ 5; VZ 1; VZ 70000]]].
Lemma dropped_lemma : prop_C40 w_dropped (run_C40 w_dropped) = true /\ kf_C40 w_dropped = 0.
Proof. vm_compute. split; reflexivity. Qed.
Lemma leak_lemma : prop_C40 w_leak (run_C40 w_leak) = false /\ kf_C40 w_leak = 1.
Proof. vm_compute. split; reflexivity. Qed.
(* the same exchange without the stray DATA frame satisfies the property *)
Definition w_noleak : val :=
  VL [VZ 200; VL [VL [VZ 1; VZ 1; VZ 0; VZ (-1); VZ 0]; VL [VZ 2; VZ 1; VZ 65536; VZ 0]; VL [VZ 5; VZ 1; VZ 100]; VL [VZ 2; VZ 1; VZ 100; VZ 0];
                  VL [VZ 5; VZ 1; VZ 70000]]].
Lemma noleak_lemma : prop_C40 w_noleak (run_C40 w_noleak) = true /\ kf_C40 w_noleak = 0.
Proof. vm_compute. split; reflexivity. Qed.

Theorem no_bug_from_init maxs evs os cf :
  forallb ev_ok evs = true -> run_events (init_conn maxs) evs = Some (os, cf) ->
  existsb (val_eqb Bug) os = false /\ Inv cf.
Proof. intros. eapply no_bug_run; eauto. apply Inv_init. Qed.

(* known finding 2: the response of stream 1 is blocked by the client's send window; the handler reads 30000
   request bytes; WINDOW_UPDATE(1) stays queued behind the blocked DATA, yet 65536 more bytes are accepted
   although the client was only told 35536 *)
Definition w_hol : val :=
  VL [VZ 200; VL [VL [VZ 1; VZ 1; VZ 0; VZ (-1); VZ 0]; VL [VZ 7; VZ 1; VZ 100000; VZ 0]; VL [VZ 2; VZ 1; VZ 30000; VZ 0];
                  VL [VZ 5; VZ 1; VZ 70000]; VL [VZ 2; VZ 1; VZ 65536; VZ 0]]].
Lemma hol_lemma : prop_C40 w_hol (run_C40 w_hol) = false /\ kf_C40 w_hol = 2.
Proof. vm_compute. split; reflexivity. Qed.

(* outbound: the only place response DATA leaves the scheduler is take_head; a DATA frame of m > 0 bytes is
   released only if m fits the stream's send window, the session's send window and the 16384 frame limit,
   and both windows are charged exactly m *)
Lemma take_head_data_within_windows c id s n fin q :
  find_s id (strs c) = Some s -> outq s = (0, n, fin) :: q -> 0 < n ->
  exists m c', take_head c id = (c', f_data id m (fin && (m =? n)) :: (if fin && (m =? n) && (sstate s =? 1) then [f_rst id 5] else []))
    /\ m <= n /\ m <= soflow s /\ m <= cflow c /\ m <= MAXFRAME /\ cflow c' = cflow c - m.
Proof.
  intros Hf Hq Hn. unfold take_head. rewrite Hf, Hq. cbn [Z.eqb negb].
  set (allowed := zmin (zmin (soflow s) (cflow c)) MAXFRAME).
  assert (Ha1 : allowed <= soflow s).
  { unfold allowed. pose proof (zmin_le_l (zmin (soflow s) (cflow c)) MAXFRAME). pose proof (zmin_le_l (soflow s) (cflow c)). lia. }
  assert (Ha2 : allowed <= cflow c).
  { unfold allowed. pose proof (zmin_le_l (zmin (soflow s) (cflow c)) MAXFRAME). pose proof (zmin_le_r (soflow s) (cflow c)). lia. }
  assert (Ha3 : allowed <= MAXFRAME) by (unfold allowed; apply zmin_le_r).
  assert (E0 : (n =? 0) = false) by (apply Z.eqb_neq; lia). rewrite E0. cbn [orb].
  destruct (n <=? allowed) eqn:E.
  - apply Z.leb_le in E. exists n. destruct fin.
    + eexists. rewrite Z.eqb_refl. cbn [andb]. split; [reflexivity|]. simpl. repeat split; lia.
    + eexists. cbn [andb]. split; [reflexivity|]. simpl. repeat split; lia.
  - apply Z.leb_gt in E. exists allowed. eexists.
    assert (E1 : (allowed =? n) = false) by (apply Z.eqb_neq; lia). rewrite E1, andb_false_r. cbn [andb].
    split; [reflexivity|]. simpl. repeat split; lia.
Qed.

(* ---------- reachable states: the per-event rules hold at every point of every history ---------- *)
Definition reach (c : conn) : Prop :=
  exists maxs evs os, forallb ev_ok evs = true /\ run_events (init_conn maxs) evs = Some (os, c).
Lemma reach_inv c : reach c -> Inv c.
Proof. intros (maxs & evs & os & Hev & Hr). destruct (no_bug_from_init maxs evs os c Hev Hr) as [_ H]. exact H. Qed.
Lemma run_events_app : forall evs1 evs2 c os1 c1 os2 c2,
  run_events c evs1 = Some (os1, c1) -> existsb (val_eqb Bug) os1 = false ->
  run_events c1 evs2 = Some (os2, c2) ->
  run_events c (evs1 ++ evs2) = Some (os1 ++ os2, c2).
Proof.
  induction evs1 as [|ev r IH]; intros evs2 c os1 c1 os2 c2 H1 Hb H2; simpl in H1.
  - inversion H1; subst. exact H2.
  - simpl. destruct (step c ev) as [[[c' fs] x]|]; [|discriminate].
    destruct (has_bug fs) eqn:Hf.
    + inversion H1; subst. simpl in Hb. discriminate.
    + destruct (run_events c' r) as [[os' cf']|] eqn:Hr; [|discriminate].
      inversion H1; subst. cbn [existsb] in Hb. rewrite obs_not_bug in Hb. cbn [orb] in Hb.
      rewrite (IH evs2 c' os' c1 os2 c2 Hr Hb H2). reflexivity.
Qed.
(* after any history, one more event of any kind neither panics nor breaks the inbound bound *)
Lemma reach_step c ev c' fs x :
  reach c -> ev_ok ev = true -> step c ev = Some (c', fs, x) -> has_bug fs = false /\ reach c'.
Proof.
  intros Hr Hev Hs. pose proof (reach_inv c Hr) as HI.
  destruct (good_step c ev c' fs x HI Hev Hs) as [HI' Hb]. split; [exact Hb|].
  destruct Hr as (maxs & evs & os & Hevs & Hrun).
  destruct (no_bug_from_init maxs evs os c Hevs Hrun) as [Hnb _].
  exists maxs, (evs ++ [ev]), (os ++ [obs c' fs x]). split.
  - rewrite forallb_app, Hevs. simpl. rewrite Hev. reflexivity.
  - apply (run_events_app evs [ev] (init_conn maxs) os c [obs c' fs x] c' Hrun Hnb).
    simpl. rewrite Hs, Hb. reflexivity.
Qed.
(* replenish at every point of every history *)
Lemma reach_read_replenishes c id k s :
  reach c -> find_s id (strs c) = Some s -> 0 < zmin k (buf s) -> muted c = false ->
  exists c' fs, handler_read c id k = (c', f_wu 0 (zmin k (buf s)) :: fs, zmin k (buf s)).
Proof. intros Hr. apply read_replenishes. apply reach_inv. exact Hr. Qed.
