(* C45: proofs about the handshake codec model TlsMsgs.v *)
From Coq Require Import List ZArith Bool Lia.
From Bfe Require Import lib.Val lib.ValProofs lib.Bytes model.TlsMsgs run.RunC45.
Import ListNotations.
Open Scope Z_scope.

(* ---------- lengths ---------- *)
Lemma blen_app (a b : bytes) : blen (a ++ b) = blen a + blen b.
Proof. unfold blen. rewrite app_length. lia. Qed.
Lemma blen_nonneg (a : bytes) : 0 <= blen a.
Proof. unfold blen. lia. Qed.
Lemma blen_cons x (a : bytes) : blen (x :: a) = 1 + blen a.
Proof. unfold blen. simpl length. lia. Qed.
Lemma blen_nil : blen [] = 0.
Proof. reflexivity. Qed.
Lemma llen_nonneg {A} (l : list A) : 0 <= llen l.
Proof. unfold llen. lia. Qed.
Lemma llen_cons {A} (x : A) l : llen (x :: l) = 1 + llen l.
Proof. unfold llen. simpl length. lia. Qed.

Lemma wf_u16_range n : wf_u16 n = true <-> 0 <= n < 65536.
Proof. unfold wf_u16. rewrite andb_true_iff, Z.leb_le, Z.ltb_lt. tauto. Qed.
Lemma wf_str_spec lo hi s : wf_str lo hi s = true <-> wf_bytes s = true /\ lo <= blen s < hi.
Proof. unfold wf_str. rewrite !andb_true_iff, Z.leb_le, Z.ltb_lt. tauto. Qed.

(* ---------- integer fields ---------- *)
Lemma rd8_u8 n r : 0 <= n < 256 -> rd8 (u8 n ++ r) = Ok (n, r).
Proof. intros H. unfold u8. simpl. rewrite Z.mod_small by lia. reflexivity. Qed.
Lemma rd16_u16 n r : 0 <= n < 65536 -> rd16 (u16 n ++ r) = Ok (n, r).
Proof.
  intros H. unfold u16. simpl. f_equal. f_equal.
  rewrite (Z.mod_small (n / 256)) by (split; [apply Z.div_pos; lia|apply Z.div_lt_upper_bound; lia]).
  pose proof (Z.div_mod n 256). lia.
Qed.
Lemma rd24_u24 n r : 0 <= n < 16777216 -> rd24 (u24 n ++ r) = Ok (n, r).
Proof.
  intros H. unfold u24. simpl. f_equal. f_equal.
  rewrite (Z.mod_small (n / 65536)) by (split; [apply Z.div_pos; lia|apply Z.div_lt_upper_bound; lia]).
  pose proof (Z.div_mod n 65536 ltac:(lia)). pose proof (Z.div_mod n 256 ltac:(lia)).
  pose proof (Z.div_mod (n / 256) 256 ltac:(lia)).
  assert (n / 256 / 256 = n / 65536) by (rewrite Z.div_div by lia; reflexivity).
  lia.
Qed.
Lemma rd32_u32 n r : 0 <= n < 4294967296 -> rd32 (u32 n ++ r) = Ok (n, r).
Proof.
  intros H. unfold u32. simpl. f_equal. f_equal.
  rewrite (Z.mod_small (n / 16777216)) by (split; [apply Z.div_pos; lia|apply Z.div_lt_upper_bound; lia]).
  pose proof (Z.div_mod n 256 ltac:(lia)).
  pose proof (Z.div_mod (n / 256) 256 ltac:(lia)).
  pose proof (Z.div_mod (n / 65536) 256 ltac:(lia)).
  assert (n / 256 / 256 = n / 65536) by (rewrite Z.div_div by lia; reflexivity).
  assert (n / 65536 / 256 = n / 16777216) by (rewrite Z.div_div by lia; reflexivity).
  lia.
Qed.
Lemma blen_u8 n : blen (u8 n) = 1. Proof. reflexivity. Qed.
Lemma blen_u16 n : blen (u16 n) = 2. Proof. reflexivity. Qed.
Lemma blen_u24 n : blen (u24 n) = 3. Proof. reflexivity. Qed.
Lemma blen_u32 n : blen (u32 n) = 4. Proof. reflexivity. Qed.

(* ---------- slicing ---------- *)
Lemma takeZ_app (a r : bytes) : takeZ (blen a) (a ++ r) = Ok (a, r).
Proof.
  unfold takeZ. rewrite blen_app.
  assert (H1 : (0 <=? blen a) = true) by (apply Z.leb_le; apply blen_nonneg).
  assert (H2 : (blen a <=? blen a + blen r) = true) by (apply Z.leb_le; pose proof (blen_nonneg r); lia).
  rewrite H1, H2. simpl. unfold blen. rewrite Nat2Z.id.
  rewrite firstn_app, Nat.sub_diag, firstn_all. simpl. rewrite app_nil_r.
  rewrite skipn_app, Nat.sub_diag, skipn_all. reflexivity.
Qed.
Lemma takeZ_app' n (a r : bytes) : n = blen a -> takeZ n (a ++ r) = Ok (a, r).
Proof. intros ->. apply takeZ_app. Qed.
Lemma takeZ_all (a : bytes) : takeZ (blen a) a = Ok (a, []).
Proof. pose proof (takeZ_app a []) as H. rewrite app_nil_r in H. exact H. Qed.

(* ---------- u16 vectors ---------- *)
Lemma blen_enc_u16s l : blen (enc_u16s l) = 2 * blen l.
Proof.
  induction l as [|x l IH]; [reflexivity|].
  unfold enc_u16s in *. change (flat_map u16 (x :: l)) with (u16 x ++ flat_map u16 l).
  rewrite blen_app, IH, blen_u16, blen_cons. lia.
Qed.
Lemma dec_enc_u16s l : forallb wf_u16 l = true -> dec_u16s (enc_u16s l) = l.
Proof.
  induction l as [|x l IH]; [reflexivity|]. simpl forallb. rewrite andb_true_iff. intros [Hx Hl].
  apply wf_u16_range in Hx. unfold enc_u16s in *. simpl.
  rewrite IH by exact Hl. f_equal.
  rewrite (Z.mod_small (x / 256)) by (split; [apply Z.div_pos; lia|apply Z.div_lt_upper_bound; lia]).
  pose proof (Z.div_mod x 256). lia.
Qed.
Lemma odd_double n : Z.odd (2 * n) = false.
Proof. rewrite Z.odd_mul. reflexivity. Qed.

#[global] Hint Rewrite blen_app blen_u8 blen_u16 blen_u24 blen_u32 blen_cons blen_nil blen_enc_u16s : blen.
Ltac blia := autorewrite with blen in *; lia.
Lemma ltb_ge_false a b : b <= a -> (a <? b) = false.
Proof. intros. apply Z.ltb_ge. lia. Qed.
Lemma rd8_cons x r : rd8 (x :: r) = Ok (x, r).
Proof. reflexivity. Qed.
Lemma hs_frame_eq ty body : hs_frame ty body = ty :: (u24 (blen body) ++ body).
Proof. reflexivity. Qed.
Lemma takeZ4_frame ty n body : takeZ 4 (ty :: (u24 n ++ body)) = Ok (ty :: u24 n, body).
Proof. apply (takeZ_app' 4 (ty :: u24 n) body). reflexivity. Qed.
Lemma blen_frame ty body : blen (hs_frame ty body) = 4 + blen body.
Proof. rewrite hs_frame_eq. blia. Qed.

Ltac eqb_true :=
  match goal with
  | |- context [Z.eqb ?a ?b] =>
    let H := fresh in assert (H : Z.eqb a b = true) by (apply Z.eqb_eq; blia); rewrite H; clear H; cbn [negb]; cbv iota
  end.

(* ---------- simple messages ---------- *)
Lemma roundtrip_fin v : unmarshal_fin (marshal_fin v) = Ok v.
Proof.
  unfold unmarshal_fin, marshal_fin.
  rewrite ltb_ge_false by (pose proof (blen_nonneg v); blia).
  rewrite (takeZ_app' 4 [20; 0; 0; blen v mod 256] v) by reflexivity. reflexivity.
Qed.

Lemma roundtrip_ske k : unmarshal_ske (marshal_ske k) = Ok k.
Proof.
  unfold unmarshal_ske, marshal_ske. rewrite blen_frame, hs_frame_eq.
  rewrite ltb_ge_false by (pose proof (blen_nonneg k); lia).
  rewrite takeZ4_frame. reflexivity.
Qed.

Lemma roundtrip_cke k : blen k < 16777216 -> unmarshal_cke (marshal_cke k) = Ok k.
Proof.
  intros H. unfold unmarshal_cke, marshal_cke. rewrite blen_frame, hs_frame_eq.
  pose proof (blen_nonneg k).
  rewrite ltb_ge_false by lia. rewrite rd8_cons. cbv beta iota.
  rewrite rd24_u24 by lia. cbv beta iota.
  replace (blen k =? 4 + blen k - 4) with true by (symmetry; apply Z.eqb_eq; lia). reflexivity.
Qed.

Lemma roundtrip_nst t : blen t < 65536 -> unmarshal_nst (marshal_nst t) = Ok t.
Proof.
  intros H. unfold unmarshal_nst, marshal_nst. rewrite blen_frame, hs_frame_eq.
  pose proof (blen_nonneg t).
  rewrite ltb_ge_false by blia. rewrite rd8_cons. cbv beta iota.
  rewrite rd24_u24 by blia. cbv beta iota.
  eqb_true.
  rewrite (takeZ_app' 4 [0; 0; 0; 0]) by reflexivity. cbv beta iota.
  rewrite rd16_u16 by lia. cbv beta iota.
  eqb_true.
  reflexivity.
Qed.

Lemma roundtrip_cs ty resp :
  0 <= ty < 256 -> blen resp < 16777212 -> (ty = 1 \/ resp = []) ->
  unmarshal_cs (marshal_cs ty resp) = Ok (ty, resp).
Proof.
  intros Ht Hr Hc. unfold unmarshal_cs, marshal_cs. pose proof (blen_nonneg resp).
  destruct (ty =? 1) eqn:E.
  - apply Z.eqb_eq in E. subst ty. rewrite blen_frame, hs_frame_eq.
    rewrite ltb_ge_false by blia. rewrite takeZ4_frame. cbv beta iota.
    change ([1] ++ u24 (blen resp) ++ resp) with (1 :: (u24 (blen resp) ++ resp)).
    rewrite rd8_cons. cbv beta iota. simpl (1 =? 1). cbv iota.
    rewrite ltb_ge_false by blia. rewrite rd24_u24 by lia. cbv beta iota.
    eqb_true.
    reflexivity.
  - destruct Hc as [-> | ->]; [discriminate|].
    rewrite Z.mod_small by lia. simpl. rewrite E. reflexivity.
Qed.

Lemma roundtrip_cv (has : bool) sah sg :
  (if has then 0 <= sah < 65536 else sah = 0) -> blen sg < 65536 ->
  unmarshal_cv has (marshal_cv has sah sg) = Ok (sah, sg).
Proof.
  intros Hs Hl. unfold unmarshal_cv, marshal_cv. rewrite blen_frame, hs_frame_eq.
  pose proof (blen_nonneg sg).
  rewrite ltb_ge_false by (destruct has; blia). rewrite rd8_cons. cbv beta iota.
  rewrite rd24_u24 by (destruct has; blia). cbv beta iota.
  eqb_true.
  destruct has.
  - rewrite rd16_u16 by lia. cbv beta iota. rewrite rd16_u16 by lia. cbv beta iota.
    rewrite Z.eqb_refl. reflexivity.
  - subst sah. cbv beta iota. rewrite app_nil_l. rewrite rd16_u16 by lia. cbv beta iota. rewrite Z.eqb_refl. reflexivity.
Qed.

(* ---------- loops ---------- *)
Lemma flat_map_length_ge {A} (f : A -> bytes) (l : list A) :
  (forall x, (1 <= length (f x))%nat) -> (length l <= length (flat_map f l))%nat.
Proof.
  intros Hf. induction l as [|x l IH]; simpl; [lia|]. rewrite app_length. specialize (Hf x). lia.
Qed.
Lemma flat_map_cons {A B} (f : A -> list B) x l : flat_map f (x :: l) = f x ++ flat_map f l.
Proof. reflexivity. Qed.

(* certificateMsg *)
Lemma cert_loop_step f d :
  d <> [] ->
  cert_loop (S f) d =
  (if blen d <? 4 then Bad else
   do (cl, d1) <- rd24 d; do (c, d2) <- takeZ cl d1; do r <- cert_loop f d2; Ok (c :: r)).
Proof. destruct d; [contradiction|reflexivity]. Qed.

Lemma cert_loop_enc : forall certs fuel,
  forallb (wf_str 1 16777216) certs = true -> (length certs <= fuel)%nat ->
  cert_loop fuel (flat_map enc_cert24 certs) = Ok certs.
Proof.
  induction certs as [|c r IH]; intros fuel Hwf Hf.
  - destruct fuel; reflexivity.
  - simpl in Hwf. apply andb_true_iff in Hwf. destruct Hwf as [Hc Hr]. apply wf_str_spec in Hc.
    destruct Hc as [_ Hc]. destruct fuel as [|f]; [simpl in Hf; lia|].
    rewrite flat_map_cons. unfold enc_cert24 at 1. rewrite <- !app_assoc.
    rewrite cert_loop_step by (unfold u24; simpl; discriminate).
    rewrite ltb_ge_false by (pose proof (blen_nonneg (flat_map enc_cert24 r)); blia).
    rewrite rd24_u24 by lia. cbv beta iota. rewrite takeZ_app. cbv beta iota.
    rewrite IH by (auto; simpl in Hf; lia). reflexivity.
Qed.

Lemma roundtrip_cert certs :
  forallb (wf_str 1 16777216) certs = true -> blen (flat_map enc_cert24 certs) < 16777216 ->
  unmarshal_cert (marshal_cert certs) = Ok certs.
Proof.
  intros Hwf Hl. unfold unmarshal_cert, marshal_cert. cbv zeta.
  set (body := flat_map enc_cert24 certs) in *. pose proof (blen_nonneg body).
  rewrite blen_frame, hs_frame_eq. rewrite ltb_ge_false by blia.
  rewrite takeZ4_frame. cbv beta iota. rewrite rd24_u24 by lia. cbv beta iota.
  eqb_true. apply cert_loop_enc; [exact Hwf|].
  apply flat_map_length_ge. intros x. unfold enc_cert24, u24. simpl. lia.
Qed.

(* sessionState *)
Lemma ss_cert_loop_enc : forall certs rest,
  forallb (wf_str 0 4294967296) certs = true ->
  ss_cert_loop (length certs) (flat_map enc_cert32 certs ++ rest) = Ok (certs, rest).
Proof.
  induction certs as [|c r IH]; intros rest Hwf; [reflexivity|].
  simpl in Hwf. apply andb_true_iff in Hwf. destruct Hwf as [Hc Hr]. apply wf_str_spec in Hc.
  destruct Hc as [_ Hc]. rewrite flat_map_cons. unfold enc_cert32 at 1. rewrite <- !app_assoc.
  simpl length. cbn [ss_cert_loop]. rewrite rd32_u32 by lia. cbv beta iota.
  rewrite takeZ_app. cbv beta iota. rewrite IH by exact Hr. reflexivity.
Qed.
Lemma blen_flat_cert32 certs : 4 * llen certs <= blen (flat_map enc_cert32 certs).
Proof.
  induction certs as [|c r IH]; [unfold llen, blen; simpl; lia|].
  rewrite flat_map_cons, llen_cons. unfold enc_cert32 at 1. pose proof (blen_nonneg c). blia.
Qed.

Lemma roundtrip_ss s : wf_ss s = true -> unmarshal_ss (marshal_ss s) = Ok s.
Proof.
  unfold wf_ss. rewrite !andb_true_iff. intros [[[[Hv Hs] Hm] Hn] Hc].
  apply wf_u16_range in Hv, Hs. apply wf_str_spec in Hm. destruct Hm as [_ Hm]. apply Z.ltb_lt in Hn.
  destruct s as [vers suite master certs]. simpl in *.
  unfold unmarshal_ss, marshal_ss. simpl ss_vers. simpl ss_suite. simpl ss_master. simpl ss_certs.
  pose proof (blen_nonneg master). pose proof (blen_nonneg (flat_map enc_cert32 certs)).
  pose proof (llen_nonneg certs). pose proof (blen_flat_cert32 certs).
  rewrite ltb_ge_false by blia.
  rewrite rd16_u16 by lia. cbv beta iota. rewrite rd16_u16 by lia. cbv beta iota.
  rewrite rd16_u16 by lia. cbv beta iota. rewrite takeZ_app. cbv beta iota.
  rewrite rd16_u16 by lia. cbv beta iota.
  rewrite ltb_ge_false by lia.
  unfold llen. rewrite Nat2Z.id.
  rewrite <- (app_nil_r (flat_map enc_cert32 certs)).
  rewrite ss_cert_loop_enc by exact Hc. cbv beta iota. reflexivity.
Qed.

(* one-byte-length-prefixed string lists *)
Lemma str8_loop_enc : forall l fuel acc,
  forallb (wf_str 1 256) l = true -> (length l <= fuel)%nat ->
  str8_loop fuel (flat_map enc_str8 l) acc = Ok (acc ++ l).
Proof.
  induction l as [|s r IH]; intros fuel acc Hwf Hf.
  - rewrite app_nil_r. destruct fuel; reflexivity.
  - simpl in Hwf. apply andb_true_iff in Hwf. destruct Hwf as [Hs Hr]. apply wf_str_spec in Hs.
    destruct Hs as [_ Hs]. destruct fuel as [|f]; [simpl in Hf; lia|].
    rewrite flat_map_cons. unfold enc_str8 at 1, u8. rewrite Z.mod_small by lia.
    rewrite <- app_assoc. change ([blen s] ++ s ++ flat_map enc_str8 r) with (blen s :: (s ++ flat_map enc_str8 r)).
    cbn [str8_loop].
    assert (E1 : (blen s =? 0) = false) by (apply Z.eqb_neq; lia).
    assert (E2 : (blen (s ++ flat_map enc_str8 r) <? blen s) = false).
    { apply Z.ltb_ge. pose proof (blen_nonneg (flat_map enc_str8 r)). blia. }
    rewrite E1, E2. cbn [orb]. cbv iota. rewrite takeZ_app. cbv beta iota.
    rewrite IH by (auto; simpl in Hf; lia). rewrite <- app_assoc. reflexivity.
Qed.
Lemma str8_fuel l : (length l <= length (flat_map enc_str8 l))%nat.
Proof. apply flat_map_length_ge. intros x. unfold enc_str8, u8. simpl. lia. Qed.

Lemma blen_pos_cons (x : Z) l : (0 <? blen (x :: l)) = true.
Proof. apply Z.ltb_lt. pose proof (blen_nonneg l). blia. Qed.
Lemma llen_pos_cons {A} (x : A) l : (0 <? llen (x :: l)) = true.
Proof. apply Z.ltb_lt. pose proof (llen_nonneg l). rewrite llen_cons. lia. Qed.

(* ---------- extension blocks ---------- *)
Lemma length_opt_ext c id p : length (opt_ext c id p) = if c then 1%nat else 0%nat.
Proof. destruct c; reflexivity. Qed.
Lemma exts_fuel (l : list (Z * bytes)) : (length l <= length (flat_map enc_ext l))%nat.
Proof. apply flat_map_length_ge. intros [id p]. unfold enc_ext, u16. simpl. lia. Qed.
Lemma enc_ext_app id p rest :
  enc_ext (id, p) ++ rest = u16 id ++ u16 (blen p) ++ p ++ rest.
Proof. unfold enc_ext. cbn [fst snd]. rewrite <- !app_assoc. reflexivity. Qed.
Lemma u16_app_nonnil n r : u16 n ++ r <> [].
Proof. unfold u16. simpl. discriminate. Qed.

(* serverHello *)
Lemma sh_loop_step f d m :
  d <> [] ->
  sh_ext_loop (S f) d m =
  (do (id, d1) <- rd16 d; do (len, d2) <- rd16 d1; do (p, rest) <- takeZ len d2;
   do m' <- sh_handle id len p m; sh_ext_loop f rest m').
Proof. destruct d; [contradiction|reflexivity]. Qed.
Lemma sh_loop_nil f m : sh_ext_loop f [] m = Ok m.
Proof. destruct f; reflexivity. Qed.

Lemma sh_opt_step (c : bool) id p rest m m1 fuel r :
  0 <= id < 65536 -> (c = true -> blen p < 65536) ->
  (c = true -> sh_handle id (blen p) p m = Ok m1) ->
  sh_ext_loop fuel rest (if c then m1 else m) = Ok r ->
  sh_ext_loop (length (opt_ext c id p) + fuel) (flat_map enc_ext (opt_ext c id p) ++ rest) m = Ok r.
Proof.
  intros Hid Hp Hh Hk. destruct c.
  2: { change (flat_map enc_ext (opt_ext false id p) ++ rest) with rest.
       change (length (opt_ext false id p) + fuel)%nat with fuel. exact Hk. }
  - change (flat_map enc_ext (opt_ext true id p)) with (enc_ext (id, p) ++ []).
    change (length (opt_ext true id p) + fuel)%nat with (S fuel).
    rewrite app_nil_r, enc_ext_app. rewrite sh_loop_step by apply u16_app_nonnil.
    pose proof (blen_nonneg p). specialize (Hp eq_refl).
    rewrite rd16_u16 by lia. cbv beta iota. rewrite rd16_u16 by lia. cbv beta iota.
    rewrite takeZ_app. cbv beta iota. rewrite (Hh eq_refl). exact Hk.
Qed.

Lemma sh_loop_mono : forall f d m r f',
  sh_ext_loop f d m = Ok r -> (f <= f')%nat -> sh_ext_loop f' d m = Ok r.
Proof.
  induction f as [|f IH]; intros d m r f' H Hle.
  - destruct d; simpl in H; [|discriminate]. inversion H. apply sh_loop_nil.
  - destruct d as [|x d]; [simpl in H; inversion H; apply sh_loop_nil|].
    destruct f' as [|f'']; [lia|].
    rewrite sh_loop_step in * by discriminate.
    destruct (rd16 (x :: d)) as [[id d1]| |]; try discriminate.
    destruct (rd16 d1) as [[len d2]| |]; try discriminate.
    destruct (takeZ len d2) as [[p rest]| |]; try discriminate.
    destruct (sh_handle id len p m) as [m'| |]; try discriminate.
    apply IH with (f' := f'') in H; [exact H|lia].
Qed.

Definition sh_set_npn (ps : list bytes) (m : server_hello) : server_hello :=
  {| sh_vers := sh_vers m; sh_random := sh_random m; sh_sid := sh_sid m; sh_suite := sh_suite m;
     sh_comp := sh_comp m; sh_npn := true; sh_protos := ps; sh_ocsp := sh_ocsp m;
     sh_ticket := sh_ticket m; sh_reneg := sh_reneg m; sh_alpn := sh_alpn m |}.
Definition sh_set_ocsp (m : server_hello) : server_hello :=
  {| sh_vers := sh_vers m; sh_random := sh_random m; sh_sid := sh_sid m; sh_suite := sh_suite m;
     sh_comp := sh_comp m; sh_npn := sh_npn m; sh_protos := sh_protos m; sh_ocsp := true;
     sh_ticket := sh_ticket m; sh_reneg := sh_reneg m; sh_alpn := sh_alpn m |}.
Definition sh_set_ticket (m : server_hello) : server_hello :=
  {| sh_vers := sh_vers m; sh_random := sh_random m; sh_sid := sh_sid m; sh_suite := sh_suite m;
     sh_comp := sh_comp m; sh_npn := sh_npn m; sh_protos := sh_protos m; sh_ocsp := sh_ocsp m;
     sh_ticket := true; sh_reneg := sh_reneg m; sh_alpn := sh_alpn m |}.
Definition sh_set_reneg (m : server_hello) : server_hello :=
  {| sh_vers := sh_vers m; sh_random := sh_random m; sh_sid := sh_sid m; sh_suite := sh_suite m;
     sh_comp := sh_comp m; sh_npn := sh_npn m; sh_protos := sh_protos m; sh_ocsp := sh_ocsp m;
     sh_ticket := sh_ticket m; sh_reneg := true; sh_alpn := sh_alpn m |}.
Definition sh_set_alpn (a : bytes) (m : server_hello) : server_hello :=
  {| sh_vers := sh_vers m; sh_random := sh_random m; sh_sid := sh_sid m; sh_suite := sh_suite m;
     sh_comp := sh_comp m; sh_npn := sh_npn m; sh_protos := sh_protos m; sh_ocsp := sh_ocsp m;
     sh_ticket := sh_ticket m; sh_reneg := sh_reneg m; sh_alpn := a |}.
Lemma sh_h_ocsp m : sh_handle 5 (blen []) [] m = Ok (sh_set_ocsp m).
Proof. reflexivity. Qed.
Lemma sh_h_ticket m : sh_handle 35 (blen []) [] m = Ok (sh_set_ticket m).
Proof. reflexivity. Qed.
Lemma sh_h_reneg m : sh_handle 65281 (blen [0]) [0] m = Ok (sh_set_reneg m).
Proof. reflexivity. Qed.

Lemma sh_h_npn protos m :
  forallb (wf_str 1 256) protos = true ->
  sh_handle 13172 (blen (flat_map enc_str8 protos)) (flat_map enc_str8 protos) m =
  Ok (sh_set_npn (sh_protos m ++ protos) m).
Proof.
  intros H. unfold sh_handle. change (13172 =? 13172) with true. cbv iota.
  rewrite str8_loop_enc by (auto using str8_fuel). reflexivity.
Qed.
Lemma sh_h_alpn a m :
  1 <= blen a < 256 ->
  sh_handle 16 (blen (u16 (blen a + 1) ++ u8 (blen a) ++ a)) (u16 (blen a + 1) ++ u8 (blen a) ++ a) m =
  Ok (sh_set_alpn a m).
Proof.
  intros H. unfold sh_handle.
  change (16 =? 13172) with false. change (16 =? 5) with false. change (16 =? 35) with false.
  change (16 =? 65281) with false. change (16 =? 16) with true. cbv iota.
  rewrite ltb_ge_false by blia. rewrite rd16_u16 by lia. cbv beta iota.
  eqb_true. rewrite rd8_u8 by lia. cbv beta iota. eqb_true. reflexivity.
Qed.

Definition sh_m0 (m : server_hello) : server_hello :=
  {| sh_vers := sh_vers m; sh_random := sh_random m; sh_sid := sh_sid m; sh_suite := sh_suite m;
     sh_comp := sh_comp m; sh_npn := false; sh_protos := []; sh_ocsp := false; sh_ticket := false;
     sh_reneg := false; sh_alpn := [] |}.

Lemma sh_exts_parse m :
  wf_sh m = true ->
  sh_ext_loop (length (sh_exts m)) (flat_map enc_ext (sh_exts m)) (sh_m0 m) = Ok m.
Proof.
  unfold wf_sh. rewrite !andb_true_iff.
  intros [[[[[[[[[Hv Hr] Hs] Hsu] Hc1] Hc2] Hp] Hn] Ha] Hf].
  apply wf_str_spec in Ha. destruct Ha as [_ Ha].
  unfold exts_fit in Hf. apply andb_true_iff in Hf. destruct Hf as [Hf _].
  assert (Hfit : forall e, In e (sh_exts m) -> blen (snd e) < 65536).
  { intros e He. rewrite forallb_forall in Hf. apply Z.ltb_lt. apply Hf. exact He. }
  unfold sh_exts in *. rewrite !flat_map_app, !app_length.
  rewrite <- (app_nil_r (flat_map enc_ext (opt_ext (0 <? blen (sh_alpn m)) 16 _))).
  rewrite <- (Nat.add_0_r (length (opt_ext (0 <? blen (sh_alpn m)) 16 _))).
  rewrite <- ?app_assoc, <- ?Nat.add_assoc.
  assert (Hin : forall c id p, c = true -> In (id, p) (opt_ext c id p)) by (intros c id p ->; left; reflexivity).
  eapply sh_opt_step; [lia| |intros Hc; apply sh_h_npn; exact Hp|].
  { intros E. apply (Hfit (13172, _)). rewrite !in_app_iff. left. apply Hin. exact E. }
  eapply sh_opt_step; [lia|intros _; unfold blen; simpl; lia|intros Hc; apply sh_h_ocsp|].
  eapply sh_opt_step; [lia|intros _; unfold blen; simpl; lia|intros Hc; apply sh_h_ticket|].
  eapply sh_opt_step; [lia|intros _; unfold blen; simpl; lia|intros Hc; apply sh_h_reneg|].
  eapply sh_opt_step; [lia| |intros Hc; apply sh_h_alpn; apply Z.ltb_lt in Hc; lia|].
  { intros E. apply (Hfit (16, _)). rewrite !in_app_iff. do 4 right. apply Hin. exact E. }
  rewrite sh_loop_nil. f_equal.
  destruct m as [vers random sid suite comp npn protos ocsp ticket reneg alpn].
  cbn [sh_vers sh_random sh_sid sh_suite sh_comp sh_npn sh_protos sh_ocsp sh_ticket sh_reneg sh_alpn] in *.
  assert (Hprotos : npn = false -> protos = []).
  { intros ->. simpl in Hn. destruct protos; [reflexivity|]. unfold llen in Hn. simpl in Hn. discriminate. }
  assert (Hnil : forall l : bytes, (0 <? blen l) = false -> l = []).
  { intros [|x l] E; [reflexivity|]. rewrite blen_pos_cons in E. discriminate. }
  clear Hv Hr Hs Hsu Hc1 Hc2 Hp Hn Ha Hf Hfit.
  destruct npn; [|rewrite (Hprotos eq_refl)]; clear Hprotos;
  (destruct ocsp; destruct ticket; destruct reneg;
   (destruct (0 <? blen alpn) eqn:E1; [|apply Hnil in E1; subst alpn]); reflexivity).
Qed.

Lemma pad32_id r : blen r = 32 -> pad32 r = r.
Proof.
  intros H. unfold pad32. assert (Hl : length r = 32%nat) by (unfold blen in H; lia).
  rewrite firstn_app, Hl. simpl (32 - 32)%nat. rewrite firstn_O, app_nil_r.
  rewrite <- Hl. apply firstn_all.
Qed.

Definition sh_tail (d : bytes) (m0 : server_hello) : res server_hello :=
  match d with
  | [] => Ok m0
  | _ => do (el, d') <- rd16 d; if negb (blen d' =? el) then Bad else sh_ext_loop (length d') d' m0
  end.

Lemma sh_tail_ok m : wf_sh m = true -> sh_tail (enc_exts (sh_exts m)) (sh_m0 m) = Ok m.
Proof.
  intros Hwf. pose proof (sh_exts_parse m Hwf) as Hp.
  assert (Hfit : blen (flat_map enc_ext (sh_exts m)) < 65536).
  { unfold wf_sh in Hwf. rewrite !andb_true_iff in Hwf. destruct Hwf as [_ Hf].
    unfold exts_fit in Hf. apply andb_true_iff in Hf. destruct Hf as [_ Hf]. apply Z.ltb_lt. exact Hf. }
  unfold enc_exts. destruct (sh_exts m) as [|e l] eqn:E.
  - simpl in Hp. simpl. exact Hp.
  - set (b := flat_map enc_ext (e :: l)) in *. cbv zeta.
    unfold sh_tail.
    destruct (u16 (blen b) ++ b) as [|x t] eqn:Ed; [exfalso; eapply u16_app_nonnil; exact Ed|].
    rewrite <- Ed. pose proof (blen_nonneg b).
    rewrite rd16_u16 by lia. cbv beta iota. rewrite Z.eqb_refl. cbn [negb]. cbv iota.
    eapply sh_loop_mono; [exact Hp|]. unfold b. rewrite <- E. apply exts_fuel.
Qed.

Lemma roundtrip_sh m : wf_sh m = true -> unmarshal_sh (marshal_sh m) = Ok m.
Proof.
  intros Hwf. pose proof (sh_tail_ok m Hwf) as Ht.
  unfold wf_sh in Hwf. rewrite !andb_true_iff in Hwf.
  destruct Hwf as [[[[[[[[[Hv Hr] Hs] Hsu] Hc1] Hc2] Hp] Hn] Ha] Hf].
  apply wf_u16_range in Hv, Hsu. apply wf_str_spec in Hr, Hs. destruct Hr as [_ Hr]. destruct Hs as [_ Hs].
  apply Z.leb_le in Hc1. apply Z.ltb_lt in Hc2.
  destruct m as [vers random sid suite comp npn protos ocsp ticket reneg alpn]. simpl in *.
  unfold unmarshal_sh, marshal_sh. cbn [sh_vers sh_random sh_sid sh_suite sh_comp].
  rewrite pad32_id by lia.
  set (tail := enc_exts _) in *. pose proof (blen_nonneg tail).
  rewrite blen_frame, hs_frame_eq. rewrite ltb_ge_false by blia.
  rewrite takeZ4_frame. cbv beta iota. rewrite rd16_u16 by lia. cbv beta iota.
  rewrite (takeZ_app' 32 random) by lia. cbv beta iota.
  rewrite rd8_u8 by lia. cbv beta iota. rewrite ltb_ge_false by lia.
  rewrite takeZ_app. cbv beta iota. rewrite rd16_u16 by lia. cbv beta iota.
  rewrite rd8_u8 by lia. cbv beta iota zeta.
  exact Ht.
Qed.

(* clientHello *)
Lemma ch_loop_step f d m :
  d <> [] ->
  ch_ext_loop (S f) d m =
  (do (id, d1) <- rd16 d; do (len, d2) <- rd16 d1; do (p, rest) <- takeZ len d2;
   do m' <- ch_handle id len p d2 (ch_push id m); ch_ext_loop f rest m').
Proof. destruct d; [contradiction|reflexivity]. Qed.
Lemma ch_loop_nil f m : ch_ext_loop f [] m = Ok m.
Proof. destruct f; reflexivity. Qed.

Lemma ch_opt_step (c : bool) id p rest m m1 fuel r :
  0 <= id < 65536 -> (c = true -> blen p < 65536) ->
  (c = true -> ch_handle id (blen p) p (p ++ rest) (ch_push id m) = Ok m1) ->
  ch_ext_loop fuel rest (if c then m1 else m) = Ok r ->
  ch_ext_loop (length (opt_ext c id p) + fuel) (flat_map enc_ext (opt_ext c id p) ++ rest) m = Ok r.
Proof.
  intros Hid Hp Hh Hk. destruct c.
  2: { change (flat_map enc_ext (opt_ext false id p) ++ rest) with rest.
       change (length (opt_ext false id p) + fuel)%nat with fuel. exact Hk. }
  - change (flat_map enc_ext (opt_ext true id p)) with (enc_ext (id, p) ++ []).
    change (length (opt_ext true id p) + fuel)%nat with (S fuel).
    rewrite app_nil_r, enc_ext_app. rewrite ch_loop_step by apply u16_app_nonnil.
    pose proof (blen_nonneg p). specialize (Hp eq_refl).
    rewrite rd16_u16 by lia. cbv beta iota. rewrite rd16_u16 by lia. cbv beta iota.
    rewrite takeZ_app. cbv beta iota. rewrite (Hh eq_refl). exact Hk.
Qed.

Lemma ch_loop_mono : forall f d m r f',
  ch_ext_loop f d m = Ok r -> (f <= f')%nat -> ch_ext_loop f' d m = Ok r.
Proof.
  induction f as [|f IH]; intros d m r f' H Hle.
  - destruct d; simpl in H; [|discriminate]. inversion H. apply ch_loop_nil.
  - destruct d as [|x d]; [simpl in H; inversion H; apply ch_loop_nil|].
    destruct f' as [|f'']; [lia|].
    rewrite ch_loop_step in * by discriminate.
    destruct (rd16 (x :: d)) as [[id d1]| |]; try discriminate.
    destruct (rd16 d1) as [[len d2]| |]; try discriminate.
    destruct (takeZ len d2) as [[p rest]| |]; try discriminate.
    destruct (ch_handle id len p d2 (ch_push id m)) as [m'| |]; try discriminate.
    apply IH with (f' := f'') in H; [exact H|lia].
Qed.

Ltac closed_eqb :=
  repeat match goal with
  | |- context [Z.eqb (Zpos ?a) (Zpos ?b)] =>
    let v := eval compute in (Z.eqb (Zpos a) (Zpos b)) in change (Z.eqb (Zpos a) (Zpos b)) with v
  | |- context [Z.eqb (Zpos ?a) 0] => change (Z.eqb (Zpos a) 0) with false
  | |- context [Z.eqb 0 0] => change (Z.eqb 0 0) with true
  end; cbv iota.

Lemma ch_h_npn rest m : ch_handle 13172 (blen []) [] ([] ++ rest) m = Ok (ch_set_npn true m).
Proof. reflexivity. Qed.
Lemma ch_h_ocsp rest m :
  ch_handle 5 (blen [1; 0; 0; 0; 0]) [1; 0; 0; 0; 0] ([1; 0; 0; 0; 0] ++ rest) m = Ok (ch_set_ocsp true m).
Proof. reflexivity. Qed.
Lemma ch_h_reneg rest m : ch_handle 65281 (blen [0]) [0] ([0] ++ rest) m = Ok (ch_set_reneg true m).
Proof. reflexivity. Qed.
Lemma ch_h_ticket t rest m : ch_handle 35 (blen t) t (t ++ rest) m = Ok (ch_set_ticket t m).
Proof. unfold ch_handle. closed_eqb. reflexivity. Qed.

Lemma ch_h_sni s rest m :
  1 <= blen s -> blen s + 3 < 65536 ->
  let p := u16 (blen s + 3) ++ [0] ++ u16 (blen s) ++ s in
  ch_handle 0 (blen p) p (p ++ rest) m = Ok (ch_set_sni s m).
Proof.
  intros H1 H2 p. unfold ch_handle. closed_eqb. unfold p.
  rewrite ltb_ge_false by blia. rewrite <- !app_assoc. rewrite rd16_u16 by lia. cbv beta iota.
  change ([0] ++ u16 (blen s) ++ s ++ rest) with (0 :: (u16 (blen s) ++ s ++ rest)).
  cbn [sni_loop]. rewrite (proj2 (Z.leb_gt _ _)) by lia.
  rewrite rd8_cons. cbv beta iota. rewrite rd16_u16 by lia. cbv beta iota.
  rewrite takeZ_app. cbv beta iota. closed_eqb. reflexivity.
Qed.

Lemma ch_h_curves cs rest m :
  forallb wf_u16 cs = true -> 2 * blen cs < 65536 ->
  let p := u16 (2 * blen cs) ++ enc_u16s cs in
  ch_handle 10 (blen p) p (p ++ rest) m = Ok (ch_set_curves cs m).
Proof.
  intros Hw Hl p. unfold ch_handle. closed_eqb. unfold p. pose proof (blen_nonneg cs).
  rewrite ltb_ge_false by blia. rewrite rd16_u16 by lia. cbv beta iota.
  rewrite odd_double. cbn [orb]. eqb_true. rewrite dec_enc_u16s by exact Hw. reflexivity.
Qed.

Lemma ch_h_sigalgs cs rest m :
  forallb wf_u16 cs = true -> 2 * blen cs < 65536 ->
  let p := u16 (2 * blen cs) ++ enc_u16s cs in
  ch_handle 13 (blen p) p (p ++ rest) m = Ok (ch_set_sigalgs cs m).
Proof.
  intros Hw Hl p. unfold ch_handle. closed_eqb. unfold p. pose proof (blen_nonneg cs).
  rewrite ltb_ge_false by blia.
  replace (blen (u16 (2 * blen cs) ++ enc_u16s cs)) with (2 * (1 + blen cs)) by blia.
  rewrite odd_double. cbn [orb]. cbv iota. rewrite rd16_u16 by lia. cbv beta iota.
  eqb_true. rewrite dec_enc_u16s by exact Hw. reflexivity.
Qed.

Lemma ch_h_points ps rest m :
  blen ps < 256 ->
  let p := u8 (blen ps) ++ ps in
  ch_handle 11 (blen p) p (p ++ rest) m = Ok (ch_set_points ps m).
Proof.
  intros Hl p. unfold ch_handle. closed_eqb. unfold p. pose proof (blen_nonneg ps).
  rewrite ltb_ge_false by blia. rewrite rd8_u8 by lia. cbv beta iota.
  eqb_true. reflexivity.
Qed.

Lemma ch_h_alpn al rest m :
  forallb (wf_str 1 256) al = true -> blen (flat_map enc_str8 al) < 65536 ->
  let p := (let s := flat_map enc_str8 al in u16 (blen s) ++ s) in
  ch_handle 16 (blen p) p (p ++ rest) m = Ok (ch_set_alpn (ch_alpn m ++ al) m).
Proof.
  intros Hw Hl p. unfold ch_handle. closed_eqb. unfold p. cbv zeta.
  pose proof (blen_nonneg (flat_map enc_str8 al)).
  rewrite ltb_ge_false by blia. rewrite rd16_u16 by lia. cbv beta iota.
  eqb_true. rewrite str8_loop_enc by (auto using str8_fuel). reflexivity.
Qed.

Definition ch_m0 (m : client_hello) : client_hello :=
  {| ch_vers := ch_vers m; ch_random := ch_random m; ch_sid := ch_sid m; ch_suites := ch_suites m;
     ch_comp := ch_comp m; ch_npn := false; ch_sni := []; ch_ocsp := false; ch_curves := [];
     ch_points := []; ch_ticket_ok := false; ch_ticket := []; ch_sigalgs := [];
     ch_reneg := existsb (Z.eqb scsv_renegotiation) (ch_suites m); ch_alpn := [];
     ch_padding := false; ch_extids := [] |}.
(* what unmarshal returns for marshal m: m itself, with the two derived fields filled in *)
Definition ch_parsed (m : client_hello) : client_hello :=
  {| ch_vers := ch_vers m; ch_random := ch_random m; ch_sid := ch_sid m; ch_suites := ch_suites m;
     ch_comp := ch_comp m; ch_npn := ch_npn m; ch_sni := ch_sni m; ch_ocsp := ch_ocsp m;
     ch_curves := ch_curves m; ch_points := ch_points m; ch_ticket_ok := ch_ticket_ok m;
     ch_ticket := ch_ticket m; ch_sigalgs := ch_sigalgs m; ch_reneg := ch_reneg m; ch_alpn := ch_alpn m;
     ch_padding := false; ch_extids := map fst (ch_exts m) |}.


Lemma ch_exts_parse m :
  wf_ch m = true ->
  ch_ext_loop (length (ch_exts m)) (flat_map enc_ext (ch_exts m)) (ch_m0 m) = Ok (ch_parsed m).
Proof.
  unfold wf_ch. rewrite !andb_true_iff.
  intros [[[[[[[[[[[[[[Hv Hr] Hs] Hsu] Hsl] Hc] Hsn] Hcu] Hpo] Hti] Htk] Hsa] Hal] Hre] Hf].
  apply wf_str_spec in Hpo. destruct Hpo as [_ Hpo].
  unfold exts_fit in Hf. apply andb_true_iff in Hf. destruct Hf as [Hf _].
  assert (Hfit : forall e, In e (ch_exts m) -> blen (snd e) < 65536).
  { intros e He. rewrite forallb_forall in Hf. apply Z.ltb_lt. apply Hf. exact He. }
  assert (Hin : forall c id p, c = true -> In (id, p) (opt_ext c id p)) by (intros c id p ->; left; reflexivity).
  (* payload bounds for each optional extension *)
  assert (F2 : (0 <? blen (ch_sni m)) = true -> blen (u16 (blen (ch_sni m) + 3) ++ [0] ++ u16 (blen (ch_sni m)) ++ ch_sni m) < 65536).
  { intros E. apply (Hfit (0, _)). unfold ch_exts. rewrite !in_app_iff. right; left. apply Hin. exact E. }
  assert (F4 : (0 <? blen (ch_curves m)) = true -> blen (u16 (2 * blen (ch_curves m)) ++ enc_u16s (ch_curves m)) < 65536).
  { intros E. apply (Hfit (10, _)). unfold ch_exts. rewrite !in_app_iff. do 3 right; left. apply Hin. exact E. }
  assert (F5 : (0 <? blen (ch_points m)) = true -> blen (u8 (blen (ch_points m)) ++ ch_points m) < 65536).
  { intros E. apply (Hfit (11, _)). unfold ch_exts. rewrite !in_app_iff. do 4 right; left. apply Hin. exact E. }
  assert (F6 : ch_ticket_ok m = true -> blen (ch_ticket m) < 65536).
  { intros E. apply (Hfit (35, _)). unfold ch_exts. rewrite !in_app_iff. do 5 right; left. apply Hin. exact E. }
  assert (F7 : (0 <? blen (ch_sigalgs m)) = true -> blen (u16 (2 * blen (ch_sigalgs m)) ++ enc_u16s (ch_sigalgs m)) < 65536).
  { intros E. apply (Hfit (13, _)). unfold ch_exts. rewrite !in_app_iff. do 6 right; left. apply Hin. exact E. }
  assert (F9 : (0 <? llen (ch_alpn m)) = true ->
               blen (let s := flat_map enc_str8 (ch_alpn m) in u16 (blen s) ++ s) < 65536).
  { intros E. apply (Hfit (16, _)). unfold ch_exts. rewrite !in_app_iff. do 8 right. apply Hin. exact E. }
  clear Hfit Hf.
  unfold ch_exts. rewrite !flat_map_app, !app_length.
  rewrite <- (app_nil_r (flat_map enc_ext (opt_ext (0 <? llen (ch_alpn m)) 16 _))).
  rewrite <- (Nat.add_0_r (length (opt_ext (0 <? llen (ch_alpn m)) 16 _))).
  rewrite <- ?app_assoc, <- ?Nat.add_assoc.
  eapply ch_opt_step; [lia|intros _; unfold blen; simpl; lia|intros _; apply ch_h_npn|].
  eapply ch_opt_step; [lia|exact F2|intros E; apply ch_h_sni; [apply Z.ltb_lt in E; lia|specialize (F2 E); blia]|].
  eapply ch_opt_step; [lia|intros _; unfold blen; simpl; lia|intros _; apply ch_h_ocsp|].
  eapply ch_opt_step; [lia|exact F4|intros E; apply ch_h_curves; [exact Hcu|specialize (F4 E); blia]|].
  eapply ch_opt_step; [lia|exact F5|intros E; apply ch_h_points; lia|].
  eapply ch_opt_step; [lia|exact F6|intros _; apply ch_h_ticket|].
  eapply ch_opt_step; [lia|exact F7|intros E; apply ch_h_sigalgs; [exact Hsa|specialize (F7 E); blia]|].
  eapply ch_opt_step; [lia|intros _; unfold blen; simpl; lia|intros _; apply ch_h_reneg|].
  eapply ch_opt_step; [lia|exact F9|intros E; apply ch_h_alpn; [exact Hal|specialize (F9 E); cbv zeta in F9; blia]|].
  rewrite ch_loop_nil. f_equal.
  clear F2 F4 F5 F6 F7 F9.
  destruct m as [vers random sid suites comp npn sni ocsp curves points tok ticket sigalgs reneg alpn pad ids].
  cbn [ch_vers ch_random ch_sid ch_suites ch_comp ch_npn ch_sni ch_ocsp ch_curves ch_points ch_ticket_ok
       ch_ticket ch_sigalgs ch_reneg ch_alpn ch_padding ch_extids] in *.
  assert (Hticket : tok = false -> ticket = []).
  { intros ->. simpl in Htk. destruct ticket; [reflexivity|]. unfold blen in Htk. simpl in Htk. discriminate. }
  assert (Hreneg : reneg = false -> existsb (Z.eqb scsv_renegotiation) suites = false).
  { intros ->. simpl in Hre. destruct (existsb (Z.eqb scsv_renegotiation) suites); [discriminate|reflexivity]. }
  unfold ch_parsed, ch_m0, ch_exts.
  cbn [ch_vers ch_random ch_sid ch_suites ch_comp ch_npn ch_sni ch_ocsp ch_curves ch_points ch_ticket_ok
       ch_ticket ch_sigalgs ch_reneg ch_alpn ch_padding ch_extids].
  generalize dependent (existsb (Z.eqb scsv_renegotiation) suites). intros e _ Hreneg.
  clear Hv Hr Hs Hsu Hsl Hc Hsn Hcu Hpo Hti Hsa Hal Htk.
  assert (Hnil : forall l : bytes, (0 <? blen l) = false -> l = []).
  { intros [|x l] E; [reflexivity|]. rewrite blen_pos_cons in E. discriminate. }
  assert (Hnil' : forall l : list bytes, (0 <? llen l) = false -> l = []).
  { intros [|x l] E; [reflexivity|]. rewrite llen_pos_cons in E. discriminate. }
  destruct tok; [|rewrite (Hticket eq_refl)]; clear Hticket;
  (destruct reneg; [|rewrite (Hreneg eq_refl)]; clear Hreneg;
   destruct npn; destruct ocsp;
   (destruct (0 <? blen sni) eqn:E1; [|apply Hnil in E1; subst sni]);
   (destruct (0 <? blen curves) eqn:E2; [|apply Hnil in E2; subst curves]);
   (destruct (0 <? blen points) eqn:E3; [|apply Hnil in E3; subst points]);
   (destruct (0 <? blen sigalgs) eqn:E4; [|apply Hnil in E4; subst sigalgs]);
   (destruct (0 <? llen alpn) eqn:E5; [|apply Hnil' in E5; subst alpn]);
   reflexivity).
Qed.

Definition ch_tail (d : bytes) (m0 : client_hello) : res client_hello :=
  match d with
  | [] => Ok m0
  | _ => do (el, d') <- rd16 d; if negb (el =? blen d') then Bad else ch_ext_loop (length d') d' m0
  end.

Lemma ch_tail_ok m : wf_ch m = true -> ch_tail (enc_exts (ch_exts m)) (ch_m0 m) = Ok (ch_parsed m).
Proof.
  intros Hwf. pose proof (ch_exts_parse m Hwf) as Hp.
  assert (Hfit : blen (flat_map enc_ext (ch_exts m)) < 65536).
  { unfold wf_ch in Hwf. rewrite !andb_true_iff in Hwf. destruct Hwf as [_ Hf].
    unfold exts_fit in Hf. apply andb_true_iff in Hf. destruct Hf as [_ Hf]. apply Z.ltb_lt. exact Hf. }
  unfold enc_exts. destruct (ch_exts m) as [|e l] eqn:E.
  - simpl in Hp. simpl. exact Hp.
  - set (b := flat_map enc_ext (e :: l)) in *. cbv zeta.
    unfold ch_tail.
    destruct (u16 (blen b) ++ b) as [|x t] eqn:Ed; [exfalso; eapply u16_app_nonnil; exact Ed|].
    rewrite <- Ed. pose proof (blen_nonneg b).
    rewrite rd16_u16 by lia. cbv beta iota. rewrite Z.eqb_refl. cbn [negb]. cbv iota.
    eapply ch_loop_mono; [exact Hp|]. unfold b. rewrite <- E. apply exts_fuel.
Qed.

(* clientHelloMsg: unmarshal (marshal m) returns m (with padding = false and the list of extension
   ids that marshal emitted) for every m within field widths *)
Lemma roundtrip_ch m : wf_ch m = true -> unmarshal_ch (marshal_ch m) = Ok (ch_parsed m).
Proof.
  intros Hwf. pose proof (ch_tail_ok m Hwf) as Ht.
  unfold wf_ch in Hwf. rewrite !andb_true_iff in Hwf.
  destruct Hwf as [[[[[[[[[[[[[[Hv Hr] Hs] Hsu] Hsl] Hc] Hsn] Hcu] Hpo] Hti] Htk] Hsa] Hal] Hre] Hf].
  apply wf_u16_range in Hv. apply wf_str_spec in Hr, Hs, Hc.
  destruct Hr as [_ Hr]. destruct Hs as [_ Hs]. destruct Hc as [_ Hc]. apply Z.ltb_lt in Hsl.
  destruct m as [vers random sid suites comp npn sni ocsp curves points tok ticket sigalgs reneg alpn pad ids].
  cbn [ch_vers ch_random ch_sid ch_suites ch_comp] in *.
  unfold unmarshal_ch, marshal_ch. cbn [ch_vers ch_random ch_sid ch_suites ch_comp].
  rewrite pad32_id by lia.
  set (tail := enc_exts _) in *. pose proof (blen_nonneg tail). pose proof (blen_nonneg suites).
  pose proof (blen_nonneg comp).
  rewrite blen_frame, hs_frame_eq. rewrite ltb_ge_false by blia.
  rewrite takeZ4_frame. cbv beta iota. rewrite rd16_u16 by lia. cbv beta iota.
  rewrite (takeZ_app' 32 random) by lia. cbv beta iota.
  rewrite rd8_u8 by lia. cbv beta iota. rewrite ltb_ge_false by lia.
  rewrite takeZ_app. cbv beta iota. rewrite rd16_u16 by lia. cbv beta iota.
  rewrite odd_double. cbv iota.
  rewrite (takeZ_app' (2 * blen suites) (enc_u16s suites)) by (rewrite blen_enc_u16s; reflexivity).
  cbv beta iota. rewrite rd8_u8 by lia. cbv beta iota.
  rewrite takeZ_app. cbv beta iota zeta.
  rewrite dec_enc_u16s by exact Hsu.
  exact Ht.
Qed.

(* ---------- non-vacuity examples ---------- *)
Definition ch_example : client_hello :=
  {| ch_vers := 771; ch_random := repeat 7 32; ch_sid := [1; 2; 3]; ch_suites := [49199; 255; 22016];
     ch_comp := [0]; ch_npn := true; ch_sni := [97; 46; 98]; ch_ocsp := true; ch_curves := [23; 24];
     ch_points := [0]; ch_ticket_ok := true; ch_ticket := [9; 9]; ch_sigalgs := [1025; 513];
     ch_reneg := true; ch_alpn := [[104; 50]; [104; 116; 116; 112; 47; 49; 46; 49]];
     ch_padding := false; ch_extids := [] |}.
Lemma ch_example_ok :
  wf_ch ch_example = true /\ length (ch_exts ch_example) = 9%nat /\
  unmarshal_ch (marshal_ch ch_example) = Ok (ch_parsed ch_example).
Proof. split; [vm_compute; reflexivity|]. split; [reflexivity|]. apply roundtrip_ch. vm_compute. reflexivity. Qed.
Definition sh_example : server_hello :=
  {| sh_vers := 771; sh_random := repeat 5 32; sh_sid := [4]; sh_suite := 49199; sh_comp := 0;
     sh_npn := true; sh_protos := [[104; 50]]; sh_ocsp := true; sh_ticket := true; sh_reneg := true;
     sh_alpn := [104; 50] |}.
Lemma sh_example_ok : wf_sh sh_example = true /\ length (sh_exts sh_example) = 5%nat.
Proof. split; [vm_compute; reflexivity|reflexivity]. Qed.

(* ---------- totality: no parser ever runs out of loop fuel ---------- *)
Lemma rd8_len d x r : rd8 d = Ok (x, r) -> S (length r) = length d.
Proof. destruct d; simpl; intros H; inversion H; reflexivity. Qed.
Lemma rd16_len d x r : rd16 d = Ok (x, r) -> S (S (length r)) = length d.
Proof. destruct d as [|a [|b d]]; simpl; intros H; inversion H; reflexivity. Qed.
Lemma rd24_len d x r : rd24 d = Ok (x, r) -> S (S (S (length r))) = length d.
Proof. destruct d as [|a [|b [|c d]]]; simpl; intros H; inversion H; reflexivity. Qed.
Lemma takeZ_len n d a r : takeZ n d = Ok (a, r) -> (length r <= length d)%nat.
Proof.
  unfold takeZ. destruct ((0 <=? n) && (n <=? blen d)); intros H; inversion H.
  rewrite skipn_length. lia.
Qed.
Lemma rd8_nf d : rd8 d <> Fuel. Proof. destruct d; discriminate. Qed.
Lemma rd16_nf d : rd16 d <> Fuel. Proof. destruct d as [|a [|b d]]; discriminate. Qed.
Lemma rd24_nf d : rd24 d <> Fuel. Proof. destruct d as [|a [|b [|c d]]]; discriminate. Qed.
Lemma rd32_nf d : rd32 d <> Fuel. Proof. destruct d as [|a [|b [|c [|e d]]]]; discriminate. Qed.
Lemma takeZ_nf n d : takeZ n d <> Fuel.
Proof. unfold takeZ. destruct ((0 <=? n) && (n <=? blen d)); discriminate. Qed.

(* destructs the head `do`/`if` of a goal `... <> Fuel`, closing the impossible Fuel cases of primitives *)
Ltac nf_step :=
  match goal with
  | |- (match rd8 ?d with _ => _ end) <> Fuel =>
    let E := fresh "E" in destruct (rd8 d) as [[? ?]| |] eqn:E; [|discriminate|exfalso; exact (rd8_nf _ E)]
  | |- (match rd16 ?d with _ => _ end) <> Fuel =>
    let E := fresh "E" in destruct (rd16 d) as [[? ?]| |] eqn:E; [|discriminate|exfalso; exact (rd16_nf _ E)]
  | |- (match rd24 ?d with _ => _ end) <> Fuel =>
    let E := fresh "E" in destruct (rd24 d) as [[? ?]| |] eqn:E; [|discriminate|exfalso; exact (rd24_nf _ E)]
  | |- (match rd32 ?d with _ => _ end) <> Fuel =>
    let E := fresh "E" in destruct (rd32 d) as [[? ?]| |] eqn:E; [|discriminate|exfalso; exact (rd32_nf _ E)]
  | |- (match takeZ ?n ?d with _ => _ end) <> Fuel =>
    let E := fresh "E" in destruct (takeZ n d) as [[? ?]| |] eqn:E; [|discriminate|exfalso; exact (takeZ_nf _ _ E)]
  | |- (if ?c then _ else _) <> Fuel => destruct c
  | |- Ok _ <> Fuel => discriminate
  | |- Bad <> Fuel => discriminate
  end.

Lemma str8_loop_nf : forall f d acc, (length d <= f)%nat -> str8_loop f d acc <> Fuel.
Proof.
  induction f as [|f IH]; intros d acc Hl.
  - destruct d; [discriminate|simpl in Hl; lia].
  - destruct d as [|n d1]; [discriminate|]. cbn [str8_loop]. simpl in Hl.
    repeat nf_step. apply IH. apply takeZ_len in E. lia.
Qed.

Lemma sni_loop_nf : forall f n d m, (S (length d) <= f)%nat -> sni_loop f n d m <> Fuel.
Proof.
  induction f as [|f IH]; intros n d m Hl; [lia|].
  cbn [sni_loop]. repeat nf_step. apply IH.
  apply rd8_len in E. apply rd16_len in E0. apply takeZ_len in E1. lia.
Qed.

Ltac nf_loop :=
  match goal with
  | |- (match str8_loop ?f ?d ?a with _ => _ end) <> Fuel =>
    let E := fresh "E" in destruct (str8_loop f d a) eqn:E;
    [|discriminate|exfalso; eapply str8_loop_nf; [|exact E]; lia]
  | |- sni_loop _ _ _ _ <> Fuel => apply sni_loop_nf; lia
  end.

Lemma ch_handle_nf id len p rest m : ch_handle id len p rest m <> Fuel.
Proof. unfold ch_handle. repeat (nf_step || nf_loop). Qed.

Lemma ch_ext_loop_nf : forall f d m, (length d <= f)%nat -> ch_ext_loop f d m <> Fuel.
Proof.
  induction f as [|f IH]; intros d m Hl.
  - destruct d; [discriminate|simpl in Hl; lia].
  - destruct d as [|x d]; [discriminate|]. rewrite ch_loop_step by discriminate.
    repeat nf_step.
    match goal with |- (match ch_handle ?a ?b ?c ?e ?g with _ => _ end) <> Fuel =>
      let Eh := fresh "Eh" in destruct (ch_handle a b c e g) as [m'| |] eqn:Eh;
      [|discriminate|exfalso; exact (ch_handle_nf _ _ _ _ _ Eh)] end.
    apply IH. apply rd16_len in E, E0. apply takeZ_len in E1. lia.
Qed.

Ltac nf_tail :=
  match goal with
  | |- (match ?d with [] => _ | _ :: _ => _ end) <> Fuel =>
    let Ed := fresh "Ed" in destruct d as [|? ?] eqn:Ed; [discriminate|rewrite <- Ed]
  end.

Theorem unmarshal_ch_total data : unmarshal_ch data <> Fuel.
Proof.
  unfold unmarshal_ch. repeat nf_step. cbv zeta. try nf_tail. repeat nf_step.
  apply ch_ext_loop_nf. lia.
Qed.

Lemma sh_handle_nf id len p m : sh_handle id len p m <> Fuel.
Proof. unfold sh_handle. repeat (nf_step || nf_loop). Qed.
Lemma sh_ext_loop_nf : forall f d m, (length d <= f)%nat -> sh_ext_loop f d m <> Fuel.
Proof.
  induction f as [|f IH]; intros d m Hl.
  - destruct d; [discriminate|simpl in Hl; lia].
  - destruct d as [|x d]; [discriminate|]. rewrite sh_loop_step by discriminate.
    repeat nf_step.
    match goal with |- (match sh_handle ?a ?b ?c ?g with _ => _ end) <> Fuel =>
      let Eh := fresh "Eh" in destruct (sh_handle a b c g) as [m'| |] eqn:Eh;
      [|discriminate|exfalso; exact (sh_handle_nf _ _ _ _ Eh)] end.
    apply IH. apply rd16_len in E, E0. apply takeZ_len in E1. lia.
Qed.
Theorem unmarshal_sh_total data : unmarshal_sh data <> Fuel.
Proof.
  unfold unmarshal_sh. repeat nf_step. cbv zeta. try nf_tail. repeat nf_step.
  apply sh_ext_loop_nf. lia.
Qed.

Lemma cert_loop_nf : forall f d, (length d <= f)%nat -> cert_loop f d <> Fuel.
Proof.
  induction f as [|f IH]; intros d Hl.
  - destruct d; [discriminate|simpl in Hl; lia].
  - destruct d as [|x d]; [discriminate|]. rewrite cert_loop_step by discriminate.
    repeat nf_step.
    match goal with |- (match cert_loop ?a ?b with _ => _ end) <> Fuel =>
      let Ec := fresh "Ec" in destruct (cert_loop a b) eqn:Ec; try discriminate;
      exfalso; eapply IH; [|exact Ec]; apply rd24_len in E; apply takeZ_len in E0; lia end.
Qed.
Theorem unmarshal_cert_total data : unmarshal_cert data <> Fuel.
Proof. unfold unmarshal_cert. repeat nf_step. apply cert_loop_nf. lia. Qed.

Lemma ss_cert_loop_nf : forall n d, ss_cert_loop n d <> Fuel.
Proof.
  induction n as [|n IH]; intros d; [discriminate|]. cbn [ss_cert_loop]. repeat nf_step.
  match goal with |- (match ss_cert_loop ?a ?b with _ => _ end) <> Fuel =>
    let Ec := fresh "Ec" in destruct (ss_cert_loop a b) as [[? ?]| |] eqn:Ec; try discriminate;
    exfalso; exact (IH _ Ec) end.
Qed.
Theorem unmarshal_ss_total data : unmarshal_ss data <> Fuel.
Proof.
  unfold unmarshal_ss. repeat nf_step.
  match goal with |- (match ss_cert_loop ?a ?b with _ => _ end) <> Fuel =>
    let Ec := fresh "Ec" in destruct (ss_cert_loop a b) as [[? ?]| |] eqn:Ec;
    [|discriminate|exfalso; exact (ss_cert_loop_nf _ _ Ec)] end.
  repeat nf_step.
Qed.

Lemma cas_loop_nf : forall f d, (length d <= f)%nat -> cas_loop f d <> Fuel.
Proof.
  induction f as [|f IH]; intros d Hl.
  - destruct d; [discriminate|simpl in Hl; lia].
  - destruct d as [|x d]; [discriminate|]. cbn [cas_loop]. repeat nf_step.
    match goal with |- (match cas_loop ?a ?b with _ => _ end) <> Fuel =>
      let Ec := fresh "Ec" in destruct (cas_loop a b) eqn:Ec; try discriminate;
      exfalso; eapply IH; [|exact Ec]; apply rd16_len in E; apply takeZ_len in E0; lia end.
Qed.
Theorem unmarshal_creq_total has data : unmarshal_creq has data <> Fuel.
Proof.
  unfold unmarshal_creq. repeat nf_step.
  match goal with |- (match ?e with _ => _ end) <> Fuel =>
    assert (Hn : e <> Fuel) by (destruct has; repeat nf_step);
    destruct e as [[? ?]| |]; [|discriminate|contradiction] end.
  repeat nf_step.
  match goal with |- (match cas_loop ?a ?b with _ => _ end) <> Fuel =>
    let Ec := fresh "Ec" in destruct (cas_loop a b) eqn:Ec;
    [|discriminate|exfalso; eapply cas_loop_nf; [|exact Ec]; lia] end.
  repeat nf_step.
Qed.
Theorem unmarshal_simple_total data (has : bool) :
  unmarshal_ske data <> Fuel /\ unmarshal_cke data <> Fuel /\ unmarshal_fin data <> Fuel /\
  unmarshal_cs data <> Fuel /\ unmarshal_np data <> Fuel /\ unmarshal_nst data <> Fuel /\
  unmarshal_cv has data <> Fuel.
Proof.
  repeat split.
  - unfold unmarshal_ske. repeat nf_step.
  - unfold unmarshal_cke. repeat nf_step.
  - unfold unmarshal_fin. repeat nf_step.
  - unfold unmarshal_cs. repeat nf_step.
  - unfold unmarshal_np. repeat nf_step.
  - unfold unmarshal_nst. repeat nf_step.
  - unfold unmarshal_cv. destruct has; repeat nf_step.
Qed.

Lemma pres_nocrash {A} (enc : A -> list val) (r : res A) : r <> Fuel -> not_crash (pres enc r) = true.
Proof. destruct r; intros H; [reflexivity|reflexivity|contradiction]. Qed.

(* parsing any byte string as any of the 12 message types yields true/false, never a fuel error *)
Theorem parse_safe mt (flag : bool) d :
  In mt [1; 2; 3; 4; 5; 7; 8; 9; 10; 11; 12; 13] -> not_crash (unmarshal_any mt flag d) = true.
Proof.
  pose proof (unmarshal_simple_total d flag) as [S1 [S2 [S3 [S4 [S5 [S6 S7]]]]]].
  intros H. simpl in H.
  repeat (destruct H as [H|H]; [subst mt; unfold unmarshal_any; cbn [Z.eqb Pos.eqb]; cbv iota|]);
    try contradiction; try (apply pres_nocrash; assumption).
  - pose proof (unmarshal_ch_total d) as T. destruct (unmarshal_ch d); [reflexivity|reflexivity|contradiction].
  - apply pres_nocrash. apply unmarshal_sh_total.
  - apply pres_nocrash. apply unmarshal_cert_total.
  - apply pres_nocrash. apply unmarshal_creq_total.
  - apply pres_nocrash. apply unmarshal_ss_total.
Qed.

Theorem prop_parse_of_model mt flag d :
  In mt [1; 2; 3; 4; 5; 7; 8; 9; 10; 11; 12; 13] ->
  prop_C45 (VL [VZ 2; VZ mt; VZ flag; VB d]) (run_C45 (VL [VZ 2; VZ mt; VZ flag; VB d])) = true.
Proof. intros H. unfold prop_C45, run_C45. apply parse_safe. exact H. Qed.

(* ---------- nextProto and certificateRequest round trips ---------- *)
Lemma blen_repeat (x : Z) n : blen (repeat x n) = Z.of_nat n.
Proof. unfold blen. rewrite repeat_length. reflexivity. Qed.

Lemma roundtrip_np proto : blen proto < 256 -> unmarshal_np (marshal_np proto) = Ok proto.
Proof.
  intros H. unfold unmarshal_np, marshal_np. cbv zeta. pose proof (blen_nonneg proto).
  set (pad := 32 - (blen proto + 2) mod 32).
  assert (Hp : 0 < pad <= 32) by (unfold pad; pose proof (Z.mod_pos_bound (blen proto + 2) 32); lia).
  rewrite blen_frame, hs_frame_eq.
  rewrite ltb_ge_false by (pose proof (blen_nonneg (repeat 0 (Z.to_nat pad))); clearbody pad; blia).
  rewrite takeZ4_frame. cbv beta iota. rewrite rd8_u8 by lia. cbv beta iota.
  rewrite takeZ_app. cbv beta iota. rewrite rd8_u8 by lia. cbv beta iota.
  rewrite blen_repeat, Z2Nat.id by lia. rewrite Z.eqb_refl. reflexivity.
Qed.

Lemma cas_loop_step f d :
  d <> [] ->
  cas_loop (S f) d = (do (cl, d1) <- rd16 d; do (c, d2) <- takeZ cl d1; do r <- cas_loop f d2; Ok (c :: r)).
Proof. destruct d; [contradiction|reflexivity]. Qed.
Lemma cas_loop_enc : forall cas fuel,
  forallb (wf_str 0 65536) cas = true -> (length cas <= fuel)%nat ->
  cas_loop fuel (flat_map enc_vec16 cas) = Ok cas.
Proof.
  induction cas as [|c r IH]; intros fuel Hwf Hf.
  - destruct fuel; reflexivity.
  - simpl in Hwf. apply andb_true_iff in Hwf. destruct Hwf as [Hc Hr]. apply wf_str_spec in Hc.
    destruct Hc as [_ Hc]. destruct fuel as [|f]; [simpl in Hf; lia|].
    rewrite flat_map_cons. unfold enc_vec16 at 1. rewrite <- !app_assoc.
    rewrite cas_loop_step by apply u16_app_nonnil.
    rewrite rd16_u16 by lia. cbv beta iota. rewrite takeZ_app. cbv beta iota.
    rewrite IH by (auto; simpl in Hf; lia). reflexivity.
Qed.

Lemma roundtrip_creq (has : bool) types sigalgs cas :
  1 <= blen types < 256 -> forallb wf_u16 sigalgs = true -> blen sigalgs < 32768 ->
  (has = false -> sigalgs = []) ->
  forallb (wf_str 0 65536) cas = true -> blen (flat_map enc_vec16 cas) < 65536 ->
  unmarshal_creq has (marshal_creq has types sigalgs cas) = Ok (types, sigalgs, cas).
Proof.
  intros Ht Hsa Hsl Hhas Hcas Hcl. unfold unmarshal_creq, marshal_creq. cbv zeta.
  set (casb := flat_map enc_vec16 cas) in *. pose proof (blen_nonneg casb). pose proof (blen_nonneg sigalgs).
  rewrite blen_frame, hs_frame_eq.
  destruct has.
  - rewrite ltb_ge_false by blia. rewrite rd8_cons. cbv beta iota.
    rewrite rd24_u24 by blia. cbv beta iota. eqb_true.
    rewrite rd8_u8 by lia. cbv beta iota.
    assert (E1 : (blen types =? 0) = false) by (apply Z.eqb_neq; lia).
    rewrite E1. cbn [orb].
    match goal with |- context [?a <=? ?b] =>
      let H := fresh in assert (H : (a <=? b) = false) by (apply Z.leb_gt; blia); rewrite H; clear H end.
    cbv iota. rewrite takeZ_app. cbv beta iota.
    rewrite <- ?app_assoc. rewrite rd16_u16 by lia. cbv beta iota. rewrite odd_double. cbv iota.
    rewrite (takeZ_app' (2 * blen sigalgs) (enc_u16s sigalgs)) by (rewrite blen_enc_u16s; reflexivity).
    cbv beta iota. rewrite rd16_u16 by lia. cbv beta iota. rewrite takeZ_all. cbv beta iota.
    subst casb. rewrite cas_loop_enc by (auto; apply flat_map_length_ge; intros x; unfold enc_vec16, u16; simpl; lia).
    cbv beta iota. rewrite dec_enc_u16s by exact Hsa. reflexivity.
  - rewrite (Hhas eq_refl) in *. rewrite app_nil_l.
    rewrite ltb_ge_false by blia. rewrite rd8_cons. cbv beta iota.
    rewrite rd24_u24 by blia. cbv beta iota. eqb_true.
    rewrite rd8_u8 by lia. cbv beta iota.
    assert (E1 : (blen types =? 0) = false) by (apply Z.eqb_neq; lia).
    rewrite E1. cbn [orb].
    match goal with |- context [?a <=? ?b] =>
      let H := fresh in assert (H : (a <=? b) = false) by (apply Z.leb_gt; blia); rewrite H; clear H end.
    cbv iota. rewrite takeZ_app. cbv beta iota.
    rewrite rd16_u16 by lia. cbv beta iota. rewrite takeZ_all. cbv beta iota.
    subst casb. rewrite cas_loop_enc by (auto; apply flat_map_length_ge; intros x; unfold enc_vec16, u16; simpl; lia).
    reflexivity.
Qed.
