(* C45: proofs about the handshake codec model TlsMsgs.v *)
From Coq Require Import List ZArith Bool Lia.
From Bfe Require Import lib.Val lib.ValProofs lib.Bytes model.TlsMsgs run.RunC45.
Import ListNotations.
Open Scope Z_scope.

(* ---------- lengths ---------- *)
Lemma blen_app (a b : bytes) : blen (a ++ b) = blen a + blen b.
Proof. unfold blen. rewrite app_length. lia. Qed.
Lemma blen_nonneg (a : bytes) : 0 <= blen a.
Proof. unfold blen. lia. Qed.
Lemma blen_cons x (a : bytes) : blen (x :: a) = 1 + blen a.
Proof. unfold blen. simpl length. lia. Qed.
Lemma blen_nil : blen [] = 0.
Proof. reflexivity. Qed.
Lemma llen_nonneg {A} (l : list A) : 0 <= llen l.
Proof. unfold llen. lia. Qed.
Lemma llen_cons {A} (x : A) l : llen (x :: l) = 1 + llen l.
Proof. unfold llen. simpl length. lia. Qed.

Lemma wf_u16_range n : wf_u16 n = true <-> 0 <= n < 65536.
Proof. unfold wf_u16. rewrite andb_true_iff, Z.leb_le, Z.ltb_lt. tauto. Qed.
Lemma wf_str_spec lo hi s : wf_str lo hi s = true <-> wf_bytes s = true /\ lo <= blen s < hi.
Proof. unfold wf_str. rewrite !andb_true_iff, Z.leb_le, Z.ltb_lt. tauto. Qed.

(* ---------- integer fields ---------- *)
Lemma rd8_u8 n r : 0 <= n < 256 -> rd8 (u8 n ++ r) = Ok (n, r).
Proof. intros H. unfold u8. simpl. rewrite Z.mod_small by lia. reflexivity. Qed.
Lemma rd16_u16 n r : 0 <= n < 65536 -> rd16 (u16 n ++ r) = Ok (n, r).
Proof.
  intros H. unfold u16. simpl. f_equal. f_equal.
  rewrite (Z.mod_small (n / 256)) by (split; [apply Z.div_pos; lia|apply Z.div_lt_upper_bound; lia]).
  pose proof (Z.div_mod n 256). lia.
Qed.
Lemma rd24_u24 n r : 0 <= n < 16777216 -> rd24 (u24 n ++ r) = Ok (n, r).
Proof.
  intros H. unfold u24. simpl. f_equal. f_equal.
  rewrite (Z.mod_small (n / 65536)) by (split; [apply Z.div_pos; lia|apply Z.div_lt_upper_bound; lia]).
  pose proof (Z.div_mod n 65536 ltac:(lia)). pose proof (Z.div_mod n 256 ltac:(lia)).
  pose proof (Z.div_mod (n / 256) 256 ltac:(lia)).
  assert (n / 256 / 256 = n / 65536) by (rewrite Z.div_div by lia; reflexivity).
  lia.
Qed.
Lemma rd32_u32 n r : 0 <= n < 4294967296 -> rd32 (u32 n ++ r) = Ok (n, r).
Proof.
  intros H. unfold u32. simpl. f_equal. f_equal.
  rewrite (Z.mod_small (n / 16777216)) by (split; [apply Z.div_pos; lia|apply Z.div_lt_upper_bound; lia]).
  pose proof (Z.div_mod n 256 ltac:(lia)).
  pose proof (Z.div_mod (n / 256) 256 ltac:(lia)).
  pose proof (Z.div_mod (n / 65536) 256 ltac:(lia)).
  assert (n / 256 / 256 = n / 65536) by (rewrite Z.div_div by lia; reflexivity).
  assert (n / 65536 / 256 = n / 16777216) by (rewrite Z.div_div by lia; reflexivity).
  lia.
Qed.
Lemma blen_u8 n : blen (u8 n) = 1. Proof. reflexivity. Qed.
Lemma blen_u16 n : blen (u16 n) = 2. Proof. reflexivity. Qed.
Lemma blen_u24 n : blen (u24 n) = 3. Proof. reflexivity. Qed.
Lemma blen_u32 n : blen (u32 n) = 4. Proof. reflexivity. Qed.

(* ---------- slicing ---------- *)
Lemma takeZ_app (a r : bytes) : takeZ (blen a) (a ++ r) = Ok (a, r).
Proof.
  unfold takeZ. rewrite blen_app.
  assert (H1 : (0 <=? blen a) = true) by (apply Z.leb_le; apply blen_nonneg).
  assert (H2 : (blen a <=? blen a + blen r) = true) by (apply Z.leb_le; pose proof (blen_nonneg r); lia).
  rewrite H1, H2. simpl. unfold blen. rewrite Nat2Z.id.
  rewrite firstn_app, Nat.sub_diag, firstn_all. simpl. rewrite app_nil_r.
  rewrite skipn_app, Nat.sub_diag, skipn_all. reflexivity.
Qed.
Lemma takeZ_app' n (a r : bytes) : n = blen a -> takeZ n (a ++ r) = Ok (a, r).
Proof. intros ->. apply takeZ_app. Qed.
Lemma takeZ_all (a : bytes) : takeZ (blen a) a = Ok (a, []).
Proof. pose proof (takeZ_app a []) as H. rewrite app_nil_r in H. exact H. Qed.

(* ---------- u16 vectors ---------- *)
Lemma blen_enc_u16s l : blen (enc_u16s l) = 2 * blen l.
Proof.
  induction l as [|x l IH]; [reflexivity|].
  unfold enc_u16s in *. change (flat_map u16 (x :: l)) with (u16 x ++ flat_map u16 l).
  rewrite blen_app, IH, blen_u16, blen_cons. lia.
Qed.
Lemma dec_enc_u16s l : forallb wf_u16 l = true -> dec_u16s (enc_u16s l) = l.
Proof.
  induction l as [|x l IH]; [reflexivity|]. simpl forallb. rewrite andb_true_iff. intros [Hx Hl].
  apply wf_u16_range in Hx. unfold enc_u16s in *. simpl.
  rewrite IH by exact Hl. f_equal.
  rewrite (Z.mod_small (x / 256)) by (split; [apply Z.div_pos; lia|apply Z.div_lt_upper_bound; lia]).
  pose proof (Z.div_mod x 256). lia.
Qed.
Lemma odd_double n : Z.odd (2 * n) = false.
Proof. rewrite Z.odd_mul. reflexivity. Qed.

#[global] Hint Rewrite blen_app blen_u8 blen_u16 blen_u24 blen_u32 blen_cons blen_nil blen_enc_u16s : blen.
Ltac blia := autorewrite with blen in *; lia.
Lemma ltb_ge_false a b : b <= a -> (a <? b) = false.
Proof. intros. apply Z.ltb_ge. lia. Qed.
Lemma rd8_cons x r : rd8 (x :: r) = Ok (x, r).
Proof. reflexivity. Qed.
Lemma hs_frame_eq ty body : hs_frame ty body = ty :: (u24 (blen body) ++ body).
Proof. reflexivity. Qed.
Lemma takeZ4_frame ty n body : takeZ 4 (ty :: (u24 n ++ body)) = Ok (ty :: u24 n, body).
Proof. apply (takeZ_app' 4 (ty :: u24 n) body). reflexivity. Qed.
Lemma blen_frame ty body : blen (hs_frame ty body) = 4 + blen body.
Proof. rewrite hs_frame_eq. blia. Qed.

Ltac eqb_true :=
  match goal with
  | |- context [Z.eqb ?a ?b] =>
    let H := fresh in assert (H : Z.eqb a b = true) by (apply Z.eqb_eq; blia); rewrite H; clear H; cbn [negb]; cbv iota
  end.

(* ---------- simple messages ---------- *)
Lemma roundtrip_fin v : unmarshal_fin (marshal_fin v) = Ok v.
Proof.
  unfold unmarshal_fin, marshal_fin.
  rewrite ltb_ge_false by (pose proof (blen_nonneg v); blia).
  rewrite (takeZ_app' 4 [20; 0; 0; blen v mod 256] v) by reflexivity. reflexivity.
Qed.

Lemma roundtrip_ske k : unmarshal_ske (marshal_ske k) = Ok k.
Proof.
  unfold unmarshal_ske, marshal_ske. rewrite blen_frame, hs_frame_eq.
  rewrite ltb_ge_false by (pose proof (blen_nonneg k); lia).
  rewrite takeZ4_frame. reflexivity.
Qed.

Lemma roundtrip_cke k : blen k < 16777216 -> unmarshal_cke (marshal_cke k) = Ok k.
Proof.
  intros H. unfold unmarshal_cke, marshal_cke. rewrite blen_frame, hs_frame_eq.
  pose proof (blen_nonneg k).
  rewrite ltb_ge_false by lia. rewrite rd8_cons. cbv beta iota.
  rewrite rd24_u24 by lia. cbv beta iota.
  replace (blen k =? 4 + blen k - 4) with true by (symmetry; apply Z.eqb_eq; lia). reflexivity.
Qed.

Lemma roundtrip_nst t : blen t < 65536 -> unmarshal_nst (marshal_nst t) = Ok t.
Proof.
  intros H. unfold unmarshal_nst, marshal_nst. rewrite blen_frame, hs_frame_eq.
  pose proof (blen_nonneg t).
  rewrite ltb_ge_false by blia. rewrite rd8_cons. cbv beta iota.
  rewrite rd24_u24 by blia. cbv beta iota.
  eqb_true.
  rewrite (takeZ_app' 4 [0; 0; 0; 0]) by reflexivity. cbv beta iota.
  rewrite rd16_u16 by lia. cbv beta iota.
  eqb_true.
  reflexivity.
Qed.

Lemma roundtrip_cs ty resp :
  0 <= ty < 256 -> blen resp < 16777212 -> (ty = 1 \/ resp = []) ->
  unmarshal_cs (marshal_cs ty resp) = Ok (ty, resp).
Proof.
  intros Ht Hr Hc. unfold unmarshal_cs, marshal_cs. pose proof (blen_nonneg resp).
  destruct (ty =? 1) eqn:E.
  - apply Z.eqb_eq in E. subst ty. rewrite blen_frame, hs_frame_eq.
    rewrite ltb_ge_false by blia. rewrite takeZ4_frame. cbv beta iota.
    change ([1] ++ u24 (blen resp) ++ resp) with (1 :: (u24 (blen resp) ++ resp)).
    rewrite rd8_cons. cbv beta iota. simpl (1 =? 1). cbv iota.
    rewrite ltb_ge_false by blia. rewrite rd24_u24 by lia. cbv beta iota.
    eqb_true.
    reflexivity.
  - destruct Hc as [->|->]; [discriminate|].
    rewrite Z.mod_small by lia. simpl. rewrite E. reflexivity.
Qed.

Lemma roundtrip_cv (has : bool) sah sg :
  (if has then 0 <= sah < 65536 else sah = 0) -> blen sg < 65536 ->
  unmarshal_cv has (marshal_cv has sah sg) = Ok (sah, sg).
Proof.
  intros Hs Hl. unfold unmarshal_cv, marshal_cv. rewrite blen_frame, hs_frame_eq.
  pose proof (blen_nonneg sg).
  rewrite ltb_ge_false by (destruct has; blia). rewrite rd8_cons. cbv beta iota.
  rewrite rd24_u24 by (destruct has; blia). cbv beta iota.
  eqb_true.
  destruct has.
  - rewrite rd16_u16 by lia. cbv beta iota. rewrite rd16_u16 by lia. cbv beta iota.
    rewrite Z.eqb_refl. reflexivity.
  - subst sah. simpl app. rewrite rd16_u16 by lia. cbv beta iota. rewrite Z.eqb_refl. reflexivity.
Qed.
