(* C39: proofs about model/SpdyFrame.v *)
From Coq Require Import List ZArith Bool Lia.
From Bfe Require Import lib.Val lib.ValProofs lib.Bytes model.SpdyFrame run.RunC39.
Import ListNotations.
Open Scope Z_scope.

(* ---- big-endian words ---- *)
Lemma dec32_be32 n : 0 <= n < 2^32 -> dec32 (be32 n) = n.
Proof.
  intros H. unfold dec32, be32, of_be32.
  change (2^24) with 16777216. change (2^16) with 65536. change (2^8) with 256. change (2^32) with 4294967296 in H.
  pose proof (Z.div_mod n 16777216 ltac:(lia)).
  pose proof (Z.div_mod n 65536 ltac:(lia)).
  pose proof (Z.div_mod n 256 ltac:(lia)).
  pose proof (Z.div_mod (n / 65536) 256 ltac:(lia)).
  pose proof (Z.div_mod (n / 256) 256 ltac:(lia)).
  assert (n / 16777216 = n / 65536 / 256) by (rewrite Z.div_div by lia; reflexivity).
  assert (n / 65536 = n / 256 / 256) by (rewrite Z.div_div by lia; reflexivity).
  assert (0 <= n / 16777216 < 256) by (split; [apply Z.div_pos; lia | apply Z.div_lt_upper_bound; lia]).
  rewrite (Z.mod_small (n / 16777216) 256) by lia.
  lia.
Qed.

(* ---- plain reader ---- *)
Lemma rd_plain_app b rest : rd_plain (blen b) (b ++ rest) = ROk b rest.
Proof.
  unfold rd_plain, blen. destruct b as [|x b].
  - reflexivity.
  - destruct (Z.of_nat (length (x :: b)) <=? 0) eqn:E; [apply Z.leb_le in E; simpl length in E; lia|].
    change ((x :: b) ++ rest) with (x :: (b ++ rest)).
    cbv iota beta.
    assert (Hle : (Z.of_nat (length (x :: b)) <=? Z.of_nat (length (x :: b ++ rest))) = true).
    { apply Z.leb_le. simpl length. rewrite app_length. lia. }
    rewrite Hle. rewrite Nat2Z.id.
    change (x :: b ++ rest) with ((x :: b) ++ rest).
    rewrite firstn_app, Nat.sub_diag, firstn_all. simpl firstn. rewrite app_nil_r.
    rewrite skipn_app, Nat.sub_diag, skipn_all. reflexivity.
Qed.
Lemma rd_plain_be32 n rest : rd_plain 4 (be32 n ++ rest) = ROk (be32 n) rest.
Proof. exact (rd_plain_app (be32 n) rest). Qed.

(* ---- the loop of parseHeaderValueBlock run on what writeHeaderValueBlock produced ---- *)
(* an entry the codec is specified for: ToLower is stable on the lower-cased name (true for every string
   Go's ToLower returns on the tabulated runes and all ASCII/invalid bytes), and the lengths fit the 32-bit fields *)
Definition ent_ok (e : went) : bool :=
  let '(name, low, vals) := e in
  (blen low <? 2^32) && (blen (join_byte 0 vals) <? 2^32) &&
  match go_lower low with Some l => bytes_eqb l low | None => false end.
(* what the reader computes for one entry, without any byte-level work *)
Definition spec_step (acc : hmap * Z * Z * Z) (e : went) : hmap * Z * Z * Z :=
  let '(h, er, hl, mx) := acc in
  let '(name, low, vals) := e in
  let v := join_byte 0 vals in
  (fold_left (fun h x => hadd low x h) (split_byte 0 v) h,
   match hget low h with Some _ => 11 | None => er end,
   u32 (hl + blen low + blen v),
   zmax (zmax (zmax mx 4) (blen low)) (blen v)).

Lemma blen_range (l : bytes) : 0 <= blen l.
Proof. unfold blen. lia. Qed.

Lemma parse_entries_written es : forall rest h e hl mx,
  forallb ent_ok es = true ->
  parse_entries rd_plain (length es) (concat (map write_entry es) ++ rest) h e hl mx =
  let '(h', e', hl', mx') := fold_left spec_step es (h, e, hl, mx) in PDone h' hl' e' rest mx'.
Proof.
  induction es as [|[[name low] vals] es IH]; intros rest h e hl mx Hok.
  - reflexivity.
  - simpl in Hok. apply andb_true_iff in Hok. destruct Hok as [Hent Hok].
    apply andb_true_iff in Hent. destruct Hent as [Hent Hlow].
    apply andb_true_iff in Hent. destruct Hent as [Hn Hv].
    apply Z.ltb_lt in Hn. apply Z.ltb_lt in Hv.
    destruct (go_lower low) as [l|] eqn:Hgl; [|discriminate].
    apply bytes_eqb_eq in Hlow. subst l.
    pose proof (blen_range low) as Hn0. pose proof (blen_range (join_byte 0 vals)) as Hv0.
    cbn [length map concat fold_left].
    unfold write_entry at 1. cbv zeta.
    rewrite <- !app_assoc.
    cbn [parse_entries].
    rewrite rd_plain_be32.
    assert (Hu1 : u32 (blen low) = blen low) by (unfold u32; apply Z.mod_small; lia).
    assert (Hu2 : u32 (blen (join_byte 0 vals)) = blen (join_byte 0 vals)) by (unfold u32; apply Z.mod_small; lia).
    rewrite Hu1, Hu2.
    rewrite (dec32_be32 (blen low)) by lia.
    rewrite rd_plain_app. rewrite Hgl.
    rewrite rd_plain_be32. rewrite (dec32_be32 (blen (join_byte 0 vals))) by lia.
    rewrite rd_plain_app.
    assert (Hrefl : bytes_eqb low low = true) by (apply bytes_eqb_eq; reflexivity).
    rewrite Hrefl.
    rewrite IH by exact Hok.
    unfold spec_step at 2. reflexivity.
Qed.

(* parseHeaderValueBlock (writeHeaderValueBlock es) for at most 1024 consistent entries *)
Lemma parse_block_written es rest :
  forallb ent_ok es = true -> (length es <= 1024)%nat ->
  parse_block rd_plain (write_block es ++ rest) =
  let '(h', e', hl', mx') := fold_left spec_step es ([], 0, 0, 4) in
  if e' =? 0 then PDone h' (u32 (hl' + Z.of_nat (length es) * 4)) 0 rest mx' else PDone h' 0 e' rest mx'.
Proof.
  intros Hok Hn. unfold parse_block, write_block. rewrite <- app_assoc. rewrite rd_plain_be32.
  assert (Hu : u32 (Z.of_nat (length es)) = Z.of_nat (length es)) by (unfold u32; apply Z.mod_small; lia).
  rewrite Hu. rewrite dec32_be32 by lia.
  destruct (1024 <? Z.of_nat (length es)) eqn:E; [apply Z.ltb_lt in E; lia|].
  rewrite Nat2Z.id. rewrite parse_entries_written by exact Hok.
  match goal with |- context [fold_left spec_step es ?a] => set (F := fold_left spec_step es a) end.
  try match goal with |- context [fold_left spec_step es ?a] => change (fold_left spec_step es a) with F end.
  destruct F as [[[h' e'] hl'] mx']. reflexivity.
Qed.

(* ---- refutations (witnesses computed on the model; the same inputs are in corpus/C39 and were run on the Go code) ---- *)
(* header name "İx" (c4 b0 78; ToLower = "ix"), value "v": unreadable before the fix, round-trips now *)
Definition w_Ix : list went := [([196; 176; 120], [105; 120], [[118]])].
Lemma Ix_roundtrip_lemma :
  go_lower [196; 176; 120] = Some [105; 120] /\ forallb ent_ok w_Ix = true /\
  parse_block rd_plain (write_block w_Ix) = PDone [([73; 120], [[118]])] 7 0 [] 4.
Proof. vm_compute. repeat split; reflexivity. Qed.

(* a 12-byte block: one header whose name length field says 2^26 *)
Definition w_alloc : bytes := [0;0;0;1; 4;0;0;0; 97;98;99;100].
Lemma alloc_refuted_lemma :
  exists c s, parse_block rd_plain w_alloc = PIo c s (2^26) /\ blen w_alloc = 12.
Proof. eexists. eexists. vm_compute. split; reflexivity. Qed.

(* RST_STREAM declaring length 12 (4 bytes more than its fixed body) followed by a PING:
   the RST_STREAM frame is returned after 16 bytes, not 8+12, and the next frame is read from the middle *)
Definition w_bound : bytes :=
  [128;3;0;3; 0;0;0;12; 0;0;0;1; 0;0;0;5; 1;2;3;4;   128;3;0;6; 0;0;0;4; 0;0;0;7].
Lemma boundaries_refuted_lemma :
  hd (VZ 0) (read_stream 8 (init_state w_bound [])) = VL [VL [VZ 3; VZ 3; VZ 0; VZ 12; VZ 1; VZ 5]; VZ 16]
  /\ bounds_ok w_bound 0 (read_stream 8 (init_state w_bound [])) = false.
Proof. vm_compute. split; reflexivity. Qed.
(* SYN_STREAM with length 4: the limit handed to the decompressor is uint32(4 - 10) *)
Lemma underflow_lemma : u32 (4 - 10) = 4294967290.
Proof. reflexivity. Qed.


(* non-vacuity: "Accept-Encoding: gzip, deflate", ":path: /" and the non-ASCII but length-stable name "é" *)
Definition w_ok : list went :=
  [([65;99;99;101;112;116], [97;99;99;101;112;116], [[103;122]; [100]]);
   ([58;112;97;116;104], [58;112;97;116;104], [[47]]);
   ([195;137], [195;169], [[49]])].
Lemma w_ok_lemma :
  forallb ent_ok w_ok = true /\
  parse_block rd_plain (write_block w_ok) =
  PDone [([65;99;99;101;112;116], [[103;122]; [100]]); ([58;112;97;116;104], [[47]]); ([195;169], [[49]])] 31 0 [] 6.
Proof. vm_compute. split; reflexivity. Qed.

(* ---------- Framer level: fixed-size control frames written by the Framer are read back exactly,
   consuming exactly 8 + length bytes, whatever follows on the wire ---------- *)
Definition st_at (w : bytes) (o : Z) (cs : list chunk) : fstate :=
  {| wire := w; off := o; chunks := cs; nexti := 0; pend := []; zerr := false; zinit := false; lim := 0 |}.
Lemma rd_wire4 a b c d w o cs :
  rd_wire 4 (st_at (a :: b :: c :: d :: w) o cs) = ROk [a; b; c; d] (st_at w (o + 4) cs).
Proof.
  unfold rd_wire. cbn [Z.leb Z.compare Pos.compare wire st_at].
  assert (E : (4 <=? blen (a :: b :: c :: d :: w)) = true).
  { apply Z.leb_le. unfold blen. simpl length. lia. }
  rewrite E. reflexivity.
Qed.
Lemma dec32_cons n : 0 <= n < 2^32 ->
  dec32 [(n / 2^24) mod 256; (n / 2^16) mod 256; (n / 2^8) mod 256; n mod 256] = n.
Proof. exact (dec32_be32 n). Qed.
Lemma m31_small z : 0 <= z < 2^31 -> m31 z = z.
Proof. intros H. unfold m31. apply Z.mod_small. exact H. Qed.

Ltac rd4 := rewrite rd_wire4; cbv beta iota.

Lemma rst_roundtrip sid st rest cs :
  0 < sid < 2^31 -> 0 < st < 2^32 ->
  read_frame (st_at (fst (write_frame (FRst sid st)) ++ rest) 0 cs) =
  (VL [VZ 3; VZ 3; VZ 0; VZ 8; VZ sid; VZ st], st_at rest 16 cs).
Proof.
  intros Hs Ht. unfold write_frame.
  assert (E1 : (sid =? 0) = false) by (apply Z.eqb_neq; lia). rewrite E1.
  assert (E2 : (st =? 0) = false) by (apply Z.eqb_neq; lia). rewrite E2.
  cbn [fst]. change (cf_header 3 0 8) with [128; 3; 0; 3; 0; 0; 0; 8].
  unfold be32. cbn [app]. unfold read_frame.
  rd4. change (dec32 [128; 3; 0; 3]) with 2147680259.
  rd4. change (dec32 [0; 0; 0; 8]) with 8.
  cbv zeta. change (2147680259 <? 2 ^ 31) with false. cbv iota.
  change (2147680259 mod 2 ^ 16) with 3. cbn [Z.eqb Pos.eqb orb].
  rd4. rewrite dec32_cons by (change (2^32) with (2 * 2^31); lia).
  rd4. rewrite dec32_cons by lia.
  rewrite E2. rewrite (m31_small sid) by lia. rewrite E1.
  reflexivity.
Qed.
Lemma ping_roundtrip id rest cs :
  0 < id < 2^32 ->
  read_frame (st_at (fst (write_frame (FPing id)) ++ rest) 0 cs) =
  (VL [VZ 6; VZ 3; VZ 0; VZ 4; VZ id], st_at rest 12 cs).
Proof.
  intros Hi. unfold write_frame.
  assert (E1 : (id =? 0) = false) by (apply Z.eqb_neq; lia). rewrite E1.
  cbn [fst]. change (cf_header 6 0 4) with [128; 3; 0; 6; 0; 0; 0; 4].
  unfold be32. cbn [app]. unfold read_frame.
  rd4. change (dec32 [128; 3; 0; 6]) with 2147680262.
  rd4. change (dec32 [0; 0; 0; 4]) with 4.
  cbv zeta. change (2147680262 <? 2 ^ 31) with false. cbv iota.
  change (2147680262 mod 2 ^ 16) with 6. cbn [Z.eqb Pos.eqb orb].
  rd4. rewrite dec32_cons by lia. rewrite E1.
  reflexivity.
Qed.
Lemma window_update_roundtrip sid d rest cs :
  0 <= sid < 2^31 -> 0 <= d < 2^31 ->
  read_frame (st_at (fst (write_frame (FWindow sid d)) ++ rest) 0 cs) =
  (VL [VZ 9; VZ 3; VZ 0; VZ 8; VZ sid; VZ d], st_at rest 16 cs).
Proof.
  intros Hs Hd. unfold write_frame.
  cbn [fst]. change (cf_header 9 0 8) with [128; 3; 0; 9; 0; 0; 0; 8].
  unfold be32. cbn [app]. unfold read_frame.
  rd4. change (dec32 [128; 3; 0; 9]) with 2147680265.
  rd4. change (dec32 [0; 0; 0; 8]) with 8.
  cbv zeta. change (2147680265 <? 2 ^ 31) with false. cbv iota.
  change (2147680265 mod 2 ^ 16) with 9. cbn [Z.eqb Pos.eqb orb].
  rd4. rewrite dec32_cons by (change (2^32) with (2 * 2^31); lia).
  change (2147680265 / 2 ^ 16 mod 2 ^ 15) with 3.
  change (8 / 2 ^ 24) with 0. change (8 mod 2 ^ 24) with 8. cbn [Z.eqb Pos.eqb negb].
  rd4. rewrite dec32_cons by (change (2^32) with (2 * 2^31); lia).
  rewrite !m31_small by lia. reflexivity.
Qed.
Lemma goaway_roundtrip last st rest cs :
  0 <= last < 2^31 -> 0 <= st < 2^32 ->
  read_frame (st_at (fst (write_frame (FGoAway last st)) ++ rest) 0 cs) =
  (VL [VZ 7; VZ 3; VZ 0; VZ 8; VZ last; VZ st], st_at rest 16 cs).
Proof.
  intros Hs Hd. unfold write_frame.
  cbn [fst]. change (cf_header 7 0 8) with [128; 3; 0; 7; 0; 0; 0; 8].
  unfold be32. cbn [app]. unfold read_frame.
  rd4. change (dec32 [128; 3; 0; 7]) with 2147680263.
  rd4. change (dec32 [0; 0; 0; 8]) with 8.
  cbv zeta. change (2147680263 <? 2 ^ 31) with false. cbv iota.
  change (2147680263 mod 2 ^ 16) with 7. cbn [Z.eqb Pos.eqb orb].
  rd4. rewrite dec32_cons by (change (2^32) with (2 * 2^31); lia).
  change (2147680263 / 2 ^ 16 mod 2 ^ 15) with 3.
  change (8 / 2 ^ 24) with 0. change (8 mod 2 ^ 24) with 8. cbn [Z.eqb Pos.eqb negb].
  rd4. rewrite dec32_cons by lia.
  rewrite !m31_small by lia. reflexivity.
Qed.

(* ---------- length fields: flags<<24 | length does not wrap below 2^24 ---------- *)
Lemma lor_flags_len flags len : 0 <= flags -> 0 <= len < 2^24 -> Z.lor (flags * 2^24) len = flags * 2^24 + len.
Proof.
  intros Hf Hl.
  assert (Hland : Z.land (flags * 2^24) len = 0).
  { apply Z.bits_inj'. intros n Hn. rewrite Z.land_spec, Z.bits_0.
    destruct (Z.ltb_spec n 24) as [Hlt|Hge].
    - rewrite Z.mul_pow2_bits_low by lia. reflexivity.
    - replace len with (len mod 2^24) by (apply Z.mod_small; lia).
      rewrite Z.mod_pow2_bits_high by lia. apply andb_false_r. }
  rewrite <- Z.lxor_lor by exact Hland. symmetry. apply Z.add_nocarry_lxor. exact Hland.
Qed.
Lemma lenword_exact flags len :
  0 <= flags < 256 -> 0 <= len < 2^24 ->
  lenword flags len = flags * 2^24 + len /\ lenword flags len / 2^24 = flags /\ lenword flags len mod 2^24 = len.
Proof.
  intros Hf Hl. unfold lenword. rewrite lor_flags_len by lia.
  assert (Hu : u32 (flags * 2^24 + len) = flags * 2^24 + len).
  { unfold u32. apply Z.mod_small. change (2^24) with 16777216 in *. change (2^32) with 4294967296. lia. }
  rewrite Hu. split; [reflexivity|]. change (2^24) with 16777216 in *. split.
  - rewrite Z.add_comm, Z.div_add by lia. rewrite Z.div_small by lia. reflexivity.
  - rewrite Z.add_comm, Z.mod_add by lia. apply Z.mod_small. lia.
Qed.
(* writeDataFrame: an accepted frame has len <= 2^24 - 1 and its header carries exactly (stream id, flags, len) *)
Lemma data_header_exact sid flags len h :
  0 <= flags < 256 -> 0 <= len -> data_header sid flags len = inr h ->
  len <= 2^24 - 1 /\ h = be32 sid ++ be32 (flags * 2^24 + len) /\
  (flags * 2^24 + len) / 2^24 = flags /\ (flags * 2^24 + len) mod 2^24 = len.
Proof.
  intros Hf Hl. unfold data_header.
  destruct (sid =? 0); [discriminate|].
  destruct (2^31 <=? sid); [discriminate|]. cbn [orb].
  destruct (2^24 - 1 <? len) eqn:E; [discriminate|]. apply Z.ltb_ge in E.
  intros H. inversion H; subst. clear H.
  destruct (lenword_exact flags len Hf ltac:(lia)) as (H1 & H2 & H3).
  rewrite H1 in *. repeat split; try assumption.
Qed.
(* ... and a longer payload is refused (InvalidDataFrame), nothing is written *)
Lemma data_header_rejects sid flags len :
  2^24 - 1 < len -> exists c, data_header sid flags len = inl c.
Proof.
  intros H. unfold data_header. destruct (sid =? 0); [eexists; reflexivity|].
  apply Z.ltb_lt in H. rewrite H, orb_true_r. eexists. reflexivity.
Qed.
Lemma write_data_frame_exact sid flags data b :
  0 <= flags < 256 -> write_frame (FData sid flags data) = (b, None) -> b <> [] ->
  blen data <= 2^24 - 1 /\ b = be32 sid ++ be32 (flags * 2^24 + blen data) ++ data.
Proof.
  intros Hf Hw Hb. unfold write_frame in Hw.
  destruct (data_header sid flags (blen data)) as [c|h] eqn:E.
  - inversion Hw; subst. contradiction.
  - inversion Hw; subst. destruct (data_header_exact sid flags (blen data) h Hf (blen_range data) E) as (H1 & H2 & _).
    split; [exact H1|]. rewrite H2, <- app_assoc. reflexivity.
Qed.
(* control frames: no writer checks the 24-bit field; beyond the bound the length runs into the flags *)
Lemma control_length_wraps : lenword 0 (2^24) / 2^24 = 1 /\ lenword 0 (2^24) mod 2^24 = 0
  /\ lenword 0 (u32 (2097152 * 8 + 4)) / 2^24 = 1.
Proof. vm_compute. repeat split; reflexivity. Qed.
