(* C39: proofs about model/SpdyFrame.v *)
From Coq Require Import List ZArith Bool Lia.
From Bfe Require Import lib.Val lib.ValProofs lib.Bytes model.SpdyFrame run.RunC39.
Import ListNotations.
Open Scope Z_scope.

(* ---- big-endian words ---- *)
Lemma dec32_be32 n : 0 <= n < 2^32 -> dec32 (be32 n) = n.
Proof.
  intros H. unfold dec32, be32, of_be32.
  change (2^24) with 16777216. change (2^16) with 65536. change (2^8) with 256. change (2^32) with 4294967296 in H.
  pose proof (Z.div_mod n 16777216 ltac:(lia)).
  pose proof (Z.div_mod n 65536 ltac:(lia)).
  pose proof (Z.div_mod n 256 ltac:(lia)).
  pose proof (Z.div_mod (n / 65536) 256 ltac:(lia)).
  pose proof (Z.div_mod (n / 256) 256 ltac:(lia)).
  assert (n / 16777216 = n / 65536 / 256) by (rewrite Z.div_div by lia; reflexivity).
  assert (n / 65536 = n / 256 / 256) by (rewrite Z.div_div by lia; reflexivity).
  assert (0 <= n / 16777216 < 256) by (split; [apply Z.div_pos; lia | apply Z.div_lt_upper_bound; lia]).
  rewrite (Z.mod_small (n / 16777216) 256) by lia.
  lia.
Qed.

(* ---- plain reader ---- *)
Lemma rd_plain_app b rest : rd_plain (blen b) (b ++ rest) = ROk b rest.
Proof.
  unfold rd_plain, blen. destruct b as [|x b].
  - reflexivity.
  - destruct (Z.of_nat (length (x :: b)) <=? 0) eqn:E; [apply Z.leb_le in E; simpl length in E; lia|].
    change ((x :: b) ++ rest) with (x :: (b ++ rest)).
    cbv iota beta.
    assert (Hle : (Z.of_nat (length (x :: b)) <=? Z.of_nat (length (x :: b ++ rest))) = true).
    { apply Z.leb_le. simpl length. rewrite app_length. lia. }
    rewrite Hle. rewrite Nat2Z.id.
    change (x :: b ++ rest) with ((x :: b) ++ rest).
    rewrite firstn_app, Nat.sub_diag, firstn_all. simpl firstn. rewrite app_nil_r.
    rewrite skipn_app, Nat.sub_diag, skipn_all. reflexivity.
Qed.
Lemma rd_plain_be32 n rest : rd_plain 4 (be32 n ++ rest) = ROk (be32 n) rest.
Proof. exact (rd_plain_app (be32 n) rest). Qed.

(* ---- the loop of parseHeaderValueBlock run on what writeHeaderValueBlock produced ---- *)
(* an entry the codec is specified for: ToLower is stable on the lower-cased name (true for every string
   Go's ToLower returns on the tabulated runes and all ASCII/invalid bytes), and the lengths fit the 32-bit fields *)
Definition ent_ok (e : went) : bool :=
  let '(name, low, vals) := e in
  (blen low <? 2^32) && (blen (join_byte 0 vals) <? 2^32) &&
  match go_lower low with Some l => bytes_eqb l low | None => false end.
(* what the reader computes for one entry, without any byte-level work *)
Definition spec_step (acc : hmap * Z * Z * Z) (e : went) : hmap * Z * Z * Z :=
  let '(h, er, hl, mx) := acc in
  let '(name, low, vals) := e in
  let v := join_byte 0 vals in
  (fold_left (fun h x => hadd low x h) (split_byte 0 v) h,
   match hget low h with Some _ => 11 | None => er end,
   u32 (hl + blen low + blen v),
   zmax (zmax (zmax mx 4) (zmin (blen low) 4096)) (zmin (blen v) 4096)).

Lemma blen_range (l : bytes) : 0 <= blen l.
Proof. unfold blen. lia. Qed.

Lemma parse_entries_written es : forall rest h e hl mx,
  forallb ent_ok es = true ->
  parse_entries rd_plain (length es) (concat (map write_entry es) ++ rest) h e hl mx =
  let '(h', e', hl', mx') := fold_left spec_step es (h, e, hl, mx) in PDone h' hl' e' rest mx'.
Proof.
  induction es as [|[[name low] vals] es IH]; intros rest h e hl mx Hok.
  - reflexivity.
  - simpl in Hok. apply andb_true_iff in Hok. destruct Hok as [Hent Hok].
    apply andb_true_iff in Hent. destruct Hent as [Hent Hlow].
    apply andb_true_iff in Hent. destruct Hent as [Hn Hv].
    apply Z.ltb_lt in Hn. apply Z.ltb_lt in Hv.
    destruct (go_lower low) as [l|] eqn:Hgl; [|discriminate].
    apply bytes_eqb_eq in Hlow. subst l.
    pose proof (blen_range low) as Hn0. pose proof (blen_range (join_byte 0 vals)) as Hv0.
    cbn [length map concat fold_left].
    unfold write_entry at 1. cbv zeta.
    rewrite <- !app_assoc.
    cbn [parse_entries].
    rewrite rd_plain_be32.
    assert (Hu1 : u32 (blen low) = blen low) by (unfold u32; apply Z.mod_small; lia).
    assert (Hu2 : u32 (blen (join_byte 0 vals)) = blen (join_byte 0 vals)) by (unfold u32; apply Z.mod_small; lia).
    rewrite Hu1, Hu2.
    rewrite (dec32_be32 (blen low)) by lia.
    rewrite rd_plain_app. rewrite Hgl.
    rewrite rd_plain_be32. rewrite (dec32_be32 (blen (join_byte 0 vals))) by lia.
    rewrite rd_plain_app.
    assert (Hrefl : bytes_eqb low low = true) by (apply bytes_eqb_eq; reflexivity).
    rewrite Hrefl.
    rewrite IH by exact Hok.
    unfold spec_step at 2. reflexivity.
Qed.

(* parseHeaderValueBlock (writeHeaderValueBlock es) for at most 1024 consistent entries *)
Lemma parse_block_written es rest :
  forallb ent_ok es = true -> (length es <= 1024)%nat ->
  parse_block rd_plain (write_block es ++ rest) =
  let '(h', e', hl', mx') := fold_left spec_step es ([], 0, 0, 4) in
  if e' =? 0 then PDone h' (u32 (hl' + Z.of_nat (length es) * 4)) 0 rest mx' else PDone h' 0 e' rest mx'.
Proof.
  intros Hok Hn. unfold parse_block, write_block. rewrite <- app_assoc. rewrite rd_plain_be32.
  assert (Hu : u32 (Z.of_nat (length es)) = Z.of_nat (length es)) by (unfold u32; apply Z.mod_small; lia).
  rewrite Hu. rewrite dec32_be32 by lia.
  destruct (1024 <? Z.of_nat (length es)) eqn:E; [apply Z.ltb_lt in E; lia|].
  rewrite Nat2Z.id. rewrite parse_entries_written by exact Hok.
  match goal with |- context [fold_left spec_step es ?a] => set (F := fold_left spec_step es a) end.
  try match goal with |- context [fold_left spec_step es ?a] => change (fold_left spec_step es a) with F end.
  destruct F as [[[h' e'] hl'] mx']. reflexivity.
Qed.

(* ---- refutations (witnesses computed on the model; the same inputs are in corpus/C39 and were run on the Go code) ---- *)
(* header name "İx" (c4 b0 78; ToLower = "ix"), value "v": unreadable before the fix, round-trips now *)
Definition w_Ix : list went := [([196; 176; 120], [105; 120], [[118]])].
Lemma Ix_roundtrip_lemma :
  go_lower [196; 176; 120] = Some [105; 120] /\ forallb ent_ok w_Ix = true /\
  parse_block rd_plain (write_block w_Ix) = PDone [([73; 120], [[118]])] 7 0 [] 4.
Proof. vm_compute. repeat split; reflexivity. Qed.

(* a 12-byte block: one header whose name length field says 2^26.  Before the fix the parser asked for a
   2^26-byte buffer; now it asks for one 4096-byte chunk and fails on the missing data. *)
Definition w_alloc : bytes := [0;0;0;1; 4;0;0;0; 97;98;99;100].
Lemma alloc_example_lemma :
  exists c s, parse_block rd_plain w_alloc = PIo c s 4096 /\ blen w_alloc = 12.
Proof. eexists. eexists. vm_compute. split; reflexivity. Qed.

(* allocation bound, for ANY reader (plain bytes or the header decompressor) and ANY input: every buffer the
   block parser asks for has at most 4096 bytes *)
Lemma zmax_le a b c : a <= c -> b <= c -> zmax a b <= c.
Proof. unfold zmax. destruct (a <? b); lia. Qed.
Lemma zmin_4096 a : zmin a 4096 <= 4096.
Proof. unfold zmin. destruct (a <? 4096) eqn:E; [apply Z.ltb_lt in E; lia|lia]. Qed.
Definition mx_of {T} (r : pres T) : Z :=
  match r with PIo _ _ m => m | PDone _ _ _ _ m => m | _ => 0 end.
Section AllocBound.
  Context {T : Type} (rd : Z -> T -> rres T).
  Lemma parse_entries_mx n : forall s h e hl mx, mx <= 4096 -> mx_of (parse_entries rd n s h e hl mx) <= 4096.
  Proof.
    induction n as [|n IH]; intros s h e hl mx Hm; cbn [parse_entries]; [exact Hm|].
    assert (H4 : zmax mx 4 <= 4096) by (apply zmax_le; lia).
    destruct (rd 4 s) as [lb s1|c s1|]; [|exact H4|simpl; lia].
    pose proof (zmin_4096 (dec32 lb)) as Hl.
    assert (H5 : zmax (zmax mx 4) (zmin (dec32 lb) 4096) <= 4096) by (apply zmax_le; assumption).
    destruct (rd (dec32 lb) s1) as [name s2|c s2|]; [|exact H5|simpl; lia].
    destruct (go_lower name) as [low|]; [|simpl; lia].
    destruct (rd 4 s2) as [vb s3|c s3|]; [|exact H5|simpl; lia].
    pose proof (zmin_4096 (dec32 vb)) as Hv.
    assert (H6 : zmax (zmax (zmax mx 4) (zmin (dec32 lb) 4096)) (zmin (dec32 vb) 4096) <= 4096) by (apply zmax_le; assumption).
    destruct (rd (dec32 vb) s3) as [value s4|c s4|]; [|exact H6|simpl; lia].
    apply IH. exact H6.
  Qed.
  Lemma parse_block_mx s : mx_of (parse_block rd s) <= 4096.
  Proof.
    unfold parse_block. destruct (rd 4 s) as [nb s1|c s1|]; [|simpl; lia|simpl; lia].
    destruct (1024 <? dec32 nb); [simpl; lia|].
    pose proof (parse_entries_mx (Z.to_nat (dec32 nb)) s1 [] 0 0 4 ltac:(lia)) as H.
    destruct (parse_entries rd (Z.to_nat (dec32 nb)) s1 [] 0 0 4) as [c s2 m|h hl e s2 m| |]; simpl in *; try lia.
    destruct (e =? 0); simpl; exact H.
  Qed.
End AllocBound.

(* RST_STREAM declaring length 12 (4 bytes more than its fixed body) followed by a PING: before the fix the
   frame was returned after 16 bytes and the next frame was read from the middle; now it is refused. *)
Definition w_bound : bytes :=
  [128;3;0;3; 0;0;0;12; 0;0;0;1; 0;0;0;5; 1;2;3;4;   128;3;0;6; 0;0;0;4; 0;0;0;7].
Lemma bound_example_lemma :
  read_stream 8 (init_state w_bound []) = [VL [v_serr 14 0; VZ 8]].
Proof. vm_compute. reflexivity. Qed.
(* SYN_STREAM with length 4: before the fix the limit handed to the decompressor was uint32(4 - 10) *)
Lemma underflow_lemma : u32 (4 - 10) = 4294967290.
Proof. reflexivity. Qed.
Definition w_short : bytes := [128;3;0;1; 0;0;0;4; 0;0;0;1;  128;3;0;6; 0;0;0;4; 0;0;0;7].
Lemma short_example_lemma : read_stream 8 (init_state w_short []) = [VL [v_serr 14 0; VZ 8]].
Proof. vm_compute. reflexivity. Qed.

(* non-vacuity: "Accept-Encoding: gzip, deflate", ":path: /" and the non-ASCII but length-stable name "é" *)
Definition w_ok : list went :=
  [([65;99;99;101;112;116], [97;99;99;101;112;116], [[103;122]; [100]]);
   ([58;112;97;116;104], [58;112;97;116;104], [[47]]);
   ([195;137], [195;169], [[49]])].
Lemma w_ok_lemma :
  forallb ent_ok w_ok = true /\
  parse_block rd_plain (write_block w_ok) =
  PDone [([65;99;99;101;112;116], [[103;122]; [100]]); ([58;112;97;116;104], [[47]]); ([195;169], [[49]])] 31 0 [] 6.
Proof. vm_compute. split; reflexivity. Qed.

(* ---------- Framer level: fixed-size control frames written by the Framer are read back exactly,
   consuming exactly 8 + length bytes, whatever follows on the wire ---------- *)
Definition st_at (w : bytes) (o : Z) (cs : list chunk) : fstate :=
  {| wire := w; off := o; chunks := cs; nexti := 0; pend := []; zerr := false; zinit := false; lim := 0 |}.
Lemma rd_wire4 a b c d w o cs :
  rd_wire 4 (st_at (a :: b :: c :: d :: w) o cs) = ROk [a; b; c; d] (st_at w (o + 4) cs).
Proof.
  unfold rd_wire. cbn [Z.leb Z.compare Pos.compare wire st_at].
  assert (E : (4 <=? blen (a :: b :: c :: d :: w)) = true).
  { apply Z.leb_le. unfold blen. simpl length. lia. }
  rewrite E. reflexivity.
Qed.
Lemma dec32_cons n : 0 <= n < 2^32 ->
  dec32 [(n / 2^24) mod 256; (n / 2^16) mod 256; (n / 2^8) mod 256; n mod 256] = n.
Proof. exact (dec32_be32 n). Qed.
Lemma m31_small z : 0 <= z < 2^31 -> m31 z = z.
Proof. intros H. unfold m31. apply Z.mod_small. exact H. Qed.

Ltac rd4 := rewrite rd_wire4; cbv beta iota.

Lemma rst_roundtrip sid st rest cs :
  0 < sid < 2^31 -> 0 < st < 2^32 ->
  read_frame (st_at (fst (write_frame (FRst sid st)) ++ rest) 0 cs) =
  (VL [VZ 3; VZ 3; VZ 0; VZ 8; VZ sid; VZ st], st_at rest 16 cs).
Proof.
  intros Hs Ht. unfold write_frame.
  assert (E1 : (sid =? 0) = false) by (apply Z.eqb_neq; lia). rewrite E1.
  assert (E2 : (st =? 0) = false) by (apply Z.eqb_neq; lia). rewrite E2.
  cbn [fst]. change (cf_header 3 0 8) with [128; 3; 0; 3; 0; 0; 0; 8].
  unfold be32. cbn [app]. unfold read_frame.
  rd4. change (dec32 [128; 3; 0; 3]) with 2147680259.
  rd4. change (dec32 [0; 0; 0; 8]) with 8.
  cbv zeta. change (2147680259 <? 2 ^ 31) with false. cbv iota.
  change (2147680259 mod 2 ^ 16) with 3. cbn [Z.eqb Pos.eqb orb].
  rd4. rewrite dec32_cons by (change (2^32) with (2 * 2^31); lia).
  rd4. rewrite dec32_cons by lia.
  rewrite E2. rewrite (m31_small sid) by lia. rewrite E1.
  reflexivity.
Qed.
Lemma ping_roundtrip id rest cs :
  0 < id < 2^32 ->
  read_frame (st_at (fst (write_frame (FPing id)) ++ rest) 0 cs) =
  (VL [VZ 6; VZ 3; VZ 0; VZ 4; VZ id], st_at rest 12 cs).
Proof.
  intros Hi. unfold write_frame.
  assert (E1 : (id =? 0) = false) by (apply Z.eqb_neq; lia). rewrite E1.
  cbn [fst]. change (cf_header 6 0 4) with [128; 3; 0; 6; 0; 0; 0; 4].
  unfold be32. cbn [app]. unfold read_frame.
  rd4. change (dec32 [128; 3; 0; 6]) with 2147680262.
  rd4. change (dec32 [0; 0; 0; 4]) with 4.
  cbv zeta. change (2147680262 <? 2 ^ 31) with false. cbv iota.
  change (2147680262 mod 2 ^ 16) with 6. cbn [Z.eqb Pos.eqb orb].
  rd4. rewrite dec32_cons by lia. rewrite E1.
  reflexivity.
Qed.
Lemma window_update_roundtrip sid d rest cs :
  0 <= sid < 2^31 -> 0 <= d < 2^31 ->
  read_frame (st_at (fst (write_frame (FWindow sid d)) ++ rest) 0 cs) =
  (VL [VZ 9; VZ 3; VZ 0; VZ 8; VZ sid; VZ d], st_at rest 16 cs).
Proof.
  intros Hs Hd. unfold write_frame.
  cbn [fst]. change (cf_header 9 0 8) with [128; 3; 0; 9; 0; 0; 0; 8].
  unfold be32. cbn [app]. unfold read_frame.
  rd4. change (dec32 [128; 3; 0; 9]) with 2147680265.
  rd4. change (dec32 [0; 0; 0; 8]) with 8.
  cbv zeta. change (2147680265 <? 2 ^ 31) with false. cbv iota.
  change (2147680265 mod 2 ^ 16) with 9. cbn [Z.eqb Pos.eqb orb].
  rd4. rewrite dec32_cons by (change (2^32) with (2 * 2^31); lia).
  change (2147680265 / 2 ^ 16 mod 2 ^ 15) with 3.
  change (8 / 2 ^ 24) with 0. change (8 mod 2 ^ 24) with 8. cbn [Z.eqb Pos.eqb negb].
  rd4. rewrite dec32_cons by (change (2^32) with (2 * 2^31); lia).
  rewrite !m31_small by lia. reflexivity.
Qed.
Lemma goaway_roundtrip last st rest cs :
  0 <= last < 2^31 -> 0 <= st < 2^32 ->
  read_frame (st_at (fst (write_frame (FGoAway last st)) ++ rest) 0 cs) =
  (VL [VZ 7; VZ 3; VZ 0; VZ 8; VZ last; VZ st], st_at rest 16 cs).
Proof.
  intros Hs Hd. unfold write_frame.
  cbn [fst]. change (cf_header 7 0 8) with [128; 3; 0; 7; 0; 0; 0; 8].
  unfold be32. cbn [app]. unfold read_frame.
  rd4. change (dec32 [128; 3; 0; 7]) with 2147680263.
  rd4. change (dec32 [0; 0; 0; 8]) with 8.
  cbv zeta. change (2147680263 <? 2 ^ 31) with false. cbv iota.
  change (2147680263 mod 2 ^ 16) with 7. cbn [Z.eqb Pos.eqb orb].
  rd4. rewrite dec32_cons by (change (2^32) with (2 * 2^31); lia).
  change (2147680263 / 2 ^ 16 mod 2 ^ 15) with 3.
  change (8 / 2 ^ 24) with 0. change (8 mod 2 ^ 24) with 8. cbn [Z.eqb Pos.eqb negb].
  rd4. rewrite dec32_cons by lia.
  rewrite !m31_small by lia. reflexivity.
Qed.

(* ---------- length fields: flags<<24 | length does not wrap below 2^24 ---------- *)
Lemma lor_flags_len flags len : 0 <= flags -> 0 <= len < 2^24 -> Z.lor (flags * 2^24) len = flags * 2^24 + len.
Proof.
  intros Hf Hl.
  assert (Hland : Z.land (flags * 2^24) len = 0).
  { apply Z.bits_inj'. intros n Hn. rewrite Z.land_spec, Z.bits_0.
    destruct (Z.ltb_spec n 24) as [Hlt|Hge].
    - rewrite Z.mul_pow2_bits_low by lia. reflexivity.
    - replace len with (len mod 2^24) by (apply Z.mod_small; lia).
      rewrite Z.mod_pow2_bits_high by lia. apply andb_false_r. }
  rewrite <- Z.lxor_lor by exact Hland. symmetry. apply Z.add_nocarry_lxor. exact Hland.
Qed.
Lemma lenword_exact flags len :
  0 <= flags < 256 -> 0 <= len < 2^24 ->
  lenword flags len = flags * 2^24 + len /\ lenword flags len / 2^24 = flags /\ lenword flags len mod 2^24 = len.
Proof.
  intros Hf Hl. unfold lenword. rewrite lor_flags_len by lia.
  assert (Hu : u32 (flags * 2^24 + len) = flags * 2^24 + len).
  { unfold u32. apply Z.mod_small. change (2^24) with 16777216 in *. change (2^32) with 4294967296. lia. }
  rewrite Hu. split; [reflexivity|]. change (2^24) with 16777216 in *. split.
  - rewrite Z.add_comm, Z.div_add by lia. rewrite Z.div_small by lia. reflexivity.
  - rewrite Z.add_comm, Z.mod_add by lia. apply Z.mod_small. lia.
Qed.
(* writeDataFrame: an accepted frame has len <= 2^24 - 1 and its header carries exactly (stream id, flags, len) *)
Lemma data_header_exact sid flags len h :
  0 <= flags < 256 -> 0 <= len -> data_header sid flags len = inr h ->
  len <= 2^24 - 1 /\ h = be32 sid ++ be32 (flags * 2^24 + len) /\
  (flags * 2^24 + len) / 2^24 = flags /\ (flags * 2^24 + len) mod 2^24 = len.
Proof.
  intros Hf Hl. unfold data_header.
  destruct (sid =? 0); [discriminate|].
  destruct (2^31 <=? sid); [discriminate|]. cbn [orb].
  destruct (2^24 - 1 <? len) eqn:E; [discriminate|]. apply Z.ltb_ge in E.
  intros H. inversion H; subst. clear H.
  destruct (lenword_exact flags len Hf ltac:(lia)) as (H1 & H2 & H3).
  rewrite H1 in *. repeat split; try assumption.
Qed.
(* ... and a longer payload is refused (InvalidDataFrame), nothing is written *)
Lemma data_header_rejects sid flags len :
  2^24 - 1 < len -> exists c, data_header sid flags len = inl c.
Proof.
  intros H. unfold data_header. destruct (sid =? 0); [eexists; reflexivity|].
  apply Z.ltb_lt in H. rewrite H, orb_true_r. eexists. reflexivity.
Qed.
Lemma write_data_frame_exact sid flags data b :
  0 <= flags < 256 -> write_frame (FData sid flags data) = (b, None) -> b <> [] ->
  blen data <= 2^24 - 1 /\ b = be32 sid ++ be32 (flags * 2^24 + blen data) ++ data.
Proof.
  intros Hf Hw Hb. unfold write_frame in Hw.
  destruct (data_header sid flags (blen data)) as [c|h] eqn:E.
  - inversion Hw; subst. contradiction.
  - inversion Hw; subst. destruct (data_header_exact sid flags (blen data) h Hf (blen_range data) E) as (H1 & H2 & _).
    split; [exact H1|]. rewrite H2, <- app_assoc. reflexivity.
Qed.
(* control frames: no writer checks the 24-bit field; beyond the bound the length runs into the flags *)
Lemma control_length_wraps : lenword 0 (2^24) / 2^24 = 1 /\ lenword 0 (2^24) mod 2^24 = 0
  /\ lenword 0 (u32 (2097152 * 8 + 4)) / 2^24 = 1.
Proof. vm_compute. repeat split; reflexivity. Qed.

(* =====================================================================================
   Frame boundaries: every frame ReadFrame returns has consumed exactly 8 + length bytes
   ===================================================================================== *)
Definition sfx (w : bytes) (st : fstate) : Prop :=
  0 <= off st /\ wire st = skipn (Z.to_nat (off st)) w.

Lemma nth_skipn_add {A} n : forall i (l : list A) d, nth i (skipn n l) d = nth (n + i) l d.
Proof.
  induction n as [|n IH]; intros i l d; [reflexivity|].
  destruct l as [|x l]; [destruct i; reflexivity|]. simpl. apply IH.
Qed.
Lemma skipn_skipn' {A} a : forall b (l : list A), skipn a (skipn b l) = skipn (b + a) l.
Proof.
  intros b. induction b as [|b IH]; intros l; [reflexivity|].
  destruct l as [|x l]; [destruct a; reflexivity|]. simpl. apply IH.
Qed.
Lemma skipn_Z (w : bytes) o k : 0 <= o -> 0 <= k ->
  skipn (Z.to_nat k) (skipn (Z.to_nat o) w) = skipn (Z.to_nat (o + k)) w.
Proof.
  intros Ho Hk. rewrite skipn_skipn'. f_equal. rewrite Z2Nat.inj_add by lia. reflexivity.
Qed.

(* a successful rd_wire advances the offset by the bytes delivered and keeps everything else *)
Lemma rd_wire_ok w k st b st' :
  sfx w st -> rd_wire k st = ROk b st' ->
  sfx w st' /\ off st' = off st + Z.max 0 k /\ b = firstn (Z.to_nat k) (wire st) /\
  chunks st' = chunks st /\ nexti st' = nexti st /\ pend st' = pend st /\ zerr st' = zerr st /\
  zinit st' = zinit st /\ lim st' = lim st /\ Z.max 0 k <= blen (wire st).
Proof.
  intros [Ho Hw] H. unfold rd_wire in H.
  destruct (k <=? 0) eqn:Ek.
  - inversion H; subst. apply Z.leb_le in Ek.
    replace (Z.max 0 k) with 0 by lia. replace (Z.to_nat k) with 0%nat by lia.
    split; [split; assumption|]. split; [lia|]. split; [reflexivity|].
    repeat (split; [reflexivity|]). unfold blen. lia.
  - apply Z.leb_gt in Ek. destruct (wire st) as [|x r] eqn:Ew; [discriminate|].
    destruct (k <=? blen (x :: r)) eqn:El; [|discriminate]. apply Z.leb_le in El.
    inversion H; subst. replace (Z.max 0 k) with k by lia.
    split. { split; [simpl; lia | simpl; rewrite Hw; apply skipn_Z; lia]. }
    split; [reflexivity|]. split; [reflexivity|].
    repeat (split; [reflexivity|]). exact El.
Qed.
(* the 4-byte case, with the bytes named *)
Lemma rd_wire4_inv w st b st' :
  sfx w st -> rd_wire 4 st = ROk b st' ->
  exists a1 a2 a3 a4 r, wire st = a1 :: a2 :: a3 :: a4 :: r /\ b = [a1; a2; a3; a4] /\ wire st' = r.
Proof.
  intros Hs H. unfold rd_wire in H. cbn [Z.leb Z.compare] in H.
  destruct (wire st) as [|a1 [|a2 [|a3 [|a4 r]]]] eqn:Ew; try discriminate;
    try (vm_compute in H; discriminate).
  destruct (4 <=? blen (a1 :: a2 :: a3 :: a4 :: r)); [|discriminate].
  inversion H; subst. simpl. exists a1, a2, a3, a4, r. repeat split.
Qed.

(* the header decompressor: wire offset + remaining limit is constant while a header block is parsed *)
Definition dz (w : bytes) (K : Z) (st : fstate) : Prop := sfx w st /\ off st + lim st = K.

Lemma slurp_ok w K st st' : dz w K st -> slurp st = Some st' -> dz w K st' /\ lim st' = 0.
Proof.
  intros [[Ho Hw] HK] H. unfold slurp in H.
  destruct (find (fun c => c_off c =? off st) (chunks st)) as [c|]; [|discriminate].
  destruct ((c_idx c =? nexti st) && (c_size c =? lim st) && (0 <? c_size c) && (c_size c <=? blen (wire st))) eqn:E; [|discriminate].
  apply andb_true_iff in E. destruct E as [E E4]. apply andb_true_iff in E. destruct E as [E E3].
  apply andb_true_iff in E. destruct E as [_ E2].
  apply Z.eqb_eq in E2. apply Z.ltb_lt in E3. apply Z.leb_le in E4.
  inversion H; subst. simpl. split; [|reflexivity]. split.
  - split; [simpl; lia|]. simpl. rewrite Hw. apply skipn_Z; lia.
  - simpl. lia.
Qed.
Lemma dz_set_pend w K st p z : dz w K st -> dz w K (set_pend st p z).
Proof. intros H. exact H. Qed.
Lemma zread_ok w K k st :
  dz w K st ->
  match zread k st with ROk _ s' => dz w K s' | RFail _ s' => dz w K s' | RDesync => True end.
Proof.
  intros H. unfold zread.
  destruct (k <=? 0); [exact H|].
  destruct (zerr st); [exact H|].
  destruct (k <=? blen (pend st)); [apply dz_set_pend; exact H|].
  destruct (lim st =? 0); [apply dz_set_pend; exact H|].
  destruct (slurp st) as [st'|] eqn:Es; [|exact I].
  destruct (slurp_ok w K st st' H Es) as [H' _].
  destruct (k <=? blen (pend st')); apply dz_set_pend; exact H'.
Qed.

Section ParseInv.
  Context {T : Type} (rd : Z -> T -> rres T) (P : T -> Prop).
  Hypothesis Hrd : forall k s, P s ->
    match rd k s with ROk _ s' => P s' | RFail _ s' => P s' | RDesync => True end.
  Definition pres_P (r : pres T) : Prop :=
    match r with PIo _ s _ => P s | PDone _ _ _ s _ => P s | _ => True end.
  Lemma parse_entries_P n : forall s h e hl mx, P s -> pres_P (parse_entries rd n s h e hl mx).
  Proof.
    induction n as [|n IH]; intros s h e hl mx Hs; cbn [parse_entries]; [exact Hs|].
    pose proof (Hrd 4 s Hs) as H1. destruct (rd 4 s) as [lb s1|c s1|]; [|exact H1|exact I].
    pose proof (Hrd (dec32 lb) s1 H1) as H2. destruct (rd (dec32 lb) s1) as [name s2|c s2|]; [|exact H2|exact I].
    destruct (go_lower name) as [low|]; [|exact I].
    pose proof (Hrd 4 s2 H2) as H3. destruct (rd 4 s2) as [vb s3|c s3|]; [|exact H3|exact I].
    pose proof (Hrd (dec32 vb) s3 H3) as H4. destruct (rd (dec32 vb) s3) as [value s4|c s4|]; [|exact H4|exact I].
    apply IH. exact H4.
  Qed.
  Lemma parse_block_P s : P s -> pres_P (parse_block rd s).
  Proof.
    intros Hs. unfold parse_block.
    pose proof (Hrd 4 s Hs) as H1. destruct (rd 4 s) as [nb s1|c s1|]; [|exact H1|exact I].
    destruct (1024 <? dec32 nb); [exact H1|].
    pose proof (parse_entries_P (Z.to_nat (dec32 nb)) s1 [] 0 0 4 H1) as H.
    destruct (parse_entries rd (Z.to_nat (dec32 nb)) s1 [] 0 0 4) as [c s2 m|h hl e s2 m| |]; try exact H; try exact I.
    destruct (e =? 0); exact H.
  Qed.
End ParseInv.

Lemma uncork_ok w st n st1 :
  sfx w st -> uncork n st = inr (Some st1) -> dz w (off st + n) st1.
Proof.
  intros Hs H. unfold uncork in H.
  destruct (zinit st).
  - inversion H; subst. split; [exact Hs|reflexivity].
  - destruct (n =? 0); [discriminate|]. inversion H as [H1].
    assert (Hd : dz w (off st + n) (set_lim st n)) by (split; [exact Hs|reflexivity]).
    destruct (slurp_ok w (off st + n) (set_lim st n) st1 Hd H1) as [H' _]. exact H'.
Qed.

Definition is_frame (v : val) : bool := match v with VL (VZ t :: _) => 0 <=? t | _ => false end.

(* a header-bearing frame is returned only when the whole declared payload has been pulled from the wire *)
Lemma header_part_ok w kind ver flags len sid fixed n st v st' :
  sfx w st -> read_header_part kind ver flags len sid fixed n st = (v, st') -> is_frame v = true ->
  0 <= kind -> sfx w st' /\ off st' = off st + n.
Proof.
  intros Hs H Hf Hk. unfold read_header_part in H.
  destruct (uncork n st) as [c|[st1|]] eqn:Eu; try (inversion H; subst; discriminate).
  pose proof (uncork_ok w st n st1 Hs Eu) as Hd.
  pose proof (parse_block_P zread (dz w (off st + n)) (fun k s Hs0 => zread_ok w (off st + n) k s Hs0) st1 Hd) as HP.
  destruct (parse_block zread st1) as [c st2 m|h hl e st2 m| |]; try (inversion H; subst; discriminate).
  - destruct (((c =? 1) && (lim st2 =? 0)) || negb (lim st2 =? 0)); inversion H; subst; discriminate.
  - simpl in HP. destruct (lim st2 =? 0) eqn:El; cbn [negb] in H; [|inversion H; subst; discriminate].
    apply Z.eqb_eq in El. destruct HP as [Hs2 HK].
    destruct (negb (e =? 0)); [inversion H; subst; discriminate|].
    match type of H with (if ?b then _ else _) = _ => destruct b end; [inversion H; subst; discriminate|].
    match type of H with (if ?b then _ else _) = _ => destruct b end; [inversion H; subst; discriminate|].
    destruct (sid =? 0); [inversion H; subst; discriminate|].
    inversion H; subst. split; [exact Hs2|lia].
Qed.

Lemma read_settings_ok w n : forall st acc l st',
  sfx w st -> read_settings n st acc = inr (l, st') -> sfx w st' /\ off st' = off st + 8 * Z.of_nat n.
Proof.
  induction n as [|n IH]; intros st acc l st' Hs H; cbn [read_settings] in H.
  - inversion H; subst. split; [exact Hs|lia].
  - destruct (rd_wire 4 st) as [b1 s1|c s1|] eqn:E1; try discriminate.
    destruct (rd_wire_ok w 4 st b1 s1 Hs E1) as (Hs1 & Ho1 & _).
    destruct (rd_wire 4 s1) as [b2 s2|c s2|] eqn:E2; try discriminate.
    destruct (rd_wire_ok w 4 s1 b2 s2 Hs1 E2) as (Hs2 & Ho2 & _).
    destruct (IH _ _ _ _ Hs2 H) as [Hs' Ho']. split; [exact Hs'|]. lia.
Qed.

Lemma wf_in (w : bytes) x : wf_bytes w = true -> In x w -> 0 <= x < 256.
Proof.
  intros Hw Hi. unfold wf_bytes in Hw. rewrite forallb_forall in Hw. specialize (Hw x Hi).
  unfold wf_byte in Hw. apply andb_true_iff in Hw. destruct Hw as [H1 H2].
  apply Z.leb_le in H1. apply Z.ltb_lt in H2. lia.
Qed.
Lemma in_skipn {A} n : forall (l : list A) x, In x (skipn n l) -> In x l.
Proof.
  induction n as [|n IH]; intros l x H; [exact H|]. destruct l as [|y l]; [destruct H|]. right. apply IH. exact H.
Qed.
(* the length field of the frame that starts at the reader's position *)
Lemma hdr_len_at w st a1 a2 a3 a4 b1 b2 b3 b4 r :
  sfx w st -> wf_bytes w = true -> wire st = a1 :: a2 :: a3 :: a4 :: b1 :: b2 :: b3 :: b4 :: r ->
  hdr_len w (off st) = Some (dec32 [b1; b2; b3; b4] mod 2^24).
Proof.
  intros [Ho Hw] Hwf Hwire. unfold hdr_len.
  assert (Hlen : off st + 8 <= blen w).
  { assert (Hl : length (skipn (Z.to_nat (off st)) w) = (8 + length r)%nat) by (rewrite <- Hw, Hwire; reflexivity).
    rewrite skipn_length in Hl. unfold blen. lia. }
  assert (E : (0 <=? off st) && (off st + 8 <=? blen w) = true).
  { apply andb_true_iff. split; [apply Z.leb_le; lia|apply Z.leb_le; exact Hlen]. }
  rewrite E. f_equal.
  rewrite <- !(nth_skipn_add (Z.to_nat (off st))). rewrite <- Hw, Hwire. cbn [nth].
  assert (Hin : forall x, In x [b2; b3; b4] -> 0 <= x < 256).
  { intros x Hx. apply (wf_in w x Hwf). apply (in_skipn (Z.to_nat (off st))). rewrite <- Hw, Hwire.
    simpl in Hx. simpl. tauto. }
  pose proof (Hin b2 ltac:(simpl; tauto)). pose proof (Hin b3 ltac:(simpl; tauto)). pose proof (Hin b4 ltac:(simpl; tauto)).
  unfold dec32, of_be32. change (2^24) with 16777216. change (2^16) with 65536. change (2^8) with 256.
  replace (b1 * 16777216 + b2 * 65536 + b3 * 256 + b4) with ((b2 * 65536 + b3 * 256 + b4) + b1 * 16777216) by lia.
  rewrite Z.mod_add by lia. rewrite Z.mod_small by lia. reflexivity.
Qed.

Ltac kill H Hf := inversion H; subst; simpl in Hf; discriminate Hf.
Ltac rdstep w H Hf :=
  match type of H with
  | context [rd_wire ?k ?s] =>
    match goal with
    | Hs : sfx w s |- _ =>
      let E := fresh "E" in let b := fresh "b" in let s' := fresh "s" in
      let Hs' := fresh "Hs" in let Ho' := fresh "Ho" in
      destruct (rd_wire k s) as [b s'|?c s'|] eqn:E;
      [ destruct (rd_wire_ok w k s b s' Hs E) as (Hs' & Ho' & _) | kill H Hf | kill H Hf ];
      cbv beta zeta in H
    end
  end.
Ltac fin H HL := inversion H; subst; split; [assumption | eexists; split; [exact HL | lia]].

Lemma read_frame_boundary w st v st' :
  sfx w st -> wf_bytes w = true -> read_frame st = (v, st') -> is_frame v = true ->
  sfx w st' /\ exists l, hdr_len w (off st) = Some l /\ off st' = off st + 8 + l.
Proof.
  intros Hs Hwf H Hf. unfold read_frame in H.
  destruct (rd_wire 4 st) as [w1 s1|c s1|] eqn:E1; [|kill H Hf|kill H Hf].
  destruct (rd_wire_ok w 4 st w1 s1 Hs E1) as (Hs1 & Ho1 & _).
  destruct (rd_wire4_inv w st w1 s1 Hs E1) as (a1 & a2 & a3 & a4 & r1 & Hw0 & Hw1 & Hr1).
  destruct (rd_wire 4 s1) as [w2 s2|c s2|] eqn:E2; [|kill H Hf|kill H Hf].
  destruct (rd_wire_ok w 4 s1 w2 s2 Hs1 E2) as (Hs2 & Ho2 & _).
  destruct (rd_wire4_inv w s1 w2 s2 Hs1 E2) as (b1 & b2 & b3 & b4 & r2 & Hw0' & Hw2 & Hr2).
  assert (HL : hdr_len w (off st) = Some (dec32 w2 mod 2^24)).
  { rewrite Hw2. eapply hdr_len_at; [exact Hs|exact Hwf|]. rewrite Hw0, <- Hr1, Hw0'. reflexivity. }
  assert (Hlen0 : 0 <= dec32 w2 mod 2^24) by (apply Z.mod_pos_bound; reflexivity).
  change (Z.max 0 4) with 4 in *.
  cbv zeta in H.
  set (len := dec32 w2 mod 2^24) in *.
  destruct (dec32 w1 <? 2^31).
  - (* DATA *)
    rdstep w H Hf. destruct (dec32 w1 =? 0); [kill H Hf|]. fin H HL.
  - set (typ := dec32 w1 mod 2^16) in *.
    destruct (typ =? 1).
    { destruct (len <? 10) eqn:L; [kill H Hf|]. apply Z.ltb_ge in L.
      rdstep w H Hf. rdstep w H Hf. rdstep w H Hf. rdstep w H Hf.
      assert (Hu : u32 (len - 10) = len - 10).
      { unfold u32. apply Z.mod_small. unfold len. pose proof (Z.mod_pos_bound (dec32 w2) (2^24) ltac:(reflexivity)).
        change (2^32) with 4294967296. change (2^24) with 16777216 in *. lia. }
      rewrite Hu in H.
      match goal with Hs : sfx w ?s |- _ =>
        match type of H with read_header_part _ _ _ _ _ _ _ s = _ =>
          destruct (header_part_ok w _ _ _ _ _ _ _ s v st' Hs H Hf ltac:(lia)) as [Hsf Hof] end end.
      change (Z.max 0 1) with 1 in *.
      split; [exact Hsf|]. eexists. split; [exact HL|]. lia. }
    destruct ((typ =? 2) || (typ =? 8)) eqn:T28.
    { destruct (len <? 4) eqn:L; [kill H Hf|]. apply Z.ltb_ge in L.
      rdstep w H Hf.
      assert (Hu : u32 (len - 4) = len - 4).
      { unfold u32. apply Z.mod_small. unfold len. pose proof (Z.mod_pos_bound (dec32 w2) (2^24) ltac:(reflexivity)).
        change (2^32) with 4294967296. change (2^24) with 16777216 in *. lia. }
      rewrite Hu in H.
      assert (Hk : 0 <= typ).
      { apply orb_true_iff in T28. destruct T28 as [T|T]; apply Z.eqb_eq in T; lia. }
      match goal with Hs : sfx w ?s |- _ =>
        match type of H with read_header_part _ _ _ _ _ _ _ s = _ =>
          destruct (header_part_ok w _ _ _ _ _ _ _ s v st' Hs H Hf Hk) as [Hsf Hof] end end.
      split; [exact Hsf|]. eexists. split; [exact HL|]. lia. }
    destruct (typ =? 3).
    { destruct (len =? 8) eqn:L; cbn [negb] in H; [|kill H Hf]. apply Z.eqb_eq in L.
      rdstep w H Hf. rdstep w H Hf.
      match type of H with (if ?c then _ else _) = _ => destruct c end; [kill H Hf|].
      match type of H with (if ?c then _ else _) = _ => destruct c end; [kill H Hf|].
      fin H HL. }
    destruct (typ =? 4).
    { rdstep w H Hf.
      match type of H with (if ?c then _ else _) = _ => destruct c eqn:N end; [kill H Hf|].
      apply Z.ltb_ge in N.
      match type of H with (if negb (len =? ?x) then _ else _) = _ => destruct (len =? x) eqn:L end; cbn [negb] in H; [|kill H Hf].
      apply Z.eqb_eq in L.
      match type of H with context [read_settings ?n ?s ?a] =>
        destruct (read_settings n s a) as [[c0 s0]|[l0 s0]] eqn:ER end; [kill H Hf|].
      match goal with Hs : sfx w ?s |- _ =>
        match type of ER with read_settings _ s _ = _ =>
          destruct (read_settings_ok w _ s _ _ _ Hs ER) as [Hsf Hof] end end.
      inversion H; subst. split; [exact Hsf|]. eexists. split; [exact HL|].
      rewrite Z2Nat.id in Hof by lia. lia. }
    destruct (typ =? 6).
    { destruct (len =? 4) eqn:L; cbn [negb] in H; [|kill H Hf]. apply Z.eqb_eq in L.
      rdstep w H Hf.
      match type of H with (if ?c then _ else _) = _ => destruct c end; [kill H Hf|].
      match type of H with (if ?c then _ else _) = _ => destruct c end; [kill H Hf|].
      fin H HL. }
    destruct (typ =? 7).
    { rdstep w H Hf.
      match type of H with (if ?c then _ else _) = _ => destruct c end; [kill H Hf|].
      destruct (len =? 8) eqn:L; cbn [negb] in H; [|kill H Hf]. apply Z.eqb_eq in L.
      rdstep w H Hf. fin H HL. }
    destruct (typ =? 9).
    { rdstep w H Hf.
      match type of H with (if ?c then _ else _) = _ => destruct c end; [kill H Hf|].
      destruct (len =? 8) eqn:L; cbn [negb] in H; [|kill H Hf]. apply Z.eqb_eq in L.
      rdstep w H Hf. fin H HL. }
    kill H Hf.
Qed.

Definition shaped (v : val) : Prop := exists t r, v = VL (VZ t :: r).
Lemma header_part_shape kind ver flags len sid fixed n st :
  shaped (fst (read_header_part kind ver flags len sid fixed n st)).
Proof.
  unfold read_header_part, shaped, v_io, v_desync, v_unsup, v_serr.
  destruct (uncork n st) as [c|[st1|]]; simpl; eauto.
  destruct (parse_block zread st1) as [c st2 m|h hl e st2 m| |]; simpl; eauto.
  - destruct (((c =? 1) && (lim st2 =? 0)) || negb (lim st2 =? 0)); simpl; eauto.
  - repeat match goal with |- context [if ?c then _ else _] => destruct c end; simpl; eauto.
Qed.
Lemma read_frame_shape st : shaped (fst (read_frame st)).
Proof.
  unfold read_frame.
  repeat first
    [ match goal with |- context [rd_wire ?k ?s] => destruct (rd_wire k s); cbv beta zeta end
    | match goal with |- context [read_settings ?n ?s ?a] => destruct (read_settings n s a) as [[? ?]|[? ?]] end
    | match goal with |- shaped (fst (read_header_part _ _ _ _ _ _ _ _)) => apply header_part_shape end
    | match goal with |- context [if ?c then _ else _] => destruct c end ];
  try apply header_part_shape;
  unfold shaped, v_io, v_desync, v_unsup, v_serr; simpl; eauto.
Qed.

Theorem read_stream_bounds w : wf_bytes w = true -> forall fuel st,
  sfx w st -> bounds_ok w (off st) (read_stream fuel st) = true.
Proof.
  intros Hwf. induction fuel as [|f IH]; intros st Hs; [reflexivity|].
  cbn [read_stream]. destruct (read_frame st) as [v st'] eqn:E.
  pose proof (read_frame_shape st) as Hsh. rewrite E in Hsh. cbn [fst] in Hsh. destruct Hsh as (t & r & Hv). subst v.
  cbn [bounds_ok is_stop].
  destruct (t <? 0) eqn:Et; [reflexivity|].
  assert (Hf : is_frame (VL (VZ t :: r)) = true) by (simpl; apply Z.leb_le; apply Z.ltb_ge in Et; lia).
  destruct (read_frame_boundary w st _ st' Hs Hwf E Hf) as (Hs' & l & HL & Ho).
  rewrite HL. rewrite Ho, Z.eqb_refl. cbn [orb andb]. rewrite <- Ho. apply IH. exact Hs'.
Qed.

(* ---------- central theorem, sub-language: operations 2 (raw block parse) and 4 (raw wire read) ---------- *)
Definition wf_C39 (i : val) : bool :=
  match i with
  | VL (VZ op :: l) =>
    if op =? 2 then
      match l with
      | [VZ _; VB b] => match parse_block rd_plain b with PUnsup | PDesync => false | _ => true end
                        (* names within the tabulated ToLower *)
      | _ => false
      end
    else if op =? 4 then
      match l with
      | [VB w; VL cl] => wf_bytes w && match all_some (map dec_chunk cl) with Some _ => true | None => false end
      | _ => false
      end
    else false
  | _ => false
  end.
Theorem central_partial i : wf_C39 i = true -> kf_C39 i = 0 -> prop_C39 i (run_C39 i) = true.
Proof.
  intros Hwf _. destruct i as [z|b|l]; try discriminate.
  destruct l as [|[op| |] l]; try discriminate.
  cbn [wf_C39] in Hwf.
  destruct (op =? 2) eqn:E2.
  - apply Z.eqb_eq in E2. subst op.
    destruct l as [|[z1| |] [|[|b1|] [|? ?]]]; try discriminate.
    cbn [prop_C39 run_C39]. unfold parse_plain.
    pose proof (parse_block_mx rd_plain b1) as Hm.
    destruct (parse_block rd_plain b1) as [c s m|h hl e s m| |]; try discriminate; cbn [v_pres].
    + apply Z.leb_le. exact Hm.
    + destruct (e =? 0); apply Z.leb_le; exact Hm.
  - destruct (op =? 4) eqn:E4; [|discriminate].
    apply Z.eqb_eq in E4. subst op.
    destruct l as [|[|w|] [|[| |cl] [|? ?]]]; try discriminate.
    apply andb_true_iff in Hwf. destruct Hwf as [Hw Hc].
    cbn [prop_C39 run_C39]. destruct (all_some (map dec_chunk cl)) as [cs|]; [|discriminate].
    apply (read_stream_bounds w Hw 64 (init_state w cs)). split; [simpl; lia|reflexivity].
Qed.
Example wf_example :
  wf_C39 (VL [VZ 4; VB w_bound; VL []]) = true /\ wf_C39 (VL [VZ 2; VZ 1; VB w_alloc]) = true.
Proof. vm_compute. split; reflexivity. Qed.

(* ---------- Framer level round trips: DATA and SETTINGS ---------- *)
Lemma rd_wire_app_at (b rest : bytes) o cs :
  rd_wire (blen b) (st_at (b ++ rest) o cs) = ROk b (st_at rest (o + blen b) cs).
Proof.
  unfold rd_wire, blen. destruct b as [|x b].
  - simpl. rewrite Z.add_0_r. reflexivity.
  - destruct (Z.of_nat (length (x :: b)) <=? 0) eqn:E; [apply Z.leb_le in E; simpl length in E; lia|].
    cbn [wire st_at]. change ((x :: b) ++ rest) with (x :: (b ++ rest)). cbv iota beta.
    assert (Hle : (Z.of_nat (length (x :: b)) <=? Z.of_nat (length (x :: b ++ rest))) = true).
    { apply Z.leb_le. simpl length. rewrite app_length. lia. }
    rewrite Hle. rewrite Nat2Z.id.
    change (x :: b ++ rest) with ((x :: b) ++ rest).
    rewrite firstn_app, Nat.sub_diag, firstn_all. simpl firstn. rewrite app_nil_r.
    rewrite skipn_app, Nat.sub_diag, skipn_all. reflexivity.
Qed.

Lemma data_roundtrip sid flags data rest o cs :
  0 < sid < 2^31 -> 0 <= flags < 256 -> blen data <= 2^24 - 1 ->
  read_frame (st_at (fst (write_frame (FData sid flags data)) ++ rest) o cs) =
  (VL [VZ 0; VZ sid; VZ flags; VB data], st_at rest (o + 8 + blen data) cs).
Proof.
  intros Hs Hf Hl. pose proof (blen_range data) as Hl0.
  unfold write_frame, data_header.
  assert (E1 : (sid =? 0) = false) by (apply Z.eqb_neq; lia). rewrite E1.
  assert (E2 : (2^31 <=? sid) = false) by (apply Z.leb_gt; lia). rewrite E2.
  assert (E3 : (2^24 - 1 <? blen data) = false) by (apply Z.ltb_ge; lia). rewrite E3.
  cbn [orb fst].
  destruct (lenword_exact flags (blen data) Hf ltac:(lia)) as (Hw & Hw1 & Hw2).
  assert (Hwr : 0 <= lenword flags (blen data) < 2^32).
  { rewrite Hw. change (2^24) with 16777216 in *. change (2^32) with 4294967296. lia. }
  unfold be32. cbn [app]. rewrite <- ?app_assoc. cbn [app]. unfold read_frame.
  rd4. rewrite dec32_cons by (change (2^32) with (2 * 2^31); lia).
  rd4. rewrite dec32_cons by exact Hwr.
  cbv zeta.
  assert (E4 : (sid <? 2^31) = true) by (apply Z.ltb_lt; lia). rewrite E4.
  rewrite Hw1, Hw2. rewrite rd_wire_app_at. rewrite E1.
  replace (o + 4 + 4 + blen data) with (o + 8 + blen data) by lia. reflexivity.
Qed.

Definition set_ok (t : Z * Z * Z) : bool :=
  let '(f, i, x) := t in (0 <=? f) && (f <? 256) && (0 <=? i) && (i <? 2^24) && (0 <=? x) && (x <? 2^32).
Definition set_val (t : Z * Z * Z) : val := let '(f, i, x) := t in VL [VZ f; VZ i; VZ x].
Definition set_enc (t : Z * Z * Z) : bytes := let '(fl, id, v) := t in be32 (u32 (Z.lor (fl * 2^24) id)) ++ be32 v.
Lemma read_settings_written l : forall rest o cs acc,
  forallb set_ok l = true ->
  read_settings (length l) (st_at (concat (map set_enc l) ++ rest) o cs) acc =
  inr (rev acc ++ map set_val l, st_at rest (o + 8 * Z.of_nat (length l)) cs).
Proof.
  induction l as [|[[f i] x] l IH]; intros rest o cs acc Hok.
  - simpl. rewrite app_nil_r, Z.add_0_r. reflexivity.
  - cbn [forallb] in Hok. apply andb_true_iff in Hok. destruct Hok as [Ht Hok].
    unfold set_ok in Ht. repeat (apply andb_true_iff in Ht; destruct Ht as [Ht ?]).
    repeat match goal with H : (_ <=? _) = true |- _ => apply Z.leb_le in H | H : (_ <? _) = true |- _ => apply Z.ltb_lt in H end.
    apply Z.leb_le in Ht.
    cbn [length map concat set_enc read_settings].
    destruct (lenword_exact f i ltac:(lia) ltac:(lia)) as (Hw & Hw1 & Hw2). unfold lenword in Hw, Hw1, Hw2.
    assert (Hwr : 0 <= u32 (Z.lor (f * 2^24) i) < 2^32).
    { rewrite Hw. change (2^24) with 16777216 in *. change (2^32) with 4294967296. lia. }
    unfold be32 at 1 2. cbn [app]. rewrite <- ?app_assoc. cbn [app].
    rd4. rewrite dec32_cons by exact Hwr. rd4. rewrite dec32_cons by lia.
    rewrite Hw1, Hw2. rewrite IH by exact Hok. cbn [rev map]. rewrite <- app_assoc. cbn [app].
    f_equal. f_equal. f_equal. lia.
Qed.
Lemma settings_roundtrip flags l rest cs :
  0 <= flags < 256 -> (length l <= 1024)%nat -> forallb set_ok l = true ->
  read_frame (st_at (fst (write_frame (FSettings flags l)) ++ rest) 0 cs) =
  (VL [VZ 4; VZ 3; VZ flags; VZ (Z.of_nat (length l) * 8 + 4); VL (map set_val l)],
   st_at rest (12 + 8 * Z.of_nat (length l)) cs).
Proof.
  intros Hf Hn Hok. unfold write_frame.
  assert (E0 : (1024 <? Z.of_nat (length l)) = false) by (apply Z.ltb_ge; lia). rewrite E0.
  cbn [fst]. set (n := Z.of_nat (length l)) in *.
  assert (Hu1 : u32 (n * 8 + 4) = n * 8 + 4) by (unfold u32; apply Z.mod_small; change (2^32) with 4294967296; lia).
  assert (Hu2 : u32 n = n) by (unfold u32; apply Z.mod_small; change (2^32) with 4294967296; lia).
  rewrite Hu1, Hu2.
  destruct (lenword_exact flags (n * 8 + 4) Hf ltac:(change (2^24) with 16777216; lia)) as (Hw & Hw1 & Hw2).
  assert (Hwr : 0 <= lenword flags (n * 8 + 4) < 2^32).
  { rewrite Hw. change (2^24) with 16777216 in *. change (2^32) with 4294967296. lia. }
  unfold cf_header. change (be16 (Z.lor 32768 3)) with [128; 3]. change (be16 4) with [0; 4].
  unfold be32 at 1 2. cbn [app]. rewrite <- ?app_assoc. cbn [app]. unfold read_frame.
  rd4. change (dec32 [128; 3; 0; 4]) with 2147680260.
  rd4. rewrite dec32_cons by exact Hwr.
  cbv zeta. change (2147680260 <? 2 ^ 31) with false. cbv iota.
  change (2147680260 mod 2 ^ 16) with 4. cbn [Z.eqb Pos.eqb orb].
  change (2147680260 / 2 ^ 16 mod 2 ^ 15) with 3.
  rd4. rewrite dec32_cons by lia.
  rewrite E0. rewrite Hw1, Hw2.
  assert (E1 : (n * 8 + 4 =? 4 + 8 * n) = true) by (apply Z.eqb_eq; lia). rewrite E1. cbn [negb].
  unfold n at 1. rewrite Nat2Z.id.
  change (fun t : Z * Z * Z => let '(fl, id, v) := t in be32 (u32 (Z.lor (fl * 2 ^ 24) id)) ++ be32 v) with set_enc.
  rewrite read_settings_written by exact Hok. cbn [rev app].
  replace (0 + 4 + 4 + 4 + 8 * Z.of_nat (length l)) with (12 + 8 * Z.of_nat (length l)) by lia.
  reflexivity.
Qed.

(* ---------- header-bearing frames through the (identity-oracle) decompressor ---------- *)
(* parse of a written block, for any reader that delivers a prefix exactly (plain bytes, or the decompressor's
   pending plain bytes) *)
Section WrittenGeneric.
  Context {T : Type} (rd : Z -> T -> rres T) (mk : bytes -> T).
  Hypothesis rd_app : forall x r, rd (blen x) (mk (x ++ r)) = ROk x (mk r).
  Lemma rd_be32_g n r : rd 4 (mk (be32 n ++ r)) = ROk (be32 n) (mk r).
  Proof. exact (rd_app (be32 n) r). Qed.
  Lemma parse_entries_written_g es : forall rest h e hl mx,
    forallb ent_ok es = true ->
    parse_entries rd (length es) (mk (concat (map write_entry es) ++ rest)) h e hl mx =
    let '(h', e', hl', mx') := fold_left spec_step es (h, e, hl, mx) in PDone h' hl' e' (mk rest) mx'.
  Proof.
    induction es as [|[[name low] vals] es IH]; intros rest h e hl mx Hok.
    - reflexivity.
    - simpl in Hok. apply andb_true_iff in Hok. destruct Hok as [Hent Hok].
      apply andb_true_iff in Hent. destruct Hent as [Hent Hlow].
      apply andb_true_iff in Hent. destruct Hent as [Hn Hv].
      apply Z.ltb_lt in Hn. apply Z.ltb_lt in Hv.
      destruct (go_lower low) as [l|] eqn:Hgl; [|discriminate].
      apply bytes_eqb_eq in Hlow. subst l.
      pose proof (blen_range low) as Hn0. pose proof (blen_range (join_byte 0 vals)) as Hv0.
      cbn [length map concat fold_left].
      unfold write_entry at 1. cbv zeta.
      rewrite <- !app_assoc.
      cbn [parse_entries].
      rewrite rd_be32_g.
      assert (Hu1 : u32 (blen low) = blen low) by (unfold u32; apply Z.mod_small; lia).
      assert (Hu2 : u32 (blen (join_byte 0 vals)) = blen (join_byte 0 vals)) by (unfold u32; apply Z.mod_small; lia).
      rewrite Hu1, Hu2.
      rewrite (dec32_be32 (blen low)) by lia.
      rewrite rd_app. rewrite Hgl.
      rewrite rd_be32_g. rewrite (dec32_be32 (blen (join_byte 0 vals))) by lia.
      rewrite rd_app.
      assert (Hrefl : bytes_eqb low low = true) by (apply bytes_eqb_eq; reflexivity).
      rewrite Hrefl.
      rewrite IH by exact Hok.
      unfold spec_step at 2. reflexivity.
  Qed.
  Lemma parse_block_written_g es rest :
    forallb ent_ok es = true -> (length es <= 1024)%nat ->
    parse_block rd (mk (write_block es ++ rest)) =
    let '(h', e', hl', mx') := fold_left spec_step es ([], 0, 0, 4) in
    if e' =? 0 then PDone h' (u32 (hl' + Z.of_nat (length es) * 4)) 0 (mk rest) mx' else PDone h' 0 e' (mk rest) mx'.
  Proof.
    intros Hok Hn. unfold parse_block, write_block. rewrite <- app_assoc. rewrite rd_be32_g.
    assert (Hu : u32 (Z.of_nat (length es)) = Z.of_nat (length es)) by (unfold u32; apply Z.mod_small; lia).
    rewrite Hu. rewrite dec32_be32 by lia.
    destruct (1024 <? Z.of_nat (length es)) eqn:E; [apply Z.ltb_lt in E; lia|].
    rewrite Nat2Z.id. rewrite parse_entries_written_g by exact Hok.
    match goal with |- context [fold_left spec_step es ?a] => set (F := fold_left spec_step es a) end.
    try match goal with |- context [fold_left spec_step es ?a] => change (fold_left spec_step es a) with F end.
    destruct F as [[[h' e'] hl'] mx']. reflexivity.
  Qed.
End WrittenGeneric.

(* the decompressor holding plain bytes p after its window has been pulled from the wire *)
Definition zst (W : bytes) (O : Z) (C : list chunk) (I : Z) (p : bytes) : fstate :=
  {| wire := W; off := O; chunks := C; nexti := I; pend := p; zerr := false; zinit := true; lim := 0 |}.
Lemma zread_app W O C I x r : zread (blen x) (zst W O C I (x ++ r)) = ROk x (zst W O C I r).
Proof.
  unfold zread, blen. destruct x as [|y x]; [reflexivity|].
  destruct (Z.of_nat (length (y :: x)) <=? 0) eqn:E; [apply Z.leb_le in E; simpl length in E; lia|].
  cbn [zerr pend zst].
  assert (Hle : (Z.of_nat (length (y :: x)) <=? Z.of_nat (length ((y :: x) ++ r))) = true).
  { apply Z.leb_le. rewrite app_length. lia. }
  rewrite Hle. rewrite Nat2Z.id.
  rewrite firstn_app, Nat.sub_diag, firstn_all. simpl firstn. rewrite app_nil_r.
  rewrite skipn_app, Nat.sub_diag, skipn_all. reflexivity.
Qed.

(* SYN_REPLY written by the Framer and read by a fresh Framer whose inflater returns the block (oracle chunk 0) *)
Lemma syn_reply_roundtrip flags sid es rest :
  0 <= flags < 256 -> 0 < sid < 2^31 -> forallb ent_ok es = true -> (length es <= 1024)%nat ->
  blen (write_block es) + 4 < 2^24 ->
  let b := write_block es in
  let '(h', e', hl', mx') := fold_left spec_step es ([], 0, 0, 4) in
  e' = 0 -> has_invalid invalid_resp h' = false ->
  fst (read_frame (st_at (fst (write_frame (FReply flags sid es)) ++ rest) 0
                         [{| c_idx := 0; c_off := 12; c_size := blen b; c_plain := b |}]))
  = VL [VZ 2; VZ 3; VZ flags; VZ (blen b + 4); VZ sid; v_headers h'].
Proof.
  intros Hf Hs Hok Hn Hlen. cbv zeta.
  destruct (fold_left spec_step es ([], 0, 0, 4)) as [[[h' e'] hl'] mx'] eqn:EF. intros He Hinv. subst e'.
  set (b := write_block es) in *.
  assert (Hb4 : 4 <= blen b).
  { unfold b, write_block, blen. rewrite app_length. simpl length. lia. }
  unfold write_frame.
  assert (E1 : (sid =? 0) = false) by (apply Z.eqb_neq; lia). rewrite E1.
  fold b. cbv zeta.
  assert (E2 : (2^24 - 1 <? blen b + 4) = false) by (apply Z.ltb_ge; lia). rewrite E2.
  cbn [fst].
  assert (Hu1 : u32 (blen b + 4) = blen b + 4) by (unfold u32; apply Z.mod_small; change (2^32) with 4294967296; change (2^24) with 16777216 in *; lia).
  rewrite Hu1.
  destruct (lenword_exact flags (blen b + 4) Hf ltac:(lia)) as (Hw & Hw1 & Hw2).
  assert (Hwr : 0 <= lenword flags (blen b + 4) < 2^32).
  { rewrite Hw. change (2^24) with 16777216 in *. change (2^32) with 4294967296. lia. }
  unfold cf_header. change (be16 (Z.lor 32768 3)) with [128; 3]. change (be16 2) with [0; 2].
  unfold be32 at 1 2. cbn [app]. rewrite <- ?app_assoc. cbn [app]. unfold read_frame.
  rd4. change (dec32 [128; 3; 0; 2]) with 2147680258.
  rd4. rewrite dec32_cons by exact Hwr.
  cbv zeta. change (2147680258 <? 2 ^ 31) with false. cbv iota.
  change (2147680258 mod 2 ^ 16) with 2. cbn [Z.eqb Pos.eqb orb].
  change (2147680258 / 2 ^ 16 mod 2 ^ 15) with 3.
  rewrite Hw1, Hw2.
  assert (E3 : (blen b + 4 <? 4) = false) by (apply Z.ltb_ge; lia). rewrite E3.
  rd4. rewrite dec32_cons by (change (2^32) with (2 * 2^31); lia).
  rewrite (m31_small sid) by lia.
  replace (blen b + 4 - 4) with (blen b) by lia.
  assert (Hu2 : u32 (blen b) = blen b) by (unfold u32; apply Z.mod_small; change (2^32) with 4294967296; change (2^24) with 16777216 in *; lia).
  rewrite Hu2.
  (* uncork: the decompressor is created and pulls its window *)
  unfold read_header_part, uncork. cbn [zinit st_at].
  assert (E4 : (blen b =? 0) = false) by (apply Z.eqb_neq; lia). rewrite E4.
  unfold slurp. cbn [chunks off set_lim st_at find c_off c_idx c_size c_plain nexti lim wire pend zerr zinit].
  change (12 =? 0 + 4 + 4 + 4) with true. cbv iota.
  change (0 =? 0) with true. cbn [c_size c_plain c_idx c_off app andb]. rewrite Z.eqb_refl. cbn [andb].
  assert (E5 : (0 <? blen b) = true) by (apply Z.ltb_lt; lia). rewrite E5.
  assert (E6 : (blen b <=? blen (b ++ rest)) = true).
  { apply Z.leb_le. unfold blen. rewrite app_length. lia. }
  rewrite E6. cbn [andb app].
  assert (Hsk : skipn (Z.to_nat (blen b)) (b ++ rest) = rest).
  { unfold blen. rewrite Nat2Z.id, skipn_app, Nat.sub_diag, skipn_all. reflexivity. }
  rewrite Hsk. rewrite ?Z.eqb_refl. cbn [andb]. cbv iota beta.
  match goal with |- context [parse_block zread ?s] =>
    change s with (zst rest (0 + 4 + 4 + 4 + blen b) [{| c_idx := 0; c_off := 12; c_size := blen b; c_plain := b |}] (0 + 1) b) end.
  match goal with |- context [parse_block zread (zst ?W ?O ?C ?I b)] =>
    replace (parse_block zread (zst W O C I b)) with (parse_block zread (zst W O C I (write_block es ++ [])))
      by (rewrite app_nil_r; reflexivity);
    rewrite (parse_block_written_g zread (zst W O C I) (zread_app W O C I) es [] Hok Hn)
  end.
  rewrite EF. cbn [Z.eqb]. cbn [lim zst Z.eqb negb]. cbn [Z.eqb negb].
  cbn [Z.eqb Pos.eqb negb orb andb]. rewrite Hinv. cbn [negb andb]. rewrite E1. reflexivity.
Qed.
Lemma headers_roundtrip flags sid es rest :
  0 <= flags < 256 -> 0 < sid < 2^31 -> forallb ent_ok es = true -> (length es <= 1024)%nat ->
  blen (write_block es) + 4 < 2^24 ->
  let b := write_block es in
  let '(h', e', hl', mx') := fold_left spec_step es ([], 0, 0, 4) in
  e' = 0 -> has_invalid (if sid mod 2 =? 0 then invalid_req else invalid_resp) h' = false -> url_too_long h' = false ->
  fst (read_frame (st_at (fst (write_frame (FHeaders flags sid es)) ++ rest) 0
                         [{| c_idx := 0; c_off := 12; c_size := blen b; c_plain := b |}]))
  = VL [VZ 8; VZ 3; VZ flags; VZ (blen b + 4); VZ sid; v_headers h'].
Proof.
  intros Hf Hs Hok Hn Hlen. cbv zeta.
  destruct (fold_left spec_step es ([], 0, 0, 4)) as [[[h' e'] hl'] mx'] eqn:EF. intros He Hinv Hurl. subst e'.
  set (b := write_block es) in *.
  assert (Hb4 : 4 <= blen b).
  { unfold b, write_block, blen. rewrite app_length. simpl length. lia. }
  unfold write_frame.
  assert (E1 : (sid =? 0) = false) by (apply Z.eqb_neq; lia). rewrite E1.
  fold b. cbv zeta.
  assert (E2 : (2^24 - 1 <? blen b + 4) = false) by (apply Z.ltb_ge; lia). rewrite E2.
  cbn [fst].
  assert (Hu1 : u32 (blen b + 4) = blen b + 4) by (unfold u32; apply Z.mod_small; change (2^32) with 4294967296; change (2^24) with 16777216 in *; lia).
  rewrite Hu1.
  destruct (lenword_exact flags (blen b + 4) Hf ltac:(lia)) as (Hw & Hw1 & Hw2).
  assert (Hwr : 0 <= lenword flags (blen b + 4) < 2^32).
  { rewrite Hw. change (2^24) with 16777216 in *. change (2^32) with 4294967296. lia. }
  unfold cf_header. change (be16 (Z.lor 32768 3)) with [128; 3]. change (be16 8) with [0; 8].
  unfold be32 at 1 2. cbn [app]. rewrite <- ?app_assoc. cbn [app]. unfold read_frame.
  rd4. change (dec32 [128; 3; 0; 8]) with 2147680264.
  rd4. rewrite dec32_cons by exact Hwr.
  cbv zeta. change (2147680264 <? 2 ^ 31) with false. cbv iota.
  change (2147680264 mod 2 ^ 16) with 8. cbn [Z.eqb Pos.eqb orb].
  change (2147680264 / 2 ^ 16 mod 2 ^ 15) with 3.
  rewrite Hw1, Hw2.
  assert (E3 : (blen b + 4 <? 4) = false) by (apply Z.ltb_ge; lia). rewrite E3.
  rd4. rewrite dec32_cons by (change (2^32) with (2 * 2^31); lia).
  rewrite (m31_small sid) by lia.
  replace (blen b + 4 - 4) with (blen b) by lia.
  assert (Hu2 : u32 (blen b) = blen b) by (unfold u32; apply Z.mod_small; change (2^32) with 4294967296; change (2^24) with 16777216 in *; lia).
  rewrite Hu2.
  (* uncork: the decompressor is created and pulls its window *)
  unfold read_header_part, uncork. cbn [zinit st_at].
  assert (E4 : (blen b =? 0) = false) by (apply Z.eqb_neq; lia). rewrite E4.
  unfold slurp. cbn [chunks off set_lim st_at find c_off c_idx c_size c_plain nexti lim wire pend zerr zinit].
  change (12 =? 0 + 4 + 4 + 4) with true. cbv iota.
  change (0 =? 0) with true. cbn [c_size c_plain c_idx c_off app andb]. rewrite Z.eqb_refl. cbn [andb].
  assert (E5 : (0 <? blen b) = true) by (apply Z.ltb_lt; lia). rewrite E5.
  assert (E6 : (blen b <=? blen (b ++ rest)) = true).
  { apply Z.leb_le. unfold blen. rewrite app_length. lia. }
  rewrite E6. cbn [andb app].
  assert (Hsk : skipn (Z.to_nat (blen b)) (b ++ rest) = rest).
  { unfold blen. rewrite Nat2Z.id, skipn_app, Nat.sub_diag, skipn_all. reflexivity. }
  rewrite Hsk. rewrite ?Z.eqb_refl. cbn [andb]. cbv iota beta.
  match goal with |- context [parse_block zread ?s] =>
    change s with (zst rest (0 + 4 + 4 + 4 + blen b) [{| c_idx := 0; c_off := 12; c_size := blen b; c_plain := b |}] (0 + 1) b) end.
  match goal with |- context [parse_block zread (zst ?W ?O ?C ?I b)] =>
    replace (parse_block zread (zst W O C I b)) with (parse_block zread (zst W O C I (write_block es ++ [])))
      by (rewrite app_nil_r; reflexivity);
    rewrite (parse_block_written_g zread (zst W O C I) (zread_app W O C I) es [] Hok Hn)
  end.
  rewrite EF. cbn [Z.eqb]. cbn [lim zst Z.eqb negb]. cbn [Z.eqb negb].
  cbn [Z.eqb Pos.eqb negb orb andb]. cbv zeta. change (8 =? 1) with false. change (8 =? 2) with false. cbv iota.
  match goal with |- context [has_invalid ?x h'] => replace (has_invalid x h') with false by (symmetry; exact Hinv) end. cbn [negb andb]. rewrite Hurl. rewrite E1. reflexivity.
Qed.
Lemma rd_wire1 a w o cs : rd_wire 1 (st_at (a :: w) o cs) = ROk [a] (st_at w (o + 1) cs).
Proof.
  unfold rd_wire. cbn [Z.leb Z.compare Pos.compare wire st_at].
  assert (E : (1 <=? blen (a :: w)) = true) by (apply Z.leb_le; unfold blen; simpl length; lia).
  rewrite E. reflexivity.
Qed.
Lemma syn_stream_roundtrip flags sid assoc prio slot es rest :
  0 <= flags < 256 -> 0 < sid < 2^31 -> 0 <= assoc < 2^31 -> 0 <= prio < 8 -> 0 <= slot < 256 ->
  forallb ent_ok es = true -> (length es <= 1024)%nat ->
  blen (write_block es) + 10 < 2^24 ->
  let b := write_block es in
  let '(h', e', hl', mx') := fold_left spec_step es ([], 0, 0, 4) in
  e' = 0 -> has_invalid invalid_req h' = false -> url_too_long h' = false ->
  fst (read_frame (st_at (fst (write_frame (FSyn flags sid assoc prio slot es)) ++ rest) 0
                         [{| c_idx := 0; c_off := 18; c_size := blen b; c_plain := b |}]))
  = VL [VZ 1; VZ 3; VZ flags; VZ (blen b + 10); VZ sid; VZ assoc; VZ prio; VZ slot; v_headers h'].
Proof.
  intros Hf Hs Ha Hp Hsl Hok Hn Hlen. cbv zeta.
  destruct (fold_left spec_step es ([], 0, 0, 4)) as [[[h' e'] hl'] mx'] eqn:EF. intros He Hinv Hurl. subst e'.
  set (b := write_block es) in *.
  assert (Hb4 : 4 <= blen b).
  { unfold b, write_block, blen. rewrite app_length. simpl length. lia. }
  unfold write_frame.
  assert (E1 : (sid =? 0) = false) by (apply Z.eqb_neq; lia). rewrite E1.
  fold b. cbv zeta.
  assert (E2 : (2^24 - 1 <? blen b + 10) = false) by (apply Z.ltb_ge; lia). rewrite E2.
  cbn [fst].
  assert (Hu1 : u32 (blen b + 10) = blen b + 10) by (unfold u32; apply Z.mod_small; change (2^32) with 4294967296; change (2^24) with 16777216 in *; lia).
  rewrite Hu1.
  destruct (lenword_exact flags (blen b + 10) Hf ltac:(lia)) as (Hw & Hw1 & Hw2).
  assert (Hwr : 0 <= lenword flags (blen b + 10) < 2^32).
  { rewrite Hw. change (2^24) with 16777216 in *. change (2^32) with 4294967296. lia. }
  unfold cf_header. change (be16 (Z.lor 32768 3)) with [128; 3]. change (be16 1) with [0; 1].
  unfold be32 at 1 2 3. cbn [app]. rewrite <- ?app_assoc. cbn [app]. unfold read_frame.
  rd4. change (dec32 [128; 3; 0; 1]) with 2147680257.
  rd4. rewrite dec32_cons by exact Hwr.
  cbv zeta. change (2147680257 <? 2 ^ 31) with false. cbv iota.
  change (2147680257 mod 2 ^ 16) with 1. cbn [Z.eqb Pos.eqb orb].
  change (2147680257 / 2 ^ 16 mod 2 ^ 15) with 3.
  rewrite Hw1, Hw2.
  assert (E3 : (blen b + 10 <? 10) = false) by (apply Z.ltb_ge; lia). rewrite E3.
  rd4. rewrite dec32_cons by (change (2^32) with (2 * 2^31); lia).
  rd4. rewrite dec32_cons by (change (2^32) with (2 * 2^31); lia).
  rewrite rd_wire1. cbv beta iota. rewrite rd_wire1. cbv beta iota.
  rewrite (m31_small sid) by lia. rewrite (m31_small assoc) by lia.
  assert (Hpr : hd 0 [(prio * 32) mod 256] / 32 = prio).
  { cbn [hd]. rewrite Z.mod_small by lia. apply Z.div_mul. lia. }
  rewrite Hpr. cbn [hd].
  replace (blen b + 10 - 10) with (blen b) by lia.
  assert (Hu2 : u32 (blen b) = blen b) by (unfold u32; apply Z.mod_small; change (2^32) with 4294967296; change (2^24) with 16777216 in *; lia).
  rewrite Hu2.
  (* uncork: the decompressor is created and pulls its window *)
  unfold read_header_part, uncork. cbn [zinit st_at].
  assert (E4 : (blen b =? 0) = false) by (apply Z.eqb_neq; lia). rewrite E4.
  unfold slurp. cbn [chunks off set_lim st_at find c_off c_idx c_size c_plain nexti lim wire pend zerr zinit].
  change (18 =? 0 + 4 + 4 + 4 + 4 + 1 + 1) with true. cbv iota.
  change (0 =? 0) with true. cbn [c_size c_plain c_idx c_off app andb]. rewrite Z.eqb_refl. cbn [andb].
  assert (E5 : (0 <? blen b) = true) by (apply Z.ltb_lt; lia). rewrite E5.
  assert (E6 : (blen b <=? blen (b ++ rest)) = true).
  { apply Z.leb_le. unfold blen. rewrite app_length. lia. }
  rewrite E6. cbn [andb app].
  assert (Hsk : skipn (Z.to_nat (blen b)) (b ++ rest) = rest).
  { unfold blen. rewrite Nat2Z.id, skipn_app, Nat.sub_diag, skipn_all. reflexivity. }
  rewrite Hsk. rewrite ?Z.eqb_refl. cbn [andb]. cbv iota beta.
  match goal with |- context [parse_block zread ?s] =>
    change s with (zst rest (0 + 4 + 4 + 4 + 4 + 1 + 1 + blen b) [{| c_idx := 0; c_off := 18; c_size := blen b; c_plain := b |}] (0 + 1) b) end.
  match goal with |- context [parse_block zread (zst ?W ?O ?C ?I b)] =>
    replace (parse_block zread (zst W O C I b)) with (parse_block zread (zst W O C I (write_block es ++ [])))
      by (rewrite app_nil_r; reflexivity);
    rewrite (parse_block_written_g zread (zst W O C I) (zread_app W O C I) es [] Hok Hn)
  end.
  rewrite EF. cbn [Z.eqb]. cbn [lim zst Z.eqb negb]. cbn [Z.eqb negb].
  cbn [Z.eqb Pos.eqb negb orb andb]. rewrite Hinv. cbn [negb andb]. rewrite Hurl. rewrite E1. reflexivity.
Qed.
