(* The byte-trie Huffman decoder (transcription of huffmanDecode: 256-ary trie, cur/cbits/sbits) equals the RFC
   bit-level decoder on EVERY byte string.  Finite sweep over (trie node, next byte) lifted by induction on the input. *)
From Coq Require Import List ZArith Bool Lia ZifyBool ZifyNat.
From Bfe Require Import lib.Val lib.Bytes gen.HpackTables model.Huffman proofs.HuffmanProofs proofs.HuffmanTrieProofs.
Import ListNotations.
Open Scope Z_scope.

(* ---------------- bits of machine words ---------------- *)
Definition qb (cur c : Z) : list bool := bits_msb (Z.to_nat c) cur.

Lemma bits_msb_ext n v w : (forall i, 0 <= i < Z.of_nat n -> Z.testbit v i = Z.testbit w i) -> bits_msb n v = bits_msb n w.
Proof.
  induction n as [|n IH]; intros H; [reflexivity|]. cbn [bits_msb]. f_equal; [apply H; lia|apply IH; intros; apply H; lia].
Qed.
Lemma bits_msb_app n k v : bits_msb (n + k) v = bits_msb n (Z.shiftr v (Z.of_nat k)) ++ bits_msb k v.
Proof.
  induction n as [|n IH]; [reflexivity|]. cbn [Nat.add bits_msb app]. rewrite IH. f_equal.
  rewrite Z.shiftr_spec by lia. f_equal. lia.
Qed.
Lemma bits_msb_zero k v : (forall i, 0 <= i < Z.of_nat k -> Z.testbit v i = false) -> bits_msb k v = repeat false k.
Proof.
  induction k as [|k IH]; intros H; [reflexivity|]. cbn [bits_msb repeat]. f_equal; [apply H; lia|apply IH; intros; apply H; lia].
Qed.
Lemma land255 x : 0 <= Z.land x 255 < 256 /\ byte_bits (Z.land x 255) = bits_msb 8 x.
Proof.
  split.
  - change 255 with (Z.ones 8). rewrite Z.land_ones by lia. apply Z.mod_pos_bound. reflexivity.
  - unfold byte_bits. apply bits_msb_ext. intros i Hi. rewrite Z.land_spec.
    change 255 with (Z.ones 8). rewrite Z.ones_spec_low by lia. apply andb_true_r.
Qed.

(* A1/A2: the top 8 pending bits, and dropping k pending bits *)
Lemma qb_split cur c k : 0 <= k <= c -> qb cur c = bits_msb (Z.to_nat k) (Z.shiftr cur (c - k)) ++ qb cur (c - k).
Proof.
  intros H. unfold qb. replace (Z.to_nat c) with (Z.to_nat k + Z.to_nat (c - k))%nat by lia.
  rewrite bits_msb_app. do 3 f_equal. lia.
Qed.
Lemma idx_top cur c : 8 <= c ->
  let idx := Z.land (Z.shiftr cur (c - 8)) 255 in
  0 <= idx < 256 /\ qb cur c = byte_bits idx ++ qb cur (c - 8).
Proof.
  intros H idx. destruct (land255 (Z.shiftr cur (c - 8))) as [Hr Hb]. split; [exact Hr|].
  unfold idx. rewrite Hb. apply (qb_split cur c 8). lia.
Qed.
(* A3: a new input byte *)
Lemma qb_push cur c b : 0 <= c -> c + 8 <= 64 -> 0 <= b < 256 ->
  qb (Z.land (Z.lor (Z.shiftl cur 8) b) (Z.ones 64)) (c + 8) = qb cur c ++ byte_bits b.
Proof.
  intros Hc Hc8 Hb. unfold qb. replace (Z.to_nat (c + 8)) with (Z.to_nat c + 8)%nat by lia.
  rewrite bits_msb_app. f_equal.
  - apply bits_msb_ext. intros i Hi. rewrite Z.shiftr_spec by lia. rewrite Z.land_spec, Z.ones_spec_low by lia.
    rewrite andb_true_r, Z.lor_spec, Z.shiftl_spec by lia.
    replace (i + Z.of_nat 8 - 8) with i by lia.
    assert (Z.testbit b (i + Z.of_nat 8) = false) as ->; [|apply orb_false_r].
    destruct (Z.eq_dec b 0) as [->|Hnz]; [apply Z.testbit_0_l|].
    apply Z.bits_above_log2; [lia|]. assert (Z.log2 b < 8) by (apply Z.log2_lt_pow2; lia). lia.
  - unfold byte_bits. apply bits_msb_ext. intros i Hi. rewrite Z.land_spec, Z.ones_spec_low by lia.
    rewrite andb_true_r, Z.lor_spec, Z.shiftl_spec_low by lia. reflexivity.
Qed.
(* A4: the tail index pads the pending bits with zeros *)
Lemma idx_tail cur c : 0 < c < 8 ->
  let idx := Z.land (Z.shiftl cur (8 - c)) 255 in
  0 <= idx < 256 /\ byte_bits idx = qb cur c ++ repeat false (Z.to_nat (8 - c)).
Proof.
  intros H idx. destruct (land255 (Z.shiftl cur (8 - c))) as [Hr Hb]. split; [exact Hr|].
  unfold idx. rewrite Hb. unfold qb.
  replace 8%nat with (Z.to_nat c + Z.to_nat (8 - c))%nat by lia. rewrite bits_msb_app. f_equal.
  - apply bits_msb_ext. intros i Hi. rewrite Z.shiftr_spec by lia. rewrite Z.shiftl_spec by lia. f_equal. lia.
  - apply bits_msb_zero. intros i Hi. apply Z.shiftl_spec_low. lia.
Qed.
(* A5: the final mask test *)
Lemma mask_all_ones cur c : 0 <= c -> (Z.land cur (Z.ones c) =? Z.ones c) = forallb (fun b => b) (qb cur c).
Proof.
  intros Hc. unfold qb. destruct (forallb (fun b => b) (bits_msb (Z.to_nat c) cur)) eqn:E.
  - apply Z.eqb_eq. apply Z.bits_inj'. intros i Hi. rewrite Z.land_spec.
    destruct (Z.lt_ge_cases i c) as [Hlt|Hge].
    + rewrite Z.ones_spec_low by lia. rewrite andb_true_r.
      assert (forall n, forallb (fun b => b) (bits_msb n cur) = true -> forall j, 0 <= j < Z.of_nat n -> Z.testbit cur j = true) as Hall.
      { induction n as [|n IHn]; intros Hf j Hj; [lia|]. cbn [bits_msb forallb] in Hf. apply andb_true_iff in Hf.
        destruct Hf as [H1 H2]. destruct (Z.eq_dec j (Z.of_nat n)) as [->|Hne]; [exact H1|apply IHn; [exact H2|lia]]. }
      apply (Hall _ E). lia.
    + rewrite Z.ones_spec_high by lia. apply andb_false_r.
  - apply Z.eqb_neq. intros Heq.
    assert (forall n, Z.of_nat n <= c -> forallb (fun b => b) (bits_msb n cur) = true) as Hall.
    { induction n as [|n IHn]; intros Hn; [reflexivity|]. cbn [bits_msb forallb]. rewrite IHn by lia. rewrite andb_true_r.
      assert (Z.testbit (Z.land cur (Z.ones c)) (Z.of_nat n) = Z.testbit (Z.ones c) (Z.of_nat n)) as Ht by (rewrite Heq; reflexivity).
      rewrite Z.land_spec, Z.ones_spec_low in Ht by lia. rewrite andb_true_r in Ht. exact Ht. }
    rewrite Hall in E by lia. discriminate.
Qed.
Lemma qb_length cur c : length (qb cur c) = Z.to_nat c.
Proof. apply bits_msb_length. Qed.

(* ---------------- finite facts about the trie (vm_compute over 15 nodes x 256 bytes) ---------------- *)
Definition path_of (n : nat) : list bool :=
  match find (fun np : nat * list bool => Nat.eqb (fst np) n) node_paths with Some np => snd np | None => [] end.
Definition no_code_prefix (l : list bool) : bool :=
  forallb (fun cb : Z * list bool => negb (is_prefix_b (snd cb) l)) code_table.
Fixpoint lb_eqb (a b : list bool) : bool :=
  match a, b with
  | [], [] => true
  | x :: a', y :: b' => Bool.eqb x y && lb_eqb a' b'
  | _, _ => false
  end.
Lemma lb_eqb_eq a : forall b, lb_eqb a b = true -> a = b.
Proof.
  induction a as [|x a IH]; intros [|y b] H; try discriminate; [reflexivity|].
  simpl in H. apply andb_true_iff in H. destruct H as [H1 H2]. apply eqb_prop in H1. f_equal; auto.
Qed.
Definition child_ok (n : nat) (b : Z) : bool :=
  let p := path_of n in
  let w := byte_bits b in
  match get_child huff_trie n b with
  | Some (CLeaf sym k) =>
    (1 <=? k) && (k <=? 8) && (0 <=? sym) && (sym <? 256) && lb_eqb (code_bits sym) (p ++ firstn (Z.to_nat k) w)
  | Some (CNode m) => (m <? 15)%nat && lb_eqb (path_of m) (p ++ w) && no_code_prefix (p ++ w)
  | Some CNil => no_code_prefix (p ++ w) && negb (extends (p ++ w))
  | None => false
  end.
Lemma children_ok_true : forallb (fun n => forallb (child_ok n) symbols) (seq 0 15) = true.
Proof. vm_compute. reflexivity. Qed.
Lemma paths_long_true : forallb (fun n => (8 <=? length (path_of n))%nat) (seq 1 14) = true.
Proof. vm_compute. reflexivity. Qed.
Lemma path_root : path_of 0 = [].
Proof. vm_compute. reflexivity. Qed.
Lemma ones_not_nil_true :
  forallb (fun b => match get_child huff_trie 0 b with Some CNil => false | _ => true end) [128; 192; 224; 240; 248; 252; 254] = true.
Proof. vm_compute. reflexivity. Qed.

Lemma child_fact n b : (n < 15)%nat -> 0 <= b < 256 -> child_ok n b = true.
Proof.
  intros Hn Hb. pose proof (proj1 (forallb_forall _ _) children_ok_true n) as H. cbv beta in H.
  assert (In n (seq 0 15)) as Hin by (apply in_seq; lia). specialize (H Hin).
  apply (proj1 (forallb_forall _ _) H b). apply in_symbols. exact Hb.
Qed.
Lemma path_long n : (1 <= n < 15)%nat -> (8 <= length (path_of n))%nat.
Proof.
  intros Hn. pose proof (proj1 (forallb_forall _ _) paths_long_true n) as H. cbv beta in H.
  assert (In n (seq 1 14)) as Hin by (apply in_seq; lia). specialize (H Hin). apply Nat.leb_le in H. exact H.
Qed.

(* ---------------- the specification decoder without fuel bookkeeping ---------------- *)
Lemma is_prefix_b_trans_app c l l' : is_prefix_b c l = true -> is_prefix_b c (l ++ l') = true.
Proof. intros H. apply is_prefix_b_spec in H. destruct H as [r ->]. rewrite <- app_assoc. apply is_prefix_b_app. Qed.

Lemma sym_match_some_inv bits c : sym_match bits = Some c -> In c symbols /\ exists r, bits = code_bits c ++ r.
Proof.
  unfold sym_match. destruct (find _ code_table) as [[d bd]|] eqn:E; [|discriminate].
  intros H. inversion H; subst d. apply find_some in E. destruct E as [Hin Hp]. simpl in Hp.
  unfold code_table in Hin. apply in_map_iff in Hin. destruct Hin as [d' [Heq Hd]]. inversion Heq; subst d' bd.
  split; [exact Hd|]. apply is_prefix_b_spec. exact Hp.
Qed.
Lemma ncp_sym_none l : no_code_prefix l = true -> sym_match l = None.
Proof.
  intros H. unfold sym_match. destruct (find _ code_table) as [cb|] eqn:E; [|reflexivity].
  apply find_some in E. destruct E as [Hin Hp]. unfold no_code_prefix in H.
  pose proof (proj1 (forallb_forall _ _) H cb Hin) as Hn. cbv beta in Hn. rewrite Hp in Hn. discriminate.
Qed.
Lemma ncp_prefix l l' : no_code_prefix (l ++ l') = true -> no_code_prefix l = true.
Proof.
  unfold no_code_prefix. rewrite !forallb_forall. intros H cb Hin. specialize (H cb Hin).
  destruct (is_prefix_b (snd cb) l) eqn:E; [|reflexivity].
  rewrite (is_prefix_b_trans_app _ _ l' E) in H. discriminate.
Qed.
Lemma nil_none l rest : no_code_prefix l = true -> extends l = false -> sym_match (l ++ rest) = None.
Proof.
  intros Hn He. destruct (sym_match (l ++ rest)) as [c|] eqn:E; [|reflexivity]. exfalso.
  destruct (sym_match_some_inv _ _ E) as [Hc [r Hr]].
  assert (In (c, code_bits c) code_table) as Hin by (unfold code_table; apply in_map_iff; exists c; auto).
  destruct (prefix_both (code_bits c) l (l ++ rest)) as [H|H].
  - rewrite Hr. apply is_prefix_b_app.
  - apply is_prefix_b_app.
  - unfold no_code_prefix in Hn. pose proof (proj1 (forallb_forall _ _) Hn _ Hin) as Hx. cbv beta in Hx. simpl in Hx.
    rewrite H in Hx. discriminate.
  - unfold extends in He. assert (existsb (fun cb : Z * list bool => is_prefix_b l (snd cb)) code_table = true) as Hex.
    { apply existsb_exists. exists (c, code_bits c). split; [exact Hin|exact H]. }
    rewrite Hex in He. discriminate.
Qed.

Lemma bd_fuel : forall f1 f2 bits, (length bits <= f1)%nat -> (length bits <= f2)%nat ->
  bit_decode f1 bits = bit_decode f2 bits.
Proof.
  induction f1 as [|f1 IH]; intros f2 bits H1 H2.
  - destruct bits; [|simpl in H1; lia]. destruct f2; reflexivity.
  - destruct f2 as [|f2].
    + destruct bits; [reflexivity|simpl in H2; lia].
    + cbn [bit_decode]. destruct (is_padding bits); [reflexivity|].
      destruct (sym_match bits) as [c|] eqn:E; [|reflexivity].
      destruct (sym_match_some_inv _ _ E) as [Hc [r Hr]]. subst bits.
      rewrite (skipn_app_exact (code_bits c)) by (symmetry; apply code_bits_length).
      rewrite app_length, code_bits_length in H1, H2. pose proof (huff_len_bounds c Hc).
      rewrite (IH f2 r); [reflexivity|lia|lia].
Qed.
Definition bd (bits : list bool) : option bytes := bit_decode (length bits) bits.
Definition R (out : bytes) (bits : list bool) : hres :=
  match bd bits with Some s => HOk (rev out ++ s) | None => HErr end.

Lemma bd_pad bits : is_padding bits = true -> bd bits = Some [].
Proof. intros H. unfold bd. destruct (length bits); cbn [bit_decode]; rewrite H; reflexivity. Qed.
Lemma bd_none bits : is_padding bits = false -> sym_match bits = None -> bd bits = None.
Proof. intros H1 H2. unfold bd. destruct (length bits); cbn [bit_decode]; rewrite H1; [reflexivity|rewrite H2; reflexivity]. Qed.
Lemma bd_sym c rest : In c symbols -> bd (code_bits c ++ rest) = option_map (cons c) (bd rest).
Proof.
  intros Hc. unfold bd. pose proof (huff_len_bounds c Hc) as Hb.
  rewrite app_length, code_bits_length.
  destruct (Z.to_nat (len_of c) + length rest)%nat as [|f] eqn:Ef; [lia|].
  cbn [bit_decode]. rewrite (is_padding_code c rest Hc), (sym_match_code c rest Hc).
  rewrite (skipn_app_exact (code_bits c)) by (symmetry; apply code_bits_length).
  rewrite (bd_fuel f (length rest) rest); [reflexivity|lia|lia].
Qed.
Lemma R_sym out c rest : In c symbols -> R out (code_bits c ++ rest) = R (c :: out) rest.
Proof.
  intros Hc. unfold R. rewrite (bd_sym c rest Hc). destruct (bd rest); [|reflexivity].
  cbn [option_map rev]. rewrite <- app_assoc. reflexivity.
Qed.
Lemma R_none out bits : is_padding bits = false -> sym_match bits = None -> R out bits = HErr.
Proof. intros H1 H2. unfold R. rewrite (bd_none bits H1 H2). reflexivity. Qed.
Lemma is_padding_long bits : (8 <= length bits)%nat -> is_padding bits = false.
Proof. intros H. unfold is_padding. rewrite firstn_length_le by exact H. reflexivity. Qed.

(* ---------------- the main loop ---------------- *)
Definition inv (n : nat) (cbits sbits : Z) : Prop :=
  (n < 15)%nat /\ 0 <= cbits /\ sbits = Z.of_nat (length (path_of n)) + cbits.

Lemma inner_S f n cur cbits sbits out :
  hd_inner (S f) huff_trie n cur cbits sbits out =
  if cbits >=? 8 then
    match get_child huff_trie n (Z.land (Z.shiftr cur (cbits - 8)) 255) with
    | None => HStop HPanic
    | Some CNil => HStop HErr
    | Some (CLeaf sym len) => hd_inner f huff_trie O cur (cbits - len) (cbits - len) (sym :: out)
    | Some (CNode m) => hd_inner f huff_trie m cur (cbits - 8) sbits out
    end
  else HGo n cbits sbits out.
Proof. reflexivity. Qed.

Lemma byte_bits_length b : length (byte_bits b) = 8%nat.
Proof. apply bits_msb_length. Qed.

Lemma firstn_decomp {A} (a1 b1 a2 b2 : list A) k :
  a1 ++ b1 = a2 ++ b2 -> length a1 = k -> (k <= length a2)%nat -> a1 = firstn k a2.
Proof.
  intros H Hl Hk. assert (firstn k (a1 ++ b1) = firstn k (a2 ++ b2)) as Hf by (rewrite H; reflexivity).
  rewrite firstn_app, firstn_app in Hf. subst k. rewrite Nat.sub_diag, firstn_all in Hf. simpl in Hf.
  rewrite app_nil_r in Hf. replace (length a1 - length a2)%nat with O in Hf by lia. simpl in Hf.
  rewrite app_nil_r in Hf. exact Hf.
Qed.

Lemma inner_ok : forall fuel n cur cbits sbits out rest,
  inv n cbits sbits -> cbits < Z.of_nat fuel ->
  match hd_inner fuel huff_trie n cur cbits sbits out with
  | HGo n' cb sb out' =>
    inv n' cb sb /\ cb < 8 /\ R out (path_of n ++ qb cur cbits ++ rest) = R out' (path_of n' ++ qb cur cb ++ rest)
  | HStop x => x = R out (path_of n ++ qb cur cbits ++ rest)
  end.
Proof.
  induction fuel as [|f IH]; intros n cur cbits sbits out rest [Hn [Hc Hs]] Hf; [lia|].
  rewrite inner_S. destruct (cbits >=? 8) eqn:E8.
  2:{ split; [split; [exact Hn|split; [exact Hc|exact Hs]]|split; [lia|reflexivity]]. }
  destruct (idx_top cur cbits ltac:(lia)) as [Hidx Hq].
  set (idx := Z.land (Z.shiftr cur (cbits - 8)) 255) in *.
  pose proof (child_fact n idx Hn Hidx) as Hok. unfold child_ok in Hok.
  destruct (get_child huff_trie n idx) as [[|sym k|m]|]; [| | |discriminate].
  - (* nil *)
    apply andb_true_iff in Hok. destruct Hok as [Hncp Hext]. apply negb_true_iff in Hext.
    symmetry. rewrite Hq. apply R_none.
    + apply is_padding_long. rewrite !app_length, byte_bits_length. lia.
    + rewrite <- app_assoc. rewrite app_assoc. apply nil_none; assumption.
  - (* leaf *)
    apply andb_true_iff in Hok. destruct Hok as [Hok Hcode]. apply lb_eqb_eq in Hcode.
    assert (1 <= k <= 8 /\ 0 <= sym < 256) as [Hk Hsym] by lia.
    assert (In sym symbols) as Hin by (apply in_symbols; exact Hsym).
    pose proof (qb_split cur cbits k ltac:(lia)) as Hq2.
    assert (bits_msb (Z.to_nat k) (Z.shiftr cur (cbits - k)) = firstn (Z.to_nat k) (byte_bits idx)) as HA.
    { apply (firstn_decomp _ (qb cur (cbits - k)) _ (qb cur (cbits - 8))).
      - rewrite <- Hq2, <- Hq. reflexivity.
      - apply bits_msb_length.
      - rewrite byte_bits_length. lia. }
    assert (R out (path_of n ++ qb cur cbits ++ rest) = R (sym :: out) (path_of 0 ++ qb cur (cbits - k) ++ rest)) as HR.
    { rewrite Hq2, HA, path_root. cbn [app]. rewrite <- app_assoc, app_assoc, <- Hcode. apply R_sym. exact Hin. }
    specialize (IH O cur (cbits - k) (cbits - k) (sym :: out) rest).
    assert (inv 0 (cbits - k) (cbits - k)) as Hinv0.
    { split; [lia|split; [lia|]]. rewrite path_root. simpl. lia. }
    specialize (IH Hinv0 ltac:(lia)).
    destruct (hd_inner f huff_trie 0 cur (cbits - k) (cbits - k) (sym :: out)) as [n' cb sb out'|x].
    + destruct IH as [Hi [Hcb HR2]]. split; [exact Hi|split; [exact Hcb|]]. rewrite HR. exact HR2.
    + rewrite HR. exact IH.
  - (* internal node *)
    apply andb_true_iff in Hok. destruct Hok as [Hok _]. apply andb_true_iff in Hok. destruct Hok as [Hm Hpath].
    apply Nat.ltb_lt in Hm. apply lb_eqb_eq in Hpath.
    assert (R out (path_of n ++ qb cur cbits ++ rest) = R out (path_of m ++ qb cur (cbits - 8) ++ rest)) as HR.
    { rewrite Hq, Hpath. rewrite <- !app_assoc. reflexivity. }
    specialize (IH m cur (cbits - 8) sbits out rest).
    assert (inv m (cbits - 8) sbits) as Hinvm.
    { split; [exact Hm|split; [lia|]]. rewrite Hpath, app_length, byte_bits_length. lia. }
    specialize (IH Hinvm ltac:(lia)).
    destruct (hd_inner f huff_trie m cur (cbits - 8) sbits out) as [n' cb sb out'|x].
    + destruct IH as [Hi [Hcb HR2]]. split; [exact Hi|split; [exact Hcb|]]. rewrite HR. exact HR2.
    + rewrite HR. exact IH.
Qed.

(* ---------------- the tail ---------------- *)
Definition final (cur cbits sbits : Z) (out : bytes) : hres :=
  if sbits >? 7 then HErr
  else if Z.land cur (Z.ones cbits) =? Z.ones cbits then HOk (rev out) else HErr.
Definition tail_finish (fuel : nat) (n : nat) (cur cbits sbits : Z) (out : bytes) : hres :=
  match hd_tail fuel huff_trie n cur cbits sbits out with
  | HStop x => x
  | HGo _ cb sb out' => final cur cb sb out'
  end.
Lemma tail_S f n cur cbits sbits out :
  hd_tail (S f) huff_trie n cur cbits sbits out =
  if cbits >? 0 then
    match get_child huff_trie n (Z.land (Z.shiftl cur (8 - cbits)) 255) with
    | None => HStop HPanic
    | Some CNil => HStop HErr
    | Some (CNode _) => HGo n cbits sbits out
    | Some (CLeaf sym len) =>
      if len >? cbits then HGo n cbits sbits out
      else hd_tail f huff_trie O cur (cbits - len) (cbits - len) (sym :: out)
    end
  else HGo n cbits sbits out.
Proof. reflexivity. Qed.

Lemma paths_no_match_true : forallb (fun n => match sym_match (path_of n) with None => true | Some _ => false end) (seq 0 15) = true.
Proof. vm_compute. reflexivity. Qed.
Lemma path_no_match n : (n < 15)%nat -> sym_match (path_of n) = None.
Proof.
  intros Hn. pose proof (proj1 (forallb_forall _ _) paths_no_match_true n) as H. cbv beta in H.
  assert (In n (seq 0 15)) as Hin by (apply in_seq; lia). specialize (H Hin).
  destruct (sym_match (path_of n)); [discriminate|reflexivity].
Qed.
Lemma byteval_true : forallb (fun b => bits_val (byte_bits b) 0 =? b) symbols = true.
Proof. vm_compute. reflexivity. Qed.
Lemma byteval b : 0 <= b < 256 -> bits_val (byte_bits b) 0 = b.
Proof.
  intros Hb. pose proof (proj1 (forallb_forall _ _) byteval_true b) as H. cbv beta in H.
  apply Z.eqb_eq. apply H. apply in_symbols. exact Hb.
Qed.
Lemma all_true_repeat l : forallb (fun b : bool => b) l = true -> l = repeat true (length l).
Proof. induction l as [|x l IH]; [reflexivity|]. simpl. intros H. apply andb_true_iff in H. destruct H as [-> H]. f_equal. auto. Qed.

Lemma is_padding_inv bits : is_padding bits = true -> (length bits < 8)%nat /\ forallb (fun b => b) bits = true.
Proof.
  unfold is_padding. intros H. apply andb_true_iff in H. destruct H as [H1 H2]. split; [|exact H2].
  apply Nat.ltb_lt in H1. destruct (Nat.le_gt_cases 8 (length bits)) as [Hge|Hlt]; [|exact Hlt].
  rewrite firstn_length_le in H1 by exact Hge. lia.
Qed.

Lemma final_ok n cur cbits sbits out : inv n cbits sbits -> cbits < 8 ->
  sym_match (path_of n ++ qb cur cbits) = None ->
  final cur cbits sbits out = R out (path_of n ++ qb cur cbits).
Proof.
  intros [Hn [Hc Hs]] Hc8 Hsm. unfold final. destruct (sbits >? 7) eqn:E7.
  - symmetry. apply R_none; [|exact Hsm]. apply is_padding_long. rewrite app_length, qb_length. lia.
  - assert (n = O) as -> by (destruct n; [reflexivity|pose proof (path_long (S n) ltac:(lia)); lia]).
    rewrite path_root in *. cbn [app] in *. rewrite (mask_all_ones cur cbits Hc).
    destruct (forallb (fun b => b) (qb cur cbits)) eqn:Ea.
    + unfold R. rewrite bd_pad; [rewrite app_nil_r; reflexivity|].
      apply is_padding_ones; [rewrite qb_length; lia|exact Ea].
    + symmetry. apply R_none; [|exact Hsm]. unfold is_padding. rewrite Ea. apply andb_false_r.
Qed.

Lemma tail_ok : forall fuel n cur cbits sbits out,
  inv n cbits sbits -> cbits < 8 -> cbits < Z.of_nat fuel ->
  tail_finish fuel n cur cbits sbits out = R out (path_of n ++ qb cur cbits).
Proof.
  induction fuel as [|f IH]; intros n cur cbits sbits out Hinv Hc8 Hf; [destruct Hinv as [_ [? _]]; lia|].
  pose proof Hinv as [Hn [Hc Hs]].
  unfold tail_finish. rewrite tail_S. destruct (cbits >? 0) eqn:E0.
  2:{ assert (cbits = 0) as -> by lia. apply (final_ok n cur 0 sbits out Hinv ltac:(lia)).
      unfold qb. cbn [Z.to_nat bits_msb]. rewrite app_nil_r. apply path_no_match. exact Hn. }
  destruct (idx_tail cur cbits ltac:(lia)) as [Hidx Hw].
  set (idx := Z.land (Z.shiftl cur (8 - cbits)) 255) in *. clearbody idx.
  set (zs := repeat false (Z.to_nat (8 - cbits))) in *.
  pose proof (child_fact n idx Hn Hidx) as Hok. unfold child_ok in Hok. rewrite Hw in Hok.
  destruct (get_child huff_trie n idx) as [[|sym k|m]|] eqn:Eg; [| | |discriminate].
  - (* nil *)
    apply andb_true_iff in Hok. destruct Hok as [Hncp _].
    rewrite app_assoc in Hncp. apply ncp_prefix in Hncp.
    symmetry. apply R_none; [|apply ncp_sym_none; exact Hncp].
    destruct (is_padding (path_of n ++ qb cur cbits)) eqn:Ep; [|reflexivity]. exfalso.
    destruct (is_padding_inv _ Ep) as [Hl Ha]. rewrite app_length, qb_length in Hl.
    assert (n = O) as -> by (destruct n; [reflexivity|pose proof (path_long (S n) ltac:(lia)); lia]).
    rewrite path_root in Ha. cbn [app] in Ha. apply all_true_repeat in Ha. rewrite qb_length in Ha.
    pose proof (byteval idx Hidx) as Hbv. rewrite Hw, Ha in Hbv. unfold zs in Hbv.
    pose proof ones_not_nil_true as Hnn.
    assert (cbits = 1 \/ cbits = 2 \/ cbits = 3 \/ cbits = 4 \/ cbits = 5 \/ cbits = 6 \/ cbits = 7) as Hcases by lia.
    destruct Hcases as [->|[->|[->|[->|[->|[->| ->]]]]]]; vm_compute in Hbv; rewrite <- Hbv in Eg;
      cbn [forallb] in Hnn; rewrite Eg in Hnn; repeat rewrite ?andb_false_r, ?andb_false_l in Hnn; discriminate Hnn.
  - (* leaf *)
    apply andb_true_iff in Hok. destruct Hok as [Hok Hcode]. apply lb_eqb_eq in Hcode.
    assert (1 <= k <= 8 /\ 0 <= sym < 256) as [Hk Hsym] by lia.
    assert (In sym symbols) as Hin by (apply in_symbols; exact Hsym).
    destruct (k >? cbits) eqn:Ek.
    + (* the symbol needs more bits than are left: break *)
      apply (final_ok n cur cbits sbits out Hinv Hc8).
      destruct (sym_match (path_of n ++ qb cur cbits)) as [c|] eqn:Esm; [|reflexivity]. exfalso.
      destruct (sym_match_some_inv _ _ Esm) as [Hcin [r Hr]].
      assert (is_prefix_b (code_bits c) (code_bits sym) = true) as Hpre.
      { rewrite Hcode. rewrite firstn_app, qb_length.
        rewrite firstn_all2 by (rewrite qb_length; lia). rewrite app_assoc, Hr, <- app_assoc. apply is_prefix_b_app. }
      pose proof (huff_prefix_free c sym Hcin Hin Hpre) as ->.
      assert (length (code_bits sym) = (length (path_of n) + Z.to_nat k)%nat) as Hlen.
      { rewrite Hcode, app_length, firstn_length, app_length, qb_length. unfold zs. rewrite repeat_length. lia. }
      assert (length (path_of n ++ qb cur cbits) = (length (code_bits sym) + length r)%nat) as Hlen2
        by (rewrite Hr, app_length; reflexivity).
      rewrite app_length, qb_length in Hlen2. lia.
    + (* emit the symbol *)
      pose proof (qb_split cur cbits k ltac:(lia)) as Hq2.
      assert (firstn (Z.to_nat k) (qb cur cbits ++ zs) = bits_msb (Z.to_nat k) (Z.shiftr cur (cbits - k))) as HA.
      { rewrite firstn_app, qb_length. replace (Z.to_nat k - Z.to_nat cbits)%nat with O by lia. simpl.
        rewrite app_nil_r, Hq2. rewrite firstn_app, bits_msb_length, Nat.sub_diag, firstn_all2 by (rewrite bits_msb_length; lia).
        simpl. apply app_nil_r. }
      assert (R out (path_of n ++ qb cur cbits) = R (sym :: out) (path_of 0 ++ qb cur (cbits - k))) as HR.
      { rewrite Hq2, path_root. cbn [app]. rewrite app_assoc, <- HA, <- Hcode. apply R_sym. exact Hin. }
      rewrite HR. apply (IH O cur (cbits - k) (cbits - k) (sym :: out)); [|lia|lia].
      split; [lia|split; [lia|]]. rewrite path_root. simpl. lia.
  - (* internal node: break *)
    apply andb_true_iff in Hok. destruct Hok as [_ Hncp].
    rewrite app_assoc in Hncp. apply ncp_prefix in Hncp.
    apply (final_ok n cur cbits sbits out Hinv Hc8). apply ncp_sym_none. exact Hncp.
Qed.

(* ---------------- all input bytes ---------------- *)
Definition finish (r : hstep * Z) : hres :=
  match r with
  | (HStop x, _) => x
  | (HGo n cbits sbits out, cur) => tail_finish 9 n cur cbits sbits out
  end.
Lemma huff_decode_finish v : huff_decode v = finish (hd_bytes huff_trie v O 0 0 0 []).
Proof.
  unfold huff_decode, huff_decode_with, finish, tail_finish, final.
  destruct (hd_bytes huff_trie v 0 0 0 0 []) as [[n cbits sbits out|x] cur]; reflexivity.
Qed.
Lemma bytes_S b r n cur cbits sbits out :
  hd_bytes huff_trie (b :: r) n cur cbits sbits out =
  match hd_inner 16 huff_trie n (Z.land (Z.lor (Z.shiftl cur 8) b) (Z.ones 64)) (cbits + 8) (sbits + 8) out with
  | HGo n' cb sb out' => hd_bytes huff_trie r n' (Z.land (Z.lor (Z.shiftl cur 8) b) (Z.ones 64)) cb sb out'
  | HStop x => (HStop x, Z.land (Z.lor (Z.shiftl cur 8) b) (Z.ones 64))
  end.
Proof. reflexivity. Qed.

Lemma bytes_ok : forall v n cur cbits sbits out,
  wf_bytes v = true -> inv n cbits sbits -> cbits < 8 ->
  finish (hd_bytes huff_trie v n cur cbits sbits out) = R out (path_of n ++ qb cur cbits ++ bytes_bits v).
Proof.
  induction v as [|b r IH]; intros n cur cbits sbits out Hw Hinv Hc8.
  - cbn [hd_bytes finish bytes_bits flat_map]. rewrite app_nil_r.
    apply tail_ok; [exact Hinv|exact Hc8|]. simpl. lia.
  - cbn [wf_bytes forallb] in Hw. apply andb_true_iff in Hw. destruct Hw as [Hb Hw]. unfold wf_byte in Hb.
    pose proof Hinv as [Hn [Hc Hs]].
    rewrite bytes_S. set (cur' := Z.land (Z.lor (Z.shiftl cur 8) b) (Z.ones 64)).
    assert (inv n (cbits + 8) (sbits + 8)) as Hinv' by (split; [exact Hn|split; lia]).
    pose proof (inner_ok 16 n cur' (cbits + 8) (sbits + 8) out (bytes_bits r) Hinv' ltac:(simpl; lia)) as Hi.
    assert (qb cur' (cbits + 8) = qb cur cbits ++ byte_bits b) as Hq by (apply qb_push; lia).
    rewrite Hq in Hi. cbn [bytes_bits flat_map]. fold (bytes_bits r).
    replace (path_of n ++ qb cur cbits ++ byte_bits b ++ bytes_bits r)
      with (path_of n ++ (qb cur cbits ++ byte_bits b) ++ bytes_bits r) by (rewrite <- !app_assoc; reflexivity).
    destruct (hd_inner 16 huff_trie n cur' (cbits + 8) (sbits + 8) out) as [n' cb sb out'|x].
    + destruct Hi as [Hinv2 [Hcb HR]]. rewrite HR. apply IH; assumption.
    + cbn [finish]. exact Hi.
Qed.

(* THE EQUIVALENCE: for every byte string the trie decoder and the RFC bit-level decoder give the same result
   (a decoded string or an error; never a panic, never fuel exhaustion). *)
Theorem huff_decode_eq_spec : forall v, wf_bytes v = true -> huff_decode v = huff_decode_spec v.
Proof.
  intros v Hw. rewrite huff_decode_finish.
  assert (inv 0 0 0) as Hinv by (split; [lia|split; [lia|rewrite path_root; reflexivity]]).
  rewrite (bytes_ok v O 0 0 0 [] Hw Hinv ltac:(lia)). rewrite path_root.
  unfold qb. cbn [Z.to_nat bits_msb app]. unfold R, bd, huff_decode_spec, rfc_huff_decode.
  rewrite (bd_fuel (length (bytes_bits v)) (S (length v * 8)) (bytes_bits v)); [reflexivity|lia|].
  assert (length (bytes_bits v) = (length v * 8)%nat) as ->; [|lia].
  clear. induction v as [|b l IH]; [reflexivity|]. cbn [bytes_bits flat_map]. rewrite app_length. fold (bytes_bits l).
  rewrite IH, byte_bits_length. simpl. lia.
Qed.
