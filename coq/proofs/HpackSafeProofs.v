(* The decoder model never reaches a panic site, for any emit budget and string limit (table invariant). *)
From Coq Require Import List ZArith Bool Lia ZifyBool ZifyNat.
From Bfe Require Import lib.Val lib.Bytes gen.HpackTables model.Huffman model.Hpack
  proofs.HuffmanProofs proofs.HpackProofs proofs.HpackRfcProofs proofs.HpackIncrProofs.
Import ListNotations.
Open Scope Z_scope.

Section Safe.
Variable hd : bytes -> hres.
Hypothesis Hnp : forall v, hd v <> HPanic.
Variable M : Z.

Definition safe_str (r : rd bytes) : Prop :=
  match r with ROk _ rest => wf_bytes rest = true | RPanic => False | RErr c => 0 < c | RNeedMore => True end.
Lemma varint_loop_err_pos : forall p i m c, varint_loop p i m = RErr c -> c = E_VARINT.
Proof.
  induction p as [|x r IH]; intros i m c H; [discriminate|].
  cbn [varint_loop] in H. destruct (x <? 128); [discriminate|]. destruct (m + 7 >=? 63); [inversion H; reflexivity|].
  eapply IH. exact H.
Qed.
Lemma varint_err_pos n p c : read_varint n p = RErr c -> 0 < c.
Proof.
  destruct p as [|b p0]; [discriminate|]. cbn [read_varint]. destruct (b mod 2 ^ n <? 2 ^ n - 1); [discriminate|].
  intros H. apply varint_loop_err_pos in H. subst c. reflexivity.
Qed.
Lemma rv_np n p : read_varint n p <> RPanic.
Proof.
  destruct p as [|b p0]; [discriminate|]. cbn [read_varint]. destruct (b mod 2 ^ n <? 2 ^ n - 1); [discriminate|].
  pose proof (varint_loop_mono p0 (b mod 2 ^ n) 0 []) as H. destruct (varint_loop p0 (b mod 2 ^ n) 0); try discriminate.
  contradiction.
Qed.
Lemma rs_safe want p : wf_bytes p = true -> safe_str (read_string_w hd M want p).
Proof.
  intros Hw. destruct p as [|b0 p0]; [destruct want; exact I|].
  assert (forall len r, read_varint 7 (b0 :: p0) = ROk len r -> wf_bytes r = true) as Hv.
  { intros len r E. apply (read_varint_wf 7 _ _ _ ltac:(lia) Hw E). }
  unfold read_string_w, read_string_lim. destruct want.
  - destruct (read_varint 7 (b0 :: p0)) as [len r| |c|] eqn:E; cbn [safe_str]; auto.
    + destruct (too_long M len); [reflexivity|]. destruct (blen r <? len); [exact I|].
      destruct (128 <=? b0); [|apply wf_bytes_skipn; eapply Hv; reflexivity].
      pose proof (Hnp (firstn (Z.to_nat len) r)) as Hp.
      destruct (hd (firstn (Z.to_nat len) r)) as [s| | |]; cbn [safe_str].
      * destruct (too_long M (blen s)); [reflexivity|]. apply wf_bytes_skipn. eapply Hv. reflexivity.
      * reflexivity.
      * apply Hp. reflexivity.
      * reflexivity.
    + eapply varint_err_pos. exact E.
    + exact (rv_np _ _ E).
  - destruct (read_varint 7 (b0 :: p0)) as [len r| |c|] eqn:E; cbn [safe_str]; auto.
    + destruct (too_long M len); [reflexivity|]. destruct (blen r <? len); [exact I|].
      apply wf_bytes_skipn. eapply Hv. reflexivity.
    + eapply varint_err_pos. exact E.
    + exact (rv_np _ _ E).
Qed.

Definition safe_repr (r : rd (dyntab * option field)) : Prop :=
  match r with
  | ROk (d', _) rest => tab_ok d' /\ wf_bytes rest = true
  | RPanic => False
  | RErr c => 0 < c
  | RNeedMore => True
  end.

Lemma indexed_safe d p : tab_ok d -> wf_bytes p = true -> safe_repr (parse_indexed d p).
Proof.
  intros Hok Hw. unfold parse_indexed. destruct (read_varint 7 p) as [idx r| |c|] eqn:E; cbn [safe_repr]; auto.
  - destruct (dec_at d idx) as [[n v]|]; cbn [safe_repr]; [|reflexivity].
    split; [exact Hok|apply (read_varint_wf 7 _ _ _ ltac:(lia) Hw E)].
  - eapply varint_err_pos. exact E.
  - exact (rv_np _ _ E).
Qed.
Lemma literal_safe emit d n it p : 0 <= n -> tab_ok d -> wf_bytes p = true -> safe_repr (parse_literal_e hd M emit d n it p).
Proof.
  intros Hn Hok Hw. unfold parse_literal_e.
  destruct (read_varint n p) as [idx r| |c|] eqn:E; cbn [safe_repr]; auto.
  2:{ eapply varint_err_pos. exact E. }
  2:{ exact (rv_np _ _ E). }
  destruct (read_varint_wf n _ _ _ Hn Hw E) as [Hwr _].
  assert (safe_str (if idx >? 0 then match dec_at d idx with Some (nm, _) => ROk nm r | None => RErr E_INDEX end
                    else read_string_w hd M (emit || (it =? 0)) r)) as Hs.
  { destruct (idx >? 0); [|apply rs_safe; exact Hwr].
    destruct (dec_at d idx) as [[nm x]|]; cbn [safe_str]; [exact Hwr|reflexivity]. }
  destruct (if idx >? 0 then match dec_at d idx with Some (nm, _) => ROk nm r | None => RErr E_INDEX end
            else read_string_w hd M (emit || (it =? 0)) r) as [nm r1| |c1|]; cbn [safe_str safe_repr] in *; auto.
  pose proof (rs_safe (emit || (it =? 0)) r1 Hs) as Hs2.
  destruct (read_string_w hd M (emit || (it =? 0)) r1) as [v r2| |c2|]; cbn [safe_str safe_repr] in *; auto.
  destruct (it =? 0).
  - rewrite (dt_add_ok d _ Hok). cbn [safe_repr]. split; [apply tab_ok_add; exact Hok|exact Hs2].
  - cbn [safe_repr]. split; [exact Hok|exact Hs2].
Qed.
Lemma size_update_safe first d p : tab_ok d -> wf_bytes p = true -> safe_repr (parse_size_update first d p).
Proof.
  intros Hok Hw. unfold parse_size_update. destruct (negb first); [reflexivity|].
  destruct (read_varint 5 p) as [v r| |c|] eqn:E; cbn [safe_repr]; auto.
  - destruct (read_varint_wf 5 _ _ _ ltac:(lia) Hw E) as [Hwr Hv].
    destruct (v >? dallowed d); [reflexivity|].
    rewrite (dt_set_max_ok d v Hok Hv). cbn [safe_repr]. split; [apply tab_ok_set_max; exact Hv|exact Hwr].
  - eapply varint_err_pos. exact E.
  - exact (rv_np _ _ E).
Qed.
Lemma repr_e_safe emit first d p : tab_ok d -> wf_bytes p = true -> safe_repr (parse_repr_e hd M emit first d p).
Proof.
  intros Hok Hw. destruct p as [|b p0]; [exact I|]. unfold parse_repr_e.
  destruct (128 <=? b); [apply indexed_safe; assumption|].
  destruct (64 <=? b); [apply literal_safe; [lia|assumption|assumption]|].
  destruct (b <? 16); [apply literal_safe; [lia|assumption|assumption]|].
  destruct (b <? 32); [apply literal_safe; [lia|assumption|assumption]|].
  apply size_update_safe; assumption.
Qed.

Definition safe_state (d : dec) : Prop := tab_ok (ddt d) /\ wf_bytes (dsave d) = true.
Lemma loop_e_safe : forall fuel b first d buf acc, tab_ok d -> wf_bytes buf = true ->
  let '(dd, _, _, st) := parse_loop_e hd M fuel b first d buf acc in safe_state dd /\ st <> ST_PANIC.
Proof.
  induction fuel as [|f IH]; intros b first d buf acc Hok Hw; destruct buf as [|x0 p0]; cbn [parse_loop_e].
  - split; [split; [exact Hok|reflexivity]|discriminate].
  - split; [split; [exact Hok|reflexivity]|discriminate].
  - split; [split; [exact Hok|reflexivity]|discriminate].
  - pose proof (repr_e_safe (negb (b =? 0)) first d (x0 :: p0) Hok Hw) as Hs.
    destruct (parse_repr_e hd M (negb (b =? 0)) first d (x0 :: p0)) as [[d' o] rest| |c|]; cbn [safe_repr] in Hs.
    + destruct Hs as [Hok' Hw']. destruct o as [x|]; [|apply IH; assumption].
      destruct (too_long M (blen (fname x)) || too_long M (blen (fvalue x))).
      * split; [split; [exact Hok'|reflexivity]|discriminate].
      * destruct (b =? 0); apply IH; assumption.
    + destruct (negb (M =? 0) && (blen (x0 :: p0) >? 2 * (M + 8))).
      * split; [split; [exact Hok|reflexivity]|discriminate].
      * split; [split; [exact Hok|exact Hw]|discriminate].
    + split; [split; [exact Hok|reflexivity]|unfold ST_PANIC; lia].
    + contradiction.
Qed.
Lemma wf_bytes_app a b : wf_bytes a = true -> wf_bytes b = true -> wf_bytes (a ++ b) = true.
Proof. unfold wf_bytes. intros Ha Hb. rewrite forallb_app, Ha, Hb. reflexivity. Qed.
Lemma run_e_safe : forall chunks d b acc, safe_state d -> forallb wf_bytes chunks = true ->
  let '(dd, _, st) := dec_run_e hd M d b chunks acc in st <> ST_PANIC.
Proof.
  induction chunks as [|c r IH]; intros d b acc [Hok Hsv] Hw.
  - cbn [dec_run_e]. unfold dec_close. destruct (dsave d); discriminate.
  - cbn [forallb] in Hw. apply andb_true_iff in Hw. destruct Hw as [Hc Hr]. cbn [dec_run_e].
    unfold dec_write_e. destruct c as [|x0 c0].
    + change (0 =? 0) with true. cbv iota. apply IH; [split; assumption|exact Hr].
    + pose proof (loop_e_safe (S (length (dsave d ++ x0 :: c0))) b (dfirst d) (ddt d) (dsave d ++ x0 :: c0) [] Hok
                    (wf_bytes_app _ _ Hsv Hc)) as Hl.
      destruct (parse_loop_e hd M (S (length (dsave d ++ x0 :: c0))) b (dfirst d) (ddt d) (dsave d ++ x0 :: c0) []) as [[[dd b'] a] st].
      destruct Hl as [Hss Hst]. destruct (st =? 0); [apply IH; assumption|exact Hst].
Qed.
End Safe.
