(* C03 proofs: every outcome of the modelled BalanceGslb.Balance satisfies the eligibility specification
   spec_balance, for every random index of randomSelectExclude, every retry count, hash and mode. *)
From Coq Require Import List ZArith Lia Bool Arith Permutation.
From Bfe Require Import lib.Val lib.ValProofs model.Swrr model.Wlc model.Sticky model.Gslb
     proofs.SwrrProofs proofs.WlcProofs proofs.StickyProofs.
Import ListNotations.
Open Scope Z_scope.

(* ---------------------------------------------------------------- projections to the credit-free view *)
Definition pj_s (s : gsub) : psub := (s_name s, s_w s, map pj_b (s_bs s)).
Definition pj (subs : list gsub) : list psub := map pj_s subs.

Lemma pb_elig_pj b : pb_elig (pj_b b) = wb_elig b.
Proof. destruct b as [[[[i w] c] a] n]. reflexivity. Qed.

Lemma elig_in_iff bs p : elig_in (map pj_b bs) p = true <-> exists b, In b bs /\ wb_elig b = true /\ wb_id b = p.
Proof.
  unfold elig_in. rewrite existsb_exists. split.
  - intros [x [Hx Hp]]. apply in_map_iff in Hx. destruct Hx as [b [E Hb]]. subst x.
    apply andb_true_iff in Hp. destruct Hp as [H1 H2]. rewrite pb_elig_pj in H1. apply Z.eqb_eq in H2.
    exists b. repeat split; assumption.
  - intros [b [Hb [He Hi]]]. exists (pj_b b). split; [apply in_map; exact Hb|].
    rewrite pb_elig_pj, He. simpl. apply Z.eqb_eq. exact Hi.
Qed.
Lemma has_elig_false bs : has_elig (map pj_b bs) = false <-> filter wb_elig bs = [].
Proof.
  unfold has_elig. induction bs as [|b r IH]; simpl; [tauto|]. rewrite pb_elig_pj.
  destruct (wb_elig b); simpl; [split; discriminate|exact IH].
Qed.
Lemma has_elig_true bs : has_elig (map pj_b bs) = true <-> filter wb_elig bs <> [].
Proof.
  destruct (has_elig (map pj_b bs)) eqn:E.
  - split; [|reflexivity]. intros _ H. apply has_elig_false in H. congruence.
  - apply has_elig_false in E. split; [discriminate|congruence].
Qed.

(* ---------------------------------------------------------------- sticky *)
Lemma walk_in : forall ts v k, walk ts v = Some k -> In k (map fst ts).
Proof.
  induction ts as [|[k0 w] r IH]; intros v k H; simpl in *; [discriminate|].
  destruct (v - w <? 0); [inversion H; left; reflexivity|right; eapply IH; exact H].
Qed.
Lemma owner_in : forall ts lo v k, owner ts lo v = Some k -> In k (map fst ts).
Proof.
  induction ts as [|[k0 w] r IH]; intros lo v k H; simpl in *; [discriminate|].
  destruct ((lo <=? v) && (v <? lo + w)); [inversion H; left; reflexivity|right; eapply IH; exact H].
Qed.

Definition st_of (b : wb) : target := ([wb_id b], wb_w b, b_av (fst b)).
Definition st_f (t : target) : bool := t_av t && (0 <? t_w t).
Lemma st_f_of b : st_f (st_of b) = wb_elig b.
Proof. destruct b as [[[[i w] c] a] n]. reflexivity. Qed.

Lemma sorted_filter_in bs t : In t (filter st_f (sort_targets (map st_of bs))) <->
  exists b, In b bs /\ wb_elig b = true /\ t = st_of b.
Proof.
  rewrite filter_In. split.
  - intros [Hin Hf]. apply (Permutation_in _ (sort_perm _)) in Hin. apply in_map_iff in Hin.
    destruct Hin as [b [E Hb]]. subst t. exists b. rewrite st_f_of in Hf. tauto.
  - intros [b [Hb [He E]]]. subst t. split; [|rewrite st_f_of; exact He].
    apply (Permutation_in _ (Permutation_sym (sort_perm _))). apply in_map. exact Hb.
Qed.

Lemma gsticky_eq bs h : gsticky bs h =
  match map (fun t => (t_key t, t_w t)) (filter st_f (sort_targets (map st_of bs))) with
  | [] => None
  | c :: r => match walk (c :: r) (h mod Sticky.sumw (c :: r)) with Some [i] => Some i | _ => None end
  end.
Proof. reflexivity. Qed.

Theorem gsticky_some bs h p : gsticky bs h = Some p -> exists b, In b bs /\ wb_elig b = true /\ wb_id b = p.
Proof.
  rewrite gsticky_eq.
  set (el := filter st_f (sort_targets (map st_of bs))).
  destruct (map (fun t => (t_key t, t_w t)) el) as [|c r] eqn:E; [discriminate|].
  destruct (walk (c :: r) (h mod Sticky.sumw (c :: r))) as [k|] eqn:Ew; [|discriminate].
  destruct k as [|i [|j k']]; try discriminate. intros H; inversion H; subst i.
  apply walk_in in Ew. rewrite <- E, map_map in Ew. simpl in Ew. apply in_map_iff in Ew.
  destruct Ew as [t [Ek Ht]]. apply sorted_filter_in in Ht. destruct Ht as [b [Hb [He Et]]]. subst t.
  unfold st_of, t_key in Ek. simpl in Ek. inversion Ek. exists b. tauto.
Qed.

Theorem gsticky_none bs h : gsticky bs h = None <-> filter wb_elig bs = [].
Proof.
  rewrite gsticky_eq.
  set (el := filter st_f (sort_targets (map st_of bs))).
  split.
  - intros H. destruct el as [|t r] eqn:E.
    + destruct (filter wb_elig bs) as [|b r'] eqn:Ef; [reflexivity|]. exfalso.
      assert (Hb : In b (filter wb_elig bs)) by (rewrite Ef; left; reflexivity). apply filter_In in Hb.
      assert (Hin : In (st_of b) el) by (apply sorted_filter_in; exists b; tauto). rewrite E in Hin. exact Hin.
    + exfalso. set (cs := map (fun t => (t_key t, t_w t)) (t :: r)) in *.
      assert (Hpos : Forall (fun c => 0 < snd c) cs).
      { apply Forall_forall. intros [k w] Hc. apply in_map_iff in Hc. destruct Hc as [u [Eu Hu]]. inversion Eu; subst.
        rewrite <- E in Hu. apply filter_In in Hu. destruct Hu as [_ Hf]. apply andb_true_iff in Hf. destruct Hf as [_ Hf].
        apply Z.ltb_lt in Hf. exact Hf. }
      assert (Hne : cs <> []) by discriminate.
      pose proof (sumw_pos cs Hne Hpos) as HW. pose proof (Z.mod_pos_bound h _ HW) as Hb.
      destruct (walk_interval cs (h mod Sticky.sumw cs) Hpos Hb) as [i [k [w [Hn [Hwk _]]]]].
      assert (Hk : In k (map fst cs)) by (eapply walk_in; exact Hwk).
      unfold cs in Hk. rewrite map_map in Hk. apply in_map_iff in Hk. destruct Hk as [u [Eu Hu]]. simpl in Eu.
      rewrite <- E in Hu. apply sorted_filter_in in Hu. destruct Hu as [b [_ [_ Et]]]. subst u.
      unfold st_of, t_key in Eu. simpl in Eu. subst k.
      change (map (fun t => (t_key t, t_w t)) (t :: r)) with cs in H.
      destruct cs as [|c0 cr]; [congruence|]. rewrite Hwk in H. discriminate.
  - intros H. assert (E : el = []).
    { destruct el as [|t r] eqn:E; [reflexivity|]. exfalso.
      assert (Ht : In t el) by (rewrite E; left; reflexivity). apply sorted_filter_in in Ht.
      destruct Ht as [b [Hb [He _]]]. assert (Hf : In b (filter wb_elig bs)) by (apply filter_In; tauto).
      rewrite H in Hf. exact Hf. }
    rewrite E. reflexivity.
Qed.

(* ---------------------------------------------------------------- SubCluster.balance *)
Lemma combine_pj : forall bs upd, map bcfg upd = map bcfg (map fst bs) ->
  map pj_b (combine upd (map snd bs)) = map pj_b bs.
Proof.
  induction bs as [|[b n] r IH]; intros [|u upd] H; simpl in *; try discriminate; [reflexivity|].
  assert (H1 : bcfg u = bcfg b) by congruence. assert (H2 : map bcfg upd = map bcfg (map fst r)) by congruence.
  f_equal; [|apply IH; exact H2].
  unfold pj_b, wb_id, wb_w. simpl. unfold bcfg in H1. inversion H1. congruence.
Qed.
Lemma filter_elig_fst bs : filter elig (map fst bs) = map fst (filter wb_elig bs).
Proof. induction bs as [|b r IH]; simpl; [reflexivity|]. unfold wb_elig at 1. destruct (elig (fst b)); simpl; rewrite IH; reflexivity. Qed.

Theorem sub_balance_some m bs h p bs' : sub_balance m bs h = Some (p, bs') ->
  elig_in (map pj_b bs) p = true /\ map pj_b bs' = map pj_b bs.
Proof.
  unfold sub_balance. destruct bs as [|b0 r0]; [discriminate|]. set (bs := b0 :: r0). destruct m.
  - destruct (smooth (map fst bs)) as [[q upd]|] eqn:Es; [|discriminate]. intros H; inversion H; subst.
    destruct (smooth_some _ _ _ Es) as [[b [Hb [He Hid]]] Hc]. split; [|exact (combine_pj bs upd Hc)].
    apply elig_in_iff. apply in_map_iff in Hb. destruct Hb as [c [Ec Hcin]]. subst b. exists c. tauto.
  - intros H. destruct (wlc_smooth_some _ _ _ H) as [[c [[Hc [He _]] Hid]] Hpj]. split; [|exact Hpj].
    apply elig_in_iff. exists c. tauto.
  - destruct (gsticky bs h) as [q|] eqn:Eg; [|discriminate]. intros H; inversion H; subst. split; [|reflexivity].
    apply elig_in_iff. apply (gsticky_some _ _ _ Eg).
Qed.

Theorem sub_balance_none m bs h : sub_balance m bs h = None <-> has_elig (map pj_b bs) = false.
Proof.
  rewrite has_elig_false. unfold sub_balance. destruct bs as [|b0 r0]; [simpl; tauto|]. set (bs := b0 :: r0). destruct m.
  - destruct (smooth (map fst bs)) as [[q upd]|] eqn:Es.
    + split; [discriminate|]. intros H. exfalso.
      assert (smooth (map fst bs) = None) by (apply smooth_none; rewrite filter_elig_fst, H; reflexivity). congruence.
    + apply smooth_none in Es. rewrite filter_elig_fst in Es. split; [|reflexivity]. intros _.
      destruct (filter wb_elig bs); [reflexivity|discriminate].
  - apply wlc_smooth_none.
  - destruct (gsticky bs h) as [q|] eqn:Eg.
    + split; [discriminate|]. intros H. apply (gsticky_none bs h) in H. congruence.
    + split; [|reflexivity]. intros _. apply (gsticky_none bs h). exact Eg.
Qed.

(* ---------------------------------------------------------------- Balance *)
Lemma first_choice_spec subs h : first_choice subs h = spec_first (pj subs) h.
Proof.
  unfold first_choice, spec_first, pj. rewrite sub_pick_spec, map_map. reflexivity.
Qed.
Lemma pfind_pj name subs : pfind name (pj subs) = map pj_b (find_bs name subs).
Proof.
  induction subs as [|s r IH]; simpl; [reflexivity|]. unfold s_name.
  destruct (key_eqb (fst (fst s)) name); [reflexivity|exact IH].
Qed.
Lemma pcross_pj subs cur : pcross (pj subs) cur = pj (cross_cands subs cur).
Proof.
  unfold pcross, cross_cands, pj. induction subs as [|s r IH]; simpl; [reflexivity|].
  unfold s_name, s_w. destruct (negb (key_eqb (fst (fst s)) cur) && (0 <=? snd (fst s)) && negb (is_bh (fst (fst s))));
    simpl; rewrite IH; reflexivity.
Qed.

Lemma set_bs_nomatch subs name bs : ~ In name (map s_name subs) -> set_bs subs name bs = subs.
Proof.
  induction subs as [|s r IH]; simpl; intros H; [reflexivity|].
  destruct (key_eqb (s_name s) name) eqn:E.
  - apply key_eqb_eq in E. exfalso. apply H. left. exact E.
  - f_equal. apply IH. intro Hin. apply H. right. exact Hin.
Qed.
Lemma find_bs_in subs x : NoDup (map s_name subs) -> In x subs -> find_bs (s_name x) subs = s_bs x.
Proof.
  induction subs as [|s r IH]; simpl; intros Hnd Hin; [contradiction|].
  inversion Hnd as [|? ? Hn Hnd']; subst. destruct Hin as [E|Hin].
  - subst s. assert (key_eqb (s_name x) (s_name x) = true) by (apply key_eqb_eq; reflexivity). rewrite H. reflexivity.
  - destruct (key_eqb (s_name s) (s_name x)) eqn:E; [|apply IH; assumption].
    apply key_eqb_eq in E. exfalso. apply Hn. rewrite E. apply in_map. exact Hin.
Qed.
Lemma set_bs_pj subs name bs' : NoDup (map s_name subs) ->
  map pj_b bs' = map pj_b (find_bs name subs) -> pj (set_bs subs name bs') = pj subs.
Proof.
  induction subs as [|s r IH]; simpl; intros Hnd Hpj; [reflexivity|].
  inversion Hnd as [|? ? Hn Hnd']; subst.
  destruct (key_eqb (s_name s) name) eqn:E.
  - apply key_eqb_eq in E. subst name. rewrite (set_bs_nomatch r _ _ Hn). f_equal.
    unfold pj_s. simpl. rewrite Hpj. reflexivity.
  - f_equal. apply IH; assumption.
Qed.

Lemma obs_eqb_refl o : obs_eqb o o = true.
Proof.
  unfold obs_eqb. rewrite !Z.eqb_refl. assert (key_eqb (o_sub o) (o_sub o) = true) by (apply key_eqb_eq; reflexivity).
  rewrite H. reflexivity.
Qed.

Lemma nth_mod_none {X} (xs : list X) n : nth_error xs (n mod length xs)%nat = None -> xs = [].
Proof.
  destruct xs as [|x r]; [reflexivity|]. intros H. apply nth_error_None in H.
  assert (n mod length (x :: r) < length (x :: r))%nat by (apply Nat.mod_upper_bound; simpl; lia). lia.
Qed.

(* one Balance call: the observation satisfies the specification and the credit-free view is unchanged *)
Theorem balance_spec p subs retry h n : NoDup (map s_name subs) ->
  spec_balance p (pj subs) retry h (fst (balance p subs retry h n)) = true /\
  pj (snd (balance p subs retry h n)) = pj subs.
Proof.
  intros Hnd. destruct p as [[m rmax] cross]. unfold balance, spec_balance.
  destruct (retry >? rmax + cross); [simpl; split; [apply obs_eqb_refl|reflexivity]|].
  rewrite <- first_choice_spec. destruct (first_choice subs h) as [name|]; [|simpl; split; [apply obs_eqb_refl|reflexivity]].
  destruct (is_bh name); [simpl; split; [apply obs_eqb_refl|reflexivity]|].
  rewrite pfind_pj.
  assert (Hphase2 :
    forall retry', 
    (let '(o, subs') :=
      (if cross <=? 0 then (mkObs 3 name (-1) retry' 0 3, subs)
       else match nth_error (cross_cands subs name) (n mod length (cross_cands subs name))%nat with
            | None => (mkObs 4 name (-1) retry' 1 4, subs)
            | Some x => match sub_balance m (s_bs x) h with
                        | Some (b, bs') => (mkObs 0 (s_name x) b retry' 1 0, set_bs subs (s_name x) bs')
                        | None => (mkObs 5 (s_name x) (-1) retry' 1 3, subs)
                        end
            end) in
     (if cross <=? 0 then obs_eqb o (mkObs 3 name (-1) retry' 0 3)
      else match pcross (pj subs) name with
           | [] => obs_eqb o (mkObs 4 name (-1) retry' 1 4)
           | xs => existsb (fun x : psub => key_eqb (fst (fst x)) (o_sub o) &&
                      (if has_elig (snd x) then (o_code o =? 0) && elig_in (snd x) (o_bid o) && (o_ecode o =? 0)
                       else (o_code o =? 5) && (o_bid o =? -1) && (o_ecode o =? 3))) xs &&
                   (o_retry o =? retry') && (o_cross o =? 1)
           end) = true /\ pj subs' = pj subs)).
  { intros retry'. destruct (cross <=? 0); [split; [apply obs_eqb_refl|reflexivity]|].
    rewrite pcross_pj.
    destruct (nth_error (cross_cands subs name) (n mod length (cross_cands subs name))%nat) as [x|] eqn:En.
    - assert (Hx : In x (cross_cands subs name)) by (eapply nth_error_In; exact En).
      assert (Hxs : In x subs) by (apply filter_In in Hx; tauto).
      assert (Hex : forall o, key_eqb (s_name x) (o_sub o) = true ->
                 (if has_elig (map pj_b (s_bs x)) then (o_code o =? 0) && elig_in (map pj_b (s_bs x)) (o_bid o) && (o_ecode o =? 0)
                  else (o_code o =? 5) && (o_bid o =? -1) && (o_ecode o =? 3)) = true ->
                 existsb (fun y : psub => key_eqb (fst (fst y)) (o_sub o) &&
                      (if has_elig (snd y) then (o_code o =? 0) && elig_in (snd y) (o_bid o) && (o_ecode o =? 0)
                       else (o_code o =? 5) && (o_bid o =? -1) && (o_ecode o =? 3))) (pj (cross_cands subs name)) = true).
      { intros o H1 H2. apply existsb_exists. exists (pj_s x). split; [apply in_map; exact Hx|].
        unfold pj_s. simpl. rewrite H1, H2. reflexivity. }
      assert (Hne : pj (cross_cands subs name) <> []).
      { intro E. apply (in_map pj_s) in Hx. unfold pj in E. rewrite E in Hx. exact Hx. }
      assert (Hk : key_eqb (s_name x) (s_name x) = true) by (apply key_eqb_eq; reflexivity).
      destruct (sub_balance m (s_bs x) h) as [[b bs']|] eqn:Eb.
      + destruct (sub_balance_some _ _ _ _ _ Eb) as [He Hpj].
        assert (Hh : has_elig (map pj_b (s_bs x)) = true).
        { destruct (has_elig (map pj_b (s_bs x))) eqn:E; [reflexivity|]. apply (sub_balance_none m _ h) in E. congruence. }
        split.
        * destruct (pj (cross_cands subs name)) as [|y ys] eqn:Ep; [congruence|]. cbv iota beta.
          rewrite (Hex (mkObs 0 (s_name x) b retry' 1 0)); simpl; [rewrite Z.eqb_refl; reflexivity|exact Hk|].
          rewrite Hh, He. reflexivity.
        * apply set_bs_pj; [exact Hnd|]. rewrite (find_bs_in subs x Hnd Hxs). exact Hpj.
      + apply (sub_balance_none m _ h) in Eb. split; [|reflexivity].
        destruct (pj (cross_cands subs name)) as [|y ys] eqn:Ep; [congruence|]. cbv iota beta.
        rewrite (Hex (mkObs 5 (s_name x) (-1) retry' 1 3)); simpl; [rewrite Z.eqb_refl; reflexivity|exact Hk|].
        rewrite Eb. reflexivity.
    - apply nth_mod_none in En. rewrite En. simpl. split; [apply obs_eqb_refl|reflexivity]. }
  destruct (retry <=? rmax) eqn:Er; simpl andb.
  - destruct (sub_balance m (find_bs name subs) h) as [[b bs']|] eqn:Eb.
    + destruct (sub_balance_some _ _ _ _ _ Eb) as [He Hpj].
      assert (Hh : has_elig (map pj_b (find_bs name subs)) = true).
      { destruct (has_elig (map pj_b (find_bs name subs))) eqn:E; [reflexivity|]. apply (sub_balance_none m _ h) in E. congruence. }
      rewrite Hh. simpl. split.
      * rewrite He, !Z.eqb_refl. assert (key_eqb name name = true) by (apply key_eqb_eq; reflexivity). rewrite H. reflexivity.
      * apply set_bs_pj; assumption.
    + apply (sub_balance_none m _ h) in Eb. rewrite Eb. specialize (Hphase2 rmax).
      destruct (if cross <=? 0 then _ else _) as [o subs'] in Hphase2 |- *. exact Hphase2.
  - specialize (Hphase2 retry).
    destruct (if cross <=? 0 then _ else _) as [o subs'] in Hphase2 |- *. exact Hphase2.
Qed.

(* ---------------------------------------------------------------- operation sequences *)
Lemma names_pj subs : map (fun s : psub => fst (fst s)) (pj subs) = map s_name subs.
Proof. unfold pj. rewrite map_map. reflexivity. Qed.
Lemma pj_names_eq a b : pj a = pj b -> map s_name a = map s_name b.
Proof. intros H. rewrite <- !names_pj, H. reflexivity. Qed.

Lemma pj_set_avail subs s id a : pj (g_set_avail subs s id a) = p_set_avail (pj subs) s id a.
Proof.
  unfold pj, g_set_avail, p_set_avail. rewrite !map_map. apply map_ext. intros x.
  unfold pj_s at 2. simpl. unfold s_name. destruct (key_eqb (fst (fst x)) s); [|reflexivity].
  unfold pj_s. simpl. f_equal. unfold set_av. rewrite !map_map. apply map_ext. intros [[[[i w] c] av] n].
  unfold pj_b, wb_id, wb_w. simpl. destruct (i =? id); reflexivity.
Qed.
Lemma pj_set_conn subs s id n : pj (g_set_conn subs s id n) = pj subs.
Proof.
  unfold pj, g_set_conn. rewrite map_map. apply map_ext. intros x.
  destruct (key_eqb (s_name x) s); [|reflexivity]. unfold pj_s. simpl. f_equal.
  unfold set_conn. rewrite map_map. apply map_ext. intros [[[[i w] c] av] m].
  unfold wb_id. simpl. destruct (i =? id); reflexivity.
Qed.

Lemma names_set_avail subs s id a : map s_name (g_set_avail subs s id a) = map s_name subs.
Proof.
  unfold g_set_avail. rewrite map_map. apply map_ext. intros x. destruct (key_eqb (s_name x) s); reflexivity.
Qed.

(* Reload / BackendReload commute with the credit-free view *)
Lemma pj_reload subs conf : pj (g_reload subs conf) = p_reload (pj subs) conf.
Proof.
  unfold g_reload, p_reload. destruct (pos_total conf =? 0); [reflexivity|]. unfold pj at 1. rewrite map_app. f_equal.
  - induction subs as [|s r IH]; [reflexivity|]. simpl. rewrite map_app, IH. f_equal.
    unfold s_name. destruct (klookup (fst (fst s)) conf); reflexivity.
  - rewrite names_pj, map_map. reflexivity.
Qed.
Lemma pj_wupdate bs conf : map pj_b (wupdate bs conf) = pupdate (map pj_b bs) conf.
Proof.
  unfold wupdate, pupdate. rewrite map_app. f_equal.
  - induction bs as [|b r IH]; [reflexivity|]. simpl. rewrite map_app, IH. f_equal.
    destruct b as [[[[i w] c] a] n]. unfold wb_id. simpl. destruct (lookup i conf); reflexivity.
  - rewrite !map_map. assert (E : map (fun x : wb => fst (fst (pj_b x))) bs = map wb_id bs) by (apply map_ext; intros [[[[i w] c] a] n]; reflexivity).
    rewrite E. apply map_ext. intros [i w]. reflexivity.
Qed.
Lemma pj_backends subs s conf : pj (g_backends subs s conf) = p_backends (pj subs) s conf.
Proof.
  unfold pj, g_backends, p_backends. rewrite !map_map. apply map_ext. intros x. unfold pj_s at 2. simpl. unfold s_name.
  destruct (key_eqb (fst (fst x)) s); [|reflexivity]. unfold pj_s. simpl. rewrite pj_wupdate. reflexivity.
Qed.
Lemma names_backends subs s conf : map s_name (g_backends subs s conf) = map s_name subs.
Proof. unfold g_backends. rewrite map_map. apply map_ext. intros x. destruct (key_eqb (s_name x) s); reflexivity. Qed.

Lemma kept_names_incl conf : forall (subs : list gsub) n,
  In n (map s_name (flat_map (fun s => match klookup (s_name s) conf with Some w => [(s_name s, w, s_bs s)] | None => [] end) subs)) ->
  In n (map s_name subs).
Proof.
  induction subs as [|s r IH]; intros n H; [exact H|]. simpl in H. rewrite map_app in H. apply in_app_or in H. destruct H as [H|H].
  - destruct (klookup (s_name s) conf); [|contradiction]. destruct H as [H|[]]. left. exact H.
  - right. apply IH. exact H.
Qed.
Lemma nodup_kept conf : forall (subs : list gsub) (tl : list key),
  NoDup (map s_name subs) -> NoDup tl -> (forall n, In n tl -> ~ In n (map s_name subs)) ->
  NoDup (map s_name (flat_map (fun s => match klookup (s_name s) conf with Some w => [(s_name s, w, s_bs s)] | None => [] end) subs) ++ tl).
Proof.
  induction subs as [|s r IH]; intros tl Hnd Htl Hdis; [exact Htl|]. inversion Hnd as [|? ? Hn Hnd']; subst.
  assert (Hr : NoDup (map s_name (flat_map (fun s0 => match klookup (s_name s0) conf with Some w => [(s_name s0, w, s_bs s0)] | None => [] end) r) ++ tl)).
  { apply IH; [exact Hnd'|exact Htl|]. intros n Hin Hc. apply (Hdis n Hin). right. exact Hc. }
  simpl. rewrite map_app. destruct (klookup (s_name s) conf); [|exact Hr]. simpl. constructor; [|exact Hr].
  intro Hin. apply in_app_or in Hin. destruct Hin as [Hin|Hin].
  - apply Hn. apply (kept_names_incl conf r _ Hin).
  - apply (Hdis _ Hin). left. reflexivity.
Qed.
Lemma nodup_filter_keys (conf : list (key * Z)) f : NoDup (map fst conf) -> NoDup (map fst (filter f conf)).
Proof.
  induction conf as [|e r IH]; simpl; intros H; [constructor|]. inversion H; subst.
  destruct (f e); [|apply IH; assumption]. simpl. constructor; [|apply IH; assumption].
  intro Hin. apply H2. apply in_map_iff in Hin. destruct Hin as [x [E Hx]]. apply filter_In in Hx.
  apply in_map_iff. exists x. tauto.
Qed.
Lemma names_reload_nodup subs conf : NoDup (map s_name subs) -> NoDup (map fst conf) -> NoDup (map s_name (g_reload subs conf)).
Proof.
  intros H1 H2. unfold g_reload. destruct (pos_total conf =? 0); [exact H1|]. rewrite map_app.
  rewrite (map_map (fun e : key * Z => (fst e, snd e, @nil wb)) s_name).
  apply nodup_kept; [exact H1|apply nodup_filter_keys; exact H2|].
  intros n Hin Hc. apply in_map_iff in Hin. destruct Hin as [e [En He]]. apply filter_In in He. destruct He as [_ Hf].
  simpl in En. subst n. apply negb_true_iff in Hf.
  assert (existsb (key_eqb (fst e)) (map s_name subs) = true); [|congruence].
  apply existsb_exists. exists (fst e). split; [exact Hc|apply key_eqb_eq; reflexivity].
Qed.

(* every Reload lists each sub-cluster once (the gslb conf is a map) *)
Definition gop_ok (o : gop) : bool :=
  match o with GReload conf => distinct_keys (map fst conf) | _ => true end.

Theorem grun_spec p : forall ops subs, NoDup (map s_name subs) -> forallb gop_ok ops = true ->
  gspec p (pj subs) ops (grun p subs ops) = true.
Proof.
  induction ops as [|o r IH]; intros subs Hnd Hok; [reflexivity|]. simpl in Hok. apply andb_true_iff in Hok. destruct Hok as [Ho Hok].
  destruct o as [retry h|s id a|s id n|conf|s conf]; simpl.
  - destruct (balance_spec p subs retry h 0 Hnd) as [H1 H2].
    destruct (balance p subs retry h 0) as [o subs'] eqn:Eb. simpl in *. rewrite H1. simpl. rewrite <- H2.
    apply IH; [|exact Hok]. rewrite (pj_names_eq _ _ H2). exact Hnd.
  - rewrite <- pj_set_avail. apply IH; [|exact Hok]. rewrite names_set_avail. exact Hnd.
  - rewrite <- (pj_set_conn subs s id n). apply IH; [|exact Hok]. rewrite (pj_names_eq _ _ (pj_set_conn subs s id n)). exact Hnd.
  - rewrite <- pj_reload. apply IH; [|exact Hok]. apply names_reload_nodup; [exact Hnd|]. apply distinct_keys_NoDup. exact Ho.
  - rewrite <- pj_backends. apply IH; [|exact Hok]. rewrite names_backends. exact Hnd.
Qed.

(* ---------------------------------------------------------------- readable corollary: the returned target *)
Lemma sub_pick_in ts h k : sub_pick ts h = Some k -> exists t, In t ts /\ t_key t = k /\ 0 < t_w t.
Proof.
  unfold sub_pick. intros H.
  assert (Hin : In k (map fst (sub_cands ts))).
  { destruct (sub_cands ts) as [|[k0 w0] [|c2 r]] eqn:E; [discriminate| |].
    - inversion H; subst. left. reflexivity.
    - eapply walk_in. exact H. }
  unfold sub_cands in Hin. rewrite map_map in Hin. apply in_map_iff in Hin. destruct Hin as [t [Ek Ht]].
  apply filter_In in Ht. destruct Ht as [Ht Hw]. apply (Permutation_in _ (sort_perm _)) in Ht.
  exists t. split; [exact Ht|]. split; [exact Ek|]. apply Z.ltb_lt. exact Hw.
Qed.

Theorem balance_returns_eligible p subs retry h n : NoDup (map s_name subs) ->
  let o := fst (balance p subs retry h n) in
  o_code o = 0 ->
  exists s, In s subs /\ s_name s = o_sub o /\ is_bh (s_name s) = false /\
            (exists b, In b (s_bs s) /\ wb_elig b = true /\ wb_id b = o_bid o) /\
            (o_cross o = 0 -> 0 < s_w s /\ retry <= snd (fst p)) /\
            (o_cross o = 1 -> 0 <= s_w s /\ 0 < snd p).
Proof.
  intros Hnd. destruct p as [[m rmax] cross]. unfold balance. simpl snd. simpl fst.
  destruct (retry >? rmax + cross); [simpl; discriminate|].
  destruct (first_choice subs h) as [name|] eqn:Ef; [|simpl; discriminate].
  destruct (is_bh name) eqn:Ebh; [simpl; discriminate|].
  unfold first_choice in Ef. apply sub_pick_in in Ef. destruct Ef as [t [Ht [Ek Hw]]].
  apply in_map_iff in Ht. destruct Ht as [s0 [Et Hs0]]. subst t. unfold t_key, t_w in *. simpl in Ek, Hw.
  assert (Hcross : forall retry',
    let o := fst (if cross <=? 0 then (mkObs 3 name (-1) retry' 0 3, subs)
       else match nth_error (cross_cands subs name) (n mod length (cross_cands subs name))%nat with
            | None => (mkObs 4 name (-1) retry' 1 4, subs)
            | Some x => match sub_balance m (s_bs x) h with
                        | Some (b, bs') => (mkObs 0 (s_name x) b retry' 1 0, set_bs subs (s_name x) bs')
                        | None => (mkObs 5 (s_name x) (-1) retry' 1 3, subs)
                        end
            end) in
    o_code o = 0 ->
    exists s, In s subs /\ s_name s = o_sub o /\ is_bh (s_name s) = false /\
            (exists b, In b (s_bs s) /\ wb_elig b = true /\ wb_id b = o_bid o) /\
            (o_cross o = 0 -> 0 < s_w s /\ retry <= rmax) /\
            (o_cross o = 1 -> 0 <= s_w s /\ 0 < cross)).
  { intros retry'. destruct (Z.leb_spec cross 0) as [Hc|Hc]; [simpl; discriminate|].
    destruct (nth_error (cross_cands subs name) (n mod length (cross_cands subs name))%nat) as [x|] eqn:En; [|simpl; discriminate].
    destruct (sub_balance m (s_bs x) h) as [[b bs']|] eqn:Eb; [|simpl; discriminate].
    simpl. intros _. apply nth_error_In in En. apply filter_In in En. destruct En as [Hx Hf].
    apply andb_true_iff in Hf. destruct Hf as [Hf Hb]. apply andb_true_iff in Hf. destruct Hf as [_ Hwx].
    exists x. split; [exact Hx|]. split; [reflexivity|]. split; [destruct (is_bh (s_name x)); [discriminate|reflexivity]|].
    split; [apply elig_in_iff; apply (sub_balance_some _ _ _ _ _ Eb)|]. split; [discriminate|].
    intros _. apply Z.leb_le in Hwx. lia. }
  destruct (Z.leb_spec retry rmax) as [Hr|Hr].
  - destruct (sub_balance m (find_bs name subs) h) as [[b bs']|] eqn:Eb.
    + simpl. intros _. exists s0. split; [exact Hs0|]. split; [exact Ek|]. split; [rewrite Ek; exact Ebh|].
      rewrite <- Ek in Eb. rewrite (find_bs_in subs s0 Hnd Hs0) in Eb.
      split; [apply elig_in_iff; apply (sub_balance_some _ _ _ _ _ Eb)|]. split; [intros _; split; assumption|discriminate].
    + apply Hcross.
  - apply Hcross.
Qed.

(* ---------------------------------------------------------------- wire level *)
From Bfe Require Import run.RunC03.
Lemma dec_enc_obs o : dec_obs (enc_obs o) = Some o.
Proof. destruct o as [[c s b r x e]|]; reflexivity. Qed.
Lemma dec_out_enc l : dec_out (VL (map enc_obs l)) = Some l.
Proof.
  unfold dec_out. induction l as [|o r IH]; [reflexivity|]. simpl map. rewrite dec_enc_obs.
  simpl. simpl in IH. rewrite IH. reflexivity.
Qed.
Lemma pj_init conf : pj (g_init conf) = p_init conf.
Proof.
  unfold pj, g_init, p_init. rewrite map_map. apply map_ext. intros [[nm w] bs]. unfold pj_s. simpl. f_equal.
  unfold winit. rewrite map_map. apply map_ext. intros [i x]. reflexivity.
Qed.
Lemma names_init conf : map s_name (g_init conf) = map (fun s : key * Z * list (Z * Z) => fst (fst s)) conf.
Proof. unfold g_init. rewrite map_map. reflexivity. Qed.

Theorem prop_of_model_C03 : forall i p conf ops,
  dec_in i = Some (p, conf, ops) -> NoDup (map (fun s : key * Z * list (Z * Z) => fst (fst s)) conf) ->
  forallb gop_ok ops = true ->
  prop_C03 i (run_C03 i) = true.
Proof.
  intros i p conf ops Hd Hnd Hok. unfold prop_C03, run_C03. rewrite Hd, dec_out_enc, <- pj_init.
  apply grun_spec; [|exact Hok]. rewrite names_init. exact Hnd.
Qed.

(* ---------------------------------------------------------------- slow start, WlcSmooth with all connection counts 0 *)
Lemma wlc_bal_ok : bal_ok wlc_bal.
Proof.
  split.
  - intros bs p upd H. unfold wlc_bal in H.
    destruct (wlc_smooth (map (fun b => (b, 0)) bs)) as [[q l]|] eqn:E; [|discriminate]. inversion H; subst; clear H.
    destruct (wlc_smooth_some _ _ _ E) as [[c [[Hc [He _]] Hid]] Hpj]. split.
    + apply in_map_iff in Hc. destruct Hc as [b [Eb Hb]]. subst c. exists b. split; [exact Hb|]. split; [exact He|exact Hid].
    + rewrite map_map in Hpj. rewrite map_map.
      rewrite (map_ext (fun x : wb => bcfg (fst x)) pj_b) by (intros [b n]; reflexivity).
      rewrite Hpj. apply map_ext. intros b. reflexivity.
  - intros bs. unfold wlc_bal. destruct (wlc_smooth (map (fun b => (b, 0)) bs)) as [[q l]|] eqn:E.
    + split; [discriminate|]. intros H. exfalso.
      assert (wlc_smooth (map (fun b => (b, 0)) bs) = None).
      { apply wlc_smooth_none. clear E. induction bs as [|b r IH]; [reflexivity|]. simpl in *.
        unfold wb_elig at 1. simpl. destruct (elig b); [discriminate|]. apply IH. exact H. }
      congruence.
    + split; [|reflexivity]. intros _. apply wlc_smooth_none in E. clear -E.
      induction bs as [|b r IH]; [reflexivity|]. simpl in *. unfold wb_elig at 1 in E. simpl in E.
      destruct (elig b); [discriminate|]. apply IH. exact E.
Qed.
Lemma bal_of_ok wlc : bal_ok (bal_of wlc).
Proof. destruct wlc; [exact wlc_bal_ok|exact smooth_bal_ok]. Qed.

(* ---------------------------------------------------------------- central statement with an executable guard *)
Definition wf_C03 (i : val) : bool :=
  match dec_in i with
  | Some (_, conf, ops) => distinct_keys (map (fun s : key * Z * list (Z * Z) => fst (fst s)) conf) && forallb gop_ok ops
  | None => false
  end.
Theorem central_C03 : forall i, wf_C03 i = true -> kf_C03 i = 0 -> prop_C03 i (run_C03 i) = true.
Proof.
  intros i H _. unfold wf_C03 in H. destruct (dec_in i) as [[[p conf] ops]|] eqn:E; [|discriminate].
  apply andb_true_iff in H. destruct H as [H1 H2].
  apply (prop_of_model_C03 i p conf ops E); [apply distinct_keys_NoDup; exact H1|exact H2].
Qed.
Definition sample_C03 : val :=
  VL [VL [VZ 1; VZ 1; VZ 1];
      VL [VL [VB [98;106]; VZ 2; VL [VL [VZ 0; VZ 1]; VL [VZ 1; VZ 2]]]; VL [VB [103;122]; VZ 0; VL [VL [VZ 3; VZ 1]]]];
      VL [VL [VZ 2; VB [98;106]; VZ 0; VZ 3]; VL [VZ 1; VB [98;106]; VZ 1; VZ 0]; VL [VZ 0; VZ 0; VZ 77; VB [1;2;3;4]];
          VL [VZ 0; VZ 2; VZ 78; VB [1;2;3;5]];
          VL [VZ 3; VL [VL [VB [98;106]; VZ 0]; VL [VB [97]; VZ 5]; VL [VB [103;122]; VZ 0]]];
          VL [VZ 4; VB [97]; VL [VL [VZ 0; VZ 1]]]; VL [VZ 0; VZ 0; VZ 79; VB [1;2;3;6]]]].
Lemma sample_C03_wf : wf_C03 sample_C03 = true.
Proof. reflexivity. Qed.
