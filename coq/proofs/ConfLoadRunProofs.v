(* Lemmas tying the C13 / C14 wire predicates to the model theorems. *)
From Coq Require Import List ZArith Bool Lia Permutation.
From Bfe Require Import lib.Val lib.ValProofs lib.Bytes model.ConfLoad model.ConfLoadWire proofs.ConfLoadProofs
  run.RunC13 run.RunC14.
Import ListNotations.
Open Scope Z_scope.

(* ------------------------------------------------------------------ C13 *)
Lemma vb_cases b : vb b = VZ 1 /\ b = true \/ vb b = VZ 0 /\ b = false.
Proof. destruct b; [left | right]; split; reflexivity. Qed.

Lemma prop_model_sdc st h v r c fs : d_files h v r c = Some fs ->
  kf_C13 (VL [VZ 1; VZ st; h; v; r; c]) = 0 ->
  prop_C13 (VL [VZ 1; VZ st; h; v; r; c]) (run_C13 (VL [VZ 1; VZ st; h; v; r; c])) = true.
Proof.
  intros Hd Hk. cbn [kf_C13] in Hk. rewrite Hd in Hk.
  destruct (vip_products_defined fs) eqn:Hv; [clear Hk | discriminate].
  cbn [run_C13 prop_C13]. rewrite Hd. unfold run_sdc.
  assert (Hnp : forall a b c' d e, no_panic (VL [vb a; vb b; vb c'; vb d; vb e]) = true)
    by (intros [] [] [] [] []; reflexivity).
  destruct (accepted fs) eqn:Ea.
  - cbn [vb]. change (VZ 1) with (vb true). rewrite Hnp. simpl.
    rewrite (accepted_is_closed_full fs Hv Ea). destruct (documented fs); reflexivity.
  - cbn [vb]. change (VZ 0) with (vb false). rewrite Hnp. simpl.
    destruct (documented fs) eqn:Ed; [|reflexivity]. apply documented_is_accepted in Ed. congruence.
Qed.

Lemma pos_total_nonneg l : 0 <= pos_total l.
Proof. unfold pos_total. induction l as [|e l IH]; simpl; [lia|]. destruct (0 <? snd e) eqn:E; [apply Z.ltb_lt in E|]; lia. Qed.
Lemma pos_total_pos l : (0 <? pos_total l) = existsb (fun s : str * Z => 0 <? snd s) l.
Proof.
  induction l as [|e l IH]; [reflexivity|]. pose proof (pos_total_nonneg l) as Hn.
  change (pos_total (e :: l)) with ((if 0 <? snd e then snd e else 0) + pos_total l). simpl existsb.
  destruct (0 <? snd e) eqn:E; simpl.
  - apply Z.ltb_lt in E. apply Z.ltb_lt. lia.
  - exact IH.
Qed.
Lemma gslb_load_usable f : gslb_conf_load f = true -> usable_gslb f = true.
Proof.
  unfold gslb_conf_load, usable_gslb. destruct (gf_clusters f) as [cl|]; [|discriminate].
  destruct (gf_hostname f); [|discriminate]. destruct (gf_ts f); [|discriminate]. simpl. intro H.
  rewrite <- H. apply forallb_ext_in. intros e _. symmetry. apply pos_total_pos.
Qed.
Lemma gslb_doc_load f : doc_gslb f = true -> gslb_conf_load f = true.
Proof.
  unfold gslb_conf_load, doc_gslb. destruct (gf_clusters f) as [cl|]; [|discriminate].
  destruct (gf_hostname f); [|discriminate]. destruct (gf_ts f); [|discriminate]. intro H.
  apply forallb_forall. intros e He. rewrite forallb_forall in H. specialize (H _ He).
  apply andb_true_iff in H. destruct H as [_ H]. rewrite pos_total_pos. exact H.
Qed.
Lemma prop_model_gslb st g f : d_gslb g = Some f ->
  prop_C13 (VL [VZ 2; VZ st; g]) (run_C13 (VL [VZ 2; VZ st; g])) = true.
Proof.
  intro Hd. cbn [run_C13 prop_C13]. rewrite Hd.
  destruct (gslb_conf_load f) eqn:E; simpl.
  - rewrite (gslb_load_usable f E). destruct (doc_gslb f); reflexivity.
  - destruct (doc_gslb f) eqn:Ed; [|reflexivity]. apply gslb_doc_load in Ed. congruence.
Qed.

Lemma ctable_load_usable f : ctable_load f = true -> usable_ctable f = true.
Proof.
  unfold ctable_load, usable_ctable. destruct (tf_version f); [|discriminate]. destruct (tf_config f) as [cfg|]; [|discriminate].
  simpl. intro H. rewrite <- H. apply forallb_ext_in. intros e _. apply forallb_ext_in. intros sb _.
  unfold subcluster_ok. f_equal. clear. induction (snd sb) as [|b l IH]; [reflexivity|]. simpl. rewrite IH. f_equal.
  destruct b as [b|]; [|reflexivity]. destruct (bk_weight b); reflexivity.
Qed.
Lemma ctable_doc_load f : doc_ctable f = true -> ctable_load f = true.
Proof.
  unfold doc_ctable, ctable_load, usable_ctable. destruct (tf_version f); [|discriminate]. destruct (tf_config f) as [cfg|]; [|discriminate].
  simpl. intro H. rewrite <- H. apply forallb_ext_in. intros e _. apply forallb_ext_in. intros sb _.
  unfold subcluster_ok. f_equal. clear. induction (snd sb) as [|b l IH]; [reflexivity|]. simpl. rewrite IH. f_equal.
  destruct b as [b|]; [|reflexivity]. destruct (bk_weight b); reflexivity.
Qed.
Lemma prop_model_ctable st t f : d_ctable t = Some f ->
  prop_C13 (VL [VZ 3; VZ st; t]) (run_C13 (VL [VZ 3; VZ st; t])) = true.
Proof.
  intro Hd. cbn [run_C13 prop_C13]. rewrite Hd.
  destruct (ctable_load f) eqn:E; simpl.
  - rewrite (ctable_load_usable f E). destruct (doc_ctable f); reflexivity.
  - destruct (doc_ctable f) eqn:Ed; [|reflexivity]. apply ctable_doc_load in Ed. congruence.
Qed.

(* the loader logic has no crash path: every model output is free of the panic marker -2 *)
Lemma run_sdc_no_panic fs : no_panic (run_sdc fs) = true.
Proof.
  unfold run_sdc.
  destruct (is_some (host_conf_load (fs_host fs))), (is_some (vip_conf_load (fs_vip fs))), (route_conf_check (fs_route fs)),
    (is_some (cluster_conf_load (fs_cluster fs))), (accepted fs); reflexivity.
Qed.
Lemma model_total_sdc st h v r c : no_panic (run_C13 (VL [VZ 1; VZ st; h; v; r; c])) = true.
Proof. cbn [run_C13]. destruct (d_files h v r c); [apply run_sdc_no_panic | reflexivity]. Qed.
Lemma model_total_gslb st g : no_panic (run_C13 (VL [VZ 2; VZ st; g])) = true.
Proof. cbn [run_C13]. destruct (d_gslb g) as [f|]; [destruct (gslb_conf_load f)|]; reflexivity. Qed.
Lemma model_total_ctable st t : no_panic (run_C13 (VL [VZ 3; VZ st; t])) = true.
Proof. cbn [run_C13]. destruct (d_ctable t) as [f|]; [destruct (ctable_load f)|]; reflexivity. Qed.

(* ------------------------------------------------------------------ C14 *)
Lemma summary_invariant fs fs' pick pick' ps :
  same_up_to_map_order fs fs' -> iteration_order pick -> iteration_order pick' ->
  order_class fs = 0 -> route_keys_distinct fs = true ->
  summary pick fs ps = summary pick' fs' ps.
Proof.
  intros Hs Hp Hp' Hoc Hrk. pose proof (perm_invariant_files fs fs' pick pick' Hs Hp Hp' Hoc Hrk) as H.
  unfold summary. destruct (load_with pick fs) as [t|], (load_with pick' fs') as [t'|]; try contradiction; [|reflexivity].
  rewrite (map_ext (fun p => v_outcome (lookup t p)) (fun p => v_outcome (lookup t' p))); [reflexivity|].
  intro p. rewrite H. reflexivity.
Qed.

Lemma d_c14_not_reload i x : d_c14 i = Some x -> d_c14_reload i = None.
Proof.
  unfold d_c14, d_c14_reload. intro H.
  destruct i as [z|b|l]; try discriminate.
  destruct l as [|v0 l]; try discriminate. destruct v0 as [z|b|l0]; try discriminate.
  destruct z as [|p|p]; try discriminate. destruct p; try discriminate.
  repeat (match goal with |- match ?l with _ => _ end = None => destruct l; try reflexivity end).
  reflexivity.
Qed.

(* whatever orders the implementation's maps take, the set of distinct summaries it can show is the model's singleton,
   which satisfies prop_C14 and agree_C14 *)
Lemma c14_any_order i fs ps fs' pick' :
  d_c14 i = Some (fs, ps) -> kf_C14 i = 0 -> route_keys_distinct fs = true ->
  same_up_to_map_order fs fs' -> iteration_order pick' ->
  let o := VL [summary pick' fs' ps] in
  o = run_C14 i /\ agree_C14 i o = true /\ prop_C14 i o = true.
Proof.
  intros Hd Hk Hrk Hs Hp. unfold kf_C14 in Hk. rewrite Hd in Hk.
  assert (E : VL [summary pick' fs' ps] = run_C14 i).
  { unfold run_C14. rewrite Hd. f_equal. f_equal. symmetry.
    apply summary_invariant; auto. exact iteration_order_id. }
  cbv zeta. split; [exact E|]. split.
  - unfold agree_C14. rewrite Hd, Hk. simpl. rewrite E. apply val_eqb_refl.
  - unfold prop_C14, summary. rewrite (d_c14_not_reload i _ Hd). destruct (load_with pick' fs'); reflexivity.
Qed.

Lemma v_gslb_perm conf conf' : NoDup (map fst conf) -> Permutation conf conf' -> v_gslb conf = v_gslb conf'.
Proof. intros Hnd Hp. unfold v_gslb. rewrite (gslb_init_perm conf conf' Hnd Hp). reflexivity. Qed.
