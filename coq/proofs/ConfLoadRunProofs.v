(* Lemmas tying the C13 / C14 wire predicates to the model theorems. *)
From Coq Require Import List ZArith Bool Lia Permutation.
From Bfe Require Import lib.Val lib.ValProofs lib.Bytes model.ConfLoad model.ConfLoadWire proofs.ConfLoadProofs
  run.RunC13 run.RunC14.
Import ListNotations.
Open Scope Z_scope.

(* ------------------------------------------------------------------ C13 *)
Lemma vb_cases b : vb b = VZ 1 /\ b = true \/ vb b = VZ 0 /\ b = false.
Proof. destruct b; [left | right]; split; reflexivity. Qed.

Lemma prop_model_sdc st h v r c fs : d_files h v r c = Some fs ->
  kf_C13 (VL [VZ 1; VZ st; h; v; r; c]) = 0 ->
  prop_C13 (VL [VZ 1; VZ st; h; v; r; c]) (run_C13 (VL [VZ 1; VZ st; h; v; r; c])) = true.
Proof.
  intros Hd Hk. cbn [kf_C13] in Hk. rewrite Hd in Hk.
  destruct (vip_products_defined fs) eqn:Hv; [clear Hk | discriminate].
  cbn [run_C13 prop_C13]. rewrite Hd. unfold run_sdc.
  assert (Hnp : forall a b c' d e, no_panic (VL [vb a; vb b; vb c'; vb d; vb e]) = true)
    by (intros [] [] [] [] []; reflexivity).
  destruct (accepted fs) eqn:Ea.
  - cbn [vb]. change (VZ 1) with (vb true). rewrite Hnp. simpl.
    rewrite (accepted_is_closed_full fs Hv Ea). destruct (documented fs); reflexivity.
  - cbn [vb]. change (VZ 0) with (vb false). rewrite Hnp. simpl.
    destruct (documented fs) eqn:Ed; [|reflexivity]. apply documented_is_accepted in Ed. congruence.
Qed.

Lemma pos_total_nonneg l : 0 <= pos_total l.
Proof. unfold pos_total. induction l as [|e l IH]; simpl; [lia|]. destruct (0 <? snd e) eqn:E; [apply Z.ltb_lt in E|]; lia. Qed.
Lemma pos_total_pos l : (0 <? pos_total l) = existsb (fun s : str * Z => 0 <? snd s) l.
Proof.
  induction l as [|e l IH]; [reflexivity|]. pose proof (pos_total_nonneg l) as Hn.
  change (pos_total (e :: l)) with ((if 0 <? snd e then snd e else 0) + pos_total l). simpl existsb.
  destruct (0 <? snd e) eqn:E; simpl.
  - apply Z.ltb_lt in E. apply Z.ltb_lt. lia.
  - exact IH.
Qed.
Lemma gslb_load_usable f : gslb_conf_load f = true -> usable_gslb f = true.
Proof.
  unfold gslb_conf_load, usable_gslb. destruct (gf_clusters f) as [cl|]; [|discriminate].
  destruct (gf_hostname f); [|discriminate]. destruct (gf_ts f); [|discriminate]. simpl. intro H.
  rewrite <- H. apply forallb_ext_in. intros e _. symmetry. apply pos_total_pos.
Qed.
Lemma gslb_doc_load f : doc_gslb f = true -> gslb_conf_load f = true.
Proof.
  unfold gslb_conf_load, doc_gslb. destruct (gf_clusters f) as [cl|]; [|discriminate].
  destruct (gf_hostname f); [|discriminate]. destruct (gf_ts f); [|discriminate]. intro H.
  apply forallb_forall. intros e He. rewrite forallb_forall in H. specialize (H _ He).
  apply andb_true_iff in H. destruct H as [_ H]. rewrite pos_total_pos. exact H.
Qed.
Lemma prop_model_gslb st g f : d_gslb g = Some f ->
  prop_C13 (VL [VZ 2; VZ st; g]) (run_C13 (VL [VZ 2; VZ st; g])) = true.
Proof.
  intro Hd. cbn [run_C13 prop_C13]. rewrite Hd.
  destruct (gslb_conf_load f) eqn:E; simpl.
  - rewrite (gslb_load_usable f E). destruct (doc_gslb f); reflexivity.
  - destruct (doc_gslb f) eqn:Ed; [|reflexivity]. apply gslb_doc_load in Ed. congruence.
Qed.

Lemma ctable_load_usable f : ctable_load f = true -> usable_ctable f = true.
Proof.
  unfold ctable_load, usable_ctable. destruct (tf_version f); [|discriminate]. destruct (tf_config f) as [cfg|]; [|discriminate].
  simpl. intro H. rewrite <- H. apply forallb_ext_in. intros e _. apply forallb_ext_in. intros sb _.
  unfold subcluster_ok. f_equal. clear. induction (snd sb) as [|b l IH]; [reflexivity|]. simpl. rewrite IH. f_equal.
  destruct b as [b|]; [|reflexivity]. destruct (bk_weight b); reflexivity.
Qed.
Lemma ctable_doc_load f : doc_ctable f = true -> ctable_load f = true.
Proof.
  unfold doc_ctable, ctable_load, usable_ctable. destruct (tf_version f); [|discriminate]. destruct (tf_config f) as [cfg|]; [|discriminate].
  simpl. intro H. rewrite <- H. apply forallb_ext_in. intros e _. apply forallb_ext_in. intros sb _.
  unfold subcluster_ok. f_equal. clear. induction (snd sb) as [|b l IH]; [reflexivity|]. simpl. rewrite IH. f_equal.
  destruct b as [b|]; [|reflexivity]. destruct (bk_weight b); reflexivity.
Qed.
Lemma prop_model_ctable st t f : d_ctable t = Some f ->
  prop_C13 (VL [VZ 3; VZ st; t]) (run_C13 (VL [VZ 3; VZ st; t])) = true.
Proof.
  intro Hd. cbn [run_C13 prop_C13]. rewrite Hd.
  destruct (ctable_load f) eqn:E; simpl.
  - rewrite (ctable_load_usable f E). destruct (doc_ctable f); reflexivity.
  - destruct (doc_ctable f) eqn:Ed; [|reflexivity]. apply ctable_doc_load in Ed. congruence.
Qed.

(* the loader logic has no crash path: every model output is free of the panic marker -2 *)
Lemma run_sdc_no_panic fs : no_panic (run_sdc fs) = true.
Proof.
  unfold run_sdc.
  destruct (is_some (host_conf_load (fs_host fs))), (is_some (vip_conf_load (fs_vip fs))), (route_conf_check (fs_route fs)),
    (is_some (cluster_conf_load (fs_cluster fs))), (accepted fs); reflexivity.
Qed.
Lemma model_total_sdc st h v r c : no_panic (run_C13 (VL [VZ 1; VZ st; h; v; r; c])) = true.
Proof. cbn [run_C13]. destruct (d_files h v r c); [apply run_sdc_no_panic | reflexivity]. Qed.
Lemma model_total_gslb st g : no_panic (run_C13 (VL [VZ 2; VZ st; g])) = true.
Proof. cbn [run_C13]. destruct (d_gslb g) as [f|]; [destruct (gslb_conf_load f)|]; reflexivity. Qed.
Lemma model_total_ctable st t : no_panic (run_C13 (VL [VZ 3; VZ st; t])) = true.
Proof. cbn [run_C13]. destruct (d_ctable t) as [f|]; [destruct (ctable_load f)|]; reflexivity. Qed.

(* ------------------------------------------------------------------ C14 *)
Lemma summary_invariant fs fs' pick pick' ps :
  same_up_to_map_order fs fs' -> iteration_order pick -> iteration_order pick' ->
  order_class fs = 0 -> route_keys_distinct fs = true ->
  summary pick fs ps = summary pick' fs' ps.
Proof.
  intros Hs Hp Hp' Hoc Hrk. pose proof (perm_invariant_files fs fs' pick pick' Hs Hp Hp' Hoc Hrk) as H.
  unfold summary. destruct (load_with pick fs) as [t|], (load_with pick' fs') as [t'|]; try contradiction; [|reflexivity].
  rewrite (map_ext (fun p => v_outcome (lookup t p)) (fun p => v_outcome (lookup t' p))); [reflexivity|].
  intro p. rewrite H. reflexivity.
Qed.

Lemma d_c14_not_reload i x : d_c14 i = Some x -> d_c14_reload i = None.
Proof.
  unfold d_c14, d_c14_reload. intro H.
  destruct i as [z|b|l]; try discriminate.
  destruct l as [|v0 l]; try discriminate. destruct v0 as [z|b|l0]; try discriminate.
  destruct z as [|p|p]; try discriminate. destruct p; try discriminate.
  repeat (match goal with |- match ?l with _ => _ end = None => destruct l; try reflexivity end).
  reflexivity.
Qed.

(* whatever orders the implementation's maps take, the set of distinct summaries it can show is the model's singleton,
   which satisfies prop_C14 and agree_C14 *)
Lemma c14_any_order i fs ps fs' pick' :
  d_c14 i = Some (fs, ps) -> kf_C14 i = 0 -> route_keys_distinct fs = true ->
  same_up_to_map_order fs fs' -> iteration_order pick' ->
  let o := VL [summary pick' fs' ps] in
  o = run_C14 i /\ agree_C14 i o = true /\ prop_C14 i o = true.
Proof.
  intros Hd Hk Hrk Hs Hp. unfold kf_C14 in Hk. rewrite Hd in Hk.
  assert (E : VL [summary pick' fs' ps] = run_C14 i).
  { unfold run_C14. rewrite Hd. f_equal. f_equal. symmetry.
    apply summary_invariant; auto. exact iteration_order_id. }
  cbv zeta. split; [exact E|]. split.
  - unfold agree_C14. rewrite Hd, Hk. simpl. rewrite E. apply val_eqb_refl.
  - unfold prop_C14, summary. rewrite (d_c14_not_reload i _ Hd). destruct (load_with pick' fs'); reflexivity.
Qed.

Lemma v_gslb_perm conf conf' : NoDup (map fst conf) -> Permutation conf conf' -> v_gslb conf = v_gslb conf'.
Proof. intros Hnd Hp. unfold v_gslb. rewrite (gslb_init_perm conf conf' Hnd Hp). reflexivity. Qed.

(* ------------------------------------------------------------------ central theorems *)
Lemma c13_central i : wf_C13 i = true -> kf_C13 i = 0 -> prop_C13 i (run_C13 i) = true.
Proof.
  intros Hwf Hk. unfold wf_C13 in Hwf.
  repeat match type of Hwf with match ?x with _ => _ end = true => destruct x; try discriminate end.
  - match type of Hwf with is_some (d_ctable ?t) = true => destruct (d_ctable t) as [f|] eqn:E; [|discriminate] end.
    eapply prop_model_ctable. exact E.
  - match type of Hwf with is_some (d_gslb ?g) = true => destruct (d_gslb g) as [f|] eqn:E; [|discriminate] end.
    eapply prop_model_gslb. exact E.
  - match type of Hwf with is_some (d_files ?h ?v ?r ?c) = true => destruct (d_files h v r c) as [fs|] eqn:E; [|discriminate] end.
    eapply prop_model_sdc; [exact E | exact Hk].
Qed.

Lemma d_c14_gslb_not_reload i x : d_c14_gslb i = Some x -> d_c14_reload i = None.
Proof.
  unfold d_c14_gslb, d_c14_reload. intro H.
  destruct i as [z|b|l]; try discriminate.
  destruct l as [|v0 l]; try discriminate. destruct v0 as [z|b|l0]; try discriminate.
  destruct z as [|p|p]; try discriminate. destruct p as [p|p|]; try discriminate. destruct p; try discriminate.
  repeat (match goal with |- match ?l with _ => _ end = None => destruct l; try reflexivity end).
  reflexivity.
Qed.

Lemma gslb_chain_some_last confs : forall s b r,
  NoDup (map fst s) -> Forall (fun c => NoDup (map fst c)) confs -> NoDup (map fst b) ->
  gslb_chain s (confs ++ [b]) = Some r -> r = sort_by_name b.
Proof.
  induction confs as [|c rest IH]; intros s b r Hs Hall Hb; simpl.
  - rewrite (sort_merge_eq s b Hs Hb). destruct (pos_total (sort_by_name b) =? 0); [discriminate|]. intro H. inversion H. reflexivity.
  - inversion Hall as [|? ? Hc Hall']; subst. rewrite (sort_merge_eq s c Hs Hc).
    destruct (pos_total (sort_by_name c) =? 0); [discriminate|].
    apply IH; [apply sorted_keys_nodup; exact Hc | exact Hall' | exact Hb].
Qed.

Lemma v_reload_prop c :
  forallb (fun a => nodup_str (map fst (weights_of a))) (rc_hist c) = true ->
  nodup_str (map fst (weights_of (rc_b c))) = true ->
  v_reload c = VErr 1 \/ v_reload c = VErr 2 \/ exists l, v_reload c = VL [VL l; VL l].
Proof.
  intros Hh Hb. unfold v_reload.
  destruct (gslb_fresh (weights_of (rc_b c))) as [f|] eqn:Ef; [|right; left; reflexivity].
  destruct (rc_hist c) as [|a rest] eqn:Eh; [left; reflexivity|].
  destruct (pos_total (weights_of a) =? 0) eqn:Ea; [left; reflexivity|].
  destruct (gslb_after_history (map weights_of (a :: rest)) (weights_of (rc_b c))) as [h|] eqn:Ehist; [|right; left; reflexivity].
  assert (h = f).
  { unfold gslb_after_history in Ehist. cbn [map] in Ehist. rewrite Ea in Ehist.
    destruct (gslb_chain (sort_by_name (weights_of a)) (map weights_of rest ++ [weights_of (rc_b c)])) as [s|] eqn:Ec; [|discriminate].
    simpl in Hh. apply andb_true_iff in Hh. destruct Hh as [Ha Hrest].
    apply gslb_chain_some_last in Ec.
    - subst s. unfold gslb_fresh in Ef. destruct (pos_total (weights_of (rc_b c)) =? 0); [discriminate|]. congruence.
    - apply sorted_keys_nodup. apply nodup_str_NoDup. exact Ha.
    - rewrite Forall_forall. intros x Hx. apply in_map_iff in Hx. destruct Hx as [y [Hy Hin]]. subst x.
      rewrite forallb_forall in Hrest. apply nodup_str_NoDup. apply Hrest. exact Hin.
    - apply nodup_str_NoDup. exact Hb. }
  subst h. right. right. unfold v_half. eexists. reflexivity.
Qed.

Lemma c14_central i : wf_C14 i = true -> kf_C14 i = 0 -> prop_C14 i (run_C14 i) = true.
Proof.
  intros Hwf _. unfold wf_C14 in Hwf. unfold run_C14, prop_C14.
  destruct (d_c14 i) as [[fs ps]|] eqn:E1.
  - rewrite (d_c14_not_reload i _ E1). unfold summary. destruct (load_with (fun l => l) fs); reflexivity.
  - destruct (d_c14_gslb i) as [conf|] eqn:E2.
    + rewrite (d_c14_gslb_not_reload i _ E2). unfold v_gslb. destruct (gslb_init conf) as [[[[s t] sg] av]|]; reflexivity.
    + destruct (d_c14_reload i) as [c|] eqn:E3; [|discriminate].
      apply andb_true_iff in Hwf. destruct Hwf as [Hh Hb].
      destruct (v_reload_prop c Hh Hb) as [H | [H | [l H]]]; rewrite H; try reflexivity.
      change (val_eqb (VL l) (VL l) = true). apply val_eqb_refl.
Qed.
