(* Proofs about model/SimpleRR.v (C05). *)
From Coq Require Import List ZArith Bool Lia.
From Bfe Require Import lib.Val model.SimpleRR run.RunC05.
Import ListNotations.
Open Scope Z_scope.

Definition returned (r : res) : Prop := (exists ids, r = ROk ids /\ ids <> []) \/ (exists c, r = RErr c).

(* ---------- single-pass algorithms: total for every oracle ---------- *)
Lemma smooth_total : forall idx s, returned (snd (smooth idx s)).
Proof.
  intros idx s. unfold smooth.
  destruct (smooth_scan idx s None 0 0) as [[s1 best] total].
  destruct best as [i|]; simpl.
  - left. eexists. split; [reflexivity|discriminate].
  - right. eexists. reflexivity.
Qed.

Lemma sticky_walk_returned : forall c s v, returned (sticky_walk c s v).
Proof.
  induction c as [|i r IH]; intros s v; simpl.
  - right. eexists. reflexivity.
  - destruct (v - bw (getb s i) <? 0).
    + left. eexists. split; [reflexivity|discriminate].
    + apply IH.
Qed.

Lemma sticky_scan_total_pos : forall idx s acc total s' c t,
  sticky_scan idx s acc total = (s', c, t) ->
  0 <= total -> (acc <> [] -> 0 < total) ->
  0 <= t /\ (c <> [] -> 0 < t).
Proof.
  induction idx as [|i r IH]; intros s acc total s' c t H Hnn Hpos; simpl in H.
  - inversion H; subst. split; [exact Hnn|]. intros Hc. apply Hpos. intros ->. apply Hc. reflexivity.
  - destruct (eligible (getb s i)) eqn:E.
    + unfold eligible in E. apply andb_true_iff in E. destruct E as [_ Ew]. apply Z.ltb_lt in Ew.
      eapply IH; [exact H|lia|intros _; lia].
    + eapply IH; [exact H|exact Hnn|exact Hpos].
Qed.

Lemma sticky_total : forall h s, returned (snd (sticky h s)).
Proof.
  intros h s. unfold sticky.
  destruct (sticky_scan _ _ [] 0) as [[s1 c] total] eqn:E.
  destruct c as [|i c'].
  - right. eexists. reflexivity.
  - apply sticky_scan_total_pos in E; [|lia|intros F; exfalso; apply F; reflexivity].
    destruct E as [_ Hp]. assert (0 < total) by (apply Hp; discriminate).
    destruct (total =? 0) eqn:Z0; [apply Z.eqb_eq in Z0; lia|].
    change (returned (sticky_walk (i :: c') s1 (h mod total))).
    apply sticky_walk_returned.
Qed.

Lemma wlc_smooth_total : forall s, returned (snd (wlc_smooth s)).
Proof.
  intros s. unfold wlc_smooth. destruct (least_conns s) as [s1 oc].
  destruct oc as [c|].
  - destruct c as [|j [|k c']].
    + apply smooth_total.
    + left. eexists. split; [reflexivity|discriminate].
    + apply smooth_total.
  - right. eexists. reflexivity.
Qed.

(* ---------- WlcSimple: total (after the fix an empty candidate list is an error, not rand % 0) ---------- *)
Lemma wlc_simple_total : forall s, returned (snd (wlc_simple s)).
Proof.
  intros s. unfold wlc_simple. destruct (least_conns s) as [s1 [c|]].
  - destruct c as [|a [|b c']].
    + right. eexists. reflexivity.
    + left. eexists. split; [reflexivity|discriminate].
    + left. eexists. split; [reflexivity|discriminate].
  - right. eexists. reflexivity.
Qed.
(* under mid-call changes the candidate list really becomes empty: both tied backends go down between the passes *)
Definition wlc_witness : dyn :=
  ([mkBe 1 100 100 true 0; mkBe 2 100 100 true 0], [[]; [(1, 0, 0); (2, 0, 0)]]).
Lemma wlc_witness_err : snd (wlc_simple wlc_witness) = RErr 1 /\ snd (wlc_simple (fst wlc_witness, [])) = ROk [1; 2].
Proof. split; vm_compute; reflexivity. Qed.

(* ---------- WrrSimple: total for every list, every start position in range and every script ---------- *)
Definition is_returned (r : res) : bool :=
  match r with ROk (_ :: _) => true | RErr _ => true | _ => false end.
Lemma floop_unfold : forall f s next start ad,
  simple_loop (S f) s next start ad =
    let n := Z.of_nat (length (fst s)) in
    if (next <? 0) || (next >=? n) then (s, start, RPanic)
    else
      let i := Z.to_nat next in
      let b := getb s i in
      if bav b && (bcur b >? 0) then
        (setb s i (add_cur (-1)), move_next next n, ROk [bid b])
      else
        let s1 := tick s in
        let all_down' := if bav b && (bw b >? 0) then false else ad in
        let next' := move_next next n in
        if next' =? start then
          if all_down' then (s1, start, RErr 1)
          else simple_loop f (reset_cur s1) 0 0 true
        else simple_loop f s1 next' start all_down'.
Proof. reflexivity. Qed.

Lemma in_range_false' : forall p n, 0 <= p < n -> (p <? 0) || (p >=? n) = false.
Proof.
  intros p n H. apply orb_false_iff. split; [apply Z.ltb_ge; lia|].
  rewrite Z.geb_leb. apply Z.leb_gt. lia.
Qed.
Lemma move_next_range : forall p n, 0 <= p < n -> 0 <= move_next p n < n.
Proof. intros p n H. unfold move_next. destruct (p + 1 >=? n) eqn:G; rewrite Z.geb_leb in G; [lia|apply Z.leb_gt in G; lia]. Qed.

(* a full static pass after a reset (every available positive-weight backend has credit): returns *)
Lemma pass_after_reset : forall bs (k : nat) p fuel,
  (forall i, bav (getb (bs, []) i) = true -> bw (getb (bs, []) i) > 0 -> bcur (getb (bs, []) i) > 0) ->
  0 <= p -> Z.of_nat k = Z.of_nat (length bs) - p -> (k <= fuel)%nat -> (0 < k)%nat ->
  is_returned (snd (simple_loop fuel (bs, []) p 0 true)) = true.
Proof.
  intros bs. induction k as [|k IH]; intros p fuel Hinv Hp Hk Hf Hpos; [lia|].
  destruct fuel as [|f]; [lia|]. rewrite floop_unfold. cbv zeta. cbn [fst].
  rewrite in_range_false' by lia.
  set (b := getb (bs, []) (Z.to_nat p)).
  destruct (bav b && (bcur b >? 0)) eqn:Eok; [reflexivity|].
  change (tick (bs, [])) with ((bs, []) : dyn).
  assert (Had : (if bav b && (bw b >? 0) then false else true) = true).
  { destruct (bav b && (bw b >? 0)) eqn:G; [|reflexivity]. exfalso.
    apply andb_true_iff in G. destruct G as [G1 G2]. rewrite Z.gtb_ltb in G2. apply Z.ltb_lt in G2.
    pose proof (Hinv (Z.to_nat p) G1) as Hc. unfold b in *. rewrite G1 in Eok. simpl in Eok.
    rewrite Z.gtb_ltb in Eok. apply Z.ltb_ge in Eok. lia. }
  rewrite Had.
  destruct (move_next p (Z.of_nat (length bs)) =? 0) eqn:Ew; [reflexivity|].
  apply Z.eqb_neq in Ew. unfold move_next in *.
  destruct (p + 1 >=? Z.of_nat (length bs)) eqn:G; [contradiction|]. rewrite Z.geb_leb in G. apply Z.leb_gt in G.
  apply IH; [exact Hinv|lia|lia|lia|lia].
Qed.

Lemma reset_getb' : forall bs i,
  getb (reset_cur (bs, [])) i =
  mkBe (bid (getb (bs, []) i)) (bw (getb (bs, []) i)) (bw (getb (bs, []) i)) (bav (getb (bs, []) i)) (bcn (getb (bs, []) i)).
Proof.
  intros bs i. unfold reset_cur, getb. cbn [fst snd].
  change be0 with ((fun b => mkBe (bid b) (bw b) (bw b) (bav b) (bcn b)) be0) at 1.
  rewrite map_nth. reflexivity.
Qed.

Definition dist' (next start n : Z) : Z := if next <? start then start - next else n - next + start.

Lemma static_returns : forall bs (d : nat) next start ad fuel,
  0 <= next < Z.of_nat (length bs) -> 0 <= start < Z.of_nat (length bs) ->
  Z.of_nat d = dist' next start (Z.of_nat (length bs)) ->
  (d + length bs <= fuel)%nat ->
  is_returned (snd (simple_loop fuel (bs, []) next start ad)) = true.
Proof.
  intros bs. induction d as [|d IH]; intros next start ad fuel Hnx Hst Hd Hf.
  - unfold dist' in Hd. destruct (next <? start) eqn:G; [apply Z.ltb_lt in G|apply Z.ltb_ge in G]; lia.
  - destruct fuel as [|f]; [lia|]. rewrite floop_unfold. cbv zeta. cbn [fst].
    rewrite in_range_false' by lia.
    set (b := getb (bs, []) (Z.to_nat next)).
    destruct (bav b && (bcur b >? 0)) eqn:Eok; [reflexivity|].
    change (tick (bs, [])) with ((bs, []) : dyn).
    set (ad' := if bav b && (bw b >? 0) then false else ad).
    unfold dist' in Hd.
    destruct (move_next next (Z.of_nat (length bs)) =? start) eqn:Ewrap.
    + destruct ad'; [reflexivity|].
      assert (Hlen : length (fst (reset_cur (bs, []))) = length bs) by (unfold reset_cur; cbn [fst]; apply map_length).
      change (reset_cur (bs, [])) with ((fst (reset_cur (bs, [])), []) : dyn).
      apply (pass_after_reset (fst (reset_cur (bs, []))) (length bs) 0 f).
      * intros i Hav Hw. change ((fst (reset_cur (bs, [])), []) : dyn) with (reset_cur (bs, [])) in *.
        rewrite reset_getb' in *. cbn [bav bw bcur] in *. exact Hw.
      * lia.
      * rewrite Hlen. lia.
      * lia.
      * lia.
    + apply Z.eqb_neq in Ewrap. unfold move_next in *.
      destruct (next + 1 >=? Z.of_nat (length bs)) eqn:G; rewrite Z.geb_leb in G;
        [apply Z.leb_le in G|apply Z.leb_gt in G];
        destruct (next <? start) eqn:G2; [apply Z.ltb_lt in G2|apply Z.ltb_ge in G2|apply Z.ltb_lt in G2|apply Z.ltb_ge in G2];
        (apply IH; [lia|lia| |lia]); unfold dist';
        match goal with |- context [?x <? ?y] => destruct (Z.ltb_spec x y) end; lia.
Qed.

Lemma apply_flip_len : forall bs f, length (apply_flip bs f) = length bs.
Proof. intros bs [[id k] v]. unfold apply_flip. apply map_length. Qed.
Lemma apply_flips_len : forall fs bs, length (apply_flips bs fs) = length bs.
Proof.
  unfold apply_flips. induction fs as [|f r IH]; intros bs; simpl; [reflexivity|]. rewrite IH. apply apply_flip_len.
Qed.
Lemma dist_le : forall next start n, 0 <= next < n -> 0 <= start < n -> 1 <= dist' next start n <= n.
Proof. intros. unfold dist'. destruct (Z.ltb_spec next start); lia. Qed.

(* every script: the call returns within |script| + 2*len probes *)
Lemma scripted_returns : forall sc bs next start ad fuel,
  0 <= next < Z.of_nat (length bs) -> 0 <= start < Z.of_nat (length bs) ->
  (length sc + 2 * length bs <= fuel)%nat ->
  is_returned (snd (simple_loop fuel (bs, sc) next start ad)) = true.
Proof.
  induction sc as [|fs sc IH]; intros bs next start ad fuel Hnx Hst Hf.
  - pose proof (dist_le next start _ Hnx Hst) as Hd.
    apply (static_returns bs (Z.to_nat (dist' next start (Z.of_nat (length bs))))); [exact Hnx|exact Hst|rewrite Z2Nat.id; lia|].
    simpl in Hf. lia.
  - destruct fuel as [|f]; [simpl in Hf; lia|]. rewrite floop_unfold. cbv zeta. cbn [fst].
    rewrite in_range_false' by lia.
    destruct (bav (getb (bs, fs :: sc) (Z.to_nat next)) && (bcur (getb (bs, fs :: sc) (Z.to_nat next)) >? 0)); [reflexivity|].
    change (tick (bs, fs :: sc)) with ((apply_flips bs fs, sc) : dyn).
    assert (Hl : length (apply_flips bs fs) = length bs) by apply apply_flips_len.
    destruct (move_next next (Z.of_nat (length bs)) =? start).
    + destruct (if bav (getb (bs, fs :: sc) (Z.to_nat next)) && (bw (getb (bs, fs :: sc) (Z.to_nat next)) >? 0) then false else ad);
        [reflexivity|].
      unfold reset_cur. cbn [fst snd].
      apply IH; rewrite ?map_length, ?Hl; simpl in Hf; lia.
    + apply IH; rewrite ?Hl; [apply move_next_range; exact Hnx|exact Hst|simpl in Hf; lia].
Qed.

Theorem simple_total : forall bs sc next,
  (bs = [] \/ 0 <= next < Z.of_nat (length bs)) ->
  is_returned (snd (simple (length sc + 2 * length bs) (bs, sc) next)) = true.
Proof.
  intros bs sc next H. unfold simple. cbn [fst]. destruct bs as [|b r] eqn:E; [reflexivity|].
  destruct H as [H|H]; [discriminate|]. rewrite <- E in *.
  apply scripted_returns; [exact H|exact H|lia].
Qed.

(* the former defect witnesses now return *)
Definition neg_witness : dyn := ([mkBe 1 (-100) (-100) true 0; mkBe 2 100 100 false 0], []).
Definition flip_witness : dyn :=
  ([mkBe 1 100 0 true 0; mkBe 2 100 100 false 0], [[(1, 0, 0)]]).
Lemma former_witnesses :
  snd (simple (simple_fuel neg_witness) neg_witness 0) = RErr 1 /\
  snd (simple (simple_fuel flip_witness) flip_witness 0) = RErr 1 /\
  snd (simple 5 (fst flip_witness, []) 0) = ROk [1] /\
  snd (simple 0 ([], []) 0) = RErr 1.
Proof. repeat split; vm_compute; reflexivity. Qed.

(* ---------- every model result is well-shaped: ROk never carries an empty id list ---------- *)
Definition res_wf (r : res) : Prop := match r with ROk ids => ids <> [] | _ => True end.
Lemma returned_wf : forall r, returned r -> res_wf r.
Proof. intros r [[ids [-> H]]|[c ->]]; simpl; auto. Qed.
Lemma simple_loop_wf : forall fuel s next start ad, res_wf (snd (simple_loop fuel s next start ad)).
Proof.
  induction fuel as [|f IH]; intros s next start ad; simpl; [exact I|].
  destruct ((next <? 0) || (next >=? Z.of_nat (length (fst s)))); [exact I|].
  destruct (bav (getb s (Z.to_nat next)) && (bcur (getb s (Z.to_nat next)) >? 0)); [simpl; discriminate|].
  destruct (move_next next (Z.of_nat (length (fst s))) =? start).
  - destruct (if bav (getb s (Z.to_nat next)) && (bw (getb s (Z.to_nat next)) >? 0) then false else ad);
      [exact I|apply IH].
  - apply IH.
Qed.
Lemma wlc_simple_wf : forall s, res_wf (snd (wlc_simple s)).
Proof.
  intros s. unfold wlc_simple. destruct (least_conns s) as [s1 [c|]]; [|exact I].
  destruct c as [|a [|b c']]; simpl; try exact I; discriminate.
Qed.
Lemma balance_wf : forall algo h sc r, res_wf (snd (balance algo h sc r)).
Proof.
  intros algo h sc r. unfold balance.
  destruct (algo =? 0).
  - unfold simple. cbn [fst]. destruct (backends r) as [|b0 r0] eqn:Eb; [exact I|]. rewrite <- Eb.
    pose proof (simple_loop_wf (simple_fuel (backends r, sc)) (backends r, sc) (nxt r) (nxt r) true) as H.
    destruct (simple_loop _ _ _ _ _) as [[s1 nx] o]. exact H.
  - destruct (algo =? 2).
    + pose proof (sticky_total h (backends r, sc)) as H. destruct (sticky h _) as [s1 o]. apply returned_wf. exact H.
    + destruct (algo =? 3).
      * pose proof (wlc_simple_wf (backends r, sc)) as H. destruct (wlc_simple _) as [s1 o]. exact H.
      * destruct (algo =? 4).
        -- pose proof (wlc_smooth_total (backends r, sc)) as H. destruct (wlc_smooth _) as [s1 o]. apply returned_wf. exact H.
        -- pose proof (smooth_total (positions (backends r, sc)) (backends r, sc)) as H.
           destruct (smooth _ _) as [s1 o]. apply returned_wf. exact H.
Qed.

(* ---------- the wire-level statement: outside the finding classes the model satisfies prop_C05 ---------- *)
Definition entry_ok (e : val * option (Z * res)) : Prop :=
  match e with
  | (obs, Some (_, r)) => res_wf r /\ exists h st, obs = VL [VZ h; enc_res r; st]
  | (obs, None) => obs_ok obs = true
  end.
Lemma run_ops_entries : forall ops r hs l, run_ops r ops hs = Some l -> Forall entry_ok l.
Proof.
  induction ops as [|v rest IH]; intros r hs l H; simpl in H.
  - inversion H. constructor.
  - destruct (dec_op v) as [o|]; [|discriminate].
    destruct (negb (wf_op r o)); [discriminate|].
    destruct (step r o _) as [[r' obs] x] eqn:Es.
    assert (Hent : entry_ok (obs, x)).
    { destruct o as [algo sc|id b|id d|conf]; simpl in Es.
      - pose proof (balance_wf algo (hd 0 hs) sc r) as Hwf.
        destruct (balance algo (hd 0 hs) sc r) as [r2 y]. inversion Es; subst. simpl.
        split; [exact Hwf|]. eexists. eexists. reflexivity.
      - inversion Es; subst. reflexivity.
      - inversion Es; subst. reflexivity.
      - inversion Es; subst. reflexivity. }
    destruct x as [[a y]|].
    + destruct y; try (destruct (run_ops r' rest _) as [l'|] eqn:E; [|discriminate]; inversion H; subst;
                       constructor; [exact Hent|eapply IH; exact E]).
      inversion H; subst. constructor; [exact Hent|constructor].
    + destruct (run_ops r' rest _) as [l'|] eqn:E; [|discriminate]. inversion H; subst.
      constructor; [exact Hent|eapply IH; exact E].
Qed.
Lemma first_bad_ok : forall l, Forall entry_ok l -> first_bad l = 0 -> forallb obs_ok (map fst l) = true.
Proof.
  induction l as [|[obs x] l IH]; intros HF Hb; [reflexivity|].
  inversion HF as [|? ? He HF']; subst. simpl.
  destruct x as [[a y]|].
  - destruct He as [Hwf [h [st ->]]].
    destruct y as [ids|c| |]; simpl in Hb.
    + rewrite (IH HF' Hb). destruct ids as [|x ids']; [exfalso; apply Hwf; reflexivity|reflexivity].
    + rewrite (IH HF' Hb). reflexivity.
    + destruct (a =? 0); discriminate.
    + discriminate.
  - simpl in He. rewrite He. simpl in Hb. rewrite (IH HF' Hb). reflexivity.
Qed.
Theorem model_satisfies_prop : forall i, kf_C05 i = 0 -> prop_C05 i (run_C05 i) = true.
Proof.
  intros i Hk. unfold kf_C05 in Hk. unfold run_C05, prop_C05.
  destruct (run_with i []) as [l|] eqn:E; [|reflexivity].
  apply first_bad_ok; [|exact Hk].
  unfold run_with in E.
  destruct i as [z|b|[|c [|[z|b|ops] [|? ?]]]]; try discriminate.
  destruct (dec_conf c) as [conf|]; [|discriminate].
  destruct (distinct (map fst conf)); [|discriminate].
  eapply run_ops_entries. exact E.
Qed.

(* non-vacuity examples *)
Lemma ex_smooth_flip :
  snd (smooth [0%nat; 1%nat] ([mkBe 1 100 100 true 0; mkBe 2 200 200 true 0], [[(2, 0, 0)]])) = ROk [1]
  /\ snd (smooth [0%nat; 1%nat] ([mkBe 1 100 100 true 0; mkBe 2 200 200 true 0], [])) = ROk [2].
Proof. split; vm_compute; reflexivity. Qed.
Lemma ex_wire :
  let i := VL [VL [VL [VZ 1; VZ 1]; VL [VZ 2; VZ 2]];
               VL [VL [VZ 2; VZ 2; VZ 0]; VL [VZ 1; VZ 0; VB []; VL [VL [VL [VZ 1; VZ 0; VZ 0]]]]; VL [VZ 1; VZ 1; VB []; VL []]]] in
  kf_C05 i = 0 /\ run_C05 i <> VErr 0.
Proof. split; vm_compute; [reflexivity|discriminate]. Qed.
