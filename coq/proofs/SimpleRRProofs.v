(* Proofs about model/SimpleRR.v (C05). *)
From Coq Require Import List ZArith Bool Lia.
From Bfe Require Import lib.Val model.SimpleRR run.RunC05.
Import ListNotations.
Open Scope Z_scope.

Definition returned (r : res) : Prop := (exists ids, r = ROk ids /\ ids <> []) \/ (exists c, r = RErr c).

(* ---------- single-pass algorithms: total for every oracle ---------- *)
Lemma smooth_total : forall idx s, returned (snd (smooth idx s)).
Proof.
  intros idx s. unfold smooth.
  destruct (smooth_scan idx s None 0 0) as [[s1 best] total].
  destruct best as [i|]; simpl.
  - left. eexists. split; [reflexivity|discriminate].
  - right. eexists. reflexivity.
Qed.

Lemma sticky_walk_returned : forall c s v, returned (sticky_walk c s v).
Proof.
  induction c as [|i r IH]; intros s v; simpl.
  - right. eexists. reflexivity.
  - destruct (v - bw (getb s i) <? 0).
    + left. eexists. split; [reflexivity|discriminate].
    + apply IH.
Qed.

Lemma sticky_scan_total_pos : forall idx s acc total s' c t,
  sticky_scan idx s acc total = (s', c, t) ->
  0 <= total -> (acc <> [] -> 0 < total) ->
  0 <= t /\ (c <> [] -> 0 < t).
Proof.
  induction idx as [|i r IH]; intros s acc total s' c t H Hnn Hpos; simpl in H.
  - inversion H; subst. split; [exact Hnn|]. intros Hc. apply Hpos. intros ->. apply Hc. reflexivity.
  - destruct (eligible (getb s i)) eqn:E.
    + unfold eligible in E. apply andb_true_iff in E. destruct E as [_ Ew]. apply Z.ltb_lt in Ew.
      eapply IH; [exact H|lia|intros _; lia].
    + eapply IH; [exact H|exact Hnn|exact Hpos].
Qed.

Lemma sticky_total : forall h s, returned (snd (sticky h s)).
Proof.
  intros h s. unfold sticky.
  destruct (sticky_scan _ _ [] 0) as [[s1 c] total] eqn:E.
  destruct c as [|i c'].
  - right. eexists. reflexivity.
  - apply sticky_scan_total_pos in E; [|lia|intros F; exfalso; apply F; reflexivity].
    destruct E as [_ Hp]. assert (0 < total) by (apply Hp; discriminate).
    destruct (total =? 0) eqn:Z0; [apply Z.eqb_eq in Z0; lia|].
    change (returned (sticky_walk (i :: c') s1 (h mod total))).
    apply sticky_walk_returned.
Qed.

Lemma wlc_smooth_total : forall s, returned (snd (wlc_smooth s)).
Proof.
  intros s. unfold wlc_smooth. destruct (least_conns s) as [s1 oc].
  destruct oc as [c|].
  - destruct c as [|j [|k c']].
    + apply smooth_total.
    + left. eexists. split; [reflexivity|discriminate].
    + apply smooth_total.
  - right. eexists. reflexivity.
Qed.

(* ---------- WlcSimple: refuted under mid-call changes, total for a static environment ---------- *)
Definition wlc_witness : dyn :=
  ([mkBe 1 100 100 true 0; mkBe 2 100 100 true 0],
   [[]; [(1, 0, 0); (2, 0, 0)]]).     (* both go down between the two passes of leastConnsBalance *)
Lemma wlc_simple_refuted : snd (wlc_simple wlc_witness) = RPanic.
Proof. vm_compute. reflexivity. Qed.

Definition static (s : dyn) : Prop := snd s = [].
Lemma tick_static : forall s, static s -> tick s = s.
Proof. intros [bs sc] H. unfold static in H. simpl in H. subst. reflexivity. Qed.

Lemma comp_lc_refl : forall b, comp_lc b b = 0.
Proof. intros b. unfold comp_lc. lia. Qed.

Lemma lc_pass1_static : forall idx s best single s' best' single',
  static s -> lc_pass1 idx s best single = (s', best', single') ->
  s' = s /\
  (forall j, best' = Some j -> (best = Some j \/ In j idx) /\
     (best = Some j -> eligible (getb s j) = true) -> True) /\
  (match best with Some j => eligible (getb s j) = true | None => True end ->
   match best' with Some j => eligible (getb s j) = true /\ (best = Some j \/ In j idx) | None => best = None end).
Proof.
  induction idx as [|i r IH]; intros s best single s' best' single' Hs H; simpl in H.
  - inversion H; subst. split; [reflexivity|]. split; [intros; exact I|].
    intros Hb. destruct best'; [split; [exact Hb|left; reflexivity]|reflexivity].
  - rewrite (tick_static s Hs) in H.
    destruct (eligible (getb s i)) eqn:E; simpl in H.
    + destruct best as [j|].
      * destruct (comp_lc (getb s j) (getb s i) >? 0).
        -- apply IH in H; [|exact Hs]. destruct H as [H1 [_ H3]]. split; [exact H1|]. split; [intros; exact I|].
           intros _. specialize (H3 E). destruct best'; [|discriminate].
           destruct H3 as [He [Hj|Hj]]; split; try exact He; right; [inversion Hj; subst; left; reflexivity|right; exact Hj].
        -- destruct (comp_lc (getb s j) (getb s i) =? 0);
           (apply IH in H; [|exact Hs]; destruct H as [H1 [_ H3]]; split; [exact H1|]; split; [intros; exact I|];
            intros Hb; specialize (H3 Hb); destruct best'; [|discriminate];
            destruct H3 as [He [Hj|Hj]]; split; try exact He; [left; exact Hj|right; right; exact Hj]).
      * apply IH in H; [|exact Hs]. destruct H as [H1 [_ H3]]. split; [exact H1|]. split; [intros; exact I|].
        intros _. specialize (H3 E). destruct best'; [|discriminate].
        destruct H3 as [He [Hj|Hj]]; split; try exact He; right; [inversion Hj; subst; left; reflexivity|right; exact Hj].
    + apply IH in H; [|exact Hs]. destruct H as [H1 [_ H3]]. split; [exact H1|]. split; [intros; exact I|].
      intros Hb. specialize (H3 Hb). destruct best'.
      * destruct H3 as [He [Hj|Hj]]; split; try exact He; [left; exact Hj|right; right; exact Hj].
      * exact H3.
Qed.

Lemma lc_pass2_static_in : forall idx s j acc s' c,
  static s -> lc_pass2 idx s j acc = (s', c) ->
  eligible (getb s j) = true -> (In j idx \/ In j acc) -> In j c.
Proof.
  induction idx as [|i r IH]; intros s j acc s' c Hs H He Hin; simpl in H.
  - inversion H; subst. destruct Hin as [[]|Hin]. rewrite <- in_rev. exact Hin.
  - rewrite (tick_static s Hs) in H.
    destruct (Nat.eq_dec i j) as [->|Hne].
    + rewrite He in H. simpl in H. rewrite comp_lc_refl in H. simpl in H.
      eapply IH; [exact Hs|exact H|exact He|right; left; reflexivity].
    + assert (Hin' : forall acc', (In j acc -> In j acc') -> In j r \/ In j acc').
      { intros acc' Hacc. destruct Hin as [[Hx|Hx]|Hx]; [contradiction|left; exact Hx|right; apply Hacc; exact Hx]. }
      destruct (eligible (getb s i)); simpl in H.
      * destruct (comp_lc (getb s j) (getb s i) =? 0).
        -- eapply IH; [exact Hs|exact H|exact He|apply Hin'; intros; right; assumption].
        -- eapply IH; [exact Hs|exact H|exact He|apply Hin'; intros; assumption].
      * eapply IH; [exact Hs|exact H|exact He|apply Hin'; intros; assumption].
Qed.

Lemma wlc_simple_static_total : forall s, static s -> returned (snd (wlc_simple s)).
Proof.
  intros s Hs. unfold wlc_simple, least_conns.
  destruct (lc_pass1 (positions s) s None true) as [[s1 best] single] eqn:E1.
  apply lc_pass1_static in E1; [|exact Hs]. destruct E1 as [-> [_ H3]]. specialize (H3 I).
  destruct best as [j|].
  - destruct H3 as [He [Hj|Hj]]; [discriminate|].
    destruct single.
    + left. eexists. split; [reflexivity|discriminate].
    + destruct (lc_pass2 (positions s) s j []) as [s2 c] eqn:E2.
      pose proof (lc_pass2_static_in _ _ _ _ _ _ Hs E2 He (or_introl Hj)) as Hin.
      destruct c as [|a [|b c']]; [destruct Hin| |]; left; eexists; (split; [reflexivity|discriminate]).
  - right. eexists. reflexivity.
Qed.

(* ---------- WrrSimple ---------- *)
(* (a) empty list: index panic, whatever the script *)
Lemma simple_empty_panics : forall fuel sc next, snd (simple (S fuel) ([], sc) next) = RPanic.
Proof.
  intros fuel sc next. unfold simple. simpl.
  destruct ((next <? 0) || (next >=? 0)) eqn:E; [reflexivity|].
  apply orb_false_iff in E. destruct E as [E1 E2]. apply Z.ltb_ge in E1. rewrite Z.geb_leb in E2.
  apply Z.leb_gt in E2. lia.
Qed.

(* (b) static environment: an available backend of negative weight, the positive-weight backend down *)
Definition neg_witness : dyn := ([mkBe 1 (-100) (-100) true 0; mkBe 2 100 100 false 0], []).
Lemma neg_cycle : forall fuel,
  snd (simple_loop fuel neg_witness 0 0 false) = RFuel /\ snd (simple_loop fuel neg_witness 1 0 false) = RFuel.
Proof.
  induction fuel as [|f [IH0 IH1]]; [split; reflexivity|].
  split.
  - change (simple_loop (S f) neg_witness 0 0 false) with (simple_loop f neg_witness 1 0 false). exact IH1.
  - change (simple_loop (S f) neg_witness 1 0 false) with (simple_loop f neg_witness 0 0 false). exact IH0.
Qed.
Lemma simple_livelock_static : forall fuel, snd (simple fuel neg_witness 0) = RFuel.
Proof.
  intros [|f]; [reflexivity|]. unfold simple.
  change (simple_loop (S f) neg_witness 0 0 true) with (simple_loop f neg_witness 1 0 false).
  apply neg_cycle.
Qed.

(* (c) all weights positive; one availability flip between two probes of one call *)
Definition flip_witness : dyn :=
  ([mkBe 1 100 0 true 0; mkBe 2 100 100 false 0], [[(1, 0, 0)]]).
Definition flip_after : dyn := ([mkBe 1 100 100 false 0; mkBe 2 100 100 false 0], []).
Lemma flip_cycle : forall fuel,
  snd (simple_loop fuel flip_after 0 0 false) = RFuel /\ snd (simple_loop fuel flip_after 1 0 false) = RFuel.
Proof.
  induction fuel as [|f [IH0 IH1]]; [split; reflexivity|].
  split.
  - change (simple_loop (S f) flip_after 0 0 false) with (simple_loop f flip_after 1 0 false). exact IH1.
  - change (simple_loop (S f) flip_after 1 0 false) with (simple_loop f flip_after 0 0 false). exact IH0.
Qed.
Lemma simple_livelock_one_flip : forall fuel, snd (simple fuel flip_witness 0) = RFuel.
Proof.
  intros [|[|f]]; [reflexivity|reflexivity|]. unfold simple.
  change (simple_loop (S (S f)) flip_witness 0 0 true) with (simple_loop f flip_after 0 0 false).
  apply flip_cycle.
Qed.
(* the same state without the flip returns *)
Lemma simple_no_flip_returns : snd (simple 5 (fst flip_witness, []) 0) = ROk [1].
Proof. vm_compute. reflexivity. Qed.

(* ---------- every model result is well-shaped: ROk never carries an empty id list ---------- *)
Definition res_wf (r : res) : Prop := match r with ROk ids => ids <> [] | _ => True end.
Lemma returned_wf : forall r, returned r -> res_wf r.
Proof. intros r [[ids [-> H]]|[c ->]]; simpl; auto. Qed.
Lemma simple_loop_wf : forall fuel s next start ad, res_wf (snd (simple_loop fuel s next start ad)).
Proof.
  induction fuel as [|f IH]; intros s next start ad; simpl; [exact I|].
  destruct ((next <? 0) || (next >=? Z.of_nat (length (fst s)))); [exact I|].
  destruct (bav (getb s (Z.to_nat next)) && (bcur (getb s (Z.to_nat next)) >? 0)); [simpl; discriminate|].
  destruct (move_next next (Z.of_nat (length (fst s))) =? start).
  - destruct (if bav (getb s (Z.to_nat next)) && negb (bw (getb s (Z.to_nat next)) =? 0) then false else ad);
      [exact I|apply IH].
  - apply IH.
Qed.
Lemma wlc_simple_wf : forall s, res_wf (snd (wlc_simple s)).
Proof.
  intros s. unfold wlc_simple. destruct (least_conns s) as [s1 [c|]]; [|exact I].
  destruct c as [|a [|b c']]; simpl; try exact I; discriminate.
Qed.
Lemma balance_wf : forall algo h sc r, res_wf (snd (balance algo h sc r)).
Proof.
  intros algo h sc r. unfold balance.
  destruct (algo =? 0).
  - unfold simple. pose proof (simple_loop_wf (simple_fuel (backends r, sc)) (backends r, sc) (nxt r) (nxt r) true) as H.
    destruct (simple_loop _ _ _ _ _) as [[s1 nx] o]. exact H.
  - destruct (algo =? 2).
    + pose proof (sticky_total h (backends r, sc)) as H. destruct (sticky h _) as [s1 o]. apply returned_wf. exact H.
    + destruct (algo =? 3).
      * pose proof (wlc_simple_wf (backends r, sc)) as H. destruct (wlc_simple _) as [s1 o]. exact H.
      * destruct (algo =? 4).
        -- pose proof (wlc_smooth_total (backends r, sc)) as H. destruct (wlc_smooth _) as [s1 o]. apply returned_wf. exact H.
        -- pose proof (smooth_total (positions (backends r, sc)) (backends r, sc)) as H.
           destruct (smooth _ _) as [s1 o]. apply returned_wf. exact H.
Qed.

(* ---------- the wire-level statement: outside the finding classes the model satisfies prop_C05 ---------- *)
Definition entry_ok (e : val * option (Z * res)) : Prop :=
  match e with
  | (obs, Some (_, r)) => res_wf r /\ exists h st, obs = VL [VZ h; enc_res r; st]
  | (obs, None) => obs_ok obs = true
  end.
Lemma run_ops_entries : forall ops r hs l, run_ops r ops hs = Some l -> Forall entry_ok l.
Proof.
  induction ops as [|v rest IH]; intros r hs l H; simpl in H.
  - inversion H. constructor.
  - destruct (dec_op v) as [o|]; [|discriminate].
    destruct (negb (wf_op r o)); [discriminate|].
    destruct (step r o _) as [[r' obs] x] eqn:Es.
    assert (Hent : entry_ok (obs, x)).
    { destruct o as [algo sc|id b|id d|conf]; simpl in Es.
      - pose proof (balance_wf algo (hd 0 hs) sc r) as Hwf.
        destruct (balance algo (hd 0 hs) sc r) as [r2 y]. inversion Es; subst. simpl.
        split; [exact Hwf|]. eexists. eexists. reflexivity.
      - inversion Es; subst. reflexivity.
      - inversion Es; subst. reflexivity.
      - inversion Es; subst. reflexivity. }
    destruct x as [[a y]|].
    + destruct y; try (destruct (run_ops r' rest _) as [l'|] eqn:E; [|discriminate]; inversion H; subst;
                       constructor; [exact Hent|eapply IH; exact E]).
      inversion H; subst. constructor; [exact Hent|constructor].
    + destruct (run_ops r' rest _) as [l'|] eqn:E; [|discriminate]. inversion H; subst.
      constructor; [exact Hent|eapply IH; exact E].
Qed.
Lemma first_bad_ok : forall l, Forall entry_ok l -> first_bad l = 0 -> forallb obs_ok (map fst l) = true.
Proof.
  induction l as [|[obs x] l IH]; intros HF Hb; [reflexivity|].
  inversion HF as [|? ? He HF']; subst. simpl.
  destruct x as [[a y]|].
  - destruct He as [Hwf [h [st ->]]].
    destruct y as [ids|c| |]; simpl in Hb.
    + rewrite (IH HF' Hb). destruct ids as [|x ids']; [exfalso; apply Hwf; reflexivity|reflexivity].
    + rewrite (IH HF' Hb). reflexivity.
    + destruct (a =? 0); discriminate.
    + discriminate.
  - simpl in He. rewrite He. simpl in Hb. rewrite (IH HF' Hb). reflexivity.
Qed.
Theorem model_satisfies_prop : forall i, kf_C05 i = 0 -> prop_C05 i (run_C05 i) = true.
Proof.
  intros i Hk. unfold kf_C05 in Hk. unfold run_C05, prop_C05.
  destruct (run_with i []) as [l|] eqn:E; [|reflexivity].
  apply first_bad_ok; [|exact Hk].
  unfold run_with in E.
  destruct i as [z|b|[|c [|[z|b|ops] [|? ?]]]]; try discriminate.
  destruct (dec_conf c) as [conf|]; [|discriminate].
  destruct (distinct (map fst conf)); [|discriminate].
  eapply run_ops_entries. exact E.
Qed.

(* ---------- WrrSimple in a static environment with non-negative weights: bounded enumeration ----------
   all lists of 1..3 backends with weight in {0,100,200}, current in {0,1,100}, any availability,
   every start position: the call returns within 2*len+1 probes *)
Definition small_bes : list be :=
  flat_map (fun w => flat_map (fun c => [mkBe 0 w c true 0; mkBe 0 w c false 0]) [0; 1; 100]) [0; 100; 200].
Definition small_lists : list (list be) :=
  let l1 := map (fun b => [b]) small_bes in
  let l2 := flat_map (fun b => map (fun l => b :: l) l1) small_bes in
  let l3 := flat_map (fun b => map (fun l => b :: l) l2) small_bes in
  l1 ++ l2 ++ l3.
Definition is_returned (r : res) : bool :=
  match r with ROk (_ :: _) => true | RErr _ => true | _ => false end.
Definition simple_small_ok (bs : list be) : bool :=
  forallb (fun k => is_returned (snd (simple (2 * length bs + 1) (bs, []) (Z.of_nat k)))) (seq 0 (length bs)).
Lemma simple_partial_small : forallb simple_small_ok small_lists = true.
Proof. vm_compute. reflexivity. Qed.
Lemma simple_partial_bounded : forall bs k,
  In bs small_lists -> (k < length bs)%nat ->
  is_returned (snd (simple (2 * length bs + 1) (bs, []) (Z.of_nat k))) = true.
Proof.
  intros bs k Hin Hk. pose proof simple_partial_small as H.
  rewrite forallb_forall in H. specialize (H bs Hin). unfold simple_small_ok in H.
  rewrite forallb_forall in H. apply H. apply in_seq. lia.
Qed.

(* non-vacuity examples *)
Lemma ex_smooth_flip :
  snd (smooth [0%nat; 1%nat] ([mkBe 1 100 100 true 0; mkBe 2 200 200 true 0], [[(2, 0, 0)]])) = ROk [1]
  /\ snd (smooth [0%nat; 1%nat] ([mkBe 1 100 100 true 0; mkBe 2 200 200 true 0], [])) = ROk [2].
Proof. split; vm_compute; reflexivity. Qed.
Lemma ex_small_lists : Z.of_nat (length small_lists) = 6174.
Proof. vm_compute. reflexivity. Qed.
Lemma ex_wire :
  let i := VL [VL [VL [VZ 1; VZ 1]; VL [VZ 2; VZ 2]];
               VL [VL [VZ 2; VZ 2; VZ 0]; VL [VZ 1; VZ 0; VB []; VL [VL [VL [VZ 1; VZ 0; VZ 0]]]]; VL [VZ 1; VZ 1; VB []; VL []]]] in
  kf_C05 i = 0 /\ run_C05 i <> VErr 0.
Proof. split; vm_compute; [reflexivity|discriminate]. Qed.

(* ---------- WrrSimple in a static environment with non-negative weights: general proof ---------- *)
Lemma loop_unfold : forall f s next start ad,
  simple_loop (S f) s next start ad =
    let n := Z.of_nat (length (fst s)) in
    if (next <? 0) || (next >=? n) then (s, start, RPanic)
    else
      let i := Z.to_nat next in
      let b := getb s i in
      if bav b && (bcur b >? 0) then
        (setb s i (add_cur (-1)), move_next next n, ROk [bid b])
      else
        let s1 := tick s in
        let all_down' := if bav b && negb (bw b =? 0) then false else ad in
        let next' := move_next next n in
        if next' =? start then
          if all_down' then (s1, start, RErr 1)
          else simple_loop f (reset_cur s1) 0 0 all_down'
        else simple_loop f s1 next' start all_down'.
Proof. reflexivity. Qed.

Lemma in_range_false : forall p n, 0 <= p < n -> (p <? 0) || (p >=? n) = false.
Proof.
  intros p n H. apply orb_false_iff. split; [apply Z.ltb_ge; lia|].
  rewrite Z.geb_leb. apply Z.leb_gt. lia.
Qed.

(* linear scan from position p with brr.next = 0: an available backend with credit at or after p is found *)
Lemma scan_finds : forall bs (k : nat) p ad fuel,
  0 <= p -> Z.of_nat k = Z.of_nat (length bs) - p -> (k <= fuel)%nat ->
  (exists i : nat, p <= Z.of_nat i < Z.of_nat (length bs) /\
                   bav (getb (bs, []) i) = true /\ bcur (getb (bs, []) i) > 0) ->
  is_returned (snd (simple_loop fuel (bs, []) p 0 ad)) = true.
Proof.
  intros bs. induction k as [|k IH]; intros p ad fuel Hp Hk Hf [i [Hi [Hav Hcur]]]; [lia|].
  destruct fuel as [|f]; [lia|]. rewrite loop_unfold. cbv zeta. cbn [fst].
  rewrite in_range_false by lia.
  destruct (bav (getb (bs, []) (Z.to_nat p)) && (bcur (getb (bs, []) (Z.to_nat p)) >? 0)) eqn:Eok; [reflexivity|].
  assert (Hne : Z.of_nat i <> p).
  { intros <-. rewrite Nat2Z.id in Eok. rewrite Hav in Eok. simpl in Eok. apply Z.gtb_ltb in Eok || idtac.
    destruct (bcur (getb (bs, []) i) >? 0) eqn:G; [discriminate|]. rewrite Z.gtb_ltb in G. apply Z.ltb_ge in G. lia. }
  assert (Hmv : move_next p (Z.of_nat (length bs)) = p + 1).
  { unfold move_next. destruct (p + 1 >=? Z.of_nat (length bs)) eqn:G; [|reflexivity].
    rewrite Z.geb_leb in G. apply Z.leb_le in G. lia. }
  rewrite Hmv. destruct (p + 1 =? 0) eqn:G; [apply Z.eqb_eq in G; lia|].
  change (tick (bs, [])) with ((bs, []) : dyn).
  apply IH; [lia|lia|lia|]. exists i. split; [lia|split; assumption].
Qed.

Definition dist (next start n : Z) : Z := if next <? start then start - next else n - next + start.

Lemma reset_getb : forall bs i,
  getb (reset_cur (bs, [])) i =
  mkBe (bid (getb (bs, []) i)) (bw (getb (bs, []) i)) (bw (getb (bs, []) i)) (bav (getb (bs, []) i)) (bcn (getb (bs, []) i)).
Proof.
  intros bs i. unfold reset_cur, getb. cbn [fst snd].
  change be0 with ((fun b => mkBe (bid b) (bw b) (bw b) (bav b) (bcn b)) be0) at 1.
  rewrite map_nth. reflexivity.
Qed.

Lemma phase1 : forall bs (d : nat) next start ad fuel,
  (forall i, 0 <= bw (getb (bs, []) i)) ->
  0 <= next < Z.of_nat (length bs) -> 0 <= start < Z.of_nat (length bs) ->
  Z.of_nat d = dist next start (Z.of_nat (length bs)) ->
  (d + length bs + 1 <= fuel)%nat ->
  (ad = false -> exists i : nat, Z.of_nat i < Z.of_nat (length bs) /\
                   bav (getb (bs, []) i) = true /\ bw (getb (bs, []) i) > 0) ->
  is_returned (snd (simple_loop fuel (bs, []) next start ad)) = true.
Proof.
  intros bs. induction d as [|d IH]; intros next start ad fuel Hw Hnx Hst Hd Hf Had.
  - unfold dist in Hd. destruct (next <? start) eqn:G; [apply Z.ltb_lt in G|apply Z.ltb_ge in G]; lia.
  - destruct fuel as [|f]; [lia|]. rewrite loop_unfold. cbv zeta. cbn [fst].
    rewrite in_range_false by lia.
    set (b := getb (bs, []) (Z.to_nat next)).
    destruct (bav b && (bcur b >? 0)) eqn:Eok; [reflexivity|].
    change (tick (bs, [])) with ((bs, []) : dyn).
    set (ad' := if bav b && negb (bw b =? 0) then false else ad).
    assert (Had' : ad' = false -> exists i : nat, Z.of_nat i < Z.of_nat (length bs) /\
                   bav (getb (bs, []) i) = true /\ bw (getb (bs, []) i) > 0).
    { unfold ad'. destruct (bav b && negb (bw b =? 0)) eqn:G.
      - intros _. apply andb_true_iff in G. destruct G as [G1 G2]. apply negb_true_iff in G2. apply Z.eqb_neq in G2.
        exists (Z.to_nat next). split; [rewrite Z2Nat.id; lia|]. split; [exact G1|].
        pose proof (Hw (Z.to_nat next)) as Hwn. unfold b in *. lia.
      - exact Had. }
    unfold dist in Hd.
    destruct (move_next next (Z.of_nat (length bs)) =? start) eqn:Ewrap.
    + destruct ad' eqn:Ead; [reflexivity|].
      destruct (Had' eq_refl) as [i [Hi [Hav Hwi]]].
      assert (Hlen : length (fst (reset_cur (bs, []))) = length bs) by (unfold reset_cur; cbn [fst]; apply map_length).
      pose proof (scan_finds (fst (reset_cur (bs, []))) (length bs) 0 false f) as S.
      change (reset_cur (bs, [])) with ((fst (reset_cur (bs, [])), []) : dyn).
      apply S; [lia|rewrite Hlen; lia|lia|].
      exists i. rewrite Hlen. split; [lia|].
      change ((fst (reset_cur (bs, [])), []) : dyn) with (reset_cur (bs, [])).
      rewrite reset_getb. cbn [bav bcur]. split; [exact Hav|exact Hwi].
    + apply Z.eqb_neq in Ewrap. unfold move_next in *.
      destruct (next + 1 >=? Z.of_nat (length bs)) eqn:G; rewrite Z.geb_leb in G;
        [apply Z.leb_le in G|apply Z.leb_gt in G];
        destruct (next <? start) eqn:G2; [apply Z.ltb_lt in G2|apply Z.ltb_ge in G2|apply Z.ltb_lt in G2|apply Z.ltb_ge in G2];
        (apply IH; [exact Hw|lia|lia| |lia|exact Had']); unfold dist;
        match goal with |- context [?x <? ?y] => destruct (Z.ltb_spec x y) end; lia.
Qed.

(* BalanceRR.Balance(WrrSimple) on a non-empty list with weights >= 0 and no concurrent change returns a backend
   or "all backend is down" within 2*len+1 probes, from every state of the credits and every brr.next in range. *)
Theorem simple_static_total : forall bs next,
  (forall b, In b bs -> 0 <= bw b) -> 0 <= next < Z.of_nat (length bs) ->
  is_returned (snd (simple (2 * length bs + 1) (bs, []) next)) = true.
Proof.
  intros bs next Hw Hn. unfold simple.
  apply (phase1 bs (length bs) next next true).
  - intros i. unfold getb. cbn [fst]. destruct (nth_in_or_default i bs be0) as [H|H]; [apply Hw; exact H|rewrite H; simpl; lia].
  - exact Hn.
  - exact Hn.
  - unfold dist. rewrite Z.ltb_irrefl. lia.
  - lia.
  - discriminate.
Qed.

Lemma ex_partial :
  (forall b, In b (fst flip_witness) -> 0 <= bw b) /\ snd (simple 5 (fst flip_witness, []) 0) = ROk [1].
Proof. split; [intros b [<-|[<-|[]]]; simpl; lia|exact simple_no_flip_returns]. Qed.
