(* Proofs about model/SimpleRR.v (C05). *)
From Coq Require Import List ZArith Bool Lia.
From Bfe Require Import lib.Val model.SimpleRR run.RunC05.
Import ListNotations.
Open Scope Z_scope.

Definition returned (r : res) : Prop := (exists ids, r = ROk ids /\ ids <> []) \/ (exists c, r = RErr c).

(* ---------- single-pass algorithms: total for every oracle ---------- *)
Lemma smooth_total : forall idx s, returned (snd (smooth idx s)).
Proof.
  intros idx s. unfold smooth.
  destruct (smooth_scan idx s None 0 0) as [[s1 best] total].
  destruct best as [i|]; simpl.
  - left. eexists. split; [reflexivity|discriminate].
  - right. eexists. reflexivity.
Qed.

Lemma sticky_walk_returned : forall c s v, returned (sticky_walk c s v).
Proof.
  induction c as [|i r IH]; intros s v; simpl.
  - right. eexists. reflexivity.
  - destruct (v - bw (getb s i) <? 0).
    + left. eexists. split; [reflexivity|discriminate].
    + apply IH.
Qed.

Lemma sticky_scan_total_pos : forall idx s acc total s' c t,
  sticky_scan idx s acc total = (s', c, t) ->
  0 <= total -> (acc <> [] -> 0 < total) ->
  0 <= t /\ (c <> [] -> 0 < t).
Proof.
  induction idx as [|i r IH]; intros s acc total s' c t H Hnn Hpos; simpl in H.
  - inversion H; subst. split; [exact Hnn|]. intros Hc. apply Hpos. intros ->. apply Hc. reflexivity.
  - destruct (eligible (getb s i)) eqn:E.
    + unfold eligible in E. apply andb_true_iff in E. destruct E as [_ Ew]. apply Z.ltb_lt in Ew.
      eapply IH; [exact H|lia|intros _; lia].
    + eapply IH; [exact H|exact Hnn|exact Hpos].
Qed.

Lemma sticky_total : forall h s, returned (snd (sticky h s)).
Proof.
  intros h s. unfold sticky.
  destruct (sticky_scan _ _ [] 0) as [[s1 c] total] eqn:E.
  destruct c as [|i c'].
  - right. eexists. reflexivity.
  - apply sticky_scan_total_pos in E; [|lia|intros F; exfalso; apply F; reflexivity].
    destruct E as [_ Hp]. assert (0 < total) by (apply Hp; discriminate).
    destruct (total =? 0) eqn:Z0; [apply Z.eqb_eq in Z0; lia|].
    change (returned (sticky_walk (i :: c') s1 (h mod total))).
    apply sticky_walk_returned.
Qed.

Lemma wlc_smooth_total : forall s, returned (snd (wlc_smooth s)).
Proof.
  intros s. unfold wlc_smooth. destruct (least_conns s) as [s1 oc].
  destruct oc as [c|].
  - destruct c as [|j [|k c']].
    + apply smooth_total.
    + left. eexists. split; [reflexivity|discriminate].
    + apply smooth_total.
  - right. eexists. reflexivity.
Qed.

(* ---------- WlcSimple: total (after the fix an empty candidate list is an error, not rand % 0) ---------- *)
Lemma wlc_simple_total : forall s, returned (snd (wlc_simple s)).
Proof.
  intros s. unfold wlc_simple. destruct (least_conns s) as [s1 [c|]].
  - destruct c as [|a [|b c']].
    + right. eexists. reflexivity.
    + left. eexists. split; [reflexivity|discriminate].
    + left. eexists. split; [reflexivity|discriminate].
  - right. eexists. reflexivity.
Qed.
(* under mid-call changes the candidate list really becomes empty: both tied backends go down between the passes *)
Definition wlc_witness : dyn :=
  ([mkBe 1 100 100 true 0; mkBe 2 100 100 true 0], [[]; [(1, 0, 0); (2, 0, 0)]]).
Lemma wlc_witness_err : snd (wlc_simple wlc_witness) = RErr 1 /\ snd (wlc_simple (fst wlc_witness, [])) = ROk [1; 2].
Proof. split; vm_compute; reflexivity. Qed.

(* ---------- WrrSimple: total for every list, every start position in range and every script ---------- *)
Definition is_returned (r : res) : bool :=
  match r with ROk (_ :: _) => true | RErr _ => true | _ => false end.
Lemma floop_unfold : forall f s next start ad,
  simple_loop (S f) s next start ad =
    let n := Z.of_nat (length (fst s)) in
    if (next <? 0) || (next >=? n) then (s, start, RPanic)
    else
      let i := Z.to_nat next in
      let b := getb s i in
      if bav b && (bcur b >? 0) then
        (setb (tick s) i (add_cur (-1)), move_next next n, ROk [bid b])
      else
        let s1 := tick s in
        let all_down' := if bav b && (bw b >? 0) then false else ad in
        let next' := move_next next n in
        if next' =? start then
          if all_down' then (s1, start, RErr 1)
          else simple_loop f (reset_cur s1) 0 0 true
        else simple_loop f s1 next' start all_down'.
Proof. reflexivity. Qed.

Lemma in_range_false' : forall p n, 0 <= p < n -> (p <? 0) || (p >=? n) = false.
Proof.
  intros p n H. apply orb_false_iff. split; [apply Z.ltb_ge; lia|].
  rewrite Z.geb_leb. apply Z.leb_gt. lia.
Qed.
Lemma move_next_range : forall p n, 0 <= p < n -> 0 <= move_next p n < n.
Proof. intros p n H. unfold move_next. destruct (p + 1 >=? n) eqn:G; rewrite Z.geb_leb in G; [lia|apply Z.leb_gt in G; lia]. Qed.

(* a full static pass after a reset (every available positive-weight backend has credit): returns *)
Lemma pass_after_reset : forall bs (k : nat) p fuel,
  (forall i, bav (getb (bs, []) i) = true -> bw (getb (bs, []) i) > 0 -> bcur (getb (bs, []) i) > 0) ->
  0 <= p -> Z.of_nat k = Z.of_nat (length bs) - p -> (k <= fuel)%nat -> (0 < k)%nat ->
  is_returned (snd (simple_loop fuel (bs, []) p 0 true)) = true.
Proof.
  intros bs. induction k as [|k IH]; intros p fuel Hinv Hp Hk Hf Hpos; [lia|].
  destruct fuel as [|f]; [lia|]. rewrite floop_unfold. cbv zeta. cbn [fst].
  rewrite in_range_false' by lia.
  set (b := getb (bs, []) (Z.to_nat p)).
  destruct (bav b && (bcur b >? 0)) eqn:Eok; [reflexivity|].
  change (tick (bs, [])) with ((bs, []) : dyn).
  assert (Had : (if bav b && (bw b >? 0) then false else true) = true).
  { destruct (bav b && (bw b >? 0)) eqn:G; [|reflexivity]. exfalso.
    apply andb_true_iff in G. destruct G as [G1 G2]. rewrite Z.gtb_ltb in G2. apply Z.ltb_lt in G2.
    pose proof (Hinv (Z.to_nat p) G1) as Hc. unfold b in *. rewrite G1 in Eok. simpl in Eok.
    rewrite Z.gtb_ltb in Eok. apply Z.ltb_ge in Eok. lia. }
  rewrite Had.
  destruct (move_next p (Z.of_nat (length bs)) =? 0) eqn:Ew; [reflexivity|].
  apply Z.eqb_neq in Ew. unfold move_next in *.
  destruct (p + 1 >=? Z.of_nat (length bs)) eqn:G; [contradiction|]. rewrite Z.geb_leb in G. apply Z.leb_gt in G.
  apply IH; [exact Hinv|lia|lia|lia|lia].
Qed.

Lemma reset_getb' : forall bs i,
  getb (reset_cur (bs, [])) i =
  mkBe (bid (getb (bs, []) i)) (bw (getb (bs, []) i)) (bw (getb (bs, []) i)) (bav (getb (bs, []) i)) (bcn (getb (bs, []) i)).
Proof.
  intros bs i. unfold reset_cur, getb. cbn [fst snd].
  change be0 with ((fun b => mkBe (bid b) (bw b) (bw b) (bav b) (bcn b)) be0) at 1.
  rewrite map_nth. reflexivity.
Qed.

Definition dist' (next start n : Z) : Z := if next <? start then start - next else n - next + start.

Lemma static_returns : forall bs (d : nat) next start ad fuel,
  0 <= next < Z.of_nat (length bs) -> 0 <= start < Z.of_nat (length bs) ->
  Z.of_nat d = dist' next start (Z.of_nat (length bs)) ->
  (d + length bs <= fuel)%nat ->
  is_returned (snd (simple_loop fuel (bs, []) next start ad)) = true.
Proof.
  intros bs. induction d as [|d IH]; intros next start ad fuel Hnx Hst Hd Hf.
  - unfold dist' in Hd. destruct (next <? start) eqn:G; [apply Z.ltb_lt in G|apply Z.ltb_ge in G]; lia.
  - destruct fuel as [|f]; [lia|]. rewrite floop_unfold. cbv zeta. cbn [fst].
    rewrite in_range_false' by lia.
    set (b := getb (bs, []) (Z.to_nat next)).
    destruct (bav b && (bcur b >? 0)) eqn:Eok; [reflexivity|].
    change (tick (bs, [])) with ((bs, []) : dyn).
    set (ad' := if bav b && (bw b >? 0) then false else ad).
    unfold dist' in Hd.
    destruct (move_next next (Z.of_nat (length bs)) =? start) eqn:Ewrap.
    + destruct ad'; [reflexivity|].
      assert (Hlen : length (fst (reset_cur (bs, []))) = length bs) by (unfold reset_cur; cbn [fst]; apply map_length).
      change (reset_cur (bs, [])) with ((fst (reset_cur (bs, [])), []) : dyn).
      apply (pass_after_reset (fst (reset_cur (bs, []))) (length bs) 0 f).
      * intros i Hav Hw. change ((fst (reset_cur (bs, [])), []) : dyn) with (reset_cur (bs, [])) in *.
        rewrite reset_getb' in *. cbn [bav bw bcur] in *. exact Hw.
      * lia.
      * rewrite Hlen. lia.
      * lia.
      * lia.
    + apply Z.eqb_neq in Ewrap. unfold move_next in *.
      destruct (next + 1 >=? Z.of_nat (length bs)) eqn:G; rewrite Z.geb_leb in G;
        [apply Z.leb_le in G|apply Z.leb_gt in G];
        destruct (next <? start) eqn:G2; [apply Z.ltb_lt in G2|apply Z.ltb_ge in G2|apply Z.ltb_lt in G2|apply Z.ltb_ge in G2];
        (apply IH; [lia|lia| |lia]); unfold dist';
        match goal with |- context [?x <? ?y] => destruct (Z.ltb_spec x y) end; lia.
Qed.

Lemma apply_flip_len : forall bs f, length (apply_flip bs f) = length bs.
Proof. intros bs [[id k] v]. unfold apply_flip. apply map_length. Qed.
Lemma apply_flips_len : forall fs bs, length (apply_flips bs fs) = length bs.
Proof.
  unfold apply_flips. induction fs as [|f r IH]; intros bs; simpl; [reflexivity|]. rewrite IH. apply apply_flip_len.
Qed.
Lemma dist_le : forall next start n, 0 <= next < n -> 0 <= start < n -> 1 <= dist' next start n <= n.
Proof. intros. unfold dist'. destruct (Z.ltb_spec next start); lia. Qed.

(* every script: the call returns within |script| + 2*len probes *)
Lemma scripted_returns : forall sc bs next start ad fuel,
  0 <= next < Z.of_nat (length bs) -> 0 <= start < Z.of_nat (length bs) ->
  (length sc + 2 * length bs <= fuel)%nat ->
  is_returned (snd (simple_loop fuel (bs, sc) next start ad)) = true.
Proof.
  induction sc as [|fs sc IH]; intros bs next start ad fuel Hnx Hst Hf.
  - pose proof (dist_le next start _ Hnx Hst) as Hd.
    apply (static_returns bs (Z.to_nat (dist' next start (Z.of_nat (length bs))))); [exact Hnx|exact Hst|rewrite Z2Nat.id; lia|].
    simpl in Hf. lia.
  - destruct fuel as [|f]; [simpl in Hf; lia|]. rewrite floop_unfold. cbv zeta. cbn [fst].
    rewrite in_range_false' by lia.
    destruct (bav (getb (bs, fs :: sc) (Z.to_nat next)) && (bcur (getb (bs, fs :: sc) (Z.to_nat next)) >? 0)); [reflexivity|].
    change (tick (bs, fs :: sc)) with ((apply_flips bs fs, sc) : dyn).
    assert (Hl : length (apply_flips bs fs) = length bs) by apply apply_flips_len.
    destruct (move_next next (Z.of_nat (length bs)) =? start).
    + destruct (if bav (getb (bs, fs :: sc) (Z.to_nat next)) && (bw (getb (bs, fs :: sc) (Z.to_nat next)) >? 0) then false else ad);
        [reflexivity|].
      unfold reset_cur. cbn [fst snd].
      apply IH; rewrite ?map_length, ?Hl; simpl in Hf; lia.
    + apply IH; rewrite ?Hl; [apply move_next_range; exact Hnx|exact Hst|simpl in Hf; lia].
Qed.

Theorem simple_total : forall bs sc next,
  (bs = [] \/ 0 <= next < Z.of_nat (length bs)) ->
  is_returned (snd (simple (length sc + 2 * length bs) (bs, sc) next)) = true.
Proof.
  intros bs sc next H. unfold simple. cbn [fst]. destruct bs as [|b r] eqn:E; [reflexivity|].
  destruct H as [H|H]; [discriminate|]. rewrite <- E in *.
  apply scripted_returns; [exact H|exact H|lia].
Qed.

(* the former defect witnesses now return *)
Definition neg_witness : dyn := ([mkBe 1 (-100) (-100) true 0; mkBe 2 100 100 false 0], []).
Definition flip_witness : dyn :=
  ([mkBe 1 100 0 true 0; mkBe 2 100 100 false 0], [[(1, 0, 0)]]).
Lemma former_witnesses :
  snd (simple (simple_fuel neg_witness) neg_witness 0) = RErr 1 /\
  snd (simple (simple_fuel flip_witness) flip_witness 0) = RErr 1 /\
  snd (simple 5 (fst flip_witness, []) 0) = ROk [1] /\
  snd (simple 0 ([], []) 0) = RErr 1.
Proof. repeat split; vm_compute; reflexivity. Qed.

(* ---------- every model result is well-shaped: ROk never carries an empty id list ---------- *)
Definition res_wf (r : res) : Prop := match r with ROk ids => ids <> [] | _ => True end.
Lemma returned_wf : forall r, returned r -> res_wf r.
Proof. intros r [[ids [-> H]]|[c ->]]; simpl; auto. Qed.
Lemma simple_loop_wf : forall fuel s next start ad, res_wf (snd (simple_loop fuel s next start ad)).
Proof.
  induction fuel as [|f IH]; intros s next start ad; simpl; [exact I|].
  destruct ((next <? 0) || (next >=? Z.of_nat (length (fst s)))); [exact I|].
  destruct (bav (getb s (Z.to_nat next)) && (bcur (getb s (Z.to_nat next)) >? 0)); [simpl; discriminate|].
  destruct (move_next next (Z.of_nat (length (fst s))) =? start).
  - destruct (if bav (getb s (Z.to_nat next)) && (bw (getb s (Z.to_nat next)) >? 0) then false else ad);
      [exact I|apply IH].
  - apply IH.
Qed.
Lemma wlc_simple_wf : forall s, res_wf (snd (wlc_simple s)).
Proof.
  intros s. unfold wlc_simple. destruct (least_conns s) as [s1 [c|]]; [|exact I].
  destruct c as [|a [|b c']]; simpl; try exact I; discriminate.
Qed.
Lemma balance_wf : forall algo h sc r, res_wf (snd (balance algo h sc r)).
Proof.
  intros algo h sc r. unfold balance.
  destruct (algo =? 0).
  - unfold simple. cbn [fst]. destruct (backends r) as [|b0 r0] eqn:Eb; [exact I|]. rewrite <- Eb.
    pose proof (simple_loop_wf (simple_fuel (backends r, sc)) (backends r, sc) (nxt r) (nxt r) true) as H.
    destruct (simple_loop _ _ _ _ _) as [[s1 nx] o]. exact H.
  - destruct (algo =? 2).
    + pose proof (sticky_total h (backends r, sc)) as H. destruct (sticky h _) as [s1 o]. apply returned_wf. exact H.
    + destruct (algo =? 3).
      * pose proof (wlc_simple_wf (backends r, sc)) as H. destruct (wlc_simple _) as [s1 o]. exact H.
      * destruct (algo =? 4).
        -- pose proof (wlc_smooth_total (backends r, sc)) as H. destruct (wlc_smooth _) as [s1 o]. apply returned_wf. exact H.
        -- pose proof (smooth_total (positions (backends r, sc)) (backends r, sc)) as H.
           destruct (smooth _ _) as [s1 o]. apply returned_wf. exact H.
Qed.

(* ---------- the wire-level statement: outside the finding classes the model satisfies prop_C05 ---------- *)
Definition entry_ok (e : val * option (Z * res)) : Prop :=
  match e with
  | (obs, Some (_, r)) => res_wf r /\ exists h x st, obs = VL (VZ h :: enc_res r :: x :: st)
  | (obs, None) => obs_ok obs = true
  end.
Lemma run_ops_entries : forall ops r hs l, run_ops r ops hs = Some l -> Forall entry_ok l.
Proof.
  induction ops as [|v rest IH]; intros r hs l H; simpl in H.
  - inversion H. constructor.
  - destruct (dec_op v) as [o|]; [|discriminate].
    destruct (negb (wf_op r o)); [discriminate|].
    destruct (step r o _) as [[r' obs] x] eqn:Es.
    assert (Hent : entry_ok (obs, x)).
    { destruct o as [algo sc|id b|id d|conf]; simpl in Es.
      - pose proof (balance_wf algo (hd 0 hs) sc r) as Hwf.
        destruct (balance algo (hd 0 hs) sc r) as [r2 y]. inversion Es; subst. simpl.
        split; [exact Hwf|]. eexists. eexists. eexists. reflexivity.
      - inversion Es; subst. reflexivity.
      - inversion Es; subst. reflexivity.
      - inversion Es; subst. reflexivity. }
    destruct x as [[a y]|].
    + destruct y; try (destruct (run_ops r' rest _) as [l'|] eqn:E; [|discriminate]; inversion H; subst;
                       constructor; [exact Hent|eapply IH; exact E]).
      inversion H; subst. constructor; [exact Hent|constructor].
    + destruct (run_ops r' rest _) as [l'|] eqn:E; [|discriminate]. inversion H; subst.
      constructor; [exact Hent|eapply IH; exact E].
Qed.
Lemma first_bad_ok : forall l, Forall entry_ok l -> first_bad l = 0 -> forallb obs_ok (map fst l) = true.
Proof.
  induction l as [|[obs x] l IH]; intros HF Hb; [reflexivity|].
  inversion HF as [|? ? He HF']; subst. simpl.
  destruct x as [[a y]|].
  - destruct He as [Hwf [h [x0 [st ->]]]].
    destruct y as [ids|c| |]; simpl in Hb.
    + rewrite (IH HF' Hb). destruct ids as [|x ids']; [exfalso; apply Hwf; reflexivity|reflexivity].
    + rewrite (IH HF' Hb). reflexivity.
    + destruct (a =? 0); discriminate.
    + discriminate.
  - simpl in He. rewrite He. simpl in Hb. rewrite (IH HF' Hb). reflexivity.
Qed.
(* ---------- BalanceGslb.Balance: total for every cluster, retry count, hash and script ---------- *)
Lemma sub_balance_returned : forall algo h sc r, returned (snd (fst (sub_balance algo h sc r))).
Proof.
  intros algo h sc r. unfold sub_balance. destruct (backends r) as [|b0 r0] eqn:E.
  - right. eexists. reflexivity.
  - rewrite <- E. destruct (algo =? 2).
    + pose proof (sticky_total h (backends r, sc)) as H. destruct (sticky h _) as [s1 o]. exact H.
    + destruct (algo =? 4).
      * pose proof (wlc_smooth_total (backends r, sc)) as H. destruct (wlc_smooth _) as [s1 o]. exact H.
      * pose proof (smooth_total (positions (backends r, sc)) (backends r, sc)) as H. destruct (smooth _ _) as [s1 o]. exact H.
Qed.
Definition gres (x : gcluster * res * Z * Z) : res := snd (fst (fst x)).
Theorem gslb_total : forall algo h retry sc c, returned (gres (gslb_balance algo h retry sc c)).
Proof.
  intros algo h retry sc c. unfold gslb_balance, gres.
  destruct (retry >? grmax c + gcross c); [right; eexists; reflexivity|].
  destruct (gchoose c h) as [k|]; [|right; eexists; reflexivity].
  destruct (retry <=? grmax c) eqn:Ea.
  - pose proof (sub_balance_returned algo h sc (gbrr (gnth (gsubs c) k))) as H1.
    destruct (sub_balance algo h sc (gbrr (gnth (gsubs c) k))) as [[r' o] sc'] eqn:E1. simpl in H1.
    cbn [andb]. destruct (is_ok o) eqn:Eo; [exact H1|].
    destruct (gcross c <=? 0); [right; eexists; reflexivity|].
    match goal with |- context [filter ?f ?l] => destruct (filter f l) as [|j [|j2 cs]] end;
      try (right; eexists; reflexivity).
    match goal with |- context [sub_balance algo h sc' ?r] =>
      pose proof (sub_balance_returned algo h sc' r) as H2; destruct (sub_balance algo h sc' r) as [[r2 o2] sc2] end.
    simpl in H2. destruct (is_ok o2); [exact H2|right; eexists; reflexivity].
  - cbn [andb]. destruct (gcross c <=? 0); [right; eexists; reflexivity|].
    match goal with |- context [filter ?f ?l] => destruct (filter f l) as [|j [|j2 cs]] end;
      try (right; eexists; reflexivity).
    match goal with |- context [sub_balance algo h sc ?r] =>
      pose proof (sub_balance_returned algo h sc r) as H2; destruct (sub_balance algo h sc r) as [[r2 o2] sc2] end.
    simpl in H2. destruct (is_ok o2); [exact H2|right; eexists; reflexivity].
Qed.

(* ---------- the hash conf: what the loader accepts never makes getHashKey dereference nil ---------- *)
Lemma check_hc_ok : forall sp strat hk stp st hc, hash_conf_check sp strat hk stp st = Some hc -> hc_ok hc = true.
Proof.
  intros sp strat hk stp st hc H. unfold hash_conf_check in H.
  destruct (negb _); [discriminate|].
  destruct (((if sp =? 0 then 1 else strat) =? 0) || ((if sp =? 0 then 1 else strat) =? 2)) eqn:E1; simpl in H.
  - destruct ((hk =? 2) || (hk =? 3)) eqn:E2; simpl in H; [|discriminate]. inversion H; subst. unfold hc_ok. rewrite E1. simpl.
    destruct (hk =? 0) eqn:E0; [|reflexivity]. apply Z.eqb_eq in E0. subst. discriminate.
  - inversion H; subst. unfold hc_ok. rewrite E1. reflexivity.
Qed.
Lemma hc_default_ok : hc_ok hc_default = true.
Proof. reflexivity. Qed.
Theorem gslb_hc_total : forall hc algo h retry sc c, hc_ok hc = true ->
  returned (gres (gslb_balance_hc hc algo h retry sc c)).
Proof.
  intros [[s hk] sticky] algo h retry sc c Hok. unfold gslb_balance_hc, hc_ok in *.
  destruct (retry >? grmax c + gcross c); [right; eexists; reflexivity|].
  destruct (((s =? 0) || (s =? 2)) && (hk =? 0)); [discriminate|]. apply gslb_total.
Qed.
Lemma gslb_hc_wf : forall hc algo h retry sc c, res_wf (gres (gslb_balance_hc hc algo h retry sc c)).
Proof.
  intros [[s hk] sticky] algo h retry sc c. unfold gslb_balance_hc.
  destruct (retry >? grmax c + gcross c); [exact I|].
  destruct (((s =? 0) || (s =? 2)) && (hk =? 0)); [exact I|]. apply returned_wf. apply gslb_total.
Qed.

Lemma run_gops_entries : forall ops hc c hs l, run_gops hc c ops hs = Some l -> Forall entry_ok l.
Proof.
  induction ops as [|v rest IH]; intros hc c hs l H; simpl in H.
  - inversion H. constructor.
  - destruct (dec_gop v) as [o|]; [|discriminate].
    destruct (negb match o with GBack cb => wf_gback cb c | _ => true end); [discriminate|].
    destruct (gstep hc c o _) as [[[hc' c'] obs] x] eqn:Es.
    destruct (negb (wf_gstate c')); [discriminate|].
    assert (Hent : entry_ok (obs, x)).
    { destruct o as [algo retry sc|id b|id d|g|cb|sp strat hk stp st]; simpl in Es.
      - pose proof (gslb_hc_wf hc algo (hd 0 hs) retry sc c) as Hr. unfold gres in Hr.
        destruct (gslb_balance_hc hc algo (hd 0 hs) retry sc c) as [[[c2 y] sub] rt]. simpl in Hr. inversion Es; subst. simpl.
        split; [exact Hr|]. eexists. eexists. eexists. reflexivity.
      - inversion Es; subst. reflexivity.
      - inversion Es; subst. reflexivity.
      - destruct (greload g c) as [c2 e]. inversion Es; subst. reflexivity.
      - inversion Es; subst. reflexivity.
      - destruct (hash_conf_check sp strat hk stp st); inversion Es; subst; reflexivity. }
    destruct (match x with Some (_, RErr c99) => c99 =? 99 | _ => false end).
    { inversion H; subst. constructor; [exact Hent|constructor]. }
    destruct (run_gops hc' c' rest _) as [l'|] eqn:E; [|discriminate]. inversion H; subst.
    constructor; [exact Hent|eapply IH; exact E].
Qed.
Theorem model_satisfies_prop : forall i, kf_C05 i = 0 -> prop_C05 i (run_C05 i) = true.
Proof.
  intros i Hk. unfold kf_C05 in Hk. unfold run_C05, prop_C05.
  destruct (run_with i []) as [l|] eqn:E; [|reflexivity].
  apply first_bad_ok; [|exact Hk].
  unfold run_with in E.
  repeat match type of E with
  | match ?x with _ => _ end = _ => destruct x eqn:?; try discriminate
  | (if ?x then _ else _) = _ => destruct x eqn:?; try discriminate
  end;
  first [eapply run_ops_entries; exact E | eapply run_gops_entries; exact E].
Qed.


(* ---------- brr.next stays in range, lists keep their length: no wire input reaches RPanic / RFuel ---------- *)
Lemma tick_len : forall s, length (fst (tick s)) = length (fst s).
Proof. intros [bs [|fs sc]]; simpl; [reflexivity|apply apply_flips_len]. Qed.
Lemma setb_len : forall s i f, length (fst (setb s i f)) = length (fst s).
Proof.
  intros [bs sc] i f. unfold setb. cbn [fst]. revert i. induction bs as [|b r IH]; intros i; [reflexivity|].
  destruct i; simpl; [reflexivity|]. f_equal. apply IH.
Qed.
Lemma reset_len : forall s, length (fst (reset_cur s)) = length (fst s).
Proof. intros s. unfold reset_cur. cbn [fst]. apply map_length. Qed.
Lemma ins_be_len : forall b l, length (ins_be b l) = S (length l).
Proof. intros b. induction l as [|x r IH]; simpl; [reflexivity|]. destruct (bid b <? bid x); simpl; [reflexivity|]. rewrite IH. reflexivity. Qed.
Lemma sort_be_len : forall l, length (sort_be l) = length l.
Proof. unfold sort_be. induction l as [|x r IH]; simpl; [reflexivity|]. rewrite ins_be_len, IH. reflexivity. Qed.

Lemma smooth_scan_len : forall idx s best mx total,
  length (fst (fst (fst (smooth_scan idx s best mx total)))) = length (fst s).
Proof.
  induction idx as [|i r IH]; intros s best mx total; simpl; [reflexivity|].
  destruct (negb (eligible (getb s i))).
  - rewrite IH. apply tick_len.
  - rewrite IH, setb_len. apply tick_len.
Qed.
Lemma smooth_len : forall idx s, length (fst (fst (smooth idx s))) = length (fst s).
Proof.
  intros idx s. unfold smooth. pose proof (smooth_scan_len idx s None 0 0) as H.
  destruct (smooth_scan idx s None 0 0) as [[s1 best] total]. simpl in H.
  destruct best as [i|]; [|exact H].
  change (length (fst (setb s1 i (add_cur (- total)))) = length (fst s)). rewrite setb_len. exact H.
Qed.
Lemma comp_read_len : forall s j i, length (fst (fst (comp_read s j i))) = length (fst s).
Proof. intros. unfold comp_read. simpl. rewrite !tick_len. reflexivity. Qed.
Lemma lc_pass1_len : forall idx s best single,
  length (fst (fst (fst (lc_pass1 idx s best single)))) = length (fst s).
Proof.
  induction idx as [|i r IH]; intros s best single; simpl; [reflexivity|].
  destruct (negb (eligible (getb s i))); [rewrite IH; apply tick_len|].
  destruct best as [j|]; [|rewrite IH; apply tick_len].
  destruct (_ >? 0); [rewrite IH, !tick_len; reflexivity|].
  destruct (_ =? 0); rewrite IH, !tick_len; reflexivity.
Qed.
Lemma lc_pass2_len : forall idx s j acc, length (fst (fst (lc_pass2 idx s j acc))) = length (fst s).
Proof.
  induction idx as [|i r IH]; intros s j acc; simpl; [reflexivity|].
  destruct (negb (eligible (getb s i))); [rewrite IH; apply tick_len|].
  destruct (_ =? 0); rewrite IH, !tick_len; reflexivity.
Qed.
Lemma least_conns_len : forall s, length (fst (fst (least_conns s))) = length (fst s).
Proof.
  intros s. unfold least_conns. pose proof (lc_pass1_len (positions s) s None true) as H1.
  destruct (lc_pass1 (positions s) s None true) as [[s1 best] single]. simpl in H1.
  destruct best as [j|]; [|exact H1]. destruct single; [exact H1|].
  pose proof (lc_pass2_len (positions s1) s1 j []) as H2. destruct (lc_pass2 (positions s1) s1 j []) as [s2 c].
  simpl in *. congruence.
Qed.
Lemma wlc_smooth_len : forall s, length (fst (fst (wlc_smooth s))) = length (fst s).
Proof.
  intros s. unfold wlc_smooth. pose proof (least_conns_len s) as H. destruct (least_conns s) as [s1 oc]. simpl in H.
  destruct oc as [[|j [|k c]]|]; try exact H; rewrite smooth_len; exact H.
Qed.
Lemma wlc_simple_len : forall s, length (fst (fst (wlc_simple s))) = length (fst s).
Proof.
  intros s. unfold wlc_simple. pose proof (least_conns_len s) as H. destruct (least_conns s) as [s1 oc]. simpl in H.
  destruct oc as [[|j [|k c]]|]; exact H.
Qed.
Lemma sticky_scan_len : forall idx s acc total,
  length (fst (fst (fst (sticky_scan idx s acc total)))) = length (fst s).
Proof.
  induction idx as [|i r IH]; intros s acc total; simpl; [reflexivity|].
  destruct (eligible (getb s i)); rewrite IH; apply tick_len.
Qed.
Lemma sticky_len : forall h s, length (fst (fst (sticky h s))) = length (fst s).
Proof.
  intros h s. unfold sticky.
  pose proof (sticky_scan_len (positions (sort_be (fst s), snd s)) (sort_be (fst s), snd s) [] 0) as H.
  destruct (sticky_scan _ _ [] 0) as [[s1 c] total]. simpl in H. rewrite sort_be_len in H.
  destruct c; [exact H|]. destruct (total =? 0); exact H.
Qed.

Lemma simple_loop_inv : forall fuel s next start ad,
  0 <= next < Z.of_nat (length (fst s)) -> 0 <= start < Z.of_nat (length (fst s)) ->
  let '(s1, nx, _) := simple_loop fuel s next start ad in
  length (fst s1) = length (fst s) /\ 0 <= nx < Z.of_nat (length (fst s)).
Proof.
  induction fuel as [|f IH]; intros s next start ad Hn Hs; [simpl; split; [reflexivity|exact Hs]|].
  rewrite floop_unfold. cbv zeta. rewrite in_range_false' by exact Hn.
  destruct (bav (getb s (Z.to_nat next)) && (bcur (getb s (Z.to_nat next)) >? 0)).
  - split; [rewrite setb_len; apply tick_len|apply move_next_range; exact Hn].
  - destruct (move_next next (Z.of_nat (length (fst s))) =? start).
    + destruct (if bav (getb s (Z.to_nat next)) && (bw (getb s (Z.to_nat next)) >? 0) then false else ad).
      * split; [apply tick_len|exact Hs].
      * pose proof (IH (reset_cur (tick s)) 0 0 true) as H. rewrite reset_len, tick_len in H.
        destruct (simple_loop f (reset_cur (tick s)) 0 0 true) as [[s1 nx] o]. apply H; lia.
    + pose proof (IH (tick s) (move_next next (Z.of_nat (length (fst s)))) start
                     (if bav (getb s (Z.to_nat next)) && (bw (getb s (Z.to_nat next)) >? 0) then false else ad)) as H.
      rewrite tick_len in H.
      destruct (simple_loop f (tick s) _ start _) as [[s1 nx] o]. apply H; [apply move_next_range; exact Hn|exact Hs].
Qed.

Definition brr_ok (r : brr) : Prop := backends r = [] \/ 0 <= nxt r < Z.of_nat (length (backends r)).
Definition good_res (x : res) : Prop := x <> RPanic /\ x <> RFuel.
Lemma returned_good : forall x, returned x -> good_res x.
Proof. intros x [[ids [-> _]]|[c ->]]; split; discriminate. Qed.
Lemma is_returned_good : forall x, is_returned x = true -> good_res x.
Proof. intros [[|a l]|c| |] H; try discriminate; split; discriminate. Qed.

Lemma balance_ok : forall algo h sc r, brr_ok r ->
  brr_ok (fst (balance algo h sc r)) /\ good_res (snd (balance algo h sc r)).
Proof.
  intros algo h sc r Hok. unfold balance.
  destruct (algo =? 0).
  - unfold simple. cbn [fst]. destruct (backends r) as [|b0 r0] eqn:Eb.
    + simpl. split; [left; reflexivity|split; discriminate].
    + rewrite <- Eb. destruct Hok as [Hok|Hok]; [congruence|].
      pose proof (simple_loop_inv (simple_fuel (backends r, sc)) (backends r, sc) (nxt r) (nxt r) true Hok Hok) as Hi.
      pose proof (scripted_returns sc (backends r) (nxt r) (nxt r) true (simple_fuel (backends r, sc)) Hok Hok) as Ht.
      unfold simple_fuel in Ht at 1. cbn [fst snd] in Ht. specialize (Ht (le_n _)).
      destruct (simple_loop _ _ _ _ _) as [[s1 nx] o]. cbn [fst snd] in *. destruct Hi as [Hl Hx].
      split; [right; simpl; rewrite Hl; exact Hx|apply is_returned_good; exact Ht].
  - assert (Hkeep : forall s1 : dyn, length (fst s1) = length (backends r) -> brr_ok (mkBrr (fst s1) (nxt r))).
    { intros s1 Hl. destruct Hok as [Hok|Hok].
      - left. simpl. rewrite Hok in Hl. destruct (fst s1); [reflexivity|discriminate].
      - right. simpl. rewrite Hl. exact Hok. }
    destruct (algo =? 2).
    + pose proof (sticky_total h (backends r, sc)) as H. pose proof (sticky_len h (backends r, sc)) as Hl.
      destruct (sticky h _) as [s1 o]. simpl in *. split; [apply Hkeep; exact Hl|apply returned_good; exact H].
    + destruct (algo =? 3).
      * pose proof (wlc_simple_total (backends r, sc)) as H. pose proof (wlc_simple_len (backends r, sc)) as Hl.
        destruct (wlc_simple _) as [s1 o]. simpl in *. split; [apply Hkeep; exact Hl|apply returned_good; exact H].
      * destruct (algo =? 4).
        -- pose proof (wlc_smooth_total (backends r, sc)) as H. pose proof (wlc_smooth_len (backends r, sc)) as Hl.
           destruct (wlc_smooth _) as [s1 o]. simpl in *. split; [apply Hkeep; exact Hl|apply returned_good; exact H].
        -- pose proof (smooth_total (positions (backends r, sc)) (backends r, sc)) as H.
           pose proof (smooth_len (positions (backends r, sc)) (backends r, sc)) as Hl.
           destruct (smooth _ _) as [s1 o]. simpl in *. split; [apply Hkeep; exact Hl|apply returned_good; exact H].
Qed.

Lemma set_dyn_ok : forall id f r, brr_ok r -> brr_ok (set_dyn id f r).
Proof.
  intros id f r [H|H]; unfold set_dyn, brr_ok; simpl.
  - left. rewrite H. reflexivity.
  - right. rewrite map_length. exact H.
Qed.
Lemma update_ok : forall conf r, brr_ok (update conf r).
Proof.
  intros conf r. unfold update, brr_ok. simpl. destruct (update_kept conf (backends r) ++ _) as [|b l]; [left; reflexivity|].
  right. simpl. lia.
Qed.
Lemma init_ok : forall conf, brr_ok (init conf).
Proof.
  intros conf. unfold init, brr_ok. simpl. destruct conf as [|p l]; [left; reflexivity|]. right. simpl. lia.
Qed.

Lemma run_ops_good : forall ops r hs l, brr_ok r -> run_ops r ops hs = Some l -> first_bad l = 0.
Proof.
  induction ops as [|v rest IH]; intros r hs l Hok H; simpl in H.
  - inversion H. reflexivity.
  - destruct (dec_op v) as [o|]; [|discriminate].
    destruct (negb (wf_op r o)); [discriminate|].
    destruct (step r o _) as [[r' obs] x] eqn:Es.
    assert (Hstep : brr_ok r' /\ match x with Some (_, y) => good_res y | None => True end).
    { destruct o as [algo sc|id b|id d|conf]; simpl in Es.
      - pose proof (balance_ok algo (hd 0 hs) sc r Hok) as [H1 H2].
        destruct (balance algo (hd 0 hs) sc r) as [r2 y]. inversion Es; subst. split; assumption.
      - inversion Es; subst. split; [apply set_dyn_ok; exact Hok|exact I].
      - inversion Es; subst. split; [apply set_dyn_ok; exact Hok|exact I].
      - inversion Es; subst. split; [apply update_ok|exact I]. }
    destruct Hstep as [Hok' Hg].
    destruct x as [[a y]|].
    + destruct Hg as [Hp Hf].
      destruct y; try congruence;
        (destruct (run_ops r' rest _) as [l'|] eqn:E; [|discriminate]; inversion H; subst; simpl; eapply IH; eassumption).
    + destruct (run_ops r' rest _) as [l'|] eqn:E; [|discriminate]. inversion H; subst. simpl. eapply IH; eassumption.
Qed.
Lemma run_gops_good : forall ops hc c hs l, hc_ok hc = true -> run_gops hc c ops hs = Some l -> first_bad l = 0.
Proof.
  induction ops as [|v rest IH]; intros hc c hs l Hok H; simpl in H.
  - inversion H. reflexivity.
  - destruct (dec_gop v) as [o|]; [|discriminate].
    destruct (negb match o with GBack cb => wf_gback cb c | _ => true end); [discriminate|].
    destruct (gstep hc c o _) as [[[hc' c'] obs] x] eqn:Es.
    destruct (negb (wf_gstate c')); [discriminate|].
    assert (Hg : hc_ok hc' = true /\ match x with Some (_, y) => good_res y | None => True end).
    { destruct o as [algo retry sc|id b|id d|g|cb|sp strat hk stp st]; simpl in Es.
      - pose proof (gslb_hc_total hc algo (hd 0 hs) retry sc c Hok) as Hr. unfold gres in Hr.
        destruct (gslb_balance_hc hc algo (hd 0 hs) retry sc c) as [[[c2 y] sub] rt]. simpl in Hr. inversion Es; subst.
        split; [exact Hok|apply returned_good; exact Hr].
      - inversion Es; subst. split; [exact Hok|exact I].
      - inversion Es; subst. split; [exact Hok|exact I].
      - destruct (greload g c) as [c2 e]. inversion Es; subst. split; [exact Hok|exact I].
      - inversion Es; subst. split; [exact Hok|exact I].
      - destruct (hash_conf_check sp strat hk stp st) as [hc2|] eqn:Ec; inversion Es; subst;
          (split; [|exact I]); [eapply check_hc_ok; exact Ec|exact Hok]. }
    destruct Hg as [Hok' Hg].
    assert (Hfb : forall l', first_bad l' = 0 -> first_bad ((obs, x) :: l') = 0).
    { intros l' Hl. simpl. destruct x as [[a y]|]; [|exact Hl]. destruct Hg as [Hp Hf]. destruct y; try congruence; exact Hl. }
    destruct (match x with Some (_, RErr c99) => c99 =? 99 | _ => false end).
    { inversion H; subst. apply Hfb. reflexivity. }
    destruct (run_gops hc' c' rest _) as [l'|] eqn:E; [|discriminate]. inversion H; subst.
    apply Hfb. eapply IH; [exact Hok'|exact E].
Qed.
Theorem kf_zero : forall i, kf_C05 i = 0.
Proof.
  intros i. unfold kf_C05. destruct (run_with i []) as [l|] eqn:E; [|reflexivity].
  unfold run_with in E.
  repeat match type of E with
  | match ?x with _ => _ end = _ => destruct x eqn:?; try discriminate
  | (if ?x then _ else _) = _ => destruct x eqn:?; try discriminate
  end;
  first [eapply run_ops_good; [apply init_ok|exact E] | eapply run_gops_good; [apply hc_default_ok|exact E]].
Qed.
Theorem model_satisfies_prop_all : forall i, prop_C05 i (run_C05 i) = true.
Proof. intros i. apply model_satisfies_prop. apply kf_zero. Qed.

(* non-vacuity examples *)
Lemma ex_smooth_flip :
  snd (smooth [0%nat; 1%nat] ([mkBe 1 100 100 true 0; mkBe 2 200 200 true 0], [[(2, 0, 0)]])) = ROk [1]
  /\ snd (smooth [0%nat; 1%nat] ([mkBe 1 100 100 true 0; mkBe 2 200 200 true 0], [])) = ROk [2].
Proof. split; vm_compute; reflexivity. Qed.
Lemma ex_wire :
  let i := VL [VL [VL [VZ 1; VZ 1]; VL [VZ 2; VZ 2]];
               VL [VL [VZ 2; VZ 2; VZ 0]; VL [VZ 1; VZ 0; VB []; VL [VL [VL [VZ 1; VZ 0; VZ 0]]]]; VL [VZ 1; VZ 1; VB []; VL []]]] in
  kf_C05 i = 0 /\ run_C05 i <> VErr 0.
Proof. split; vm_compute; [reflexivity|discriminate]. Qed.
(* a gslb case: sub-cluster 0 (weight 1, backend 1) and 1 (weight 0, backend 2); backend 1 goes down after its first
   read; in-cluster selection already returned it *)
Lemma ex_wire_gslb :
  let i := VL [VL [VZ 7; VL [VL [VZ 0; VZ 1; VL [VL [VZ 1; VZ 1]]]; VL [VZ 1; VZ 0; VL [VL [VZ 2; VZ 1]]]]; VZ 1; VZ 1];
               VL [VL [VZ 6; VZ 1; VZ 0; VB [1]; VL [VL [VL [VZ 1; VZ 0; VZ 0]]]];
                   VL [VZ 6; VZ 1; VZ 0; VB [1]; VL []]]] in
  run_C05 i = VL [VL [VZ 0; VL [VZ 0; VZ 1]; VZ 0; VZ 0; VL [VL [VL [VL [VZ 1; VZ 100; VZ 100]]; VZ 0]; VL [VL [VL [VZ 2; VZ 100; VZ 100]]; VZ 0]]];
                  VL [VZ 0; VL [VZ 0; VZ 2]; VZ 1; VZ 1; VL [VL [VL [VL [VZ 1; VZ 100; VZ 100]]; VZ 0]; VL [VL [VL [VZ 2; VZ 100; VZ 100]]; VZ 0]]]].
Proof. vm_compute. reflexivity. Qed.
(* after a REJECTED reload (all weights 0: overwritten in place, totalWeight 3 kept) Balance still finds a sub-cluster:
   the walk falls back to the last one (1) and returns its backend 2 *)
Lemma ex_rejected_reload :
  let i := VL [VL [VZ 7; VL [VL [VZ 0; VZ 1; VL [VL [VZ 1; VZ 1]]]; VL [VZ 1; VZ 2; VL [VL [VZ 2; VZ 1]]]]; VZ 1; VZ 1];
               VL [VL [VZ 7; VL [VL [VZ 0; VZ 0]; VL [VZ 1; VZ 0]]]; VL [VZ 6; VZ 1; VZ 0; VB [1]; VL []]]] in
  match run_C05 i with
  | VL [VL [VZ 1; _]; VL [_; VL [VZ 0; VZ 2]; VZ 1; VZ 0; _]] => True
  | _ => False
  end.
Proof. vm_compute. exact I. Qed.
